import TM.SpanTerm
import Props.C02SpanScreen
import Props.C10
import Props.C11Mirror
/-!
# C02SpanTerm — the terminal over run-level screens refines the model terminal

`TM/SpanTerm.lean` is the dispatch of `TM/Term.lean` over screens stored as rows of runs (`SScr`).
`STerm.abs cw` maps both buffers through `SScr.abs`.  This file proves that the two dispatches
commute with `abs` for every token (`apply_refines`), hence for every token list (`run_refines`)
and every byte stream (`stream_refines`, `stream_rows`): state, events, invariant.

* §1 geometry-only updates: `setMargins_refines`, `saveCursor_refines`, `restoreCursor_refines`,
  `setCx_refines`, `setSty_refines`, `setWrap_refines`
* §2 `Ref cw r q` (same state through `abs`, equal events, invariant); lifting to the active buffer
  (`setScr_ref`, `withScr_ref`); one lemma per dispatch function: `switchScreen_refines`,
  `decMode_refines`, `decModes_refines`, `csiPlain_refines`, `csi_refines`; **`apply_refines`**,
  **`resize_refines`**, `apply_size`
* §3 `run_refines_from`, **`run_refines`** (`abs_init`, `inv_init`)
* §4 `tokWF_of_tokOK` (the tokeniser's tokens satisfy the token hypothesis), **`stream_refines`**,
  **`stream_rows`**
* §5 non-vacuity on a 6×3 terminal; `apply_needs_tokWF` (the token hypothesis cannot be dropped)
-/
namespace TM.C02SpanTerm
open TM TM.C02Span TM.C02SpanScreen

variable {cw : Nat → Nat}

/-! ## 1. geometry-only updates -/

@[simp] theorem abs_sx (cw : Nat → Nat) (s : SScr) : (s.abs cw).sx = s.sx := rfl
@[simp] theorem abs_sy (cw : Nat → Nat) (s : SScr) : (s.abs cw).sy = s.sy := rfl

/-- `setMargins` (DECSTBM) commutes with `abs`, keeps the invariant and the size -/
theorem setMargins_refines {s : SScr} (hs : SScr.inv cw s = true) (t b : Int) :
    (s.setMargins t b).abs cw = (s.abs cw).setMargins t b ∧ SScr.inv cw (s.setMargins t b) = true ∧
    (s.setMargins t b).w = s.w ∧ (s.setMargins t b).h = s.h := by
  obtain ⟨h1, h2, h3, h4, h5, h6, h7, h8, h9, h10⟩ := inv_iff.1 hs
  have e : (s.abs cw).setMargins t b =
      if t > b then s.abs cw else
        if clampNat t (s.h - 1) > clampNat b (s.h - 1) then s.abs cw
        else { s.abs cw with top := clampNat t (s.h - 1), bot := clampNat b (s.h - 1) } := rfl
  rw [e]
  unfold SScr.setMargins
  by_cases c1 : t > b
  · rw [if_pos c1, if_pos c1]; exact ⟨rfl, hs, rfl, rfl⟩
  · rw [if_neg c1, if_neg c1]
    by_cases c2 : clampNat t (s.h - 1) > clampNat b (s.h - 1)
    · rw [if_pos c2, if_pos c2]; exact ⟨rfl, hs, rfl, rfl⟩
    · rw [if_neg c2, if_neg c2]
      refine ⟨rfl, ?_, rfl, rfl⟩
      have := clampNat_le b (s.h - 1)
      exact inv_iff.2 ⟨h1, h2, h3, h4, h5, h6, h7, h8, by simp only; omega, by simp only; omega⟩

/-- `saveCursor` (CSI s) commutes with `abs` and keeps the invariant -/
theorem saveCursor_refines {s : SScr} (hs : SScr.inv cw s = true) :
    s.saveCursor.abs cw = (s.abs cw).saveCursor ∧ SScr.inv cw s.saveCursor = true := by
  obtain ⟨h1, h2, h3, h4, h5, h6, h7, h8, h9, h10⟩ := inv_iff.1 hs
  exact ⟨rfl, inv_iff.2 ⟨h1, h2, h3, h4, h5, h6, h5, h6, h9, h10⟩⟩

/-- `restoreCursor` (CSI u) commutes with `abs` and keeps the invariant -/
theorem restoreCursor_refines {s : SScr} (hs : SScr.inv cw s = true) :
    s.restoreCursor.abs cw = (s.abs cw).restoreCursor ∧ SScr.inv cw s.restoreCursor = true := by
  obtain ⟨h1, h2, h3, h4, h5, h6, h7, h8, h9, h10⟩ := inv_iff.1 hs
  exact ⟨rfl, inv_iff.2 ⟨h1, h2, h3, h4, h7, h8, h7, h8, h9, h10⟩⟩

/-- moving the cursor to a column inside the screen commutes with `abs` and keeps the invariant -/
theorem setCx_refines {s : SScr} (hs : SScr.inv cw s = true) {x : Nat} (hx : x < s.w) :
    ({ s with cx := x } : SScr).abs cw = { s.abs cw with cx := x } ∧
    SScr.inv cw { s with cx := x } = true :=
  ⟨rfl, inv_cursor (y := s.cy) hs hx (inv_iff.1 hs).2.2.2.2.2.1⟩

/-- changing the rendition commutes with `abs` and keeps the invariant -/
theorem setSty_refines {s : SScr} (hs : SScr.inv cw s = true) (st : Style) :
    ({ s with sty := st } : SScr).abs cw = { s.abs cw with sty := st } ∧
    SScr.inv cw { s with sty := st } = true := ⟨rfl, hs⟩

/-- changing autowrap commutes with `abs` and keeps the invariant -/
theorem setWrap_refines {s : SScr} (hs : SScr.inv cw s = true) (v : Bool) :
    ({ s with wrap := v } : SScr).abs cw = { s.abs cw with wrap := v } ∧
    SScr.inv cw { s with wrap := v } = true := ⟨rfl, hs⟩

/-! ### sizes are kept by the content operations -/

theorem lineUp_size (s : SScr) : s.lineUp.w = s.w ∧ s.lineUp.h = s.h := by
  unfold SScr.lineUp
  split
  · have := scroll_geom s s.top s.bot 1; exact ⟨this.1, this.2.1⟩
  · split <;> exact ⟨rfl, rfl⟩

theorem dch_size (cw : Nat → Nat) (s : SScr) (n : Nat) : (s.dch cw n).w = s.w ∧ (s.dch cw n).h = s.h := by
  unfold SScr.dch
  split <;> exact ⟨rfl, rfl⟩

theorem postS_size (s : SScr) (x : Nat) : (postS s x).w = s.w ∧ (postS s x).h = s.h := by
  unfold postS
  split
  · exact ⟨rfl, rfl⟩
  · split
    · have := lineDown_geom ({ s with cx := x - s.w } : SScr); exact ⟨this.1, this.2.1⟩
    · exact ⟨rfl, rfl⟩

theorem preS_size (s : SScr) (x : Nat) : (preS s x).w = s.w ∧ (preS s x).h = s.h := by
  unfold preS
  split
  · split
    · have := lineDown_geom ({ s with cx := 0 } : SScr); exact ⟨this.1, this.2.1⟩
    · exact ⟨rfl, rfl⟩
  · exact ⟨rfl, rfl⟩

theorem put_size (cw : Nat → Nat) (s : SScr) (text : Bytes) (w0 : Nat) :
    (s.put cw text w0).w = s.w ∧ (s.put cw text w0).h = s.h := by
  rw [put_eqS]
  unfold coreS
  simp only
  have h1 := postS_size
  have h2 := preS_size s (if max w0 1 > s.w then 1 else max w0 1)
  constructor
  · rw [(h1 _ _).1]; exact h2.1
  · rw [(h1 _ _).2]; exact h2.2

/-! ## 2. the terminal: helpers -/

@[simp] theorem abs_onAlt (cw : Nat → Nat) (st : STerm) : (st.abs cw).onAlt = st.onAlt := rfl

theorem abs_scr (cw : Nat → Nat) (st : STerm) : (st.abs cw).scr = st.scr.abs cw := by
  rcases st with ⟨m, a, o, _, _, _, _, _⟩
  cases o <;> rfl

theorem abs_kbd (cw : Nat → Nat) (st : STerm) : (st.abs cw).kbd = st.kbd := by
  rcases st with ⟨m, a, o, _, _, _, _, _⟩
  cases o <;> rfl

theorem sinv_iff {st : STerm} :
    STerm.inv cw st = true ↔
      SScr.inv cw st.main = true ∧ SScr.inv cw st.alt = true ∧ st.main.w = st.alt.w ∧ st.main.h = st.alt.h := by
  simp [STerm.inv, and_assoc]

theorem inv_scr {st : STerm} (hi : STerm.inv cw st = true) : SScr.inv cw st.scr = true := by
  obtain ⟨h1, h2, _⟩ := sinv_iff.1 hi
  unfold STerm.scr
  split <;> assumption

/-- the run-level result `r` refines the cell-level result `q`: same state through `abs`, the same
    events, and the invariant holds -/
def Ref (cw : Nat → Nat) (r : STerm × List Ev) (q : Term × List Ev) : Prop :=
  r.1.abs cw = q.1 ∧ r.2 = q.2 ∧ STerm.inv cw r.1 = true

theorem ref_same {st : STerm} (hi : STerm.inv cw st = true) (evs : List Ev) :
    Ref cw (st, evs) (st.abs cw, evs) := ⟨rfl, rfl, hi⟩

/-- lifting a screen-level fact to `setScr` on the active buffer -/
theorem setScr_ref {st : STerm} (hi : STerm.inv cw st = true) {s' : SScr} {c : Scr}
    (h : s'.abs cw = c ∧ SScr.inv cw s' = true) (hw : s'.w = st.scr.w) (hh : s'.h = st.scr.h)
    {evs evs' : List Ev} (he : evs = evs') :
    Ref cw (st.setScr s', evs) ((st.abs cw).setScr c, evs') := by
  obtain ⟨h1, h2, h3, h4⟩ := sinv_iff.1 hi
  obtain ⟨ha, hs'⟩ := h
  subst ha he
  rcases st with ⟨m, a, o, _, _, _, _, _⟩
  cases o
  · change s'.w = m.w at hw
    change s'.h = m.h at hh
    change SScr.inv cw m = true at h1
    change SScr.inv cw a = true at h2
    change m.w = a.w at h3
    change m.h = a.h at h4
    exact ⟨rfl, rfl, sinv_iff.2 ⟨hs', h2, hw.trans h3, hh.trans h4⟩⟩
  · change s'.w = a.w at hw
    change s'.h = a.h at hh
    change SScr.inv cw m = true at h1
    change SScr.inv cw a = true at h2
    change m.w = a.w at h3
    change m.h = a.h at h4
    exact ⟨rfl, rfl, sinv_iff.2 ⟨h1, hs', h3.trans hw.symm, h4.trans hh.symm⟩⟩

/-- lifting a screen-level fact to `withScr` (the new cursor is reported) -/
theorem withScr_ref {st : STerm} (hi : STerm.inv cw st = true) {s' : SScr} {c : Scr}
    (h : s'.abs cw = c ∧ SScr.inv cw s' = true) (hw : s'.w = st.scr.w) (hh : s'.h = st.scr.h) :
    Ref cw (st.withScr s') ((st.abs cw).withScr c) := by
  unfold STerm.withScr Term.withScr
  refine setScr_ref hi h hw hh ?_
  rw [← h.1]; rfl

theorem setVFlag_ref {st : STerm} (hi : STerm.inv cw st = true) (i : Nat) (v : Bool) :
    Ref cw (st.setVFlag i v) ((st.abs cw).setVFlag i v) := ⟨rfl, rfl, hi⟩
theorem setVInt_ref {st : STerm} (hi : STerm.inv cw st = true) (i : Nat) (v : Int) :
    Ref cw (st.setVInt i v) ((st.abs cw).setVInt i v) := ⟨rfl, rfl, hi⟩
theorem setVStr_ref {st : STerm} (hi : STerm.inv cw st = true) (i : Nat) (v : Bytes) :
    Ref cw (st.setVStr i v) ((st.abs cw).setVStr i v) := ⟨rfl, rfl, hi⟩

theorem setKbd_ref {st : STerm} (hi : STerm.inv cw st = true) (k : Kbd) (evs : List Ev) :
    Ref cw (st.setKbd k, evs) ((st.abs cw).setKbd k, evs) := by
  rcases st with ⟨m, a, o, _, _, _, _, _⟩
  cases o <;> exact ⟨rfl, rfl, hi⟩


/-! ## 2. the dispatch functions -/

theorem switchScreen_refines {st : STerm} (hi : STerm.inv cw st = true) (v : Bool) :
    Ref cw (st.switchScreen v) ((st.abs cw).switchScreen v) := by
  rcases st with ⟨m, a, o, _, _, _, _, _⟩
  cases o <;> cases v <;> exact ⟨rfl, rfl, hi⟩

theorem decMode_refines {st : STerm} (hi : STerm.inv cw st = true) (p : Int) (v : Bool) :
    Ref cw (st.decMode p v) ((st.abs cw).decMode p v) := by
  unfold STerm.decMode Term.decMode
  by_cases h : p = 1
  · rw [if_pos h, if_pos h]; exact setVFlag_ref hi _ _
  rw [if_neg h, if_neg h]; clear h
  by_cases h : p = 7
  · rw [if_pos h, if_pos h, abs_scr]
    exact setScr_ref hi (setWrap_refines (inv_scr hi) v) rfl rfl rfl
  rw [if_neg h, if_neg h]; clear h
  by_cases h : p = 9
  · rw [if_pos h, if_pos h]; exact setVInt_ref hi _ _
  rw [if_neg h, if_neg h]; clear h
  by_cases h : p = 12
  · rw [if_pos h, if_pos h]; exact setVFlag_ref hi _ _
  rw [if_neg h, if_neg h]; clear h
  by_cases h : p = 25
  · rw [if_pos h, if_pos h]; exact setVFlag_ref hi _ _
  rw [if_neg h, if_neg h]; clear h
  by_cases h : p = 1000
  · rw [if_pos h, if_pos h]; exact setVInt_ref hi _ _
  rw [if_neg h, if_neg h]; clear h
  by_cases h : p = 1002
  · rw [if_pos h, if_pos h]; exact setVInt_ref hi _ _
  rw [if_neg h, if_neg h]; clear h
  by_cases h : p = 1003
  · rw [if_pos h, if_pos h]; exact setVInt_ref hi _ _
  rw [if_neg h, if_neg h]; clear h
  by_cases h : p = 1004
  · rw [if_pos h, if_pos h]; exact setVFlag_ref hi _ _
  rw [if_neg h, if_neg h]; clear h
  by_cases h : p = 1005
  · rw [if_pos h, if_pos h]; exact setVInt_ref hi _ _
  rw [if_neg h, if_neg h]; clear h
  by_cases h : p = 1006
  · rw [if_pos h, if_pos h]; exact setVInt_ref hi _ _
  rw [if_neg h, if_neg h]; clear h
  by_cases h : p = 1015
  · rw [if_pos h, if_pos h]; exact setVInt_ref hi _ _
  rw [if_neg h, if_neg h]; clear h
  by_cases h : p = 1049
  · rw [if_pos h, if_pos h]; exact switchScreen_refines hi v
  rw [if_neg h, if_neg h]; clear h
  by_cases h : p = 2004
  · rw [if_pos h, if_pos h]; exact setVFlag_ref hi _ _
  rw [if_neg h, if_neg h]; clear h
  exact ref_same hi _

/-- two clamped erasures in a row -/
theorem erase2_refines (hb : cw 0x20 ≤ 1) {s : SScr} (hs : SScr.inv cw s = true)
    (a1 a2 a3 a4 b1 b2 b3 b4 : Int) :
    (((s.eraseRegionI cw a1 a2 a3 a4).eraseRegionI cw b1 b2 b3 b4).abs cw =
        ((s.abs cw).eraseRegionI a1 a2 a3 a4).eraseRegionI b1 b2 b3 b4 ∧
      SScr.inv cw ((s.eraseRegionI cw a1 a2 a3 a4).eraseRegionI cw b1 b2 b3 b4) = true) ∧
    ((s.eraseRegionI cw a1 a2 a3 a4).eraseRegionI cw b1 b2 b3 b4).w = s.w ∧
    ((s.eraseRegionI cw a1 a2 a3 a4).eraseRegionI cw b1 b2 b3 b4).h = s.h := by
  obtain ⟨e1, e2⟩ := eraseRegionI_refines hb hs a1 a2 a3 a4
  obtain ⟨f1, f2⟩ := eraseRegionI_refines hb e2 b1 b2 b3 b4
  refine ⟨⟨by rw [f1, e1], f2⟩, ?_, ?_⟩
  · rw [(eraseRegionI_geom cw _ b1 b2 b3 b4).1, (eraseRegionI_geom cw s a1 a2 a3 a4).1]
  · rw [(eraseRegionI_geom cw _ b1 b2 b3 b4).2.1, (eraseRegionI_geom cw s a1 a2 a3 a4).2.1]

/-- a clamped erasure followed by a cursor motion (`ED 2`) -/
theorem eraseCur_refines (hb : cw 0x20 ≤ 1) {s : SScr} (hs : SScr.inv cw s = true)
    (a1 a2 a3 a4 x y : Int) :
    (((s.eraseRegionI cw a1 a2 a3 a4).setCursor x y).abs cw =
        ((s.abs cw).eraseRegionI a1 a2 a3 a4).setCursor x y ∧
      SScr.inv cw ((s.eraseRegionI cw a1 a2 a3 a4).setCursor x y) = true) ∧
    ((s.eraseRegionI cw a1 a2 a3 a4).setCursor x y).w = s.w ∧
    ((s.eraseRegionI cw a1 a2 a3 a4).setCursor x y).h = s.h := by
  obtain ⟨e1, e2⟩ := eraseRegionI_refines hb hs a1 a2 a3 a4
  obtain ⟨f1, f2⟩ := setCursor_refines e2 x y
  refine ⟨⟨by rw [f1, e1], f2⟩, ?_, ?_⟩
  · exact (eraseRegionI_geom cw s a1 a2 a3 a4).1
  · exact (eraseRegionI_geom cw s a1 a2 a3 a4).2.1

/-- the unprefixed CSI dispatch commutes with `abs` -/
theorem csiPlain_refines (hb : cw 0x20 ≤ 1) {st : STerm} (hi : STerm.inv cw st = true)
    (ps : List Int) (fin : UInt8) :
    Ref cw (st.csiPlain cw ps fin) ((st.abs cw).csiPlain ps fin) := by
  have hs := inv_scr hi
  simp only [STerm.csiPlain, Term.csiPlain]
  rw [abs_scr]
  by_cases h : fin = 0x41
  · rw [if_pos h, if_pos h]
    exact withScr_ref hi (setCursor_refines hs _ _) rfl rfl
  rw [if_neg h, if_neg h]; clear h
  by_cases h : fin = 0x42
  · rw [if_pos h, if_pos h]
    exact withScr_ref hi (setCursor_refines hs _ _) rfl rfl
  rw [if_neg h, if_neg h]; clear h
  by_cases h : fin = 0x43
  · rw [if_pos h, if_pos h]
    exact withScr_ref hi (setCursor_refines hs _ _) rfl rfl
  rw [if_neg h, if_neg h]; clear h
  by_cases h : fin = 0x44
  · rw [if_pos h, if_pos h]
    exact withScr_ref hi (setCursor_refines hs _ _) rfl rfl
  rw [if_neg h, if_neg h]; clear h
  by_cases h : fin = 0x47
  · rw [if_pos h, if_pos h]
    exact withScr_ref hi (setCursor_refines hs _ _) rfl rfl
  rw [if_neg h, if_neg h]; clear h
  by_cases h : fin = 0x64
  · rw [if_pos h, if_pos h]
    exact withScr_ref hi (setCursor_refines hs _ _) rfl rfl
  rw [if_neg h, if_neg h]; clear h
  by_cases h : fin = 0x66 ∨ fin = 0x48
  · rw [if_pos h, if_pos h]
    exact withScr_ref hi (setCursor_refines hs _ _) rfl rfl
  rw [if_neg h, if_neg h]; clear h
  by_cases h : fin = 0x63
  · rw [if_pos h, if_pos h]
    by_cases h : p0 ps 0 = 0
    · rw [if_pos h, if_pos h]
      exact ref_same hi _
    rw [if_neg h, if_neg h]; clear h
    exact ref_same hi _
  rw [if_neg h, if_neg h]; clear h
  by_cases h : fin = 0x6d
  · rw [if_pos h, if_pos h]
    exact setScr_ref hi (setSty_refines hs (applySGR st.scr.sty (match ps with | [] => [0] | _ => ps))) rfl rfl rfl
  rw [if_neg h, if_neg h]; clear h
  by_cases h : fin = 0x73
  · rw [if_pos h, if_pos h]
    exact setScr_ref hi (saveCursor_refines hs) rfl rfl rfl
  rw [if_neg h, if_neg h]; clear h
  by_cases h : fin = 0x75
  · rw [if_pos h, if_pos h]
    exact withScr_ref hi (restoreCursor_refines hs) rfl rfl
  rw [if_neg h, if_neg h]; clear h
  by_cases h : fin = 0x4b
  · rw [if_pos h, if_pos h]
    by_cases h : p0 ps 0 = 0
    · rw [if_pos h, if_pos h]
      exact setScr_ref hi (eraseRegionI_refines hb hs _ _ _ _) (eraseRegionI_geom ..).1 (eraseRegionI_geom ..).2.1 rfl
    rw [if_neg h, if_neg h]; clear h
    by_cases h : p0 ps 0 = 1
    · rw [if_pos h, if_pos h]
      exact setScr_ref hi (eraseRegionI_refines hb hs _ _ _ _) (eraseRegionI_geom ..).1 (eraseRegionI_geom ..).2.1 rfl
    rw [if_neg h, if_neg h]; clear h
    by_cases h : p0 ps 0 = 2
    · rw [if_pos h, if_pos h]
      exact setScr_ref hi (eraseRegionI_refines hb hs _ _ _ _) (eraseRegionI_geom ..).1 (eraseRegionI_geom ..).2.1 rfl
    rw [if_neg h, if_neg h]; clear h
    exact ref_same hi _
  rw [if_neg h, if_neg h]; clear h
  by_cases h : fin = 0x4a
  · rw [if_pos h, if_pos h]
    by_cases h : p0 ps 0 = 0
    · rw [if_pos h, if_pos h]
      exact setScr_ref hi (erase2_refines hb hs ..).1 (erase2_refines hb hs ..).2.1 (erase2_refines hb hs ..).2.2 rfl
    rw [if_neg h, if_neg h]; clear h
    by_cases h : p0 ps 0 = 1
    · rw [if_pos h, if_pos h]
      exact setScr_ref hi (erase2_refines hb hs ..).1 (erase2_refines hb hs ..).2.1 (erase2_refines hb hs ..).2.2 rfl
    rw [if_neg h, if_neg h]; clear h
    by_cases h : p0 ps 0 = 2
    · rw [if_pos h, if_pos h]
      exact setScr_ref hi (eraseCur_refines hb hs ..).1 (eraseCur_refines hb hs ..).2.1 (eraseCur_refines hb hs ..).2.2 rfl
    rw [if_neg h, if_neg h]; clear h
    exact ref_same hi _
  rw [if_neg h, if_neg h]; clear h
  by_cases h : fin = 0x4c
  · rw [if_pos h, if_pos h]
    by_cases hr : st.scr.inRegion = true
    · rw [if_pos hr, if_pos (show (st.scr.abs cw).inRegion = true from hr)]
      exact setScr_ref hi ⟨abs_scroll cw _ _ _ _, inv_scroll hb hs _ _ _⟩ (scroll_geom ..).1 (scroll_geom ..).2.1 rfl
    · rw [if_neg hr, if_neg (show ¬ (st.scr.abs cw).inRegion = true from hr)]
      exact ref_same hi _
  rw [if_neg h, if_neg h]; clear h
  by_cases h : fin = 0x4d
  · rw [if_pos h, if_pos h]
    by_cases hr : st.scr.inRegion = true
    · rw [if_pos hr, if_pos (show (st.scr.abs cw).inRegion = true from hr)]
      exact setScr_ref hi ⟨abs_scroll cw _ _ _ _, inv_scroll hb hs _ _ _⟩ (scroll_geom ..).1 (scroll_geom ..).2.1 rfl
    · rw [if_neg hr, if_neg (show ¬ (st.scr.abs cw).inRegion = true from hr)]
      exact ref_same hi _
  rw [if_neg h, if_neg h]; clear h
  by_cases h : fin = 0x53
  · rw [if_pos h, if_pos h]
    exact setScr_ref hi ⟨abs_scroll cw _ _ _ _, inv_scroll hb hs _ _ _⟩ (scroll_geom ..).1 (scroll_geom ..).2.1 rfl
  rw [if_neg h, if_neg h]; clear h
  by_cases h : fin = 0x54
  · rw [if_pos h, if_pos h]
    exact setScr_ref hi ⟨abs_scroll cw _ _ _ _, inv_scroll hb hs _ _ _⟩ (scroll_geom ..).1 (scroll_geom ..).2.1 rfl
  rw [if_neg h, if_neg h]; clear h
  by_cases h : fin = 0x50
  · rw [if_pos h, if_pos h]
    by_cases h : p0 ps 1 ≤ 0
    · rw [if_pos h, if_pos h]
      exact ref_same hi _
    rw [if_neg h, if_neg h]; clear h
    exact setScr_ref hi (dch_refines hb hs _) (dch_size ..).1 (dch_size ..).2 rfl
  rw [if_neg h, if_neg h]; clear h
  by_cases h : fin = 0x58
  · rw [if_pos h, if_pos h]
    exact setScr_ref hi (eraseRegionI_refines hb hs _ _ _ _) (eraseRegionI_geom ..).1 (eraseRegionI_geom ..).2.1 rfl
  rw [if_neg h, if_neg h]; clear h
  by_cases h : fin = 0x72
  · rw [if_pos h, if_pos h]
    exact setScr_ref hi ⟨(setMargins_refines hs _ _).1, (setMargins_refines hs _ _).2.1⟩ (setMargins_refines hs _ _).2.2.1 (setMargins_refines hs _ _).2.2.2 rfl
  rw [if_neg h, if_neg h]; clear h
  by_cases h : fin = 0x6e
  · rw [if_pos h, if_pos h]
    by_cases h : p0 ps 0 = 5
    · rw [if_pos h, if_pos h]
      exact ref_same hi _
    rw [if_neg h, if_neg h]; clear h
    by_cases h : p0 ps 0 = 6
    · rw [if_pos h, if_pos h]
      exact ⟨rfl, rfl, hi⟩
    rw [if_neg h, if_neg h]; clear h
    exact ref_same hi _
  rw [if_neg h, if_neg h]; clear h
  exact ref_same hi _

/-- a list of private modes (`CSI ? … h/l`) -/
theorem decModes_refines (v : Bool) : ∀ (ps : List Int) {st : STerm}, STerm.inv cw st = true →
    Ref cw (st.decModes v ps) ((st.abs cw).decModes v ps)
  | [], _, hi => ref_same hi _
  | p :: ps, st, hi => by
    obtain ⟨a1, a2, a3⟩ := decMode_refines (cw := cw) hi p v
    obtain ⟨b1, b2, b3⟩ := decModes_refines v ps a3
    have e1 : st.decModes v (p :: ps) =
        (((st.decMode p v).1.decModes v ps).1, (st.decMode p v).2 ++ ((st.decMode p v).1.decModes v ps).2) := rfl
    have e2 : (st.abs cw).decModes v (p :: ps) =
        ((((st.abs cw).decMode p v).1.decModes v ps).1,
          ((st.abs cw).decMode p v).2 ++ (((st.abs cw).decMode p v).1.decModes v ps).2) := rfl
    rw [e1, e2, ← a1, ← a2]
    exact ⟨b1, by rw [b2], b3⟩

/-- the CSI dispatch (all prefixes) commutes with `abs` -/
theorem csi_refines (hb : cw 0x20 ≤ 1) {st : STerm} (hi : STerm.inv cw st = true)
    (pfx : UInt8) (ps : List Int) (fin : UInt8) :
    Ref cw (st.csi cw pfx ps fin) ((st.abs cw).csi pfx ps fin) := by
  unfold STerm.csi Term.csi
  rw [abs_kbd]
  by_cases h : pfx = 0
  · rw [if_pos h, if_pos h]; exact csiPlain_refines hb hi ps fin
  rw [if_neg h, if_neg h]; clear h
  by_cases h : pfx = 0x3f
  · rw [if_pos h, if_pos h]
    by_cases h1 : fin = 0x75
    · rw [if_pos h1, if_pos h1]; exact ref_same hi _
    rw [if_neg h1, if_neg h1]
    by_cases h2 : fin = 0x68
    · rw [if_pos h2, if_pos h2]; exact decModes_refines true ps hi
    rw [if_neg h2, if_neg h2]
    by_cases h3 : fin = 0x6c
    · rw [if_pos h3, if_pos h3]; exact decModes_refines false ps hi
    rw [if_neg h3, if_neg h3]
    exact ref_same hi _
  rw [if_neg h, if_neg h]; clear h
  by_cases h : pfx = 0x3e
  · rw [if_pos h, if_pos h]
    by_cases h1 : fin = 0x63
    · rw [if_pos h1, if_pos h1]; exact ref_same hi _
    rw [if_neg h1, if_neg h1]
    by_cases h2 : fin = 0x6d
    · rw [if_pos h2, if_pos h2]
      cases modifyOtherKeysMode ps none with
      | none => exact ref_same hi _
      | some m =>
        show Ref cw (if m ≥ 0 then st.setVInt 2 m else (st, [])) (if m ≥ 0 then (st.abs cw).setVInt 2 m else (st.abs cw, []))
        by_cases hm : m ≥ 0
        · rw [if_pos hm, if_pos hm]; exact setVInt_ref hi _ _
        · rw [if_neg hm, if_neg hm]; exact ref_same hi _
    rw [if_neg h2, if_neg h2]
    by_cases h3 : fin = 0x75
    · rw [if_pos h3, if_pos h3]; exact setKbd_ref hi _ _
    rw [if_neg h3, if_neg h3]
    exact ref_same hi _
  rw [if_neg h, if_neg h]; clear h
  by_cases h : pfx = 0x3c
  · rw [if_pos h, if_pos h]
    by_cases h1 : fin = 0x75
    · rw [if_pos h1, if_pos h1]; exact setKbd_ref hi _ _
    rw [if_neg h1, if_neg h1]
    exact ref_same hi _
  rw [if_neg h, if_neg h]; clear h
  by_cases h : pfx = 0x3d
  · rw [if_pos h, if_pos h]
    by_cases h1 : fin = 0x75
    · rw [if_pos h1, if_pos h1]; exact setKbd_ref hi _ _
    rw [if_neg h1, if_neg h1]
    exact ref_same hi _
  rw [if_neg h, if_neg h]; clear h
  exact ref_same hi _

/-! ## 2. one token -/

/-- the token hypothesis: a text token carries one character with its own width (what the
    tokeniser yields, `tokWF_of_tokOK`); nothing for the other tokens -/
def TokWF (cw : Nat → Nat) : Tok → Prop
  | .text stored cp => clusters cw stored = [(stored, max (cw cp) 1)]
  | _ => True

theorem lf_refines (hb : cw 0x20 ≤ 1) {s : SScr} (hs : SScr.inv cw s = true) :
    (({ s with cx := 0 } : SScr).lineDown.abs cw = ({ s.abs cw with cx := 0 } : Scr).lineDown ∧
      SScr.inv cw ({ s with cx := 0 } : SScr).lineDown = true) ∧
    ({ s with cx := 0 } : SScr).lineDown.w = s.w ∧ ({ s with cx := 0 } : SScr).lineDown.h = s.h := by
  have h1 := (inv_iff.1 hs).1
  have hs0 := (setCx_refines hs (x := 0) (by omega)).2
  exact ⟨⟨abs_lineDown cw _, inv_lineDown hb hs0⟩, (lineDown_geom _).1, (lineDown_geom _).2.1⟩

/-- **`apply_refines`**: for every token, the run-level terminal after the token shows the model
    terminal after the token, the events are equal, the invariant is kept -/
theorem apply_refines (hb : cw 0x20 ≤ 1) (hr : cw 0xFFFD ≤ 1) {st : STerm}
    (hi : STerm.inv cw st = true) {tok : Tok} (htok : TokWF cw tok) :
    ((st.apply cw tok).1).abs cw = ((st.abs cw).apply cw tok).1 ∧
    (st.apply cw tok).2 = ((st.abs cw).apply cw tok).2 ∧
    STerm.inv cw (st.apply cw tok).1 = true := by
  have hs := inv_scr hi
  show Ref cw (st.apply cw tok) ((st.abs cw).apply cw tok)
  cases tok with
  | text stored cp =>
    simp only [STerm.apply, Term.apply]
    rw [abs_scr]
    have hp := put_refines hb hr hs (w0 := cw cp) htok
    refine setScr_ref hi hp (put_size ..).1 (put_size ..).2 ?_
    show _ = [Ev.region 0 0 (st.scr.abs cw).w (st.scr.abs cw).h 0,
      Ev.cursor (Scr.put .keep (st.scr.abs cw) stored (cw cp)).cx (Scr.put .keep (st.scr.abs cw) stored (cw cp)).cy]
    rw [← hp.1]; rfl
  | ctl b =>
    simp only [STerm.apply, Term.apply]
    rw [abs_scr]
    have h5 := (inv_iff.1 hs).2.2.2.2.1
    by_cases h : b = 7
    · rw [if_pos h, if_pos h]; exact ref_same hi _
    rw [if_neg h, if_neg h]; clear h
    by_cases h : b = 8 ∨ b = 127
    · rw [if_pos h, if_pos h]
      exact withScr_ref hi (setCx_refines hs (x := st.scr.cx - 1) (by omega)) rfl rfl
    rw [if_neg h, if_neg h]; clear h
    by_cases h : b = 9
    · rw [if_pos h, if_pos h]
      exact withScr_ref hi (setCursor_refines hs _ _) rfl rfl
    rw [if_neg h, if_neg h]; clear h
    by_cases h : b = 10
    · rw [if_pos h, if_pos h]
      exact withScr_ref hi (lf_refines hb hs).1 (lf_refines hb hs).2.1 (lf_refines hb hs).2.2
    rw [if_neg h, if_neg h]; clear h
    by_cases h : b = 12
    · rw [if_pos h, if_pos h]
      exact withScr_ref hi ⟨abs_lineDown cw _, inv_lineDown hb hs⟩ (lineDown_geom _).1 (lineDown_geom _).2.1
    rw [if_neg h, if_neg h]; clear h
    by_cases h : b = 13
    · rw [if_pos h, if_pos h]
      exact withScr_ref hi (setCx_refines hs (x := 0) (by omega)) rfl rfl
    rw [if_neg h, if_neg h]; clear h
    exact ref_same hi _
  | esc inter fin =>
    simp only [STerm.apply, Term.apply]
    rw [abs_scr]
    by_cases h : inter ≠ []
    · rw [if_pos h, if_pos h]; exact ref_same hi _
    rw [if_neg h, if_neg h]; clear h
    by_cases h : fin = 0x44
    · rw [if_pos h, if_pos h]
      exact withScr_ref hi ⟨abs_lineDown cw _, inv_lineDown hb hs⟩ (lineDown_geom _).1 (lineDown_geom _).2.1
    rw [if_neg h, if_neg h]; clear h
    by_cases h : fin = 0x4d
    · rw [if_pos h, if_pos h]
      exact withScr_ref hi ⟨abs_lineUp cw _, inv_lineUp hb hs⟩ (lineUp_size _).1 (lineUp_size _).2
    rw [if_neg h, if_neg h]; clear h
    by_cases h : fin = 0x3d
    · rw [if_pos h, if_pos h]; exact setVFlag_ref hi _ _
    rw [if_neg h, if_neg h]; clear h
    by_cases h : fin = 0x3e
    · rw [if_pos h, if_pos h]; exact setVFlag_ref hi _ _
    rw [if_neg h, if_neg h]; clear h
    exact ref_same hi _
  | csi pfx ps clean fin =>
    simp only [STerm.apply, Term.apply]
    cases clean
    · exact ref_same hi _
    · exact csi_refines hb hi pfx ps fin
  | osc num payload wf =>
    simp only [STerm.apply, Term.apply]
    cases wf
    · exact ref_same hi _
    · show Ref cw (if num = 0 ∨ num = 2 then _ else _) (if num = 0 ∨ num = 2 then _ else _)
      by_cases h : num = 0 ∨ num = 2
      · rw [if_pos h, if_pos h]; exact setVStr_ref hi _ _
      rw [if_neg h, if_neg h]; clear h
      by_cases h : num = 6
      · rw [if_pos h, if_pos h]; exact setVStr_ref hi _ _
      rw [if_neg h, if_neg h]; clear h
      by_cases h : num = 7
      · rw [if_pos h, if_pos h]; exact setVStr_ref hi _ _
      rw [if_neg h, if_neg h]; clear h
      exact ref_same hi _
  | dcs => exact ref_same hi _

/-- **`resize_refines`**: `Resize(w,h)` of both buffers commutes with `abs`, the events are equal,
    the invariant is kept -/
theorem resize_refines (hb : cw 0x20 ≤ 1) {st : STerm} (hi : STerm.inv cw st = true)
    {w h : Nat} (hw : 1 ≤ w) (hh : 1 ≤ h) :
    ((st.resize cw w h).1).abs cw = ((st.abs cw).resize w h).1 ∧
    (st.resize cw w h).2 = ((st.abs cw).resize w h).2 ∧
    STerm.inv cw (st.resize cw w h).1 = true := by
  obtain ⟨h1, h2, h3, h4⟩ := sinv_iff.1 hi
  obtain ⟨m1, m2⟩ := C02SpanScreen.resize_refines hb h1 hw hh
  obtain ⟨a1, a2⟩ := C02SpanScreen.resize_refines hb h2 hw hh
  have e1 : ((st.resize cw w h).1).abs cw = ((st.abs cw).resize w h).1 := by
    show STerm.abs cw { st with main := st.main.resize cw w h, alt := st.alt.resize cw w h } =
      { st.abs cw with main := (st.main.abs cw).resize w h, alt := (st.alt.abs cw).resize w h }
    rw [← m1, ← a1]; rfl
  refine ⟨e1, ?_, sinv_iff.2 ⟨m2, a2, rfl, rfl⟩⟩
  show [Ev.style (st.main.resize cw w h).sty, .style (st.alt.resize cw w h).sty,
      .cursor ((st.resize cw w h).1).scr.cx ((st.resize cw w h).1).scr.cy, .style ((st.resize cw w h).1).scr.sty] =
    [Ev.style ((st.main.abs cw).resize w h).sty, .style ((st.alt.abs cw).resize w h).sty,
      .cursor (((st.abs cw).resize w h).1).scr.cx (((st.abs cw).resize w h).1).scr.cy,
      .style (((st.abs cw).resize w h).1).scr.sty]
  rw [← e1, abs_scr, ← m1, ← a1]; rfl

/-- sizes of both buffers after a token (through the model terminal, `C10.apply_geo`) -/
theorem apply_size (hb : cw 0x20 ≤ 1) (hr : cw 0xFFFD ≤ 1) {st : STerm}
    (hi : STerm.inv cw st = true) {tok : Tok} (htok : TokWF cw tok) :
    (st.apply cw tok).1.main.w = st.main.w ∧ (st.apply cw tok).1.main.h = st.main.h ∧
    (st.apply cw tok).1.alt.w = st.alt.w ∧ (st.apply cw tok).1.alt.h = st.alt.h := by
  have hn : C10.NeedWF (st.abs cw) := fun _ => by
    rw [abs_scr]; exact C10.Lemmas.inv_rowsWF (abs_inv (inv_scr hi))
  obtain ⟨_, g1, g2, g3, g4, _⟩ := C10.Lemmas.apply_geo cw (st.abs cw) tok hn
  have e := (apply_refines hb hr hi htok).1
  rw [← e] at g1 g2 g3 g4
  exact ⟨g1, g2, g3, g4⟩

/-! ## 3. token lists -/

/-- the run-level terminal after a list of tokens -/
def sStateAfter (cw : Nat → Nat) (st : STerm) (toks : List Tok) : STerm :=
  toks.foldl (fun t tk => (STerm.apply cw t tk).1) st

/-- the events the run-level terminal emits along a list of tokens -/
def sEventsOf (cw : Nat → Nat) : STerm → List Tok → List Ev
  | _, [] => []
  | t, tok :: toks => (STerm.apply cw t tok).2 ++ sEventsOf cw (STerm.apply cw t tok).1 toks

/-- runs of tokens from any state satisfying the invariant -/
theorem run_refines_from (hb : cw 0x20 ≤ 1) (hr : cw 0xFFFD ≤ 1) (toks : List Tok) :
    ∀ {st : STerm}, STerm.inv cw st = true → (∀ tok ∈ toks, TokWF cw tok) →
    (sStateAfter cw st toks).abs cw = C10.stateAfter cw (st.abs cw) toks ∧
    sEventsOf cw st toks = C10.eventsOf cw (st.abs cw) toks ∧
    STerm.inv cw (sStateAfter cw st toks) = true ∧
    (sStateAfter cw st toks).main.w = st.main.w ∧ (sStateAfter cw st toks).main.h = st.main.h := by
  induction toks with
  | nil => intro st hi _; exact ⟨rfl, rfl, hi, rfl, rfl⟩
  | cons tok toks ih =>
    intro st hi hok
    have ht : TokWF cw tok := hok tok (List.mem_cons_self ..)
    obtain ⟨a1, a2, a3⟩ := apply_refines hb hr hi ht
    obtain ⟨z1, z2, _⟩ := apply_size hb hr hi ht
    obtain ⟨b1, b2, b3, b4, b5⟩ := ih a3 (fun t h => hok t (List.mem_cons_of_mem _ h))
    show (sStateAfter cw (st.apply cw tok).1 toks).abs cw =
        C10.stateAfter cw ((st.abs cw).apply cw tok).1 toks ∧
      (st.apply cw tok).2 ++ sEventsOf cw (st.apply cw tok).1 toks =
        ((st.abs cw).apply cw tok).2 ++ C10.eventsOf cw ((st.abs cw).apply cw tok).1 toks ∧
      STerm.inv cw (sStateAfter cw (st.apply cw tok).1 toks) = true ∧
      (sStateAfter cw (st.apply cw tok).1 toks).main.w = st.main.w ∧
      (sStateAfter cw (st.apply cw tok).1 toks).main.h = st.main.h
    rw [← a1, ← a2, b2]
    exact ⟨b1, rfl, b3, b4.trans z1, b5.trans z2⟩

theorem abs_init (cw : Nat → Nat) (w h : Nat) : (STerm.init w h).abs cw = Term.init .keep w h := by
  show ({ pol := .keep, main := (SScr.init w h).abs cw, alt := (SScr.init w h).abs cw } : Term) = _
  rw [C02SpanScreen.abs_init]; rfl

theorem inv_init (hb : cw 0x20 ≤ 1) {w h : Nat} (hw : 1 ≤ w) (hh : 1 ≤ h) :
    STerm.inv cw (STerm.init w h) = true :=
  sinv_iff.2 ⟨C02SpanScreen.inv_init hb hw hh, C02SpanScreen.inv_init hb hw hh, rfl, rfl⟩

/-- **`run_refines`**: from the initial terminal, along every list of tokens whose text tokens are
    well formed: `abs` of the run-level terminal is the model terminal (state and events), and the
    invariant holds -/
theorem run_refines (hb : cw 0x20 ≤ 1) (hr : cw 0xFFFD ≤ 1) {w h : Nat} (hw : 1 ≤ w) (hh : 1 ≤ h)
    (toks : List Tok) (hok : ∀ tok ∈ toks, TokWF cw tok) :
    (sStateAfter cw (STerm.init w h) toks).abs cw = C10.stateAfter cw (Term.init .keep w h) toks ∧
    sEventsOf cw (STerm.init w h) toks = C10.eventsOf cw (Term.init .keep w h) toks ∧
    STerm.inv cw (sStateAfter cw (STerm.init w h) toks) = true := by
  obtain ⟨a, b, c, _⟩ := run_refines_from hb hr toks (inv_init hb hw hh) hok
  rw [abs_init] at a b
  exact ⟨a, b, c⟩

/-! ## 4. byte streams -/

theorem clustersAux_nil (cw : Nat → Nat) (n : Nat) : clustersAux cw n [] = [] := by
  cases n <;> simp [clustersAux, stepRune_nil]

/-- every token the tokeniser yields is well formed for the span buffer: its text is one character
    whose width is the width of the code point it carries -/
theorem tokWF_of_tokOK (cw : Nat → Nat) {tok : Tok} (h : C11M.TokOK tok) : TokWF cw tok := by
  cases tok with
  | text stored cp =>
    obtain ⟨hv, h32, h127, rfl⟩ := h
    show clusters cw (encodeRune cp) = [(encodeRune cp, max (cw cp) 1)]
    obtain ⟨b0, tl, he, hl, _⟩ := C11.Lemmas.encodeRune_head cp hv
    have hd := C11.Lemmas.decodeRune_encodeRune cp [] hv
    rw [List.append_nil] at hd
    have hlen : (encodeRune cp).length = tl.length + 1 := by rw [he]; rfl
    have hfull : fullRune (encodeRune cp) = true := by
      rw [he]; simp only [fullRune, hl]
      by_cases h1 : tl.length + 1 ≤ 1 <;> simp [h1]
    have hst : stepRune cw (encodeRune cp) = some ((encodeRune cp).length, max (cw cp) 1) := by
      rw [stepRune_eq, hfull, hd]; simp [hlen]
    have e : clusters cw (encodeRune cp) = clustersAux cw (tl.length + 1) (encodeRune cp) := by
      unfold clusters; rw [hlen]
    rw [e]
    unfold clustersAux
    simp only [hst, List.take_length, List.drop_length, clustersAux_nil]
  | ctl _ => trivial
  | esc _ _ => trivial
  | csi _ _ _ _ => trivial
  | osc _ _ _ => trivial
  | dcs => trivial

/-- **`stream_refines`** (capstone): for every byte string, size and width function (space and
    U+FFFD at most one cell wide): the terminal over run-level screens, fed the tokens of the
    stream, shows exactly the model terminal after the stream; it emitted the same events; its
    invariant holds -/
theorem stream_refines (hb : cw 0x20 ≤ 1) (hr : cw 0xFFFD ≤ 1) {w h : Nat} (hw : 1 ≤ w) (hh : 1 ≤ h)
    (bs : Bytes) :
    (sStateAfter cw (STerm.init w h) (C10.toksOf bs)).abs cw = (run cw (Term.init .keep w h) bs).1 ∧
    sEventsOf cw (STerm.init w h) (C10.toksOf bs) = (run cw (Term.init .keep w h) bs).2.1 ∧
    STerm.inv cw (sStateAfter cw (STerm.init w h) (C10.toksOf bs)) = true := by
  have hok : ∀ tok ∈ C10.toksOf bs, TokWF cw tok :=
    fun tok h => tokWF_of_tokOK cw (C11M.Lemmas.toksFuel_tokOK _ bs tok h)
  obtain ⟨a, b, c⟩ := run_refines hb hr hw hh (C10.toksOf bs) hok
  have h1 : (run cw (Term.init .keep w h) bs).1 = C10.stateAfter cw (Term.init .keep w h) (C10.toksOf bs) :=
    C10.runFuel_state ..
  have h2 : (run cw (Term.init .keep w h) bs).2.1 = C10.eventsOf cw (Term.init .keep w h) (C10.toksOf bs) := by
    unfold run; rw [C10.Lemmas.runFuel_events]; rfl
  rw [h1, h2]
  exact ⟨a, b, c⟩

/-- **`stream_rows`**: the capstone row by row. For every input: both buffers of the code-shaped
    data structure keep the size `w × h`, have `h` rows, and every row is a well-formed row of runs
    (`lineWF`) showing exactly the cells of that row of the model terminal -/
theorem stream_rows (hb : cw 0x20 ≤ 1) (hr : cw 0xFFFD ≤ 1) {w h : Nat} (hw : 1 ≤ w) (hh : 1 ≤ h)
    (bs : Bytes) :
    let S := sStateAfter cw (STerm.init w h) (C10.toksOf bs)
    let T := (run cw (Term.init .keep w h) bs).1
    S.main.w = w ∧ S.main.h = h ∧ S.alt.w = w ∧ S.alt.h = h ∧
    S.main.lines.length = h ∧ S.alt.lines.length = h ∧ S.onAlt = T.onAlt ∧
    ∀ y, y < h →
      lineWF cw w (S.main.line y) = true ∧ T.main.row y = lineCells cw (S.main.line y) ∧
      lineWF cw w (S.alt.line y) = true ∧ T.alt.row y = lineCells cw (S.alt.line y) := by
  intro S T
  have hok : ∀ tok ∈ C10.toksOf bs, TokWF cw tok :=
    fun tok h => tokWF_of_tokOK cw (C11M.Lemmas.toksFuel_tokOK _ bs tok h)
  obtain ⟨_, _, c, d1, d2⟩ := run_refines_from hb hr (C10.toksOf bs) (inv_init (w := w) (h := h) hb hw hh) hok
  have hT : S.abs cw = T := (stream_refines hb hr hw hh bs).1
  obtain ⟨i1, i2, i3, i4⟩ := sinv_iff.1 c
  change S.main.w = w at d1
  change S.main.h = h at d2
  change SScr.inv cw S.main = true at i1
  change SScr.inv cw S.alt = true at i2
  change S.main.w = S.alt.w at i3
  change S.main.h = S.alt.h at i4
  obtain ⟨_, _, m3, m4, _⟩ := inv_iff.1 i1
  obtain ⟨_, _, n3, n4, _⟩ := inv_iff.1 i2
  refine ⟨d1, d2, i3 ▸ d1, i4 ▸ d2, m3.trans d2, n3.trans (i4 ▸ d2), by rw [← hT]; rfl, ?_⟩
  intro y hy
  have hm : lineWF cw w (S.main.line y) = true := by
    rw [← d1]; exact m4 _ (line_mem (by omega))
  have ha : lineWF cw w (S.alt.line y) = true := by
    rw [← d1, i3]; exact n4 _ (line_mem (by omega))
  refine ⟨hm, ?_, ha, ?_⟩
  · rw [← hT]; exact abs_row cw S.main y
  · rw [← hT]; exact abs_row cw S.alt y

/-! ## 5. non-vacuity: a concrete stream on a 6×3 terminal -/

/-- `a中`, CUP onto the second cell of `中`, `b` (lands after it), `EL 1`, `?1049h`, `x中`, `?1049l`,
    CUP to the bottom row, `xy中z`, LF at the bottom (scroll), `DCH 2` (blank row), CUU, CUF,
    `DCH 2` at column 1 of `xy中z` (cuts the wide character) -/
def exBytes : Bytes :=
  [0x61, 0xe4, 0xb8, 0xad, 0x1b, 0x5b, 0x31, 0x3b, 0x33, 0x48, 0x62, 0x1b, 0x5b, 0x31, 0x4b,
   0x1b, 0x5b, 0x3f, 0x31, 0x30, 0x34, 0x39, 0x68, 0x78, 0xe4, 0xb8, 0xad,
   0x1b, 0x5b, 0x3f, 0x31, 0x30, 0x34, 0x39, 0x6c, 0x1b, 0x5b, 0x33, 0x3b, 0x31, 0x48,
   0x78, 0x79, 0xe4, 0xb8, 0xad, 0x7a, 0x0a, 0x1b, 0x5b, 0x32, 0x50,
   0x1b, 0x5b, 0x41, 0x1b, 0x5b, 0x43, 0x1b, 0x5b, 0x32, 0x50]

def exToks : List Tok :=
  [.text [0x61] 0x61, .text zhong 0x4E2D, .csi 0 [1, 3] true 0x48, .text [0x62] 0x62, .csi 0 [1] true 0x4b,
   .csi 0x3f [1049] true 0x68, .text [0x78] 0x78, .text zhong 0x4E2D, .csi 0x3f [1049] true 0x6c,
   .csi 0 [3, 1] true 0x48, .text [0x78] 0x78, .text [0x79] 0x79, .text zhong 0x4E2D, .text [0x7a] 0x7a,
   .ctl 10, .csi 0 [2] true 0x50, .csi 0 [] true 0x41, .csi 0 [] true 0x43, .csi 0 [2] true 0x50]

example : cwS 0x20 ≤ 1 ∧ cwS 0xFFFD ≤ 1 := by decide
example : C10.toksOf exBytes = exToks := by decide
theorem exToks_ok : ∀ tok ∈ exToks, TokWF cwS tok := by
  have e : C10.toksOf exBytes = exToks := by decide
  rw [← e]
  exact fun tok h => tokWF_of_tokOK cwS (C11M.Lemmas.toksFuel_tokOK _ exBytes tok h)
example : TokWF cwS (.text zhong 0x4E2D) :=
  (by decide : clusters cwS zhong = [(zhong, max (cwS 0x4E2D) 1)])

/-- the run-level terminal after the stream -/
def exS : STerm := sStateAfter cwS (STerm.init 6 3) exToks
/-- the model terminal after the stream -/
def exT : Term := (run cwS (Term.init .keep 6 3) exBytes).1

-- `abs` of the run-level result is the model's result, buffer by buffer, and the events agree
set_option maxRecDepth 100000 in
example : (exS.abs cwS).main = exT.main ∧ (exS.abs cwS).alt = exT.alt ∧ (exS.abs cwS).onAlt = exT.onAlt ∧
    (exS.abs cwS).vflags = exT.vflags ∧ STerm.inv cwS exS = true := by decide
set_option maxRecDepth 100000 in
example : sEventsOf cwS (STerm.init 6 3) exToks = (run cwS (Term.init .keep 6 3) exBytes).2.1 := by decide
-- the raw runs: row 1 of the main buffer is `x_z___` (the wide character was cut by `DCH 2`), the
-- alternate buffer still holds `x中` as two runs and a blank run
set_option maxRecDepth 100000 in
example : exS.main.lines[1]? = some ⟨[⟨Style.default, [0x78], 0, 1⟩, blankSpan Style.default 1,
      ⟨Style.default, [0x7a], 0, 1⟩, blankSpan Style.default 1, blankSpan Style.default 2], 6⟩ ∧
    exS.alt.lines[0]? = some ⟨[⟨Style.default, [0x78], 0, 1⟩, ⟨Style.default, zhong, 0, 2⟩,
      blankSpan Style.default 3], 6⟩ ∧ exS.main.cx = 1 ∧ exS.main.cy = 1 := by decide
-- the theorems instantiated on the example
example : exS.abs cwS = exT ∧ STerm.inv cwS exS = true := by
  have e : C10.toksOf exBytes = exToks := by decide
  have := stream_refines (cw := cwS) (by decide) (by decide) (w := 6) (h := 3) (by decide) (by decide) exBytes
  rw [e] at this
  exact ⟨this.1, this.2.2⟩
-- after `b` was written with the cursor on the second cell of `中`, the wide character is intact
-- and `b` sits after it
set_option maxRecDepth 100000 in
example : (sStateAfter cwS (STerm.init 6 3) (exToks.take 4)).main.lines[0]? =
    some ⟨[⟨Style.default, [0x61], 0, 1⟩, ⟨Style.default, zhong, 0, 2⟩, ⟨Style.default, [0x62], 0, 1⟩,
      blankSpan Style.default 2], 6⟩ := by decide
-- resize of both buffers
set_option maxRecDepth 100000 in
example : ((((sStateAfter cwS (STerm.init 6 3) (exToks.take 2)).resize cwS 2 2).1).abs cwS).main =
    (((sStateAfter cwS (STerm.init 6 3) (exToks.take 2)).abs cwS).resize 2 2).1.main := by decide

/-- the token hypothesis of `apply_refines` is needed: a text token carrying two characters with the
    nominal width of one (never produced by the tokeniser) is stored as one run of width 1 showing
    two cells; the row is not well formed and shows other cells than the model terminal -/
theorem apply_needs_tokWF :
    STerm.inv cwS (STerm.init 3 1) = true ∧ ¬ TokWF cwS (.text [0x61, 0x62] 0x61) ∧
    ((STerm.init 3 1).apply cwS (.text [0x61, 0x62] 0x61)).1.main.abs cwS ≠
      (((STerm.init 3 1).abs cwS).apply cwS (.text [0x61, 0x62] 0x61)).1.main ∧
    STerm.inv cwS ((STerm.init 3 1).apply cwS (.text [0x61, 0x62] 0x61)).1 = false := by
  refine ⟨by decide, ?_, ?_, ?_⟩
  · show ¬ clusters cwS [0x61, 0x62] = [([0x61, 0x62], max (cwS 0x61) 1)]
    decide
  · set_option maxRecDepth 100000 in decide
  · set_option maxRecDepth 100000 in decide

end TM.C02SpanTerm

#print axioms TM.C02SpanTerm.setMargins_refines
#print axioms TM.C02SpanTerm.saveCursor_refines
#print axioms TM.C02SpanTerm.restoreCursor_refines
#print axioms TM.C02SpanTerm.setCx_refines
#print axioms TM.C02SpanTerm.setSty_refines
#print axioms TM.C02SpanTerm.setWrap_refines
#print axioms TM.C02SpanTerm.switchScreen_refines
#print axioms TM.C02SpanTerm.decMode_refines
#print axioms TM.C02SpanTerm.decModes_refines
#print axioms TM.C02SpanTerm.csiPlain_refines
#print axioms TM.C02SpanTerm.csi_refines
#print axioms TM.C02SpanTerm.apply_refines
#print axioms TM.C02SpanTerm.resize_refines
#print axioms TM.C02SpanTerm.apply_size
#print axioms TM.C02SpanTerm.run_refines_from
#print axioms TM.C02SpanTerm.abs_init
#print axioms TM.C02SpanTerm.inv_init
#print axioms TM.C02SpanTerm.run_refines
#print axioms TM.C02SpanTerm.tokWF_of_tokOK
#print axioms TM.C02SpanTerm.stream_refines
#print axioms TM.C02SpanTerm.stream_rows
#print axioms TM.C02SpanTerm.apply_needs_tokWF

