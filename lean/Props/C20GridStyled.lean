import Props.C20GridAnsi
import Props.C11SpanMirror
import TM.Mirror
/-!
# C20GridStyled — `StyledLine(x, w, y)` of the grid buffer (`GRow.styledLine`)

Proved here (full strength, no hypothesis on the content of the row):
* `stretch_widths` — one stretch of equal attributes: the widths of its runs sum to the number of
  its cells and every run has a positive width;
* `grid_styledLine_widths` — statement 2 of the brief: the widths of the returned runs sum to the
  reported width, every run has a positive width, the reported width is the requested one clamped
  to the row (`some w` and `none`).
* `contSty_needed` — a finding about the HYPOTHESES of statement 1: `C20Grid.RowOK` and `okCh` do
  not imply "continuation cells have the style of the cell to their left" (`ContSty`, =
  `C11.RowOK.contSty` of the abstraction), and without it statement 1 is false (`badRow`, window
  `[0, 2)`). Such a row is not produced by the writers (`rawWriteRune` styles the whole character).

* `grid_styledLine_subCells_partial` — statement 1 for rows WITHOUT wide characters (any styles,
  repeat and text runs, `some w` and `none` forms).
* `stream_contSty` — towards 3: after every byte stream every row of the active screen of the
  array-level terminal satisfies `ContSty` (from `C11M.InnerOK'` through `stream_rows`).

NOT proved (time): statement 1 in general,
  `RowOK r → r.all okCh → ContSty r → x + w ≤ r.length →
     ((r.styledLine x (some w)).1).flatMap GSpanC.cells = subCells (r.map GCell.abs) x (x + w)`
and its corollary 3 (`stream_grid_styledLine`; it needs `ContSty` for reachable rows, from
`C11M.InnerOK'` / `RowOK.contSty` of the model rows through `stream_rows`). It is checked by
`decide` on every window of `exRow` (`allWindows`), which has wide characters cut on the left, on
the right, on both sides, and two styles; no counterexample was found among rows with `ContSty`.
The helper equations `gStretch_lead` / `gStretch_nolead` / `core` / `mainOf` are the intended
starting point for it.
-/
namespace TM.C20GridStyled
open TM

theorem gLeadCont_le : ∀ s : GRow, gLeadCont s ≤ s.length
  | [] => by simp [gLeadCont]
  | c :: rest => by
    have := gLeadCont_le rest
    simp only [gLeadCont]; split <;> simp <;> omega

theorem gStyleRun_le (st : Style) : ∀ s : GRow, gStyleRun st s ≤ s.length
  | [] => by simp [gStyleRun]
  | c :: rest => by
    have := gStyleRun_le st rest
    simp only [gStyleRun]; split <;> simp <;> omega

theorem gStyleRun_pos (c : GCell) (rest : GRow) : 0 < gStyleRun c.sty (c :: rest) := by
  simp [gStyleRun]

/-- sum of the widths of a list of runs -/
def wsum (l : List GSpanC) : Nat := (l.map (·.span.width)).sum

def blanks (st : Style) (n : Nat) : GSpanC := ⟨⟨st, [], 0x20, n⟩, []⟩

/-- the repeat-or-text run of `gStretch` for the cells `body` -/
def mainOf (st : Style) (body : GRow) : GSpanC :=
  let first := (body.head?.map (·.ch)).getD 0
  if (body.all fun c => c.ch == first && c.width == 1 && !c.cont) then ⟨⟨st, [], first, body.length⟩, []⟩
  else ⟨⟨st, (body.filter (!·.cont)).flatMap (·.text), 0, body.length⟩,
        (body.filter (!·.cont)).map fun c => (c.text, c.width)⟩

/-- `gStretch` after the leading blanks -/
def core (st : Style) (pre : List GSpanC) (seg1 : GRow) (cutTail : Nat) : List GSpanC :=
  if (seg1.take (seg1.length - cutTail)).isEmpty then pre ++ [blanks st cutTail]
  else pre ++ [mainOf st (seg1.take (seg1.length - cutTail))] ++ (if cutTail > 0 then [blanks st cutTail] else [])

def cutTailOf (c : Bool) (seg1 : GRow) : Nat := if c then min (gTrailCont seg1 + 1) seg1.length else 0

theorem gStretch_lead (st : Style) (seg : GRow) (a c : Bool)
    (h : a = true ∧ seg.head?.map (·.cont) = some true) :
    gStretch st seg a c =
      if (seg.drop (gLeadCont seg)).isEmpty ∧ gLeadCont seg > 0 then [blanks st (gLeadCont seg)]
      else core st [blanks st (gLeadCont seg)] (seg.drop (gLeadCont seg)) (cutTailOf c (seg.drop (gLeadCont seg))) := by
  unfold gStretch core mainOf cutTailOf blanks
  simp only [h, and_self, if_true]

theorem gStretch_nolead (st : Style) (seg : GRow) (a c : Bool)
    (h : ¬ (a = true ∧ seg.head?.map (·.cont) = some true)) :
    gStretch st seg a c = core st [] seg (cutTailOf c seg) := by
  unfold gStretch core mainOf cutTailOf blanks
  simp only [h, if_false, List.drop_zero, Nat.lt_irrefl, gt_iff_lt, and_false, if_false]

theorem mainOf_width (st : Style) (body : GRow) : (mainOf st body).span.width = body.length := by
  unfold mainOf; simp only []; split <;> rfl

theorem core_widths (st : Style) (pre : List GSpanC) (seg1 : GRow) (ct : Nat) (hct : ct ≤ seg1.length)
    (hne : seg1 ≠ []) (hpre : ∀ s ∈ pre, 0 < s.span.width) :
    wsum (core st pre seg1 ct) = wsum pre + seg1.length ∧ ∀ s ∈ core st pre seg1 ct, 0 < s.span.width := by
  have hlen : 0 < seg1.length := List.length_pos_iff.2 hne
  unfold core
  by_cases hb : (seg1.take (seg1.length - ct)).isEmpty = true
  · rw [if_pos hb]
    have h0 : seg1.length - ct = 0 := by
      have := List.isEmpty_iff.1 hb
      have h2 := congrArg List.length this
      simp only [List.length_take, List.length_nil] at h2
      omega
    constructor
    · simp only [wsum, blanks, List.map_append, List.sum_append, List.map_cons, List.map_nil, List.sum_cons, List.sum_nil]
      omega
    · intro s hs
      simp only [List.mem_append, List.mem_singleton] at hs
      rcases hs with hs | rfl
      · exact hpre s hs
      · show 0 < ct; omega
  · rw [if_neg hb]
    have h0 : 0 < seg1.length - ct := by
      apply Nat.pos_of_ne_zero
      intro h; apply hb; rw [h]; rfl
    have hbl : (seg1.take (seg1.length - ct)).length = seg1.length - ct := by
      simp only [List.length_take]; omega
    constructor
    · simp only [wsum, List.map_append, List.sum_append, List.map_cons, List.map_nil, List.sum_cons, List.sum_nil,
        mainOf_width, hbl]
      split
      · simp only [blanks, List.map_cons, List.map_nil, List.sum_cons, List.sum_nil]; omega
      · simp only [List.map_nil, List.sum_nil]; omega
    · intro s hs
      simp only [List.mem_append, List.mem_singleton] at hs
      rcases hs with (hs | rfl) | hs
      · exact hpre s hs
      · rw [mainOf_width, hbl]; exact h0
      · split at hs
        · simp only [List.mem_singleton] at hs; subst hs; show 0 < ct; assumption
        · simp at hs

theorem cutTailOf_le (c : Bool) (s : GRow) : cutTailOf c s ≤ s.length := by
  unfold cutTailOf; split
  · exact Nat.min_le_right _ _
  · exact Nat.zero_le _

theorem gLeadCont_pos {seg : GRow} (h : seg.head?.map (·.cont) = some true) : 0 < gLeadCont seg := by
  cases seg with
  | nil => simp at h
  | cons c rest =>
    simp only [List.head?_cons, Option.map_some, Option.some.injEq] at h
    simp [gLeadCont, h]

/-- one stretch: the widths of its runs sum to the number of its cells, each run is not empty -/
theorem stretch_widths (st : Style) (seg : GRow) (a c : Bool) (hne : seg ≠ []) :
    wsum (gStretch st seg a c) = seg.length ∧ ∀ s ∈ gStretch st seg a c, 0 < s.span.width := by
  have hle := gLeadCont_le seg
  have hlen : 0 < seg.length := List.length_pos_iff.2 hne
  by_cases hc : a = true ∧ seg.head?.map (·.cont) = some true
  · rw [gStretch_lead st seg a c hc]
    have hp := gLeadCont_pos hc.2
    by_cases he : (seg.drop (gLeadCont seg)).isEmpty = true
    · rw [if_pos ⟨he, hp⟩]
      have h2 := congrArg List.length (List.isEmpty_iff.1 he)
      simp only [List.length_drop, List.length_nil] at h2
      constructor
      · simp only [wsum, blanks, List.map_cons, List.map_nil, List.sum_cons, List.sum_nil]; omega
      · intro s hs
        simp only [List.mem_singleton] at hs; subst hs; exact hp
    · rw [if_neg (fun h => he h.1)]
      have hne1 : seg.drop (gLeadCont seg) ≠ [] := fun h => he (by rw [h]; rfl)
      obtain ⟨h1, h2⟩ := core_widths st [blanks st (gLeadCont seg)] _ _ (cutTailOf_le c _) hne1
        (by intro s hs; simp only [List.mem_singleton] at hs; subst hs; exact hp)
      refine ⟨?_, h2⟩
      rw [h1]
      simp only [wsum, blanks, List.map_cons, List.map_nil, List.sum_cons, List.sum_nil, List.length_drop]; omega
  · rw [gStretch_nolead st seg a c hc]
    obtain ⟨h1, h2⟩ := core_widths st [] seg _ (cutTailOf_le c _) hne (by intro s hs; simp at hs)
    refine ⟨?_, h2⟩
    rw [h1]; simp [wsum]

theorem wsum_append (a b : List GSpanC) : wsum (a ++ b) = wsum a + wsum b := by
  simp [wsum]

/-- the loop over the stretches: the widths sum to the number of requested cells -/
theorem aux_widths (r : GRow) (x e : Nat) (he : e ≤ r.length) : ∀ (fuel i : Nat), i ≤ e → e - i < fuel →
    wsum (gStyledAux r x e fuel i) = e - i ∧ ∀ s ∈ gStyledAux r x e fuel i, 0 < s.span.width := by
  intro fuel
  induction fuel with
  | zero => intro i _ h; omega
  | succ fuel ih =>
    intro i hi hf
    unfold gStyledAux
    by_cases hge : i ≥ e
    · rw [if_pos hge]
      exact ⟨by simp [wsum]; omega, by intro s hs; simp at hs⟩
    · rw [if_neg hge]
      simp only []
      have hlen : ((r.drop i).take (e - i)).length = e - i := by
        simp only [List.length_take, List.length_drop]; omega
      generalize hrest : (r.drop i).take (e - i) = rest at hlen
      cases rest with
      | nil => simp only [List.length_nil] at hlen; omega
      | cons c tl =>
        simp only []
        have hn1 := gStyleRun_pos c tl
        have hn2 := gStyleRun_le c.sty (c :: tl)
        have hsl : ((c :: tl).take (gStyleRun c.sty (c :: tl))).length = gStyleRun c.sty (c :: tl) := by
          simp only [List.length_take]; omega
        have hsne : (c :: tl).take (gStyleRun c.sty (c :: tl)) ≠ [] := by
          intro h; rw [h] at hsl; simp only [List.length_nil] at hsl; omega
        obtain ⟨s1, s2⟩ := stretch_widths c.sty _ (decide (i = x))
          (decide (i + gStyleRun c.sty (c :: tl) = e) && decide (e < r.length) && r.contAt e) hsne
        obtain ⟨a1, a2⟩ := ih (i + gStyleRun c.sty (c :: tl)) (by omega) (by omega)
        constructor
        · rw [wsum_append, s1, a1, hsl]; omega
        · intro s hs
          rcases List.mem_append.1 hs with h | h
          · exact s2 s h
          · exact a2 s h

/-- **2.** the runs `StyledLine(x, w, y)` returns have widths that sum to the reported width, which
    is the requested width clamped to the row, and every run has a positive width. No hypothesis
    on the content of the row. -/
theorem grid_styledLine_widths (r : GRow) (x : Nat) (hx : x ≤ r.length) (ow : Option Nat) :
    wsum (r.styledLine x ow).1 = (r.styledLine x ow).2 ∧
    (∀ s ∈ (r.styledLine x ow).1, 0 < s.span.width) ∧
    (r.styledLine x ow).2 = (match ow with | some w => min w (r.length - x) | none => r.length - x) := by
  have key : ∀ w, x + w ≤ r.length →
      wsum (gStyledAux r x (x + w) (w + 1) x) = w ∧ ∀ s ∈ gStyledAux r x (x + w) (w + 1) x, 0 < s.span.width := by
    intro w hw
    obtain ⟨a1, a2⟩ := aux_widths r x (x + w) hw (w + 1) x (by omega) (by omega)
    exact ⟨by rw [a1]; omega, a2⟩
  cases ow with
  | none =>
    obtain ⟨a1, a2⟩ := key (r.length - x) (by omega)
    exact ⟨a1, a2, rfl⟩
  | some w =>
    unfold GRow.styledLine
    simp only []
    by_cases h : x + w > r.length
    · rw [if_pos h]
      obtain ⟨a1, a2⟩ := key (r.length - x) (by omega)
      exact ⟨a1, a2, by omega⟩
    · rw [if_neg h]
      obtain ⟨a1, a2⟩ := key w (by omega)
      exact ⟨a1, a2, by omega⟩

/-! ## statement 1, partial: rows without wide characters -/

/-- a cell of a row without wide characters, consistent (`ok`, `okCh`) -/
def Narrow (c : GCell) : Prop :=
  c.cont = false ∧ c.width = 1 ∧ encodeRune c.ch = c.text ∧ c.text ≠ []

theorem narrow_abs {c : GCell} (h : Narrow c) : c.abs = ⟨.ch c.text 1, c.sty⟩ := by
  unfold GCell.abs; rw [h.1, h.2.1]; rfl

theorem gStyleRun_sty (st : Style) : ∀ s : GRow, ∀ c ∈ s.take (gStyleRun st s), c.sty = st
  | [] => by intro c hc; simp [gStyleRun] at hc
  | d :: rest => by
    intro c hc
    simp only [gStyleRun] at hc
    split at hc
    · rename_i hd
      simp only [List.take_succ_cons, List.mem_cons] at hc
      rcases hc with rfl | hc
      · exact hd
      · exact gStyleRun_sty st rest c hc
    · simp at hc

theorem textCells_narrow (st : Style) : ∀ body : GRow, (∀ c ∈ body, Narrow c ∧ c.sty = st) →
    ((body.filter (!·.cont)).map fun c => (c.text, c.width)).flatMap (fun c => charCells c.1 c.2 st) =
      body.map GCell.abs
  | [] => by intro _; rfl
  | d :: rest => by
    intro h
    have hd := h d (by simp)
    have ih := textCells_narrow st rest (fun c hc => h c (by simp [hc]))
    have hf : (!d.cont) = true := by rw [hd.1.1]; rfl
    have e1 : (d :: rest).filter (fun c => !c.cont) = d :: rest.filter (fun c => !c.cont) := by
      simp [hd.1.1]
    rw [e1, List.map_cons, List.flatMap_cons, ih, List.map_cons, narrow_abs hd.1,
      hd.1.2.1, hd.2]
    rfl

/-- the run of a non-empty stretch without wide characters shows the cells of the stretch -/
theorem mainOf_cells (st : Style) (body : GRow) (hne : body ≠ []) (h : ∀ c ∈ body, Narrow c ∧ c.sty = st) :
    (mainOf st body).cells = body.map GCell.abs := by
  unfold mainOf
  simp only []
  split
  · rename_i hall
    unfold GSpanC.cells
    simp only [List.isEmpty_nil, if_true]
    symm
    rw [List.eq_replicate_iff]
    refine ⟨by simp, ?_⟩
    intro b hb
    obtain ⟨c, hc, rfl⟩ := List.mem_map.1 hb
    have h1 := List.all_eq_true.1 hall c hc
    simp only [Bool.and_eq_true, beq_iff_eq] at h1
    obtain ⟨hn, hs⟩ := h c hc
    rw [narrow_abs hn, hs, ← hn.2.2.1, h1.1.1]
  · unfold GSpanC.cells
    simp only []
    have hte : ((body.filter (!·.cont)).flatMap (·.text)).isEmpty = false := by
      cases body with
      | nil => exact absurd rfl hne
      | cons d rest =>
        have hd := h d (by simp)
        have hf : (!d.cont) = true := by rw [hd.1.1]; rfl
        have e1 : (d :: rest).filter (fun c => !c.cont) = d :: rest.filter (fun c => !c.cont) := by
          simp [hd.1.1]
        rw [e1, List.flatMap_cons]
        cases ht : d.text with
        | nil => exact absurd ht hd.1.2.2.2
        | cons a b => rfl
    rw [hte]
    simp only [Bool.false_eq_true, if_false]
    exact textCells_narrow st body h

theorem stretch_narrow (st : Style) (seg : GRow) (a : Bool) (hne : seg ≠ []) (h : ∀ c ∈ seg, Narrow c ∧ c.sty = st) :
    gStretch st seg a false = [mainOf st seg] := by
  have hc : ¬ (a = true ∧ seg.head?.map (·.cont) = some true) := by
    cases seg with
    | nil => exact absurd rfl hne
    | cons d rest =>
      have hd := h d (by simp)
      simp only [List.head?_cons, Option.map_some, hd.1.1]
      intro hh; cases hh.2
  rw [gStretch_nolead st seg a false hc]
  unfold core cutTailOf
  simp only [Bool.false_eq_true, if_false, Nat.sub_zero, List.take_length, Nat.lt_irrefl, gt_iff_lt]
  have : seg.isEmpty = false := by
    cases seg with
    | nil => exact absurd rfl hne
    | cons d rest => rfl
  rw [this]; rfl

theorem aux_narrow (r : GRow) (x e : Nat) (he : e ≤ r.length) (hN : ∀ c ∈ r, Narrow c) :
    ∀ (fuel i : Nat), i ≤ e → e - i < fuel →
    (gStyledAux r x e fuel i).flatMap GSpanC.cells = ((r.drop i).take (e - i)).map GCell.abs := by
  have hce : r.contAt e = false := by
    unfold GRow.contAt
    cases hg : r[e]? with
    | none => rfl
    | some c => exact (hN c (List.mem_of_getElem? hg)).1
  intro fuel
  induction fuel with
  | zero => intro i _ h; omega
  | succ fuel ih =>
    intro i hi hf
    unfold gStyledAux
    by_cases hge : i ≥ e
    · rw [if_pos hge, show e - i = 0 by omega]; rfl
    · rw [if_neg hge]
      simp only []
      have hlen : ((r.drop i).take (e - i)).length = e - i := by
        simp only [List.length_take, List.length_drop]; omega
      have hmem : ∀ c ∈ (r.drop i).take (e - i), c ∈ r :=
        fun c hc => List.mem_of_mem_drop (List.mem_of_mem_take hc)
      have hnext : ∀ n, (r.drop (i + n)).take (e - (i + n)) = ((r.drop i).take (e - i)).drop n := by
        intro n
        rw [List.drop_take, List.drop_drop, show e - i - n = e - (i + n) by omega]
      generalize hrest : (r.drop i).take (e - i) = rest at hlen hmem hnext
      cases rest with
      | nil => simp only [List.length_nil] at hlen; omega
      | cons c tl =>
        simp only [hce, Bool.and_false]
        have hn1 := gStyleRun_pos c tl
        have hn2 := gStyleRun_le c.sty (c :: tl)
        generalize hn : gStyleRun c.sty (c :: tl) = n at hn1 hn2
        have hsne : (c :: tl).take n ≠ [] := by
          intro h
          have := congrArg List.length h
          simp only [List.length_take, List.length_nil] at this; omega
        have hseg : ∀ d ∈ (c :: tl).take n, Narrow d ∧ d.sty = c.sty := by
          intro d hd
          exact ⟨hN d (hmem d (List.mem_of_mem_take hd)), by rw [← hn] at hd; exact gStyleRun_sty c.sty _ d hd⟩
        rw [stretch_narrow c.sty _ _ hsne hseg, List.flatMap_append, ih (i + n) (by omega) (by omega), hnext n]
        simp only [List.flatMap_cons, List.flatMap_nil, List.append_nil]
        rw [mainOf_cells c.sty _ hsne hseg, ← List.map_append, List.take_append_drop]

theorem headOf_clean {R : Row} {j : Nat} (h : contAt R j = false) : headOf R j = j := by
  cases j with
  | zero => rfl
  | succ j => unfold headOf; rw [h]; rfl

theorem subCells_narrow (r : GRow) (x e : Nat) (he : e ≤ r.length) (hN : ∀ c ∈ r, Narrow c) :
    subCells (r.map GCell.abs) x e = ((r.drop x).take (e - x)).map GCell.abs := by
  apply List.ext_getElem?
  intro k
  by_cases hk : k < e - x
  · rw [C11M.subCells_getElem? _ _ _ _ hk]
    have hlt : x + k < r.length := by omega
    have hg : (r.map GCell.abs)[x + k]? = some ⟨.ch (r[x + k]).text 1, (r[x + k]).sty⟩ := by
      rw [List.getElem?_map, List.getElem?_eq_getElem hlt, Option.map_some,
        narrow_abs (hN _ (List.getElem_mem hlt))]
    have hc : contAt (r.map GCell.abs) (x + k) = false := by unfold contAt; rw [hg]
    have hw : widthAt (r.map GCell.abs) (x + k) = 1 := by unfold widthAt; rw [hg]; rfl
    rw [C11M.cutCell_inside _ x e (x + k) (by rw [List.length_map]; exact hlt)
      (by rw [headOf_clean hc]; omega) (by rw [headOf_clean hc, hw]; omega)]
    rw [List.getElem?_map, List.getElem?_take, if_pos hk, List.getElem?_drop, List.getElem?_eq_getElem hlt,
      Option.map_some, List.getElem_map]
  · rw [List.getElem?_eq_none (by rw [C11M.subCells_length]; omega),
      List.getElem?_eq_none (by simp only [List.length_map, List.length_take, List.length_drop]; omega)]

/- the full statement 1 (NOT proved; needs `ContSty`, see `contSty_needed`):
   theorem grid_styledLine_subCells (r : GRow) (hr : C20Grid.RowOK r) (hch : r.all GCell.okCh = true)
       (hcs : ContSty r) {x w : Nat} (hxw : x + w ≤ r.length) :
       ((r.styledLine x (some w)).1).flatMap GSpanC.cells = subCells (r.map GCell.abs) x (x + w) ∧
       (r.styledLine x (some w)).2 = w -/

/-- **1, partial**: for a row WITHOUT wide characters (no continuation cell, every width 1) of
    consistent cells (`ok`, `okCh`), any number of styles: the runs `StyledLine(x, w, y)` returns
    (repeat runs and text runs), expanded to cells, are the mirror model's read `subCells` of
    `[x, x + w)`, and the reported width is `w`; also the to-the-end form. Missing: rows with wide
    characters (the leading / trailing blank runs of a cut character, text runs with continuation
    cells). -/
theorem grid_styledLine_subCells_partial (r : GRow) (hok : r.all GCell.ok = true) (hch : r.all GCell.okCh = true)
    (hnw : ∀ c ∈ r, c.cont = false ∧ c.width = 1) {x : Nat} (hx : x ≤ r.length) :
    (∀ w, x + w ≤ r.length →
      ((r.styledLine x (some w)).1).flatMap GSpanC.cells = subCells (r.map GCell.abs) x (x + w) ∧
      (r.styledLine x (some w)).2 = w) ∧
    ((r.styledLine x none).1).flatMap GSpanC.cells = subCells (r.map GCell.abs) x r.length ∧
    (r.styledLine x none).2 = r.length - x := by
  have hN : ∀ c ∈ r, Narrow c := by
    intro c hc
    have h1 := List.all_eq_true.1 hok c hc
    have h2 := List.all_eq_true.1 hch c hc
    obtain ⟨h3, h4⟩ := hnw c hc
    unfold GCell.ok at h1
    unfold GCell.okCh at h2
    rw [h3] at h1 h2
    simp only [Bool.false_eq_true, if_false, Bool.and_eq_true, beq_iff_eq, Bool.not_eq_true',
      List.isEmpty_eq_false_iff] at h1 h2
    exact ⟨h3, h4, h2.1, h1.2⟩
  have key : ∀ w, x + w ≤ r.length →
      (gStyledAux r x (x + w) (w + 1) x).flatMap GSpanC.cells = subCells (r.map GCell.abs) x (x + w) := by
    intro w hw
    rw [aux_narrow r x (x + w) hw hN (w + 1) x (by omega) (by omega), subCells_narrow r x (x + w) hw hN]
  refine ⟨?_, ?_, rfl⟩
  · intro w hw
    unfold GRow.styledLine
    simp only []
    rw [if_neg (by omega)]
    exact ⟨key w hw, rfl⟩
  · have h := key (r.length - x) (by omega)
    have e : x + (r.length - x) = r.length := by omega
    show (gStyledAux r x (x + (r.length - x)) (r.length - x + 1) x).flatMap GSpanC.cells = _
    rw [h, e]

/-- continuation cells carry the style of the cell to their left (`C11.RowOK.contSty` of the
    abstraction; `rawWriteRune` styles the whole character). NOT implied by `C20Grid.RowOK`. -/
def ContSty (r : GRow) : Prop :=
  ∀ i c, r[i + 1]? = some c → c.cont = true → ∃ c0, r[i]? = some c0 ∧ c0.sty = c.sty

/-! ## `ContSty` holds on the rows of the active screen after every byte stream -/

theorem innerOK'_stateAfter (cw : Nat → Nat) (hsp : cw 32 ≤ 1) (hrep : cw 0xFFFD ≤ 1) :
    ∀ (toks : List Tok) (t : Term), C11M.InnerOK' cw t → (∀ tok ∈ toks, C11M.TokOK tok) →
      C11M.InnerOK' cw (C10.stateAfter cw t toks) := by
  intro toks
  induction toks with
  | nil => intro t h _; exact h
  | cons tok toks ih =>
    intro t h htoks
    unfold C10.stateAfter
    rw [List.foldl_cons]
    exact ih _ (C11M.innerOK_apply cw t tok h (htoks tok (by simp)) hsp hrep).1
      (fun tk htk => htoks tk (by simp [htk]))

/-- `ContSty` of a grid row from `C11.RowOK.contSty` of its abstraction -/
theorem contSty_of_abs {cw : Nat → Nat} {r : GRow} (h : C11.RowOK cw (r.map GCell.abs)) : ContSty r := by
  intro i c hc hcont
  have h1 : (r.map GCell.abs)[i + 1]? = some ⟨.cont, c.sty⟩ := by
    rw [List.getElem?_map, hc, Option.map_some]; unfold GCell.abs; rw [hcont]; rfl
  obtain ⟨g, hg⟩ := h.contSty i c.sty h1
  rw [List.getElem?_map] at hg
  cases h0 : r[i]? with
  | none => rw [h0] at hg; cases hg
  | some c0 =>
    rw [h0, Option.map_some, Option.some.injEq] at hg
    refine ⟨c0, rfl, ?_⟩
    have := congrArg Cell.sty hg
    unfold GCell.abs at this
    split at this <;> exact this

/-- **towards 3**: for every byte stream (sizes within the CSI parameter range, `cw 32 ≤ 1`,
    `cw 0xFFFD ≤ 1`), every row of the ACTIVE screen of the array-level terminal satisfies `ContSty`
    (from `C11M.InnerOK'` on the model terminal through `C20Grid.stream_rows`): the extra
    hypothesis of statement 1 holds on reachable rows. -/
theorem stream_contSty (cw : Nat → Nat) (hsp : cw 32 ≤ 1) (hrep : cw 0xFFFD ≤ 1) {w h : Nat}
    (hw : 1 ≤ w) (hh : 1 ≤ h) (hW : w ≤ paramMax) (hH : h ≤ paramMax) (bs : Bytes) {y : Nat} (hy : y < h) :
    ContSty ((C20Grid.gStateAfter cw (GTerm.init w h) (C10.toksOf bs)).scr.row y) := by
  obtain ⟨d1, d2, d3, d4, _, _, hon, hrows⟩ := C20Grid.stream_rows cw hw hh bs
  obtain ⟨_, m2, _, a2⟩ := hrows y hy
  have hT := (C20Grid.stream_refines cw hw hh bs).1
  have h1 : (run cw (Term.init .blank w h) bs).1 = C10.stateAfter cw (Term.init .blank w h) (C10.toksOf bs) :=
    C10.runFuel_state ..
  have hI : C11M.InnerOK' cw (run cw (Term.init .blank w h) bs).1 := by
    rw [h1]
    exact innerOK'_stateAfter cw hsp hrep _ _ (C11M.innerOK_init cw .blank w h hw hh hW hH hsp)
      (fun tok hk => C11M.Lemmas.toksFuel_tokOK _ bs tok hk)
  have hrowsT := hI.toInnerOK.rows
  generalize (run cw (Term.init .blank w h) bs).1 = T at hT hon m2 a2 hrowsT
  generalize C20Grid.gStateAfter cw (GTerm.init w h) (C10.toksOf bs) = S at hT hon m2 a2 d1 d2 d3 d4
  have hmh : T.main.h = h := by rw [← hT]; exact d2
  have hah : T.alt.h = h := by rw [← hT]; exact d4
  have hon' : S.onAlt = T.onAlt := hon
  unfold GTerm.scr
  unfold Term.scr at hrowsT
  rw [← hon'] at hrowsT
  cases hS : S.onAlt with
  | false =>
    rw [hS] at hrowsT
    simp only [Bool.false_eq_true, if_false] at hrowsT ⊢
    have := hrowsT y (by rw [hmh]; exact hy)
    rw [show T.main.row y = _ from m2] at this
    exact contSty_of_abs this
  | true =>
    rw [hS] at hrowsT
    simp only [if_true] at hrowsT ⊢
    have := hrowsT y (by rw [hah]; exact hy)
    rw [show T.alt.row y = _ from a2] at this
    exact contSty_of_abs this

section nonvacuity
open TM.C11.Examples (boldRedOn200 fancy)

def wide (st : Style) : GRow := [⟨0x4E16, [0xE4, 0xB8, 0x96], 2, false, st⟩, ⟨0, [], 0, true, st⟩]
def nar (ch : Nat) (st : Style) : GCell := ⟨ch, encodeRune ch, 1, false, st⟩

/-- `世aa` in one rendition, `世b世` in another: 9 cells -/
def exRow : GRow :=
  wide boldRedOn200 ++ [nar 0x61 boldRedOn200, nar 0x61 boldRedOn200] ++ wide fancy ++ [nar 0x62 fancy] ++ wide fancy

example : exRow.all GCell.ok = true ∧ rowWF (exRow.map GCell.abs) = true ∧ exRow.all GCell.okCh = true := by
  decide
/-- the window `[1, 8)` cuts the first wide character on the left and the last one on the right,
    and contains a change of style: blank, repeat run `aa`, text run `世b`, blank -/
example : (exRow.styledLine 1 (some 7)).1 =
    [⟨⟨boldRedOn200, [], 0x20, 1⟩, []⟩, ⟨⟨boldRedOn200, [], 0x61, 2⟩, []⟩,
     ⟨⟨fancy, [0xE4, 0xB8, 0x96, 0x62], 0, 3⟩, [([0xE4, 0xB8, 0x96], 2), ([0x62], 1)]⟩,
     ⟨⟨fancy, [], 0x20, 1⟩, []⟩] := by decide
example : ((exRow.styledLine 1 (some 7)).1).flatMap GSpanC.cells = subCells (exRow.map GCell.abs) 1 8 := by
  decide
example : ((exRow.styledLine 1 (some 7)).1).flatMap GSpanC.cells =
    [blank boldRedOn200, ⟨.ch [0x61] 1, boldRedOn200⟩, ⟨.ch [0x61] 1, boldRedOn200⟩,
     ⟨.ch [0xE4, 0xB8, 0x96] 2, fancy⟩, ⟨.cont, fancy⟩, ⟨.ch [0x62] 1, fancy⟩, blank fancy] := by decide
/-- a wide character cut on both sides (three cells, window of its middle cell) -/
example :
    let r : GRow := [⟨0x4E16, [0xE4, 0xB8, 0x96], 3, false, fancy⟩, ⟨0, [], 0, true, fancy⟩, ⟨0, [], 0, true, fancy⟩]
    ((r.styledLine 1 (some 1)).1).flatMap GSpanC.cells = subCells (r.map GCell.abs) 1 2 ∧
    ((r.styledLine 1 (some 1)).1).flatMap GSpanC.cells = [blank fancy] := by decide
/-- the widths theorem on the example -/
example : wsum (exRow.styledLine 1 (some 7)).1 = 7 := (grid_styledLine_widths exRow 1 (by decide) (some 7)).1

/-- a row that `C20Grid.RowOK` and `okCh` allow but no writer produces: the continuation cell of
    `世` in another style than its head -/
def badRow : GRow :=
  [⟨0x4E16, [0xE4, 0xB8, 0x96], 2, false, boldRedOn200⟩, ⟨0, [], 0, true, fancy⟩, nar 0x61 fancy, nar 0x61 fancy]

/-- **the hypothesis "continuation cells have the style of their head" is needed**: on `badRow`
    (`RowOK`, `okCh`) `StyledLine(0, 2)` gives a text run `世` of width 1 (its expansion has two
    cells in the head's style) and a blank in the other style; `subCells` shows the two cells -/
theorem contSty_needed :
    (badRow.all GCell.ok = true ∧ rowWF (badRow.map GCell.abs) = true) ∧ badRow.all GCell.okCh = true ∧
    ((badRow.styledLine 0 (some 2)).1).flatMap GSpanC.cells ≠ subCells (badRow.map GCell.abs) 0 2 ∧
    (badRow.styledLine 0 (some 2)).1 =
      [⟨⟨boldRedOn200, [0xE4, 0xB8, 0x96], 0, 1⟩, [([0xE4, 0xB8, 0x96], 2)]⟩, ⟨⟨fancy, [], 0, 1⟩, []⟩] := by
  decide

/-- statement 1 on every window of a row, as a Boolean -/
def allWindows (r : GRow) : Bool :=
  (List.range (r.length + 1)).all fun x => (List.range (r.length + 1 - x)).all fun w =>
    ((r.styledLine x (some w)).1).flatMap GSpanC.cells == subCells (r.map GCell.abs) x (x + w) &&
    ((r.styledLine x none).1).flatMap GSpanC.cells == subCells (r.map GCell.abs) x r.length

set_option maxRecDepth 100000 in
/-- every window of `exRow` (55 of them: cuts on the left, on the right, on both sides, stretches) -/
example : allWindows exRow = true := by decide

/-- the hypotheses of `grid_styledLine_subCells_partial` hold on a row with two styles, a repeat
    run and a text run; `ContSty` holds on `exRow` and fails on `badRow` -/
def narRow : GRow := [nar 0x61 boldRedOn200, nar 0x61 boldRedOn200, nar 0x62 fancy, nar 0x63 fancy]
example : ((narRow.styledLine 1 (some 3)).1).flatMap GSpanC.cells = subCells (narRow.map GCell.abs) 1 4 :=
  ((grid_styledLine_subCells_partial narRow (by decide) (by decide) (by decide) (x := 1) (by decide)).1 3
    (by decide)).1
example : (narRow.styledLine 1 (some 3)).1 =
    [⟨⟨boldRedOn200, [], 0x61, 1⟩, []⟩, ⟨⟨fancy, [0x62, 0x63], 0, 2⟩, [([0x62], 1), ([0x63], 1)]⟩] := by decide
example : ¬ ContSty badRow := by
  intro h
  obtain ⟨c0, h0, h1⟩ := h 0 ⟨0, [], 0, true, fancy⟩ (by decide) rfl
  have : c0 = ⟨0x4E16, [0xE4, 0xB8, 0x96], 2, false, boldRedOn200⟩ := by
    have h2 : badRow[0]? = some ⟨0x4E16, [0xE4, 0xB8, 0x96], 2, false, boldRedOn200⟩ := by decide
    rw [h2] at h0; exact (Option.some.inj h0).symm
  subst this
  revert h1; decide

end nonvacuity

end TM.C20GridStyled

#print axioms TM.C20GridStyled.stretch_widths
#print axioms TM.C20GridStyled.grid_styledLine_widths
#print axioms TM.C20GridStyled.contSty_needed
#print axioms TM.C20GridStyled.grid_styledLine_subCells_partial
#print axioms TM.C20GridStyled.stream_contSty
