import Props.C20GridAnsi
import Props.C11SpanMirror
import TM.Mirror
/-!
# C20GridStyled — `StyledLine(x, w, y)` of the grid buffer (`GRow.styledLine`)

Proved here (full strength, no hypothesis on the content of the row):
* `stretch_widths` — one stretch of equal attributes: the widths of its runs sum to the number of
  its cells and every run has a positive width;
* `grid_styledLine_widths` — statement 2 of the brief: the widths of the returned runs sum to the
  reported width, every run has a positive width, the reported width is the requested one clamped
  to the row (`some w` and `none`).
* `contSty_needed` — a finding about the HYPOTHESES of statement 1: `C20Grid.RowOK` and `okCh` do
  not imply "continuation cells have the style of the cell to their left" (`ContSty`, =
  `C11.RowOK.contSty` of the abstraction), and without it statement 1 is false (`badRow`, window
  `[0, 2)`). Such a row is not produced by the writers (`rawWriteRune` styles the whole character).

* `grid_styledLine_subCells_partial` — statement 1 for rows WITHOUT wide characters (any styles,
  repeat and text runs, `some w` and `none` forms); kept, it is now a special case.
* `stream_contSty` — after every byte stream every row of the active screen of the array-level
  terminal satisfies `ContSty` (from `C11M.InnerOK'` through `stream_rows`).
* `grid_styledLine_subCells` — statement 1 IN GENERAL: `RowOK r`, `r.all okCh`, `ContSty r`,
  `x ≤ r.length`: for every `w` with `x + w ≤ r.length` the runs of `r.styledLine x (some w)` expanded
  to cells are `subCells (r.map GCell.abs) x (x + w)` and the reported width is `w`; and the `none`
  (to the end) form. Wide characters of any width, cut on either side or both, any styles.
  Route: index-level facts from `rowWF` (`wf_at`, `nocut`, `cut`), the three pointwise reads of
  `cutCell` (`cut_inside`, `cut_lead`, `cut_tail`), (b) `whole_chars` (a body between two character
  boundaries: the characters of its head cells expand to its cells), `main_cells`, `core_cells`
  (body + trailing blanks), `stretch_cells` (leading blanks + core), (c) in `aux_cells` (with
  `ContSty` a stretch that ends before the right edge ends at a character boundary).
* `stream_grid_styledLine` — statement 3: for every byte stream, `StyledLine(x, n, y)` of the
  array-level terminal's active screen is `subCells` of the model terminal's row, every window.
-/
namespace TM.C20GridStyled
open TM

theorem gLeadCont_le : ∀ s : GRow, gLeadCont s ≤ s.length
  | [] => by simp [gLeadCont]
  | c :: rest => by
    have := gLeadCont_le rest
    simp only [gLeadCont]; split <;> simp <;> omega

theorem gStyleRun_le (st : Style) : ∀ s : GRow, gStyleRun st s ≤ s.length
  | [] => by simp [gStyleRun]
  | c :: rest => by
    have := gStyleRun_le st rest
    simp only [gStyleRun]; split <;> simp <;> omega

theorem gStyleRun_pos (c : GCell) (rest : GRow) : 0 < gStyleRun c.sty (c :: rest) := by
  simp [gStyleRun]

/-- sum of the widths of a list of runs -/
def wsum (l : List GSpanC) : Nat := (l.map (·.span.width)).sum

def blanks (st : Style) (n : Nat) : GSpanC := ⟨⟨st, [], 0x20, n⟩, []⟩

/-- the repeat-or-text run of `gStretch` for the cells `body` -/
def mainOf (st : Style) (body : GRow) : GSpanC :=
  let first := (body.head?.map (·.ch)).getD 0
  if (body.all fun c => c.ch == first && c.width == 1 && !c.cont) then ⟨⟨st, [], first, body.length⟩, []⟩
  else ⟨⟨st, (body.filter (!·.cont)).flatMap (·.text), 0, body.length⟩,
        (body.filter (!·.cont)).map fun c => (c.text, c.width)⟩

/-- `gStretch` after the leading blanks -/
def core (st : Style) (pre : List GSpanC) (seg1 : GRow) (cutTail : Nat) : List GSpanC :=
  if (seg1.take (seg1.length - cutTail)).isEmpty then pre ++ [blanks st cutTail]
  else pre ++ [mainOf st (seg1.take (seg1.length - cutTail))] ++ (if cutTail > 0 then [blanks st cutTail] else [])

def cutTailOf (c : Bool) (seg1 : GRow) : Nat := if c then min (gTrailCont seg1 + 1) seg1.length else 0

theorem gStretch_lead (st : Style) (seg : GRow) (a c : Bool)
    (h : a = true ∧ seg.head?.map (·.cont) = some true) :
    gStretch st seg a c =
      if (seg.drop (gLeadCont seg)).isEmpty ∧ gLeadCont seg > 0 then [blanks st (gLeadCont seg)]
      else core st [blanks st (gLeadCont seg)] (seg.drop (gLeadCont seg)) (cutTailOf c (seg.drop (gLeadCont seg))) := by
  unfold gStretch core mainOf cutTailOf blanks
  simp only [h, and_self, if_true]

theorem gStretch_nolead (st : Style) (seg : GRow) (a c : Bool)
    (h : ¬ (a = true ∧ seg.head?.map (·.cont) = some true)) :
    gStretch st seg a c = core st [] seg (cutTailOf c seg) := by
  unfold gStretch core mainOf cutTailOf blanks
  simp only [h, if_false, List.drop_zero, Nat.lt_irrefl, gt_iff_lt, and_false, if_false]

theorem mainOf_width (st : Style) (body : GRow) : (mainOf st body).span.width = body.length := by
  unfold mainOf; simp only []; split <;> rfl

theorem core_widths (st : Style) (pre : List GSpanC) (seg1 : GRow) (ct : Nat) (hct : ct ≤ seg1.length)
    (hne : seg1 ≠ []) (hpre : ∀ s ∈ pre, 0 < s.span.width) :
    wsum (core st pre seg1 ct) = wsum pre + seg1.length ∧ ∀ s ∈ core st pre seg1 ct, 0 < s.span.width := by
  have hlen : 0 < seg1.length := List.length_pos_iff.2 hne
  unfold core
  by_cases hb : (seg1.take (seg1.length - ct)).isEmpty = true
  · rw [if_pos hb]
    have h0 : seg1.length - ct = 0 := by
      have := List.isEmpty_iff.1 hb
      have h2 := congrArg List.length this
      simp only [List.length_take, List.length_nil] at h2
      omega
    constructor
    · simp only [wsum, blanks, List.map_append, List.sum_append, List.map_cons, List.map_nil, List.sum_cons, List.sum_nil]
      omega
    · intro s hs
      simp only [List.mem_append, List.mem_singleton] at hs
      rcases hs with hs | rfl
      · exact hpre s hs
      · show 0 < ct; omega
  · rw [if_neg hb]
    have h0 : 0 < seg1.length - ct := by
      apply Nat.pos_of_ne_zero
      intro h; apply hb; rw [h]; rfl
    have hbl : (seg1.take (seg1.length - ct)).length = seg1.length - ct := by
      simp only [List.length_take]; omega
    constructor
    · simp only [wsum, List.map_append, List.sum_append, List.map_cons, List.map_nil, List.sum_cons, List.sum_nil,
        mainOf_width, hbl]
      split
      · simp only [blanks, List.map_cons, List.map_nil, List.sum_cons, List.sum_nil]; omega
      · simp only [List.map_nil, List.sum_nil]; omega
    · intro s hs
      simp only [List.mem_append, List.mem_singleton] at hs
      rcases hs with (hs | rfl) | hs
      · exact hpre s hs
      · rw [mainOf_width, hbl]; exact h0
      · split at hs
        · simp only [List.mem_singleton] at hs; subst hs; show 0 < ct; assumption
        · simp at hs

theorem cutTailOf_le (c : Bool) (s : GRow) : cutTailOf c s ≤ s.length := by
  unfold cutTailOf; split
  · exact Nat.min_le_right _ _
  · exact Nat.zero_le _

theorem gLeadCont_pos {seg : GRow} (h : seg.head?.map (·.cont) = some true) : 0 < gLeadCont seg := by
  cases seg with
  | nil => simp at h
  | cons c rest =>
    simp only [List.head?_cons, Option.map_some, Option.some.injEq] at h
    simp [gLeadCont, h]

/-- one stretch: the widths of its runs sum to the number of its cells, each run is not empty -/
theorem stretch_widths (st : Style) (seg : GRow) (a c : Bool) (hne : seg ≠ []) :
    wsum (gStretch st seg a c) = seg.length ∧ ∀ s ∈ gStretch st seg a c, 0 < s.span.width := by
  have hle := gLeadCont_le seg
  have hlen : 0 < seg.length := List.length_pos_iff.2 hne
  by_cases hc : a = true ∧ seg.head?.map (·.cont) = some true
  · rw [gStretch_lead st seg a c hc]
    have hp := gLeadCont_pos hc.2
    by_cases he : (seg.drop (gLeadCont seg)).isEmpty = true
    · rw [if_pos ⟨he, hp⟩]
      have h2 := congrArg List.length (List.isEmpty_iff.1 he)
      simp only [List.length_drop, List.length_nil] at h2
      constructor
      · simp only [wsum, blanks, List.map_cons, List.map_nil, List.sum_cons, List.sum_nil]; omega
      · intro s hs
        simp only [List.mem_singleton] at hs; subst hs; exact hp
    · rw [if_neg (fun h => he h.1)]
      have hne1 : seg.drop (gLeadCont seg) ≠ [] := fun h => he (by rw [h]; rfl)
      obtain ⟨h1, h2⟩ := core_widths st [blanks st (gLeadCont seg)] _ _ (cutTailOf_le c _) hne1
        (by intro s hs; simp only [List.mem_singleton] at hs; subst hs; exact hp)
      refine ⟨?_, h2⟩
      rw [h1]
      simp only [wsum, blanks, List.map_cons, List.map_nil, List.sum_cons, List.sum_nil, List.length_drop]; omega
  · rw [gStretch_nolead st seg a c hc]
    obtain ⟨h1, h2⟩ := core_widths st [] seg _ (cutTailOf_le c _) hne (by intro s hs; simp at hs)
    refine ⟨?_, h2⟩
    rw [h1]; simp [wsum]

theorem wsum_append (a b : List GSpanC) : wsum (a ++ b) = wsum a + wsum b := by
  simp [wsum]

/-- the loop over the stretches: the widths sum to the number of requested cells -/
theorem aux_widths (r : GRow) (x e : Nat) (he : e ≤ r.length) : ∀ (fuel i : Nat), i ≤ e → e - i < fuel →
    wsum (gStyledAux r x e fuel i) = e - i ∧ ∀ s ∈ gStyledAux r x e fuel i, 0 < s.span.width := by
  intro fuel
  induction fuel with
  | zero => intro i _ h; omega
  | succ fuel ih =>
    intro i hi hf
    unfold gStyledAux
    by_cases hge : i ≥ e
    · rw [if_pos hge]
      exact ⟨by simp [wsum]; omega, by intro s hs; simp at hs⟩
    · rw [if_neg hge]
      simp only []
      have hlen : ((r.drop i).take (e - i)).length = e - i := by
        simp only [List.length_take, List.length_drop]; omega
      generalize hrest : (r.drop i).take (e - i) = rest at hlen
      cases rest with
      | nil => simp only [List.length_nil] at hlen; omega
      | cons c tl =>
        simp only []
        have hn1 := gStyleRun_pos c tl
        have hn2 := gStyleRun_le c.sty (c :: tl)
        have hsl : ((c :: tl).take (gStyleRun c.sty (c :: tl))).length = gStyleRun c.sty (c :: tl) := by
          simp only [List.length_take]; omega
        have hsne : (c :: tl).take (gStyleRun c.sty (c :: tl)) ≠ [] := by
          intro h; rw [h] at hsl; simp only [List.length_nil] at hsl; omega
        obtain ⟨s1, s2⟩ := stretch_widths c.sty _ (decide (i = x))
          (decide (i + gStyleRun c.sty (c :: tl) = e) && decide (e < r.length) && r.contAt e) hsne
        obtain ⟨a1, a2⟩ := ih (i + gStyleRun c.sty (c :: tl)) (by omega) (by omega)
        constructor
        · rw [wsum_append, s1, a1, hsl]; omega
        · intro s hs
          rcases List.mem_append.1 hs with h | h
          · exact s2 s h
          · exact a2 s h

/-- **2.** the runs `StyledLine(x, w, y)` returns have widths that sum to the reported width, which
    is the requested width clamped to the row, and every run has a positive width. No hypothesis
    on the content of the row. -/
theorem grid_styledLine_widths (r : GRow) (x : Nat) (hx : x ≤ r.length) (ow : Option Nat) :
    wsum (r.styledLine x ow).1 = (r.styledLine x ow).2 ∧
    (∀ s ∈ (r.styledLine x ow).1, 0 < s.span.width) ∧
    (r.styledLine x ow).2 = (match ow with | some w => min w (r.length - x) | none => r.length - x) := by
  have key : ∀ w, x + w ≤ r.length →
      wsum (gStyledAux r x (x + w) (w + 1) x) = w ∧ ∀ s ∈ gStyledAux r x (x + w) (w + 1) x, 0 < s.span.width := by
    intro w hw
    obtain ⟨a1, a2⟩ := aux_widths r x (x + w) hw (w + 1) x (by omega) (by omega)
    exact ⟨by rw [a1]; omega, a2⟩
  cases ow with
  | none =>
    obtain ⟨a1, a2⟩ := key (r.length - x) (by omega)
    exact ⟨a1, a2, rfl⟩
  | some w =>
    unfold GRow.styledLine
    simp only []
    by_cases h : x + w > r.length
    · rw [if_pos h]
      obtain ⟨a1, a2⟩ := key (r.length - x) (by omega)
      exact ⟨a1, a2, by omega⟩
    · rw [if_neg h]
      obtain ⟨a1, a2⟩ := key w (by omega)
      exact ⟨a1, a2, by omega⟩

/-! ## statement 1, partial: rows without wide characters -/

/-- a cell of a row without wide characters, consistent (`ok`, `okCh`) -/
def Narrow (c : GCell) : Prop :=
  c.cont = false ∧ c.width = 1 ∧ encodeRune c.ch = c.text ∧ c.text ≠ []

theorem narrow_abs {c : GCell} (h : Narrow c) : c.abs = ⟨.ch c.text 1, c.sty⟩ := by
  unfold GCell.abs; rw [h.1, h.2.1]; rfl

theorem gStyleRun_sty (st : Style) : ∀ s : GRow, ∀ c ∈ s.take (gStyleRun st s), c.sty = st
  | [] => by intro c hc; simp [gStyleRun] at hc
  | d :: rest => by
    intro c hc
    simp only [gStyleRun] at hc
    split at hc
    · rename_i hd
      simp only [List.take_succ_cons, List.mem_cons] at hc
      rcases hc with rfl | hc
      · exact hd
      · exact gStyleRun_sty st rest c hc
    · simp at hc

theorem textCells_narrow (st : Style) : ∀ body : GRow, (∀ c ∈ body, Narrow c ∧ c.sty = st) →
    ((body.filter (!·.cont)).map fun c => (c.text, c.width)).flatMap (fun c => charCells c.1 c.2 st) =
      body.map GCell.abs
  | [] => by intro _; rfl
  | d :: rest => by
    intro h
    have hd := h d (by simp)
    have ih := textCells_narrow st rest (fun c hc => h c (by simp [hc]))
    have hf : (!d.cont) = true := by rw [hd.1.1]; rfl
    have e1 : (d :: rest).filter (fun c => !c.cont) = d :: rest.filter (fun c => !c.cont) := by
      simp [hd.1.1]
    rw [e1, List.map_cons, List.flatMap_cons, ih, List.map_cons, narrow_abs hd.1,
      hd.1.2.1, hd.2]
    rfl

/-- the run of a non-empty stretch without wide characters shows the cells of the stretch -/
theorem mainOf_cells (st : Style) (body : GRow) (hne : body ≠ []) (h : ∀ c ∈ body, Narrow c ∧ c.sty = st) :
    (mainOf st body).cells = body.map GCell.abs := by
  unfold mainOf
  simp only []
  split
  · rename_i hall
    unfold GSpanC.cells
    simp only [List.isEmpty_nil, if_true]
    symm
    rw [List.eq_replicate_iff]
    refine ⟨by simp, ?_⟩
    intro b hb
    obtain ⟨c, hc, rfl⟩ := List.mem_map.1 hb
    have h1 := List.all_eq_true.1 hall c hc
    simp only [Bool.and_eq_true, beq_iff_eq] at h1
    obtain ⟨hn, hs⟩ := h c hc
    rw [narrow_abs hn, hs, ← hn.2.2.1, h1.1.1]
  · unfold GSpanC.cells
    simp only []
    have hte : ((body.filter (!·.cont)).flatMap (·.text)).isEmpty = false := by
      cases body with
      | nil => exact absurd rfl hne
      | cons d rest =>
        have hd := h d (by simp)
        have hf : (!d.cont) = true := by rw [hd.1.1]; rfl
        have e1 : (d :: rest).filter (fun c => !c.cont) = d :: rest.filter (fun c => !c.cont) := by
          simp [hd.1.1]
        rw [e1, List.flatMap_cons]
        cases ht : d.text with
        | nil => exact absurd ht hd.1.2.2.2
        | cons a b => rfl
    rw [hte]
    simp only [Bool.false_eq_true, if_false]
    exact textCells_narrow st body h

theorem stretch_narrow (st : Style) (seg : GRow) (a : Bool) (hne : seg ≠ []) (h : ∀ c ∈ seg, Narrow c ∧ c.sty = st) :
    gStretch st seg a false = [mainOf st seg] := by
  have hc : ¬ (a = true ∧ seg.head?.map (·.cont) = some true) := by
    cases seg with
    | nil => exact absurd rfl hne
    | cons d rest =>
      have hd := h d (by simp)
      simp only [List.head?_cons, Option.map_some, hd.1.1]
      intro hh; cases hh.2
  rw [gStretch_nolead st seg a false hc]
  unfold core cutTailOf
  simp only [Bool.false_eq_true, if_false, Nat.sub_zero, List.take_length, Nat.lt_irrefl, gt_iff_lt]
  have : seg.isEmpty = false := by
    cases seg with
    | nil => exact absurd rfl hne
    | cons d rest => rfl
  rw [this]; rfl

theorem aux_narrow (r : GRow) (x e : Nat) (he : e ≤ r.length) (hN : ∀ c ∈ r, Narrow c) :
    ∀ (fuel i : Nat), i ≤ e → e - i < fuel →
    (gStyledAux r x e fuel i).flatMap GSpanC.cells = ((r.drop i).take (e - i)).map GCell.abs := by
  have hce : r.contAt e = false := by
    unfold GRow.contAt
    cases hg : r[e]? with
    | none => rfl
    | some c => exact (hN c (List.mem_of_getElem? hg)).1
  intro fuel
  induction fuel with
  | zero => intro i _ h; omega
  | succ fuel ih =>
    intro i hi hf
    unfold gStyledAux
    by_cases hge : i ≥ e
    · rw [if_pos hge, show e - i = 0 by omega]; rfl
    · rw [if_neg hge]
      simp only []
      have hlen : ((r.drop i).take (e - i)).length = e - i := by
        simp only [List.length_take, List.length_drop]; omega
      have hmem : ∀ c ∈ (r.drop i).take (e - i), c ∈ r :=
        fun c hc => List.mem_of_mem_drop (List.mem_of_mem_take hc)
      have hnext : ∀ n, (r.drop (i + n)).take (e - (i + n)) = ((r.drop i).take (e - i)).drop n := by
        intro n
        rw [List.drop_take, List.drop_drop, show e - i - n = e - (i + n) by omega]
      generalize hrest : (r.drop i).take (e - i) = rest at hlen hmem hnext
      cases rest with
      | nil => simp only [List.length_nil] at hlen; omega
      | cons c tl =>
        simp only [hce, Bool.and_false]
        have hn1 := gStyleRun_pos c tl
        have hn2 := gStyleRun_le c.sty (c :: tl)
        generalize hn : gStyleRun c.sty (c :: tl) = n at hn1 hn2
        have hsne : (c :: tl).take n ≠ [] := by
          intro h
          have := congrArg List.length h
          simp only [List.length_take, List.length_nil] at this; omega
        have hseg : ∀ d ∈ (c :: tl).take n, Narrow d ∧ d.sty = c.sty := by
          intro d hd
          exact ⟨hN d (hmem d (List.mem_of_mem_take hd)), by rw [← hn] at hd; exact gStyleRun_sty c.sty _ d hd⟩
        rw [stretch_narrow c.sty _ _ hsne hseg, List.flatMap_append, ih (i + n) (by omega) (by omega), hnext n]
        simp only [List.flatMap_cons, List.flatMap_nil, List.append_nil]
        rw [mainOf_cells c.sty _ hsne hseg, ← List.map_append, List.take_append_drop]

theorem headOf_clean {R : Row} {j : Nat} (h : contAt R j = false) : headOf R j = j := by
  cases j with
  | zero => rfl
  | succ j => unfold headOf; rw [h]; rfl

theorem subCells_narrow (r : GRow) (x e : Nat) (he : e ≤ r.length) (hN : ∀ c ∈ r, Narrow c) :
    subCells (r.map GCell.abs) x e = ((r.drop x).take (e - x)).map GCell.abs := by
  apply List.ext_getElem?
  intro k
  by_cases hk : k < e - x
  · rw [C11M.subCells_getElem? _ _ _ _ hk]
    have hlt : x + k < r.length := by omega
    have hg : (r.map GCell.abs)[x + k]? = some ⟨.ch (r[x + k]).text 1, (r[x + k]).sty⟩ := by
      rw [List.getElem?_map, List.getElem?_eq_getElem hlt, Option.map_some,
        narrow_abs (hN _ (List.getElem_mem hlt))]
    have hc : contAt (r.map GCell.abs) (x + k) = false := by unfold contAt; rw [hg]
    have hw : widthAt (r.map GCell.abs) (x + k) = 1 := by unfold widthAt; rw [hg]; rfl
    rw [C11M.cutCell_inside _ x e (x + k) (by rw [List.length_map]; exact hlt)
      (by rw [headOf_clean hc]; omega) (by rw [headOf_clean hc, hw]; omega)]
    rw [List.getElem?_map, List.getElem?_take, if_pos hk, List.getElem?_drop, List.getElem?_eq_getElem hlt,
      Option.map_some, List.getElem_map]
  · rw [List.getElem?_eq_none (by rw [C11M.subCells_length]; omega),
      List.getElem?_eq_none (by simp only [List.length_map, List.length_take, List.length_drop]; omega)]

/- the full statement 1 is `grid_styledLine_subCells` below (it needs `ContSty`, see `contSty_needed`). -/

/-- **1, partial**: for a row WITHOUT wide characters (no continuation cell, every width 1) of
    consistent cells (`ok`, `okCh`), any number of styles: the runs `StyledLine(x, w, y)` returns
    (repeat runs and text runs), expanded to cells, are the mirror model's read `subCells` of
    `[x, x + w)`, and the reported width is `w`; also the to-the-end form. Rows with wide
    characters: `grid_styledLine_subCells` (which needs `ContSty`; this one does not, there are no
    continuation cells). -/
theorem grid_styledLine_subCells_partial (r : GRow) (hok : r.all GCell.ok = true) (hch : r.all GCell.okCh = true)
    (hnw : ∀ c ∈ r, c.cont = false ∧ c.width = 1) {x : Nat} (hx : x ≤ r.length) :
    (∀ w, x + w ≤ r.length →
      ((r.styledLine x (some w)).1).flatMap GSpanC.cells = subCells (r.map GCell.abs) x (x + w) ∧
      (r.styledLine x (some w)).2 = w) ∧
    ((r.styledLine x none).1).flatMap GSpanC.cells = subCells (r.map GCell.abs) x r.length ∧
    (r.styledLine x none).2 = r.length - x := by
  have hN : ∀ c ∈ r, Narrow c := by
    intro c hc
    have h1 := List.all_eq_true.1 hok c hc
    have h2 := List.all_eq_true.1 hch c hc
    obtain ⟨h3, h4⟩ := hnw c hc
    unfold GCell.ok at h1
    unfold GCell.okCh at h2
    rw [h3] at h1 h2
    simp only [Bool.false_eq_true, if_false, Bool.and_eq_true, beq_iff_eq, Bool.not_eq_true',
      List.isEmpty_eq_false_iff] at h1 h2
    exact ⟨h3, h4, h2.1, h1.2⟩
  have key : ∀ w, x + w ≤ r.length →
      (gStyledAux r x (x + w) (w + 1) x).flatMap GSpanC.cells = subCells (r.map GCell.abs) x (x + w) := by
    intro w hw
    rw [aux_narrow r x (x + w) hw hN (w + 1) x (by omega) (by omega), subCells_narrow r x (x + w) hw hN]
  refine ⟨?_, ?_, rfl⟩
  · intro w hw
    unfold GRow.styledLine
    simp only []
    rw [if_neg (by omega)]
    exact ⟨key w hw, rfl⟩
  · have h := key (r.length - x) (by omega)
    have e : x + (r.length - x) = r.length := by omega
    show (gStyledAux r x (x + (r.length - x)) (r.length - x + 1) x).flatMap GSpanC.cells = _
    rw [h, e]

/-- continuation cells carry the style of the cell to their left (`C11.RowOK.contSty` of the
    abstraction; `rawWriteRune` styles the whole character). NOT implied by `C20Grid.RowOK`. -/
def ContSty (r : GRow) : Prop :=
  ∀ i c, r[i + 1]? = some c → c.cont = true → ∃ c0, r[i]? = some c0 ∧ c0.sty = c.sty

/-! ## `ContSty` holds on the rows of the active screen after every byte stream -/

theorem innerOK'_stateAfter (cw : Nat → Nat) (hsp : cw 32 ≤ 1) (hrep : cw 0xFFFD ≤ 1) :
    ∀ (toks : List Tok) (t : Term), C11M.InnerOK' cw t → (∀ tok ∈ toks, C11M.TokOK tok) →
      C11M.InnerOK' cw (C10.stateAfter cw t toks) := by
  intro toks
  induction toks with
  | nil => intro t h _; exact h
  | cons tok toks ih =>
    intro t h htoks
    unfold C10.stateAfter
    rw [List.foldl_cons]
    exact ih _ (C11M.innerOK_apply cw t tok h (htoks tok (by simp)) hsp hrep).1
      (fun tk htk => htoks tk (by simp [htk]))

/-- `ContSty` of a grid row from `C11.RowOK.contSty` of its abstraction -/
theorem contSty_of_abs {cw : Nat → Nat} {r : GRow} (h : C11.RowOK cw (r.map GCell.abs)) : ContSty r := by
  intro i c hc hcont
  have h1 : (r.map GCell.abs)[i + 1]? = some ⟨.cont, c.sty⟩ := by
    rw [List.getElem?_map, hc, Option.map_some]; unfold GCell.abs; rw [hcont]; rfl
  obtain ⟨g, hg⟩ := h.contSty i c.sty h1
  rw [List.getElem?_map] at hg
  cases h0 : r[i]? with
  | none => rw [h0] at hg; cases hg
  | some c0 =>
    rw [h0, Option.map_some, Option.some.injEq] at hg
    refine ⟨c0, rfl, ?_⟩
    have := congrArg Cell.sty hg
    unfold GCell.abs at this
    split at this <;> exact this

/-- **towards 3**: for every byte stream (sizes within the CSI parameter range, `cw 32 ≤ 1`,
    `cw 0xFFFD ≤ 1`), every row of the ACTIVE screen of the array-level terminal satisfies `ContSty`
    (from `C11M.InnerOK'` on the model terminal through `C20Grid.stream_rows`): the extra
    hypothesis of statement 1 holds on reachable rows. -/
theorem stream_contSty (cw : Nat → Nat) (hsp : cw 32 ≤ 1) (hrep : cw 0xFFFD ≤ 1) {w h : Nat}
    (hw : 1 ≤ w) (hh : 1 ≤ h) (hW : w ≤ paramMax) (hH : h ≤ paramMax) (bs : Bytes) {y : Nat} (hy : y < h) :
    ContSty ((C20Grid.gStateAfter cw (GTerm.init w h) (C10.toksOf bs)).scr.row y) := by
  obtain ⟨d1, d2, d3, d4, _, _, hon, hrows⟩ := C20Grid.stream_rows cw hw hh bs
  obtain ⟨_, m2, _, a2⟩ := hrows y hy
  have hT := (C20Grid.stream_refines cw hw hh bs).1
  have h1 : (run cw (Term.init .blank w h) bs).1 = C10.stateAfter cw (Term.init .blank w h) (C10.toksOf bs) :=
    C10.runFuel_state ..
  have hI : C11M.InnerOK' cw (run cw (Term.init .blank w h) bs).1 := by
    rw [h1]
    exact innerOK'_stateAfter cw hsp hrep _ _ (C11M.innerOK_init cw .blank w h hw hh hW hH hsp)
      (fun tok hk => C11M.Lemmas.toksFuel_tokOK _ bs tok hk)
  have hrowsT := hI.toInnerOK.rows
  generalize (run cw (Term.init .blank w h) bs).1 = T at hT hon m2 a2 hrowsT
  generalize C20Grid.gStateAfter cw (GTerm.init w h) (C10.toksOf bs) = S at hT hon m2 a2 d1 d2 d3 d4
  have hmh : T.main.h = h := by rw [← hT]; exact d2
  have hah : T.alt.h = h := by rw [← hT]; exact d4
  have hon' : S.onAlt = T.onAlt := hon
  unfold GTerm.scr
  unfold Term.scr at hrowsT
  rw [← hon'] at hrowsT
  cases hS : S.onAlt with
  | false =>
    rw [hS] at hrowsT
    simp only [Bool.false_eq_true, if_false] at hrowsT ⊢
    have := hrowsT y (by rw [hmh]; exact hy)
    rw [show T.main.row y = _ from m2] at this
    exact contSty_of_abs this
  | true =>
    rw [hS] at hrowsT
    simp only [if_true] at hrowsT ⊢
    have := hrowsT y (by rw [hah]; exact hy)
    rw [show T.alt.row y = _ from a2] at this
    exact contSty_of_abs this

/-! ## statement 1 in general: rows with wide characters -/

theorem contAt_abs (r : GRow) (j : Nat) : contAt (r.map GCell.abs) j = r.contAt j := by
  unfold contAt GRow.contAt
  rw [List.getElem?_map]
  cases h : r[j]? with
  | none => rfl
  | some c =>
    simp only [Option.map_some]
    unfold GCell.abs
    cases hc : c.cont <;> simp

theorem contAt_of_len {r : GRow} {j : Nat} (h : r.length ≤ j) : r.contAt j = false := by
  unfold GRow.contAt; rw [List.getElem?_eq_none h]

theorem contAt_get {r : GRow} {j : Nat} (h : j < r.length) : r.contAt j = (r[j]).cont := by
  unfold GRow.contAt; rw [List.getElem?_eq_getElem h]

theorem abs_get {r : GRow} {j : Nat} (h : j < r.length) :
    (r.map GCell.abs)[j]'(by rw [List.length_map]; exact h) = (r[j]).abs := by
  rw [List.getElem_map]

/-- what `rowWF` says at the head of a character -/
theorem wf_at {r : GRow} (hr : C20Grid.RowOK r) {p : Nat} (hp : p < r.length) (hc : r.contAt p = false) :
    1 ≤ (r[p]).width ∧ widthAt (r.map GCell.abs) p = (r[p]).width ∧ p + (r[p]).width ≤ r.length ∧
    (∀ k, p < k → k < p + (r[p]).width → r.contAt k = true) ∧ r.contAt (p + (r[p]).width) = false := by
  have hwf := hr.2
  unfold rowWF at hwf
  have h1 := List.all_eq_true.1 hwf p (List.mem_range.2 (by rw [List.length_map]; exact hp))
  have hcf : (r[p]).cont = false := by rw [← contAt_get hp]; exact hc
  have hg : (r.map GCell.abs)[p]? = some ⟨.ch (r[p]).text (r[p]).width, (r[p]).sty⟩ := by
    rw [List.getElem?_map, List.getElem?_eq_getElem hp, Option.map_some]; unfold GCell.abs; rw [hcf]; rfl
  rw [hg] at h1
  simp only [Bool.and_eq_true, decide_eq_true_eq, List.all_eq_true, List.mem_range, Bool.not_eq_true',
    List.length_map] at h1
  obtain ⟨⟨⟨h2, h3⟩, h4⟩, h5⟩ := h1
  refine ⟨h2, ?_, h3, ?_, ?_⟩
  · unfold widthAt; rw [hg]; simp only []; omega
  · intro k hk1 hk2
    have := h4 (k - p - 1) (by omega)
    rw [contAt_abs] at this
    rwa [show p + 1 + (k - p - 1) = k by omega] at this
  · rw [← contAt_abs]; exact h5

theorem not_cont_zero {r : GRow} (hr : C20Grid.RowOK r) : r.contAt 0 = false := by
  by_cases h0 : 0 < r.length
  · cases hc : r.contAt 0 with
    | false => rfl
    | true =>
      have hwf := hr.2
      unfold rowWF at hwf
      have h1 := List.all_eq_true.1 hwf 0 (List.mem_range.2 (by rw [List.length_map]; exact h0))
      have hcf : (r[0]).cont = true := by rw [← contAt_get h0]; exact hc
      have hg : (r.map GCell.abs)[0]? = some ⟨.cont, (r[0]).sty⟩ := by
        rw [List.getElem?_map, List.getElem?_eq_getElem h0, Option.map_some]; unfold GCell.abs; rw [hcf]; rfl
      rw [hg] at h1
      simp at h1
  · exact contAt_of_len (by omega)

/-- a character whose head is `p` ends before the next boundary -/
theorem nocut {r : GRow} (hr : C20Grid.RowOK r) {p q : Nat} (hp : r.contAt p = false) (hpq : p < q)
    (hq : q ≤ r.length) (hcq : r.contAt q = false) : p + widthAt (r.map GCell.abs) p ≤ q := by
  obtain ⟨_, h2, _, h4, _⟩ := wf_at hr (show p < r.length by omega) hp
  rw [h2]
  apply Nat.le_of_not_lt
  intro hlt
  have := h4 q hpq hlt
  rw [hcq] at this; cases this

/-- a character whose head is `p`, followed by continuation cells up to and including `q`, ends after `q` -/
theorem cut {r : GRow} (hr : C20Grid.RowOK r) {p q : Nat} (hpl : p < r.length) (hp : r.contAt p = false)
    (hc : ∀ k, p < k → k ≤ q → r.contAt k = true) : q < p + widthAt (r.map GCell.abs) p := by
  obtain ⟨h1, h2, _, _, h5⟩ := wf_at hr hpl hp
  rw [h2]
  apply Nat.lt_of_not_le
  intro hle
  have := hc _ (by omega) hle
  rw [h5] at this; cases this

theorem headOf_ge {R : Row} {a : Nat} (ha : contAt R a = false) : ∀ j, a ≤ j → a ≤ headOf R j := by
  intro j
  induction j with
  | zero => intro h; exact h
  | succ j ih =>
    intro h
    by_cases hj : a = j + 1
    · subst hj; rw [C02Span.headOf_of_not_cont ha]; exact Nat.le_refl _
    · unfold headOf; split
      · exact ih (by omega)
      · exact h

theorem headOf_lt {R : Row} {x : Nat} (hx : 0 < x) : ∀ j, x ≤ j → (∀ m, x ≤ m → m ≤ j → contAt R m = true) →
    headOf R j < x := by
  intro j
  induction j with
  | zero => intro h; omega
  | succ j ih =>
    intro h hc
    unfold headOf
    rw [hc (j + 1) h (Nat.le_refl _), if_pos rfl]
    by_cases hj : x = j + 1
    · have := C03.Lemmas.headOf_le R j; omega
    · exact ih (by omega) (fun m h1 h2 => hc m h1 (by omega))

theorem headOf_notcont {R : Row} (h0 : contAt R 0 = false) : ∀ j, contAt R (headOf R j) = false := by
  intro j
  induction j with
  | zero => exact h0
  | succ j ih =>
    unfold headOf; split
    · exact ih
    · rename_i h; simpa using h

/-- a cell between two character boundaries `a`, `b` inside the window is shown as it is -/
theorem cut_inside {r : GRow} (hr : C20Grid.RowOK r) {x e a b j : Nat} (hxa : x ≤ a) (hbe : b ≤ e)
    (hb : b ≤ r.length) (ha : r.contAt a = false) (hcb : r.contAt b = false) (haj : a ≤ j) (hjb : j < b) :
    cutCell (r.map GCell.abs) x e j = (r[j]'(by omega)).abs := by
  have hjl : j < r.length := by omega
  have h1 := headOf_ge (R := r.map GCell.abs) (by rw [contAt_abs]; exact ha) j haj
  have h2 := C03.Lemmas.headOf_le (r.map GCell.abs) j
  have h3 := headOf_notcont (R := r.map GCell.abs) (by rw [contAt_abs]; exact not_cont_zero hr) j
  rw [contAt_abs] at h3
  have h4 := nocut hr h3 (show headOf (r.map GCell.abs) j < b by omega) hb hcb
  rw [C11M.cutCell_inside _ x e j (by rw [List.length_map]; exact hjl) (by omega) (by omega), abs_get hjl]

theorem abs_sty (c : GCell) : c.abs.sty = c.sty := by
  unfold GCell.abs; split <;> rfl

/-- the cells of a character that starts left of the window are blanks -/
theorem cut_lead {r : GRow} (hr : C20Grid.RowOK r) {x e j : Nat} (hxj : x ≤ j) (hjl : j < r.length)
    (hc : ∀ m, x ≤ m → m ≤ j → r.contAt m = true) :
    cutCell (r.map GCell.abs) x e j = blank (r[j]).sty := by
  have hx : 0 < x := by
    apply Nat.pos_of_ne_zero
    intro h0
    have := hc x (Nat.le_refl _) hxj
    rw [h0, not_cont_zero hr] at this; cases this
  have h1 := headOf_lt (R := r.map GCell.abs) hx j hxj (fun m h1 h2 => by rw [contAt_abs]; exact hc m h1 h2)
  rw [C11M.cutCell_cut _ x e j (by rw [List.length_map]; exact hjl) (Or.inl h1), abs_get hjl, abs_sty]

/-- the cells of a character that continues beyond the right edge are blanks -/
theorem cut_tail {r : GRow} (hr : C20Grid.RowOK r) {x e p j : Nat} (hpj : p ≤ j) (hje : j < e) (hel : e < r.length)
    (hp : r.contAt p = false) (hc : ∀ m, p < m → m ≤ e → r.contAt m = true) :
    cutCell (r.map GCell.abs) x e j = blank (r[j]'(by omega)).sty := by
  have hjl : j < r.length := by omega
  have h1 : headOf (r.map GCell.abs) j = p :=
    C02Span.headOf_run (by rw [contAt_abs]; exact hp) j hpj (fun i h1 h2 => by rw [contAt_abs]; exact hc i h1 (by omega))
  have h2 := cut hr (show p < r.length by omega) hp hc
  rw [C11M.cutCell_cut _ x e j (by rw [List.length_map]; exact hjl) (Or.inr (by rw [h1]; exact h2)), abs_get hjl, abs_sty]

/-- the mirror's cells `[a, a + n)` seen through the window `[x, e)` -/
def cc (r : GRow) (x e a n : Nat) : List Cell :=
  (List.range n).map fun k => cutCell (r.map GCell.abs) x e (a + k)

theorem cc_add (r : GRow) (x e a m n : Nat) : cc r x e a (m + n) = cc r x e a m ++ cc r x e (a + m) n := by
  unfold cc
  rw [List.range_add, List.map_append, List.map_map]
  congr 1
  apply List.map_congr_left
  intro k _
  simp only [Function.comp]; rw [Nat.add_assoc]

theorem cc_blank {r : GRow} {x e a n : Nat} {st : Style}
    (h : ∀ k, k < n → cutCell (r.map GCell.abs) x e (a + k) = blank st) :
    cc r x e a n = List.replicate n (blank st) := by
  rw [List.eq_replicate_iff]
  refine ⟨by simp [cc], ?_⟩
  intro b hb
  unfold cc at hb
  obtain ⟨k, hk, rfl⟩ := List.mem_map.1 hb
  exact h k (List.mem_range.1 hk)

theorem cc_abs {r : GRow} {x e a n : Nat} (hl : a + n ≤ r.length)
    (h : ∀ k (hk : k < n), cutCell (r.map GCell.abs) x e (a + k) = (r[a + k]'(by omega)).abs) :
    cc r x e a n = ((r.drop a).take n).map GCell.abs := by
  apply List.ext_getElem?
  intro k
  by_cases hk : k < n
  · unfold cc
    rw [List.getElem?_map, List.getElem?_range hk, Option.map_some, h k hk, List.getElem?_map,
      List.getElem?_take, if_pos hk, List.getElem?_drop, List.getElem?_eq_getElem (by omega), Option.map_some]
  · rw [List.getElem?_eq_none (by simp [cc]; omega), List.getElem?_eq_none (by simp; omega)]

/-- (b): a stretch that consists of whole characters, in one style: the characters of its head
    cells expand to its cells -/
theorem whole_chars {r : GRow} (hr : C20Grid.RowOK r) (st : Style) : ∀ n a b, b - a ≤ n → a ≤ b → b ≤ r.length →
    r.contAt a = false → r.contAt b = false → (∀ j (hj : j < r.length), a ≤ j → j < b → (r[j]).sty = st) →
    ((((r.drop a).take (b - a)).filter (!·.cont)).map fun c => (c.text, c.width)).flatMap
        (fun c => charCells c.1 c.2 st) = ((r.drop a).take (b - a)).map GCell.abs := by
  intro n
  induction n with
  | zero => intro a b h _ _ _ _ _; rw [show b - a = 0 by omega]; rfl
  | succ n ih =>
    intro a b hn hab hb ha hcb hsty
    by_cases hE : a = b
    · rw [show b - a = 0 by omega]; rfl
    have hal : a < r.length := by omega
    obtain ⟨w1, _, w3, w4, w5⟩ := wf_at hr hal ha
    generalize hw : (r[a]).width = w at w1 w3 w4 w5
    obtain ⟨w', rfl⟩ : ∃ w', w = w' + 1 := ⟨w - 1, by omega⟩
    have hbw : a + (w' + 1) ≤ b := by
      apply Nat.le_of_not_lt; intro hlt
      have := w4 b (by omega) hlt
      rw [hcb] at this; cases this
    have hcf : (r[a]).cont = false := by rw [← contAt_get hal]; exact ha
    have e1 : (r.drop a).take (b - a) =
        r[a] :: ((r.drop (a + 1)).take w' ++ (r.drop (a + (w' + 1))).take (b - (a + (w' + 1)))) := by
      rw [show b - a = (w' + 1) + (b - (a + (w' + 1))) by omega, List.take_add, List.drop_drop,
        List.drop_eq_getElem_cons hal, List.take_succ_cons, List.cons_append]
    have hconts : ∀ d ∈ (r.drop (a + 1)).take w', d.cont = true ∧ d.sty = st := by
      intro d hd
      obtain ⟨k, hk⟩ := List.mem_iff_getElem?.1 hd
      rw [List.getElem?_take] at hk
      split at hk
      · rename_i hkw
        rw [List.getElem?_drop] at hk
        have hlt : a + 1 + k < r.length := by omega
        rw [List.getElem?_eq_getElem hlt, Option.some.injEq] at hk
        subst hk
        exact ⟨by rw [← contAt_get hlt]; exact w4 _ (by omega) (by omega), hsty _ hlt (by omega) (by omega)⟩
      · cases hk
    have hfil : ((r.drop (a + 1)).take w').filter (fun c => !c.cont) = [] := by
      rw [List.filter_eq_nil_iff]
      intro d hd; rw [(hconts d hd).1]; simp
    have hrep : ((r.drop (a + 1)).take w').map GCell.abs = List.replicate w' ⟨.cont, st⟩ := by
      rw [List.eq_replicate_iff]
      refine ⟨by simp only [List.length_map, List.length_take, List.length_drop]; omega, ?_⟩
      intro c hc
      obtain ⟨d, hd, rfl⟩ := List.mem_map.1 hc
      unfold GCell.abs; rw [(hconts d hd).1, (hconts d hd).2]; rfl
    have ih' := ih (a + (w' + 1)) b (by omega) hbw hb w5 hcb (fun j hj h1 h2 => hsty j hj (by omega) h2)
    rw [e1, List.filter_cons, hcf]
    simp only [Bool.not_false, if_true, List.filter_append, hfil, List.nil_append, List.map_cons, List.flatMap_cons,
      List.map_append, hrep]
    rw [ih']
    unfold charCells GCell.abs
    rw [hcf, hw, hsty a hal (Nat.le_refl _) (by omega)]
    simp only [Bool.false_eq_true, if_false, Nat.add_sub_cancel, List.cons_append]

theorem mem_slice {r : GRow} {a n : Nat} {c : GCell} (h : c ∈ (r.drop a).take n) :
    ∃ k, k < n ∧ ∃ (hj : a + k < r.length), r[a + k] = c := by
  obtain ⟨k, hk⟩ := List.mem_iff_getElem?.1 h
  rw [List.getElem?_take] at hk
  split at hk
  · rename_i hkn
    rw [List.getElem?_drop] at hk
    have hlt : a + k < r.length := by
      apply Nat.lt_of_not_le; intro hle; rw [List.getElem?_eq_none hle] at hk; cases hk
    rw [List.getElem?_eq_getElem hlt, Option.some.injEq] at hk
    exact ⟨k, hkn, hlt, hk⟩
  · cases hk

theorem slice_get {r : GRow} {a n k : Nat} (hk : k < n) : ((r.drop a).take n)[k]? = r[a + k]? := by
  rw [List.getElem?_take, if_pos hk, List.getElem?_drop]

theorem cell_facts {r : GRow} (hok : r.all GCell.ok = true) (hch : r.all GCell.okCh = true) {c : GCell}
    (hc : c ∈ r) (hcf : c.cont = false) : encodeRune c.ch = c.text ∧ c.text ≠ [] := by
  have h1 := List.all_eq_true.1 hok c hc
  have h2 := List.all_eq_true.1 hch c hc
  unfold GCell.ok at h1
  unfold GCell.okCh at h2
  rw [hcf] at h1 h2
  simp only [Bool.false_eq_true, if_false, Bool.and_eq_true, beq_iff_eq, Bool.not_eq_true',
    List.isEmpty_eq_false_iff] at h1 h2
  exact ⟨h2.1, h1.2⟩

/-- the repeat-or-text run of a stretch body made of whole characters inside the window shows the
    mirror's cells -/
theorem main_cells {r : GRow} (hr : C20Grid.RowOK r) (hch : r.all GCell.okCh = true) {x e a m : Nat} {st : Style}
    (hxa : x ≤ a) (hbe : a + m ≤ e) (hm : 0 < m) (hb : a + m ≤ r.length) (ha : r.contAt a = false)
    (hcb : r.contAt (a + m) = false) (hsty : ∀ j (hj : j < r.length), a ≤ j → j < a + m → (r[j]).sty = st) :
    (mainOf st ((r.drop a).take m)).cells = cc r x e a m := by
  rw [cc_abs hb (fun k hk => cut_inside hr hxa hbe hb ha hcb (by omega) (by omega))]
  have hbody : ∀ c ∈ (r.drop a).take m, c ∈ r ∧ c.sty = st := by
    intro c hc
    obtain ⟨k, hk, hj, rfl⟩ := mem_slice hc
    exact ⟨List.getElem_mem hj, hsty _ hj (by omega) (by omega)⟩
  unfold mainOf
  simp only []
  split
  · rename_i hall
    unfold GSpanC.cells
    simp only [List.isEmpty_nil, if_true]
    symm
    rw [List.eq_replicate_iff]
    refine ⟨by simp, ?_⟩
    intro c' hb'
    obtain ⟨c, hc, rfl⟩ := List.mem_map.1 hb'
    have h1 := List.all_eq_true.1 hall c hc
    simp only [Bool.and_eq_true, beq_iff_eq, Bool.not_eq_true'] at h1
    obtain ⟨hmem, hs⟩ := hbody c hc
    obtain ⟨f1, _⟩ := cell_facts hr.1 hch hmem h1.2
    unfold GCell.abs
    rw [h1.2, hs, ← f1, h1.1.1, h1.1.2]; rfl
  · unfold GSpanC.cells
    simp only []
    have hte : ((((r.drop a).take m).filter (!·.cont)).flatMap (·.text)).isEmpty = false := by
      have hal : a < r.length := by omega
      have hcf : (r[a]).cont = false := by rw [← contAt_get hal]; exact ha
      obtain ⟨m', rfl⟩ : ∃ m', m = m' + 1 := ⟨m - 1, by omega⟩
      rw [List.drop_eq_getElem_cons hal, List.take_succ_cons, List.filter_cons, hcf]
      simp only [Bool.not_false, if_true, List.flatMap_cons]
      obtain ⟨_, f2⟩ := cell_facts hr.1 hch (List.getElem_mem hal) hcf
      cases ht : (r[a]).text with
      | nil => exact absurd ht f2
      | cons p q => rfl
    rw [hte]
    simp only [Bool.false_eq_true, if_false]
    have := whole_chars hr st m a (a + m) (by omega) (by omega) hb ha hcb hsty
    rw [Nat.add_sub_cancel_left] at this
    exact this

theorem blanks_cells (st : Style) (n : Nat) : (blanks st n).cells = List.replicate n (blank st) := by
  unfold blanks GSpanC.cells; rfl

theorem gLeadCont_spec : ∀ s : GRow, (∀ k, k < gLeadCont s → ∃ c, s[k]? = some c ∧ c.cont = true) ∧
    (∀ c, s[gLeadCont s]? = some c → c.cont = false)
  | [] => ⟨by intro k hk; simp [gLeadCont] at hk, by intro c hc; simp at hc⟩
  | d :: rest => by
    obtain ⟨i1, i2⟩ := gLeadCont_spec rest
    simp only [gLeadCont]
    split
    · rename_i hd
      constructor
      · intro k hk
        cases k with
        | zero => exact ⟨d, rfl, hd⟩
        | succ k => simpa using i1 k (by omega)
      · intro c hc; simp only [List.getElem?_cons_succ] at hc; exact i2 c hc
    · rename_i hd
      constructor
      · intro k hk; omega
      · intro c hc; simp only [List.getElem?_cons_zero, Option.some.injEq] at hc; subst hc; simpa using hd

theorem gStyleRun_stop (st : Style) : ∀ s : GRow, ∀ c, s[gStyleRun st s]? = some c → c.sty ≠ st
  | [] => by intro c hc; simp at hc
  | d :: rest => by
    intro c hc
    simp only [gStyleRun] at hc
    split at hc
    · simp only [List.getElem?_cons_succ] at hc; exact gStyleRun_stop st rest c hc
    · rename_i hd
      simp only [List.getElem?_cons_zero, Option.some.injEq] at hc; subst hc; exact hd

/-- `gStretch` after the leading blanks, for cells `[a, a + m)` that start at a character boundary:
    the body (whole characters) as it is, the cells of a character cut by the right edge as blanks -/
theorem core_cells {r : GRow} (hr : C20Grid.RowOK r) (hch : r.all GCell.okCh = true) {x e a m : Nat} {st : Style}
    (hxa : x ≤ a) (hm : 0 < m) (hse : a + m ≤ e) (hel : e ≤ r.length)
    (hsty : ∀ j (hj : j < r.length), a ≤ j → j < a + m → (r[j]).sty = st)
    (ha : r.contAt a = false) (c : Bool)
    (hT : c = true → a + m = e ∧ e < r.length ∧ r.contAt e = true)
    (hF : c = false → r.contAt (a + m) = false) (pre : List GSpanC) :
    (core st pre ((r.drop a).take m) (cutTailOf c ((r.drop a).take m))).flatMap GSpanC.cells =
      pre.flatMap GSpanC.cells ++ cc r x e a m := by
  have hlen : ((r.drop a).take m).length = m := by simp only [List.length_take, List.length_drop]; omega
  cases c with
  | false =>
    have hcb := hF rfl
    unfold core cutTailOf
    simp only [Bool.false_eq_true, if_false, Nat.sub_zero, List.take_length, Nat.lt_irrefl, gt_iff_lt]
    have hne : ((r.drop a).take m).isEmpty = false := by
      cases hs : (r.drop a).take m with
      | nil => rw [hs] at hlen; simp at hlen; omega
      | cons _ _ => rfl
    rw [hne]
    simp only [Bool.false_eq_true, if_false, List.append_nil, List.flatMap_append, List.flatMap_cons, List.flatMap_nil]
    rw [main_cells hr hch hxa hse hm (by omega) ha hcb hsty]
  | true =>
    obtain ⟨h1, h2, h3⟩ := hT rfl
    obtain ⟨s1, s2⟩ := gLeadCont_spec ((r.drop a).take m).reverse
    have hle := gLeadCont_le ((r.drop a).take m).reverse
    rw [List.length_reverse, hlen] at hle
    have hrev : ∀ k, k < m → ((r.drop a).take m).reverse[k]? = r[a + (m - 1 - k)]? := by
      intro k hk
      rw [List.getElem?_reverse (by rw [hlen]; exact hk), hlen, slice_get (by omega)]
    have htdef : gTrailCont ((r.drop a).take m) = gLeadCont ((r.drop a).take m).reverse := rfl
    generalize ht : gLeadCont ((r.drop a).take m).reverse = t at s1 s2 hle htdef
    have hal : a < r.length := by omega
    have htlt : t < m := by
      apply Nat.lt_of_not_le; intro hge
      obtain ⟨c, hc1, hc2⟩ := s1 (m - 1) (by omega)
      rw [hrev _ (by omega), show a + (m - 1 - (m - 1)) = a by omega, List.getElem?_eq_getElem hal,
        Option.some.injEq] at hc1
      rw [contAt_get hal, hc1, hc2] at ha; cases ha
    have hp : r.contAt (a + (m - (t + 1))) = false := by
      have hpl : a + (m - (t + 1)) < r.length := by omega
      have := s2 (r[a + (m - (t + 1))]) (by
        rw [hrev _ htlt, show a + (m - 1 - t) = a + (m - (t + 1)) by omega, List.getElem?_eq_getElem hpl])
      rw [contAt_get hpl]; exact this
    have hcont : ∀ k, a + (m - (t + 1)) < k → k ≤ e → r.contAt k = true := by
      intro k hk1 hk2
      by_cases hke : k = e
      · rw [hke]; exact h3
      · obtain ⟨c, hc1, hc2⟩ := s1 (a + m - 1 - k) (by omega)
        have hkl : k < r.length := by omega
        rw [hrev _ (by omega), show a + (m - 1 - (a + m - 1 - k)) = k by omega, List.getElem?_eq_getElem hkl,
          Option.some.injEq] at hc1
        rw [contAt_get hkl, hc1, hc2]
    have hct : cutTailOf true ((r.drop a).take m) = t + 1 := by
      unfold cutTailOf
      rw [if_pos rfl, htdef, hlen]; omega
    have hblank : ∀ k, k < t + 1 → cutCell (r.map GCell.abs) x e (a + (m - (t + 1)) + k) = blank st := by
      intro k hk
      rw [cut_tail hr (p := a + (m - (t + 1))) (by omega) (by omega) h2 hp hcont,
        hsty _ (by omega) (by omega) (by omega)]
    rw [hct]
    unfold core
    rw [hlen, List.take_take, Nat.min_eq_left (by omega : m - (t + 1) ≤ m)]
    by_cases hz : m - (t + 1) = 0
    · rw [hz] at hblank ⊢
      simp only [List.take_zero, List.isEmpty_nil, if_true, List.flatMap_append, List.flatMap_cons, List.flatMap_nil,
        List.append_nil]
      rw [blanks_cells, show m = t + 1 by omega]
      rw [cc_blank (st := st) (fun k hk => by have := hblank k hk; rwa [Nat.add_zero] at this)]
    · have hne : ((r.drop a).take (m - (t + 1))).isEmpty = false := by
        cases hs : (r.drop a).take (m - (t + 1)) with
        | nil =>
          have := congrArg List.length hs
          simp only [List.length_take, List.length_drop, List.length_nil] at this; omega
        | cons _ _ => rfl
      rw [hne]
      simp only [Bool.false_eq_true, if_false, gt_iff_lt, Nat.zero_lt_succ, if_true, List.flatMap_append,
        List.flatMap_cons, List.flatMap_nil, List.append_nil]
      rw [main_cells (e := e) hr hch hxa (by omega) (by omega) (by omega) ha hp (fun j hj h1 h2 => hsty j hj h1 (by omega)),
        blanks_cells]
      have hsplit : cc r x e a m = cc r x e a (m - (t + 1)) ++ cc r x e (a + (m - (t + 1))) (t + 1) := by
        rw [← cc_add]; congr 1; omega
      rw [hsplit, cc_blank (st := st) hblank, List.append_assoc]

/-- one stretch of equal style `[i, i + n)` of the loop: its runs show the mirror's cells. The
    stretch starts at the left edge or at a character boundary, and ends at a character boundary
    unless `c` (it ends at the right edge and the next cell is a continuation cell) -/
theorem stretch_cells {r : GRow} (hr : C20Grid.RowOK r) (hch : r.all GCell.okCh = true) {x e i n : Nat} {st : Style}
    (hxi : x ≤ i) (hn : 0 < n) (hse : i + n ≤ e) (hel : e ≤ r.length)
    (hsty : ∀ j (hj : j < r.length), i ≤ j → j < i + n → (r[j]).sty = st)
    (hstart : i ≠ x → r.contAt i = false) (c : Bool)
    (hT : c = true → i + n = e ∧ e < r.length ∧ r.contAt e = true)
    (hF : c = false → r.contAt (i + n) = false) :
    (gStretch st ((r.drop i).take n) (decide (i = x)) c).flatMap GSpanC.cells = cc r x e i n := by
  have hlen : ((r.drop i).take n).length = n := by simp only [List.length_take, List.length_drop]; omega
  have hil : i < r.length := by omega
  have hhead : ((r.drop i).take n).head? = some r[i] := by
    rw [List.head?_eq_getElem?, slice_get hn, Nat.add_zero, List.getElem?_eq_getElem hil]
  by_cases hc : decide (i = x) = true ∧ ((r.drop i).take n).head?.map (·.cont) = some true
  · rw [gStretch_lead st _ _ c hc]
    have hix : i = x := of_decide_eq_true hc.1
    obtain ⟨s1, s2⟩ := gLeadCont_spec ((r.drop i).take n)
    have hle := gLeadCont_le ((r.drop i).take n)
    rw [hlen] at hle
    have hp := gLeadCont_pos hc.2
    generalize hpad : gLeadCont ((r.drop i).take n) = pad at s1 s2 hle hp
    have hconts : ∀ k, i ≤ k → k < i + pad → r.contAt k = true := by
      intro k h1 h2
      obtain ⟨d, hd1, hd2⟩ := s1 (k - i) (by omega)
      have hkl : k < r.length := by omega
      rw [slice_get (by omega), show i + (k - i) = k by omega, List.getElem?_eq_getElem hkl,
        Option.some.injEq] at hd1
      rw [contAt_get hkl, hd1, hd2]
    have hblank : ∀ k, k < pad → cutCell (r.map GCell.abs) x e (i + k) = blank st := by
      intro k hk
      rw [cut_lead hr (by omega) (by omega) (fun m h1 h2 => hconts m (by omega) (by omega)),
        hsty _ (by omega) (by omega) (by omega)]
    rw [List.drop_take, List.drop_drop]
    by_cases he : ((r.drop (i + pad)).take (n - pad)).isEmpty = true
    · rw [if_pos ⟨he, hp⟩]
      have h2 := congrArg List.length (List.isEmpty_iff.1 he)
      simp only [List.length_take, List.length_drop, List.length_nil] at h2
      have hpn : n = pad := by omega
      simp only [List.flatMap_cons, List.flatMap_nil, List.append_nil]
      rw [blanks_cells, hpn, cc_blank hblank]
    · rw [if_neg (fun h => he h.1)]
      have hlt : pad < n := by
        apply Nat.lt_of_not_le; intro hge
        apply he; rw [show n - pad = 0 by omega]; rfl
      have ha : r.contAt (i + pad) = false := by
        have hl : i + pad < r.length := by omega
        have := s2 r[i + pad] (by rw [slice_get hlt, List.getElem?_eq_getElem hl])
        rw [contAt_get hl]; exact this
      rw [core_cells (x := x) (e := e) hr hch (by omega) (by omega) (by omega) hel
        (fun j hj h1 h2 => hsty j hj (by omega) (by omega)) ha c
        (fun h => by obtain ⟨a1, a2, a3⟩ := hT h; exact ⟨by omega, a2, a3⟩)
        (fun h => by have := hF h; rwa [show i + pad + (n - pad) = i + n by omega])]
      simp only [List.flatMap_cons, List.flatMap_nil, List.append_nil]
      rw [blanks_cells, ← cc_blank hblank, ← cc_add]; congr 1; omega
  · rw [gStretch_nolead st _ _ c hc]
    have ha : r.contAt i = false := by
      by_cases hix : i = x
      · rw [contAt_get hil]
        cases hcf : (r[i]).cont with
        | false => rfl
        | true => exact absurd ⟨decide_eq_true hix, by rw [hhead, Option.map_some, hcf]⟩ hc
      · exact hstart hix
    rw [core_cells (x := x) (e := e) hr hch hxi hn hse hel hsty ha c hT hF]
    rfl

/-- (c) and the loop: with `ContSty` every stretch boundary inside the window is a character
    boundary, so the loop over the stretches shows the mirror's cells `[i, e)` -/
theorem aux_cells {r : GRow} (hr : C20Grid.RowOK r) (hch : r.all GCell.okCh = true) (hcs : ContSty r)
    (x e : Nat) (he : e ≤ r.length) :
    ∀ (fuel i : Nat), x ≤ i → i ≤ e → e - i < fuel → (i ≠ x → i < e → r.contAt i = false) →
    (gStyledAux r x e fuel i).flatMap GSpanC.cells = cc r x e i (e - i) := by
  intro fuel
  induction fuel with
  | zero => intro i _ _ h; omega
  | succ fuel ih =>
    intro i hxi hi hf hinv
    unfold gStyledAux
    by_cases hge : i ≥ e
    · rw [if_pos hge, show e - i = 0 by omega]; rfl
    · rw [if_neg hge]
      simp only []
      have hlen : ((r.drop i).take (e - i)).length = e - i := by
        simp only [List.length_take, List.length_drop]; omega
      have hget : ∀ k, k < e - i → ((r.drop i).take (e - i))[k]? = r[i + k]? := fun k hk => slice_get hk
      have htake : ∀ n, n ≤ e - i → ((r.drop i).take (e - i)).take n = (r.drop i).take n := by
        intro n hn; rw [List.take_take, Nat.min_eq_left hn]
      generalize hrest : (r.drop i).take (e - i) = rest at hlen hget htake
      cases rest with
      | nil => simp only [List.length_nil] at hlen; omega
      | cons c tl =>
        simp only []
        have hn1 := gStyleRun_pos c tl
        have hn2 := gStyleRun_le c.sty (c :: tl)
        have hsty0 := gStyleRun_sty c.sty (c :: tl)
        have hstop0 := gStyleRun_stop c.sty (c :: tl)
        generalize hn : gStyleRun c.sty (c :: tl) = n at hn1 hn2 hsty0 hstop0
        rw [hlen] at hn2
        rw [htake n hn2] at hsty0 ⊢
        have hsty : ∀ j (hj : j < r.length), i ≤ j → j < i + n → (r[j]).sty = c.sty := by
          intro j hj h1 h2
          apply hsty0
          apply List.mem_of_getElem? (i := j - i)
          rw [slice_get (by omega), show i + (j - i) = j by omega, List.getElem?_eq_getElem hj]
        have hbnd : i + n < e → r.contAt (i + n) = false := by
          intro hlt
          have hl : i + n < r.length := by omega
          have h1 := hstop0 r[i + n] (by rw [hget n (by omega), List.getElem?_eq_getElem hl])
          rw [contAt_get hl]
          cases hcf : (r[i + n]).cont with
          | false => rfl
          | true =>
            obtain ⟨c0, g1, g2⟩ := hcs (i + n - 1) r[i + n]
              (by rw [List.getElem?_eq_getElem (by omega)]; congr 2; omega) hcf
            have hl0 : i + n - 1 < r.length := by omega
            rw [List.getElem?_eq_getElem hl0, Option.some.injEq] at g1
            have := hsty (i + n - 1) hl0 (by omega) (by omega)
            rw [g1, g2] at this
            exact absurd this h1
        have hT : (decide (i + n = e) && decide (e < r.length) && r.contAt e) = true →
            i + n = e ∧ e < r.length ∧ r.contAt e = true := by
          intro h; simp only [Bool.and_eq_true, decide_eq_true_eq] at h; exact ⟨h.1.1, h.1.2, h.2⟩
        have hF : (decide (i + n = e) && decide (e < r.length) && r.contAt e) = false →
            r.contAt (i + n) = false := by
          intro h
          by_cases hs : i + n = e
          · by_cases hl : e < r.length
            · rw [hs]; simpa [hs, hl] using h
            · exact contAt_of_len (by omega)
          · exact hbnd (by omega)
        rw [List.flatMap_append, ih (i + n) (by omega) (by omega) (by omega) (fun _ h => hbnd h),
          stretch_cells (x := x) (e := e) hr hch hxi hn1 (by omega) he hsty (fun h => hinv h (by omega)) _ hT hF,
          ← cc_add]
        congr 1; omega

/-- **1.** For a row of consistent cells (`C20Grid.RowOK`: `GCell.ok` and `rowWF` of the abstraction;
    `okCh`: the rune array agrees with the text array) whose continuation cells carry the style of
    the cell to their left (`ContSty`, needed: `contSty_needed`), with wide characters of any width
    and any number of styles: the runs `StyledLine(x, w, y)` returns (blank runs for the cells of a
    character cut by either edge, repeat runs, text runs), expanded to cells, are the mirror model's
    read `subCells` of `[x, x + w)`, and the reported width is `w`; also the to-the-end form. -/
theorem grid_styledLine_subCells (r : GRow) (hr : C20Grid.RowOK r) (hch : r.all GCell.okCh = true)
    (hcs : ContSty r) {x : Nat} (hx : x ≤ r.length) :
    (∀ w, x + w ≤ r.length →
      ((r.styledLine x (some w)).1).flatMap GSpanC.cells = subCells (r.map GCell.abs) x (x + w) ∧
      (r.styledLine x (some w)).2 = w) ∧
    ((r.styledLine x none).1).flatMap GSpanC.cells = subCells (r.map GCell.abs) x r.length ∧
    (r.styledLine x none).2 = r.length - x := by
  have key : ∀ w, x + w ≤ r.length →
      (gStyledAux r x (x + w) (w + 1) x).flatMap GSpanC.cells = subCells (r.map GCell.abs) x (x + w) := by
    intro w hw
    rw [aux_cells hr hch hcs x (x + w) hw (w + 1) x (Nat.le_refl _) (by omega) (by omega) (fun h => absurd rfl h)]
    rfl
  refine ⟨?_, ?_, rfl⟩
  · intro w hw
    unfold GRow.styledLine
    simp only []
    rw [if_neg (by omega)]
    exact ⟨key w hw, rfl⟩
  · have h := key (r.length - x) (by omega)
    have e : x + (r.length - x) = r.length := by omega
    show (gStyledAux r x (x + (r.length - x)) (r.length - x + 1) x).flatMap GSpanC.cells = _
    rw [h, e]

/-- **3.** For every byte stream (sizes within the CSI parameter range, `cw 32 ≤ 1`, `cw 0xFFFD ≤ 1`):
    `StyledLine(x, n, y)` of the array-level terminal's ACTIVE screen (the grid buffer as the code
    stores it, after the stream), expanded to cells, is the mirror model's read `subCells` of row `y`
    of the model terminal's active screen after the same stream, for every window `[x, x + n)` inside
    the row, with the reported width `n`; also the to-the-end form. -/
theorem stream_grid_styledLine (cw : Nat → Nat) (hsp : cw 32 ≤ 1) (hrep : cw 0xFFFD ≤ 1) {w h : Nat}
    (hw : 1 ≤ w) (hh : 1 ≤ h) (hW : w ≤ paramMax) (hH : h ≤ paramMax) (bs : Bytes) {y : Nat} (hy : y < h)
    {x : Nat} (hx : x ≤ w) :
    let S := C20Grid.gStateAfter cw (GTerm.init w h) (C10.toksOf bs)
    let T := (run cw (Term.init .blank w h) bs).1
    (∀ n, x + n ≤ w →
      (((S.scr.row y).styledLine x (some n)).1).flatMap GSpanC.cells = subCells (T.scr.row y) x (x + n) ∧
      ((S.scr.row y).styledLine x (some n)).2 = n) ∧
    (((S.scr.row y).styledLine x none).1).flatMap GSpanC.cells = subCells (T.scr.row y) x w ∧
    ((S.scr.row y).styledLine x none).2 = w - x := by
  intro S T
  have hcs : ContSty (S.scr.row y) := stream_contSty cw hsp hrep hw hh hW hH bs hy
  obtain ⟨_, _, _, _, _, _, hon, hrows⟩ := C20Grid.stream_rows cw hw hh bs
  obtain ⟨m1, m2, a1, a2⟩ := hrows y hy
  have hok : C20GridAnsi.TermOK S := C20GridAnsi.stream_chOK cw w h bs
  have hm := C20GridAnsi.cellsOK_iff.2 (C20GridAnsi.row_chOK hok.1 y)
  have ha := C20GridAnsi.cellsOK_iff.2 (C20GridAnsi.row_chOK hok.2 y)
  have key : C20Grid.RowInv w (S.scr.row y) ∧ T.scr.row y = (S.scr.row y).map GCell.abs ∧
      (S.scr.row y).all GCell.okCh = true := by
    change S.onAlt = T.onAlt at hon
    unfold GTerm.scr Term.scr
    rw [← hon]
    cases hS : S.onAlt with
    | false => exact ⟨m1, m2, hm⟩
    | true => exact ⟨a1, a2, ha⟩
  obtain ⟨k1, k2, k3⟩ := key
  have := grid_styledLine_subCells (S.scr.row y) k1.ok k3 hcs (x := x) (by rw [k1.1]; exact hx)
  rw [k2]
  rw [k1.1] at this
  exact this

section nonvacuity
open TM.C11.Examples (boldRedOn200 fancy)

def wide (st : Style) : GRow := [⟨0x4E16, [0xE4, 0xB8, 0x96], 2, false, st⟩, ⟨0, [], 0, true, st⟩]
def nar (ch : Nat) (st : Style) : GCell := ⟨ch, encodeRune ch, 1, false, st⟩

/-- `世aa` in one rendition, `世b世` in another: 9 cells -/
def exRow : GRow :=
  wide boldRedOn200 ++ [nar 0x61 boldRedOn200, nar 0x61 boldRedOn200] ++ wide fancy ++ [nar 0x62 fancy] ++ wide fancy

example : exRow.all GCell.ok = true ∧ rowWF (exRow.map GCell.abs) = true ∧ exRow.all GCell.okCh = true := by
  decide
/-- the window `[1, 8)` cuts the first wide character on the left and the last one on the right,
    and contains a change of style: blank, repeat run `aa`, text run `世b`, blank -/
example : (exRow.styledLine 1 (some 7)).1 =
    [⟨⟨boldRedOn200, [], 0x20, 1⟩, []⟩, ⟨⟨boldRedOn200, [], 0x61, 2⟩, []⟩,
     ⟨⟨fancy, [0xE4, 0xB8, 0x96, 0x62], 0, 3⟩, [([0xE4, 0xB8, 0x96], 2), ([0x62], 1)]⟩,
     ⟨⟨fancy, [], 0x20, 1⟩, []⟩] := by decide
example : ((exRow.styledLine 1 (some 7)).1).flatMap GSpanC.cells = subCells (exRow.map GCell.abs) 1 8 := by
  decide
example : ((exRow.styledLine 1 (some 7)).1).flatMap GSpanC.cells =
    [blank boldRedOn200, ⟨.ch [0x61] 1, boldRedOn200⟩, ⟨.ch [0x61] 1, boldRedOn200⟩,
     ⟨.ch [0xE4, 0xB8, 0x96] 2, fancy⟩, ⟨.cont, fancy⟩, ⟨.ch [0x62] 1, fancy⟩, blank fancy] := by decide
/-- a wide character cut on both sides (three cells, window of its middle cell) -/
example :
    let r : GRow := [⟨0x4E16, [0xE4, 0xB8, 0x96], 3, false, fancy⟩, ⟨0, [], 0, true, fancy⟩, ⟨0, [], 0, true, fancy⟩]
    ((r.styledLine 1 (some 1)).1).flatMap GSpanC.cells = subCells (r.map GCell.abs) 1 2 ∧
    ((r.styledLine 1 (some 1)).1).flatMap GSpanC.cells = [blank fancy] := by decide
/-- the widths theorem on the example -/
example : wsum (exRow.styledLine 1 (some 7)).1 = 7 := (grid_styledLine_widths exRow 1 (by decide) (some 7)).1

/-- a row that `C20Grid.RowOK` and `okCh` allow but no writer produces: the continuation cell of
    `世` in another style than its head -/
def badRow : GRow :=
  [⟨0x4E16, [0xE4, 0xB8, 0x96], 2, false, boldRedOn200⟩, ⟨0, [], 0, true, fancy⟩, nar 0x61 fancy, nar 0x61 fancy]

/-- **the hypothesis "continuation cells have the style of their head" is needed**: on `badRow`
    (`RowOK`, `okCh`) `StyledLine(0, 2)` gives a text run `世` of width 1 (its expansion has two
    cells in the head's style) and a blank in the other style; `subCells` shows the two cells -/
theorem contSty_needed :
    (badRow.all GCell.ok = true ∧ rowWF (badRow.map GCell.abs) = true) ∧ badRow.all GCell.okCh = true ∧
    ((badRow.styledLine 0 (some 2)).1).flatMap GSpanC.cells ≠ subCells (badRow.map GCell.abs) 0 2 ∧
    (badRow.styledLine 0 (some 2)).1 =
      [⟨⟨boldRedOn200, [0xE4, 0xB8, 0x96], 0, 1⟩, [([0xE4, 0xB8, 0x96], 2)]⟩, ⟨⟨fancy, [], 0, 1⟩, []⟩] := by
  decide

/-- statement 1 on every window of a row, as a Boolean -/
def allWindows (r : GRow) : Bool :=
  (List.range (r.length + 1)).all fun x => (List.range (r.length + 1 - x)).all fun w =>
    ((r.styledLine x (some w)).1).flatMap GSpanC.cells == subCells (r.map GCell.abs) x (x + w) &&
    ((r.styledLine x none).1).flatMap GSpanC.cells == subCells (r.map GCell.abs) x r.length

set_option maxRecDepth 100000 in
/-- every window of `exRow` (55 of them: cuts on the left, on the right, on both sides, stretches) -/
example : allWindows exRow = true := by decide

/-- the hypotheses of `grid_styledLine_subCells_partial` hold on a row with two styles, a repeat
    run and a text run; `ContSty` holds on `exRow` and fails on `badRow` -/
def narRow : GRow := [nar 0x61 boldRedOn200, nar 0x61 boldRedOn200, nar 0x62 fancy, nar 0x63 fancy]
example : ((narRow.styledLine 1 (some 3)).1).flatMap GSpanC.cells = subCells (narRow.map GCell.abs) 1 4 :=
  ((grid_styledLine_subCells_partial narRow (by decide) (by decide) (by decide) (x := 1) (by decide)).1 3
    (by decide)).1
example : (narRow.styledLine 1 (some 3)).1 =
    [⟨⟨boldRedOn200, [], 0x61, 1⟩, []⟩, ⟨⟨fancy, [0x62, 0x63], 0, 2⟩, [([0x62], 1), ([0x63], 1)]⟩] := by decide
example : ¬ ContSty badRow := by
  intro h
  obtain ⟨c0, h0, h1⟩ := h 0 ⟨0, [], 0, true, fancy⟩ (by decide) rfl
  have : c0 = ⟨0x4E16, [0xE4, 0xB8, 0x96], 2, false, boldRedOn200⟩ := by
    have h2 : badRow[0]? = some ⟨0x4E16, [0xE4, 0xB8, 0x96], 2, false, boldRedOn200⟩ := by decide
    rw [h2] at h0; exact (Option.some.inj h0).symm
  subst this
  revert h1; decide

/-- a Boolean check of `ContSty` -/
def contStyB (r : GRow) : Bool :=
  (List.range r.length).all fun i =>
    match r[i + 1]? with
    | some c => !c.cont || (match r[i]? with | some c0 => decide (c0.sty = c.sty) | none => false)
    | none => true

theorem contSty_of_check {r : GRow} (h : contStyB r = true) : ContSty r := by
  intro i c hc hcont
  have hi : i + 1 < r.length := by
    apply Nat.lt_of_not_le; intro hle; rw [List.getElem?_eq_none hle] at hc; cases hc
  have := List.all_eq_true.1 h i (List.mem_range.2 (by omega))
  rw [hc] at this
  simp only [hcont, Bool.not_true, Bool.false_or] at this
  rw [List.getElem?_eq_getElem (by omega)] at this ⊢
  exact ⟨_, rfl, of_decide_eq_true this⟩

/-- the hypotheses of the general theorem hold on `exRow` (wide characters, two styles); the window
    `[1, 8)` cuts a wide character on each side -/
example : ((exRow.styledLine 1 (some 7)).1).flatMap GSpanC.cells = subCells (exRow.map GCell.abs) 1 8 :=
  ((grid_styledLine_subCells exRow ⟨by decide, by decide⟩ (by decide) (contSty_of_check (by decide))
    (x := 1) (by decide)).1 7 (by decide)).1
example : ¬ contStyB badRow = true := by decide

end nonvacuity

end TM.C20GridStyled

#print axioms TM.C20GridStyled.stretch_widths
#print axioms TM.C20GridStyled.grid_styledLine_widths
#print axioms TM.C20GridStyled.contSty_needed
#print axioms TM.C20GridStyled.grid_styledLine_subCells_partial
#print axioms TM.C20GridStyled.stream_contSty
#print axioms TM.C20GridStyled.grid_styledLine_subCells
#print axioms TM.C20GridStyled.stream_grid_styledLine
