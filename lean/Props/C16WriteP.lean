import TM.Stream
import Props.C16
/-!
# C16 (addendum) — `Terminal.Write` when a backend call may FAIL AFTER ACCEPTING bytes

Model: `TM/Stream.lean` — `WCall`, `WScriptP`, `writeAllP`, `terminalWriteP`, `WScript.toP`.
`io.Writer` allows `Write` to return `n > 0` together with an error; `Terminal.Write` counts the
bytes of the failing call and returns the error.

Property theorems (every `b`, every script):
* `writeP_embeds` — the old scripts (`terminalWrite`) are the special case `WScript.toP`.
* `writeP_prefix` — the count is exact: the backend received exactly `b.take n`, `n ≤ len(b)`,
  also when the failing call made progress.
* `writeP_nil_iff_all` — no error ⇒ everything delivered; something undelivered ⇒ an error. The
  converse `n = len(b) ⇒ no error` is FALSE here (a failing call may accept all remaining bytes):
  `Examples` has the `decide`d counterexample.
* `writeP_fail_with_progress` — an error is never dropped, whatever progress the failing call
  made, at every call index.
* `writeP_error_sound` — `.injected` only from a failing call of the script, `.shortWrite` only
  from a non-failing call that accepts 0 bytes.
* `writeP_fuel_suffices` — any fuel `> len(b)` gives the same result.
-/
namespace TM.C16P
open TM TM.C16

namespace Lemmas

theorem nonempty_pos {b : Bytes} (hb : ¬ b.isEmpty = true) : 0 < b.length := by
  cases b with
  | nil => simp at hb
  | cons x xs => simp

theorem writeAllP_embeds : ∀ (fuel : Nat) (b : Bytes) (s : WScript) (total : Nat) (del : Bytes),
    writeAllP fuel b s.toP total del = writeAll fuel b s total del := by
  intro fuel
  induction fuel with
  | zero => intro b s total del; rfl
  | succ fuel ih =>
    intro b s total del
    unfold writeAllP writeAll
    split
    · rfl
    · cases s with
      | nil => rfl
      | cons c rest =>
        cases c with
        | none => simp [WScript.toP]
        | some k =>
          have := ih (b.drop (min k b.length)) rest (total + min k b.length)
            (del ++ b.take (min k b.length))
          simp only [WScript.toP] at this
          simp [WScript.toP, this]

theorem writeAllP_spec : ∀ (fuel : Nat) (b : Bytes) (script : WScriptP) (total : Nat) (del : Bytes)
    (n : Nat) (e : WErr) (d : Bytes),
    b.length < fuel → writeAllP fuel b script total del = (n, e, d) →
    ∃ m, m ≤ b.length ∧ n = total + m ∧ d = del ++ b.take m ∧ (e = .nil → m = b.length) := by
  intro fuel
  induction fuel with
  | zero => intro b script total del n e d hf; omega
  | succ fuel ih =>
    intro b script total del n e d hf hw
    unfold writeAllP at hw
    split at hw
    · rename_i hb
      have hb' : b = [] := List.isEmpty_iff.mp hb
      cases hw
      exact ⟨0, Nat.zero_le _, rfl, by simp, by simp [hb']⟩
    · rename_i hb
      have hb' := nonempty_pos hb
      split at hw
      · cases hw
        exact ⟨b.length, Nat.le_refl _, rfl, by rw [List.take_length], by simp⟩
      · rename_i c rest
        simp only at hw
        have hk : min c.k b.length ≤ b.length := Nat.min_le_right _ _
        split at hw
        · cases hw
          exact ⟨min c.k b.length, hk, rfl, rfl, fun h => (by cases h)⟩
        · split at hw
          · cases hw
            exact ⟨0, Nat.zero_le _, rfl, by simp, fun h => (by cases h)⟩
          · rename_i hn
            obtain ⟨m, hm1, hm2, hm3, hm4⟩ :=
              ih (b.drop (min c.k b.length)) rest _ _ n e d
                (by rw [List.length_drop]; omega) hw
            rw [List.length_drop] at hm1 hm4
            refine ⟨min c.k b.length + m, by omega, by omega, ?_, fun h => by have := hm4 h; omega⟩
            rw [hm3, List.take_add, List.append_assoc]

theorem writeAllP_fuel : ∀ (f f' : Nat) (b : Bytes) (script : WScriptP) (total : Nat) (del : Bytes),
    b.length < f → b.length < f' →
    writeAllP f b script total del = writeAllP f' b script total del := by
  intro f
  induction f with
  | zero => intro f' b script total del hf; omega
  | succ f ih =>
    intro f' b script total del hf hf'
    cases f' with
    | zero => omega
    | succ f' =>
      unfold writeAllP
      split
      · rfl
      · rename_i hb
        have hb' := nonempty_pos hb
        split
        · rfl
        · rename_i c rest
          simp only
          split
          · rfl
          · split
            · rfl
            · rename_i hn
              have hk : min c.k b.length ≤ b.length := Nat.min_le_right _ _
              exact ih f' _ rest _ _ (by rw [List.length_drop]; omega)
                (by rw [List.length_drop]; omega)

/-- the first `pre.length` calls each accept their full `k` because more than that remains -/
theorem writeAllP_pre (rest : WScriptP) : ∀ (pre : List Nat) (fuel : Nat) (b : Bytes) (total : Nat)
    (del : Bytes), (∀ k ∈ pre, 0 < k) → pre.sum < b.length → b.length < fuel →
    writeAllP fuel b (pre.map (⟨·, false⟩) ++ rest) total del =
      writeAllP (fuel - pre.length) (b.drop pre.sum) rest (total + pre.sum) (del ++ b.take pre.sum) ∧
      (b.drop pre.sum).length < fuel - pre.length := by
  intro pre
  induction pre with
  | nil =>
    intro fuel b total del hp hs hf
    simp only [List.map_nil, List.nil_append, List.length_nil, List.sum_nil, Nat.sub_zero,
      List.drop_zero, Nat.add_zero, List.take_zero, List.append_nil, true_and]
    exact hf
  | cons k pre ih =>
    intro fuel b total del hp hs hf
    have hk0 : 0 < k := hp k (by simp)
    simp only [List.sum_cons] at hs
    cases fuel with
    | zero => omega
    | succ fuel =>
      have hb : b.isEmpty = false := by
        cases b with
        | nil => simp at hs
        | cons x xs => rfl
      have hmin : min k b.length = k := Nat.min_eq_left (by omega)
      have h := ih fuel (b.drop k) (total + k) (del ++ b.take k)
        (fun x hx => hp x (List.mem_cons_of_mem _ hx))
        (by rw [List.length_drop]; omega) (by rw [List.length_drop]; omega)
      simp only [List.map_cons, List.cons_append, List.sum_cons, List.length_cons]
      rw [writeAllP]
      simp only [hb, Bool.false_eq_true, if_false, hmin]
      rw [if_neg (by omega), h.1]
      refine ⟨?_, ?_⟩
      · simp only [List.drop_drop, Nat.add_assoc, List.append_assoc, ← List.take_add,
          Nat.add_sub_add_right]
      · have := h.2
        simp only [List.drop_drop] at this
        simp only [Nat.add_sub_add_right]; exact this

theorem writeAllP_err_sound : ∀ (fuel : Nat) (b : Bytes) (script : WScriptP) (total : Nat)
    (del : Bytes) (n : Nat) (e : WErr) (d : Bytes), writeAllP fuel b script total del = (n, e, d) →
    (e = .injected → ∃ c ∈ script, c.fails = true) ∧
    (e = .shortWrite → ∃ c ∈ script, c.fails = false ∧ c.k = 0) := by
  intro fuel
  induction fuel with
  | zero =>
    intro b script total del n e d hw
    cases hw
    exact ⟨fun h => (by cases h), fun h => (by cases h)⟩
  | succ fuel ih =>
    intro b script total del n e d hw
    unfold writeAllP at hw
    split at hw
    · cases hw; exact ⟨fun h => (by cases h), fun h => (by cases h)⟩
    · rename_i hb
      have hb' := nonempty_pos hb
      split at hw
      · cases hw; exact ⟨fun h => (by cases h), fun h => (by cases h)⟩
      · rename_i c rest
        simp only at hw
        split at hw
        · rename_i hf
          cases hw
          exact ⟨fun _ => ⟨c, by simp, hf⟩, fun h => (by cases h)⟩
        · rename_i hf
          split at hw
          · rename_i hn
            cases hw
            refine ⟨fun h => (by cases h), fun _ => ⟨c, by simp, by simpa using hf, by omega⟩⟩
          · have := ih _ rest _ _ n e d hw
            refine ⟨fun h => ?_, fun h => ?_⟩
            · obtain ⟨c', h1, h2⟩ := this.1 h
              exact ⟨c', List.mem_cons_of_mem _ h1, h2⟩
            · obtain ⟨c', h1, h2⟩ := this.2 h
              exact ⟨c', List.mem_cons_of_mem _ h1, h2⟩

end Lemmas
open Lemmas

/-- **The old scripts are a special case**: a failing call that writes nothing is `⟨0, true⟩`. -/
theorem writeP_embeds (b : Bytes) (s : WScript) : terminalWriteP b s.toP = terminalWrite b s :=
  writeAllP_embeds _ b s 0 []

/-- **The count is exact**, also when a failing call made progress: the backend received exactly
the prefix of `b` of the reported length. -/
theorem writeP_prefix (b : Bytes) (script : WScriptP) (n : Nat) (e : WErr) (del : Bytes)
    (h : terminalWriteP b script = (n, e, del)) : del = b.take n ∧ n ≤ b.length := by
  obtain ⟨m, h1, h2, h3, _⟩ := writeAllP_spec _ b script 0 [] n e del (Nat.lt_succ_self _) h
  rw [Nat.zero_add] at h2
  subst h2
  exact ⟨by rw [h3, List.nil_append], h1⟩

/-- **No error ⇒ everything was delivered; something undelivered ⇒ an error.** (The converse of
the first part is false: see `Examples`.) -/
theorem writeP_nil_iff_all (b : Bytes) (script : WScriptP) (n : Nat) (e : WErr) (del : Bytes)
    (h : terminalWriteP b script = (n, e, del)) :
    (e = .nil → n = b.length ∧ del = b) ∧ (n < b.length → e ≠ .nil) := by
  obtain ⟨m, h1, h2, h3, h4⟩ := writeAllP_spec _ b script 0 [] n e del (Nat.lt_succ_self _) h
  rw [Nat.zero_add] at h2
  subst h2
  rw [List.nil_append] at h3
  refine ⟨fun he => ?_, fun hn he => ?_⟩
  · have := h4 he
    exact ⟨this, by rw [h3, this, List.take_length]⟩
  · have := h4 he; omega

/-- **An error is never dropped, whatever progress the failing call made, at every call index.**
After calls accepting `pre = [k₁, …, kⱼ]` bytes (all positive, together fewer than `len(b)`), a
call that accepts `k` bytes AND fails makes `Write` return the error with the count including the
bytes of the failing call, the backend having received exactly that prefix. -/
theorem writeP_fail_with_progress (b : Bytes) (pre : List Nat) (k : Nat) (rest : WScriptP)
    (hp : ∀ x ∈ pre, 0 < x) (hs : pre.sum < b.length) :
    terminalWriteP b (pre.map (⟨·, false⟩) ++ ⟨k, true⟩ :: rest) =
      (pre.sum + min k (b.length - pre.sum), .injected,
        b.take (pre.sum + min k (b.length - pre.sum))) := by
  unfold terminalWriteP
  obtain ⟨h1, h2⟩ := writeAllP_pre (⟨k, true⟩ :: rest) pre _ b 0 [] hp hs (Nat.lt_succ_self _)
  rw [h1]
  have hne : (b.drop pre.sum).isEmpty = false := by
    cases hd : b.drop pre.sum with
    | nil => have := congrArg List.length hd; rw [List.length_drop] at this; simp at this; omega
    | cons x xs => rfl
  cases hf : b.length + 1 - pre.length with
  | zero => omega
  | succ f =>
    simp only [writeAllP, hne, Bool.false_eq_true, if_false, if_true, List.length_drop,
      Nat.zero_add, List.nil_append, List.take_add]

/-- `.injected` only from a failing call of the script, `io.ErrShortWrite` only from a
non-failing call that accepts 0 bytes. -/
theorem writeP_error_sound (b : Bytes) (script : WScriptP) (n : Nat) (e : WErr) (del : Bytes)
    (h : terminalWriteP b script = (n, e, del)) :
    (e = .injected → ∃ c ∈ script, c.fails = true) ∧
    (e = .shortWrite → ∃ c ∈ script, c.fails = false ∧ c.k = 0) :=
  writeAllP_err_sound _ b script 0 [] n e del h

/-- **The fuel `len(b) + 1` suffices.** -/
theorem writeP_fuel_suffices (b : Bytes) (script : WScriptP) (f : Nat) (h : b.length < f) :
    writeAllP f b script 0 [] = terminalWriteP b script :=
  writeAllP_fuel f _ b script 0 [] h (Nat.lt_succ_self _)

namespace Examples

/-- a failing call that accepts ALL remaining bytes: `n = len(b)` WITH an error — so
    `e = .nil ↔ n = b.length` (true for `terminalWrite`) is false here -/
example : terminalWriteP [1, 2, 3] [⟨1, false⟩, ⟨5, true⟩] = (3, .injected, [1, 2, 3]) := by decide
/-- a failing call with partial progress -/
example : terminalWriteP [1, 2, 3, 4] [⟨1, false⟩, ⟨2, true⟩, ⟨9, false⟩] = (3, .injected, [1, 2, 3]) := by
  decide
/-- a failing call without progress = the old `none` -/
example : terminalWriteP [1, 2, 3] [⟨2, false⟩, ⟨0, true⟩] = (2, .injected, [1, 2]) ∧
    terminalWrite [1, 2, 3] [some 2, none] = (2, .injected, [1, 2]) := by decide
/-- short writes, then success; a zero-length accept -/
example : terminalWriteP [1, 2, 3] [⟨1, false⟩, ⟨1, false⟩] = (3, .nil, [1, 2, 3]) ∧
    terminalWriteP [1, 2, 3] [⟨1, false⟩, ⟨0, false⟩] = (1, .shortWrite, [1]) := by decide
/-- the failing call is never reached when everything is written before it -/
example : terminalWriteP [1, 2] [⟨2, false⟩, ⟨1, true⟩] = (2, .nil, [1, 2]) := by decide

end Examples

end TM.C16P

#print axioms TM.C16P.writeP_embeds
#print axioms TM.C16P.writeP_prefix
#print axioms TM.C16P.writeP_nil_iff_all
#print axioms TM.C16P.writeP_fail_with_progress
#print axioms TM.C16P.writeP_error_sound
#print axioms TM.C16P.writeP_fuel_suffices
