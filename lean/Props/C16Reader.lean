import TM.Reader
import Props.C16
import Props.C02Span
/-!
# C16 (reader) — the token reader model `TM/Reader.lean`

`Rdr.fill`, `Rdr.readByte` (`ReadByte`), `Rdr.readPrintable` (`ReadPrintableBytes`, rune mode)
over the buffer model `RBuf` and a scripted source. Invariant `Rdr.wf` (defined here): the buffer
is not allocated yet, or `RBuf.wf`. `Rdr.pending` = buffered bytes ++ bytes of the script.

* R1 `fill`: `init_wf`, `rdr_fill_conserves`, `rdr_fill_appends`, `rdr_fill_error_no_data`,
  `rdr_fill_capacity`, `rdr_fill_capacity_pow`.
* R2 `ReadByte`: `readByte_some`, `readByte_none`.
* R3 `ReadPrintableBytes`: `readPrintable_conservation`, `readPrintable_printable`,
  `readPrintable_whole_characters`, `readPrintable_textWF`, `readPrintable_width_limit`,
  `readPrintable_error`, `readPrintable_maximal`, `readPrintable_progress`.
* R4 fuel: `pot_lt_fuel`, `runLoop_fuel`, `waitData_fuel`, `waitByte_fuel`, `waitData_ends`.
* R5 call sequences: `calls_conservation`, `calls_prefix`, `runs_printable`, `runs_text`,
  `runs_independent`; capacity: `readPrintable_capacity`, `readByte_capacity`, `calls_capacity`.

What is NOT true (examples `truncated_1/2` at the end): the text returned is not always a
sequence of characters on its own (`textOK cw out.text out.width` can fail): the reader tokenises
with the bytes that follow in view, and `utf8.FullRune` calls a truncated sequence followed by a
byte that cannot continue it complete; cut off from that byte it is incomplete. What holds
unconditionally is `readPrintable_whole_characters` (the characters are the first characters of
`clusters cw` of the whole pending stream); `textWF` holds when the stream's characters
tokenise on their own (`readPrintable_textWF`).

Also: a character cut by the end of a read in the MIDDLE of a run ends the run before it (the loop
refills only when nothing of the run is consumed yet): `[0x61, 0xE4], [0xB8, 0xAD, 0x0A]` gives
`a` and then `中`, not `a中` in one call (example below); so single results do depend on how the
stream is cut into reads, their concatenation does not (`runs_text`, `runs_independent`).

Everything in `Lemmas`, and `capOK_fill`, `finish_fst`, `stepOf_cap`, `runLoop_cap`,
`waitData_cap`, `waitByte_cap`, are helpers.
-/
namespace TM.C16Reader
open TM TM.C16 TM.C02Span

/-- the reader's invariant: not yet allocated, or a well-formed buffer -/
def _root_.TM.Rdr.wf (r : Rdr) : Prop :=
  (r.buf.data = [] ∧ r.buf.start = 0 ∧ r.buf.stop = 0) ∨ r.buf.wf

/-- all bytes still in the script -/
def srcBytes (s : List (Bytes × Bool)) : Bytes := (s.map (·.1)).flatten

/-- the potential that every loop iteration of the reader decreases -/
def pot (r : Rdr) : Nat := r.buffered + 2 * (srcBytes r.src).length + 2 * r.src.length

/-- `cs` are the leading characters of the stream `s`, each tokenised with the rest of the
    stream after it in view -/
def Heads (cw : Nat → Nat) : Bytes → List Cl → Prop
  | _, [] => True
  | s, p :: cs => stepRune cw s = some (p.1.length, p.2) ∧ ∃ s', s = p.1 ++ s' ∧ Heads cw s' cs

/-- `r'` is the state left by a `fill()` whose read reported an error (or EOF) and delivered
    nothing: the script was exhausted or its first entry was `([], true)` -/
def ErrStop (r' : Rdr) : Prop :=
  ∃ rl : Rdr, rl.wf ∧ rl.fill = (r', true) ∧ r'.buf.view = rl.buf.view ∧
    (rl.src = [] ∨ ∃ rest, rl.src = ([], true) :: rest)

/-- why a run that reports no error stopped where it did -/
def StopR (cw : Nat → Nat) (maxW : Nat) (r' : Rdr) (out : RunOut) : Prop :=
  r'.buffered = 0 ∨ r'.firstPrintable = false ∨
  (out.text ≠ [] ∧ stepRune cw r'.buf.view = none) ∨
  (0 < maxW ∧ 0 < out.width ∧ ∃ c w, stepRune cw r'.buf.view = some (c, w) ∧ maxW < out.width + w)

/-- the state of a run in progress: `cs` are the characters consumed since `runStart`, `S` the
    stream from the start of the run -/
structure RunInv (cw : Nat → Nat) (maxW : Nat) (S : Bytes) (r : Rdr) (rs wu : Nat) (cs : List Cl) : Prop where
  wf : r.wf
  le : rs ≤ r.buf.start
  txt : (r.buf.data.take r.buf.start).drop rs = flat cs
  stream : S = flat cs ++ r.pending
  heads : Heads cw S cs
  width : ws cs = wu
  printable : ∀ b ∈ flat cs, isPrintableByte b = true
  limit : 0 < maxW → wu ≤ maxW ∨ cs.length ≤ 1

/-- what a call of `ReadPrintableBytes` on the stream `S` guarantees -/
structure RunPostS (cw : Nat → Nat) (maxW : Nat) (S : Bytes) (enough : Prop) (r' : Rdr) (out : RunOut)
    (cs : List Cl) : Prop where
  text : out.text = flat cs
  width : out.width = ws cs
  heads : Heads cw S cs
  stream : S = out.text ++ r'.pending
  wf : r'.wf
  printable : ∀ b ∈ out.text, isPrintableByte b = true
  limit : 0 < maxW → out.width ≤ maxW ∨ cs.length ≤ 1
  err : out.err = true → cs = [] ∧ ErrStop r' ∧ (r'.buffered = 0 ∨ stepRune cw r'.buf.view = none)
  stop : enough → out.err = false → StopR cw maxW r' out

def RunPost (cw : Nat → Nat) (maxW : Nat) (S : Bytes) (enough : Prop) (r' : Rdr) (out : RunOut) : Prop :=
  ∃ cs, RunPostS cw maxW S enough r' out cs

namespace Lemmas

/-- the buffer `fill` works on: allocated on first use -/
def base (r : Rdr) : RBuf := if r.buf.data.isEmpty then RBuf.init else r.buf

theorem base_wf {r : Rdr} (h : r.wf) : (base r).wf := by
  unfold base
  split
  · exact init_wf
  · rename_i hd
    rcases h with ⟨h1, _, _⟩ | h
    · simp [h1] at hd
    · exact h

theorem base_view {r : Rdr} (h : r.wf) : (base r).view = r.buf.view := by
  unfold base
  split
  · rcases h with ⟨h1, h2, h3⟩ | h
    · rw [init_view]; simp [RBuf.view, h1]
    · rename_i hd
      have : r.buf.data = [] := List.isEmpty_iff.mp hd
      have h3 := h.2.2
      rw [this] at h3; simp at h3
  · rfl

theorem view_len {r : Rdr} (h : r.wf) : r.buf.view.length = r.buffered := by
  rcases h with ⟨h1, h2, h3⟩ | h
  · simp [RBuf.view, h1, Rdr.buffered, h2, h3]
  · exact C16.view_length _ h

theorem wf_of_buf {r : Rdr} (h : r.buf.wf) : r.wf := Or.inr h

theorem buf_wf_of_buffered {r : Rdr} (h : r.wf) (hb : r.buffered ≠ 0) : r.buf.wf := by
  rcases h with ⟨h1, h2, h3⟩ | h
  · simp [Rdr.buffered, h2, h3] at hb
  · exact h

theorem rfill_eq (r : Rdr) : r.fill =
    match r.src with
    | [] => ({ r with buf := (base r).fill [] }, true)
    | (d, e) :: rest =>
      if d.length ≤ (base r).makeRoom.room then ({ buf := (base r).fill d, src := rest }, e)
      else ({ buf := (base r).fill (d.take (base r).makeRoom.room),
              src := (d.drop (base r).makeRoom.room, e) :: rest }, false) := rfl

@[simp] theorem srcBytes_nil : srcBytes [] = [] := rfl
@[simp] theorem srcBytes_cons (p : Bytes × Bool) (s : List (Bytes × Bool)) :
    srcBytes (p :: s) = p.1 ++ srcBytes s := by simp [srcBytes]
@[simp] theorem srcBytes_append (a b : List (Bytes × Bool)) :
    srcBytes (a ++ b) = srcBytes a ++ srcBytes b := by simp [srcBytes]

theorem pending_eq (r : Rdr) : r.pending = r.buf.view ++ srcBytes r.src := rfl

/-- everything the loops need to know about one `fill()` -/
theorem fill_spec (r : Rdr) (h : r.wf) :
    ∃ g, (r.fill).1.buf.wf ∧ (r.fill).1.buf.view = r.buf.view ++ g ∧
      srcBytes r.src = g ++ srcBytes (r.fill).1.src ∧
      (r.fill).1.buffered = r.buffered + g.length ∧
      (r.src = [] → g = [] ∧ (r.fill).2 = true ∧ (r.fill).1.src = []) ∧
      (r.src ≠ [] → pot (r.fill).1 < pot r) ∧
      ((r.fill).2 = true → g = [] → r.src = [] ∨ ∃ rest, r.src = ([], true) :: rest) ∧
      (g = [] → r.src = [] ∨ ∃ e rest, r.src = ([], e) :: rest ∧ (r.fill).2 = e ∧ (r.fill).1.src = rest) := by
  have hb := base_wf h
  have hv := base_view h
  have hroom := makeRoom_room_pos _ hb
  have hlen := view_len h
  rw [rfill_eq]
  cases hs : r.src with
  | nil =>
    refine ⟨[], ?_⟩
    have hw := fill_wf _ [] hb
    have hvw : ((base r).fill []).view = r.buf.view := by rw [fill_nil _ hb, hv]
    refine ⟨hw, by simpa using hvw, by simp, ?_, ?_, ?_, ?_, ?_⟩
    · have := C16.view_length _ hw
      simp only [Rdr.buffered, List.length_nil, Nat.add_zero] at this ⊢
      rw [← this, hvw, hlen]; rfl
    · intro _; exact ⟨rfl, rfl, rfl⟩
    · intro hc; exact absurd rfl hc
    · intro _ _; exact Or.inl rfl
    · intro _; exact Or.inl rfl
  | cons p rest =>
    obtain ⟨d, e⟩ := p
    simp only
    split
    · rename_i hfit
      refine ⟨d, ?_⟩
      have hw := fill_wf _ d hb
      have hvw : ((base r).fill d).view = r.buf.view ++ d := by rw [fill_fits _ _ hb hfit, hv]
      have hbuf : ((base r).fill d).stop - ((base r).fill d).start = r.buffered + d.length := by
        have := C16.view_length _ hw
        rw [← this, hvw, List.length_append, hlen]
      refine ⟨hw, hvw, by simp, hbuf, ?_, ?_, ?_, ?_⟩
      · intro hc; cases hc
      · intro _
        simp only [pot, Rdr.buffered, hbuf, hs, srcBytes_cons, List.length_append, List.length_cons]
        simp only [Rdr.buffered] at hbuf
        omega
      · intro he hd
        simp only at he
        subst he; subst hd
        exact Or.inr ⟨rest, rfl⟩
      · intro hd; subst hd
        exact Or.inr ⟨e, rest, rfl, rfl, rfl⟩
    · rename_i hfit
      have hfit' : (base r).makeRoom.room < d.length := by omega
      refine ⟨d.take (base r).makeRoom.room, ?_⟩
      have hw := fill_wf _ (d.take (base r).makeRoom.room) hb
      have hvw : ((base r).fill (d.take (base r).makeRoom.room)).view =
          r.buf.view ++ d.take (base r).makeRoom.room := by
        rw [fill_fits _ _ hb (by simp only [List.length_take]; omega), hv]
      have hgl : (d.take (base r).makeRoom.room).length = (base r).makeRoom.room := by
        simp only [List.length_take]; omega
      have hbuf : ((base r).fill (d.take (base r).makeRoom.room)).stop -
          ((base r).fill (d.take (base r).makeRoom.room)).start =
            r.buffered + (d.take (base r).makeRoom.room).length := by
        have := C16.view_length _ hw
        rw [← this, hvw, List.length_append, hlen]
      have hne : d.take (base r).makeRoom.room ≠ [] := by
        intro hc; rw [hc] at hgl; simp at hgl; omega
      refine ⟨hw, hvw, by simp only [srcBytes_cons]; rw [← List.append_assoc, List.take_append_drop],
        hbuf, ?_, ?_, ?_, ?_⟩
      · intro hc; cases hc
      · intro _
        simp only [pot, Rdr.buffered, hbuf, hs, srcBytes_cons, List.length_append, List.length_cons,
          List.length_drop, hgl]
        omega
      · intro he; cases he
      · intro hd; exact absurd hd hne

theorem fill_buf (r : Rdr) : ∃ x, (r.fill).1.buf = (base r).fill x := by
  rw [rfill_eq]
  cases r.src with
  | nil => exact ⟨_, rfl⟩
  | cons p rest =>
    obtain ⟨d, e⟩ := p
    simp only
    split <;> exact ⟨_, rfl⟩

theorem srcBytes_length (s : List (Bytes × Bool)) :
    (srcBytes s).length = (s.map (·.1.length)).sum := by
  induction s with
  | nil => rfl
  | cons p s ih => simp [ih]

theorem pot_lt_fuel (r : Rdr) : pot r < r.fuel := by
  simp only [pot, Rdr.fuel, srcBytes_length]; omega

theorem firstPrintable_iff (r : Rdr) :
    r.firstPrintable = true ↔ ∃ b v, r.buf.view = b :: v ∧ isPrintableByte b = true := by
  unfold Rdr.firstPrintable Rdr.first
  cases r.buf.view with
  | nil => simp
  | cons b v => simp

theorem cont_printable (b : UInt8) (h : 0x80 ≤ b) : isPrintableByte b = true := by
  have h' := UInt8.le_iff_toNat_le.mp h
  simp only [isPrintableByte, Bool.and_eq_true, decide_eq_true_eq, bne_iff_ne, ne_eq, ge_iff_le]
  refine ⟨UInt8.le_iff_toNat_le.mpr ?_, ?_⟩
  · have : (32 : UInt8).toNat = 32 := rfl
    have h2 : (0x80 : UInt8).toNat = 128 := rfl
    omega
  · intro hc; subst hc
    have h2 : (0x80 : UInt8).toNat = 128 := rfl
    have h3 : (127 : UInt8).toNat = 127 := rfl
    omega

theorem secondOk_ge (a b : UInt8) (h : secondOk a b = true) : 0x80 ≤ b := by
  simp only [secondOk, Bool.and_eq_true, decide_eq_true_eq] at h
  have h1 := UInt8.le_iff_toNat_le.mp h.1
  apply UInt8.le_iff_toNat_le.mpr
  have : (0x80 : UInt8).toNat = 128 := rfl
  have ha : (0xA0 : UInt8).toNat = 160 := rfl
  have hb : (0x90 : UInt8).toNat = 144 := rfl
  unfold secondLo at h1
  split at h1
  · omega
  · split at h1 <;> omega

theorem isCont_ge (b : UInt8) (h : isCont b = true) : 0x80 ≤ b := by
  simp only [isCont, Bool.and_eq_true, decide_eq_true_eq] at h
  exact h.1

/-- the bytes of a decoded character after its first byte are continuation bytes -/
theorem decodeRune_tail (v : Bytes) : ∀ x ∈ (v.take (decodeRune v).2).drop 1, 0x80 ≤ x := by
  cases v with
  | nil => simp [decodeRune]
  | cons b0 rest =>
    simp only [decodeRune]
    obtain ⟨n, hn⟩ : ∃ n, leadLen b0 = n := ⟨_, rfl⟩
    rw [hn]
    rcases n with _|_|_|_|_|n <;>
    rcases rest with _ | ⟨b1, _ | ⟨b2, _ | ⟨b3, r4⟩⟩⟩ <;> simp <;>
    (try split) <;> simp <;> (try simp_all) <;>
    (rename_i h; first
      | exact secondOk_ge _ _ h
      | exact ⟨secondOk_ge _ _ h.1, isCont_ge _ h.2⟩
      | exact ⟨secondOk_ge _ _ h.1.1, isCont_ge _ h.1.2, isCont_ge _ h.2⟩)


/-- a character whose first byte is printable consists of printable bytes -/
theorem stepRune_printable {cw : Nat → Nat} {b : UInt8} {v : Bytes} {c w : Nat}
    (h : stepRune cw (b :: v) = some (c, w)) (hb : isPrintableByte b = true) :
    ∀ x ∈ (b :: v).take c, isPrintableByte x = true := by
  have hc := (stepRune_some h).1
  rw [stepRune_eq] at h
  split at h
  · split at h
    · cases h
    · simp only [Option.some.injEq, Prod.mk.injEq] at h
      have ht := decodeRune_tail (b :: v)
      rw [h.1] at ht
      intro x hx
      obtain ⟨c', rfl⟩ : ∃ c', c = c' + 1 := ⟨c - 1, by omega⟩
      simp only [List.take_succ_cons, List.mem_cons] at hx
      rcases hx with rfl | hx
      · exact hb
      · exact cont_printable x (ht x (by simpa using hx))
  · cases h

theorem heads_snoc {cw : Nat → Nat} {t : Bytes} {p : Cl} (hp : stepRune cw t = some (p.1.length, p.2))
    (hpre : ∃ t', t = p.1 ++ t') : ∀ (cs : List Cl), Heads cw (flat cs ++ t) cs →
    Heads cw (flat cs ++ t) (cs ++ [p]) := by
  intro cs
  induction cs with
  | nil =>
    intro _
    obtain ⟨t', ht⟩ := hpre
    exact ⟨by simpa using hp, t', by simpa using ht, trivial⟩
  | cons q cs ih =>
    intro h
    obtain ⟨h1, s', h2, h3⟩ := h
    simp only [flat_cons, List.append_assoc] at h2
    have := List.append_cancel_left h2
    subst this
    exact ⟨h1, flat cs ++ t, by simp, ih h3⟩

theorem heads_pos {cw : Nat → Nat} : ∀ (cs : List Cl) (s : Bytes), Heads cw s cs →
    ∀ p ∈ cs, 1 ≤ p.1.length ∧ 1 ≤ p.2 := by
  intro cs
  induction cs with
  | nil => intro _ _ p hp; cases hp
  | cons q cs ih =>
    intro s h p hp
    obtain ⟨h1, s', _, h3⟩ := h
    rcases List.mem_cons.mp hp with rfl | hp
    · have := stepRune_some h1; omega
    · exact ih s' h3 p hp

theorem heads_length {cw : Nat → Nat} : ∀ (cs : List Cl) (s : Bytes), Heads cw s cs →
    cs.length ≤ s.length := by
  intro cs
  induction cs with
  | nil => intro _ _; simp
  | cons q cs ih =>
    intro s h
    obtain ⟨h1, s', h2, h3⟩ := h
    have := (stepRune_some h1).1
    have := ih s' h3
    subst h2
    simp only [List.length_cons, List.length_append]; omega

theorem heads_clustersAux {cw : Nat → Nat} : ∀ (cs : List Cl) (s : Bytes) (n : Nat), Heads cw s cs →
    cs.length ≤ n → ∃ rest, clustersAux cw n s = cs ++ rest := by
  intro cs
  induction cs with
  | nil => intro s n _ _; exact ⟨_, rfl⟩
  | cons q cs ih =>
    intro s n h hn
    obtain ⟨h1, s', h2, h3⟩ := h
    cases n with
    | zero => simp at hn
    | succ n =>
      obtain ⟨rest, hr⟩ := ih s' n h3 (by simpa using hn)
      refine ⟨rest, ?_⟩
      simp only [clustersAux, h1]
      subst h2
      simp only [List.take_left', List.drop_left', hr, List.cons_append]

/-- the slice of the backing array that a run has consumed grows by the character consumed -/
theorem take_drop_grow (l : Bytes) (rs s c e : Nat) (h1 : rs ≤ s) (h2 : s + c ≤ e) (h3 : e ≤ l.length) :
    (l.take (s + c)).drop rs = (l.take s).drop rs ++ ((l.take e).drop s).take c := by
  rw [List.take_add, List.drop_append_of_le_length (by simp only [List.length_take]; omega)]
  congr 1
  rw [List.drop_take, List.take_take]
  congr 1
  omega

/-- the loop body of `runLoop`, one iteration -/
inductive Step
  | done (res : Rdr × RunOut)
  | cont (r : Rdr) (rs wu : Nat)

def stepOf (cw : Nat → Nat) (maxW : Nat) (r : Rdr) (rs wu : Nat) : Step :=
  if r.buf.start ≥ r.buf.stop then
    if rs = r.buf.start then
      if r.fill.2 ∧ r.fill.1.buffered = 0 then .done (r.fill.1, { err := true })
      else if r.fill.1.buffered = 0 ∨ !r.fill.1.firstPrintable then .done (r.fill.1, {})
      else .cont r.fill.1 r.fill.1.buf.start wu
    else .done (r.finish rs wu)
  else if !r.firstPrintable then .done (r.finish rs wu)
  else
    match stepRune cw r.buf.view with
    | none =>
      if r.buf.start = rs then
        if r.fill.1.buffered = r.buffered ∧ r.fill.2 then .done (r.fill.1, { err := true })
        else .cont r.fill.1 r.fill.1.buf.start wu
      else .done (r.finish rs wu)
    | some (c, w) =>
      if maxW > 0 ∧ wu + w > maxW ∧ wu > 0 then .done (r.finish rs wu)
      else .cont { r with buf := r.buf.consume c } rs (wu + w)

theorem runLoop_succ (cw : Nat → Nat) (maxW f : Nat) (r : Rdr) (rs wu : Nat) :
    Rdr.runLoop cw maxW (f + 1) r rs wu =
      match stepOf cw maxW r rs wu with
      | .done res => res
      | .cont r' rs' wu' => Rdr.runLoop cw maxW f r' rs' wu' := by
  rw [Rdr.runLoop]
  unfold stepOf
  rcases hf : r.fill with ⟨r1, e⟩
  rcases hst : stepRune cw r.buf.view with _ | ⟨c, w⟩ <;> dsimp only <;>
  repeat (first | rfl | split)


theorem RunPost.mono {cw : Nat → Nat} {maxW : Nat} {S : Bytes} {P : Prop} {r' : Rdr} {out : RunOut}
    (h : RunPost cw maxW S True r' out) : RunPost cw maxW S P r' out := by
  obtain ⟨cs, h⟩ := h
  exact ⟨cs, ⟨h.text, h.width, h.heads, h.stream, h.wf, h.printable, h.limit, h.err,
    fun _ => h.stop trivial⟩⟩

theorem flat_eq_nil {cs : List Cl} (hp : ∀ p ∈ cs, 1 ≤ p.1.length ∧ 1 ≤ p.2) (h : flat cs = []) : cs = [] := by
  cases cs with
  | nil => rfl
  | cons p cs =>
    have := (hp p (List.mem_cons_self ..)).1
    have h' := congrArg List.length h
    rw [flat_cons, List.length_append] at h'
    simp only [List.length_nil] at h'
    omega

theorem runInv_nil {cw : Nat → Nat} {maxW : Nat} {S : Bytes} {r : Rdr} {rs wu : Nat} {cs : List Cl}
    (h : RunInv cw maxW S r rs wu cs) (he : rs = r.buf.start) : cs = [] := by
  apply flat_eq_nil (heads_pos cs S h.heads)
  rw [← h.txt, he]
  exact List.drop_eq_nil_of_le (by simp only [List.length_take]; omega)

theorem finish_eq {cw : Nat → Nat} {maxW : Nat} {S : Bytes} {r : Rdr} {rs wu : Nat} {cs : List Cl}
    (h : RunInv cw maxW S r rs wu cs) : r.finish rs wu = (r, ⟨flat cs, ws cs, false⟩) := by
  unfold Rdr.finish
  split
  · rename_i he
    have := runInv_nil h he.symm
    subst this
    rfl
  · rw [h.txt, h.width]

theorem finish_post {cw : Nat → Nat} {maxW : Nat} {S : Bytes} {r : Rdr} {rs wu : Nat} {cs : List Cl}
    (h : RunInv cw maxW S r rs wu cs) (hstop : StopR cw maxW r ⟨flat cs, ws cs, false⟩) :
    RunPost cw maxW S True (r.finish rs wu).1 (r.finish rs wu).2 := by
  rw [finish_eq h]
  exact ⟨cs, ⟨rfl, rfl, h.heads, h.stream, h.wf, h.printable, (by rw [h.width]; exact h.limit),
    (fun he => by cases he), fun _ _ => hstop⟩⟩

/-- a state in which nothing of the run has been consumed -/
theorem RunInv.fresh {cw : Nat → Nat} {maxW : Nat} (r : Rdr) (h : r.wf) :
    RunInv cw maxW r.pending r r.buf.start 0 [] :=
  ⟨h, Nat.le_refl _, List.drop_eq_nil_of_le (by simp only [List.length_take]; omega), rfl, trivial, rfl,
    (fun _ hb => by cases hb), fun _ => Or.inr (Nat.zero_le _)⟩

def StepOK (cw : Nat → Nat) (maxW : Nat) (S : Bytes) (r : Rdr) : Step → Prop
  | .done res => RunPost cw maxW S True res.1 res.2
  | .cont r' rs' wu' => (∃ cs', RunInv cw maxW S r' rs' wu' cs') ∧ pot r' < pot r

theorem stepOf_spec {cw : Nat → Nat} {maxW : Nat} {S : Bytes} {r : Rdr} {rs wu : Nat} {cs : List Cl}
    (h : RunInv cw maxW S r rs wu cs) : StepOK cw maxW S r (stepOf cw maxW r rs wu) := by
  obtain ⟨g, fw, fv, fsrc, fbuf, fnil, fpot, ferr, fg⟩ := fill_spec r h.wf
  have hlen := view_len h.wf
  have hpend : (r.fill).1.pending = r.pending := by
    rw [pending_eq, pending_eq, fv, fsrc, List.append_assoc]
  have hfillpair : r.fill = ((r.fill).1, (r.fill).2) := rfl
  -- the two exits and the continuation after a `fill()` with nothing of the run consumed
  have errExit : ∀ (hcs : cs = []), (r.fill).2 = true → g = [] →
      ((r.fill).1.buffered = 0 ∨ stepRune cw (r.fill).1.buf.view = none) →
      RunPost cw maxW S True (r.fill).1 { err := true } := by
    intro hcs he hg hno
    subst hcs; subst hg
    refine ⟨[], ⟨rfl, rfl, trivial, ?_, Or.inr fw, (fun _ hb => by cases hb), fun _ => Or.inr (Nat.zero_le _),
      fun _ => ⟨rfl, ⟨r, h.wf, (by rw [hfillpair, he]), (by simpa using fv), ferr he rfl⟩, hno⟩,
      (fun _ hc => by cases hc)⟩⟩
    rw [hpend, h.stream]; rfl
  have contFill : ∀ (hcs : cs = []), r.src ≠ [] →
      StepOK cw maxW S r (.cont (r.fill).1 (r.fill).1.buf.start wu) := by
    intro hcs hsrc
    subst hcs
    refine ⟨⟨[], ?_⟩, fpot hsrc⟩
    have hw := h.width
    simp only [ws_nil] at hw
    subst hw
    have := RunInv.fresh (cw := cw) (maxW := maxW) (r.fill).1 (Or.inr fw)
    rw [hpend] at this
    rw [h.stream]
    exact this
  unfold stepOf
  split
  · rename_i hge
    have hb0 : r.buffered = 0 := by unfold Rdr.buffered; omega
    split
    · rename_i hrs
      have hcs := runInv_nil h hrs
      split
      · rename_i hc
        have hg : g = [] := List.eq_nil_of_length_eq_zero (by omega)
        exact errExit hcs hc.1 hg (Or.inl hc.2)
      · rename_i hc
        split
        · rename_i hc2
          subst hcs
          refine ⟨[], ⟨rfl, rfl, trivial, ?_, Or.inr fw, (fun _ hb => by cases hb),
            fun _ => Or.inr (Nat.zero_le _), (fun hc => by cases hc), fun _ _ => ?_⟩⟩
          · show S = [] ++ (r.fill).1.pending
            rw [hpend, h.stream]; rfl
          · rcases hc2 with hc2 | hc2
            · exact Or.inl hc2
            · exact Or.inr (Or.inl (by simpa using hc2))
        · apply contFill hcs
          intro hsrc
          obtain ⟨hg, he, _⟩ := fnil hsrc
          apply hc
          refine ⟨he, ?_⟩
          rw [fbuf, hg, hb0]; rfl
    · exact finish_post h (Or.inl hb0)
  · rename_i hlt
    have hbw : r.buf.wf := buf_wf_of_buffered h.wf (by unfold Rdr.buffered; omega)
    split
    · rename_i hnp
      exact finish_post h (Or.inr (Or.inl (by simpa using hnp)))
    · rename_i hpr
      have hpr' : r.firstPrintable = true := by simpa using hpr
      obtain ⟨b, v, hview, hbp⟩ := (firstPrintable_iff r).mp hpr'
      split
      · rename_i hst
        split
        · rename_i hrs
          have hcs := runInv_nil h hrs.symm
          split
          · rename_i hc
            have hg : g = [] := List.eq_nil_of_length_eq_zero (by omega)
            refine errExit hcs hc.2 hg (Or.inr ?_)
            rw [fv, hg, List.append_nil]; exact hst
          · rename_i hc
            apply contFill hcs
            intro hsrc
            obtain ⟨hg, he, _⟩ := fnil hsrc
            apply hc
            refine ⟨?_, he⟩
            rw [fbuf, hg]; rfl
        · rename_i hrs
          refine finish_post h (Or.inr (Or.inr (Or.inl ⟨?_, hst⟩)))
          intro hnil
          have hl := congrArg List.length h.txt
          rw [show flat cs = [] from hnil] at hl
          simp only [List.length_drop, List.length_take, List.length_nil] at hl
          have := hbw.1; have := hbw.2.1; have := h.le
          omega
      · rename_i c w hst
        have hsome := stepRune_some hst
        split
        · rename_i hlim
          refine finish_post h (Or.inr (Or.inr (Or.inr ⟨hlim.1, ?_, c, w, hst, ?_⟩)))
          · show 0 < ws cs; rw [h.width]; exact hlim.2.2
          · show maxW < ws cs + w; rw [h.width]; exact hlim.2.1
        · rename_i hlim
          have hcl : c ≤ r.buf.view.length := hsome.2.1
          have hcv := consume_view r.buf c hbw hcl
          have htl : (r.buf.view.take c).length = c := by simp only [List.length_take]; omega
          refine ⟨⟨cs ++ [(r.buf.view.take c, w)], ?_⟩, ?_⟩
          · have hS : S = flat cs ++ (r.buf.view.take c ++ (r.buf.view.drop c ++ srcBytes r.src)) := by
              rw [h.stream, pending_eq, ← List.append_assoc (r.buf.view.take c), List.take_append_drop]
            refine ⟨Or.inr hcv.2, ?_, ?_, ?_, ?_, ?_, ?_, ?_⟩
            · show rs ≤ r.buf.start + c; have := h.le; omega
            · show (r.buf.data.take (r.buf.start + c)).drop rs = _
              rw [flat_append, ← h.txt]
              simp only [flat_cons, flat_nil, List.append_nil]
              have := hbw.2.1
              rw [hlen] at hcl
              exact take_drop_grow _ rs _ c r.buf.stop h.le (by unfold Rdr.buffered at hcl; omega) this
            · show S = _ ++ ((r.buf.consume c).view ++ srcBytes r.src)
              rw [hcv.1, hS]; simp
            · have hh := h.heads
              rw [h.stream] at hh ⊢
              refine heads_snoc ?_ ⟨r.buf.view.drop c ++ srcBytes r.src, ?_⟩ cs hh
              · show stepRune cw r.pending = some ((r.buf.view.take c).length, w)
                rw [htl, pending_eq]; exact stepRune_append _ hst
              · show r.pending = r.buf.view.take c ++ _
                rw [pending_eq, ← List.append_assoc, List.take_append_drop]
            · simp [h.width]
            · intro x hx
              rw [flat_append] at hx
              rcases List.mem_append.mp hx with hx | hx
              · exact h.printable x hx
              · simp only [flat_cons, flat_nil, List.append_nil] at hx
                rw [hview] at hx hst
                exact stepRune_printable hst hbp x hx
            · intro hm
              by_cases hwu : wu = 0
              · right
                have : cs = [] := by
                  cases cs with
                  | nil => rfl
                  | cons p cs' =>
                    have := (heads_pos _ S h.heads p (List.mem_cons_self ..)).2
                    have hw := h.width
                    simp only [ws_cons] at hw
                    omega
                subst this; simp
              · left; omega
          · simp only [pot, Rdr.buffered, RBuf.consume]
            rw [hlen] at hcl
            unfold Rdr.buffered at hcl
            have := hsome.1
            omega


theorem runLoop_spec {cw : Nat → Nat} {maxW : Nat} {S : Bytes} : ∀ (fuel : Nat) (r : Rdr) (rs wu : Nat)
    (cs : List Cl), RunInv cw maxW S r rs wu cs →
    RunPost cw maxW S (pot r < fuel) (Rdr.runLoop cw maxW fuel r rs wu).1
      (Rdr.runLoop cw maxW fuel r rs wu).2 := by
  intro fuel
  induction fuel with
  | zero =>
    intro r rs wu cs h
    rw [Rdr.runLoop, finish_eq h]
    exact ⟨cs, ⟨rfl, rfl, h.heads, h.stream, h.wf, h.printable, (by rw [h.width]; exact h.limit),
      (fun he => by cases he), fun hlt => absurd hlt (Nat.not_lt_zero _)⟩⟩
  | succ f ih =>
    intro r rs wu cs h
    rw [runLoop_succ]
    have hs := stepOf_spec h
    cases hst : stepOf cw maxW r rs wu with
    | done res => rw [hst] at hs; exact RunPost.mono hs
    | cont r' rs' wu' =>
      rw [hst] at hs
      obtain ⟨⟨cs', hi⟩, hp⟩ := hs
      obtain ⟨cs2, h2⟩ := ih r' rs' wu' cs' hi
      exact ⟨cs2, ⟨h2.text, h2.width, h2.heads, h2.stream, h2.wf, h2.printable, h2.limit, h2.err,
        fun hlt => h2.stop (by omega)⟩⟩

theorem stepOf_cont {cw : Nat → Nat} {maxW : Nat} {r : Rdr} {rs wu : Nat} {r' : Rdr} {rs' wu' : Nat}
    (h : r.wf) (hs : stepOf cw maxW r rs wu = .cont r' rs' wu') : r'.wf ∧ pot r' < pot r := by
  obtain ⟨g, fw, fv, fsrc, fbuf, fnil, fpot, ferr, fg⟩ := fill_spec r h
  have hlen := view_len h
  unfold stepOf at hs
  split at hs
  · rename_i hge
    have hb0 : r.buffered = 0 := by unfold Rdr.buffered; omega
    split at hs
    · split at hs
      · cases hs
      · rename_i hc
        split at hs
        · cases hs
        · cases hs
          refine ⟨Or.inr fw, fpot ?_⟩
          intro hsrc
          obtain ⟨hg, he, _⟩ := fnil hsrc
          exact hc ⟨he, by rw [fbuf, hg, hb0]; rfl⟩
    · cases hs
  · rename_i hlt
    have hbw : r.buf.wf := buf_wf_of_buffered h (by unfold Rdr.buffered; omega)
    split at hs
    · cases hs
    · split at hs
      · split at hs
        · split at hs
          · cases hs
          · rename_i hc
            cases hs
            refine ⟨Or.inr fw, fpot ?_⟩
            intro hsrc
            obtain ⟨hg, he, _⟩ := fnil hsrc
            exact hc ⟨by rw [fbuf, hg]; rfl, he⟩
        · cases hs
      · rename_i c w hst
        have hsome := stepRune_some hst
        split at hs
        · cases hs
        · cases hs
          have hcl : c ≤ r.buf.view.length := hsome.2.1
          refine ⟨Or.inr (consume_view r.buf c hbw hcl).2, ?_⟩
          simp only [pot, Rdr.buffered, RBuf.consume]
          rw [hlen] at hcl
          unfold Rdr.buffered at hcl
          have := hsome.1
          omega

theorem runLoop_fuel_aux {cw : Nat → Nat} {maxW : Nat} : ∀ (n m : Nat) (r : Rdr) (rs wu : Nat), r.wf →
    pot r < n → pot r < m → Rdr.runLoop cw maxW n r rs wu = Rdr.runLoop cw maxW m r rs wu := by
  intro n
  induction n with
  | zero => intro m r rs wu _ hn; omega
  | succ n ih =>
    intro m r rs wu h hn hm
    cases m with
    | zero => omega
    | succ m =>
      rw [runLoop_succ, runLoop_succ]
      cases hst : stepOf cw maxW r rs wu with
      | done res => rfl
      | cont r' rs' wu' =>
        obtain ⟨hw, hp⟩ := stepOf_cont h hst
        exact ih m r' rs' wu' hw (by omega) (by omega)

/-! ### the two refill loops -/

theorem waitData_succ (f : Nat) (r : Rdr) : Rdr.waitData (f + 1) r =
    if r.buffered ≠ 0 then (r, false)
    else if (r.fill).2 ∧ (r.fill).1.buffered = 0 then ((r.fill).1, true)
    else Rdr.waitData f (r.fill).1 := by
  rw [Rdr.waitData]

theorem waitByte_succ (f : Nat) (r : Rdr) : Rdr.waitByte (f + 1) r =
    if r.buffered ≠ 0 then (r, false)
    else if (r.fill).2 then ((r.fill).1, true)
    else Rdr.waitByte f (r.fill).1 := by
  rw [Rdr.waitByte]

theorem waitData_true (f : Nat) (r : Rdr) (h : (Rdr.waitData f r).2 = true) : r.buffered = 0 := by
  cases f with
  | zero => simp [Rdr.waitData] at h
  | succ f =>
    rw [waitData_succ] at h
    split at h
    · cases h
    · rename_i hb; simpa using hb

theorem waitByte_true (f : Nat) (r : Rdr) (h : (Rdr.waitByte f r).2 = true) : r.buffered = 0 := by
  cases f with
  | zero => simp [Rdr.waitByte] at h
  | succ f =>
    rw [waitByte_succ] at h
    split at h
    · cases h
    · rename_i hb; simpa using hb

/-- the entries a refill loop consumed while nothing arrived: all `([], false)`, then EOF or `([], true)` -/
def Quiet (s s' : List (Bytes × Bool)) : Prop :=
  ∃ pre, (∀ p ∈ pre, p = ([], false)) ∧ (s = pre ∧ s' = [] ∨ s = pre ++ ([], true) :: s')

theorem waitData_spec : ∀ (fuel : Nat) (r : Rdr), r.wf →
    (Rdr.waitData fuel r).1.wf ∧ (Rdr.waitData fuel r).1.pending = r.pending ∧
    ((Rdr.waitData fuel r).2 = true → (Rdr.waitData fuel r).1.buffered = 0 ∧
      ErrStop (Rdr.waitData fuel r).1 ∧ Quiet r.src (Rdr.waitData fuel r).1.src) ∧
    (pot r < fuel → (Rdr.waitData fuel r).2 = false → (Rdr.waitData fuel r).1.buffered ≠ 0) := by
  intro fuel
  induction fuel with
  | zero =>
    intro r h
    exact ⟨h, rfl, (fun hc => by cases hc), fun hc => absurd hc (Nat.not_lt_zero _)⟩
  | succ f ih =>
    intro r h
    obtain ⟨g, fw, fv, fsrc, fbuf, fnil, fpot, ferr, fg⟩ := fill_spec r h
    have hpend : (r.fill).1.pending = r.pending := by
      rw [pending_eq, pending_eq, fv, fsrc, List.append_assoc]
    rw [waitData_succ]
    split
    · rename_i hb
      exact ⟨h, rfl, (fun hc => by cases hc), fun _ _ => hb⟩
    · rename_i hb
      have hb0 : r.buffered = 0 := by simpa using hb
      split
      · rename_i hc
        have hg : g = [] := List.eq_nil_of_length_eq_zero (by omega)
        subst hg
        refine ⟨Or.inr fw, hpend, fun _ => ⟨hc.2, ⟨r, h, ?_, by simpa using fv, ferr hc.1 rfl⟩, ⟨[], ?_, ?_⟩⟩,
          fun _ hcc => by cases hcc⟩
        · show r.fill = ((r.fill).1, true); rw [← hc.1]
        · intro p hp; cases hp
        · rcases fg rfl with hsrc | ⟨e, rest, hsrc, he, hr⟩
          · exact Or.inl ⟨hsrc, (fnil hsrc).2.2⟩
          · right
            rw [hc.1] at he
            rw [hsrc, hr, ← he]; rfl
      · rename_i hc
        obtain ⟨i1, i2, i3, i4⟩ := ih (r.fill).1 (Or.inr fw)
        have hsrcne : r.src ≠ [] := by
          intro hsrc
          obtain ⟨hg, he, _⟩ := fnil hsrc
          exact hc ⟨he, by rw [fbuf, hg, hb0]; rfl⟩
        refine ⟨i1, by rw [i2, hpend], fun ht => ?_, fun hp => i4 (by have := fpot hsrcne; omega)⟩
        obtain ⟨j1, j2, pre, j3, j4⟩ := i3 ht
        refine ⟨j1, j2, ?_⟩
        have hb1 := waitData_true f _ ht
        have hg : g = [] := List.eq_nil_of_length_eq_zero (by omega)
        rcases fg hg with hsrc | ⟨e, rest, hsrc, he, hr⟩
        · exact absurd hsrc hsrcne
        · have hef : e = false := by
            cases e with
            | false => rfl
            | true => exact absurd ⟨he, hb1⟩ hc
          subst hef
          refine ⟨([], false) :: pre, ?_, ?_⟩
          · intro p hp
            rcases List.mem_cons.mp hp with rfl | hp
            · rfl
            · exact j3 p hp
          · rw [hsrc, ← hr]
            rcases j4 with ⟨k1, k2⟩ | k1
            · exact Or.inl ⟨by rw [k1], k2⟩
            · exact Or.inr (by rw [k1]; rfl)

theorem waitByte_spec : ∀ (fuel : Nat) (r : Rdr), r.wf →
    (Rdr.waitByte fuel r).1.wf ∧ (Rdr.waitByte fuel r).1.pending = r.pending ∧
    ((Rdr.waitByte fuel r).2 = true → (Rdr.waitByte fuel r).1.buffered = 0 →
      Quiet r.src (Rdr.waitByte fuel r).1.src) ∧
    (pot r < fuel → (Rdr.waitByte fuel r).2 = false → (Rdr.waitByte fuel r).1.buffered ≠ 0) := by
  intro fuel
  induction fuel with
  | zero =>
    intro r h
    exact ⟨h, rfl, (fun hc => by cases hc), fun hc => absurd hc (Nat.not_lt_zero _)⟩
  | succ f ih =>
    intro r h
    obtain ⟨g, fw, fv, fsrc, fbuf, fnil, fpot, ferr, fg⟩ := fill_spec r h
    have hpend : (r.fill).1.pending = r.pending := by
      rw [pending_eq, pending_eq, fv, fsrc, List.append_assoc]
    rw [waitByte_succ]
    split
    · rename_i hb
      exact ⟨h, rfl, (fun hc => by cases hc), fun _ _ => hb⟩
    · rename_i hb
      have hb0 : r.buffered = 0 := by simpa using hb
      split
      · rename_i hc
        refine ⟨Or.inr fw, hpend, fun _ hz => ⟨[], ?_, ?_⟩, fun _ hcc => by cases hcc⟩
        · intro p hp; cases hp
        · have hg : g = [] := List.eq_nil_of_length_eq_zero (by simp only at hz; omega)
          rcases fg hg with hsrc | ⟨e, rest, hsrc, he, hr⟩
          · exact Or.inl ⟨hsrc, (fnil hsrc).2.2⟩
          · right
            rw [hc] at he
            rw [hsrc, hr, ← he]; rfl
      · rename_i hc
        obtain ⟨i1, i2, i3, i4⟩ := ih (r.fill).1 (Or.inr fw)
        have hsrcne : r.src ≠ [] := by
          intro hsrc
          exact hc (fnil hsrc).2.1
        refine ⟨i1, by rw [i2, hpend], fun ht hz => ?_, fun hp => i4 (by have := fpot hsrcne; omega)⟩
        obtain ⟨pre, j3, j4⟩ := i3 ht hz
        have hb1 := waitByte_true f _ ht
        have hg : g = [] := List.eq_nil_of_length_eq_zero (by omega)
        rcases fg hg with hsrc | ⟨e, rest, hsrc, he, hr⟩
        · exact absurd hsrc hsrcne
        · have hef : e = false := by
            cases e with
            | false => rfl
            | true => exact absurd he hc
          subst hef
          refine ⟨([], false) :: pre, ?_, ?_⟩
          · intro p hp
            rcases List.mem_cons.mp hp with rfl | hp
            · rfl
            · exact j3 p hp
          · rw [hsrc, ← hr]
            rcases j4 with ⟨k1, k2⟩ | k1
            · exact Or.inl ⟨by rw [k1], k2⟩
            · exact Or.inr (by rw [k1]; rfl)


theorem waitData_fuel_aux : ∀ (n m : Nat) (r : Rdr), r.wf → pot r < n → pot r < m →
    Rdr.waitData n r = Rdr.waitData m r := by
  intro n
  induction n with
  | zero => intro m r _ hn; omega
  | succ n ih =>
    intro m r h hn hm
    cases m with
    | zero => omega
    | succ m =>
      obtain ⟨g, fw, fv, fsrc, fbuf, fnil, fpot, ferr, fg⟩ := fill_spec r h
      rw [waitData_succ, waitData_succ]
      split
      · rfl
      · rename_i hb
        split
        · rfl
        · rename_i hc
          have hsrcne : r.src ≠ [] := by
            intro hsrc
            obtain ⟨hg, he, _⟩ := fnil hsrc
            exact hc ⟨he, by rw [fbuf, hg]; simpa using hb⟩
          have := fpot hsrcne
          exact ih m _ (Or.inr fw) (by omega) (by omega)

theorem waitByte_fuel_aux : ∀ (n m : Nat) (r : Rdr), r.wf → pot r < n → pot r < m →
    Rdr.waitByte n r = Rdr.waitByte m r := by
  intro n
  induction n with
  | zero => intro m r _ hn; omega
  | succ n ih =>
    intro m r h hn hm
    cases m with
    | zero => omega
    | succ m =>
      obtain ⟨g, fw, fv, fsrc, fbuf, fnil, fpot, ferr, fg⟩ := fill_spec r h
      rw [waitByte_succ, waitByte_succ]
      split
      · rfl
      · split
        · rfl
        · rename_i hc
          have hsrcne : r.src ≠ [] := fun hsrc => hc (fnil hsrc).2.1
          have := fpot hsrcne
          exact ih m _ (Or.inr fw) (by omega) (by omega)

theorem readPrintable_eq (cw : Nat → Nat) (r : Rdr) (maxW : Nat) : r.readPrintable cw maxW =
    if (Rdr.waitData r.fuel r).2 then ((Rdr.waitData r.fuel r).1, { err := true })
    else if (Rdr.waitData r.fuel r).1.buffered = 0 ∨ !(Rdr.waitData r.fuel r).1.firstPrintable then
      ((Rdr.waitData r.fuel r).1, {})
    else Rdr.runLoop cw maxW (Rdr.waitData r.fuel r).1.fuel (Rdr.waitData r.fuel r).1
      (Rdr.waitData r.fuel r).1.buf.start 0 := rfl

theorem readByte_eq (r : Rdr) : r.readByte =
    match (Rdr.waitByte r.fuel r).1.first with
    | none => ((Rdr.waitByte r.fuel r).1, none)
    | some b => ({ (Rdr.waitByte r.fuel r).1 with buf := (Rdr.waitByte r.fuel r).1.buf.consume 1 }, some b) := rfl

theorem readPrintable_post (cw : Nat → Nat) (r : Rdr) (maxW : Nat) (h : r.wf) :
    RunPost cw maxW r.pending True (r.readPrintable cw maxW).1 (r.readPrintable cw maxW).2 := by
  obtain ⟨w1, w2, w3, w4⟩ := waitData_spec r.fuel r h
  rw [readPrintable_eq]
  split
  · rename_i he
    obtain ⟨e1, e2, _⟩ := w3 he
    refine ⟨[], ⟨rfl, rfl, trivial, ?_, w1, (fun _ hb => by cases hb), fun _ => Or.inr (Nat.zero_le _),
      fun _ => ⟨rfl, e2, Or.inl e1⟩, (fun _ hc => by cases hc)⟩⟩
    rw [w2]; rfl
  · rename_i he
    split
    · rename_i hc
      refine ⟨[], ⟨rfl, rfl, trivial, ?_, w1, (fun _ hb => by cases hb), fun _ => Or.inr (Nat.zero_le _),
        (fun hc => by cases hc), fun _ _ => ?_⟩⟩
      · rw [w2]; rfl
      · rcases hc with hc | hc
        · exact Or.inl hc
        · exact Or.inr (Or.inl (by simpa using hc))
    · have := runLoop_spec (cw := cw) (maxW := maxW) (Rdr.waitData r.fuel r).1.fuel _ _ _ _
        (RunInv.fresh (cw := cw) (maxW := maxW) (Rdr.waitData r.fuel r).1 w1)
      rw [w2] at this
      obtain ⟨cs, h2⟩ := this
      exact ⟨cs, ⟨h2.text, h2.width, h2.heads, h2.stream, h2.wf, h2.printable, h2.limit, h2.err,
        fun _ => h2.stop (pot_lt_fuel _)⟩⟩


/-! ### progress: a run started on a printable byte does not come back empty-handed -/

def Live (r : Rdr) (rs wu : Nat) : Prop :=
  r.wf ∧ rs ≤ r.buf.start ∧ (rs = r.buf.start → r.firstPrintable = true ∧ wu = 0)

theorem finish_nonempty {r : Rdr} {rs wu : Nat} (h : r.wf) (hle : rs ≤ r.buf.start) (hne : rs ≠ r.buf.start) :
    (r.finish rs wu).2.text ≠ [] := by
  unfold Rdr.finish
  split
  · rename_i he; exact absurd he.symm hne
  · intro hc
    have hl := congrArg List.length hc
    simp only [List.length_drop, List.length_take, List.length_nil] at hl
    rcases h with ⟨_, h2, _⟩ | h
    · omega
    · have := h.1; have := h.2.1; omega

def StepLive : Step → Prop
  | .done res => res.2.err = true ∨ res.2.text ≠ []
  | .cont r' rs' wu' => Live r' rs' wu'

theorem stepOf_live {cw : Nat → Nat} {maxW : Nat} {r : Rdr} {rs wu : Nat} (h : Live r rs wu) :
    StepLive (stepOf cw maxW r rs wu) := by
  obtain ⟨hwf, hle, hlive⟩ := h
  obtain ⟨g, fw, fv, fsrc, fbuf, fnil, fpot, ferr, fg⟩ := fill_spec r hwf
  have hlen := view_len hwf
  unfold stepOf
  split
  · rename_i hge
    have hb0 : r.buffered = 0 := by unfold Rdr.buffered; omega
    have hne : rs ≠ r.buf.start := by
      intro hrs
      obtain ⟨b, v, hview, _⟩ := (firstPrintable_iff r).mp (hlive hrs).1
      rw [hview, hb0] at hlen
      simp at hlen
    rw [if_neg hne]
    exact Or.inr (finish_nonempty hwf hle hne)
  · rename_i hlt
    have hbw : r.buf.wf := buf_wf_of_buffered hwf (by unfold Rdr.buffered; omega)
    split
    · rename_i hnp
      have hne : rs ≠ r.buf.start := by
        intro hrs
        rw [(hlive hrs).1] at hnp
        simp at hnp
      exact Or.inr (finish_nonempty hwf hle hne)
    · split
      · split
        · rename_i hrs
          split
          · exact Or.inl rfl
          · refine ⟨Or.inr fw, Nat.le_refl _, fun _ => ⟨?_, (hlive hrs.symm).2⟩⟩
            obtain ⟨b, v, hview, hbp⟩ := (firstPrintable_iff r).mp (hlive hrs.symm).1
            exact (firstPrintable_iff _).mpr ⟨b, v ++ g, by rw [fv, hview]; rfl, hbp⟩
        · rename_i hrs
          exact Or.inr (finish_nonempty hwf hle (fun hc => hrs hc.symm))
      · rename_i c w hst
        split
        · rename_i hlim
          refine Or.inr (finish_nonempty hwf hle ?_)
          intro hrs
          have := (hlive hrs).2
          omega
        · have := (stepRune_some hst).1
          refine ⟨Or.inr (consume_view r.buf c hbw (stepRune_some hst).2.1).2, ?_, ?_⟩
          · show rs ≤ r.buf.start + c; omega
          · intro hc
            have : rs = r.buf.start + c := hc
            omega

theorem runLoop_live {cw : Nat → Nat} {maxW : Nat} : ∀ (fuel : Nat) (r : Rdr) (rs wu : Nat),
    Live r rs wu → pot r < fuel →
    (Rdr.runLoop cw maxW fuel r rs wu).2.err = true ∨ (Rdr.runLoop cw maxW fuel r rs wu).2.text ≠ [] := by
  intro fuel
  induction fuel with
  | zero => intro r rs wu _ hp; omega
  | succ f ih =>
    intro r rs wu h hp
    rw [runLoop_succ]
    have hs := stepOf_live (cw := cw) (maxW := maxW) h
    cases hst : stepOf cw maxW r rs wu with
    | done res => rw [hst] at hs; exact hs
    | cont r' rs' wu' =>
      rw [hst] at hs
      have := (stepOf_cont h.1 hst).2
      exact ih r' rs' wu' hs (by omega)

theorem takeWhile_of_split (p : UInt8 → Bool) : ∀ (T rest : Bytes), (∀ b ∈ T, p b = true) →
    (∀ b, rest.head? = some b → p b = false) → T = (T ++ rest).takeWhile p := by
  intro T
  induction T with
  | nil =>
    intro rest _ hr
    cases rest with
    | nil => rfl
    | cons b v => simp [hr b rfl]
  | cons a T ih =>
    intro rest hT hr
    have ha := hT a (List.mem_cons_self ..)
    simp only [List.cons_append, List.takeWhile, ha]
    rw [← ih rest (fun b hb => hT b (List.mem_cons_of_mem _ hb)) hr]


end Lemmas
open Lemmas

/-! ## R1 — `fill` conserves the stream -/

/-- The freshly created reader satisfies the invariant, and nothing is buffered. -/
theorem init_wf (script : List (Bytes × Bool)) :
    (Rdr.init script).wf ∧ (Rdr.init script).pending = srcBytes script :=
  ⟨Or.inl ⟨rfl, rfl, rfl⟩, rfl⟩

/-- **`fill` loses nothing and keeps the invariant**: buffered bytes followed by the bytes of the
script are the same before and after, whatever compaction, doubling or partial take happened. -/
theorem rdr_fill_conserves (r : Rdr) (h : r.wf) : (r.fill).1.pending = r.pending ∧ (r.fill).1.wf := by
  obtain ⟨g, fw, fv, fsrc, _⟩ := fill_spec r h
  exact ⟨by rw [pending_eq, pending_eq, fv, fsrc, List.append_assoc], Or.inr fw⟩

/-- **`fill` appends at the end, exactly what it takes from the script.** The buffered bytes grow
by `g`; `g` is the whole first entry (then the entry is gone and its error flag is returned) or,
when the free space is smaller than the entry, a non-empty proper prefix of it (the rest stays
first in the script, with its flag; no error is returned); an exhausted script gives nothing and
the flag `true` (EOF). -/
theorem rdr_fill_appends (r : Rdr) (h : r.wf) :
    ∃ g, (r.fill).1.buf.view = r.buf.view ++ g ∧ srcBytes r.src = g ++ srcBytes (r.fill).1.src ∧
      (r.src = [] ∧ g = [] ∧ (r.fill).1.src = [] ∧ (r.fill).2 = true ∨
       ∃ d e rest, r.src = (d, e) :: rest ∧
        (g = d ∧ (r.fill).1.src = rest ∧ (r.fill).2 = e ∨
         g ≠ [] ∧ g.length < d.length ∧ g = d.take g.length ∧
           (r.fill).1.src = (d.drop g.length, e) :: rest ∧ (r.fill).2 = false)) := by
  have hb := base_wf h
  have hv := base_view h
  have hroom := makeRoom_room_pos _ hb
  rw [rfill_eq]
  cases hs : r.src with
  | nil =>
    refine ⟨[], ?_, by simp, Or.inl ⟨rfl, rfl, rfl, rfl⟩⟩
    show ((base r).fill []).view = _
    rw [fill_nil _ hb, hv, List.append_nil]
  | cons p rest =>
    obtain ⟨d, e⟩ := p
    simp only
    split
    · rename_i hfit
      refine ⟨d, ?_, by simp, Or.inr ⟨d, e, rest, rfl, Or.inl ⟨rfl, rfl, rfl⟩⟩⟩
      show ((base r).fill d).view = _
      rw [fill_fits _ _ hb hfit, hv]
    · rename_i hfit
      have hgl : (d.take (base r).makeRoom.room).length = (base r).makeRoom.room := by
        simp only [List.length_take]; omega
      refine ⟨d.take (base r).makeRoom.room, ?_, ?_, Or.inr ⟨d, e, rest, rfl, Or.inr ⟨?_, ?_, ?_, ?_, rfl⟩⟩⟩
      · show ((base r).fill (d.take (base r).makeRoom.room)).view = _
        rw [fill_fits _ _ hb (by omega), hv]
      · simp only [srcBytes_cons]; rw [← List.append_assoc, List.take_append_drop]
      · intro hc; rw [hc] at hgl; simp at hgl; omega
      · rw [hgl]; omega
      · rw [hgl]
      · rw [hgl]

/-- **A returned error with nothing delivered means the source said so**: the script was
exhausted (EOF) or its first entry was an empty read flagged with an error. -/
theorem rdr_fill_error_no_data (r : Rdr) (h : r.wf) (he : (r.fill).2 = true)
    (hv : (r.fill).1.buf.view = r.buf.view) : r.src = [] ∨ ∃ rest, r.src = ([], true) :: rest := by
  obtain ⟨g, _, fv, _, _, _, _, ferr, _⟩ := fill_spec r h
  rw [hv] at fv
  exact ferr he (List.self_eq_append_right.mp fv)

/-- **Capacity**: 4096 on first use, afterwards unchanged unless the live bytes fill the whole
array, in which case it doubles. -/
theorem rdr_fill_capacity (r : Rdr) (h : r.wf) :
    (r.fill).1.buf.data.length =
      if r.buf.data.isEmpty then 4096
      else if r.buf.view.length = r.buf.data.length then 2 * r.buf.data.length else r.buf.data.length := by
  have hb := base_wf h
  obtain ⟨x, hx⟩ := fill_buf r
  rw [hx, C16.fill_capacity _ _ hb, makeRoom_capacity _ hb]
  unfold base
  split
  · rw [init_view, init_capacity]; rfl
  · rfl

/-- so the capacity is always `4096 * 2^k` -/
theorem rdr_fill_capacity_pow (r : Rdr) (h : r.wf)
    (hc : r.buf.data = [] ∨ ∃ k, r.buf.data.length = 4096 * 2 ^ k) :
    ∃ k, (r.fill).1.buf.data.length = 4096 * 2 ^ k := by
  rw [rdr_fill_capacity r h]
  split
  · exact ⟨0, rfl⟩
  · rename_i hd
    rcases hc with hc | ⟨k, hk⟩
    · simp [hc] at hd
    · split
      · exact ⟨k + 1, by rw [hk, Nat.pow_succ]; omega⟩
      · exact ⟨k, hk⟩

/-! ## R2 — `ReadByte` -/

/-- **`ReadByte` hands out the next byte of the stream**, whether it was buffered or had to be
read (also when it arrived together with an error), and keeps the invariant. -/
theorem readByte_some (r r' : Rdr) (b : UInt8) (h : r.wf) (hr : r.readByte = (r', some b)) :
    r.pending = b :: r'.pending ∧ r'.wf := by
  obtain ⟨w1, w2, _, _⟩ := waitByte_spec r.fuel r h
  rw [readByte_eq] at hr
  split at hr
  · cases hr
  · rename_i b0 hf
    cases hr
    unfold Rdr.first at hf
    have hne : (Rdr.waitByte r.fuel r).1.buffered ≠ 0 := by
      intro hc
      have := view_len w1
      rw [hc] at this
      rw [List.eq_nil_of_length_eq_zero this] at hf
      cases hf
    have hbw := buf_wf_of_buffered w1 hne
    cases hv : (Rdr.waitByte r.fuel r).1.buf.view with
    | nil => rw [hv] at hf; cases hf
    | cons b1 v =>
      rw [hv] at hf
      cases hf
      have hc := consume_view _ 1 hbw (by rw [hv]; simp)
      refine ⟨?_, Or.inr hc.2⟩
      rw [← w2, pending_eq, pending_eq]
      show _ = b :: ((((Rdr.waitByte r.fuel r).1.buf.consume 1).view) ++ _)
      rw [hc.1, hv]; rfl

/-- **`ReadByte` fails only at a read that reports an error (or EOF) and delivers nothing**, having
consumed nothing but empty reads: the script is `pre ++ ([], true) :: rest` (the loop stops at this
first error; `rest`, which may still hold bytes, is untouched) or just `pre` (EOF), where every
entry of `pre` is an empty read without error. Nothing is lost: `pending` is unchanged. -/
theorem readByte_none (r r' : Rdr) (h : r.wf) (hr : r.readByte = (r', none)) :
    r'.pending = r.pending ∧ r'.wf ∧ r'.buffered = 0 ∧
    ∃ pre, (∀ p ∈ pre, p = ([], false)) ∧ (r.src = pre ∧ r'.src = [] ∨ r.src = pre ++ ([], true) :: r'.src) := by
  obtain ⟨w1, w2, w3, w4⟩ := waitByte_spec r.fuel r h
  rw [readByte_eq] at hr
  split at hr
  · rename_i hf
    cases hr
    unfold Rdr.first at hf
    have hv : (Rdr.waitByte r.fuel r).1.buf.view = [] := by
      cases hv : (Rdr.waitByte r.fuel r).1.buf.view with
      | nil => rfl
      | cons b v => rw [hv] at hf; cases hf
    have hb0 : (Rdr.waitByte r.fuel r).1.buffered = 0 := by
      rw [← view_len w1, hv]; rfl
    refine ⟨w2, w1, hb0, ?_⟩
    cases he : (Rdr.waitByte r.fuel r).2 with
    | true => exact w3 he hb0
    | false => exact absurd hb0 (w4 (pot_lt_fuel r) he)
  · cases hr

/-! ## R3 — `ReadPrintableBytes` -/

/-- **Exactly once, in order**: the text returned followed by everything the reader will still
hand out is what it would have handed out before the call — across compaction, doubling, partial
takes and characters cut by the end of a read — and the invariant is kept. -/
theorem readPrintable_conservation (cw : Nat → Nat) (r : Rdr) (maxW : Nat) (h : r.wf) :
    r.pending = (r.readPrintable cw maxW).2.text ++ (r.readPrintable cw maxW).1.pending ∧
    (r.readPrintable cw maxW).1.wf := by
  obtain ⟨cs, hp⟩ := readPrintable_post cw r maxW h
  exact ⟨hp.stream, hp.wf⟩

/-- **Only printable bytes** are returned as text (control bytes are left for `ReadByte`). -/
theorem readPrintable_printable (cw : Nat → Nat) (r : Rdr) (maxW : Nat) (h : r.wf) :
    ∀ b ∈ (r.readPrintable cw maxW).2.text, isPrintableByte b = true := by
  obtain ⟨cs, hp⟩ := readPrintable_post cw r maxW h
  exact hp.printable

/-- **Whole characters of the stream.** The text is the concatenation of the first characters
`cs` of the tokenisation of the whole pending stream (each tokenised with what follows it in the
stream in view), and the width is the sum of their widths. What `clusters` makes of the stream
does not depend on how the stream is cut into reads. -/
theorem readPrintable_whole_characters (cw : Nat → Nat) (r : Rdr) (maxW : Nat) (h : r.wf) :
    ∃ cs rest, clusters cw r.pending = cs ++ rest ∧ Heads cw r.pending cs ∧
      (r.readPrintable cw maxW).2.text = flat cs ∧ (r.readPrintable cw maxW).2.width = ws cs := by
  obtain ⟨cs, hp⟩ := readPrintable_post cw r maxW h
  obtain ⟨rest, hr⟩ := heads_clustersAux cs r.pending r.pending.length hp.heads
    (heads_length cs _ hp.heads)
  exact ⟨cs, rest, hr, hp.heads, hp.text, hp.width⟩

/-- **Well-formed text** (`textWF`, hence `textOK`) whenever every character of the pending stream
tokenises on its own — e.g. for valid UTF-8. (Without the hypothesis it is false: see the
examples `truncated_*` below.) -/
theorem readPrintable_textWF (cw : Nat → Nat) (r : Rdr) (maxW : Nat) (h : r.wf)
    (hs : Toks cw (clusters cw r.pending)) :
    textWF cw (r.readPrintable cw maxW).2.text (r.readPrintable cw maxW).2.width = true := by
  obtain ⟨cs, rest, h1, _, h3, h4⟩ := readPrintable_whole_characters cw r maxW h
  rw [h1] at hs
  rw [h3, h4]
  exact textWF_flat hs.left

/-- **The width limit**: with a positive limit the run is at most `maxW` cells wide, unless it is
the single first character of the stream (which is returned even when wider). -/
theorem readPrintable_width_limit (cw : Nat → Nat) (r : Rdr) (maxW : Nat) (h : r.wf) (hm : 0 < maxW) :
    (r.readPrintable cw maxW).2.width ≤ maxW ∨
    stepRune cw r.pending = some ((r.readPrintable cw maxW).2.text.length, (r.readPrintable cw maxW).2.width) := by
  obtain ⟨cs, hp⟩ := readPrintable_post cw r maxW h
  rcases hp.limit hm with hl | hl
  · exact Or.inl hl
  · rcases cs with _ | ⟨p, _ | ⟨q, cs⟩⟩
    · left; rw [hp.width]; simp
    · right
      rw [hp.text, hp.width]
      simpa using hp.heads.1
    · simp at hl

/-- **Errors.** An error is reported with an empty text and width 0, nothing is lost, and it is
reported only when the last `fill()` got an error (or EOF) and no data from the source
(`ErrStop`) while the buffer held nothing to hand out: nothing at all, or only the beginning of
an incomplete character. -/
theorem readPrintable_error (cw : Nat → Nat) (r : Rdr) (maxW : Nat) (h : r.wf)
    (he : (r.readPrintable cw maxW).2.err = true) :
    (r.readPrintable cw maxW).2.text = [] ∧ (r.readPrintable cw maxW).2.width = 0 ∧
    (r.readPrintable cw maxW).1.pending = r.pending ∧ ErrStop (r.readPrintable cw maxW).1 ∧
    ((r.readPrintable cw maxW).1.buffered = 0 ∨
      stepRune cw (r.readPrintable cw maxW).1.buf.view = none) := by
  obtain ⟨cs, hp⟩ := readPrintable_post cw r maxW h
  obtain ⟨e1, e2, e3⟩ := hp.err he
  subst e1
  have ht : (r.readPrintable cw maxW).2.text = [] := hp.text
  refine ⟨ht, hp.width, ?_, e2, e3⟩
  have := hp.stream
  rw [ht] at this
  exact this.symm

/-- **Maximality.** A run without error stops only for one of these reasons: the buffer is
exhausted; the next buffered byte is not printable; the buffer continues with an incomplete
character (and the run is not empty: otherwise the loop refills); the next character would
exceed the width limit (and the run is not empty). -/
theorem readPrintable_maximal (cw : Nat → Nat) (r : Rdr) (maxW : Nat) (h : r.wf)
    (he : (r.readPrintable cw maxW).2.err = false) :
    StopR cw maxW (r.readPrintable cw maxW).1 (r.readPrintable cw maxW).2 := by
  obtain ⟨cs, hp⟩ := readPrintable_post cw r maxW h
  exact hp.stop trivial he

/-! ## R4 — fuel -/

/-- `Rdr.fuel` bounds the potential that every iteration decreases. -/
theorem pot_lt_fuel (r : Rdr) : pot r < r.fuel := Lemmas.pot_lt_fuel r

/-- **The main loop stops by itself**: any two amounts of fuel above the potential (in particular
any two `≥ r.fuel`) give the same result, from any state of the run. -/
theorem runLoop_fuel (cw : Nat → Nat) (maxW : Nat) (r : Rdr) (rs wu n m : Nat) (h : r.wf)
    (hn : r.fuel ≤ n) (hm : r.fuel ≤ m) :
    Rdr.runLoop cw maxW n r rs wu = Rdr.runLoop cw maxW m r rs wu := by
  have := Lemmas.pot_lt_fuel r
  exact runLoop_fuel_aux n m r rs wu h (by omega) (by omega)

theorem waitData_fuel (r : Rdr) (n m : Nat) (h : r.wf) (hn : r.fuel ≤ n) (hm : r.fuel ≤ m) :
    Rdr.waitData n r = Rdr.waitData m r := by
  have := Lemmas.pot_lt_fuel r
  exact waitData_fuel_aux n m r h (by omega) (by omega)

theorem waitByte_fuel (r : Rdr) (n m : Nat) (h : r.wf) (hn : r.fuel ≤ n) (hm : r.fuel ≤ m) :
    Rdr.waitByte n r = Rdr.waitByte m r := by
  have := Lemmas.pot_lt_fuel r
  exact waitByte_fuel_aux n m r h (by omega) (by omega)

/-- The refill loop of `ReadPrintableBytes` is not cut short by the fuel: it ends with data
buffered or with an error. -/
theorem waitData_ends (r : Rdr) (h : r.wf) :
    (Rdr.waitData r.fuel r).2 = true ∧ (Rdr.waitData r.fuel r).1.buffered = 0 ∨
    (Rdr.waitData r.fuel r).2 = false ∧ (Rdr.waitData r.fuel r).1.buffered ≠ 0 := by
  obtain ⟨_, _, w3, w4⟩ := waitData_spec r.fuel r h
  cases he : (Rdr.waitData r.fuel r).2 with
  | true => exact Or.inl ⟨rfl, (w3 he).1⟩
  | false => exact Or.inr ⟨rfl, w4 (Lemmas.pot_lt_fuel r) he⟩

/-- **Progress.** A call that reports no error and returns no text leaves a control byte first
in the buffer (for `ReadByte` to take): a run never comes back empty-handed for any other
reason — not because a read returned nothing, not because a character was cut by the end of a
read. -/
theorem readPrintable_progress (cw : Nat → Nat) (r : Rdr) (maxW : Nat) (h : r.wf)
    (he : (r.readPrintable cw maxW).2.err = false) (ht : (r.readPrintable cw maxW).2.text = []) :
    ∃ b v, (r.readPrintable cw maxW).1.buf.view = b :: v ∧ isPrintableByte b = false ∧
      (r.readPrintable cw maxW).1.pending = r.pending := by
  obtain ⟨w1, w2, w3, w4⟩ := waitData_spec r.fuel r h
  rw [readPrintable_eq] at he ht ⊢
  split at he
  · cases he
  · rename_i hwe
    have hwe' : (Rdr.waitData r.fuel r).2 = false := by simpa using hwe
    have hne := w4 (Lemmas.pot_lt_fuel r) hwe'
    rw [if_neg hwe] at ht ⊢
    split at he
    · rename_i hc
      rw [if_pos hc] at ht ⊢
      have hfp : (Rdr.waitData r.fuel r).1.firstPrintable = false := by
        rcases hc with hc | hc
        · exact absurd hc hne
        · simpa using hc
      have hl := view_len w1
      cases hv : (Rdr.waitData r.fuel r).1.buf.view with
      | nil => rw [hv] at hl; exact absurd hl.symm hne
      | cons b v =>
        refine ⟨b, v, rfl, ?_, w2⟩
        simpa [Rdr.firstPrintable, Rdr.first, hv] using hfp
    · rename_i hc
      rw [if_neg hc] at ht
      have hfp : (Rdr.waitData r.fuel r).1.firstPrintable = true := by
        cases hq : (Rdr.waitData r.fuel r).1.firstPrintable with
        | true => rfl
        | false => exact absurd (Or.inr (by simp [hq])) hc
      have := runLoop_live (cw := cw) (maxW := maxW) (Rdr.waitData r.fuel r).1.fuel
        (Rdr.waitData r.fuel r).1 (Rdr.waitData r.fuel r).1.buf.start 0
        ⟨w1, Nat.le_refl _, fun _ => ⟨hfp, rfl⟩⟩ (Lemmas.pot_lt_fuel _)
      rcases this with hx | hx
      · rw [hx] at he; cases he
      · exact absurd ht hx

/-! ## R5 — sequences of calls; independence of the reads -/

/-- a call of the parser on the reader -/
inductive Call
  | byte
  | run (maxW : Nat)

/-- the reader after a sequence of calls, and all the bytes they returned, in order -/
def runCalls (cw : Nat → Nat) : Rdr → List Call → Rdr × Bytes
  | r, [] => (r, [])
  | r, .byte :: cs =>
    ((runCalls cw (r.readByte).1 cs).1, (r.readByte).2.toList ++ (runCalls cw (r.readByte).1 cs).2)
  | r, .run m :: cs =>
    ((runCalls cw (r.readPrintable cw m).1 cs).1,
      (r.readPrintable cw m).2.text ++ (runCalls cw (r.readPrintable cw m).1 cs).2)

/-- **Every byte exactly once and in order, over any sequence of calls**: what the calls returned,
followed by what the reader will still hand out, is what it would have handed out at the start. -/
theorem calls_conservation (cw : Nat → Nat) : ∀ (calls : List Call) (r : Rdr), r.wf →
    (runCalls cw r calls).2 ++ (runCalls cw r calls).1.pending = r.pending ∧ (runCalls cw r calls).1.wf := by
  intro calls
  induction calls with
  | nil => intro r h; exact ⟨rfl, h⟩
  | cons c cs ih =>
    intro r h
    cases c with
    | byte =>
      simp only [runCalls]
      rcases hr : r.readByte with ⟨r1, ob⟩
      cases ob with
      | none =>
        obtain ⟨a1, a2, _⟩ := readByte_none r r1 h hr
        obtain ⟨i1, i2⟩ := ih r1 a2
        exact ⟨by simpa [a1] using i1, i2⟩
      | some b =>
        obtain ⟨a1, a2⟩ := readByte_some r r1 b h hr
        obtain ⟨i1, i2⟩ := ih r1 a2
        refine ⟨?_, i2⟩
        rw [a1, ← i1]; rfl
    | run m =>
      simp only [runCalls]
      obtain ⟨a1, a2⟩ := readPrintable_conservation cw r m h
      obtain ⟨i1, i2⟩ := ih _ a2
      refine ⟨?_, i2⟩
      rw [List.append_assoc, i1, ← a1]

/-- the bytes returned by any sequence of calls are a prefix of the stream -/
theorem calls_prefix (cw : Nat → Nat) (calls : List Call) (r : Rdr) (h : r.wf) :
    (runCalls cw r calls).2 <+: r.pending :=
  ⟨_, (calls_conservation cw calls r h).1⟩

/-- all the calls are `ReadPrintableBytes` -/
def allRuns (calls : List Call) : Prop := ∀ c ∈ calls, ∃ m, c = Call.run m

theorem runs_printable (cw : Nat → Nat) : ∀ (calls : List Call) (r : Rdr), r.wf → allRuns calls →
    ∀ b ∈ (runCalls cw r calls).2, isPrintableByte b = true := by
  intro calls
  induction calls with
  | nil => intro r _ _ b hb; cases hb
  | cons c cs ih =>
    intro r h ha b hb
    obtain ⟨m, rfl⟩ := ha c (List.mem_cons_self ..)
    simp only [runCalls] at hb
    rcases List.mem_append.mp hb with hb | hb
    · exact readPrintable_printable cw r m h b hb
    · exact ih _ (readPrintable_conservation cw r m h).2 (fun c hc => ha c (List.mem_cons_of_mem _ hc)) b hb

/-- **The runs do not depend on how the stream is cut into reads.** Whatever the script (read
sizes, empty reads, error flags) and whatever width limits are used: once a sequence of
`ReadPrintableBytes` calls has brought a control byte (or the end of the stream) to the front,
the concatenation of the texts returned is exactly the printable prefix of the byte stream. -/
theorem runs_text (cw : Nat → Nat) (calls : List Call) (r : Rdr) (h : r.wf) (ha : allRuns calls)
    (hd : ∀ b, (runCalls cw r calls).1.pending.head? = some b → isPrintableByte b = false) :
    (runCalls cw r calls).2 = r.pending.takeWhile isPrintableByte := by
  rw [← (calls_conservation cw calls r h).1]
  exact takeWhile_of_split _ _ _ (runs_printable cw calls r h ha) hd

/-- two readers over the same byte stream, cut into reads in two different ways -/
theorem runs_independent (cw : Nat → Nat) (c1 c2 : List Call) (r1 r2 : Rdr) (h1 : r1.wf) (h2 : r2.wf)
    (hs : r1.pending = r2.pending) (ha1 : allRuns c1) (ha2 : allRuns c2)
    (hd1 : ∀ b, (runCalls cw r1 c1).1.pending.head? = some b → isPrintableByte b = false)
    (hd2 : ∀ b, (runCalls cw r2 c2).1.pending.head? = some b → isPrintableByte b = false) :
    (runCalls cw r1 c1).2 = (runCalls cw r2 c2).2 := by
  rw [runs_text cw c1 r1 h1 ha1 hd1, runs_text cw c2 r2 h2 ha2 hd2, hs]

/-! ## capacity through the calls -/

/-- the capacity is `4096 * 2^k` (or the buffer is not allocated yet) -/
def CapOK (r : Rdr) : Prop := r.buf.data = [] ∨ ∃ k, r.buf.data.length = 4096 * 2 ^ k

theorem capOK_fill (r : Rdr) (h : r.wf) (hc : CapOK r) : CapOK (r.fill).1 :=
  Or.inr (rdr_fill_capacity_pow r h hc)

theorem finish_fst (r : Rdr) (rs wu : Nat) : (r.finish rs wu).1 = r := by
  unfold Rdr.finish; split <;> rfl

def StepCap : Lemmas.Step → Prop
  | .done res => CapOK res.1
  | .cont r' _ _ => CapOK r'

theorem stepOf_cap (cw : Nat → Nat) (maxW : Nat) (r : Rdr) (rs wu : Nat) (h : r.wf) (hc : CapOK r) :
    StepCap (stepOf cw maxW r rs wu) := by
  have hf := capOK_fill r h hc
  have hfin : CapOK (r.finish rs wu).1 := by rw [finish_fst]; exact hc
  unfold stepOf
  repeat' split
  all_goals first | exact hf | exact hfin | exact hc

theorem runLoop_cap (cw : Nat → Nat) (maxW : Nat) : ∀ (fuel : Nat) (r : Rdr) (rs wu : Nat), r.wf → CapOK r →
    CapOK (Rdr.runLoop cw maxW fuel r rs wu).1 := by
  intro fuel
  induction fuel with
  | zero => intro r rs wu _ hc; rw [Rdr.runLoop, finish_fst]; exact hc
  | succ f ih =>
    intro r rs wu h hc
    rw [runLoop_succ]
    have hs := stepOf_cap cw maxW r rs wu h hc
    cases hst : stepOf cw maxW r rs wu with
    | done res => rw [hst] at hs; exact hs
    | cont r' rs' wu' => rw [hst] at hs; exact ih r' rs' wu' (stepOf_cont h hst).1 hs

theorem waitData_cap : ∀ (fuel : Nat) (r : Rdr), r.wf → CapOK r → CapOK (Rdr.waitData fuel r).1 := by
  intro fuel
  induction fuel with
  | zero => intro r _ hc; exact hc
  | succ f ih =>
    intro r h hc
    rw [waitData_succ]
    split
    · exact hc
    · split
      · exact capOK_fill r h hc
      · exact ih _ (rdr_fill_conserves r h).2 (capOK_fill r h hc)

theorem waitByte_cap : ∀ (fuel : Nat) (r : Rdr), r.wf → CapOK r → CapOK (Rdr.waitByte fuel r).1 := by
  intro fuel
  induction fuel with
  | zero => intro r _ hc; exact hc
  | succ f ih =>
    intro r h hc
    rw [waitByte_succ]
    split
    · exact hc
    · split
      · exact capOK_fill r h hc
      · exact ih _ (rdr_fill_conserves r h).2 (capOK_fill r h hc)

/-- **The capacity stays `4096 * 2^k`** through `ReadPrintableBytes` and `ReadByte`. -/
theorem readPrintable_capacity (cw : Nat → Nat) (r : Rdr) (maxW : Nat) (h : r.wf) (hc : CapOK r) :
    CapOK (r.readPrintable cw maxW).1 := by
  have hw := waitData_cap r.fuel r h hc
  rw [readPrintable_eq]
  split
  · exact hw
  · split
    · exact hw
    · exact runLoop_cap cw maxW _ _ _ _ (waitData_spec r.fuel r h).1 hw

theorem readByte_capacity (r : Rdr) (h : r.wf) (hc : CapOK r) : CapOK (r.readByte).1 := by
  have hw := waitByte_cap r.fuel r h hc
  rw [readByte_eq]
  split
  · exact hw
  · exact hw

/-- so every reader reached from `Rdr.init` by any sequence of calls has such a capacity -/
theorem calls_capacity (cw : Nat → Nat) : ∀ (calls : List Call) (r : Rdr), r.wf → CapOK r →
    CapOK (runCalls cw r calls).1 := by
  intro calls
  induction calls with
  | nil => intro r _ hc; exact hc
  | cons c cs ih =>
    intro r h hc
    cases c with
    | byte =>
      simp only [runCalls]
      refine ih _ ?_ (readByte_capacity r h hc)
      rcases hr : r.readByte with ⟨r1, ob⟩
      cases ob with
      | none => exact (readByte_none r r1 h hr).2.1
      | some b => exact (readByte_some r r1 b h hr).2
    | run m =>
      simp only [runCalls]
      exact ih _ (readPrintable_conservation cw r m h).2 (readPrintable_capacity cw r m h hc)


/-! ## non-vacuity -/
section Examples

/-- width 2 from U+1100 on -/
def cw0 : Nat → Nat := fun c => if c ≥ 0x1100 then 2 else 1

/-- `a`, then U+4E2D cut after its first byte by the end of the first read, then LF -/
def cut1 : Rdr := Rdr.init [([0x61, 0xE4], false), ([0xB8, 0xAD, 0x0A], false)]
/-- the stream of `cut1` cut differently: inside the character twice, and before the LF -/
def cut3 : Rdr := Rdr.init [([0x61, 0xE4, 0xB8], false), ([], false), ([0xAD], false), ([0x0A], true)]
/-- another stream, with the cut character first -/
def cut2 : Rdr := Rdr.init [([0xE4], false), ([0xB8, 0xAD, 0x61, 0x0A], false)]

example : cut1.wf ∧ cut2.wf := ⟨(init_wf _).1, (init_wf _).1⟩

set_option maxRecDepth 100000 in
/-- a character cut by the end of a read is not handed out in pieces: the first call returns the
`a` before it (the loop does not refill in the middle of a run), the second call refills and
returns the whole character, width 2; then the control byte is next -/
example : (cut1.readPrintable cw0 0).2 = ⟨[0x61], 1, false⟩ ∧
    ((cut1.readPrintable cw0 0).1.readPrintable cw0 0).2 = ⟨[0xE4, 0xB8, 0xAD], 2, false⟩ ∧
    (runCalls cw0 cut1 [.run 0, .run 0, .run 0, .byte, .byte]).2 = [0x61, 0xE4, 0xB8, 0xAD, 0x0A] ∧
    (runCalls cw0 cut1 [.run 0, .run 0, .run 0, .byte, .byte]).1.pending = [] := by decide

set_option maxRecDepth 100000 in
/-- with the cut character first, one call returns `中a`, width 3 (the run starts with a refill) -/
example : (cut2.readPrintable cw0 0).2 = ⟨[0xE4, 0xB8, 0xAD, 0x61], 3, false⟩ ∧
    (cut2.readPrintable cw0 0).1.pending = [0x0A] := by decide

set_option maxRecDepth 100000 in
/-- the two ways of cutting the stream give the same concatenation (`runs_independent`), its
hypotheses hold here -/
example : (runCalls cw0 cut1 [.run 0, .run 0]).2 = (runCalls cw0 cut3 [.run 1, .run 1]).2 ∧
    cut1.pending = cut3.pending ∧ cut3.wf ∧
    (runCalls cw0 cut1 [.run 0, .run 0]).1.pending.head? = some 0x0A ∧
    (runCalls cw0 cut3 [.run 1, .run 1]).1.pending.head? = some 0x0A ∧ isPrintableByte 0x0A = false :=
  ⟨by decide, by decide, (init_wf _).1, by decide, by decide, by decide⟩

set_option maxRecDepth 100000 in
/-- the width limit: `中a` with limit 2 is returned in two runs; a limit of 1 still returns the
wide character alone -/
example : (cut2.readPrintable cw0 2).2 = ⟨[0xE4, 0xB8, 0xAD], 2, false⟩ ∧
    (cut2.readPrintable cw0 1).2 = ⟨[0xE4, 0xB8, 0xAD], 2, false⟩ := by decide

set_option maxRecDepth 100000 in
/-- errors: data that comes with an error is handed out first; an error without data is
reported; the scripted source goes on after it -/
example : ((Rdr.init [([0x61], true)]).readPrintable cw0 0).2 = ⟨[0x61], 1, false⟩ ∧
    ((Rdr.init [([], false), ([], true), ([0x62], false)]).readPrintable cw0 0).2 = ⟨[], 0, true⟩ ∧
    ((Rdr.init [([], false), ([], true), ([0x62], false)]).readPrintable cw0 0).1.pending = [0x62] ∧
    ((Rdr.init [([], false), ([], true), ([0x62], false)]).readByte).2 = none ∧
    ((Rdr.init [([], false), ([0x62], true)]).readByte).2 = some 0x62 ∧
    ((Rdr.init []).readByte).2 = none := by decide

set_option maxRecDepth 100000 in
/-- an error while the buffer holds the beginning of a character: reported, nothing lost -/
example : ((Rdr.init [([0xE4], false), ([], true)]).readPrintable cw0 0).2 = ⟨[], 0, true⟩ ∧
    ((Rdr.init [([0xE4], false), ([], true)]).readPrintable cw0 0).1.pending = [0xE4] := by decide

set_option maxRecDepth 100000 in
/-- `truncated_1`: the text is NOT always a sequence of characters on its own (`textOK` fails):
`E4` followed by a control byte is a complete (invalid) character for `utf8.FullRune`, of the
width of U+FFFD, but alone it is an incomplete character -/
example : ((Rdr.init [([0xE4, 0x0A], false)]).readPrintable cw0 0).2 = ⟨[0xE4], 2, false⟩ ∧
    clusters cw0 [0xE4] = [] ∧ textOK cw0 [0xE4] 2 = false := by decide

set_option maxRecDepth 100000 in
/-- `truncated_2`: the same in the middle of a printable stream, by the width limit -/
example : ((Rdr.init [([0xF0, 0x90, 0x41], false)]).readPrintable cw0 2).2 = ⟨[0xF0], 2, false⟩ ∧
    textOK cw0 [0xF0] 2 = false := by decide

/-- the hypothesis of `readPrintable_textWF` holds for a valid UTF-8 stream -/
example : Toks cw0 (clusters cw0 cut1.pending) := by
  intro p hp
  have : clusters cw0 cut1.pending = [([0x61], 1), ([0xE4, 0xB8, 0xAD], 2), ([0x0A], 1)] := by decide
  rw [this] at hp
  simp only [List.mem_cons, List.not_mem_nil, or_false] at hp
  rcases hp with rfl | rfl | rfl <;> decide

set_option maxRecDepth 100000 in
/-- a partial take: a read offering more than the free space leaves the rest, with its flag,
first in the script and reports no error yet -/
example : ((Rdr.init [(List.replicate 5000 0x61, true)]).fill).2 = false ∧
    ((Rdr.init [(List.replicate 5000 0x61, true)]).fill).1.src = [(List.replicate 904 0x61, true)] ∧
    ((Rdr.init [(List.replicate 5000 0x61, true)]).fill).1.buffered = 4096 := by decide

end Examples

end TM.C16Reader

#print axioms TM.C16Reader.init_wf
#print axioms TM.C16Reader.rdr_fill_conserves
#print axioms TM.C16Reader.rdr_fill_appends
#print axioms TM.C16Reader.rdr_fill_error_no_data
#print axioms TM.C16Reader.rdr_fill_capacity
#print axioms TM.C16Reader.rdr_fill_capacity_pow
#print axioms TM.C16Reader.readByte_some
#print axioms TM.C16Reader.readByte_none
#print axioms TM.C16Reader.readPrintable_conservation
#print axioms TM.C16Reader.readPrintable_printable
#print axioms TM.C16Reader.readPrintable_whole_characters
#print axioms TM.C16Reader.readPrintable_textWF
#print axioms TM.C16Reader.readPrintable_width_limit
#print axioms TM.C16Reader.readPrintable_error
#print axioms TM.C16Reader.readPrintable_maximal
#print axioms TM.C16Reader.readPrintable_progress
#print axioms TM.C16Reader.pot_lt_fuel
#print axioms TM.C16Reader.runLoop_fuel
#print axioms TM.C16Reader.waitData_fuel
#print axioms TM.C16Reader.waitByte_fuel
#print axioms TM.C16Reader.waitData_ends
#print axioms TM.C16Reader.calls_conservation
#print axioms TM.C16Reader.calls_prefix
#print axioms TM.C16Reader.runs_printable
#print axioms TM.C16Reader.runs_text
#print axioms TM.C16Reader.runs_independent
#print axioms TM.C16Reader.readPrintable_capacity
#print axioms TM.C16Reader.readByte_capacity
#print axioms TM.C16Reader.calls_capacity
