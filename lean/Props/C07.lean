import TM.Term
/-!
# C07 — the current rendition is the left-to-right fold of all SGR parameters

Model: `TM.applySGR` / `TM.sgrSimple` / `TM.Style.*` (`style.go`, `case 'm'` of `escapes.go`), the
`CSI … m` row of `TM.Term.csiPlain`, and the cell writers of `TM/Screen.lean`.

Part A gives a readable specification (`Mode`, `AColor`, `AStyle`, `Sgr.simple`, `Sgr.fold`), the
decoding `abs : Style → AStyle` of the packed words and the invariant `Style.valid`.

Part B:
* B1 `sgrSimple_refines`, `packed_refines` (no hypothesis on the start style, every `Int`, every
  length, truncated forms), `applySGR_valid`, `reachable_valid`, `init_style_valid`;
* B2 `abs_injective` (+ `abs_injective_words`) on valid styles;
* B3 `setMode_testMode`, `resetMode_testMode`, `setMode_out_of_range`, `setMode_color_frame`,
  `resetMode_color_frame`, `set/resetMode_absColor`, `setColor_testMode`, `abs_setColor256/Bright/
  RGB/Default`, `setColor256/Bright_reject`, `blackish_abs(_bg)`, `blackish_packed_distinct`,
  `mode_code_roundtrip`;
* B4 `sgr_dispatch`, `sgr_dispatch_apply`, `sgr_dispatch_abs`, `written_cell`, `written_style`,
  `erased_cell`, `eraseRegion_cell`, end-to-end `sgr_then_erase_line`, `put_style_provenance`,
  `sgr_then_text_provenance`, and the restricted `put_cell_partial`, `sgr_then_text_partial`;
* B5 `sgr_reset`, `sgr_zero`, `sgr_append` (side condition `Sgr.closed`), `sgr_foldl`.
All bit-level proofs are kernel-only (`getLsbD` extensionality, `omega`, finite `decide`).
-/
namespace TM.C07
open TM

/-! ## Part A — specification -/

/-- the thirteen modes of `style.go` -/
inductive Mode
  | bold | dim | italic | underline | blink | reverse | invisible | strike | overline
  | doubleUnderline | framed | encircled | rapidBlink
deriving DecidableEq, Repr

/-- bit index of a mode in the Go constant block (`ModeBold Mode = 1 << iota …`) -/
def Mode.bit : Mode → Nat
  | .bold => 0 | .dim => 1 | .italic => 2 | .underline => 3 | .blink => 4 | .reverse => 5
  | .invisible => 6 | .strike => 7 | .overline => 8 | .doubleUnderline => 9 | .framed => 10
  | .encircled => 11 | .rapidBlink => 12

def Mode.ofBit : Nat → Mode
  | 0 => .bold | 1 => .dim | 2 => .italic | 3 => .underline | 4 => .blink | 5 => .reverse
  | 6 => .invisible | 7 => .strike | 8 => .overline | 9 => .doubleUnderline | 10 => .framed
  | 11 => .encircled | _ => .rapidBlink

def Mode.all : List Mode :=
  [.bold, .dim, .italic, .underline, .blink, .reverse, .invisible, .strike, .overline,
   .doubleUnderline, .framed, .encircled, .rapidBlink]

/-- a colour as the frontend distinguishes it -/
inductive AColor
  | dflt
  | idx (n : Nat)        -- palette entry 0–255 (30–37 / 40–47 give 0–7)
  | bright (n : Nat)     -- 90–97 / 100–107 give 0–7
  | rgb (r g b : Nat)
deriving DecidableEq, Repr

structure AStyle where
  fg : AColor
  bg : AColor
  modes : Mode → Bool

def AStyle.default : AStyle := ⟨.dflt, .dflt, fun _ => false⟩

/-- switch one mode on; nothing else changes -/
def AStyle.on (a : AStyle) (m : Mode) : AStyle :=
  { a with modes := fun k => if k = m then true else a.modes k }

/-- switch the listed modes off; nothing else changes -/
def AStyle.off (a : AStyle) (ms : List Mode) : AStyle :=
  { a with modes := fun k => if k ∈ ms then false else a.modes k }

def AStyle.setColor (a : AStyle) (c : Comp) (v : AColor) : AStyle :=
  match c with
  | .fg => { a with fg := v }
  | .bg => { a with bg := v }

/-- effect of one SGR code that stands alone — the property's list of codes -/
def Sgr.simple (a : AStyle) (p : Int) : AStyle :=
  if p = 0 then AStyle.default
  else if p = 1 then a.on .bold
  else if p = 2 then a.on .dim
  else if p = 3 then a.on .italic
  else if p = 4 then a.on .underline
  else if p = 5 then a.on .blink
  else if p = 6 then a.on .rapidBlink
  else if p = 7 then a.on .reverse
  else if p = 8 then a.on .invisible
  else if p = 9 then a.on .strike
  else if p = 21 then a.on .doubleUnderline
  else if p = 51 then a.on .framed
  else if p = 52 then a.on .encircled
  else if p = 53 then a.on .overline
  else if p = 22 then a.off [.bold, .dim]
  else if p = 23 then a.off [.italic]
  else if p = 24 then a.off [.underline, .doubleUnderline]
  else if p = 25 then a.off [.blink, .rapidBlink]
  else if p = 27 then a.off [.reverse]
  else if p = 28 then a.off [.invisible]
  else if p = 29 then a.off [.strike]
  else if p = 54 then a.off [.framed, .encircled]
  else if p = 55 then a.off [.overline]
  else if 30 ≤ p ∧ p ≤ 37 then a.setColor .fg (.idx (p - 30).toNat)
  else if 40 ≤ p ∧ p ≤ 47 then a.setColor .bg (.idx (p - 40).toNat)
  else if 90 ≤ p ∧ p ≤ 97 then a.setColor .fg (.bright (p - 90).toNat)
  else if 100 ≤ p ∧ p ≤ 107 then a.setColor .bg (.bright (p - 100).toNat)
  else if p = 39 then a.setColor .fg .dflt
  else if p = 49 then a.setColor .bg .dflt
  else a                                         -- every other code is ignored

/-- the colour selected by the parameters that follow `38` / `48`, and how many of them it uses:
    `5;n` (2 parameters) or `2;r;g;b` (4 parameters); each value is taken modulo 256.
    `none` when the form is unknown or truncated. -/
def Sgr.extended : List Int → Option (AColor × Nat)
  | a :: n :: tl =>
    if a = 5 then some (.idx (n % 256).toNat, 2)
    else if a = 2 then
      match tl with
      | g :: b :: _ => some (.rgb (n % 256).toNat (g % 256).toNat (b % 256).toNat, 4)
      | _ => none
    else none
  | _ => none

/-- left-to-right fold of a whole parameter list. `38` / `48` followed by a complete extended
    form consume it; otherwise the `38` / `48` alone is dropped and nothing is skipped. -/
def Sgr.fold (a : AStyle) : List Int → AStyle
  | [] => a
  | p :: rest =>
    if p = 38 ∨ p = 48 then
      match Sgr.extended rest with
      | some (col, k) => Sgr.fold (a.setColor (if p = 48 then .bg else .fg) col) (rest.drop k)
      | none => Sgr.fold a rest
    else Sgr.fold (Sgr.simple a p) rest
termination_by ps => ps.length
decreasing_by all_goals (simp_wf; try omega)

/-! ### decoding the packed words -/

/-- colour payload: bits 0–23 -/
def payload (w : BitVec 32) : Nat := w.toNat % 2 ^ 24

/-- bit 31 set: 24-bit RGB; otherwise `0x100` default, `< 0x100` palette, `0x200 ||| i` bright -/
def absColor (w : BitVec 32) : AColor :=
  let p := payload w
  if w.getLsbD 31 then .rgb (p / 65536) (p / 256 % 256) (p % 256)
  else if p = 0x100 then .dflt
  else if p < 0x100 then .idx p
  else .bright (p % 8)

def abs (s : Style) : AStyle := ⟨absColor s.fg, absColor s.bg, fun m => s.testMode m.bit⟩

/-- reachable colour words (bits 24–30 are not constrained here: they hold modes) -/
def colValid (w : BitVec 32) : Prop :=
  w.getLsbD 31 = true ∨ payload w = 0x100 ∨ payload w < 0x100 ∨
    (0x200 ≤ payload w ∧ payload w < 0x208)

instance (w : BitVec 32) : Decidable (colValid w) := by unfold colValid; infer_instance

/-- invariant of every style reachable from `Style.default` by SGR: both colour words are of one
    of the four shapes, bit 30 of `bg` (no mode lives there) is clear, and `ul` is never touched -/
def Style.valid (s : Style) : Prop :=
  colValid s.fg ∧ colValid s.bg ∧ s.bg.getLsbD 30 = false ∧ s.ul = colDefault

instance (s : Style) : Decidable (Style.valid s) := by unfold Style.valid; infer_instance

/-! ## Lemmas — bits of the packed words -/
namespace Lemmas

theorem testBit_lt_of_le {x n j : Nat} (hx : x < 2 ^ n) (h : n ≤ j) : x.testBit j = false :=
  Nat.testBit_lt_two_pow (Nat.lt_of_lt_of_le hx (Nat.pow_le_pow_right (by decide) h))

theorem getLsbD_7F (j : Nat) : (0x7F#32).getLsbD j = decide (j < 7) := by
  by_cases h : j < 7
  · have : ∀ k : Fin 7, (0x7F#32).getLsbD k.val = true := by decide
    simpa [h] using this ⟨j, h⟩
  · simp only [h, decide_false]
    exact testBit_lt_of_le (n := 7) (by decide) (by omega)

theorem getLsbD_3F (j : Nat) : (0x3F#32).getLsbD j = decide (j < 6) := by
  by_cases h : j < 6
  · have : ∀ k : Fin 6, (0x3F#32).getLsbD k.val = true := by decide
    simpa [h] using this ⟨j, h⟩
  · simp only [h, decide_false]
    exact testBit_lt_of_le (n := 6) (by decide) (by omega)

/-- `testMode` read off the words: modes 0–6 are bits 24–30 of `fg`, modes 7–12 bits 24–29 of `bg` -/
theorem testMode_eq (s : Style) (j : Nat) :
    s.testMode j = if j < 7 then s.fg.getLsbD (24 + j)
                   else if j < 13 then s.bg.getLsbD (24 + (j - 7)) else false := by
  unfold Style.testMode Style.modeBits
  have ha : ((s.fg >>> 24) &&& 0x7F#32).toNat < 2 ^ 7 := by
    rw [BitVec.toNat_and]; exact Nat.lt_of_le_of_lt Nat.and_le_right (by decide)
  rw [Nat.add_comm, Nat.mul_comm, show (128 : Nat) = 2 ^ 7 from rfl,
    Nat.testBit_two_pow_mul_add _ ha]
  by_cases h7 : j < 7
  · simp only [h7, if_true, BitVec.testBit_toNat, BitVec.getLsbD_and, BitVec.getLsbD_ushiftRight,
      getLsbD_7F]
    simp
  · simp only [h7, if_false, BitVec.testBit_toNat, BitVec.getLsbD_and,
      BitVec.getLsbD_ushiftRight, getLsbD_3F]
    by_cases h13 : j < 13
    · have : j - 7 < 6 := by omega
      simp [h13, this]
    · have : ¬ j - 7 < 6 := by omega
      simp [h13, this]

/-- the bit of mode `i` inside a word -/
def modeBit (i : Nat) : BitVec 32 := BitVec.ofNat 32 (2 ^ i) <<< 24

theorem getLsbD_modeBit (i k : Nat) : (modeBit i).getLsbD k = decide (k < 32 ∧ k = 24 + i) := by
  unfold modeBit
  rw [BitVec.getLsbD_shiftLeft, BitVec.getLsbD_ofNat, Nat.testBit_two_pow]
  by_cases h : k < 32 ∧ k = 24 + i
  · obtain ⟨h1, rfl⟩ := h
    have h3 : i < 32 := by omega
    simp [h1, h3]
  · simp only [h, decide_false]
    by_cases h1 : k < 32 <;> by_cases h2 : k < 24 <;> simp [h1, h2]
    omega

theorem modeBitsMask_eq : modeBitsMask = 0x7F#32 <<< 24 := by decide

theorem getLsbD_modeBitsMask (k : Nat) : modeBitsMask.getLsbD k = decide (24 ≤ k ∧ k < 31) := by
  rw [modeBitsMask_eq, BitVec.getLsbD_shiftLeft, getLsbD_7F]
  by_cases h1 : k < 32 <;> by_cases h2 : k < 24 <;> simp [h1, h2]
  all_goals first | omega | (rw [← Bool.decide_and, decide_eq_decide]; omega)

theorem colorTypeMask_eq : colorTypeMask = BitVec.twoPow 32 31 := by decide

theorem getLsbD_colorTypeMask (k : Nat) : colorTypeMask.getLsbD k = decide (k = 31) := by
  rw [colorTypeMask_eq, BitVec.getLsbD_twoPow]
  by_cases h : k = 31 <;> simp [h] <;> omega

/-- a value below `2^24` has no bit in 24–31 -/
theorem getLsbD_ofNat_small {x k : Nat} (hx : x < 2 ^ 24) (hk : 24 ≤ k) :
    (BitVec.ofNat 32 x).getLsbD k = false := by
  rw [BitVec.getLsbD_ofNat, testBit_lt_of_le hx hk, Bool.and_false]

theorem payload_ofNat {x : Nat} (hx : x < 2 ^ 24) : payload (BitVec.ofNat 32 x) = x := by
  unfold payload
  rw [BitVec.toNat_ofNat]
  have : (2:Nat) ^ 24 = 16777216 := by decide
  have : (2:Nat) ^ 32 = 4294967296 := by decide
  omega

theorem payload_testBit (w : BitVec 32) (k : Nat) :
    (payload w).testBit k = (decide (k < 24) && w.getLsbD k) := by
  unfold payload
  rw [Nat.testBit_mod_two_pow, BitVec.testBit_toNat]

/-- payload and RGB flag only depend on bits 0–23 and 31 -/
theorem payload_congr {a b : BitVec 32} (h : ∀ k, k < 24 → a.getLsbD k = b.getLsbD k) :
    payload a = payload b := by
  apply Nat.eq_of_testBit_eq
  intro k
  rw [payload_testBit, payload_testBit]
  by_cases hk : k < 24
  · simp [hk, h k hk]
  · simp [hk]

theorem absColor_congr {a b : BitVec 32} (h31 : a.getLsbD 31 = b.getLsbD 31)
    (h : ∀ k, k < 24 → a.getLsbD k = b.getLsbD k) : absColor a = absColor b := by
  unfold absColor; rw [payload_congr h, h31]

theorem colValid_congr {a b : BitVec 32} (h31 : a.getLsbD 31 = b.getLsbD 31)
    (h : ∀ k, k < 24 → a.getLsbD k = b.getLsbD k) : colValid a ↔ colValid b := by
  unfold colValid; rw [payload_congr h, h31]

/-! ### the word operations -/

/-- `setColorVal` on one word -/
def setCol (w v : BitVec 32) : BitVec 32 := (w &&& modeBitsMask) ||| v

theorem getLsbD_setCol (w v : BitVec 32) (k : Nat) :
    (setCol w v).getLsbD k = ((w.getLsbD k && decide (24 ≤ k ∧ k < 31)) || v.getLsbD k) := by
  unfold setCol; rw [BitVec.getLsbD_or, BitVec.getLsbD_and, getLsbD_modeBitsMask]

theorem absColor_setCol (w v : BitVec 32) : absColor (setCol w v) = absColor v := by
  apply absColor_congr
  · rw [getLsbD_setCol]; simp
  · intro k hk
    have : ¬ (24 ≤ k ∧ k < 31) := by omega
    simp [getLsbD_setCol, this]

theorem colValid_setCol (w v : BitVec 32) : colValid (setCol w v) ↔ colValid v := by
  apply colValid_congr
  · rw [getLsbD_setCol]; simp
  · intro k hk
    have : ¬ (24 ≤ k ∧ k < 31) := by omega
    simp [getLsbD_setCol, this]

/-- a colour value that carries no mode bit -/
def noModeBits (v : BitVec 32) : Prop := ∀ k, 24 ≤ k → k < 31 → v.getLsbD k = false

theorem getLsbD_setCol_mode {w v : BitVec 32} (hv : noModeBits v) {k : Nat} (h1 : 24 ≤ k)
    (h2 : k < 31) : (setCol w v).getLsbD k = w.getLsbD k := by
  rw [getLsbD_setCol, hv k h1 h2]; simp [h1, h2]

theorem getLsbD_or_modeBit (w : BitVec 32) (i k : Nat) (hi : i < 7) :
    (w ||| modeBit i).getLsbD k = (w.getLsbD k || decide (k = 24 + i)) := by
  rw [BitVec.getLsbD_or, getLsbD_modeBit]
  congr 1
  rw [decide_eq_decide]; omega

theorem getLsbD_andNot_modeBit (w : BitVec 32) (i k : Nat) (_hi : i < 7) :
    (w &&& ~~~ modeBit i).getLsbD k = (w.getLsbD k && !decide (k = 24 + i)) := by
  rw [BitVec.getLsbD_and, BitVec.getLsbD_not, getLsbD_modeBit]
  by_cases hk : k < 32
  · simp [hk]
  · simp [hk, BitVec.getLsbD_of_ge w k (by omega)]

/-! ### `setMode` / `resetMode` bit by bit -/

theorem getLsbD_setMode_fg (s : Style) (i k : Nat) :
    (s.setMode i).fg.getLsbD k = (s.fg.getLsbD k || decide (i < 7 ∧ k = 24 + i)) := by
  unfold Style.setMode
  by_cases h7 : i < 7
  · simp only [h7, if_true, true_and]; exact getLsbD_or_modeBit _ _ _ h7
  · by_cases h13 : i < 13 <;> simp [h7, h13]

theorem getLsbD_setMode_bg (s : Style) (i k : Nat) :
    (s.setMode i).bg.getLsbD k =
      (s.bg.getLsbD k || decide (7 ≤ i ∧ i < 13 ∧ k = 24 + (i - 7))) := by
  unfold Style.setMode
  by_cases h7 : i < 7
  · have : ¬ 7 ≤ i := by omega
    simp [h7, this]
  · by_cases h13 : i < 13
    · have h : i - 7 < 7 := by omega
      have h' : 7 ≤ i := by omega
      simp only [h7, h13, h', if_true, if_false, true_and]
      exact getLsbD_or_modeBit _ _ _ h
    · simp [h7, h13]

theorem getLsbD_resetMode_fg (s : Style) (i k : Nat) :
    (s.resetMode i).fg.getLsbD k = (s.fg.getLsbD k && !decide (i < 7 ∧ k = 24 + i)) := by
  unfold Style.resetMode
  by_cases h7 : i < 7
  · simp only [h7, if_true, true_and]; exact getLsbD_andNot_modeBit _ _ _ h7
  · by_cases h13 : i < 13 <;> simp [h7, h13]

theorem getLsbD_resetMode_bg (s : Style) (i k : Nat) :
    (s.resetMode i).bg.getLsbD k =
      (s.bg.getLsbD k && !decide (7 ≤ i ∧ i < 13 ∧ k = 24 + (i - 7))) := by
  unfold Style.resetMode
  by_cases h7 : i < 7
  · have : ¬ 7 ≤ i := by omega
    simp [h7, this]
  · by_cases h13 : i < 13
    · have h : i - 7 < 7 := by omega
      have h' : 7 ≤ i := by omega
      simp only [h7, h13, h', if_true, if_false, true_and]
      exact getLsbD_andNot_modeBit _ _ _ h
    · simp [h7, h13]

theorem setMode_ul (s : Style) (i : Nat) : (s.setMode i).ul = s.ul := by
  unfold Style.setMode; split; · rfl
  split <;> rfl

theorem resetMode_ul (s : Style) (i : Nat) : (s.resetMode i).ul = s.ul := by
  unfold Style.resetMode; split; · rfl
  split <;> rfl

end Lemmas
open Lemmas

/-! ## B3 — modes and colours do not interfere (all thirteen modes) -/

/-- setting mode `i` turns exactly mode `i` on: every other mode keeps its value -/
theorem setMode_testMode (s : Style) (i j : Nat) (hi : i < 13) :
    (s.setMode i).testMode j = (s.testMode j || decide (j = i)) := by
  rw [testMode_eq, testMode_eq]
  by_cases h7 : j < 7
  · simp only [h7, if_true, getLsbD_setMode_fg]
    congr 1; rw [decide_eq_decide]; omega
  · by_cases h13 : j < 13
    · simp only [h7, h13, if_true, if_false, getLsbD_setMode_bg]
      congr 1; rw [decide_eq_decide]; omega
    · have : ¬ j = i := by omega
      simp [h7, h13, this]

/-- resetting mode `i` turns exactly mode `i` off -/
theorem resetMode_testMode (s : Style) (i j : Nat) (hi : i < 13) :
    (s.resetMode i).testMode j = (s.testMode j && !decide (j = i)) := by
  rw [testMode_eq, testMode_eq]
  by_cases h7 : j < 7
  · simp only [h7, if_true, getLsbD_resetMode_fg]
    congr 2; rw [decide_eq_decide]; omega
  · by_cases h13 : j < 13
    · simp only [h7, h13, if_true, if_false, getLsbD_resetMode_bg]
      congr 2; rw [decide_eq_decide]; omega
    · have : ¬ j = i := by omega
      simp [h7, h13, this]

/-- mode indices outside 0–12 do not exist: setting / resetting them is a no-op and they always
    test false -/
theorem setMode_out_of_range (s : Style) (i : Nat) (hi : 13 ≤ i) :
    s.setMode i = s ∧ s.resetMode i = s ∧ s.testMode i = false := by
  have h7 : ¬ i < 7 := by omega
  have h13 : ¬ i < 13 := by omega
  simp [Style.setMode, Style.resetMode, testMode_eq, h7, h13]

/-- setting or resetting any mode leaves every bit outside 24–30 of `fg`/`bg` (the colours and the
    RGB flag) and the whole `ul` word unchanged — packed form (`color() = c &^ modeBitsMask`) -/
theorem setMode_color_frame (s : Style) (i : Nat) :
    (s.setMode i).fg &&& ~~~modeBitsMask = s.fg &&& ~~~modeBitsMask ∧
    (s.setMode i).bg &&& ~~~modeBitsMask = s.bg &&& ~~~modeBitsMask ∧
    (s.setMode i).ul = s.ul := by
  refine ⟨?_, ?_, setMode_ul s i⟩ <;> apply BitVec.eq_of_getLsbD_eq <;> intro k hk
  · rw [BitVec.getLsbD_and, BitVec.getLsbD_and, BitVec.getLsbD_not, getLsbD_modeBitsMask,
      getLsbD_setMode_fg]
    by_cases h : 24 ≤ k ∧ k < 31
    · simp [h]
    · have : ¬ (i < 7 ∧ k = 24 + i) := by omega
      simp [this]
  · rw [BitVec.getLsbD_and, BitVec.getLsbD_and, BitVec.getLsbD_not, getLsbD_modeBitsMask,
      getLsbD_setMode_bg]
    by_cases h : 24 ≤ k ∧ k < 31
    · simp [h]
    · have : ¬ (7 ≤ i ∧ i < 13 ∧ k = 24 + (i - 7)) := by omega
      simp [this]

theorem resetMode_color_frame (s : Style) (i : Nat) :
    (s.resetMode i).fg &&& ~~~modeBitsMask = s.fg &&& ~~~modeBitsMask ∧
    (s.resetMode i).bg &&& ~~~modeBitsMask = s.bg &&& ~~~modeBitsMask ∧
    (s.resetMode i).ul = s.ul := by
  refine ⟨?_, ?_, resetMode_ul s i⟩ <;> apply BitVec.eq_of_getLsbD_eq <;> intro k hk
  · rw [BitVec.getLsbD_and, BitVec.getLsbD_and, BitVec.getLsbD_not, getLsbD_modeBitsMask,
      getLsbD_resetMode_fg]
    by_cases h : 24 ≤ k ∧ k < 31
    · simp [h]
    · have : ¬ (i < 7 ∧ k = 24 + i) := by omega
      simp [this]
  · rw [BitVec.getLsbD_and, BitVec.getLsbD_and, BitVec.getLsbD_not, getLsbD_modeBitsMask,
      getLsbD_resetMode_bg]
    by_cases h : 24 ≤ k ∧ k < 31
    · simp [h]
    · have : ¬ (7 ≤ i ∧ i < 13 ∧ k = 24 + (i - 7)) := by omega
      simp [this]

/-- equal colour parts: equal RGB flag and payload bits -/
theorem Lemmas.bits_of_colorPart_eq {a b : BitVec 32}
    (h : a &&& ~~~modeBitsMask = b &&& ~~~modeBitsMask) (k : Nat) (hk : k < 24 ∨ k = 31) :
    a.getLsbD k = b.getLsbD k := by
  have h' := congrArg (fun w => BitVec.getLsbD w k) h
  simp only [BitVec.getLsbD_and, BitVec.getLsbD_not, getLsbD_modeBitsMask] at h'
  have h1 : k < 32 := by omega
  have h2 : ¬ (24 ≤ k ∧ k < 31) := by omega
  simpa [h1, h2] using h'

theorem Lemmas.absColor_of_colorPart_eq {a b : BitVec 32}
    (h : a &&& ~~~modeBitsMask = b &&& ~~~modeBitsMask) : absColor a = absColor b :=
  absColor_congr (bits_of_colorPart_eq h 31 (Or.inr rfl))
    (fun k hk => bits_of_colorPart_eq h k (Or.inl hk))

theorem Lemmas.colValid_of_colorPart_eq {a b : BitVec 32}
    (h : a &&& ~~~modeBitsMask = b &&& ~~~modeBitsMask) : colValid a ↔ colValid b :=
  colValid_congr (bits_of_colorPart_eq h 31 (Or.inr rfl))
    (fun k hk => bits_of_colorPart_eq h k (Or.inl hk))

/-- … hence the decoded colours are unchanged -/
theorem setMode_absColor (s : Style) (i : Nat) :
    absColor (s.setMode i).fg = absColor s.fg ∧ absColor (s.setMode i).bg = absColor s.bg :=
  ⟨absColor_of_colorPart_eq (setMode_color_frame s i).1,
   absColor_of_colorPart_eq (setMode_color_frame s i).2.1⟩

theorem resetMode_absColor (s : Style) (i : Nat) :
    absColor (s.resetMode i).fg = absColor s.fg ∧ absColor (s.resetMode i).bg = absColor s.bg :=
  ⟨absColor_of_colorPart_eq (resetMode_color_frame s i).1,
   absColor_of_colorPart_eq (resetMode_color_frame s i).2.1⟩

/-! ### the four kinds of colour value -/
namespace Lemmas

theorem noModeBits_of_lt {v : BitVec 32} (h : v.toNat < 2 ^ 24) : noModeBits v := by
  intro k h1 _
  rw [← BitVec.testBit_toNat]; exact testBit_lt_of_le h h1

theorem noModeBits_default : noModeBits colDefault := noModeBits_of_lt (by decide)

theorem noModeBits_idx {n : Nat} (h : n < 256) : noModeBits (BitVec.ofNat 32 n) := by
  apply noModeBits_of_lt; rw [BitVec.toNat_ofNat]
  have : (2:Nat) ^ 24 = 16777216 := by decide
  have : (2:Nat) ^ 32 = 4294967296 := by decide
  omega

theorem bright_eq {n : Nat} (h : n < 8) : colBright ||| BitVec.ofNat 32 n = BitVec.ofNat 32 (0x200 + n) := by
  have : ∀ k : Fin 8, colBright ||| BitVec.ofNat 32 k.val = BitVec.ofNat 32 (0x200 + k.val) := by decide
  exact this ⟨n, h⟩

theorem noModeBits_bright {n : Nat} (h : n < 8) : noModeBits (colBright ||| BitVec.ofNat 32 n) := by
  rw [bright_eq h]
  apply noModeBits_of_lt; rw [BitVec.toNat_ofNat]
  have : (2:Nat) ^ 24 = 16777216 := by decide
  have : (2:Nat) ^ 32 = 4294967296 := by decide
  omega

theorem noModeBits_rgb {x : Nat} (h : x < 2 ^ 24) : noModeBits (BitVec.ofNat 32 x ||| colorTypeMask) := by
  intro k h1 h2
  rw [BitVec.getLsbD_or, getLsbD_ofNat_small h h1, getLsbD_colorTypeMask]
  have : ¬ k = 31 := by omega
  simp [this]

theorem absColor_default : absColor colDefault = .dflt := by decide

theorem absColor_idx {n : Nat} (h : n < 256) : absColor (BitVec.ofNat 32 n) = .idx n := by
  have h24 : n < 2 ^ 24 := Nat.lt_of_lt_of_le h (by decide)
  unfold absColor
  simp only [getLsbD_ofNat_small h24 (by decide : 24 ≤ 31), payload_ofNat h24]
  have h1 : ¬ n = 0x100 := by omega
  have h2 : n < 0x100 := h
  simp [h1, h2]

theorem absColor_bright {n : Nat} (h : n < 8) : absColor (colBright ||| BitVec.ofNat 32 n) = .bright n := by
  have : ∀ k : Fin 8, absColor (colBright ||| BitVec.ofNat 32 k.val) = .bright k.val := by decide
  exact this ⟨n, h⟩

theorem rgb_lt {r g b : Nat} (hr : r < 256) (hg : g < 256) (hb : b < 256) :
    r * 65536 + g * 256 + b < 2 ^ 24 := by
  have : (2:Nat) ^ 24 = 16777216 := by decide
  omega

theorem payload_rgb {x : Nat} (hx : x < 2 ^ 24) :
    payload (BitVec.ofNat 32 x ||| colorTypeMask) = x := by
  refine Eq.trans (payload_congr ?_) (payload_ofNat hx)
  intro k hk
  rw [BitVec.getLsbD_or, getLsbD_colorTypeMask]
  have : ¬ k = 31 := by omega
  simp [this]

theorem flag_rgb (x : Nat) : (BitVec.ofNat 32 x ||| colorTypeMask).getLsbD 31 = true := by
  rw [BitVec.getLsbD_or, getLsbD_colorTypeMask]; simp

theorem absColor_rgb {r g b : Nat} (hr : r < 256) (hg : g < 256) (hb : b < 256) :
    absColor (BitVec.ofNat 32 (r * 65536 + g * 256 + b) ||| colorTypeMask) = .rgb r g b := by
  unfold absColor
  rw [payload_rgb (rgb_lt hr hg hb)]
  simp only [flag_rgb, if_true]
  congr 1 <;> omega

theorem colValid_default : colValid colDefault := by decide

theorem colValid_idx {n : Nat} (h : n < 256) : colValid (BitVec.ofNat 32 n) := by
  have h24 : n < 2 ^ 24 := Nat.lt_of_lt_of_le h (by decide)
  refine Or.inr (Or.inr (Or.inl ?_))
  rw [payload_ofNat h24]; exact h

theorem colValid_bright {n : Nat} (h : n < 8) : colValid (colBright ||| BitVec.ofNat 32 n) := by
  have : ∀ k : Fin 8, colValid (colBright ||| BitVec.ofNat 32 k.val) := by decide
  exact this ⟨n, h⟩

theorem colValid_rgb (x : Nat) : colValid (BitVec.ofNat 32 x ||| colorTypeMask) :=
  Or.inl (flag_rgb x)

end Lemmas

/-! ### `abs` of each style operation, and validity -/
namespace Lemmas

theorem Mode.bit_lt (m : Mode) : m.bit < 13 := by cases m <;> decide

theorem Mode.ofBit_bit (m : Mode) : Mode.ofBit m.bit = m := by cases m <;> rfl

theorem Mode.bit_ofBit (i : Nat) (h : i < 13) : (Mode.ofBit i).bit = i := by
  have : ∀ k : Fin 13, (Mode.ofBit k.val).bit = k.val := by decide
  exact this ⟨i, h⟩

theorem Mode.bit_inj {a b : Mode} (h : a.bit = b.bit) : a = b := by
  rw [← Mode.ofBit_bit a, ← Mode.ofBit_bit b, h]

theorem abs_default : abs Style.default = AStyle.default := by
  unfold abs AStyle.default
  have h1 : absColor Style.default.fg = .dflt := by decide
  have h2 : absColor Style.default.bg = .dflt := by decide
  rw [h1, h2]
  congr 1; funext m
  cases m <;> decide

theorem abs_setMode (s : Style) (m : Mode) : abs (s.setMode m.bit) = (abs s).on m := by
  unfold abs AStyle.on
  simp only [(setMode_absColor s m.bit).1, (setMode_absColor s m.bit).2]
  congr 1; funext k
  rw [setMode_testMode _ _ _ (Mode.bit_lt m)]
  by_cases h : k = m
  · simp [h]
  · have : ¬ k.bit = m.bit := fun e => h (Mode.bit_inj e)
    simp [h, this]

theorem abs_resetMode (s : Style) (m : Mode) : abs (s.resetMode m.bit) = (abs s).off [m] := by
  unfold abs AStyle.off
  simp only [(resetMode_absColor s m.bit).1, (resetMode_absColor s m.bit).2]
  congr 1; funext k
  rw [resetMode_testMode _ _ _ (Mode.bit_lt m)]
  by_cases h : k = m
  · simp [h]
  · have : ¬ k.bit = m.bit := fun e => h (Mode.bit_inj e)
    simp [h, this]

theorem off_off (a : AStyle) (xs ys : List Mode) : (a.off xs).off ys = a.off (xs ++ ys) := by
  unfold AStyle.off
  congr 1; funext k
  by_cases h1 : k ∈ xs <;> by_cases h2 : k ∈ ys <;> simp [h1, h2]

theorem abs_resetMode2 (s : Style) (m n : Mode) :
    abs ((s.resetMode m.bit).resetMode n.bit) = (abs s).off [m, n] := by
  rw [abs_resetMode, abs_resetMode, off_off]; rfl

theorem abs_setColorVal (s : Style) (c : Comp) {v : BitVec 32} (hv : noModeBits v) :
    abs (s.setColorVal c v) = (abs s).setColor c (absColor v) := by
  cases c
  · show abs { s with fg := setCol s.fg v } = _
    unfold abs AStyle.setColor
    simp only [absColor_setCol]
    congr 1; funext m
    rw [testMode_eq, testMode_eq]
    by_cases h7 : m.bit < 7
    · simp only [h7, if_true]
      exact getLsbD_setCol_mode hv (by omega) (by omega)
    · simp only [h7, if_false]
  · show abs { s with bg := setCol s.bg v } = _
    unfold abs AStyle.setColor
    simp only [absColor_setCol]
    congr 1; funext m
    rw [testMode_eq, testMode_eq]
    by_cases h7 : m.bit < 7
    · simp only [h7, if_true]
    · have h13 := Mode.bit_lt m
      simp only [h7, h13, if_false, if_true]
      exact getLsbD_setCol_mode hv (by omega) (by omega)

theorem valid_default : Style.valid Style.default := by decide

theorem valid_setMode {s : Style} (h : Style.valid s) (i : Nat) : Style.valid (s.setMode i) := by
  obtain ⟨h1, h2, h3, h4⟩ := h
  refine ⟨(colValid_of_colorPart_eq (setMode_color_frame s i).1).2 h1,
    (colValid_of_colorPart_eq (setMode_color_frame s i).2.1).2 h2, ?_, ?_⟩
  · rw [getLsbD_setMode_bg, h3]
    have : ¬ (7 ≤ i ∧ i < 13 ∧ 30 = 24 + (i - 7)) := by omega
    simp [this]
  · rw [setMode_ul, h4]

theorem valid_resetMode {s : Style} (h : Style.valid s) (i : Nat) : Style.valid (s.resetMode i) := by
  obtain ⟨h1, h2, h3, h4⟩ := h
  refine ⟨(colValid_of_colorPart_eq (resetMode_color_frame s i).1).2 h1,
    (colValid_of_colorPart_eq (resetMode_color_frame s i).2.1).2 h2, ?_, ?_⟩
  · rw [getLsbD_resetMode_bg, h3]; rfl
  · rw [resetMode_ul, h4]

theorem valid_setColorVal {s : Style} (h : Style.valid s) (c : Comp) {v : BitVec 32}
    (hv : noModeBits v) (hc : colValid v) : Style.valid (s.setColorVal c v) := by
  obtain ⟨h1, h2, h3, h4⟩ := h
  cases c
  · exact ⟨(colValid_setCol s.fg v).2 hc, h2, h3, h4⟩
  · refine ⟨h1, (colValid_setCol s.bg v).2 hc, ?_, h4⟩
    show (setCol s.bg v).getLsbD 30 = false
    rw [getLsbD_setCol_mode hv (by decide) (by decide)]; exact h3

end Lemmas

/-! ### the colour setters on `Int` arguments -/

/-- `SetColor256` with an index in range selects palette entry `n`; modes and the other colour are
    untouched -/
theorem abs_setColor256 (s : Style) (c : Comp) {n : Int} (h : 0 ≤ n ∧ n ≤ 255) :
    abs (s.setColor256 c n) = (abs s).setColor c (.idx n.toNat) := by
  have h' : ¬ (n < 0 ∨ n > 255) := by omega
  have hn : n.toNat < 256 := by omega
  unfold Style.setColor256
  rw [if_neg h', abs_setColorVal s c (noModeBits_idx hn), absColor_idx hn]

/-- … and an index out of range is rejected -/
theorem setColor256_reject (s : Style) (c : Comp) {n : Int} (h : n < 0 ∨ 255 < n) :
    s.setColor256 c n = s := by
  unfold Style.setColor256; rw [if_pos (by omega)]

theorem abs_setColorBright (s : Style) (c : Comp) {n : Int} (h : 0 ≤ n ∧ n ≤ 7) :
    abs (s.setColorBright c n) = (abs s).setColor c (.bright n.toNat) := by
  have h' : ¬ (n < 0 ∨ n > 7) := by omega
  have hn : n.toNat < 8 := by omega
  unfold Style.setColorBright
  rw [if_neg h', abs_setColorVal s c (noModeBits_bright hn), absColor_bright hn]

theorem setColorBright_reject (s : Style) (c : Comp) {n : Int} (h : n < 0 ∨ 7 < n) :
    s.setColorBright c n = s := by
  unfold Style.setColorBright; rw [if_pos (by omega)]

/-- `SetColorRGB` takes every component modulo 256 (`& 0xff`), for every `Int` -/
theorem abs_setColorRGB (s : Style) (c : Comp) (r g b : Int) :
    abs (s.setColorRGB c r g b) =
      (abs s).setColor c (.rgb (r % 256).toNat (g % 256).toNat (b % 256).toNat) := by
  have hr : (r % 256).toNat < 256 := by omega
  have hg : (g % 256).toNat < 256 := by omega
  have hb : (b % 256).toNat < 256 := by omega
  unfold Style.setColorRGB
  simp only []
  rw [abs_setColorVal s c (noModeBits_rgb (rgb_lt hr hg hb)), absColor_rgb hr hg hb]

theorem abs_setColorDefault (s : Style) (c : Comp) :
    abs (s.setColorDefault c) = (abs s).setColor c .dflt := by
  unfold Style.setColorDefault
  rw [abs_setColorVal s c noModeBits_default, absColor_default]

namespace Lemmas

theorem valid_setColor256 {s : Style} (h : Style.valid s) (c : Comp) (n : Int) :
    Style.valid (s.setColor256 c n) := by
  unfold Style.setColor256
  split
  · exact h
  · have hn : n.toNat < 256 := by omega
    exact valid_setColorVal h c (noModeBits_idx hn) (colValid_idx hn)

theorem valid_setColorBright {s : Style} (h : Style.valid s) (c : Comp) (n : Int) :
    Style.valid (s.setColorBright c n) := by
  unfold Style.setColorBright
  split
  · exact h
  · have hn : n.toNat < 8 := by omega
    exact valid_setColorVal h c (noModeBits_bright hn) (colValid_bright hn)

theorem valid_setColorRGB {s : Style} (h : Style.valid s) (c : Comp) (r g b : Int) :
    Style.valid (s.setColorRGB c r g b) := by
  have hr : (r % 256).toNat < 256 := by omega
  have hg : (g % 256).toNat < 256 := by omega
  have hb : (b % 256).toNat < 256 := by omega
  unfold Style.setColorRGB
  exact valid_setColorVal h c (noModeBits_rgb (rgb_lt hr hg hb)) (colValid_rgb _)

theorem valid_setColorDefault {s : Style} (h : Style.valid s) (c : Comp) :
    Style.valid (s.setColorDefault c) :=
  valid_setColorVal h c noModeBits_default colValid_default

end Lemmas

/-! ## B1 — one stand-alone code -/

/-- every stand-alone SGR code (any `Int`) acts on the packed style as the specification says -/
theorem sgrSimple_refines (s : Style) (p : Int) : abs (sgrSimple s p) = Sgr.simple (abs s) p := by
  by_cases h0 : p = 0; · subst h0; exact abs_default
  by_cases h1 : p = 1; · subst h1; exact abs_setMode s .bold
  by_cases h2 : p = 2; · subst h2; exact abs_setMode s .dim
  by_cases h3 : p = 3; · subst h3; exact abs_setMode s .italic
  by_cases h4 : p = 4; · subst h4; exact abs_setMode s .underline
  by_cases h5 : p = 5; · subst h5; exact abs_setMode s .blink
  by_cases h6 : p = 6; · subst h6; exact abs_setMode s .rapidBlink
  by_cases h7 : p = 7; · subst h7; exact abs_setMode s .reverse
  by_cases h8 : p = 8; · subst h8; exact abs_setMode s .invisible
  by_cases h9 : p = 9; · subst h9; exact abs_setMode s .strike
  by_cases h21 : p = 21; · subst h21; exact abs_setMode s .doubleUnderline
  by_cases h51 : p = 51; · subst h51; exact abs_setMode s .framed
  by_cases h52 : p = 52; · subst h52; exact abs_setMode s .encircled
  by_cases h53 : p = 53; · subst h53; exact abs_setMode s .overline
  by_cases h22 : p = 22; · subst h22; exact abs_resetMode2 s .bold .dim
  by_cases h23 : p = 23; · subst h23; exact abs_resetMode s .italic
  by_cases h24 : p = 24; · subst h24; exact abs_resetMode2 s .underline .doubleUnderline
  by_cases h25 : p = 25; · subst h25; exact abs_resetMode2 s .blink .rapidBlink
  by_cases h27 : p = 27; · subst h27; exact abs_resetMode s .reverse
  by_cases h28 : p = 28; · subst h28; exact abs_resetMode s .invisible
  by_cases h29 : p = 29; · subst h29; exact abs_resetMode s .strike
  by_cases h54 : p = 54; · subst h54; exact abs_resetMode2 s .framed .encircled
  by_cases h55 : p = 55; · subst h55; exact abs_resetMode s .overline
  by_cases h39 : p = 39; · subst h39; exact abs_setColorDefault s .fg
  by_cases h49 : p = 49; · subst h49; exact abs_setColorDefault s .bg
  unfold sgrSimple Sgr.simple
  by_cases ha : 30 ≤ p ∧ p ≤ 37
  · simp (disch := omega) only [if_neg, if_pos]
    exact abs_setColor256 s .fg (by omega)
  by_cases hb : 40 ≤ p ∧ p ≤ 47
  · simp (disch := omega) only [if_neg, if_pos]
    exact abs_setColor256 s .bg (by omega)
  by_cases hc : 90 ≤ p ∧ p ≤ 97
  · simp (disch := omega) only [if_neg, if_pos]
    exact abs_setColorBright s .fg (by omega)
  by_cases hd : 100 ≤ p ∧ p ≤ 107
  · simp (disch := omega) only [if_neg, if_pos]
    exact abs_setColorBright s .bg (by omega)
  simp (disch := omega) only [if_neg]

theorem sgrSimple_valid {s : Style} (h : Style.valid s) (p : Int) : Style.valid (sgrSimple s p) := by
  by_cases h0 : p = 0; · subst h0; exact valid_default
  by_cases h1 : p = 1; · subst h1; exact valid_setMode h 0
  by_cases h2 : p = 2; · subst h2; exact valid_setMode h 1
  by_cases h3 : p = 3; · subst h3; exact valid_setMode h 2
  by_cases h4 : p = 4; · subst h4; exact valid_setMode h 3
  by_cases h5 : p = 5; · subst h5; exact valid_setMode h 4
  by_cases h6 : p = 6; · subst h6; exact valid_setMode h 12
  by_cases h7 : p = 7; · subst h7; exact valid_setMode h 5
  by_cases h8 : p = 8; · subst h8; exact valid_setMode h 6
  by_cases h9 : p = 9; · subst h9; exact valid_setMode h 7
  by_cases h21 : p = 21; · subst h21; exact valid_setMode h 9
  by_cases h51 : p = 51; · subst h51; exact valid_setMode h 10
  by_cases h52 : p = 52; · subst h52; exact valid_setMode h 11
  by_cases h53 : p = 53; · subst h53; exact valid_setMode h 8
  by_cases h22 : p = 22; · subst h22; exact valid_resetMode (valid_resetMode h 0) 1
  by_cases h23 : p = 23; · subst h23; exact valid_resetMode h 2
  by_cases h24 : p = 24; · subst h24; exact valid_resetMode (valid_resetMode h 3) 9
  by_cases h25 : p = 25; · subst h25; exact valid_resetMode (valid_resetMode h 4) 12
  by_cases h27 : p = 27; · subst h27; exact valid_resetMode h 5
  by_cases h28 : p = 28; · subst h28; exact valid_resetMode h 6
  by_cases h29 : p = 29; · subst h29; exact valid_resetMode h 7
  by_cases h54 : p = 54; · subst h54; exact valid_resetMode (valid_resetMode h 10) 11
  by_cases h55 : p = 55; · subst h55; exact valid_resetMode h 8
  by_cases h39 : p = 39; · subst h39; exact valid_setColorDefault h .fg
  by_cases h49 : p = 49; · subst h49; exact valid_setColorDefault h .bg
  unfold sgrSimple
  by_cases ha : 30 ≤ p ∧ p ≤ 37
  · simp (disch := omega) only [if_neg, if_pos]; exact valid_setColor256 h _ _
  by_cases hb : 40 ≤ p ∧ p ≤ 47
  · simp (disch := omega) only [if_neg, if_pos]; exact valid_setColor256 h _ _
  by_cases hc : 90 ≤ p ∧ p ≤ 97
  · simp (disch := omega) only [if_neg, if_pos]; exact valid_setColorBright h _ _
  by_cases hd : 100 ≤ p ∧ p ≤ 107
  · simp (disch := omega) only [if_neg, if_pos]; exact valid_setColorBright h _ _
  simp (disch := omega) only [if_neg]; exact h

/-! ## B1 — whole parameter lists -/

theorem Lemmas.refines_aux (n : Nat) : ∀ (ps : List Int), ps.length ≤ n → ∀ s : Style,
    abs (applySGR s ps) = Sgr.fold (abs s) ps ∧ (Style.valid s → Style.valid (applySGR s ps)) := by
  induction n with
  | zero =>
    intro ps h s
    have : ps = [] := List.length_eq_zero_iff.mp (by omega)
    subst this
    simp [applySGR, Sgr.fold]
  | succ n ih =>
    intro ps h s
    match ps, h with
    | [], _ => simp [applySGR, Sgr.fold]
    | p :: rest, h =>
      have hr : rest.length ≤ n := by simpa using h
      by_cases hp : p = 38 ∨ p = 48
      · rw [applySGR, Sgr.fold, if_pos hp, if_pos hp]
        match rest, hr with
        | [], _ => simp [Sgr.extended, Sgr.fold]
        | [a], hr => simpa [Sgr.extended] using ih [a] hr s
        | a :: v :: tl, hr =>
          have htl : tl.length ≤ n := by simp at hr; omega
          by_cases h5 : a = 5
          · subst h5
            simp only [Sgr.extended, if_true, List.drop_succ_cons, List.drop_zero]
            have := ih tl htl (s.setColor256 (if p = 48 then .bg else .fg) (v % 256))
            rw [abs_setColor256 _ _ (by omega)] at this
            exact ⟨this.1, fun hv => this.2 (valid_setColor256 hv _ _)⟩
          · by_cases h2 : a = 2
            · subst h2
              match tl, htl with
              | [], _ => simpa [Sgr.extended] using ih [2, v] hr s
              | [g], _ => simpa [Sgr.extended] using ih [2, v, g] hr s
              | g :: b :: tl', htl =>
                have htl' : tl'.length ≤ n := by simp at htl; omega
                simp only [Sgr.extended, if_true]
                have := ih tl' htl' (s.setColorRGB (if p = 48 then .bg else .fg) v g b)
                rw [abs_setColorRGB] at this
                simp only [show ¬ ((2 : Int) = 5) by decide, if_false]
                exact ⟨this.1, fun hv => this.2 (valid_setColorRGB hv _ _ _ _)⟩
            · simpa [Sgr.extended, h5, h2] using ih (a :: v :: tl) hr s
      · rw [applySGR, Sgr.fold, if_neg hp, if_neg hp]
        have := ih rest hr (sgrSimple s p)
        rw [sgrSimple_refines] at this
        exact ⟨this.1, fun hv => this.2 (sgrSimple_valid hv p)⟩

/-- **B1** the packed style after any parameter list (every `Int`, every length, truncated
    extended forms included) decodes to the specification's left-to-right fold. No hypothesis on
    `s` is needed. -/
theorem packed_refines (s : Style) (ps : List Int) :
    abs (applySGR s ps) = Sgr.fold (abs s) ps :=
  (refines_aux ps.length ps (Nat.le_refl _) s).1

/-- `applySGR` preserves the invariant … -/
theorem applySGR_valid {s : Style} (h : Style.valid s) (ps : List Int) :
    Style.valid (applySGR s ps) :=
  (refines_aux ps.length ps (Nat.le_refl _) s).2 h

/-- … so every style reachable from the initial one is valid -/
theorem reachable_valid (pss : List (List Int)) :
    Style.valid (pss.foldl applySGR Style.default) := by
  have : ∀ s, Style.valid s → Style.valid (pss.foldl applySGR s) := by
    induction pss with
    | nil => intro s h; exact h
    | cons ps t ih => intro s h; exact ih _ (applySGR_valid h ps)
  exact this _ valid_default

/-! ## B2 — `abs` is injective on valid styles -/

namespace Lemmas

def decode (f : Bool) (p : Nat) : AColor :=
  if f then .rgb (p / 65536) (p / 256 % 256) (p % 256)
  else if p = 0x100 then .dflt
  else if p < 0x100 then .idx p
  else .bright (p % 8)

theorem absColor_eq_decode (w : BitVec 32) : absColor w = decode (w.getLsbD 31) (payload w) := rfl

theorem decode_inj {f g : Bool} {p q : Nat} (hp : p < 2 ^ 24) (hq : q < 2 ^ 24)
    (vp : f = true ∨ p = 0x100 ∨ p < 0x100 ∨ (0x200 ≤ p ∧ p < 0x208))
    (vq : g = true ∨ q = 0x100 ∨ q < 0x100 ∨ (0x200 ≤ q ∧ q < 0x208))
    (h : decode f p = decode g q) : f = g ∧ p = q := by
  have e24 : (2:Nat) ^ 24 = 16777216 := by decide
  unfold decode at h
  cases f <;> cases g
  · simp only [Bool.false_eq_true, if_false, false_or] at h vp vq
    refine ⟨rfl, ?_⟩
    by_cases p1 : p = 0x100 <;> by_cases p2 : p < 0x100 <;>
      by_cases q1 : q = 0x100 <;> by_cases q2 : q < 0x100 <;>
      simp only [p1, p2, q1, q2, if_true, if_false, AColor.idx.injEq, AColor.bright.injEq,
        reduceCtorEq] at h <;> omega
  · simp only [Bool.false_eq_true, if_false, if_true] at h
    by_cases p1 : p = 0x100 <;> by_cases p2 : p < 0x100 <;>
      simp only [p1, p2, if_true, if_false, reduceCtorEq] at h
  · simp only [Bool.false_eq_true, if_false, if_true] at h
    by_cases q1 : q = 0x100 <;> by_cases q2 : q < 0x100 <;>
      simp only [q1, q2, if_true, if_false, reduceCtorEq] at h
  · simp only [if_true, AColor.rgb.injEq] at h
    refine ⟨rfl, ?_⟩
    omega

theorem payload_lt (w : BitVec 32) : payload w < 2 ^ 24 := Nat.mod_lt _ (by decide)

theorem absColor_inj {a b : BitVec 32} (ha : colValid a) (hb : colValid b)
    (h : absColor a = absColor b) : a.getLsbD 31 = b.getLsbD 31 ∧ payload a = payload b := by
  rw [absColor_eq_decode, absColor_eq_decode] at h
  exact decode_inj (payload_lt a) (payload_lt b) ha hb h

theorem low_bits_of_payload_eq {a b : BitVec 32} (h : payload a = payload b) (k : Nat)
    (hk : k < 24) : a.getLsbD k = b.getLsbD k := by
  have := congrArg (fun n => Nat.testBit n k) h
  simpa [payload_testBit, hk] using this

end Lemmas

/-- a mode read as a bit of the words -/
theorem Lemmas.testMode_fg_bit (s : Style) (k : Nat) (h1 : 24 ≤ k) (h2 : k < 31) :
    s.fg.getLsbD k = s.testMode (k - 24) := by
  rw [testMode_eq, if_pos (by omega)]; congr 1; omega

theorem Lemmas.testMode_bg_bit (s : Style) (k : Nat) (h1 : 24 ≤ k) (h2 : k < 30) :
    s.bg.getLsbD k = s.testMode (k - 24 + 7) := by
  rw [testMode_eq, if_neg (by omega), if_pos (by omega)]; congr 1; omega

/-- **B2** two valid packed styles with the same abstract value are the same three words: default,
    palette, bright and RGB colours and all thirteen modes are told apart. (`ul` is never written
    by SGR, so validity pins it to its initial value and injectivity holds for the whole style.) -/
theorem abs_injective {s₁ s₂ : Style} (h₁ : Style.valid s₁) (h₂ : Style.valid s₂)
    (h : abs s₁ = abs s₂) : s₁ = s₂ := by
  obtain ⟨f1, b1, z1, u1⟩ := h₁
  obtain ⟨f2, b2, z2, u2⟩ := h₂
  unfold abs at h
  rw [AStyle.mk.injEq] at h
  obtain ⟨hfg, hbg, hm⟩ := h
  have hmode : ∀ i, i < 13 → s₁.testMode i = s₂.testMode i := by
    intro i hi
    have := congrFun hm (Mode.ofBit i)
    simpa [Mode.bit_ofBit i hi] using this
  have ⟨ff, fp⟩ := absColor_inj f1 f2 hfg
  have ⟨bf, bp⟩ := absColor_inj b1 b2 hbg
  have efg : s₁.fg = s₂.fg := by
    apply BitVec.eq_of_getLsbD_eq; intro k hk
    by_cases hk1 : k < 24
    · exact low_bits_of_payload_eq fp k hk1
    · by_cases hk2 : k < 31
      · rw [testMode_fg_bit s₁ k (by omega) hk2, testMode_fg_bit s₂ k (by omega) hk2]
        exact hmode _ (by omega)
      · have : k = 31 := by omega
        subst this; exact ff
  have ebg : s₁.bg = s₂.bg := by
    apply BitVec.eq_of_getLsbD_eq; intro k hk
    by_cases hk1 : k < 24
    · exact low_bits_of_payload_eq bp k hk1
    · by_cases hk2 : k < 30
      · rw [testMode_bg_bit s₁ k (by omega) hk2, testMode_bg_bit s₂ k (by omega) hk2]
        exact hmode _ (by omega)
      · by_cases hk3 : k = 30
        · subst hk3; rw [z1, z2]
        · have : k = 31 := by omega
          subst this; exact bf
  cases s₁; cases s₂
  simp only at efg ebg u1 u2
  rw [efg, ebg, u1, u2]

/-- the frontend-visible parts separately: equal `abs` forces equal `fg` and `bg` words -/
theorem abs_injective_words {s₁ s₂ : Style} (h₁ : Style.valid s₁) (h₂ : Style.valid s₂)
    (h : abs s₁ = abs s₂) : s₁.fg = s₂.fg ∧ s₁.bg = s₂.bg := by
  rw [abs_injective h₁ h₂ h]; exact ⟨rfl, rfl⟩

/-! ## B3 — the four "black-ish" foregrounds are different -/

/-- default (39), palette black (30), bright black (90) and RGB black (38;2;0;0;0), set on top of
    any style, decode to four different abstract colours … -/
theorem blackish_abs (s : Style) :
    (abs (applySGR s [39])).fg = .dflt ∧ (abs (applySGR s [30])).fg = .idx 0 ∧
    (abs (applySGR s [90])).fg = .bright 0 ∧ (abs (applySGR s [38, 2, 0, 0, 0])).fg = .rgb 0 0 0 := by
  simp [packed_refines, Sgr.fold, Sgr.simple, Sgr.extended, AStyle.setColor]

/-- … and therefore to four pairwise different packed `fg` words -/
theorem blackish_packed_distinct (s : Style) :
    (applySGR s [39]).fg ≠ (applySGR s [30]).fg ∧ (applySGR s [39]).fg ≠ (applySGR s [90]).fg ∧
    (applySGR s [39]).fg ≠ (applySGR s [38, 2, 0, 0, 0]).fg ∧
    (applySGR s [30]).fg ≠ (applySGR s [90]).fg ∧
    (applySGR s [30]).fg ≠ (applySGR s [38, 2, 0, 0, 0]).fg ∧
    (applySGR s [90]).fg ≠ (applySGR s [38, 2, 0, 0, 0]).fg := by
  obtain ⟨h1, h2, h3, h4⟩ := blackish_abs s
  have k : ∀ a b : Style, (abs a).fg ≠ (abs b).fg → a.fg ≠ b.fg := by
    intro a b h e; exact h (congrArg absColor e)
  refine ⟨k _ _ ?_, k _ _ ?_, k _ _ ?_, k _ _ ?_, k _ _ ?_, k _ _ ?_⟩ <;>
    simp [h1, h2, h3, h4]

/-- the same for the background (49 / 40 / 100 / 48;2;0;0;0) -/
theorem blackish_abs_bg (s : Style) :
    (abs (applySGR s [49])).bg = .dflt ∧ (abs (applySGR s [40])).bg = .idx 0 ∧
    (abs (applySGR s [100])).bg = .bright 0 ∧ (abs (applySGR s [48, 2, 0, 0, 0])).bg = .rgb 0 0 0 := by
  simp [packed_refines, Sgr.fold, Sgr.simple, Sgr.extended, AStyle.setColor]

/-- on the initial style the four packed words are exactly `0x100`, `0`, `0x200`, `0x80000000` -/
example :
    (Style.default.setColorDefault .fg).fg = 0x100#32 ∧ (Style.default.setColor256 .fg 0).fg = 0x0#32 ∧
    (Style.default.setColorBright .fg 0).fg = 0x200#32 ∧
    (Style.default.setColorRGB .fg 0 0 0).fg = 0x80000000#32 := by decide

theorem Lemmas.testMode_setColorVal (s : Style) (c : Comp) {v : BitVec 32} (hv : noModeBits v)
    (j : Nat) : (s.setColorVal c v).testMode j = s.testMode j := by
  cases c
  · show Style.testMode { s with fg := setCol s.fg v } j = _
    rw [testMode_eq, testMode_eq]
    by_cases h7 : j < 7
    · simp only [h7, if_true]
      exact getLsbD_setCol_mode hv (by omega) (by omega)
    · simp only [h7, if_false]
  · show Style.testMode { s with bg := setCol s.bg v } j = _
    rw [testMode_eq, testMode_eq]
    by_cases h7 : j < 7
    · simp only [h7, if_true]
    · by_cases h13 : j < 13
      · simp only [h7, h13, if_false, if_true]
        exact getLsbD_setCol_mode hv (by omega) (by omega)
      · simp only [h7, h13, if_false]

/-- setting a colour (any setter, any argument, either component) never changes any mode -/
theorem setColor_testMode (s : Style) (c : Comp) (n r g b : Int) (j : Nat) :
    (s.setColor256 c n).testMode j = s.testMode j ∧
    (s.setColorBright c n).testMode j = s.testMode j ∧
    (s.setColorRGB c r g b).testMode j = s.testMode j ∧
    (s.setColorDefault c).testMode j = s.testMode j := by
  refine ⟨?_, ?_, ?_, testMode_setColorVal s c noModeBits_default j⟩
  · unfold Style.setColor256; split
    · rfl
    · exact testMode_setColorVal s c (noModeBits_idx (by omega)) j
  · unfold Style.setColorBright; split
    · rfl
    · exact testMode_setColorVal s c (noModeBits_bright (by omega)) j
  · have hr : (r % 256).toNat < 256 := by omega
    have hg : (g % 256).toNat < 256 := by omega
    have hb : (b % 256).toNat < 256 := by omega
    exact testMode_setColorVal s c (noModeBits_rgb (rgb_lt hr hg hb)) j

/-- setting the foreground leaves the `bg` and `ul` words alone and vice versa -/
theorem setColorVal_other (s : Style) (v : BitVec 32) :
    (s.setColorVal .fg v).bg = s.bg ∧ (s.setColorVal .fg v).ul = s.ul ∧
    (s.setColorVal .bg v).fg = s.fg ∧ (s.setColorVal .bg v).ul = s.ul :=
  ⟨rfl, rfl, rfl, rfl⟩

/-! ## B4 — dispatch of `CSI … m`, and the style of written / blanked cells -/

/-- `CSI ps m` (no prefix): the active screen's current style becomes the fold of the parameters
    (`[0]` when there are none), exactly that style is reported to the frontend, and nothing else
    changes: grid, cursor, saved cursor, margins, wrap (all inside `{ t.scr with sty := … }`), the
    inactive buffer, the buffer selector, view state and both keyboard states. -/
theorem sgr_dispatch (t : Term) (ps : List Int) :
    let st := applySGR t.scr.sty (if ps = [] then [0] else ps)
    let r := t.csiPlain ps 0x6d
    r.2 = [Ev.style st] ∧ r.1.scr = { t.scr with sty := st } ∧ r.1.onAlt = t.onAlt ∧
    (if t.onAlt then r.1.main = t.main else r.1.alt = t.alt) ∧
    r.1.pol = t.pol ∧ r.1.vflags = t.vflags ∧ r.1.vints = t.vints ∧ r.1.vstrs = t.vstrs ∧
    r.1.kmain = t.kmain ∧ r.1.kalt = t.kalt := by
  intro st r
  have e : r = (t.setScr { t.scr with sty := st }, [Ev.style st]) := by
    show t.csiPlain ps 0x6d = _
    cases ps <;> simp [Term.csiPlain, st]
  rw [e]
  cases h : t.onAlt <;> simp [Term.setScr, Term.scr, h]

/-- the same through the token interpreter: a clean, unprefixed `CSI … m` token -/
theorem sgr_dispatch_apply (cw : Nat → Nat) (t : Term) (ps : List Int) :
    Term.apply cw t (.csi 0 ps true 0x6d) = t.csiPlain ps 0x6d := by
  simp [Term.apply, Term.csi]

/-- the frontend is told the fold of the parameters, in abstract terms -/
theorem sgr_dispatch_abs (cw : Nat → Nat) (t : Term) (ps : List Int) :
    let r := Term.apply cw t (.csi 0 ps true 0x6d)
    r.2 = [Ev.style r.1.scr.sty] ∧
    abs r.1.scr.sty = Sgr.fold (abs t.scr.sty) (if ps = [] then [0] else ps) ∧
    (Style.valid t.scr.sty → Style.valid r.1.scr.sty) := by
  intro r
  have e : r = t.csiPlain ps 0x6d := sgr_dispatch_apply cw t ps
  obtain ⟨h1, h2, _⟩ := sgr_dispatch t ps
  rw [e, h1, h2]
  exact ⟨rfl, packed_refines _ _, fun h => applySGR_valid h _⟩

namespace Lemmas

theorem length_blankRange (r : Row) (a n : Nat) (st : Style) :
    (blankRange r a n st).length = r.length := by simp [blankRange]

theorem length_blankCharAt (r : Row) (x : Nat) (st : Style) :
    (blankCharAt r x st).length = r.length := by
  unfold blankCharAt; simp only []; split <;> simp [length_blankRange]

theorem length_blankStraddlers (r : Row) (a b : Nat) (st : Style) :
    (blankStraddlers r a b st).length = r.length := by
  unfold blankStraddlers; simp only []
  split <;> split <;> simp [length_blankCharAt]

theorem getElem?_charCells (text : Bytes) (w : Nat) (st : Style) (k : Nat) (hk : k < max w 1) :
    (charCells text w st)[k]? = some (if k = 0 then ⟨.ch text w, st⟩ else ⟨.cont, st⟩) := by
  unfold charCells
  cases k with
  | zero => rfl
  | succ k =>
    rw [List.getElem?_cons_succ, List.getElem?_replicate_of_lt (by omega)]
    simp

theorem length_charCells (text : Bytes) (w : Nat) (st : Style) :
    (charCells text w st).length = max w 1 := by
  simp [charCells]; omega

end Lemmas

/-- **written cells**: after `Row.put r x text w st` every cell of the addressed range
    `[x, x + max w 1)` (inside the row) is the character's head or a continuation cell carrying
    exactly `st` — whatever `r` held there before -/
theorem written_cell (r : Row) (x : Nat) (text : Bytes) (w : Nat) (st : Style) (i : Nat)
    (hx : x ≤ i) (hi : i < x + max w 1) (hr : i < r.length) :
    (r.put x text w st)[i]? = some (if i = x then ⟨.ch text w, st⟩ else ⟨.cont, st⟩) := by
  unfold Row.put setRange
  have hl := length_blankStraddlers r x (x + w) st
  have hc := length_charCells text w st
  rw [List.getElem?_mapIdx]
  have hi' : i < (blankStraddlers r x (x + w) st).length := by omega
  rw [List.getElem?_eq_getElem hi']
  have hin : x ≤ i ∧ i < x + (charCells text w st).length := by omega
  simp only [Option.map_some, hin, and_self, if_true, List.getD_eq_getElem?_getD]
  rw [getElem?_charCells text w st (i - x) (by omega)]
  have : (i - x = 0) ↔ (i = x) := by omega
  simp [this]

theorem written_style (r : Row) (x : Nat) (text : Bytes) (w : Nat) (st : Style) (i : Nat) (c : Cell)
    (hx : x ≤ i) (hi : i < x + max w 1) (hc : (r.put x text w st)[i]? = some c) : c.sty = st := by
  have hr : i < r.length := by
    have := (List.getElem?_eq_some_iff.mp hc).1
    simpa [Row.put, setRange, length_blankStraddlers] using this
  rw [written_cell r x text w st i hx hi hr] at hc
  injection hc with hc; subst hc
  split <;> rfl

/-- **blanked cells**: after `Row.erase r a b st` every cell of `[a, b)` inside the row is a blank
    carrying exactly `st` — whatever it held before -/
theorem erased_cell (r : Row) (a b : Nat) (st : Style) (i : Nat)
    (ha : a ≤ i) (hb : i < b) (hr : i < r.length) :
    (r.erase a b st)[i]? = some (blank st) := by
  unfold Row.erase
  simp only []
  rw [if_neg (by omega)]
  unfold blankRange
  rw [List.getElem?_mapIdx]
  have hi' : i < (blankStraddlers r a (min b r.length) st).length := by
    rw [length_blankStraddlers]; exact hr
  rw [List.getElem?_eq_getElem hi']
  have : a ≤ i ∧ i < a + (min b r.length - a) := by omega
  simp [this]

theorem blank_style (st : Style) : (blank st).sty = st ∧ (blank st).g = .ch [0x20] 1 := ⟨rfl, rfl⟩

/-- screen level: `eraseRegion` (EL / ED / ECH) blanks every addressed cell in the screen's current
    style, whatever the cell held before -/
theorem eraseRegion_cell (s : Scr) (x1 y1 x2 y2 x y : Nat) (hy : y1 ≤ y ∧ y < y2)
    (hx : x1 ≤ x ∧ x < x2) (hg : y < s.grid.length) (hrow : x < (s.row y).length) :
    ((s.eraseRegion x1 y1 x2 y2).row y)[x]? = some (blank s.sty) := by
  unfold Scr.eraseRegion Scr.row
  simp only [List.getD_eq_getElem?_getD, List.getElem?_mapIdx, List.getElem?_eq_getElem hg,
    Option.map_some, Option.getD_some, hy, and_self, if_true]
  apply erased_cell _ _ _ _ _ hx.1 hx.2
  simpa [Scr.row, List.getD_eq_getElem?_getD, List.getElem?_eq_getElem hg] using hrow

/-! ## B5 — the left-to-right fold reading -/

/-- code 0 forgets everything before it -/
theorem sgr_reset (s : Style) (ps : List Int) : applySGR s (0 :: ps) = applySGR Style.default ps := by
  rw [applySGR]; simp [sgrSimple]

/-- `ps` does not end inside an extended-colour form: scanning it left to right, every `38`/`48`
    sees enough parameters to decide its own fate (`;5;n`, `;2;r;g;b`, or a selector other than
    `5`/`2`, which just drops the `38`/`48`). -/
def Sgr.closed : List Int → Bool
  | [] => true
  | p :: rest =>
    if p = 38 ∨ p = 48 then
      match rest with
      | a :: n :: tl =>
        if a = 5 then Sgr.closed tl
        else if a = 2 then
          match tl with
          | _ :: _ :: tl' => Sgr.closed tl'
          | _ => false
        else Sgr.closed (a :: n :: tl)
      | [a] => if a = 5 ∨ a = 2 then false else Sgr.closed [a]
      | [] => false
    else Sgr.closed rest
termination_by ps => ps.length
decreasing_by all_goals (simp_wf; try omega)

namespace Lemmas

theorem append_aux (n : Nat) : ∀ (ps : List Int), ps.length ≤ n → Sgr.closed ps = true →
    ∀ (s : Style) (qs : List Int), applySGR s (ps ++ qs) = applySGR (applySGR s ps) qs := by
  induction n with
  | zero =>
    intro ps h _ s qs
    have : ps = [] := List.length_eq_zero_iff.mp (by omega)
    subst this
    simp [applySGR]
  | succ n ih =>
    intro ps h hc s qs
    match ps, h, hc with
    | [], _, _ => simp [applySGR]
    | p :: rest, h, hc =>
      have hr : rest.length ≤ n := by simpa using h
      by_cases hp : p = 38 ∨ p = 48
      · rw [Sgr.closed.eq_def] at hc; simp only [hp, if_true] at hc
        match rest, hr, hc with
        | [], _, hc => simp at hc
        | [a], hr, hc =>
          by_cases ha : a = 5 ∨ a = 2
          · simp [ha] at hc
          · simp only [ha, if_false] at hc
            have h5 : ¬ a = 5 := fun e => ha (Or.inl e)
            have h2 : ¬ a = 2 := fun e => ha (Or.inr e)
            have e1 : applySGR s [p, a] = applySGR s [a] := by
              rw [applySGR, if_pos hp]
            rw [e1, ← ih [a] hr hc s qs]
            cases qs with
            | nil => simpa using e1
            | cons q qs' =>
              show applySGR s (p :: a :: q :: qs') = applySGR s (a :: q :: qs')
              rw [applySGR, if_pos hp]; simp only [h5, h2, if_false]
        | a :: v :: tl, hr, hc =>
          have htl : tl.length ≤ n := by simp at hr; omega
          by_cases h5 : a = 5
          · subst h5
            simp only [if_true] at hc
            show applySGR s (p :: 5 :: v :: (tl ++ qs)) = applySGR (applySGR s (p :: 5 :: v :: tl)) qs
            rw [applySGR, if_pos hp, applySGR, if_pos hp]
            simp only [if_true]
            exact ih tl htl hc _ qs
          · by_cases h2 : a = 2
            · subst h2
              simp only [show ¬ ((2 : Int) = 5) by decide, if_false, if_true] at hc
              match tl, htl, hc with
              | [], _, hc => simp at hc
              | [g], _, hc => simp at hc
              | g :: b :: tl', htl, hc =>
                have htl' : tl'.length ≤ n := by simp at htl; omega
                simp only at hc
                show applySGR s (p :: 2 :: v :: g :: b :: (tl' ++ qs)) =
                  applySGR (applySGR s (p :: 2 :: v :: g :: b :: tl')) qs
                rw [applySGR, if_pos hp, applySGR, if_pos hp]
                simp only [show ¬ ((2 : Int) = 5) by decide, if_false, if_true]
                exact ih tl' htl' hc _ qs
            · simp only [h5, h2, if_false] at hc
              show applySGR s (p :: a :: v :: (tl ++ qs)) = applySGR (applySGR s (p :: a :: v :: tl)) qs
              rw [applySGR, if_pos hp, applySGR, if_pos hp]
              simp only [h5, h2, if_false]
              exact ih (a :: v :: tl) hr hc s qs
      · rw [Sgr.closed.eq_def] at hc; simp only [hp, if_false] at hc
        show applySGR s (p :: (rest ++ qs)) = applySGR (applySGR s (p :: rest)) qs
        rw [applySGR, if_neg hp, applySGR, if_neg hp]
        exact ih rest hr hc _ qs

end Lemmas

/-- **B5** processing `ps ++ qs` is processing `ps`, then `qs` from the resulting style — provided
    `ps` does not stop inside an extended-colour form -/
theorem sgr_append (s : Style) (ps qs : List Int) (h : Sgr.closed ps = true) :
    applySGR s (ps ++ qs) = applySGR (applySGR s ps) qs :=
  append_aux ps.length ps (Nat.le_refl _) h s qs

/-- a lone stand-alone code -/
theorem applySGR_single (s : Style) (p : Int) (hp : ¬ (p = 38 ∨ p = 48)) :
    applySGR s [p] = sgrSimple s p := by
  rw [applySGR, if_neg hp, applySGR]

/-- a parameter list without `38`/`48` is closed, and its effect is literally `List.foldl` of the
    one-code step -/
theorem sgr_foldl (s : Style) (ps : List Int) (h : ∀ p ∈ ps, ¬ (p = 38 ∨ p = 48)) :
    applySGR s ps = ps.foldl sgrSimple s := by
  induction ps generalizing s with
  | nil => rw [applySGR]; rfl
  | cons p rest ih =>
    rw [applySGR, if_neg (h p (by simp)), List.foldl_cons]
    exact ih _ (fun q hq => h q (by simp [hq]))

/-- `CSI m` (no parameter) and `CSI 0 m` reset to the initial style -/
theorem sgr_zero (s : Style) : applySGR s [0] = Style.default := by
  rw [sgr_reset, applySGR]

/-- the code that `ANSIEscape` emits for mode bit `i` (`modeToSGRCode`) is a code that switches on
    exactly mode `i` — every other mode and both colours keep their value -/
theorem mode_code_roundtrip (s : Style) (i c : Nat) (h : modeSGRCode i = some c) (j : Nat) :
    (applySGR s [(c : Int)]).testMode j = (s.testMode j || decide (j = i)) ∧
    absColor (applySGR s [(c : Int)]).fg = absColor s.fg ∧
    absColor (applySGR s [(c : Int)]).bg = absColor s.bg := by
  have key : i < 13 ∧ applySGR s [(c : Int)] = s.setMode i := by
    unfold modeSGRCode at h
    split at h <;> cases h <;> exact ⟨by decide, applySGR_single s _ (by decide)⟩
  rw [key.2]
  exact ⟨setMode_testMode s i j key.1, (setMode_absColor s i).1, (setMode_absColor s i).2⟩

/-! ## End to end: the rendition set by `CSI … m` is the one later cells carry -/

namespace Lemmas

theorem scr_setScr (t : Term) (s : Scr) : (t.setScr s).scr = s := by
  cases h : t.onAlt <;> simp [Term.setScr, Term.scr, h]

theorem inv_facts {s : Scr} (h : s.inv = true) :
    s.cy < s.h ∧ s.cx < s.w ∧ s.grid.length = s.h ∧ (s.row s.cy).length = s.w := by
  simp only [Scr.inv, Bool.and_eq_true, decide_eq_true_eq, List.all_eq_true] at h
  obtain ⟨⟨⟨⟨⟨⟨⟨⟨⟨_, _⟩, hg⟩, hall⟩, hcx⟩, hcy⟩, _⟩, _⟩, _⟩, _⟩ := h
  refine ⟨hcy, hcx, hg, ?_⟩
  have hlt : s.cy < s.grid.length := by omega
  have hm : s.grid[s.cy] ∈ s.grid := List.getElem_mem hlt
  have := (hall _ hm).1
  simpa [Scr.row, List.getD_eq_getElem?_getD, List.getElem?_eq_getElem hlt] using this

end Lemmas

/-- `CSI ps m` followed by `CSI 2 K` (erase line): every cell of the cursor row is a blank whose
    style decodes to the fold of `ps` over the previous rendition -/
theorem sgr_then_erase_line (t : Term) (ps : List Int) (x : Nat) (hinv : t.scr.inv = true)
    (hx : x < t.scr.w) :
    let st := applySGR t.scr.sty (if ps = [] then [0] else ps)
    let t1 := (t.csiPlain ps 0x6d).1
    let t2 := (t1.csiPlain [2] 0x4b).1
    (t2.scr.row t.scr.cy)[x]? = some (blank st) ∧
    abs st = Sgr.fold (abs t.scr.sty) (if ps = [] then [0] else ps) := by
  intro st t1 t2
  refine ⟨?_, packed_refines _ _⟩
  obtain ⟨hcy, hcx, hg, hrow⟩ := inv_facts hinv
  have h1 : t1.scr = { t.scr with sty := st } := (sgr_dispatch t ps).2.1
  have h2 : t2.scr = t1.scr.eraseRegion 0 t.scr.cy t.scr.w (t.scr.cy + 1) := by
    show ((t1.csiPlain [2] 0x4b).1).scr = _
    simp only [Term.csiPlain, p0]
    simp only [show ¬ ((0x4b : UInt8) = 0x41) by decide, show ¬ ((0x4b : UInt8) = 0x42) by decide,
      show ¬ ((0x4b : UInt8) = 0x43) by decide, show ¬ ((0x4b : UInt8) = 0x44) by decide,
      show ¬ ((0x4b : UInt8) = 0x47) by decide, show ¬ ((0x4b : UInt8) = 0x64) by decide,
      show ¬ ((0x4b : UInt8) = 0x66 ∨ (0x4b : UInt8) = 0x48) by decide,
      show ¬ ((0x4b : UInt8) = 0x63) by decide, show ¬ ((0x4b : UInt8) = 0x6d) by decide,
      show ¬ ((0x4b : UInt8) = 0x73) by decide, show ¬ ((0x4b : UInt8) = 0x75) by decide,
      show ¬ ((2 : Int) = 0) by decide, show ¬ ((2 : Int) = 1) by decide, if_false, if_true]
    rw [scr_setScr, h1]
    simp only [Scr.eraseRegionI, clampNat]
    congr 1 <;> omega
  rw [h2, h1]
  have := eraseRegion_cell { t.scr with sty := st } 0 t.scr.cy t.scr.w (t.scr.cy + 1) x t.scr.cy
    ⟨Nat.le_refl _, Nat.lt_succ_self _⟩ ⟨Nat.zero_le _, hx⟩ (by show t.scr.cy < t.scr.grid.length; omega)
    (by show x < (t.scr.row t.scr.cy).length; omega)
  exact this

/-- PARTIAL (screen level; the row-level statement `written_cell` is complete).
    Full statement: for every screen satisfying `Scr.inv`, every policy, text and width, every cell
    that `Scr.put` writes (after a possible line wrap / scroll, after the U+FFFD substitution for a
    too-wide character, and under the `keep` policy after the kept wide character) carries
    `s.sty`. Proved here: a character of width `w0 ≥ 1` printed where it fits strictly inside the
    line and not on the second half of a wide character — its cells carry exactly the screen's
    current style, whatever was there before. Missing: the wrap, too-wide and `putKeep` branches. -/
theorem put_cell_partial (pol : WidePolicy) (s : Scr) (text : Bytes) (w0 : Nat) (hw : 1 ≤ w0)
    (hfit : s.cx + w0 < s.w) (hk : contAt (s.row s.cy) s.cx = false)
    (hcy : s.cy < s.grid.length) (hrow : (s.row s.cy).length = s.w) (i : Nat)
    (hi : s.cx ≤ i ∧ i < s.cx + w0) :
    ((s.put pol text w0).row s.cy)[i]? =
      some (if i = s.cx then ⟨.ch text w0, s.sty⟩ else ⟨.cont, s.sty⟩) ∧
    (s.put pol text w0).sty = s.sty := by
  have hm : max w0 1 = w0 := by omega
  have h1 : ¬ (w0 > s.w) := by omega
  have h2 : ¬ (s.cx + w0 > s.w) := by omega
  have e : s.put pol text w0 =
      { s.setRow s.cy ((s.row s.cy).put s.cx text w0 s.sty) with cx := s.cx + w0 } := by
    unfold Scr.put
    simp only [hm, h1, h2, if_false, hk, Bool.false_and, Bool.false_eq_true, Nat.add_zero]
    simp only [Scr.setRow, hfit, if_true]
  rw [e]
  refine ⟨?_, rfl⟩
  have : (({ s.setRow s.cy ((s.row s.cy).put s.cx text w0 s.sty) with cx := s.cx + w0 } : Scr).row s.cy) =
      (s.row s.cy).put s.cx text w0 s.sty := by
    simp [Scr.row, Scr.setRow, List.getD_eq_getElem?_getD, hcy]
  rw [this]
  exact written_cell _ _ _ _ _ _ hi.1 (by omega) (by omega)

/-- PARTIAL in the same way as `put_cell_partial` (no wrap, not on a continuation cell):
    `CSI ps m` followed by a printed character — the character's cells carry the style that
    decodes to the fold of `ps` over the previous rendition, and it stays the current style -/
theorem sgr_then_text_partial (cw : Nat → Nat) (t : Term) (ps : List Int) (stored : Bytes) (cp : Nat)
    (hinv : t.scr.inv = true) (hw : 1 ≤ cw cp) (hfit : t.scr.cx + cw cp < t.scr.w)
    (hk : contAt (t.scr.row t.scr.cy) t.scr.cx = false) (i : Nat)
    (hi : t.scr.cx ≤ i ∧ i < t.scr.cx + cw cp) :
    let st := applySGR t.scr.sty (if ps = [] then [0] else ps)
    let t1 := (Term.apply cw t (.csi 0 ps true 0x6d)).1
    let t2 := (Term.apply cw t1 (.text stored cp)).1
    (t2.scr.row t.scr.cy)[i]? =
      some (if i = t.scr.cx then ⟨.ch stored (cw cp), st⟩ else ⟨.cont, st⟩) ∧
    t2.scr.sty = st ∧
    abs st = Sgr.fold (abs t.scr.sty) (if ps = [] then [0] else ps) := by
  intro st t1 t2
  obtain ⟨hcy, hcx, hg, hrow⟩ := inv_facts hinv
  have h1 : t1.scr = { t.scr with sty := st } := by
    show ((Term.apply cw t (.csi 0 ps true 0x6d)).1).scr = _
    rw [sgr_dispatch_apply]; exact (sgr_dispatch t ps).2.1
  have hp : t1.pol = t.pol := by
    show ((Term.apply cw t (.csi 0 ps true 0x6d)).1).pol = _
    rw [sgr_dispatch_apply]; exact (sgr_dispatch t ps).2.2.2.2.1
  have h2 : t2.scr = t1.scr.put t1.pol stored (cw cp) := by
    show ((Term.apply cw t1 (.text stored cp)).1).scr = _
    simp only [Term.apply]; rw [scr_setScr]
  rw [h2, h1]
  have := put_cell_partial t1.pol { t.scr with sty := st } stored (cw cp) hw hfit hk
    (by show t.scr.cy < t.scr.grid.length; omega) hrow i hi
  exact ⟨this.1, this.2, packed_refines _ _⟩

/-! ## No foreign style ever appears: provenance of every cell after a write -/

namespace Lemmas

/-- every cell of `r'` either carries `st` or was already in `r` -/
def RowProv (st : Style) (r r' : Row) : Prop := ∀ c ∈ r', c.sty = st ∨ c ∈ r

theorem RowProv.refl (st : Style) (r : Row) : RowProv st r r := fun _ h => Or.inr h

theorem RowProv.trans {st : Style} {a b c : Row} (h1 : RowProv st a b) (h2 : RowProv st b c) :
    RowProv st a c := by
  intro x hx
  rcases h2 x hx with h | h
  · exact Or.inl h
  · exact h1 x h

theorem prov_blankRange (r : Row) (a n : Nat) (st : Style) : RowProv st r (blankRange r a n st) := by
  intro c hc
  obtain ⟨i, hi, e⟩ := List.exists_of_mem_mapIdx hc
  split at e
  · left; rw [← e]; rfl
  · right; rw [← e]; exact List.getElem_mem hi

theorem prov_blankCharAt (r : Row) (x : Nat) (st : Style) : RowProv st r (blankCharAt r x st) := by
  unfold blankCharAt; simp only []
  split
  · exact RowProv.refl _ _
  · exact prov_blankRange _ _ _ _

theorem prov_blankStraddlers (r : Row) (a b : Nat) (st : Style) :
    RowProv st r (blankStraddlers r a b st) := by
  unfold blankStraddlers; simp only []
  generalize hr1 : (if contAt r a then blankCharAt r a st else r) = r1
  have h1 : RowProv st r r1 := by
    rw [← hr1]; split
    · exact prov_blankCharAt _ _ _
    · exact RowProv.refl _ _
  split
  · exact h1.trans (prov_blankCharAt _ _ _)
  · exact h1

theorem sty_of_mem_charCells {text : Bytes} {w : Nat} {st : Style} {c : Cell}
    (h : c ∈ charCells text w st) : c.sty = st := by
  unfold charCells at h
  rcases List.mem_cons.mp h with h | h
  · rw [h]
  · rw [(List.mem_replicate.mp h).2]

theorem mem_setRange {r : Row} {a : Nat} {cells : List Cell} {c : Cell}
    (h : c ∈ setRange r a cells) : c ∈ cells ∨ c ∈ r := by
  obtain ⟨i, hi, e⟩ := List.exists_of_mem_mapIdx h
  split at e
  · rename_i hin
    have hlt : i - a < cells.length := by omega
    rw [List.getD_eq_getElem?_getD, List.getElem?_eq_getElem hlt, Option.getD_some] at e
    left; rw [← e]; exact List.getElem_mem hlt
  · right; rw [← e]; exact List.getElem_mem hi

theorem prov_put (r : Row) (x : Nat) (text : Bytes) (w : Nat) (st : Style) :
    RowProv st r (r.put x text w st) := by
  intro c hc
  unfold Row.put at hc
  rcases mem_setRange hc with h | h
  · exact Or.inl (sty_of_mem_charCells h)
  · exact prov_blankStraddlers _ _ _ _ c h

theorem prov_fixTail (r : Row) (st : Style) : RowProv st r (fixTail r st) := by
  unfold fixTail
  split
  · split
    · intro c hc
      rcases List.mem_append.mp hc with h | h
      · exact Or.inr (List.dropLast_subset _ h)
      · left; rw [List.mem_singleton.mp h]; rfl
    · exact RowProv.refl _ _
  · exact RowProv.refl _ _

theorem prov_cutRow (r : Row) (W : Nat) (st : Style) : RowProv st r (cutRow r W st) := by
  unfold cutRow
  intro c hc
  have hc := List.mem_of_mem_take hc
  split at hc
  · exact prov_blankCharAt _ _ _ c hc
  · exact Or.inr hc

theorem prov_putKeep (r : Row) (x : Nat) (text : Bytes) (w : Nat) (st : Style) :
    RowProv st r (r.putKeep x text w st) := by
  unfold Row.putKeep; simp only []
  refine RowProv.trans ?_ (prov_cutRow _ _ _)
  have h1 : RowProv st r (if contAt r (x + w) then blankCharAt r (x + w) st else r) := by
    split
    · exact prov_blankCharAt _ _ _
    · exact RowProv.refl _ _
  intro c hc
  rcases List.mem_append.mp hc with h | h
  · rcases List.mem_append.mp h with h | h
    · exact Or.inr (List.mem_of_mem_take h)
    · exact Or.inl (sty_of_mem_charCells h)
  · split at h
    · rcases List.mem_append.mp h with h | h
      · left; rw [(List.mem_replicate.mp h).2]; rfl
      · exact Or.inr (List.mem_of_mem_drop h)
    · exact h1 c (List.mem_of_mem_drop h)

/-- every cell of the grid `g'` either carries `st` or was already somewhere in the grid `g` -/
def GridProv (st : Style) (g g' : List Row) : Prop :=
  ∀ r' ∈ g', ∀ c ∈ r', c.sty = st ∨ ∃ r ∈ g, c ∈ r

theorem GridProv.refl (st : Style) (g : List Row) : GridProv st g g :=
  fun r hr _ hc => Or.inr ⟨r, hr, hc⟩

theorem GridProv.trans {st : Style} {g1 g2 g3 : List Row} (h1 : GridProv st g1 g2)
    (h2 : GridProv st g2 g3) : GridProv st g1 g3 := by
  intro r hr x hx
  rcases h2 r hr x hx with h | ⟨r', hr', hx'⟩
  · exact Or.inl h
  · exact h1 r' hr' x hx'

theorem prov_of_rows {st : Style} {g g' : List Row}
    (h : ∀ r' ∈ g', r' ∈ g ∨ ∀ c ∈ r', c.sty = st) : GridProv st g g' := by
  intro r hr c hc
  rcases h r hr with h | h
  · exact Or.inr ⟨r, h, hc⟩
  · exact Or.inl (h c hc)

theorem sty_of_mem_blankRow {w : Nat} {st : Style} {c : Cell} (h : c ∈ blankRow w st) :
    c.sty = st := by
  unfold blankRow at h; rw [(List.mem_replicate.mp h).2]; rfl

theorem scroll_sty (s : Scr) (y1 y2 : Nat) (d : Int) : (s.scroll y1 y2 d).sty = s.sty := by
  unfold Scr.scroll; split <;> rfl

theorem prov_scroll (s : Scr) (y1 y2 : Nat) (d : Int) :
    GridProv s.sty s.grid (s.scroll y1 y2 d).grid := by
  unfold Scr.scroll
  split
  · exact GridProv.refl _ _
  · apply prov_of_rows
    intro r hr
    simp only [] at hr
    have hblank : ∀ k, r ∈ List.replicate k (blankRow s.w s.sty) → ∀ c ∈ r, c.sty = s.sty := by
      intro k h c hc; rw [(List.mem_replicate.mp h).2] at hc; exact sty_of_mem_blankRow hc
    rcases List.mem_append.mp hr with h | h
    · rcases List.mem_append.mp h with h | h
      · exact Or.inl (List.mem_of_mem_take h)
      · split at h
        · rcases List.mem_append.mp h with h | h
          · exact Or.inr (hblank _ h)
          · exact Or.inl (List.mem_of_mem_drop (List.mem_of_mem_take (List.mem_of_mem_take h)))
        · rcases List.mem_append.mp h with h | h
          · exact Or.inl (List.mem_of_mem_drop (List.mem_of_mem_take (List.mem_of_mem_drop h)))
          · exact Or.inr (hblank _ h)
    · exact Or.inl (List.mem_of_mem_drop h)

theorem lineDown_sty (s : Scr) : s.lineDown.sty = s.sty := by
  unfold Scr.lineDown
  split
  · exact scroll_sty _ _ _ _
  · split <;> rfl

theorem prov_lineDown (s : Scr) : GridProv s.sty s.grid s.lineDown.grid := by
  unfold Scr.lineDown
  split
  · exact prov_scroll _ _ _ _
  · split <;> exact GridProv.refl _ _

theorem prov_setRow (s : Scr) (y : Nat) (r' : Row) (st : Style) (h : RowProv st (s.row y) r') :
    GridProv st s.grid (s.setRow y r').grid := by
  intro r hr c hc
  rcases List.mem_or_eq_of_mem_set hr with hm | he
  · exact Or.inr ⟨r, hm, hc⟩
  · subst he
    rcases h c hc with h | h
    · exact Or.inl h
    · right
      unfold Scr.row at h
      rw [List.getD_eq_getElem?_getD] at h
      cases hy : s.grid[y]? with
      | none => rw [hy] at h; simp at h
      | some r0 => rw [hy] at h; exact ⟨r0, List.mem_of_getElem? hy, h⟩

/-- first step of `Scr.put`: make room (wrap to the next line, or step back) -/
def putPre (s : Scr) (w : Nat) : Scr :=
  if s.cx + w > s.w then
    (if s.wrap then ({ s with cx := 0 } : Scr).lineDown else { s with cx := s.w - w })
  else s

/-- last step of `Scr.put`: advance the cursor (wrapping when allowed) -/
def putPost (s : Scr) (x : Nat) : Scr :=
  if x < s.w then { s with cx := x }
  else if s.wrap then ({ s with cx := x - s.w } : Scr).lineDown
  else { s with cx := s.w - 1 }

theorem put_eq (pol : WidePolicy) (s : Scr) (text0 : Bytes) (w0 : Nat) :
    s.put pol text0 w0 =
      (let tooWide := max w0 1 > s.w
       let text := if tooWide then replacementChar else text0
       let w := if tooWide then 1 else max w0 1
       let s1 := putPre s w
       let r := s1.row s1.cy
       let keep := contAt r s1.cx && pol == .keep
       let r' := if keep then r.putKeep s1.cx text w s1.sty else r.put s1.cx text w s1.sty
       putPost (s1.setRow s1.cy r')
         (s1.cx + w + (if keep then headOf r s1.cx + widthAt r (headOf r s1.cx) - s1.cx else 0))) :=
  rfl

theorem prov_putPre (s : Scr) (w : Nat) :
    (putPre s w).sty = s.sty ∧ GridProv s.sty s.grid (putPre s w).grid := by
  unfold putPre
  split
  · split
    · exact ⟨lineDown_sty _, prov_lineDown ({ s with cx := 0 } : Scr)⟩
    · exact ⟨rfl, GridProv.refl _ _⟩
  · exact ⟨rfl, GridProv.refl _ _⟩

theorem prov_putPost (s : Scr) (x : Nat) :
    (putPost s x).sty = s.sty ∧ GridProv s.sty s.grid (putPost s x).grid := by
  unfold putPost
  split
  · exact ⟨rfl, GridProv.refl _ _⟩
  · split
    · exact ⟨lineDown_sty _, prov_lineDown ({ s with cx := x - s.w } : Scr)⟩
    · exact ⟨rfl, GridProv.refl _ _⟩

end Lemmas

/-- **written cells, screen level, all branches** (wrap, scroll, too-wide substitution, both wide
    policies): after printing a character, every cell of the grid either carries the screen's
    current style or is a cell that was already on the screen. No other style is ever
    introduced, and the current style itself is unchanged. -/
theorem put_style_provenance (pol : WidePolicy) (s : Scr) (text : Bytes) (w0 : Nat) :
    (s.put pol text w0).sty = s.sty ∧
    ∀ r' ∈ (s.put pol text w0).grid, ∀ c ∈ r', c.sty = s.sty ∨ ∃ r ∈ s.grid, c ∈ r := by
  rw [put_eq]
  simp only []
  generalize (if max w0 1 > s.w then 1 else max w0 1) = w
  generalize (if max w0 1 > s.w then replacementChar else text) = tx
  obtain ⟨hs1, hg1⟩ := prov_putPre s w
  generalize putPre s w = s1 at hs1 hg1 ⊢
  generalize hr' : (if (contAt (s1.row s1.cy) s1.cx && pol == .keep) = true
      then (s1.row s1.cy).putKeep s1.cx tx w s1.sty else (s1.row s1.cy).put s1.cx tx w s1.sty) = r'
  have hp : RowProv s1.sty (s1.row s1.cy) r' := by
    rw [← hr']; split
    · exact prov_putKeep _ _ _ _ _
    · exact prov_put _ _ _ _ _
  have h2 : GridProv s1.sty s1.grid (s1.setRow s1.cy r').grid := prov_setRow s1 s1.cy r' s1.sty hp
  generalize (s1.cx + w + (if (contAt (s1.row s1.cy) s1.cx && pol == .keep) = true
      then headOf (s1.row s1.cy) s1.cx + widthAt (s1.row s1.cy) (headOf (s1.row s1.cy) s1.cx) - s1.cx
      else 0)) = x
  obtain ⟨hs3, hg3⟩ := prov_putPost (s1.setRow s1.cy r') x
  have e2 : (s1.setRow s1.cy r').sty = s1.sty := rfl
  rw [e2] at hs3 hg3
  rw [hs1] at hs3 hg3 h2
  exact ⟨hs3, hg1.trans (h2.trans hg3)⟩

/-- `CSI ps m` followed by any printed character, any screen state: afterwards the current style
    is still the fold of `ps`, and every cell on the screen either carries it or was there before -/
theorem sgr_then_text_provenance (cw : Nat → Nat) (t : Term) (ps : List Int) (stored : Bytes)
    (cp : Nat) :
    let st := applySGR t.scr.sty (if ps = [] then [0] else ps)
    let t1 := (Term.apply cw t (.csi 0 ps true 0x6d)).1
    let t2 := (Term.apply cw t1 (.text stored cp)).1
    t2.scr.sty = st ∧ abs st = Sgr.fold (abs t.scr.sty) (if ps = [] then [0] else ps) ∧
    ∀ r' ∈ t2.scr.grid, ∀ c ∈ r', c.sty = st ∨ ∃ r ∈ t.scr.grid, c ∈ r := by
  intro st t1 t2
  have h1 : t1.scr = { t.scr with sty := st } := by
    show ((Term.apply cw t (.csi 0 ps true 0x6d)).1).scr = _
    rw [sgr_dispatch_apply]; exact (sgr_dispatch t ps).2.1
  have h2 : t2.scr = t1.scr.put t1.pol stored (cw cp) := by
    show ((Term.apply cw t1 (.text stored cp)).1).scr = _
    simp only [Term.apply]; rw [scr_setScr]
  have := put_style_provenance t1.pol t1.scr stored (cw cp)
  rw [← h2, h1] at this
  exact ⟨this.1, packed_refines _ _, this.2⟩

/-! ## Non-vacuity and sanity examples -/

example : Style.valid Style.default := by decide

/-- a non-trivial packed style (bold + underline + framed, palette 196 on RGB) is valid -/
example : Style.valid
    ((((Style.default.setMode 0).setMode 3).setMode 10).setColor256 .fg 196 |>.setColorRGB .bg 10 20 300) := by
  decide

/-- the specification evaluated on a mixed list: modes, both extended forms, a truncated form
    (`38;2;7` at the end: the `38` is dropped, `2` is "dim", `7` is "reverse") -/
example :
    let a := Sgr.fold AStyle.default [1, 38, 5, 196, 48, 2, 10, 20, 300, 4, 38, 2, 7]
    a.fg = .idx 196 ∧ a.bg = .rgb 10 20 44 ∧ a.modes .bold = true ∧ a.modes .underline = true ∧
    a.modes .dim = true ∧ a.modes .reverse = true ∧ a.modes .italic = false := by
  simp [Sgr.fold, Sgr.extended, Sgr.simple, AStyle.setColor, AStyle.on, AStyle.default]

/-- … and so does the packed implementation (through `packed_refines`) -/
example :
    let s := applySGR Style.default [1, 38, 5, 196, 48, 2, 10, 20, 300, 4, 38, 2, 7]
    (abs s).fg = .idx 196 ∧ (abs s).bg = .rgb 10 20 44 ∧ (abs s).modes .bold = true ∧
    (abs s).modes .italic = false ∧ Style.valid s := by
  refine ⟨?_, ?_, ?_, ?_, applySGR_valid valid_default _⟩ <;>
    simp [packed_refines, abs_default, Sgr.fold, Sgr.extended, Sgr.simple, AStyle.setColor, AStyle.on,
      AStyle.default]

/-- validity is needed for injectivity: two unreachable words decode to the same colour -/
example : absColor 0x300#32 = absColor 0x308#32 ∧ (0x300#32 : BitVec 32) ≠ 0x308#32 ∧
    ¬ colValid 0x308#32 := by decide

example : Sgr.closed [1, 38, 5, 196, 48, 2, 1, 2, 3, 0] = true := by simp [Sgr.closed]
example : Sgr.closed [38, 7] = true := by simp [Sgr.closed]
example : Sgr.closed [1, 38] = false ∧ Sgr.closed [38, 5] = false ∧ Sgr.closed [48, 2, 1, 2] = false := by
  simp [Sgr.closed]

/-- the side condition of `sgr_append` cannot be dropped: cutting `38;5;1` after the `38` -/
example : applySGR Style.default ([38] ++ [5, 1]) ≠ applySGR (applySGR Style.default [38]) [5, 1] := by
  intro h
  have := congrArg (fun s => (abs s).fg) h
  simp [packed_refines, abs_default, Sgr.fold, Sgr.extended, Sgr.simple, AStyle.setColor, AStyle.on,
    AStyle.default] at this

/-- hypotheses of the end-to-end theorems are satisfiable -/
example : (Term.init .blank 4 2).scr.inv = true ∧ (0 : Nat) < (Term.init .blank 4 2).scr.w ∧
    contAt ((Term.init .blank 4 2).scr.row (Term.init .blank 4 2).scr.cy) (Term.init .blank 4 2).scr.cx = false ∧
    (Term.init .blank 4 2).scr.cx + 2 < (Term.init .blank 4 2).scr.w := by decide

/-- the terminal starts in a valid style (both buffers), so by `sgr_dispatch_abs` every rendition
    the terminal ever holds through `CSI … m` is valid -/
theorem init_style_valid (pol : WidePolicy) (w h : Nat) :
    Style.valid (Term.init pol w h).main.sty ∧ Style.valid (Term.init pol w h).alt.sty :=
  ⟨valid_default, valid_default⟩

/-- the thirteen abstract modes are exactly the Go mode constants, bit indices 0–12, each once -/
example : Mode.all.map Mode.bit = List.range 13 ∧
    Mode.all.map Mode.bit = [mBold, mDim, mItalic, mUnderline, mBlink, mReverse, mInvisible, mStrike,
      mOverline, mDoubleUnderline, mFramed, mEncircled, mRapidBlink] := by decide

end TM.C07

#print axioms TM.C07.sgrSimple_refines
#print axioms TM.C07.packed_refines
#print axioms TM.C07.applySGR_valid
#print axioms TM.C07.reachable_valid
#print axioms TM.C07.init_style_valid
#print axioms TM.C07.abs_injective
#print axioms TM.C07.abs_injective_words
#print axioms TM.C07.setMode_testMode
#print axioms TM.C07.resetMode_testMode
#print axioms TM.C07.setMode_out_of_range
#print axioms TM.C07.setMode_color_frame
#print axioms TM.C07.resetMode_color_frame
#print axioms TM.C07.setMode_absColor
#print axioms TM.C07.resetMode_absColor
#print axioms TM.C07.setColor_testMode
#print axioms TM.C07.abs_setColor256
#print axioms TM.C07.setColor256_reject
#print axioms TM.C07.abs_setColorBright
#print axioms TM.C07.setColorBright_reject
#print axioms TM.C07.abs_setColorRGB
#print axioms TM.C07.abs_setColorDefault
#print axioms TM.C07.blackish_abs
#print axioms TM.C07.blackish_abs_bg
#print axioms TM.C07.blackish_packed_distinct
#print axioms TM.C07.mode_code_roundtrip
#print axioms TM.C07.sgr_dispatch
#print axioms TM.C07.sgr_dispatch_apply
#print axioms TM.C07.sgr_dispatch_abs
#print axioms TM.C07.written_cell
#print axioms TM.C07.written_style
#print axioms TM.C07.erased_cell
#print axioms TM.C07.eraseRegion_cell
#print axioms TM.C07.sgr_reset
#print axioms TM.C07.sgr_zero
#print axioms TM.C07.sgr_append
#print axioms TM.C07.sgr_foldl
#print axioms TM.C07.sgr_then_erase_line
#print axioms TM.C07.put_cell_partial
#print axioms TM.C07.sgr_then_text_partial
#print axioms TM.C07.put_style_provenance
#print axioms TM.C07.sgr_then_text_provenance
