import Props.C20Grid
import Props.C11
import TM.Ansi
/-!
# C20GridAnsi — what the grid buffer's accessors read from the rune array

`Props/C20Grid.lean` relates the array-level grid buffer to the cell model through `GCell.abs`,
which ignores the rune array `ch` (`chars[y][x]`). `Line(y)` and `renderLineANSI(y)` read exactly
that array (`GRow.line`, `GRow.ansi`). Here:

* 2 `ansi_eq_renderRowANSI`: on a row whose rune array is consistent (`r.all GCell.okCh`), the
  grid's `ANSILine` is the cell-level rendering byte for byte; `grid_ansi_roundtrip`: so
  `C11.row_roundtrip` applies to the bytes the grid itself renders.
* 3 `line_eq_cells`: `Line(y)` is the texts of the cells with one blank per continuation cell.
* 1 the rune array stays consistent, WITHOUT any hypothesis on the shape of the row / screen
  (no `RowOK`, no `GScr.inv`, no bounds): rows `row_ops_okCh` (`clearWideAt_chOK`,
  `writeBlanks_chOK`, `writeRune_chOK` for `rune ≠ 0`, `deleteChars_chOK`, `resize_chOK`,
  `gBlankRow_chOK`, over `CellsOK r ↔ r.all GCell.okCh`, `cellsOK_iff`); screens (`GScr.chOK`):
  `init_chOK`, `scroll_chOK`, `put_chOK` (hypothesis `(decodeRune text).1 ≠ 0`), `eraseRegion_chOK`,
  `eraseRegionI_chOK`, `dch_chOK`, `resize_chOK'`; terminal (`TermOK`): `apply_chOK` (tokens with
  `TokNZ`), `term_resize_chOK`, `run_chOK_from`; `tokNZ_of_tokOK` (tokeniser tokens), `stream_chOK`.
* capstone `stream_ansi_line`: after every byte stream, `ANSILine(y)` / `Line(y)` of both grid
  buffers are the rendering / the texts of row `y` of the model terminal.
* 4 non-vacuity: a row with a wide character and two attribute stretches; the hypotheses are needed.
-/
namespace TM.C20GridAnsi
open TM TM.C20Grid

/-! ## 2. `ANSILine` reads the rune array: it is the cell-level rendering -/

theorem okCh_cont {c : GCell} (h : c.okCh = true) (hc : c.cont = true) : c.ch = 0 := by
  unfold GCell.okCh at h
  rw [if_pos hc] at h
  exact eq_of_beq h

theorem okCh_ch {c : GCell} (h : c.okCh = true) (hc : c.cont = false) :
    encodeRune c.ch = c.text ∧ c.ch ≠ 0 := by
  unfold GCell.okCh at h
  rw [if_neg (by simp [hc])] at h
  rw [Bool.and_eq_true] at h
  exact ⟨eq_of_beq h.1, by simpa using h.2⟩

theorem abs_sty (c : GCell) : c.abs.sty = c.sty := by
  unfold GCell.abs; split <;> rfl

/-- the bytes one cell contributes to `ANSILine` are the text of its abstraction -/
theorem cell_ansi_text {c : GCell} (h : c.okCh = true) :
    (if c.ch = 0 then [] else encodeRune c.ch) =
      (match c.abs.g with | .ch t _ => t | .cont => []) := by
  cases hc : c.cont
  · obtain ⟨h1, h2⟩ := okCh_ch h hc
    rw [abs_of_not_cont hc, if_neg h2, h1]
  · rw [abs_of_cont hc, if_pos (okCh_cont h hc)]

theorem ansiAux_eq_renderCells : ∀ (r : GRow) (prev : Option Style), r.all GCell.okCh = true →
    GRow.ansiAux prev r = renderCells prev (r.map GCell.abs) := by
  intro r
  induction r with
  | nil => intro prev _; rfl
  | cons c rest ih =>
    intro prev h
    rw [List.all_cons, Bool.and_eq_true] at h
    show (if prev = some c.sty then [] else c.sty.ansiEscape) ++
        (if c.ch = 0 then [] else encodeRune c.ch) ++ GRow.ansiAux (some c.sty) rest =
      (if prev = some c.abs.sty then [] else c.abs.sty.ansiEscape) ++
        (match c.abs.g with | .ch t _ => t | .cont => []) ++
        renderCells (some c.abs.sty) (rest.map GCell.abs)
    rw [abs_sty, cell_ansi_text h.1, ih _ h.2]

/-- **2.** on a row whose rune array agrees with its text array, the grid buffer's `ANSILine`
    (`renderLineANSI` of `screen_grid.go`, reading `chars`) is the cell-level rendering of the
    cells it shows, byte for byte -/
theorem ansi_eq_renderRowANSI {r : GRow} (h : r.all GCell.okCh = true) :
    GRow.ansi r = renderRowANSI (r.map GCell.abs) :=
  ansiAux_eq_renderCells r none h

/-- **2'.** hence `C11.row_roundtrip` applies to the grid buffer's own `ANSILine`: `CUP(y,1)`
    followed by the bytes the grid renders for a row, fed to a fresh terminal of the same size,
    reproduces the cells of that row (hypotheses of `row_roundtrip` on the cells shown) -/
theorem grid_ansi_roundtrip (cw : Nat → Nat) (pol : WidePolicy) (w h y : Nat) (r : GRow)
    (hch : r.all GCell.okCh = true)
    (hy : y < h) (hmax : y < paramMax) (hlen : r.length = w) (hr : C11.RowOK cw (r.map GCell.abs)) :
    (run cw (Term.init pol w h) (cupRow y ++ GRow.ansi r)).1.main.row y = r.map GCell.abs := by
  rw [ansi_eq_renderRowANSI hch]
  exact C11.row_roundtrip cw pol w h y (r.map GCell.abs) hy hmax (by rw [List.length_map]; exact hlen) hr

/-! ## 3. `Line` reads the rune array: the texts, one blank per continuation cell -/

theorem cell_line_text {c : GCell} (h : c.okCh = true) :
    (if c.ch = 0 then [0x20] else encodeRune c.ch) =
      (match c.abs.g with | .ch t _ => t | .cont => [0x20]) := by
  cases hc : c.cont
  · obtain ⟨h1, h2⟩ := okCh_ch h hc
    rw [abs_of_not_cont hc, if_neg h2, h1]
  · rw [abs_of_cont hc, if_pos (okCh_cont h hc)]

/-- **3.** `Line(y)` of the grid buffer is the texts of the character cells, every continuation
    cell shown as one blank -/
theorem line_eq_cells {r : GRow} (h : r.all GCell.okCh = true) :
    GRow.line r = (r.map GCell.abs).flatMap fun c => match c.g with
      | .ch t _ => t | .cont => [0x20] := by
  induction r with
  | nil => rfl
  | cons c rest ih =>
    rw [List.all_cons, Bool.and_eq_true] at h
    show (if c.ch = 0 then [0x20] else encodeRune c.ch) ++ GRow.line rest = _
    rw [List.map_cons, List.flatMap_cons, ← ih h.2, cell_line_text h.1]

/-! ## 1. the rune array stays consistent -/

/-! ### row level (no hypothesis on the row: the rune array is consistent after the operation
whenever it was before, whatever the shape of the row) -/

/-- every cell of the row has a consistent rune -/
def CellsOK (r : GRow) : Prop := ∀ c ∈ r, c.okCh = true

theorem cellsOK_iff {r : GRow} : r.all GCell.okCh = true ↔ CellsOK r := List.all_eq_true

/-- `okCh` looks at `cont`, `ch`, `text` only -/
theorem okCh_congr {c d : GCell} (h1 : d.cont = c.cont) (h2 : d.ch = c.ch) (h3 : d.text = c.text) :
    d.okCh = c.okCh := by
  unfold GCell.okCh; rw [h1, h2, h3]

theorem okCh_gBlank (st : Style) : (gBlank st).okCh = true :=
  (okCh_congr (c := gBlank Style.default) rfl rfl rfl).trans (by decide)

theorem okCh_ite {p : Prop} [Decidable p] {a b : GCell} (ha : a.okCh = true) (hb : b.okCh = true) :
    (if p then a else b).okCh = true := by
  split <;> assumption

theorem okCh_gCont (st : Style) : (gCont st).okCh = true := rfl

theorem okCh_gHead {rune : Nat} (h : rune ≠ 0) (w : Nat) (st : Style) : (gHead rune w st).okCh = true := by
  show (if false = true then _ else encodeRune rune == encodeRune rune && rune != 0) = true
  simp [h]

theorem okCh_blanked (c : GCell) : ({ c with ch := 0x20, text := [0x20], width := 1, cont := false } : GCell).okCh = true :=
  (okCh_congr (c := gBlank c.sty) rfl rfl rfl).trans (okCh_gBlank _)

theorem cellsOK_of_cells {r r' : GRow} {st : Style} (h : CellsOK r)
    (hc : ∀ c ∈ r', c ∈ r ∨ c = gBlank st) : CellsOK r' := by
  intro c hc'
  rcases hc c hc' with h1 | h1
  · exact h c h1
  · rw [h1]; exact okCh_gBlank st

theorem cellsOK_mapIdx {r : GRow} {f : Nat → GCell → GCell} (h : CellsOK r)
    (hf : ∀ i c, c.okCh = true → (f i c).okCh = true) : CellsOK (r.mapIdx f) :=
  mem_mapIdx_cases (P := fun c => c.okCh = true) (fun i c hc => hf i c (h c hc))

theorem cellsOK_set {r : GRow} (h : CellsOK r) (i : Nat) {c : GCell} (hc : c.okCh = true) :
    CellsOK (r.set i c) := by
  intro d hd
  rcases List.mem_or_eq_of_mem_set hd with hd | hd
  · exact h d hd
  · rw [hd]; exact hc

theorem cellsOK_ite {p : Prop} [Decidable p] {a b : GRow} (ha : CellsOK a) (hb : CellsOK b) :
    CellsOK (if p then a else b) := by
  split <;> assumption

/-- **1a.** `clearWideAt` keeps the rune array consistent -/
theorem clearWideAt_chOK {r : GRow} (h : CellsOK r) (x : Nat) (st : Style) : CellsOK (r.clearWideAt x st) :=
  cellsOK_of_cells h (clearWideAt_cells r x st)

theorem gFix_chOK {r : GRow} (h : CellsOK r) (x : Nat) (st : Style) : CellsOK (gFix r x st) :=
  cellsOK_of_cells h (gFix_cells r x st)

theorem blankLoop_chOK (st : Style) : ∀ (n idx : Nat) (r : GRow), CellsOK r → CellsOK (GRow.blankLoop st n idx r) := by
  intro n
  induction n with
  | zero => intro idx r h; exact h
  | succ n ih =>
    intro idx r h
    unfold GRow.blankLoop
    exact ih _ _ (cellsOK_set (gFix_chOK h idx st) idx (okCh_blanked _))

/-- **1b.** `writeBlanks` (`rawWriteRunes` with blanks: the erasers) keeps the rune array consistent -/
theorem writeBlanks_chOK {r : GRow} (h : CellsOK r) (x n : Nat) (st : Style) : CellsOK (r.writeBlanks x n st) := by
  unfold GRow.writeBlanks
  apply cellsOK_mapIdx
  · apply blankLoop_chOK
    split
    · exact clearWideAt_chOK h _ st
    · exact h
  · intro i c hc
    split
    · exact hc
    · exact hc

/-- **1c.** `writeRune` (`rawWriteRune`) of a rune that is not 0 keeps the rune array consistent:
    the head cell holds the rune and its encoding, the cells it covers hold rune 0, the remains of
    a wider character become blanks -/
theorem writeRune_chOK {r : GRow} (h : CellsOK r) (x : Nat) {rune : Nat} (hr : rune ≠ 0) (width : Nat) (st : Style) :
    CellsOK (r.writeRune x rune width st) := by
  unfold GRow.writeRune
  have h1 : CellsOK (if r.contAt x then r.clearWideAt x st else r) :=
    cellsOK_ite (clearWideAt_chOK h x st) h
  apply cellsOK_mapIdx
  · apply cellsOK_mapIdx
    · exact cellsOK_ite (clearWideAt_chOK h1 _ st) h1
    · intro i c hc
      refine okCh_ite ?_ (okCh_ite rfl (okCh_ite (okCh_blanked c) hc))
      exact (okCh_congr (c := gHead rune 1 st) rfl rfl rfl).trans (okCh_gHead hr 1 st)
  · intro i c hc
    exact okCh_ite hc hc

/-- **1d.** `deleteChars` keeps the rune array consistent -/
theorem deleteChars_chOK {r : GRow} (h : CellsOK r) (x n : Nat) (st : Style) : CellsOK (r.deleteChars x n st) :=
  cellsOK_of_cells h (deleteChars_cells r x n st)

/-- **1e.** a resized row (`setSize`) keeps the rune array consistent -/
theorem resize_chOK {r : GRow} (h : CellsOK r) (w : Nat) (st : Style) : CellsOK (r.resize w st) :=
  cellsOK_of_cells h (resize_cells r w st)

/-- **1f.** a blank row is consistent -/
theorem gBlankRow_chOK (w : Nat) (st : Style) : CellsOK (gBlankRow w st) := by
  intro c hc
  rw [(List.mem_replicate.1 hc).2]; exact okCh_gBlank st

/-- **1 (rows).** the row operations of `TM/GridScreen.lean` in the brief's own terms: from a row
    with `r.all GCell.okCh`, every one of them yields a row with `all GCell.okCh` — no hypothesis on
    the shape of the row, the columns or the counts; `writeRune` for a rune that is not 0 -/
theorem row_ops_okCh {r : GRow} (h : r.all GCell.okCh = true) (st : Style) :
    (∀ x, (r.clearWideAt x st).all GCell.okCh = true) ∧
    (∀ x n, (r.writeBlanks x n st).all GCell.okCh = true) ∧
    (∀ x rune w, rune ≠ 0 → (r.writeRune x rune w st).all GCell.okCh = true) ∧
    (∀ x n, (r.deleteChars x n st).all GCell.okCh = true) ∧
    (∀ w, (r.resize w st).all GCell.okCh = true) ∧
    (∀ w, (gBlankRow w st).all GCell.okCh = true) := by
  have h' := cellsOK_iff.1 h
  exact ⟨fun x => cellsOK_iff.2 (clearWideAt_chOK h' x st),
    fun x n => cellsOK_iff.2 (writeBlanks_chOK h' x n st),
    fun x _ w hr => cellsOK_iff.2 (writeRune_chOK h' x hr w st),
    fun x n => cellsOK_iff.2 (deleteChars_chOK h' x n st),
    fun w => cellsOK_iff.2 (resize_chOK h' w st),
    fun w => cellsOK_iff.2 (gBlankRow_chOK w st)⟩

/-! ### screen level -/

/-- every row of the buffer has a consistent rune array -/
def _root_.TM.GScr.chOK (s : GScr) : Bool := s.rows.all fun r => r.all GCell.okCh

def RowsOK (L : List GRow) : Prop := ∀ r ∈ L, CellsOK r

theorem chOK_iff {s : GScr} : s.chOK = true ↔ RowsOK s.rows := by
  unfold GScr.chOK RowsOK
  rw [List.all_eq_true]
  exact forall_congr' fun r => imp_congr_right fun _ => cellsOK_iff

theorem rowsOK_append {A B : List GRow} (ha : RowsOK A) (hb : RowsOK B) : RowsOK (A ++ B) := by
  intro r hr
  rcases List.mem_append.1 hr with h | h
  · exact ha r h
  · exact hb r h

theorem rowsOK_take {A : List GRow} (ha : RowsOK A) (n : Nat) : RowsOK (A.take n) :=
  fun r hr => ha r (List.mem_of_mem_take hr)

theorem rowsOK_drop {A : List GRow} (ha : RowsOK A) (n : Nat) : RowsOK (A.drop n) :=
  fun r hr => ha r (List.mem_of_mem_drop hr)

theorem rowsOK_blanks (k w : Nat) (st : Style) : RowsOK (List.replicate k (gBlankRow w st)) := by
  intro r hr
  rw [(List.mem_replicate.1 hr).2]; exact gBlankRow_chOK w st

theorem rowsOK_set {A : List GRow} (ha : RowsOK A) (y : Nat) {r : GRow} (hr : CellsOK r) : RowsOK (A.set y r) := by
  intro d hd
  rcases List.mem_or_eq_of_mem_set hd with hd | hd
  · exact ha d hd
  · rw [hd]; exact hr

theorem row_chOK {s : GScr} (h : s.chOK = true) (y : Nat) : CellsOK (s.row y) := by
  unfold GScr.row
  rw [List.getD_eq_getElem?_getD]
  cases hy : s.rows[y]? with
  | none => intro c hc; cases hc
  | some r => exact chOK_iff.1 h r (List.mem_of_getElem? hy)

/-- a buffer with the same rows -/
theorem chOK_of_rows {s s' : GScr} (h : s.chOK = true) (e : s'.rows = s.rows) : s'.chOK = true := by
  unfold GScr.chOK at *; rw [e]; exact h

/-- **1g.** the initial buffer is consistent -/
theorem init_chOK (w h : Nat) : (GScr.init w h).chOK = true :=
  chOK_iff.2 (rowsOK_blanks h w Style.default)

/-- **1h.** `scroll` keeps every rune array consistent -/
theorem scroll_chOK {s : GScr} (h : s.chOK = true) (y1 y2 : Nat) (d : Int) : (s.scroll y1 y2 d).chOK = true := by
  have hr := chOK_iff.1 h
  unfold GScr.scroll
  split
  · exact h
  · apply chOK_iff.2
    show RowsOK (s.rows.take y1 ++ _ ++ s.rows.drop (y2 + 1))
    refine rowsOK_append (rowsOK_append (rowsOK_take hr _) ?_) (rowsOK_drop hr _)
    split
    · exact rowsOK_append (rowsOK_blanks _ _ _) (rowsOK_take (rowsOK_take (rowsOK_drop hr _) _) _)
    · exact rowsOK_append (rowsOK_drop (rowsOK_take (rowsOK_drop hr _) _) _) (rowsOK_blanks _ _ _)

theorem lineDown_chOK {s : GScr} (h : s.chOK = true) : s.lineDown.chOK = true := by
  unfold GScr.lineDown
  split
  · exact scroll_chOK h _ _ _
  · split
    · exact h
    · exact h

theorem lineUp_chOK {s : GScr} (h : s.chOK = true) : s.lineUp.chOK = true := by
  unfold GScr.lineUp
  split
  · exact scroll_chOK h _ _ _
  · split
    · exact h
    · exact h

theorem setRow_chOK {s : GScr} (h : s.chOK = true) (y : Nat) {r : GRow} (hr : CellsOK r) :
    (s.setRow y r).chOK = true :=
  chOK_iff.2 (rowsOK_set (chOK_iff.1 h) y hr)

theorem preG_chOK {s : GScr} (h : s.chOK = true) (w : Nat) : (preG s w).chOK = true := by
  unfold preG
  split
  · split
    · exact lineDown_chOK (s := { s with cx := 0 }) h
    · exact h
  · exact h

theorem postG_chOK {s : GScr} (h : s.chOK = true) (x : Nat) : (postG s x).chOK = true := by
  unfold postG
  split
  · exact h
  · split
    · exact lineDown_chOK (s := { s with cx := x - s.w }) h
    · exact h

/-- **1i.** `put` (the single-rune path of `writeTokens`) keeps every rune array consistent when
    the rune the token decodes to is not 0 (U+FFFD, written when the character is wider than the
    screen, is not 0) -/
theorem put_chOK {s : GScr} (h : s.chOK = true) {text : Bytes} (ht : (decodeRune text).1 ≠ 0) (w0 : Nat) :
    (s.put text w0).chOK = true := by
  rw [put_eqG]
  unfold coreG
  have hp := preG_chOK h (if max w0 1 > s.w then 1 else max w0 1)
  apply postG_chOK
  apply setRow_chOK hp
  apply writeRune_chOK (row_chOK hp _)
  split
  · decide
  · exact ht

/-- **1j.** `eraseRegion` keeps every rune array consistent -/
theorem eraseRegion_chOK {s : GScr} (h : s.chOK = true) (x1 y1 x2 y2 : Nat) :
    (s.eraseRegion x1 y1 x2 y2).chOK = true := by
  apply chOK_iff.2
  intro r hr
  obtain ⟨i, hi, rfl⟩ := List.mem_mapIdx.1 hr
  have h0 : CellsOK s.rows[i] := chOK_iff.1 h _ (List.getElem_mem hi)
  split
  · exact writeBlanks_chOK h0 _ _ _
  · exact h0

theorem eraseRegionI_chOK {s : GScr} (h : s.chOK = true) (x1 y1 x2 y2 : Int) :
    (s.eraseRegionI x1 y1 x2 y2).chOK = true :=
  eraseRegion_chOK h _ _ _ _

/-- **1k.** `dch` (`deleteChars` at the cursor) keeps every rune array consistent -/
theorem dch_chOK {s : GScr} (h : s.chOK = true) (n : Nat) : (s.dch n).chOK = true := by
  unfold GScr.dch
  split
  · exact h
  · exact setRow_chOK h _ (deleteChars_chOK (row_chOK h _) _ _ _)

/-- **1l.** `resize` (`setSize`) keeps every rune array consistent -/
theorem resize_chOK' {s : GScr} (h : s.chOK = true) (w hh : Nat) : (s.resize w hh).chOK = true := by
  apply chOK_iff.2
  show RowsOK ((s.rows.take hh).map (·.resize w s.sty) ++ List.replicate _ (gBlankRow w s.sty))
  refine rowsOK_append ?_ (rowsOK_blanks _ _ _)
  intro r hr
  obtain ⟨l, hl, rfl⟩ := List.mem_map.1 hr
  exact resize_chOK (chOK_iff.1 h l (List.mem_of_mem_take hl)) w s.sty

theorem setCursor_chOK {s : GScr} (h : s.chOK = true) (x y : Int) : (s.setCursor x y).chOK = true := h

theorem setMargins_chOK {s : GScr} (h : s.chOK = true) (t b : Int) : (s.setMargins t b).chOK = true := by
  unfold GScr.setMargins
  split
  · exact h
  · simp only []
    split
    · exact h
    · exact h

/-! ### terminal level -/

/-- both buffers of the terminal have consistent rune arrays -/
def TermOK (t : GTerm) : Prop := t.main.chOK = true ∧ t.alt.chOK = true

/-- what a token must satisfy: the rune a text token decodes to is not 0 -/
def TokNZ : Tok → Prop
  | .text stored _ => (decodeRune stored).1 ≠ 0
  | _ => True

theorem scr_ok {t : GTerm} (h : TermOK t) : t.scr.chOK = true := by
  unfold GTerm.scr; split
  · exact h.2
  · exact h.1

theorem setScr_ok {t : GTerm} (h : TermOK t) {s : GScr} (hs : s.chOK = true) : TermOK (t.setScr s) := by
  unfold GTerm.setScr; split
  · exact ⟨h.1, hs⟩
  · exact ⟨hs, h.2⟩

theorem withScr_ok {t : GTerm} (h : TermOK t) {s : GScr} (hs : s.chOK = true) : TermOK (t.withScr s).1 :=
  setScr_ok h hs

theorem setKbd_ok {t : GTerm} (h : TermOK t) (k : Kbd) : TermOK (t.setKbd k) := by
  unfold GTerm.setKbd; split <;> exact h

theorem setVFlag_ok {t : GTerm} (h : TermOK t) (i : Nat) (v : Bool) : TermOK (t.setVFlag i v).1 := h
theorem setVInt_ok {t : GTerm} (h : TermOK t) (i : Nat) (v : Int) : TermOK (t.setVInt i v).1 := h
theorem setVStr_ok {t : GTerm} (h : TermOK t) (i : Nat) (v : Bytes) : TermOK (t.setVStr i v).1 := h

/-- the state of a (state, events) pair is consistent -/
def OK1 (x : GTerm × List Ev) : Prop := TermOK x.1

theorem ok1_ite {p : Prop} [Decidable p] {a b : GTerm × List Ev} (ha : OK1 a) (hb : OK1 b) :
    OK1 (if p then a else b) := by
  split <;> assumption

theorem switchScreen_ok {t : GTerm} (h : TermOK t) (v : Bool) : TermOK (t.switchScreen v).1 := by
  unfold GTerm.switchScreen; split <;> exact h

theorem decMode_ok {t : GTerm} (h : TermOK t) (p : Int) (v : Bool) : TermOK (t.decMode p v).1 := by
  show OK1 _
  unfold GTerm.decMode
  repeat' apply ok1_ite
  all_goals first
    | exact h
    | exact switchScreen_ok h v
    | exact setScr_ok h (scr_ok h)

theorem decModes_ok (v : Bool) : ∀ (ps : List Int) {t : GTerm}, TermOK t → TermOK (t.decModes v ps).1 := by
  intro ps
  induction ps with
  | nil => intro t h; exact h
  | cons p ps ih =>
    intro t h
    exact ih (decMode_ok h p v)

theorem csiPlain_ok {t : GTerm} (h : TermOK t) (ps : List Int) (fin : UInt8) : TermOK (t.csiPlain ps fin).1 := by
  have hs := scr_ok h
  show OK1 _
  unfold GTerm.csiPlain
  simp only []
  repeat' apply ok1_ite
  all_goals first
    | exact h
    | exact withScr_ok h (setCursor_chOK hs _ _)
    | exact withScr_ok h hs
    | exact setScr_ok h hs
    | exact setScr_ok h (eraseRegionI_chOK hs _ _ _ _)
    | exact setScr_ok h (eraseRegionI_chOK (eraseRegionI_chOK hs _ _ _ _) _ _ _ _)
    | exact setScr_ok h (setCursor_chOK (eraseRegionI_chOK hs _ _ _ _) _ _)
    | exact setScr_ok h (scroll_chOK hs _ _ _)
    | exact setScr_ok h (dch_chOK hs _)
    | exact setScr_ok h (setMargins_chOK hs _ _)

theorem csi_ok {t : GTerm} (h : TermOK t) (pfx : UInt8) (ps : List Int) (fin : UInt8) :
    TermOK (t.csi pfx ps fin).1 := by
  show OK1 _
  unfold GTerm.csi
  have hp : OK1 (t.csiPlain ps fin) := csiPlain_ok h ps fin
  have hd1 : OK1 (t.decModes true ps) := decModes_ok true ps h
  have hd2 : OK1 (t.decModes false ps) := decModes_ok false ps h
  generalize t.csiPlain ps fin = X at hp ⊢
  generalize t.decModes true ps = Y1 at hd1 ⊢
  generalize t.decModes false ps = Y2 at hd2 ⊢
  repeat' apply ok1_ite
  all_goals first
    | exact h
    | exact hp
    | exact hd1
    | exact hd2
    | exact setKbd_ok h _
    | (split
       · exact ok1_ite h h
       · exact h)

/-- **1m.** one token keeps both buffers' rune arrays consistent -/
theorem apply_chOK (cw : Nat → Nat) {t : GTerm} (h : TermOK t) {tok : Tok} (htok : TokNZ tok) :
    TermOK (t.apply cw tok).1 := by
  have hs := scr_ok h
  cases tok with
  | text stored cp => exact setScr_ok h (put_chOK hs htok _)
  | ctl b =>
    show OK1 _
    unfold GTerm.apply
    simp only []
    repeat' apply ok1_ite
    all_goals first
      | exact h
      | exact withScr_ok h hs
      | exact withScr_ok h (setCursor_chOK hs _ _)
      | exact withScr_ok h (lineDown_chOK hs)
      | exact withScr_ok h (lineDown_chOK (s := { t.scr with cx := 0 }) hs)
  | esc inter fin =>
    show OK1 _
    unfold GTerm.apply
    simp only []
    repeat' apply ok1_ite
    all_goals first
      | exact h
      | exact withScr_ok h (lineDown_chOK hs)
      | exact withScr_ok h (lineUp_chOK hs)
  | csi pfx ps clean fin =>
    show OK1 _
    unfold GTerm.apply
    exact ok1_ite (csi_ok h _ _ _) h
  | osc num payload wf =>
    show OK1 _
    unfold GTerm.apply
    repeat' apply ok1_ite
    all_goals exact h
  | dcs => exact h

/-- **1n.** `Resize` keeps both buffers' rune arrays consistent -/
theorem term_resize_chOK {t : GTerm} (h : TermOK t) (w hh : Nat) : TermOK (t.resize w hh).1 :=
  ⟨resize_chOK' h.1 w hh, resize_chOK' h.2 w hh⟩

/-! ### token lists and byte streams -/

theorem init_termOK (w h : Nat) : TermOK (GTerm.init w h) := ⟨init_chOK w h, init_chOK w h⟩

/-- **1o.** along every list of tokens whose text tokens decode to a rune that is not 0, from any
    state with consistent rune arrays -/
theorem run_chOK_from (cw : Nat → Nat) (toks : List Tok) :
    ∀ {t : GTerm}, TermOK t → (∀ tok ∈ toks, TokNZ tok) → TermOK (gStateAfter cw t toks) := by
  induction toks with
  | nil => intro t h _; exact h
  | cons tok toks ih =>
    intro t h hok
    exact ih (apply_chOK cw h (hok tok (List.mem_cons_self ..)))
      (fun tk hk => hok tk (List.mem_cons_of_mem _ hk))

/-- every token the tokeniser yields decodes to a rune that is not 0 (a printable scalar ≥ 32) -/
theorem tokNZ_of_tokOK {tok : Tok} (h : C11M.TokOK tok) : TokNZ tok := by
  cases tok with
  | text stored cp =>
    obtain ⟨hv, h32, _, rfl⟩ := h
    show (decodeRune (encodeRune cp)).1 ≠ 0
    have hd := C11.Lemmas.decodeRune_encodeRune cp [] hv
    rw [List.append_nil] at hd
    rw [hd]
    show cp ≠ 0
    omega
  | ctl _ => trivial
  | esc _ _ => trivial
  | csi _ _ _ _ => trivial
  | osc _ _ _ => trivial
  | dcs => trivial

/-- **1p.** for every byte stream, size and width function: both buffers of the grid-level
    terminal have consistent rune arrays after the stream -/
theorem stream_chOK (cw : Nat → Nat) (w h : Nat) (bs : Bytes) :
    TermOK (gStateAfter cw (GTerm.init w h) (C10.toksOf bs)) :=
  run_chOK_from cw _ (init_termOK w h)
    (fun tok hk => tokNZ_of_tokOK (C11M.Lemmas.toksFuel_tokOK _ bs tok hk))

/-- **capstone**: for every byte stream, on both buffers and every row `y < h`: the grid buffer's
    `ANSILine(y)` (read from the rune array) is the cell-level rendering of row `y` of the model
    terminal after the stream, byte for byte, and its `Line(y)` is the texts of that row's cells
    with one blank per continuation cell -/
theorem stream_ansi_line (cw : Nat → Nat) {w h : Nat} (hw : 1 ≤ w) (hh : 1 ≤ h) (bs : Bytes) :
    let S := gStateAfter cw (GTerm.init w h) (C10.toksOf bs)
    let T := (run cw (Term.init .blank w h) bs).1
    ∀ y, y < h →
      GRow.ansi (S.main.row y) = renderRowANSI (T.main.row y) ∧
      GRow.ansi (S.alt.row y) = renderRowANSI (T.alt.row y) ∧
      GRow.line (S.main.row y) = (T.main.row y).flatMap (fun c => match c.g with
        | .ch t _ => t | .cont => [0x20]) ∧
      GRow.line (S.alt.row y) = (T.alt.row y).flatMap (fun c => match c.g with
        | .ch t _ => t | .cont => [0x20]) := by
  intro S T y hy
  obtain ⟨_, _, _, _, _, _, _, hrows⟩ := stream_rows cw hw hh bs
  obtain ⟨_, e1, _, e2⟩ := hrows y hy
  have hok : TermOK S := stream_chOK cw w h bs
  have m := cellsOK_iff.2 (row_chOK hok.1 y)
  have a := cellsOK_iff.2 (row_chOK hok.2 y)
  change T.main.row y = (S.main.row y).map GCell.abs at e1
  change T.alt.row y = (S.alt.row y).map GCell.abs at e2
  rw [e1, e2]
  exact ⟨ansi_eq_renderRowANSI m, ansi_eq_renderRowANSI a, line_eq_cells m, line_eq_cells a⟩

/-! ## 4. non-vacuity -/

section nonvacuity
open TM.C11.Examples (boldRedOn200 fancy)

/-- `A`, `世` (two cells) in bold red on 200, `b` in another rendition: a wide character and two
    attribute stretches; its cells are the row of `C11.Examples` -/
def exG : GRow :=
  [⟨0x41, [0x41], 1, false, boldRedOn200⟩, ⟨0x4E16, [0xE4, 0xB8, 0x96], 2, false, boldRedOn200⟩,
   ⟨0, [], 0, true, boldRedOn200⟩, ⟨0x62, [0x62], 1, false, fancy⟩]

example : exG.all GCell.okCh = true := by decide
example : exG.map GCell.abs = C11.Examples.row := by decide
example : GRow.line exG = [0x41, 0xE4, 0xB8, 0x96, 0x20, 0x62] := by decide
example : GRow.ansi exG = renderRowANSI C11.Examples.row := ansi_eq_renderRowANSI (r := exG) (by decide)
example : GRow.ansi exG = boldRedOn200.ansiEscape ++ [0x41, 0xE4, 0xB8, 0x96] ++ fancy.ansiEscape ++ [0x62] := by
  decide
/-- the hypotheses of `grid_ansi_roundtrip` hold for this row on a 4 × 3 screen, row 1 -/
example (pol : WidePolicy) :
    (run C11.Examples.cw (Term.init pol 4 3) (cupRow 1 ++ GRow.ansi exG)).1.main.row 1 = exG.map GCell.abs :=
  grid_ansi_roundtrip C11.Examples.cw pol 4 3 1 exG (by decide) (by decide) (by decide) rfl C11.Examples.rowOK

/-- the consistency of the rune array is needed: a continuation cell whose rune is not 0 (never
    stored by the grid buffer) is rendered by the grid's `ANSILine` and `Line`, not by the cells -/
example :
    let bad : GRow := [⟨0x4E16, [0xE4, 0xB8, 0x96], 2, false, Style.default⟩, ⟨0x58, [], 0, true, Style.default⟩]
    bad.all GCell.okCh = false ∧ bad.all GCell.ok = false ∧
    GRow.ansi bad ≠ renderRowANSI (bad.map GCell.abs) ∧
    GRow.line bad = [0xE4, 0xB8, 0x96, 0x58] := by decide

/-- `rune ≠ 0` is needed in `writeRune_chOK`: rune 0 stored in a head cell reads as a blank in
    `Line` and as nothing in `ANSILine`, while the cell holds the text `[0]` -/
example : ((gBlankRow 2 Style.default).writeRune 0 0 1 Style.default).all GCell.okCh = false := by decide

/-- row operations on the example row of `C20Grid` (`a中___`): a write onto the second cell of the
    wide character, an erase ending inside it, DCH cutting it, a resize cutting it -/
example : exRow.all GCell.okCh = true ∧
    (exRow.writeRune 2 0x62 1 Style.default).all GCell.okCh = true ∧
    GRow.line (exRow.writeRune 2 0x62 1 Style.default) = [0x61, 0x20, 0x62, 0x20, 0x20, 0x20] ∧
    GRow.line (exRow.writeBlanks 0 2 Style.default) = [0x20, 0x20, 0x20, 0x20, 0x20, 0x20] ∧
    GRow.line (exRow.deleteChars 2 1 Style.default) = [0x61, 0x20, 0x20, 0x20, 0x20, 0x20] ∧
    GRow.line exRow = [0x61, 0xe4, 0xb8, 0xad, 0x20, 0x20, 0x20, 0x20] := by decide

/-- the stream of `C20Grid` on a 6 × 3 terminal: both buffers consistent (the theorem) -/
example : TermOK exS := by
  have e : C10.toksOf exBytes = exToks := by decide
  have := stream_chOK TM.C02SpanScreen.cwS 6 3 exBytes
  rwa [e] at this
-- … and what the accessors read after it: `Line(0)` = `a_b___`, `Line(1)` = `___中·_` (the
-- continuation cell shown as a blank), `ANSILine(1)` = one escape, three blanks, `中`, one blank
set_option maxRecDepth 100000 in
example : GRow.line (exS.main.row 0) = [0x61, 0x20, 0x62, 0x20, 0x20, 0x20] ∧
    GRow.line (exS.main.row 1) = [0x20, 0x20, 0x20, 0xe4, 0xb8, 0xad, 0x20, 0x20] ∧
    GRow.ansi (exS.main.row 1) = Style.default.ansiEscape ++ [0x20, 0x20, 0x20, 0xe4, 0xb8, 0xad, 0x20] := by
  decide

end nonvacuity

end TM.C20GridAnsi

#print axioms TM.C20GridAnsi.ansi_eq_renderRowANSI
#print axioms TM.C20GridAnsi.grid_ansi_roundtrip
#print axioms TM.C20GridAnsi.line_eq_cells
#print axioms TM.C20GridAnsi.row_ops_okCh
#print axioms TM.C20GridAnsi.clearWideAt_chOK
#print axioms TM.C20GridAnsi.writeBlanks_chOK
#print axioms TM.C20GridAnsi.writeRune_chOK
#print axioms TM.C20GridAnsi.deleteChars_chOK
#print axioms TM.C20GridAnsi.resize_chOK
#print axioms TM.C20GridAnsi.gBlankRow_chOK
#print axioms TM.C20GridAnsi.init_chOK
#print axioms TM.C20GridAnsi.scroll_chOK
#print axioms TM.C20GridAnsi.put_chOK
#print axioms TM.C20GridAnsi.eraseRegion_chOK
#print axioms TM.C20GridAnsi.eraseRegionI_chOK
#print axioms TM.C20GridAnsi.dch_chOK
#print axioms TM.C20GridAnsi.resize_chOK'
#print axioms TM.C20GridAnsi.apply_chOK
#print axioms TM.C20GridAnsi.term_resize_chOK
#print axioms TM.C20GridAnsi.run_chOK_from
#print axioms TM.C20GridAnsi.tokNZ_of_tokOK
#print axioms TM.C20GridAnsi.stream_chOK
#print axioms TM.C20GridAnsi.stream_ansi_line
