import TM.Run
/-!
# C08 — chunk-boundary irrelevance

"For any input, the final screen, cursor, modes, replies and frontend-visible effects are the same
whether the backend delivers it in one read, byte by byte, or in any other segmentation. In rune
mode this holds for every cut point, including inside UTF-8 characters and escape sequences."

Model: `TM.next` (tokeniser, `TM/Parser.lean`), `TM.run` / `TM.Sys.feed` / `TM.Sys.feedAll`
(`TM/Run.lean`). A segmentation of a stream `bs` is any list of chunks `cs` with `cs.flatten = bs`
(this includes all `2^(n-1)` splittings into non-empty chunks, enumerated by `segs` below, and also
scripts with empty reads). Screens, cursor and modes are fields of `Term`; replies are the
`Ev.reply` entries of the event list; the other frontend-visible effects are the remaining events.

Structure of the proof:
* a token, once complete, is not changed by the bytes that follow it (`next_prefix_stable`): for
  text this is the stability of `fullRune`/`decodeRune` (`utf8_prefix_stable`), for escape
  sequences the stability of every parser phase (`Lemmas.*_append`);
* every token spans between 1 and `bs.length` bytes (`next_progress`), so the fuel of `run` suffices;
* hence `run` on `p ++ q` is `run` on `p` followed by `run` on its leftover extended by `q`
  (`run_append`); no hypothesis is needed.

About the "need is monotone" idea (item 3 of the plan): the naive statement
"`next p = .need` and `next (p ++ q) = .tok t n` imply `n > p.length`" is FALSE for the model (and
for Go's `utf8.FullRune`/`DecodeRune`): `next [0xF0, 0x90] = .need` but
`next [0xF0, 0x90, 0x41] = .tok (.text U+FFFD) 1` — see the `example` below. It is not needed:
the pending bytes are re-scanned from their first byte when more input arrives, so only prefix
stability of *complete* tokens matters. What is true in the other direction is
`next_need_of_prefix`: if a buffer is still incomplete, so was every prefix of it.
-/
namespace TM.C08
open TM

namespace Lemmas

theorem leadLen_cases (b : UInt8) : leadLen b = 0 ∨ leadLen b = 1 ∨ leadLen b = 2 ∨ leadLen b = 3 ∨ leadLen b = 4 := by
  unfold leadLen
  repeat' split
  all_goals simp

theorem fullRune_append (p q : Bytes) (h : fullRune p = true) : fullRune (p ++ q) = true := by
  cases p with
  | nil => simp [fullRune] at h
  | cons b0 rest =>
    simp only [List.cons_append, fullRune] at h ⊢
    by_cases h1 : leadLen b0 ≤ 1
    · simp [h1]
    · simp only [h1, if_false] at h ⊢
      by_cases h2 : rest.length + 1 ≥ leadLen b0
      · have : (rest ++ q).length + 1 ≥ leadLen b0 := by simp; omega
        simp only [this, if_true]
      · simp only [h2, if_false] at h
        split
        · rfl
        · cases rest with
          | nil => simp at h
          | cons b1 rest2 =>
            simp only [List.cons_append]
            simp only at h
            split
            · rfl
            · rename_i hs
              simp only [hs] at h
              cases rest2 with
              | nil => simp at h
              | cons b2 rest3 =>
                simpa using h

theorem decodeRune_append (p q : Bytes) (h : fullRune p = true) : decodeRune (p ++ q) = decodeRune p := by
  cases p with
  | nil => simp [fullRune] at h
  | cons b0 rest =>
    simp only [List.cons_append, fullRune] at h ⊢
    rcases leadLen_cases b0 with hl | hl | hl | hl | hl
    all_goals simp only [hl, decodeRune] at h ⊢
    · cases rest with
      | nil => simp at h ⊢
      | cons b1 rest2 => rfl
    · cases rest with
      | nil => simp at h ⊢
      | cons b1 rest2 =>
        cases rest2 with
        | nil =>
          simp at h
          cases q <;> simp [h]
        | cons b2 rest3 => rfl
    · cases rest with
      | nil => simp at h ⊢
      | cons b1 rest2 =>
        cases rest2 with
        | nil =>
          simp at h
          rcases q with _ | ⟨c1, _ | ⟨c2, q⟩⟩ <;> simp [h]
        | cons b2 rest3 =>
          cases rest3 with
          | nil =>
            simp at h
            rcases q with _ | ⟨c1, q⟩
            · simp
            · rcases h with h | h <;> simp [h]
          | cons b3 rest4 => rfl

theorem decodeRune_size (bs : Bytes) (hne : bs ≠ []) : 0 < (decodeRune bs).2 ∧ (decodeRune bs).2 ≤ bs.length := by
  cases bs with
  | nil => simp at hne
  | cons b0 rest =>
    simp only [decodeRune]
    split
    · simp
    all_goals first | (split <;> simp) | simp

/-! ### parser phases -/

theorem csiParams_append (q : Bytes) : ∀ (bs : Bytes) (p : PState) (n : Nat) (p' : PState) (r : Bytes) (n' : Nat),
    csiParams bs p n = some (p', r, n') →
    csiParams (bs ++ q) p n = some (p', r ++ q, n') ∧ n' + r.length = n + bs.length ∧ n ≤ n' := by
  intro bs
  induction bs with
  | nil => intro p n p' r n' h; simp [csiParams] at h
  | cons b rest ih =>
    intro p n p' r n' h
    simp only [csiParams, List.cons_append] at h ⊢
    split at h
    · rename_i hb
      simp only [hb, if_true]
      have := ih _ _ _ _ _ h
      refine ⟨this.1, ?_, ?_⟩
      · have := this.2.1
        simp only [List.length_cons]; omega
      · have := this.2.2
        omega
    · rename_i hb
      simp only [hb]
      simp only [Option.some.injEq, Prod.mk.injEq] at h
      obtain ⟨rfl, rfl, rfl⟩ := h
      simp

theorem csiSkipParams_append (q : Bytes) : ∀ (bs : Bytes) (c : Bool) (n : Nat) (c' : Bool) (r : Bytes) (n' : Nat),
    csiSkipParams bs c n = some (c', r, n') →
    csiSkipParams (bs ++ q) c n = some (c', r ++ q, n') ∧ n' + r.length = n + bs.length ∧ n ≤ n' := by
  intro bs
  induction bs with
  | nil => intro p n p' r n' h; simp [csiSkipParams] at h
  | cons b rest ih =>
    intro p n p' r n' h
    simp only [csiSkipParams, List.cons_append] at h ⊢
    split at h
    · rename_i hb
      simp only [hb, if_true]
      have := ih _ _ _ _ _ h
      refine ⟨this.1, ?_, ?_⟩
      · have := this.2.1
        simp only [List.length_cons]; omega
      · have := this.2.2
        omega
    · rename_i hb
      simp only [hb]
      simp only [Option.some.injEq, Prod.mk.injEq] at h
      obtain ⟨rfl, rfl, rfl⟩ := h
      simp

theorem csiInter_append (q : Bytes) : ∀ (bs : Bytes) (c : Bool) (n : Nat) (c' : Bool) (f : UInt8) (n' : Nat),
    csiInter bs c n = some (c', f, n') →
    csiInter (bs ++ q) c n = some (c', f, n') ∧ n < n' ∧ n' ≤ n + bs.length := by
  intro bs
  induction bs with
  | nil => intro p n p' r n' h; simp [csiInter] at h
  | cons b rest ih =>
    intro p n p' r n' h
    simp only [csiInter, List.cons_append] at h ⊢
    split at h
    · rename_i hb
      simp only [hb, if_true]
      have := ih _ _ _ _ _ h
      refine ⟨this.1, ?_, ?_⟩
      · omega
      · simp only [List.length_cons]; omega
    · rename_i hb
      simp only [hb]
      simp only [Option.some.injEq, Prod.mk.injEq] at h
      obtain ⟨rfl, rfl, rfl⟩ := h
      simp

theorem escInter_append (q : Bytes) : ∀ (bs : Bytes) (a : Bytes) (n : Nat) (a' : Bytes) (f : UInt8) (n' : Nat),
    escInter bs a n = some (a', f, n') →
    escInter (bs ++ q) a n = some (a', f, n') ∧ n < n' ∧ n' ≤ n + bs.length := by
  intro bs
  induction bs with
  | nil => intro p n p' r n' h; simp [escInter] at h
  | cons b rest ih =>
    intro p n p' r n' h
    simp only [escInter, List.cons_append] at h ⊢
    split at h
    · rename_i hb
      simp only [hb, if_true]
      have := ih _ _ _ _ _ h
      refine ⟨this.1, ?_, ?_⟩
      · omega
      · simp only [List.length_cons]; omega
    · rename_i hb
      simp only [hb]
      simp only [Option.some.injEq, Prod.mk.injEq] at h
      obtain ⟨rfl, rfl, rfl⟩ := h
      simp

theorem oscDigits_append (q : Bytes) : ∀ (bs : Bytes) (a : Bytes) (n : Nat) (ds : Bytes) (r : Bytes) (n' : Nat),
    oscDigits bs a n = some (ds, r, n') →
    oscDigits (bs ++ q) a n = some (ds, r ++ q, n') ∧ n' + r.length = n + bs.length ∧ n ≤ n' := by
  intro bs
  induction bs with
  | nil => intro p n p' r n' h; simp [oscDigits] at h
  | cons b rest ih =>
    intro p n p' r n' h
    simp only [oscDigits, List.cons_append] at h ⊢
    split at h
    · rename_i hb
      simp only [hb, if_true]
      have := ih _ _ _ _ _ h
      refine ⟨this.1, ?_, ?_⟩
      · have := this.2.1
        simp only [List.length_cons]; omega
      · have := this.2.2
        omega
    · rename_i hb
      simp only [hb]
      simp only [Option.some.injEq, Prod.mk.injEq] at h
      obtain ⟨rfl, rfl, rfl⟩ := h
      simp

theorem strPayload_append (be : Bool) (q : Bytes) : ∀ (bs : Bytes) (a : Bytes) (need n : Nat) (a' : Bytes) (n' : Nat),
    strPayload be bs a need n = some (a', n') →
    strPayload be (bs ++ q) a need n = some (a', n') ∧ n < n' ∧ n' ≤ n + bs.length := by
  intro bs
  induction bs with
  | nil => intro a need n a' n' h; simp [strPayload] at h
  | cons b rest ih =>
    intro a need n a' n' h
    simp only [strPayload, List.cons_append] at h ⊢
    split at h
    · rename_i hb
      simp only [hb]
      simp only [Option.some.injEq, Prod.mk.injEq] at h
      obtain ⟨rfl, rfl⟩ := h
      simp
    · rename_i hb
      simp only [hb, if_false]
      split at h
      · rename_i hb2
        simp only [hb2]
        simp only [Option.some.injEq, Prod.mk.injEq] at h
        obtain ⟨rfl, rfl⟩ := h
        simp
      · rename_i hb2
        simp only [hb2, if_false]
        split at h
        · rename_i hb3
          simp only [hb3]
          simp only [Option.some.injEq, Prod.mk.injEq] at h
          obtain ⟨rfl, rfl⟩ := h
          simp
        · rename_i hb3
          simp only [hb3, if_false]
          have := ih _ _ _ _ _ h
          refine ⟨this.1, ?_, ?_⟩
          · omega
          · simp only [List.length_cons]; omega


/-- the three CSI phases after the optional private prefix (proof-local name for the body of `parseCSI`) -/
def csiTail (pre : UInt8) (body : Bytes) (n1 : Nat) : Step :=
  match csiParams body {} n1 with
  | none => .need
  | some (p, body2, n2) =>
    match csiSkipParams body2 true n2 with
    | none => .need
    | some (clean, body3, n3) =>
      match csiInter body3 clean n3 with
      | none => .need
      | some (clean', fin, n4) => .tok (.csi pre p.finish clean' fin) n4

theorem csiTail_append (q : Bytes) (pre : UInt8) (body : Bytes) (n1 : Nat) (t : Tok) (n : Nat)
    (h : csiTail pre body n1 = .tok t n) :
    csiTail pre (body ++ q) n1 = .tok t n ∧ n1 < n ∧ n ≤ n1 + body.length := by
  unfold csiTail at h ⊢
  cases h1 : csiParams body {} n1 with
  | none => simp [h1] at h
  | some r1 =>
    obtain ⟨p, body2, n2⟩ := r1
    have a1 := csiParams_append q _ _ _ _ _ _ h1
    simp only [h1] at h
    simp only [a1.1]
    cases h2 : csiSkipParams body2 true n2 with
    | none => simp [h2] at h
    | some r2 =>
      obtain ⟨clean, body3, n3⟩ := r2
      have a2 := csiSkipParams_append q _ _ _ _ _ _ h2
      simp only [h2] at h
      simp only [a2.1]
      cases h3 : csiInter body3 clean n3 with
      | none => simp [h3] at h
      | some r3 =>
        obtain ⟨clean', fin, n4⟩ := r3
        have a3 := csiInter_append q _ _ _ _ _ _ h3
        simp only [h3] at h
        simp only [a3.1]
        simp only [Step.tok.injEq] at h
        obtain ⟨rfl, rfl⟩ := h
        refine ⟨rfl, ?_, ?_⟩ <;> omega

theorem parseCSI_append (q bs : Bytes) (n0 : Nat) (t : Tok) (n : Nat) (h : parseCSI bs n0 = .tok t n) :
    parseCSI (bs ++ q) n0 = .tok t n ∧ n0 < n ∧ n ≤ n0 + bs.length := by
  cases bs with
  | nil => simp [parseCSI] at h
  | cons b rest =>
    simp only [parseCSI, List.cons_append] at h ⊢
    by_cases hp : (b = 0x3f || b = 0x3e || b = 0x3c || b = 0x3d) = true
    · simp only [hp, if_true] at h ⊢
      have := csiTail_append q b rest (n0 + 1) t n h
      refine ⟨this.1, ?_, ?_⟩
      · omega
      · simp only [List.length_cons]; omega
    · simp only [hp] at h ⊢
      have := csiTail_append q 0 (b :: rest) n0 t n h
      exact this

theorem parseDCS_append (q bs : Bytes) (n0 : Nat) (t : Tok) (n : Nat) (h : parseDCS bs n0 = .tok t n) :
    parseDCS (bs ++ q) n0 = .tok t n ∧ n0 < n ∧ n ≤ n0 + bs.length := by
  unfold parseDCS at h ⊢
  cases h1 : strPayload false bs [] 0 n0 with
  | none => simp [h1] at h
  | some r1 =>
    obtain ⟨a, n1⟩ := r1
    have a1 := strPayload_append false q _ _ _ _ _ _ h1
    simp only [h1] at h
    simp only [a1.1]
    simp only [Step.tok.injEq] at h
    obtain ⟨rfl, rfl⟩ := h
    exact ⟨rfl, a1.2⟩

theorem parseOSC_append (q bs : Bytes) (n0 : Nat) (t : Tok) (n : Nat) (h : parseOSC bs n0 = .tok t n) :
    parseOSC (bs ++ q) n0 = .tok t n ∧ n0 < n ∧ n ≤ n0 + bs.length := by
  unfold parseOSC at h ⊢
  cases h1 : oscDigits bs [] n0 with
  | none => simp [h1] at h
  | some r1 =>
    obtain ⟨ds, rest, n1⟩ := r1
    have a1 := oscDigits_append q _ _ _ _ _ _ h1
    simp only [h1] at h
    simp only [a1.1]
    cases rest with
    | nil => simp at h
    | cons b rest' =>
      simp only [List.cons_append] at h ⊢
      have hlen := a1.2.1
      have hle := a1.2.2
      simp only [List.length_cons] at hlen
      split at h
      · rename_i hb
        simp only [hb, if_true]
        cases h2 : strPayload true rest' [] 0 (n1 + 1) with
        | none => simp [h2] at h
        | some r2 =>
          obtain ⟨a, n2⟩ := r2
          have a2 := strPayload_append true q _ _ _ _ _ _ h2
          simp only [h2] at h
          simp only [a2.1]
          simp only [Step.tok.injEq] at h
          obtain ⟨rfl, rfl⟩ := h
          refine ⟨rfl, ?_, ?_⟩ <;> omega
      · rename_i hb
        simp only [hb, if_false]
        split at h
        · rename_i hb2
          simp only [hb2, if_true]
          simp only [Step.tok.injEq] at h
          obtain ⟨rfl, rfl⟩ := h
          refine ⟨rfl, ?_, ?_⟩ <;> omega
        · rename_i hb2
          simp only [hb2, if_false]
          cases h2 : strPayload true rest' [b] (leadLen b - 1) (n1 + 1) with
          | none => simp [h2] at h
          | some r2 =>
            obtain ⟨a, n2⟩ := r2
            have a2 := strPayload_append true q _ _ _ _ _ _ h2
            simp only [h2] at h
            simp only [a2.1]
            simp only [Step.tok.injEq] at h
            obtain ⟨rfl, rfl⟩ := h
            refine ⟨rfl, ?_, ?_⟩ <;> omega

theorem parseEsc_append (q bs : Bytes) (t : Tok) (n : Nat) (h : parseEsc bs = .tok t n) :
    parseEsc (bs ++ q) = .tok t n ∧ 1 < n ∧ n ≤ 1 + bs.length := by
  cases bs with
  | nil => simp [parseEsc] at h
  | cons b rest =>
    simp only [parseEsc, List.cons_append] at h ⊢
    split at h
    · rename_i hb
      simp only [hb, if_true]
      have := parseCSI_append q rest 2 t n h
      refine ⟨this.1, ?_, ?_⟩
      · omega
      · simp only [List.length_cons]; omega
    · rename_i hb
      simp only [hb, if_false]
      split at h
      · rename_i hb2
        simp only [hb2, if_true]
        have := parseOSC_append q rest 2 t n h
        refine ⟨this.1, ?_, ?_⟩
        · omega
        · simp only [List.length_cons]; omega
      · rename_i hb2
        simp only [hb2, if_false]
        split at h
        · rename_i hb3
          simp only [hb3, if_true]
          have := parseDCS_append q rest 2 t n h
          refine ⟨this.1, ?_, ?_⟩
          · omega
          · simp only [List.length_cons]; omega
        · rename_i hb3
          simp only [hb3, if_false]
          cases h1 : escInter (b :: rest) [] 1 with
          | none => simp [h1] at h
          | some r1 =>
            obtain ⟨inter, fin, n1⟩ := r1
            have a1 := escInter_append q _ _ _ _ _ _ h1
            simp only [h1] at h
            rw [← List.cons_append, a1.1]
            simp only [Step.tok.injEq] at h
            obtain ⟨rfl, rfl⟩ := h
            exact ⟨rfl, a1.2⟩


theorem next_append (p q : Bytes) (t : Tok) (n : Nat) (h : next p = .tok t n) :
    next (p ++ q) = .tok t n ∧ 0 < n ∧ n ≤ p.length := by
  cases p with
  | nil => simp [next] at h
  | cons b rest =>
    simp only [List.cons_append, next] at h ⊢
    split at h
    · rename_i hb
      simp only [hb, if_true]
      split at h
      · rename_i hf
        have hf' := fullRune_append _ q hf
        have hd := decodeRune_append _ q hf
        have hs := decodeRune_size (b :: rest) (by simp)
        simp only [List.cons_append] at hf' hd
        simp only [hf', if_true, hd]
        simp only [Step.tok.injEq] at h
        obtain ⟨rfl, rfl⟩ := h
        refine ⟨?_, hs.1, hs.2⟩
        rw [← List.cons_append, List.take_append_of_le_length hs.2]
      · simp at h
    · rename_i hb
      simp only [hb]
      split at h
      · rename_i hb2
        simp only [hb2, if_true]
        have := parseEsc_append q rest t n h
        refine ⟨this.1, ?_, ?_⟩
        · omega
        · simp only [List.length_cons]; omega
      · rename_i hb2
        simp only [hb2]
        simp only [Step.tok.injEq] at h
        obtain ⟨rfl, rfl⟩ := h
        simp


/-! ### the read loop -/

theorem runFuel_evs (cw : Nat → Nat) : ∀ (f : Nat) (t : Term) (bs : Bytes) (evs : List Ev),
    runFuel cw f t bs evs =
      ((runFuel cw f t bs []).1, evs ++ (runFuel cw f t bs []).2.1, (runFuel cw f t bs []).2.2) := by
  intro f
  induction f with
  | zero => intro t bs evs; simp [runFuel]
  | succ f ih =>
    intro t bs evs
    simp only [runFuel]
    cases h : next bs with
    | need => simp
    | tok tk n =>
      simp only []
      rw [ih _ _ (evs ++ _), ih _ _ ([] ++ _)]
      simp [List.append_assoc]

theorem runFuel_fuel (cw : Nat → Nat) : ∀ (f1 f2 : Nat) (t : Term) (bs : Bytes) (evs : List Ev),
    bs.length < f1 → bs.length < f2 → runFuel cw f1 t bs evs = runFuel cw f2 t bs evs := by
  intro f1
  induction f1 with
  | zero => intro f2 t bs evs h; omega
  | succ f1 ih =>
    intro f2 t bs evs h1 h2
    cases f2 with
    | zero => omega
    | succ f2 =>
      simp only [runFuel]
      cases h : next bs with
      | need => rfl
      | tok tk n =>
        simp only []
        have hp := (next_append bs [] tk n h).2
        apply ih <;> simp only [List.length_drop] <;> omega

theorem runFuel_rest_need (cw : Nat → Nat) : ∀ (f : Nat) (t : Term) (bs : Bytes) (evs : List Ev),
    bs.length < f → next (runFuel cw f t bs evs).2.2 = .need := by
  intro f
  induction f with
  | zero => intro t bs evs h; omega
  | succ f ih =>
    intro t bs evs h1
    simp only [runFuel]
    cases h : next bs with
    | need => simpa using h
    | tok tk n =>
      simp only []
      have hp := (next_append bs [] tk n h).2
      apply ih; simp only [List.length_drop]; omega

theorem runFuel_succ_need (cw : Nat → Nat) (f : Nat) (t : Term) (bs : Bytes) (evs : List Ev)
    (h : next bs = .need) : runFuel cw (f + 1) t bs evs = (t, evs, bs) := by
  simp only [runFuel, h]

theorem runFuel_succ_tok (cw : Nat → Nat) (f : Nat) (t : Term) (bs : Bytes) (evs : List Ev) (tk : Tok) (n : Nat)
    (h : next bs = .tok tk n) :
    runFuel cw (f + 1) t bs evs = runFuel cw f (t.apply cw tk).1 (bs.drop n) (evs ++ (t.apply cw tk).2) := by
  simp only [runFuel, h]

theorem runFuel_append (cw : Nat → Nat) (q : Bytes) : ∀ (f f' : Nat) (t : Term) (p : Bytes) (evs : List Ev),
    p.length < f → (p ++ q).length < f' →
    runFuel cw f' t (p ++ q) evs =
      runFuel cw (((runFuel cw f t p evs).2.2 ++ q).length + 1) (runFuel cw f t p evs).1
        ((runFuel cw f t p evs).2.2 ++ q) (runFuel cw f t p evs).2.1 := by
  intro f
  induction f with
  | zero => intro f' t p evs h; omega
  | succ f ih =>
    intro f' t p evs h1 h2
    cases h : next p with
    | need =>
      rw [runFuel_succ_need cw f t p evs h]
      apply runFuel_fuel
      · exact h2
      · exact Nat.lt_succ_self _
    | tok tk n =>
      have hp := next_append p q tk n h
      cases f' with
      | zero => omega
      | succ f' =>
        rw [runFuel_succ_tok cw f t p evs tk n h, runFuel_succ_tok cw f' t (p ++ q) evs tk n hp.1,
          List.drop_append_of_le_length hp.2.2]
        apply ih
        · simp only [List.length_drop]; omega
        · simp only [List.length_append, List.length_drop] at h2 ⊢; omega

end Lemmas

open Lemmas

/-! ## Property theorems -/

/-- **UTF-8 prefix stability.** Once `utf8.FullRune` accepts a buffer, appending more bytes changes
neither that verdict nor the decoded character or its width, and the width is between 1 and the
number of bytes present. (So a character cut anywhere is decoded identically after reassembly.) -/
theorem utf8_prefix_stable (p q : Bytes) (h : fullRune p = true) :
    fullRune (p ++ q) = true ∧ decodeRune (p ++ q) = decodeRune p ∧
    0 < (decodeRune p).2 ∧ (decodeRune p).2 ≤ p.length := by
  have hne : p ≠ [] := by intro e; subst e; simp [fullRune] at h
  exact ⟨fullRune_append p q h, decodeRune_append p q h, decodeRune_size p hne⟩

/-- **Progress.** Every token spans at least one byte and no more bytes than are there. -/
theorem next_progress (bs : Bytes) (t : Tok) (n : Nat) (h : next bs = .tok t n) : 0 < n ∧ n ≤ bs.length :=
  (next_append bs [] t n h).2

/-- **Prefix stability of the tokeniser.** A token (text, control, ESC, CSI, OSC, DCS), once
complete, is not changed — neither its content nor its length — by whatever bytes follow it. -/
theorem next_prefix_stable (p : Bytes) (t : Tok) (n : Nat) (h : next p = .tok t n) :
    ∀ q, next (p ++ q) = .tok t n :=
  fun q => (next_append p q t n h).1

/-- If a buffer is still an incomplete sequence/character, so was every prefix of it (the true
direction of "need is monotone"; the other direction is false, see the header). -/
theorem next_need_of_prefix (p q : Bytes) (h : next (p ++ q) = .need) : next p = .need := by
  cases hp : next p with
  | need => rfl
  | tok t n => rw [next_prefix_stable p t n hp q] at h; cases h

/-- What `run` leaves unconsumed is always an incomplete sequence/character (or nothing): the
reader never sits on a complete token. In particular every state reached by `Sys.feed` is
quiescent in the sense required by `feedAll_eq_feed`. -/
theorem run_pending_stuck (cw : Nat → Nat) (t : Term) (bs : Bytes) : next (run cw t bs).2.2 = .need :=
  runFuel_rest_need cw _ t bs [] (Nat.lt_succ_self _)

/-- The fuel in `run` is never the reason for stopping: any larger fuel gives the same result. -/
theorem run_fuel_irrelevant (cw : Nat → Nat) (t : Term) (bs : Bytes) (f : Nat) (h : bs.length < f) :
    runFuel cw f t bs [] = run cw t bs :=
  runFuel_fuel cw f _ t bs [] h (Nat.lt_succ_self _)

/-- **`run` is compositional in its input.** Running on `p ++ q` gives the same terminal, the same
leftover and the same events as running on `p`, then running again (from the terminal reached) on
the leftover of the first run extended by `q`; the events are the concatenation. -/
theorem run_append (cw : Nat → Nat) (t : Term) (p q : Bytes) :
    run cw t (p ++ q) =
      ((run cw (run cw t p).1 ((run cw t p).2.2 ++ q)).1,
       (run cw t p).2.1 ++ (run cw (run cw t p).1 ((run cw t p).2.2 ++ q)).2.1,
       (run cw (run cw t p).1 ((run cw t p).2.2 ++ q)).2.2) := by
  unfold run
  rw [runFuel_append cw q (p.length + 1) _ t p [] (by omega) (by omega), runFuel_evs]

/-- Two consecutive reads equal one read of the concatenation, from ANY reader state (whatever is
pending): same terminal and pending bytes, events concatenated. -/
theorem feed_append (cw : Nat → Nat) (s : Sys) (a b : Bytes) :
    ((s.feed cw a).1.feed cw b).1 = (s.feed cw (a ++ b)).1 ∧
    (s.feed cw a).2 ++ ((s.feed cw a).1.feed cw b).2 = (s.feed cw (a ++ b)).2 := by
  simp only [Sys.feed]
  rw [← List.append_assoc, run_append cw s.t (s.pending ++ a) b]
  exact ⟨rfl, rfl⟩

/-- **Chunk irrelevance, two chunks.** For every terminal, width function and byte lists `a`, `b`:
feeding `a` then `b` yields the same final system state (terminal = screens, cursor, modes,
keyboard stacks; and unconsumed rest) and the same event list (replies and frontend effects, in
order) as feeding `a ++ b` at once. -/
theorem chunk_irrelevant (cw : Nat → Nat) (t : Term) (a b : Bytes) :
    let r1 := Sys.feed cw ⟨t, []⟩ a
    let r2 := r1.1.feed cw b
    let r := Sys.feed cw ⟨t, []⟩ (a ++ b)
    r2.1 = r.1 ∧ r1.2 ++ r2.2 = r.2 := by
  intro r1 r2 r
  exact feed_append cw ⟨t, []⟩ a b

/-- **Every cut point.** Cutting the stream after its first `k` bytes — for every `k`, hence also
inside a UTF-8 character or an escape sequence — changes nothing. -/
theorem cut_anywhere (cw : Nat → Nat) (t : Term) (bs : Bytes) (k : Nat) :
    Sys.feedAll cw ⟨t, []⟩ [bs.take k, bs.drop k] = Sys.feed cw ⟨t, []⟩ bs := by
  have h := feed_append cw ⟨t, []⟩ (bs.take k) (bs.drop k)
  rw [List.take_append_drop] at h
  simp only [Sys.feedAll, List.append_nil]
  exact Prod.ext h.1 h.2

/-- A whole read script equals one read of its concatenation, from any quiescent reader state
(`next s.pending = .need`: nothing pending, or an incomplete sequence — which is what every
state produced by `feed` satisfies, `run_pending_stuck`). -/
theorem feedAll_eq_feed (cw : Nat → Nat) : ∀ (chunks : List Bytes) (s : Sys), next s.pending = .need →
    Sys.feedAll cw s chunks = s.feed cw chunks.flatten := by
  intro chunks
  induction chunks with
  | nil =>
    intro s hq
    have hr : run cw s.t s.pending = (s.t, [], s.pending) := by
      unfold run; exact runFuel_succ_need cw _ s.t s.pending [] hq
    simp only [Sys.feedAll, Sys.feed, List.flatten_nil, List.append_nil, hr]
  | cons c cs ih =>
    intro s hq
    simp only [Sys.feedAll, List.flatten_cons]
    rw [ih _ (by simp only [Sys.feed]; exact run_pending_stuck cw _ _)]
    have := feed_append cw s c cs.flatten
    exact Prod.ext this.1 this.2

/-- **Chunk irrelevance, any segmentation.** From a fresh reader, delivering the stream as any list
of chunks gives the same final terminal, the same unconsumed rest and the same event list as
delivering it in one read. -/
theorem segmentation_irrelevant (cw : Nat → Nat) (t : Term) (chunks : List Bytes) :
    Sys.feedAll cw ⟨t, []⟩ chunks = Sys.feed cw ⟨t, []⟩ chunks.flatten :=
  feedAll_eq_feed cw chunks ⟨t, []⟩ (by simp [next])

/-- Any two segmentations of the same stream are indistinguishable. -/
theorem segmentations_agree (cw : Nat → Nat) (t : Term) (c1 c2 : List Bytes) (h : c1.flatten = c2.flatten) :
    Sys.feedAll cw ⟨t, []⟩ c1 = Sys.feedAll cw ⟨t, []⟩ c2 := by
  rw [segmentation_irrelevant, segmentation_irrelevant, h]

/-- **Byte-by-byte delivery** equals one-shot delivery. -/
theorem byte_by_byte (cw : Nat → Nat) (t : Term) (bs : Bytes) :
    Sys.feedAll cw ⟨t, []⟩ (bs.map fun b => [b]) = Sys.feed cw ⟨t, []⟩ bs := by
  rw [segmentation_irrelevant]
  congr 1
  induction bs with
  | nil => rfl
  | cons b rest ih => simp only [List.map_cons, List.flatten_cons, ih, List.singleton_append]

/-! ### the `2^(n-1)` segmentations into non-empty chunks, explicitly -/

/-- all ways of cutting a stream into non-empty chunks -/
def segs : Bytes → List (List Bytes)
  | [] => [[]]
  | b :: rest => (segs rest).flatMap fun s =>
      match s with
      | [] => [[[b]]]
      | c :: cs => [[b] :: c :: cs, (b :: c) :: cs]

theorem segs_flatten : ∀ (bs : Bytes) (s : List Bytes), s ∈ segs bs → s.flatten = bs := by
  intro bs
  induction bs with
  | nil => intro s h; simp [segs] at h; simp [h]
  | cons b rest ih =>
    intro s h
    simp only [segs, List.mem_flatMap] at h
    obtain ⟨s', hs', hm⟩ := h
    have := ih s' hs'
    cases s' with
    | nil => simp at hm; subst hm; simp at this; simp [← this]
    | cons c cs =>
      simp at hm
      rcases hm with rfl | rfl <;> simp [← this]

theorem segs_ne_nil : ∀ (b : UInt8) (rest : Bytes) (s : List Bytes), s ∈ segs (b :: rest) → s ≠ [] := by
  intro b rest s h
  simp only [segs, List.mem_flatMap] at h
  obtain ⟨s', _, hm⟩ := h
  cases s' with
  | nil => simp at hm; simp [hm]
  | cons c cs => simp at hm; rcases hm with rfl | rfl <;> simp

theorem segs_step_length (b : UInt8) : ∀ (L : List (List Bytes)), (∀ s ∈ L, s ≠ []) →
    (L.flatMap fun s => match s with
      | [] => [[[b]]]
      | c :: cs => [[b] :: c :: cs, (b :: c) :: cs]).length = 2 * L.length := by
  intro L
  induction L with
  | nil => intro _; rfl
  | cons s L ih =>
    intro hne
    have h1 : s ≠ [] := hne s (by simp)
    have h2 := ih (fun s hs => hne s (by simp [hs]))
    cases s with
    | nil => exact absurd rfl h1
    | cons c cs =>
      rw [List.flatMap_cons, List.length_append, h2]
      simp only [List.length_cons, List.length_nil]; omega

/-- there are exactly `2^(n-1)` of them -/
theorem segs_length : ∀ (rest : Bytes) (b : UInt8), (segs (b :: rest)).length = 2 ^ rest.length := by
  intro rest
  induction rest with
  | nil => intro b; simp [segs]
  | cons b' rest ih =>
    intro b
    rw [segs, segs_step_length b _ (segs_ne_nil b' rest), ih b', List.length_cons, Nat.pow_succ]
    omega

/-- **All `2^(n-1)` segmentations** of an `n`-byte stream give the one-shot result. -/
theorem all_segmentations (cw : Nat → Nat) (t : Term) (bs : Bytes) :
    ∀ s ∈ segs bs, Sys.feedAll cw ⟨t, []⟩ s = Sys.feed cw ⟨t, []⟩ bs := by
  intro s hs
  rw [segmentation_irrelevant, segs_flatten bs s hs]

/-! ## Non-vacuity / sanity checks -/

deriving instance DecidableEq for Term
deriving instance DecidableEq for Sys

/-- a 4×2 terminal, every character one column wide -/
def t0 : Term := Term.init .keep 4 2
def cw1 : Nat → Nat := fun _ => 1

/-- `a`, U+1F600 (4 bytes), `ESC[31m`, `b`, `ESC[6n` (cursor-position report ⇒ a reply) -/
def demo : Bytes := [0x61, 0xF0, 0x9F, 0x98, 0x80, 0x1b, 0x5b, 0x33, 0x31, 0x6d, 0x62, 0x1b, 0x5b, 0x36, 0x6e]
/-- the same without SGR (whose handler is by well-founded recursion, opaque to `decide`):
`a`, U+1F600, `ESC[?25l` (a mode), `ESC[6n` (a reply) -/
def demo2 : Bytes := [0x61, 0xF0, 0x9F, 0x98, 0x80, 0x1b, 0x5b, 0x3f, 0x32, 0x35, 0x6c, 0x1b, 0x5b, 0x36, 0x6e]

-- cuts inside a character / an escape sequence really leave bytes pending (the theorems are not
-- about a reader that only ever sees whole tokens)
example : (Sys.feed cw1 ⟨t0, []⟩ [0x61, 0xF0, 0x9F]).1.pending = [0xF0, 0x9F] := by decide
example : (Sys.feed cw1 ⟨t0, []⟩ [0x61, 0x1b, 0x5b, 0x33]).1.pending = [0x1b, 0x5b, 0x33] := by decide
example : next [0xF0, 0x9F, 0x98] = .need ∧ next [0x1b, 0x5b, 0x33, 0x31] = .need ∧
    next [0x1b, 0x5d, 0x30, 0x3b, 0x61, 0x1b] = .need := by decide
example : next [0xF0, 0x9F, 0x98, 0x80, 0x1b] = .tok (.text [0xF0, 0x9F, 0x98, 0x80] 0x1F600) 4 := by decide
example : next [0x1b, 0x5b, 0x33, 0x31, 0x6d, 0x62] = .tok (.csi 0 [31] true 0x6d) 5 := by decide

-- the naive "need is monotone" statement fails: an incomplete 4-byte character becomes a
-- one-byte U+FFFD token when a non-continuation byte follows
example : next [0xF0, 0x90] = .need ∧
    next [0xF0, 0x90, 0x41] = .tok (.text replacementChar 0xFFFD) 1 := by decide

-- the stream has visible effects: the mode is set, the reply is produced, the screen changed
example : (Sys.feed cw1 ⟨t0, []⟩ demo2).2.getLast? = some (.reply [27, 91, 49, 59, 51, 82]) := by decide
example : (Sys.feed cw1 ⟨t0, []⟩ demo2).1.t ≠ t0 := by decide

-- every cut point of `demo2`, checked by the kernel independently of the theorems
example : ∀ k ∈ List.range (demo2.length + 1),
    Sys.feedAll cw1 ⟨t0, []⟩ [demo2.take k, demo2.drop k] = Sys.feed cw1 ⟨t0, []⟩ demo2 := by decide
-- byte by byte
example : Sys.feedAll cw1 ⟨t0, []⟩ (demo2.map fun b => [b]) = Sys.feed cw1 ⟨t0, []⟩ demo2 := by decide

-- the stream with the emoji and `ESC[31m`: every cut point, byte-by-byte, and all 16384
-- segmentations, by evaluation
#guard (List.range (demo.length + 1)).all fun k =>
  Sys.feedAll cw1 ⟨t0, []⟩ [demo.take k, demo.drop k] = Sys.feed cw1 ⟨t0, []⟩ demo
#guard Sys.feedAll cw1 ⟨t0, []⟩ (demo.map fun b => [b]) = Sys.feed cw1 ⟨t0, []⟩ demo
#guard (segs demo).length = 16384
#guard (segs demo).all fun s => Sys.feedAll cw1 ⟨t0, []⟩ s = Sys.feed cw1 ⟨t0, []⟩ demo
#guard (Sys.feed cw1 ⟨t0, []⟩ demo).2.getLast? = some (.reply [27, 91, 49, 59, 52, 82])
-- pending length after each prefix of `demo`: non-zero exactly inside the emoji and the sequences
#guard ((List.range (demo.length + 1)).map fun k => (Sys.feed cw1 ⟨t0, []⟩ (demo.take k)).1.pending.length)
  = [0, 0, 1, 2, 3, 0, 1, 2, 3, 4, 0, 0, 1, 2, 3, 0]

end TM.C08

#print axioms TM.C08.utf8_prefix_stable
#print axioms TM.C08.next_progress
#print axioms TM.C08.next_prefix_stable
#print axioms TM.C08.next_need_of_prefix
#print axioms TM.C08.run_pending_stuck
#print axioms TM.C08.run_fuel_irrelevant
#print axioms TM.C08.run_append
#print axioms TM.C08.feed_append
#print axioms TM.C08.chunk_irrelevant
#print axioms TM.C08.cut_anywhere
#print axioms TM.C08.feedAll_eq_feed
#print axioms TM.C08.segmentation_irrelevant
#print axioms TM.C08.segmentations_agree
#print axioms TM.C08.byte_by_byte
#print axioms TM.C08.all_segmentations
