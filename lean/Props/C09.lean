import TM.Run
/-!
# C09 — every well-formed ESC / CSI / OSC / DCS sequence is removed from the stream in its entirety

Model: the tokeniser `TM.next` (`TM/Parser.lean`) and the token dispatch `TM.Term.apply`
(`TM/Term.lean`), the read loop `TM.run` (`TM/Run.lean`).

Part A defines the grammar of well-formed control sequences *independently of the parser*
(byte ranges of ECMA-48 and the UTF-8 framing rule for string payloads). Part B proves, for
EVERY continuation `rest` of the byte stream:

* B1 `csi_framing`, `esc_framing`, `osc_num_framing`, `osc_malformed_framing`, `osc_framing`,
     `dcs_framing`, `framing`: the tokeniser yields exactly one token that spans exactly the
     sequence (and the token's prefix / clean flag / final / number / payload are those the
     grammar says);
* B2 `no_draw`, `control_no_text_event`, `no_text_event`: that token is never a text (nor a C0)
     token; an unrecognised one leaves both grids (indeed everything) unchanged; no control
     token ever reports drawn text;
* B3 `unknown_noop`: a token outside the finite table `recognised` changes no state and emits
     nothing; `recognisedCsi_tight`, `recognised_other_tight`: the table cannot be shrunk;
* B4 `osc_payload`, `osc_payload_itoa`, `osc_payload_pointwise`: OSC 0/2/6/7 deliver exactly
     their payload bytes as view strings 0/0/1/2;
* B5 `run_skip`, `run_unrecognised`, `run_csi_unrecognised`, `run_esc_unrecognised`, `run_dcs`,
     `run_osc_unknown_number`, `run_osc_malformed`, `run_osc_payload`, `run_embedded`,
     `embedded_no_residue`: in the read loop `run` an unrecognised well-formed sequence in front of
     any `post` (and after any ASCII text `pre`) leaves no residue.
-/
namespace TM.C09
open TM

/-! ## A. The grammar (independent of the parser) -/

/-- CSI parameter byte `0`–`?` -/
def isParamB (b : UInt8) : Bool := 0x30 ≤ b && b ≤ 0x3f
/-- intermediate byte ` `–`/` -/
def isInterB (b : UInt8) : Bool := 0x20 ≤ b && b ≤ 0x2f
/-- CSI final byte `@`–`~` -/
def isCsiFinal (b : UInt8) : Bool := 0x40 ≤ b && b ≤ 0x7e
/-- ESC final byte `0`–`~` -/
def isEscFinal (b : UInt8) : Bool := 0x30 ≤ b && b ≤ 0x7e
/-- decimal digit -/
def isDigitB (b : UInt8) : Bool := 0x30 ≤ b && b ≤ 0x39

/-! ### CSI -/

/-- `ESC [ P… I… F` -/
def csiBytes (ps is : Bytes) (f : UInt8) : Bytes := 0x1b :: 0x5b :: (ps ++ is ++ [f])

structure CsiWF (ps is : Bytes) (f : UInt8) : Prop where
  params : ∀ b ∈ ps, isParamB b = true
  inter : ∀ b ∈ is, isInterB b = true
  final : isCsiFinal f = true

def IsCsiSeq (s : Bytes) : Prop := ∃ ps is f, CsiWF ps is f ∧ s = csiBytes ps is f

/-- the private prefix `<` `=` `>` `?` when it is the first parameter byte, else `0` -/
def csiPrefix : Bytes → UInt8
  | [] => 0
  | b :: _ => if 0x3c ≤ b && b ≤ 0x3f then b else 0

/-- the parameter bytes after the private prefix -/
def csiArgs : Bytes → Bytes
  | [] => []
  | b :: r => if 0x3c ≤ b && b ≤ 0x3f then r else b :: r

/-- a CSI is *plain* when it has no intermediates and its arguments are digits and `;` only
    (no `:` sub-parameters, no late `<=>?`) -/
def csiPlainForm (ps is : Bytes) : Bool :=
  is.isEmpty && (csiArgs ps).all (fun b => isDigitB b || b == 0x3b)

/-! ### ESC -/

/-- `ESC I… F` -/
def escBytes (is : Bytes) (f : UInt8) : Bytes := 0x1b :: (is ++ [f])

structure EscWF (is : Bytes) (f : UInt8) : Prop where
  inter : ∀ b ∈ is, isInterB b = true
  final : isEscFinal f = true
  /-- `ESC [`, `ESC ]`, `ESC P` introduce CSI / OSC / DCS -/
  notIntro : is = [] → f ≠ 0x5b ∧ f ≠ 0x5d ∧ f ≠ 0x50

def IsEscSeq (s : Bytes) : Prop := ∃ is f, EscWF is f ∧ s = escBytes is f

/-! ### string payloads (OSC, DCS) -/

/-- number of continuation bytes a UTF-8 lead byte announces (0 for every other byte) -/
def contCount (b : UInt8) : Nat :=
  if 0xC2 ≤ b && b ≤ 0xDF then 1 else if 0xE0 ≤ b && b ≤ 0xEF then 2 else if 0xF0 ≤ b && b ≤ 0xF4 then 3 else 0

/-- UTF-8 continuation byte -/
def isContB (b : UInt8) : Bool := 0x80 ≤ b && b ≤ 0xBF

/-- The payload language: a concatenation of
    * single bytes that are not ESC, not the C1 string terminator 0x9c, not a UTF-8 lead byte
      (and not BEL when `noBel`, i.e. in an OSC) — this covers all of ASCII except ESC (BEL),
      and also stray bytes 0x80–0xC1 (≠ 0x9c) and 0xF5–0xFF;
    * multi-byte characters: a lead byte 0xC2–0xF4 followed by exactly the number of
      continuation bytes (0x80–0xBF, *including 0x9c*) it announces;
    * truncated multi-byte characters: a lead byte followed by fewer continuation bytes
      (again including 0x9c) than announced, provided more payload follows (its next byte is
      then not a continuation byte).
    Every well-formed UTF-8 text without ESC (BEL) is in this language, and so is every byte
    string without ESC (BEL) and without 0x9c that does not end in a truncated character. -/
inductive Payload (noBel : Bool) : Bytes → Prop
  | nil : Payload noBel []
  | plain (b : UInt8) (p : Bytes) : b ≠ 0x1b → b ≠ 0x9c → (noBel = true → b ≠ 7) → contCount b = 0 →
      Payload noBel p → Payload noBel (b :: p)
  | multi (l : UInt8) (cs p : Bytes) : 0 < contCount l → cs.length = contCount l →
      (∀ c ∈ cs, isContB c = true) → Payload noBel p → Payload noBel (l :: (cs ++ p))
  | trunc (l : UInt8) (cs : Bytes) (b : UInt8) (p : Bytes) : 0 < contCount l → cs.length < contCount l →
      (∀ c ∈ cs, isContB c = true) → isContB b = false → Payload noBel (b :: p) →
      Payload noBel (l :: (cs ++ b :: p))

/-- string terminators: BEL (OSC only), `ESC \`, and the 8-bit ST 0x9c -/
inductive StrTerm (bel : Bool) : Bytes → Prop
  | bel : bel = true → StrTerm bel [7]
  | st : StrTerm bel [0x1b, 0x5c]
  | st8 : StrTerm bel [0x9c]

/-- value of a decimal digit string -/
def decVal (ds : Bytes) : Nat := ds.foldl (fun a d => a * 10 + (d.toNat - 48)) 0

/-- the number of an OSC with digit string `ds`: its decimal value (leading zeros allowed); a value
    that does not fit Go's `strconv.Atoi` (≥ 10^18 in the model) is replaced by a sentinel for
    which no handler exists -/
def oscNumber (ds : Bytes) : Nat := if decVal ds < 10 ^ 18 then decVal ds else 0xffffffffffff

/-- `ESC ] payload terminator` -/
def oscBytes (body term : Bytes) : Bytes := 0x1b :: 0x5d :: (body ++ term)
def IsOscSeq (s : Bytes) : Prop := ∃ body term, Payload true body ∧ StrTerm true term ∧ s = oscBytes body term

/-- `ESC P payload ST` -/
def dcsBytes (body term : Bytes) : Bytes := 0x1b :: 0x50 :: (body ++ term)
def IsDcsSeq (s : Bytes) : Prop := ∃ body term, Payload false body ∧ StrTerm false term ∧ s = dcsBytes body term

/-- a well-formed control sequence of any of the four classes -/
def WellFormed (s : Bytes) : Prop := IsEscSeq s ∨ IsCsiSeq s ∨ IsOscSeq s ∨ IsDcsSeq s

/-! ## Lemmas -/
namespace Lemmas

theorem forall_u8 (P : UInt8 → Prop) (h : ∀ n : Fin 256, P (UInt8.ofNat n.val)) : ∀ b : UInt8, P b := by
  intro b
  have := h ⟨b.toNat, b.toNat_lt⟩
  simpa using this

/-! ### byte-class facts (each checked on all 256 bytes) -/

set_option maxRecDepth 100000 in
theorem isPfx_eq : ∀ b : UInt8,
    (decide (b = 0x3f) || decide (b = 0x3e) || decide (b = 0x3c) || decide (b = 0x3d)) = (0x3c ≤ b && b ≤ 0x3f) := by
  apply forall_u8; decide

set_option maxRecDepth 100000 in
theorem paramRange_eq : ∀ b : UInt8, isCsiParamRange b = isParamB b := by
  apply forall_u8; decide

set_option maxRecDepth 100000 in
theorem inter_eq : ∀ b : UInt8, isIntermediate b = isInterB b := by
  apply forall_u8; decide

set_option maxRecDepth 100000 in
theorem paramByte_eq : ∀ b : UInt8, isParamByte b = (isDigitB b || b == 0x3b) := by
  apply forall_u8; decide

set_option maxRecDepth 100000 in
theorem paramByte_range : ∀ b : UInt8, isParamB b = false → isParamByte b = false := by
  apply forall_u8; decide

set_option maxRecDepth 100000 in
theorem inter_not_param : ∀ b : UInt8, isInterB b = true → isParamB b = false := by
  apply forall_u8; decide

set_option maxRecDepth 100000 in
theorem csiFinal_not_param : ∀ b : UInt8, isCsiFinal b = true → isParamB b = false := by
  apply forall_u8; decide

set_option maxRecDepth 100000 in
theorem csiFinal_not_inter : ∀ b : UInt8, isCsiFinal b = true → isInterB b = false := by
  apply forall_u8; decide

set_option maxRecDepth 100000 in
theorem escFinal_not_inter : ∀ b : UInt8, isEscFinal b = true → isInterB b = false := by
  apply forall_u8; decide

set_option maxRecDepth 100000 in
theorem inter_not_intro : ∀ b : UInt8, isInterB b = true → b ≠ 0x5b ∧ b ≠ 0x5d ∧ b ≠ 0x50 := by
  apply forall_u8; decide

set_option maxRecDepth 100000 in
theorem inter_not_pfx : ∀ b : UInt8, isInterB b = true → (0x3c ≤ b && b ≤ 0x3f) = false := by
  apply forall_u8; decide

set_option maxRecDepth 100000 in
theorem csiFinal_not_pfx : ∀ b : UInt8, isCsiFinal b = true → (0x3c ≤ b && b ≤ 0x3f) = false := by
  apply forall_u8; decide

/-! ### CSI phases -/

/-- phase 1 stops at the first byte that is not a digit or `;` -/
theorem csiParams_run (xs : Bytes) : ∀ (p : PState) (n : Nat) (c : UInt8) (r : Bytes),
    (∀ b ∈ xs, isParamB b = true) → isParamB c = false →
    ∃ p' xs1 xs2, xs = xs1 ++ xs2 ∧ (∀ b ∈ xs1, isParamByte b = true) ∧
      (∀ d ds, xs2 = d :: ds → isParamByte d = false) ∧
      csiParams (xs ++ c :: r) p n = some (p', xs2 ++ c :: r, n + xs1.length) := by
  induction xs with
  | nil =>
    intro p n c r _ hc
    refine ⟨p, [], [], rfl, by simp, by simp, ?_⟩
    simp [csiParams, paramByte_range c hc]
  | cons b xs ih =>
    intro p n c r hx hc
    by_cases hb : isParamByte b = true
    · obtain ⟨p', xs1, xs2, e, h1, h2, h3⟩ := ih (p.feed b) (n + 1) c r (fun x hx' => hx x (by simp [hx'])) hc
      refine ⟨p', b :: xs1, xs2, by simp [e], ?_, h2, ?_⟩
      · intro x hx'
        rcases List.mem_cons.1 hx' with rfl | h
        · exact hb
        · exact h1 x h
      · simp only [List.cons_append, csiParams, hb, if_true, h3, List.length_cons]
        congr 3; omega
    · refine ⟨p, [], b :: xs, rfl, by simp, ?_, ?_⟩
      · intro d ds e
        cases e
        simpa using hb
      · simp [csiParams, hb]

/-- phase 2 runs over the remaining parameter-range bytes and records whether there were any -/
theorem csiSkipParams_run (xs : Bytes) : ∀ (clean : Bool) (n : Nat) (c : UInt8) (r : Bytes),
    (∀ b ∈ xs, isParamB b = true) → isParamB c = false →
    csiSkipParams (xs ++ c :: r) clean n = some (clean && xs.isEmpty, c :: r, n + xs.length) := by
  induction xs with
  | nil => intro clean n c r _ hc; simp [csiSkipParams, paramRange_eq, hc]
  | cons b xs ih =>
    intro clean n c r hx hc
    have hb : isParamB b = true := hx b (by simp)
    simp only [List.cons_append, csiSkipParams, paramRange_eq, hb, if_true]
    rw [ih false (n + 1) c r (fun x hx' => hx x (by simp [hx'])) hc]
    simp; omega

/-- phase 3 runs over the intermediates and takes the next byte as the final byte -/
theorem csiInter_run (xs : Bytes) : ∀ (clean : Bool) (n : Nat) (f : UInt8) (r : Bytes),
    (∀ b ∈ xs, isInterB b = true) → isInterB f = false →
    csiInter (xs ++ f :: r) clean n = some (clean && xs.isEmpty, f, n + xs.length + 1) := by
  induction xs with
  | nil => intro clean n f r _ hf; simp [csiInter, inter_eq, hf]
  | cons b xs ih =>
    intro clean n f r hx hf
    have hb : isInterB b = true := hx b (by simp)
    simp only [List.cons_append, csiInter, inter_eq, hb, if_true]
    rw [ih false (n + 1) f r (fun x hx' => hx x (by simp [hx'])) hf]
    simp; omega

/-- the three phases of `parseCSI` after the private prefix has been split off -/
def csiBody (pre : UInt8) (body : Bytes) (n1 : Nat) : Step :=
  match csiParams body {} n1 with
  | none => .need
  | some (p, body2, n2) =>
    match csiSkipParams body2 true n2 with
    | none => .need
    | some (clean, body3, n3) =>
      match csiInter body3 clean n3 with
      | none => .need
      | some (clean', fin, n4) => .tok (.csi pre p.finish clean' fin) n4

theorem parseCSI_cons (b : UInt8) (r : Bytes) (n0 : Nat) :
    parseCSI (b :: r) n0 = if (0x3c ≤ b && b ≤ 0x3f) then csiBody b r (n0 + 1) else csiBody 0 (b :: r) n0 := by
  unfold parseCSI csiBody
  simp only [isPfx_eq]
  cases (0x3c ≤ b && b ≤ 0x3f) <;> rfl

theorem csiBody_run (pre : UInt8) (xs is : Bytes) (f : UInt8) (rest : Bytes) (n1 : Nat)
    (hx : ∀ b ∈ xs, isParamB b = true) (hi : ∀ b ∈ is, isInterB b = true) (hf : isCsiFinal f = true) :
    ∃ params, csiBody pre (xs ++ is ++ f :: rest) n1 =
      .tok (.csi pre params (is.isEmpty && xs.all (fun b => isDigitB b || b == 0x3b)) f)
        (n1 + xs.length + is.length + 1) := by
  -- the byte after the parameter bytes: first intermediate, or the final byte
  obtain ⟨c, r, hcr, hc⟩ : ∃ c r, is ++ f :: rest = c :: r ∧ isParamB c = false := by
    cases is with
    | nil => exact ⟨f, rest, rfl, csiFinal_not_param f hf⟩
    | cons i is' => exact ⟨i, is' ++ f :: rest, rfl, inter_not_param i (hi i (by simp))⟩
  obtain ⟨p', xs1, xs2, e, h1, h2, h3⟩ := csiParams_run xs {} n1 c r hx hc
  have hx2 : ∀ b ∈ xs2, isParamB b = true := fun b hb => hx b (by simp [e, hb])
  refine ⟨p'.finish, ?_⟩
  unfold csiBody
  rw [List.append_assoc, hcr, h3]
  simp only []
  rw [csiSkipParams_run xs2 true _ c r hx2 hc]
  simp only []
  rw [← hcr, csiInter_run is _ _ f rest hi (csiFinal_not_inter f hf)]
  simp only [Bool.true_and]
  have hclean : (xs2.isEmpty && is.isEmpty) = (is.isEmpty && xs.all (fun b => isDigitB b || b == 0x3b)) := by
    have hall1 : xs1.all (fun b => isDigitB b || b == 0x3b) = true := by
      rw [List.all_eq_true]; intro b hb; rw [← paramByte_eq]; exact h1 b hb
    rw [e, List.all_append, hall1, Bool.true_and, Bool.and_comm]
    congr 1
    cases xs2 with
    | nil => rfl
    | cons d ds =>
      have := h2 d ds rfl
      rw [paramByte_eq] at this
      simp [this]
  rw [hclean]
  congr 1
  rw [e, List.length_append]; omega

theorem next_esc (r : Bytes) : next (0x1b :: r) = parseEsc r := by
  simp [next, isPrintableByte]

theorem parseEsc_csi (r : Bytes) : parseEsc (0x5b :: r) = parseCSI r 2 := by
  simp [parseEsc]

/-! ### ESC -/

theorem escInter_run (xs : Bytes) : ∀ (acc : Bytes) (n : Nat) (f : UInt8) (r : Bytes),
    (∀ b ∈ xs, isInterB b = true) → isInterB f = false →
    escInter (xs ++ f :: r) acc n = some (acc.reverse ++ xs, f, n + xs.length + 1) := by
  induction xs with
  | nil => intro acc n f r _ hf; simp [escInter, inter_eq, hf]
  | cons b xs ih =>
    intro acc n f r hx hf
    have hb : isInterB b = true := hx b (by simp)
    simp only [List.cons_append, escInter, inter_eq, hb, if_true]
    rw [ih (b :: acc) (n + 1) f r (fun x hx' => hx x (by simp [hx'])) hf]
    simp; omega

theorem parseEsc_other (b : UInt8) (r : Bytes) (h1 : b ≠ 0x5b) (h2 : b ≠ 0x5d) (h3 : b ≠ 0x50) :
    parseEsc (b :: r) = match escInter (b :: r) [] 1 with
      | none => .need
      | some (inter, fin, n) => .tok (.esc inter fin) n := by
  unfold parseEsc
  simp only [h1, h2, h3, if_false]
  rfl

/-! ### string payloads -/

set_option maxRecDepth 100000 in
theorem contCount_eq : ∀ b : UInt8, leadLen b - 1 = contCount b := by
  apply forall_u8; decide

set_option maxRecDepth 100000 in
theorem isCont_eq : ∀ b : UInt8, isCont b = isContB b := by
  apply forall_u8; decide

set_option maxRecDepth 100000 in
theorem cont_facts : ∀ b : UInt8, isContB b = true → b ≠ 7 ∧ b ≠ 0x5c ∧ b ≠ 0x1b := by
  apply forall_u8; decide

set_option maxRecDepth 100000 in
theorem lead_facts : ∀ b : UInt8, 0 < contCount b → b ≠ 7 ∧ b ≠ 0x9c ∧ b ≠ 0x5c ∧ b ≠ 0x1b ∧ isContB b = false := by
  apply forall_u8; decide

set_option maxRecDepth 100000 in
theorem digit_facts : ∀ b : UInt8, isDigitB b = true → contCount b = 0 ∧ b ≠ 0x3b ∧ b ≠ 7 ∧ b ≠ 0x9c ∧ b ≠ 0x1b := by
  apply forall_u8; decide

set_option maxRecDepth 100000 in
theorem isDigit_eq : ∀ b : UInt8, isDigit b = isDigitB b := by
  apply forall_u8; decide

/-- one non-terminating step of `strPayload` -/
theorem strPayload_step (bel : Bool) (b : UInt8) (rest acc : Bytes) (need n : Nat)
    (h7 : bel = true → b ≠ 7) (h9c : b = 0x9c → need ≠ 0) (h5c : b = 0x5c → acc.head? ≠ some 0x1b) :
    strPayload bel (b :: rest) acc need n =
      strPayload bel rest (b :: acc) (if isCont b ∧ need > 0 then need - 1 else leadLen b - 1) (n + 1) := by
  have c1 : ¬ (b = 7 ∧ bel = true) := fun ⟨a, c⟩ => h7 c a
  have c2 : ¬ (b = 0x9c ∧ need = 0) := fun ⟨a, c⟩ => h9c a c
  have c3 : ¬ (b = 0x5c ∧ acc.head? = some 0x1b) := fun ⟨a, c⟩ => h5c a c
  rw [strPayload]
  simp only [c1, c2, c3, if_false]

/-- continuation bytes of a multi-byte character are payload, 0x9c included -/
theorem strPayload_conts (bel : Bool) (cs : Bytes) : ∀ (acc : Bytes) (need n : Nat) (tl : Bytes),
    (∀ c ∈ cs, isContB c = true) → cs.length ≤ need →
    strPayload bel (cs ++ tl) acc need n = strPayload bel tl (cs.reverse ++ acc) (need - cs.length) (n + cs.length) := by
  induction cs with
  | nil => intro acc need n tl _ _; simp
  | cons c cs ih =>
    intro acc need n tl hc hlen
    have hcc : isContB c = true := hc c (by simp)
    obtain ⟨f1, f2, _⟩ := cont_facts c hcc
    have hneed : need > 0 := by simp at hlen; omega
    rw [List.cons_append, strPayload_step bel c _ acc need n (fun _ => f1) (fun _ => by omega)
      (fun h => absurd h f2)]
    have : (isCont c = true ∧ need > 0) := ⟨by rw [isCont_eq]; exact hcc, hneed⟩
    rw [if_pos this, ih (c :: acc) (need - 1) (n + 1) tl (fun x hx => hc x (by simp [hx]))
      (by simp at hlen; omega)]
    simp only [List.reverse_cons, List.append_assoc, List.singleton_append, List.length_cons]
    congr 1 <;> omega

theorem head_rev_append (cs : Bytes) (l : UInt8) (acc : Bytes) (x : UInt8)
    (h : (cs.reverse ++ l :: acc).head? = some x) : x ∈ cs ∨ x = l := by
  cases hr : cs.reverse with
  | nil => rw [hr] at h; simp at h; exact Or.inr h.symm
  | cons y ys =>
    rw [hr] at h; simp at h
    have : y ∈ cs.reverse := by rw [hr]; simp
    exact Or.inl (by rw [← h]; simpa using this)

set_option maxRecDepth 100000 in
theorem noncont_facts : ∀ b : UInt8, isContB b = false → b ≠ 0x9c := by
  apply forall_u8; decide

/-- before a byte that is not a continuation byte the UTF-8 counter does not matter -/
theorem strPayload_need_irrel (bel : Bool) (b : UInt8) (r acc : Bytes) (k n : Nat) (hb : isContB b = false) :
    strPayload bel (b :: r) acc k n = strPayload bel (b :: r) acc 0 n := by
  have h9 := noncont_facts b hb
  have hc : isCont b = false := by rw [isCont_eq]; exact hb
  simp only [strPayload, h9, hc, false_and, Bool.false_eq_true, if_false]

/-- a payload of the grammar is consumed whole, the UTF-8 counter is back to 0 after it, and
    the last byte read is not ESC -/
theorem strPayload_payload (bel : Bool) (p : Bytes) (hp : Payload bel p) :
    ∀ (acc : Bytes) (n : Nat) (tl : Bytes), acc.head? ≠ some 0x1b →
      strPayload bel (p ++ tl) acc 0 n = strPayload bel tl (p.reverse ++ acc) 0 (n + p.length) ∧
      (p.reverse ++ acc).head? ≠ some 0x1b := by
  induction hp with
  | nil => intro acc n tl h; simpa using h
  | plain b p h1b h9c h7 hcc _ ih =>
    intro acc n tl hacc
    rw [List.cons_append, strPayload_step bel b _ acc 0 n h7 (fun h => absurd h h9c) (fun _ => hacc)]
    have : ¬ (isCont b = true ∧ 0 > 0) := fun h => absurd h.2 (by omega)
    rw [if_neg this, contCount_eq, hcc]
    obtain ⟨e, hh⟩ := ih (b :: acc) (n + 1) tl (by simp [h1b])
    rw [e]
    simp only [List.reverse_cons, List.append_assoc, List.singleton_append, List.length_cons]
    refine ⟨by congr 1; omega, ?_⟩
    simpa using hh
  | multi l cs p hl hlen hcs _ ih =>
    intro acc n tl hacc
    obtain ⟨f7, f9c, f5c, f1b, fc⟩ := lead_facts l hl
    rw [List.cons_append, strPayload_step bel l _ acc 0 n (fun _ => f7) (fun h => absurd h f9c) (fun _ => hacc)]
    have : ¬ (isCont l = true ∧ 0 > 0) := fun h => absurd h.2 (by omega)
    rw [if_neg this, contCount_eq, List.append_assoc,
      strPayload_conts bel cs (l :: acc) (contCount l) (n + 1) (p ++ tl) hcs (by omega)]
    have hacc' : (cs.reverse ++ l :: acc).head? ≠ some 0x1b := by
      intro h
      rcases head_rev_append cs l acc _ h with h | h
      · exact (cont_facts _ (hcs _ h)).2.2 rfl
      · exact f1b h.symm
    obtain ⟨e, hh⟩ := ih (cs.reverse ++ l :: acc) (n + 1 + cs.length) tl hacc'
    rw [← hlen, Nat.sub_self, e]
    simp only [List.reverse_cons, List.reverse_append, List.append_assoc, List.singleton_append,
      List.length_cons, List.length_append]
    refine ⟨by congr 1; omega, ?_⟩
    simpa using hh
  | trunc l cs b p hl hlen hcs hb _ ih =>
    intro acc n tl hacc
    obtain ⟨f7, f9c, f5c, f1b, fc⟩ := lead_facts l hl
    rw [List.cons_append, strPayload_step bel l _ acc 0 n (fun _ => f7) (fun h => absurd h f9c) (fun _ => hacc)]
    have : ¬ (isCont l = true ∧ 0 > 0) := fun h => absurd h.2 (by omega)
    rw [if_neg this, contCount_eq, List.append_assoc,
      strPayload_conts bel cs (l :: acc) (contCount l) (n + 1) (b :: p ++ tl) hcs (by omega),
      List.cons_append, strPayload_need_irrel bel b _ _ _ _ hb]
    have hacc' : (cs.reverse ++ l :: acc).head? ≠ some 0x1b := by
      intro h
      rcases head_rev_append cs l acc _ h with h | h
      · exact (cont_facts _ (hcs _ h)).2.2 rfl
      · exact f1b h.symm
    obtain ⟨e, hh⟩ := ih (cs.reverse ++ l :: acc) (n + 1 + cs.length) tl hacc'
    rw [List.cons_append] at e
    rw [e]
    simp only [List.reverse_cons, List.reverse_append, List.append_assoc,
      List.length_cons, List.length_append, List.cons_append, List.nil_append]
    refine ⟨by congr 1; omega, ?_⟩
    simpa using hh

/-- the three terminators, read with the UTF-8 counter at 0 -/
theorem strPayload_term (bel : Bool) (term : Bytes) (ht : StrTerm bel term) (acc : Bytes) (n : Nat) (rest : Bytes) :
    strPayload bel (term ++ rest) acc 0 n = some (acc, n + term.length) := by
  cases ht with
  | bel h => simp [strPayload, h]
  | st =>
    have : leadLen 0x1b - 1 = 0 := by decide
    simp [strPayload, isCont, this]
  | st8 => simp [strPayload]

/-- payload, then terminator: the accumulated payload and the exact span -/
theorem strPayload_run (bel : Bool) (p term : Bytes) (hp : Payload bel p) (ht : StrTerm bel term)
    (acc : Bytes) (n : Nat) (rest : Bytes) (hacc : acc.head? ≠ some 0x1b) :
    strPayload bel (p ++ term ++ rest) acc 0 n = some (p.reverse ++ acc, n + p.length + term.length) := by
  rw [List.append_assoc, (strPayload_payload bel p hp acc n _ hacc).1, strPayload_term bel term ht]

theorem parseEsc_dcs (r : Bytes) : parseEsc (0x50 :: r) = parseDCS r 2 := by
  simp [parseEsc]

theorem parseEsc_osc (r : Bytes) : parseEsc (0x5d :: r) = parseOSC r 2 := by
  simp [parseEsc]

/-! ### OSC -/

theorem oscDigits_run (ds : Bytes) : ∀ (acc : Bytes) (n : Nat) (t : UInt8) (r : Bytes),
    (∀ d ∈ ds, isDigitB d = true) → isDigitB t = false →
    oscDigits (ds ++ t :: r) acc n = some (acc.reverse ++ ds, t :: r, n + ds.length) := by
  induction ds with
  | nil => intro acc n t r _ ht; simp [oscDigits, isDigit_eq, ht]
  | cons d ds ih =>
    intro acc n t r hd ht
    have hdd : isDigitB d = true := hd d (by simp)
    simp only [List.cons_append, oscDigits, isDigit_eq, hdd, if_true]
    rw [ih (d :: acc) (n + 1) t r (fun x hx => hd x (by simp [hx])) ht]
    simp; omega

/-- split off the leading digits -/
theorem split_digits (body : Bytes) : ∃ ds more, body = ds ++ more ∧ (∀ d ∈ ds, isDigitB d = true) ∧
    (∀ b m, more = b :: m → isDigitB b = false) := by
  induction body with
  | nil => exact ⟨[], [], rfl, by simp, by simp⟩
  | cons b body ih =>
    by_cases hb : isDigitB b = true
    · obtain ⟨ds, more, e, h1, h2⟩ := ih
      refine ⟨b :: ds, more, by simp [e], ?_, h2⟩
      intro x hx
      rcases List.mem_cons.1 hx with rfl | h
      · exact hb
      · exact h1 x h
    · refine ⟨[], b :: body, rfl, by simp, ?_⟩
      intro c m e; cases e; simpa using hb

/-- a payload that starts with a single-byte unit: that byte is harmless and the rest is a payload -/
theorem payload_cons_inv (bel : Bool) (b : UInt8) (q : Bytes) (h : Payload bel (b :: q)) (hc : contCount b = 0) :
    Payload bel q ∧ b ≠ 0x1b ∧ b ≠ 0x9c ∧ (bel = true → b ≠ 7) := by
  cases h with
  | plain _ _ h1 h2 h3 _ hq => exact ⟨hq, h1, h2, h3⟩
  | multi _ cs p hl => omega
  | trunc _ cs c p hl => omega

/-- the first byte of a non-empty payload is never a terminator byte -/
theorem payload_head (bel : Bool) (b : UInt8) (q : Bytes) (h : Payload bel (b :: q)) :
    b ≠ 0x1b ∧ b ≠ 0x9c ∧ (bel = true → b ≠ 7) := by
  cases h with
  | plain _ _ h1 h2 h3 _ hq => exact ⟨h1, h2, h3⟩
  | multi _ cs p hl =>
    obtain ⟨f7, f9c, _, f1b, _⟩ := lead_facts b hl
    exact ⟨f1b, f9c, fun _ => f7⟩
  | trunc _ cs c p hl =>
    obtain ⟨f7, f9c, _, f1b, _⟩ := lead_facts b hl
    exact ⟨f1b, f9c, fun _ => f7⟩

theorem payload_drop_digits (bel : Bool) (ds : Bytes) : ∀ (more : Bytes), (∀ d ∈ ds, isDigitB d = true) →
    Payload bel (ds ++ more) → Payload bel more := by
  induction ds with
  | nil => intro more _ h; simpa using h
  | cons d ds ih =>
    intro more hd h
    have := payload_cons_inv bel d (ds ++ more) h (digit_facts d (hd d (by simp))).1
    exact ih more (fun x hx => hd x (by simp [hx])) this.1

/-- the number the parser attaches to the digit string `ds` (Go: `strconv.Atoi`) -/
def oscNumOf (ds : Bytes) : Nat :=
  let ds' := ds.dropWhile (· = 0x30)
  if ds'.length > 18 then 0xffffffffffff else atoiBytes ds'

/-! decimal value of the digit string vs. the parser's `dropWhile` / length test -/

set_option maxRecDepth 100000 in
theorem digit_val : ∀ b : UInt8, isDigitB b = true → b.toNat - 48 ≤ 9 ∧ (b ≠ 0x30 → 1 ≤ b.toNat - 48) := by
  apply forall_u8; decide

def F (a : Nat) (ds : Bytes) : Nat := ds.foldl (fun a d => a * 10 + (d.toNat - 48)) a

theorem F_bounds (ds : Bytes) : ∀ a, (∀ d ∈ ds, isDigitB d = true) →
    a * 10 ^ ds.length ≤ F a ds ∧ F a ds < (a + 1) * 10 ^ ds.length := by
  induction ds with
  | nil => intro a _; simp [F]
  | cons d ds ih =>
    intro a hd
    have hv := (digit_val d (hd d (by simp))).1
    obtain ⟨l, u⟩ := ih (a * 10 + (d.toNat - 48)) (fun x hx => hd x (by simp [hx]))
    have e : F a (d :: ds) = F (a * 10 + (d.toNat - 48)) ds := rfl
    rw [e, List.length_cons, Nat.pow_succ]
    constructor
    · calc a * (10 ^ ds.length * 10) = (a * 10) * 10 ^ ds.length := by
            rw [Nat.mul_comm (10 ^ ds.length) 10, Nat.mul_assoc]
        _ ≤ (a * 10 + (d.toNat - 48)) * 10 ^ ds.length := Nat.mul_le_mul_right _ (by omega)
        _ ≤ _ := l
    · calc F (a * 10 + (d.toNat - 48)) ds < (a * 10 + (d.toNat - 48) + 1) * 10 ^ ds.length := u
        _ ≤ ((a + 1) * 10) * 10 ^ ds.length := Nat.mul_le_mul_right _ (by omega)
        _ = (a + 1) * (10 ^ ds.length * 10) := by
            rw [Nat.mul_comm (10 ^ ds.length) 10, Nat.mul_assoc]

theorem F_dropZeros (ds : Bytes) : F 0 (ds.dropWhile (· = 0x30)) = F 0 ds := by
  induction ds with
  | nil => rfl
  | cons d ds ih =>
    rw [List.dropWhile_cons]
    by_cases h : d = 0x30
    · simp only [h, decide_true, if_true]
      rw [ih]; rfl
    · simp [h]

theorem dropZeros_head (ds : Bytes) : ∀ d r, ds.dropWhile (· = 0x30) = d :: r → d ≠ 0x30 := by
  induction ds with
  | nil => intro d r h; simp at h
  | cons x xs ih =>
    intro d r h
    rw [List.dropWhile_cons] at h
    by_cases hx : x = 0x30
    · simp only [hx, decide_true, if_true] at h; exact ih d r h
    · simp [hx] at h; rw [← h.1]; exact hx

theorem oscNumOf_eq (ds : Bytes) (hd : ∀ d ∈ ds, isDigitB d = true) : oscNumOf ds = oscNumber ds := by
  have hF : decVal ds = F 0 (ds.dropWhile (· = 0x30)) := (F_dropZeros ds).symm
  have hsub : ∀ d ∈ ds.dropWhile (· = 0x30), isDigitB d = true :=
    fun d h => hd d ((List.dropWhile_sublist _).subset h)
  unfold oscNumOf oscNumber
  simp only []
  rw [hF]
  have hat : ∀ xs, atoiBytes xs = F 0 xs := fun _ => rfl
  rw [hat]
  cases hs : ds.dropWhile (· = 0x30) with
  | nil => simp [F]
  | cons d r =>
    rw [hs] at hsub
    have hne := dropZeros_head ds d r hs
    obtain ⟨v9, v1⟩ := digit_val d (hsub d (by simp))
    have v1 := v1 hne
    obtain ⟨l, u⟩ := F_bounds r (0 * 10 + (d.toNat - 48)) (fun x hx => hsub x (by simp [hx]))
    have e : F 0 (d :: r) = F (0 * 10 + (d.toNat - 48)) r := rfl
    rw [e]
    by_cases hlen : (d :: r).length > 18
    · have h18 : 18 ≤ r.length := by simp at hlen; omega
      have : 10 ^ 18 ≤ 10 ^ r.length := Nat.pow_le_pow_right (by omega) h18
      have : 10 ^ r.length ≤ (0 * 10 + (d.toNat - 48)) * 10 ^ r.length := Nat.le_mul_of_pos_left _ (by omega)
      have : ¬ F (0 * 10 + (d.toNat - 48)) r < 10 ^ 18 := by omega
      rw [if_pos hlen, if_neg this]
    · have h17 : r.length + 1 ≤ 18 := by simp at hlen; omega
      have h1 : (0 * 10 + (d.toNat - 48) + 1) * 10 ^ r.length ≤ 10 * 10 ^ r.length := Nat.mul_le_mul_right _ (by omega)
      have h2 : 10 * 10 ^ r.length = 10 ^ (r.length + 1) := by rw [Nat.pow_succ, Nat.mul_comm]
      have h3 : 10 ^ (r.length + 1) ≤ 10 ^ 18 := Nat.pow_le_pow_right (by omega) h17
      have : F (0 * 10 + (d.toNat - 48)) r < 10 ^ 18 := by omega
      rw [if_neg hlen, if_pos this]

/-- `parseOSC` once the digits have been read -/
theorem parseOSC_digits (ds : Bytes) (b : UInt8) (r : Bytes) (n0 : Nat)
    (hd : ∀ d ∈ ds, isDigitB d = true) (hb : isDigitB b = false) :
    parseOSC (ds ++ b :: r) n0 =
      if b = 0x3b then
        match strPayload true r [] 0 (n0 + ds.length + 1) with
        | none => .need
        | some (acc, n2) => .tok (.osc (oscNumber ds) acc.reverse true) n2
      else if b = 7 ∨ b = 0x9c then .tok (.osc (oscNumber ds) [] true) (n0 + ds.length + 1)
      else
        match strPayload true r [b] (leadLen b - 1) (n0 + ds.length + 1) with
        | none => .need
        | some (_, n2) => .tok (.osc (oscNumber ds) [] false) n2 := by
  rw [← oscNumOf_eq ds hd]
  unfold parseOSC
  rw [oscDigits_run ds [] n0 b r hd hb]
  simp only [List.reverse_nil, List.nil_append]
  rfl

/-! ### every token spans at least one byte -/

theorem decodeRune_pos (b : UInt8) (r : Bytes) : 1 ≤ (decodeRune (b :: r)).2 := by
  simp only [decodeRune]
  split
  all_goals first | (simp; done) | (rw [apply_ite Prod.snd]; split <;> simp)

theorem csiParams_mono : ∀ (xs : Bytes) (p : PState) (n : Nat) (p' : PState) (ys : Bytes) (n' : Nat),
    csiParams xs p n = some (p', ys, n') → n ≤ n' := by
  intro xs
  induction xs with
  | nil => intro p n p' ys n' h; simp [csiParams] at h
  | cons b xs ih =>
    intro p n p' ys n' h
    simp only [csiParams] at h
    split at h
    · have := ih _ _ _ _ _ h; omega
    · simp at h; omega

theorem strPayload_mono (bel : Bool) : ∀ (xs acc : Bytes) (need n : Nat) (a : Bytes) (n' : Nat),
    strPayload bel xs acc need n = some (a, n') → n < n' := by
  intro xs
  induction xs with
  | nil => intro acc need n a n' h; simp [strPayload] at h
  | cons b xs ih =>
    intro acc need n a n' h
    rw [strPayload] at h
    split at h
    · simp at h; omega
    · split at h
      · simp at h; omega
      · split at h
        · simp at h; omega
        · have := ih _ _ _ _ _ h; omega

theorem csiSkipParams_mono : ∀ (xs : Bytes) (c : Bool) (n : Nat) (c' : Bool) (ys : Bytes) (n' : Nat),
    csiSkipParams xs c n = some (c', ys, n') → n ≤ n' := by
  intro xs
  induction xs with
  | nil => intro c n c' ys n' h; simp [csiSkipParams] at h
  | cons b xs ih =>
    intro c n c' ys n' h
    simp only [csiSkipParams] at h
    split at h
    · have := ih _ _ _ _ _ h; omega
    · simp at h; omega

theorem csiInter_mono : ∀ (xs : Bytes) (c : Bool) (n : Nat) (c' : Bool) (f : UInt8) (n' : Nat),
    csiInter xs c n = some (c', f, n') → n < n' := by
  intro xs
  induction xs with
  | nil => intro c n c' f n' h; simp [csiInter] at h
  | cons b xs ih =>
    intro c n c' f n' h
    simp only [csiInter] at h
    split at h
    · have := ih _ _ _ _ _ h; omega
    · simp at h; omega

theorem escInter_mono : ∀ (xs acc : Bytes) (n : Nat) (i : Bytes) (f : UInt8) (n' : Nat),
    escInter xs acc n = some (i, f, n') → n < n' := by
  intro xs
  induction xs with
  | nil => intro acc n i f n' h; simp [escInter] at h
  | cons b xs ih =>
    intro acc n i f n' h
    simp only [escInter] at h
    split at h
    · have := ih _ _ _ _ _ h; omega
    · simp at h; omega

theorem oscDigits_mono : ∀ (xs acc : Bytes) (n : Nat) (ds ys : Bytes) (n' : Nat),
    oscDigits xs acc n = some (ds, ys, n') → n ≤ n' := by
  intro xs
  induction xs with
  | nil => intro acc n ds ys n' h; simp [oscDigits] at h
  | cons b xs ih =>
    intro acc n ds ys n' h
    simp only [oscDigits] at h
    split at h
    · have := ih _ _ _ _ _ h; omega
    · simp at h; omega

theorem csiBody_pos (pre : UInt8) (bs : Bytes) (n1 : Nat) (tk : Tok) (n : Nat) (h : csiBody pre bs n1 = .tok tk n) : n1 < n := by
  unfold csiBody at h
  split at h
  · simp at h
  · rename_i hp
    split at h
    · simp at h
    · rename_i hs
      split at h
      · simp at h
      · rename_i hi
        have h1 := csiParams_mono _ _ _ _ _ _ hp
        have h2 := csiSkipParams_mono _ _ _ _ _ _ hs
        have h3 := csiInter_mono _ _ _ _ _ _ hi
        simp at h
        omega

theorem parseOSC_pos (bs : Bytes) (n0 : Nat) (tk : Tok) (n : Nat) (h : parseOSC bs n0 = .tok tk n) : n0 < n := by
  unfold parseOSC at h
  split at h
  · simp at h
  · rename_i hd
    have h1 := oscDigits_mono _ _ _ _ _ _ hd
    simp only [] at h
    split at h
    · simp at h
    · split at h
      · split at h
        · simp at h
        · rename_i hs
          have := strPayload_mono _ _ _ _ _ _ _ hs
          simp at h; omega
      · split at h
        · simp at h; omega
        · split at h
          · simp at h
          · rename_i hs
            have := strPayload_mono _ _ _ _ _ _ _ hs
            simp at h; omega

theorem parseDCS_pos (bs : Bytes) (n0 : Nat) (tk : Tok) (n : Nat) (h : parseDCS bs n0 = .tok tk n) : n0 < n := by
  unfold parseDCS at h
  split at h
  · simp at h
  · rename_i hs
    have := strPayload_mono _ _ _ _ _ _ _ hs
    simp at h; omega

theorem parseCSI_pos (bs : Bytes) (n0 : Nat) (tk : Tok) (n : Nat) (h : parseCSI bs n0 = .tok tk n) : n0 < n := by
  cases bs with
  | nil => simp [parseCSI] at h
  | cons b r =>
    rw [parseCSI_cons] at h
    split at h
    · have := csiBody_pos _ _ _ _ _ h; omega
    · exact csiBody_pos _ _ _ _ _ h

theorem parseEsc_pos (bs : Bytes) (tk : Tok) (n : Nat) (h : parseEsc bs = .tok tk n) : 1 ≤ n := by
  unfold parseEsc at h
  split at h
  · simp at h
  · split at h
    · have := parseCSI_pos _ _ _ _ h; omega
    · split at h
      · have := parseOSC_pos _ _ _ _ h; omega
      · split at h
        · have := parseDCS_pos _ _ _ _ h; omega
        · split at h
          · simp at h
          · rename_i he
            have := escInter_mono _ _ _ _ _ _ he
            simp at h; omega

/-- every token spans at least one byte -/
theorem next_pos (bs : Bytes) (tk : Tok) (n : Nat) (h : next bs = .tok tk n) : 1 ≤ n := by
  unfold next at h
  split at h
  · simp at h
  · rename_i b rest
    split at h
    · split at h
      · simp only [Step.tok.injEq] at h
        have := decodeRune_pos b rest
        omega
      · simp at h
    · split at h
      · exact parseEsc_pos _ _ _ h
      · simp at h; omega

/-! ### the read loop -/

/-- any fuel above the number of unconsumed bytes gives the same result -/
theorem runFuel_fuel (cw : Nat → Nat) : ∀ (f1 f2 : Nat) (t : Term) (bs : Bytes) (evs : List Ev),
    bs.length < f1 → bs.length < f2 → runFuel cw f1 t bs evs = runFuel cw f2 t bs evs := by
  intro f1
  induction f1 with
  | zero => intro f2 t bs evs h; omega
  | succ f1 ih =>
    intro f2 t bs evs h1 h2
    cases f2 with
    | zero => omega
    | succ f2 =>
      simp only [runFuel]
      split
      · rfl
      · rename_i tk n hn
        have hpos := next_pos bs tk n hn
        have hne : bs ≠ [] := by intro e; rw [e] at hn; simp [next] at hn
        have hl : 0 < bs.length := List.length_pos_iff.2 hne
        apply ih <;> (rw [List.length_drop]; omega)

/-- the events accumulated so far are only ever appended to -/
theorem runFuel_evs (cw : Nat → Nat) : ∀ (f : Nat) (t : Term) (bs : Bytes) (evs : List Ev),
    runFuel cw f t bs evs =
      ((runFuel cw f t bs []).1, evs ++ (runFuel cw f t bs []).2.1, (runFuel cw f t bs []).2.2) := by
  intro f
  induction f with
  | zero => intro t bs evs; simp [runFuel]
  | succ f ih =>
    intro t bs evs
    simp only [runFuel]
    split
    · simp
    · rw [ih _ _ (evs ++ _), ih _ _ ([] ++ _)]
      simp

/-- `run` peels off one token at a time -/
theorem run_step (cw : Nat → Nat) (t : Term) (bs : Bytes) (tk : Tok) (n : Nat) (h : next bs = .tok tk n) :
    run cw t bs =
      ((run cw (t.apply cw tk).1 (bs.drop n)).1,
       (t.apply cw tk).2 ++ (run cw (t.apply cw tk).1 (bs.drop n)).2.1,
       (run cw (t.apply cw tk).1 (bs.drop n)).2.2) := by
  have hpos := next_pos bs tk n h
  have hne : bs ≠ [] := by intro e; rw [e] at h; simp [next] at h
  have hl : 0 < bs.length := List.length_pos_iff.2 hne
  unfold run
  rw [runFuel, h]
  simp only [List.nil_append]
  rw [runFuel_fuel cw bs.length ((bs.drop n).length + 1) _ _ _ (by rw [List.length_drop]; omega) (by omega),
    runFuel_evs]

end Lemmas
open Lemmas

/-! ## B1. Framing -/

/-- CSI framing, with the token's prefix, clean flag and final byte determined by the grammar:
    the token spans exactly the sequence, whatever follows. -/
theorem csi_framing (ps is : Bytes) (f : UInt8) (h : CsiWF ps is f) (rest : Bytes) :
    ∃ params, next (csiBytes ps is f ++ rest) =
      .tok (.csi (csiPrefix ps) params (csiPlainForm ps is) f) (csiBytes ps is f).length := by
  have hlen : (csiBytes ps is f).length = ps.length + is.length + 3 := by
    simp [csiBytes]; omega
  have hbytes : csiBytes ps is f ++ rest = 0x1b :: 0x5b :: (ps ++ is ++ f :: rest) := by
    simp [csiBytes]
  rw [hbytes, next_esc, parseEsc_csi, hlen]
  cases ps with
  | nil =>
    obtain ⟨c, r, hcr, hc⟩ : ∃ c r, is ++ f :: rest = c :: r ∧ (0x3c ≤ c && c ≤ 0x3f) = false := by
      cases is with
      | nil => exact ⟨f, rest, rfl, csiFinal_not_pfx f h.final⟩
      | cons i is' => exact ⟨i, is' ++ f :: rest, rfl, inter_not_pfx i (h.inter i (by simp))⟩
    obtain ⟨params, hp⟩ := csiBody_run 0 [] is f rest 2 (by simp) h.inter h.final
    refine ⟨params, ?_⟩
    rw [List.nil_append, hcr, parseCSI_cons, hc, ← hcr]
    simp only [Bool.false_eq_true, if_false]
    rw [List.nil_append] at hp
    rw [hp]
    simp [csiPrefix, csiPlainForm, csiArgs]
    omega
  | cons b ps' =>
    rw [List.cons_append, List.cons_append, parseCSI_cons]
    by_cases hb : (0x3c ≤ b && b ≤ 0x3f) = true
    · obtain ⟨params, hp⟩ := csiBody_run b ps' is f rest 3
        (fun x hx => h.params x (by simp [hx])) h.inter h.final
      refine ⟨params, ?_⟩
      rw [if_pos hb, hp]
      simp [csiPrefix, csiPlainForm, csiArgs, hb]
      omega
    · obtain ⟨params, hp⟩ := csiBody_run 0 (b :: ps') is f rest 2 h.params h.inter h.final
      refine ⟨params, ?_⟩
      rw [if_neg hb]
      rw [List.cons_append, List.cons_append] at hp
      rw [hp]
      simp [csiPrefix, csiPlainForm, csiArgs, hb]
      omega

/-- ESC framing: the token carries exactly the intermediates and the final byte, and spans
    exactly the sequence. -/
theorem esc_framing (is : Bytes) (f : UInt8) (h : EscWF is f) (rest : Bytes) :
    next (escBytes is f ++ rest) = .tok (.esc is f) (escBytes is f).length := by
  have hbytes : escBytes is f ++ rest = 0x1b :: (is ++ f :: rest) := by simp [escBytes]
  have hlen : (escBytes is f).length = is.length + 2 := by simp [escBytes]
  obtain ⟨c, r, hcr, hc⟩ : ∃ c r, is ++ f :: rest = c :: r ∧ (c ≠ 0x5b ∧ c ≠ 0x5d ∧ c ≠ 0x50) := by
    cases is with
    | nil => exact ⟨f, rest, rfl, h.notIntro rfl⟩
    | cons i is' => exact ⟨i, is' ++ f :: rest, rfl, inter_not_intro i (h.inter i (by simp))⟩
  rw [hbytes, next_esc, hlen, hcr, parseEsc_other c r hc.1 hc.2.1 hc.2.2, ← hcr,
    escInter_run is [] 1 f rest h.inter (escFinal_not_inter f h.final)]
  simp; omega

/-- DCS framing: the whole string up to and including its terminator is one `dcs` token. -/
theorem dcs_framing (body term : Bytes) (hp : Payload false body) (ht : StrTerm false term) (rest : Bytes) :
    next (dcsBytes body term ++ rest) = .tok .dcs (dcsBytes body term).length := by
  have hbytes : dcsBytes body term ++ rest = 0x1b :: 0x50 :: (body ++ term ++ rest) := by simp [dcsBytes]
  have hlen : (dcsBytes body term).length = 2 + body.length + term.length := by simp [dcsBytes]; omega
  rw [hbytes, next_esc, parseEsc_dcs, hlen]
  unfold parseDCS
  rw [strPayload_run false body term hp ht [] 2 rest (by simp)]

/-- OSC with a number and `;`: the token carries the number, exactly the payload bytes, and
    spans exactly the sequence. -/
theorem osc_num_framing (ds p term : Bytes) (hd : ∀ d ∈ ds, isDigitB d = true) (hp : Payload true p)
    (ht : StrTerm true term) (rest : Bytes) :
    next (oscBytes (ds ++ 0x3b :: p) term ++ rest) =
      .tok (.osc (oscNumber ds) p true) (oscBytes (ds ++ 0x3b :: p) term).length := by
  have hbytes : oscBytes (ds ++ 0x3b :: p) term ++ rest = 0x1b :: 0x5d :: (ds ++ 0x3b :: (p ++ term ++ rest)) := by
    simp [oscBytes]
  have hlen : (oscBytes (ds ++ 0x3b :: p) term).length = 2 + ds.length + 1 + p.length + term.length := by
    simp [oscBytes]; omega
  rw [hbytes, next_esc, parseEsc_osc, parseOSC_digits ds 0x3b _ 2 hd (by decide), if_pos rfl,
    strPayload_run true p term hp ht [] _ rest (by simp), hlen]
  simp

/-- OSC whose number is followed by something other than `;` or a terminator (`ESC ] 1 3 3 x … BEL`,
    `ESC ] t e x t BEL`): still consumed up to and including its terminator, and marked ill-formed. -/
theorem osc_malformed_framing (ds : Bytes) (b : UInt8) (m term : Bytes) (hd : ∀ d ∈ ds, isDigitB d = true)
    (hb : isDigitB b = false) (hsep : b ≠ 0x3b) (hp : Payload true (b :: m)) (ht : StrTerm true term) (rest : Bytes) :
    next (oscBytes (ds ++ b :: m) term ++ rest) =
      .tok (.osc (oscNumber ds) [] false) (oscBytes (ds ++ b :: m) term).length := by
  have hbytes : oscBytes (ds ++ b :: m) term ++ rest = 0x1b :: 0x5d :: (ds ++ b :: (m ++ term ++ rest)) := by
    simp [oscBytes]
  have hlen : (oscBytes (ds ++ b :: m) term).length = 2 + ds.length + (b :: m).length + term.length := by
    simp [oscBytes]; omega
  obtain ⟨h1b, h9c, h7⟩ := payload_head true b m hp
  rw [hbytes, next_esc, parseEsc_osc, hlen, parseOSC_digits ds b _ 2 hd hb]
  have hnt : ¬ (b = 7 ∨ b = 0x9c) := fun h => h.elim (h7 rfl) h9c
  rw [if_neg hsep, if_neg hnt]
  -- the malformed branch is `strPayload` one step into the payload `b :: m`
  have hstep := strPayload_step true b (m ++ term ++ rest) [] 0 (2 + ds.length) h7
    (fun h => absurd h h9c) (fun _ => by simp)
  have : ¬ (isCont b = true ∧ 0 > 0) := fun h => absurd h.2 (by omega)
  rw [if_neg this] at hstep
  rw [← hstep, ← List.cons_append, ← List.cons_append,
    strPayload_run true (b :: m) term hp ht [] _ rest (by simp)]

/-- OSC framing in general (any payload of the language after `ESC ]`, any terminator): one
    `osc` token spanning exactly the sequence. Moreover the token is marked well-formed only
    for the shapes `digits ; payload` (then it carries exactly that payload) and bare `digits`
    (ended by BEL / 0x9c; empty payload). -/
theorem osc_framing (body term : Bytes) (hp : Payload true body) (ht : StrTerm true term) (rest : Bytes) :
    ∃ num pl wf, next (oscBytes body term ++ rest) = .tok (.osc num pl wf) (oscBytes body term).length ∧
      (wf = true →
        (∃ ds p, body = ds ++ 0x3b :: p ∧ (∀ d ∈ ds, isDigitB d = true) ∧ num = oscNumber ds ∧ pl = p) ∨
        ((∀ d ∈ body, isDigitB d = true) ∧ num = oscNumber body ∧ pl = [])) := by
  obtain ⟨ds, more, e, hd, hmore⟩ := split_digits body
  have hpm : Payload true more := payload_drop_digits true ds more hd (e ▸ hp)
  have hlen : (oscBytes body term).length = 2 + ds.length + more.length + term.length := by
    simp [oscBytes, e]; omega
  cases more with
  | nil =>
    have hbytes : oscBytes body term ++ rest = 0x1b :: 0x5d :: (ds ++ (term ++ rest)) := by
      simp [oscBytes, e]
    have hbody : body = ds := by simp [e]
    rw [hbytes, next_esc, parseEsc_osc, hlen]
    cases ht with
    | bel _ =>
      refine ⟨oscNumber ds, [], true, ?_, fun _ => Or.inr ⟨hbody ▸ hd, by rw [hbody], rfl⟩⟩
      rw [List.singleton_append, parseOSC_digits ds 7 rest 2 hd (by decide)]
      simp
    | st8 =>
      refine ⟨oscNumber ds, [], true, ?_, fun _ => Or.inr ⟨hbody ▸ hd, by rw [hbody], rfl⟩⟩
      rw [List.singleton_append, parseOSC_digits ds 0x9c rest 2 hd (by decide)]
      simp
    | st =>
      refine ⟨oscNumber ds, [], false, ?_, fun h => by simp at h⟩
      rw [List.cons_append, parseOSC_digits ds 0x1b _ 2 hd (by decide)]
      have : leadLen 0x1b - 1 = 0 := by decide
      simp [strPayload, this]
  | cons b m =>
    have hb : isDigitB b = false := hmore b m rfl
    have hbytes : oscBytes body term ++ rest = 0x1b :: 0x5d :: (ds ++ b :: (m ++ term ++ rest)) := by
      simp [oscBytes, e]
    obtain ⟨h1b, h9c, h7⟩ := payload_head true b m hpm
    rw [hbytes, next_esc, parseEsc_osc, hlen, parseOSC_digits ds b _ 2 hd hb]
    by_cases hsep : b = 0x3b
    · have hpm' : Payload true m := (payload_cons_inv true b m hpm (by rw [hsep]; decide)).1
      refine ⟨oscNumber ds, m, true, ?_, fun _ => Or.inl ⟨ds, m, by rw [e, hsep], hd, rfl, rfl⟩⟩
      rw [if_pos hsep, strPayload_run true m term hpm' ht [] _ rest (by simp)]
      simp; omega
    · refine ⟨oscNumber ds, [], false, ?_, fun h => by simp at h⟩
      have hnt : ¬ (b = 7 ∨ b = 0x9c) := fun h => h.elim (h7 rfl) h9c
      rw [if_neg hsep, if_neg hnt]
      -- the malformed branch is `strPayload` one step into the payload `b :: m`
      have hstep := strPayload_step true b (m ++ term ++ rest) [] 0 (2 + ds.length) h7
        (fun h => absurd h h9c) (fun _ => by simp)
      have : ¬ (isCont b = true ∧ 0 > 0) := fun h => absurd h.2 (by omega)
      rw [if_neg this] at hstep
      rw [← hstep, ← List.cons_append, ← List.cons_append,
        strPayload_run true (b :: m) term hpm ht [] _ rest (by simp)]

/-- tokens of the control-sequence classes (not text, not a C0 control) -/
def isControlTok : Tok → Bool
  | .esc _ _ | .csi _ _ _ _ | .osc _ _ _ | .dcs => true
  | .text _ _ | .ctl _ => false

/-- **Framing**, in the property's own form: a well-formed ESC / CSI / OSC / DCS sequence followed
    by anything yields exactly one token; that token spans exactly the sequence (nothing of it
    is left in the stream, nothing after it is taken) and is of a control-sequence class. -/
theorem framing (s : Bytes) (h : WellFormed s) (rest : Bytes) :
    ∃ tok, next (s ++ rest) = .tok tok s.length ∧ isControlTok tok = true := by
  rcases h with ⟨is, f, hw, rfl⟩ | ⟨ps, is, f, hw, rfl⟩ | ⟨body, term, hp, ht, rfl⟩ | ⟨body, term, hp, ht, rfl⟩
  · exact ⟨_, esc_framing is f hw rest, rfl⟩
  · obtain ⟨params, hn⟩ := csi_framing ps is f hw rest
    exact ⟨_, hn, rfl⟩
  · obtain ⟨num, pl, wf, hn, _⟩ := osc_framing body term hp ht rest
    exact ⟨_, hn, rfl⟩
  · exact ⟨_, dcs_framing body term hp ht rest, rfl⟩

/-! ## B3. Unrecognised tokens change nothing -/

/-- final bytes of unprefixed CSI sequences that `Term.csiPlain` gives an effect to:
    `A B C D G d f H c m s u K J L M S T P X r n` -/
def plainFinals : List UInt8 :=
  [0x41, 0x42, 0x43, 0x44, 0x47, 0x64, 0x66, 0x48, 0x63, 0x6d, 0x73, 0x75, 0x4b, 0x4a, 0x4c, 0x4d,
   0x53, 0x54, 0x50, 0x58, 0x72, 0x6e]

/-- the (prefix, final) pairs `Term.csi` gives an effect to -/
def recognisedCsi (pfx fin : UInt8) : Bool :=
  (pfx == 0 && plainFinals.contains fin) ||
  (pfx == 0x3f && (fin == 0x75 || fin == 0x68 || fin == 0x6c)) ||     -- ? u h l
  (pfx == 0x3e && (fin == 0x63 || fin == 0x6d || fin == 0x75)) ||     -- > c m u
  (pfx == 0x3c && fin == 0x75) ||                                     -- < u
  (pfx == 0x3d && fin == 0x75)                                        -- = u

/-- the finite table of tokens `Term.apply` gives an effect to -/
def recognised : Tok → Bool
  | .text _ _ => true
  | .ctl b => [7, 8, 127, 9, 10, 12, 13].contains b
  | .esc inter fin => inter.isEmpty && [0x44, 0x4d, 0x3d, 0x3e].contains fin   -- ESC D M = >
  | .csi pfx _ clean fin => clean && recognisedCsi pfx fin
  | .osc num _ wf => wf && [0, 2, 6, 7].contains num
  | .dcs => false

theorem unknown_noop (cw : Nat → Nat) (t : Term) (tok : Tok) (h : recognised tok = false) :
    Term.apply cw t tok = (t, []) := by
  cases tok with
  | text s cp => simp [recognised] at h
  | ctl b =>
    simp [recognised] at h
    simp [Term.apply, h]
  | esc inter fin =>
    simp [recognised] at h
    by_cases hi : inter = []
    · simp [hi] at h
      simp [Term.apply, hi, h]
    · simp [Term.apply, hi]
  | csi pfx ps clean fin =>
    cases clean with
    | false => simp [Term.apply]
    | true =>
      simp [recognised, recognisedCsi, plainFinals] at h
      simp only [Term.apply, if_true]
      obtain ⟨⟨⟨⟨h0, h1⟩, h2⟩, h3⟩, h4⟩ := h
      unfold Term.csi
      by_cases p0 : pfx = 0
      · have := h0 p0
        simp [p0, Term.csiPlain, this]
      · rw [if_neg p0]
        by_cases p1 : pfx = 0x3f
        · have := h1 p1; simp [p1, this]
        · rw [if_neg p1]
          by_cases p2 : pfx = 0x3e
          · have := h2 p2; simp [p2, this]
          · rw [if_neg p2]
            by_cases p3 : pfx = 0x3c
            · have := h3 p3; simp [p3, this]
            · rw [if_neg p3]
              by_cases p4 : pfx = 0x3d
              · have := h4 p4; simp [p4, this]
              · rw [if_neg p4]
  | osc num payload wf =>
    cases wf with
    | false => simp [Term.apply]
    | true =>
      simp [recognised] at h
      simp [Term.apply, h]
  | dcs => simp [Term.apply]

/-! ### the table `recognised` is tight: everything in it does have an effect -/

/-- all (prefix, final) pairs of `recognisedCsi` -/
def recognisedPairs : List (UInt8 × UInt8) :=
  plainFinals.map (fun f => (0, f)) ++
  [(0x3f, 0x75), (0x3f, 0x68), (0x3f, 0x6c), (0x3e, 0x63), (0x3e, 0x6d), (0x3e, 0x75), (0x3c, 0x75), (0x3d, 0x75)]

theorem recognisedCsi_mem (pfx fin : UInt8) (h : recognisedCsi pfx fin = true) : (pfx, fin) ∈ recognisedPairs := by
  simp [recognisedCsi, plainFinals] at h
  rcases h with (((⟨rfl, h⟩ | ⟨rfl, h⟩) | ⟨rfl, h⟩) | ⟨rfl, rfl⟩) | ⟨rfl, rfl⟩
  · repeat (first | (rcases h with rfl | h; · decide) | (subst h; decide))
  · rcases h with (rfl | rfl) | rfl <;> decide
  · rcases h with (rfl | rfl) | rfl <;> decide
  · decide
  · decide

/-- parameters with which the pair has an effect on `tightState` -/
def tightParams (pfx fin : UInt8) : List Int :=
  if pfx = 0 then (if fin = 0x6e then [5] else if fin = 0x72 then [2] else [])
  else if pfx = 0x3f then [1]
  else if pfx = 0x3e ∧ fin = 0x6d then [4, 1]
  else []

/-- a 4×4 terminal with the cursor at (1,1), keyboard flags 1 and one stack entry -/
def tightState : Term :=
  { Term.init .keep 4 4 with main := { Scr.init 4 4 with cx := 1, cy := 1 }, kmain := { flags := 1, stack := [2] } }

/-- observable difference: an event, or a changed screen / keyboard component -/
def effectful (r : Term × List Ev) (t : Term) : Bool :=
  !r.2.isEmpty || r.1.main != t.main || r.1.kmain != t.kmain

theorem effectful_ne (r : Term × List Ev) (t : Term) (h : effectful r t = true) : r ≠ (t, []) := by
  intro e; subst e; simp [effectful] at h

theorem tight_all : recognisedPairs.all (fun pr =>
    effectful (Term.apply id tightState (.csi pr.1 (tightParams pr.1 pr.2) true pr.2)) tightState) = true := by
  decide

/-- every (prefix, final) pair of the table has, for suitable parameters and a suitable state, an
    observable effect: the table cannot be shrunk, `unknown_noop` covers all that can be covered -/
theorem recognisedCsi_tight (pfx fin : UInt8) (h : recognisedCsi pfx fin = true) :
    ∃ (ps : List Int) (t : Term), Term.apply id t (.csi pfx ps true fin) ≠ (t, []) := by
  have := List.all_eq_true.1 tight_all (pfx, fin) (recognisedCsi_mem pfx fin h)
  exact ⟨tightParams pfx fin, tightState, effectful_ne _ _ this⟩

/-- the recognised ESC finals, OSC numbers and C0 controls emit an event in every state -/
theorem recognised_other_tight (cw : Nat → Nat) (t : Term) (tok : Tok) (h : recognised tok = true)
    (hc : ∀ pfx ps clean fin, tok ≠ .csi pfx ps clean fin) (ht : ∀ st cp, tok ≠ .text st cp) :
    (Term.apply cw t tok).2 ≠ [] := by
  cases tok with
  | text st cp => exact absurd rfl (ht st cp)
  | csi pfx ps clean fin => exact absurd rfl (hc pfx ps clean fin)
  | dcs => simp [recognised] at h
  | ctl b =>
    simp [recognised] at h
    rcases h with rfl | rfl | rfl | rfl | rfl | rfl | rfl <;> simp [Term.apply, Term.withScr]
  | esc inter fin =>
    simp [recognised] at h
    obtain ⟨rfl, h⟩ := h
    rcases h with rfl | rfl | rfl | rfl <;> simp [Term.apply, Term.withScr, Term.setVFlag]
  | osc num p wf =>
    simp [recognised] at h
    obtain ⟨rfl, h⟩ := h
    rcases h with rfl | rfl | rfl | rfl <;> simp [Term.apply, Term.setVStr]

/-! ## B2. Nothing of a sequence is drawn -/

/-- the event by which the screen reports drawn text (`RegionChanged(…, CRText)`, reason 0) -/
def isTextEv : Ev → Bool
  | .region _ _ _ _ 0 => true
  | _ => false

def NoDraw (r : Term × List Ev) : Prop := ∀ e ∈ r.2, isTextEv e = false

theorem NoDraw_ite {c : Prop} [Decidable c] {a b : Term × List Ev} (ha : NoDraw a) (hb : NoDraw b) :
    NoDraw (if c then a else b) := by split <;> assumption

theorem NoDraw_nil (t : Term) : NoDraw (t, []) := by simp [NoDraw]

theorem decMode_nodraw (t : Term) (p : Int) (v : Bool) : NoDraw (t.decMode p v) := by
  unfold Term.decMode Term.switchScreen
  repeat' apply NoDraw_ite
  all_goals simp [NoDraw, Term.setVFlag, Term.setVInt, isTextEv]

theorem decModes_nodraw (v : Bool) (ps : List Int) : ∀ (t : Term), NoDraw (t.decModes v ps) := by
  induction ps with
  | nil => intro t e h; simp [Term.decModes] at h
  | cons p ps ih =>
    intro t e h
    simp only [Term.decModes] at h
    rcases List.mem_append.1 h with h | h
    · exact decMode_nodraw t p v e h
    · exact ih _ e h

theorem csiPlain_nodraw (t : Term) (ps : List Int) (fin : UInt8) : NoDraw (t.csiPlain ps fin) := by
  unfold Term.csiPlain
  simp only []
  repeat' apply NoDraw_ite
  all_goals simp [NoDraw, Term.withScr, isTextEv]

theorem NoDraw_reply (t : Term) (b : Bytes) : NoDraw (t, [Ev.reply b]) := by simp [NoDraw, isTextEv]

theorem csi_nodraw (t : Term) (pfx : UInt8) (ps : List Int) (fin : UInt8) : NoDraw (t.csi pfx ps fin) := by
  unfold Term.csi
  apply NoDraw_ite (csiPlain_nodraw _ _ _)
  apply NoDraw_ite
  · apply NoDraw_ite (NoDraw_reply _ _)
    apply NoDraw_ite (decModes_nodraw _ _ _)
    exact NoDraw_ite (decModes_nodraw _ _ _) (NoDraw_nil t)
  apply NoDraw_ite
  · apply NoDraw_ite (NoDraw_reply _ _)
    apply NoDraw_ite
    · split
      · apply NoDraw_ite _ (NoDraw_nil t)
        simp [NoDraw, Term.setVInt, isTextEv]
      · exact NoDraw_nil t
    · exact NoDraw_ite (NoDraw_nil _) (NoDraw_nil t)
  apply NoDraw_ite
  · exact NoDraw_ite (NoDraw_nil _) (NoDraw_nil t)
  apply NoDraw_ite
  · exact NoDraw_ite (NoDraw_nil _) (NoDraw_nil t)
  exact NoDraw_nil t

/-- no control token — recognised or not — ever reports text being drawn -/
theorem control_no_text_event (cw : Nat → Nat) (t : Term) (tok : Tok) (h : isControlTok tok = true) :
    ∀ e ∈ (Term.apply cw t tok).2, isTextEv e = false := by
  cases tok with
  | text _ _ => simp [isControlTok] at h
  | ctl _ => simp [isControlTok] at h
  | esc inter fin =>
    unfold Term.apply
    repeat' apply NoDraw_ite
    all_goals simp [NoDraw, Term.withScr, Term.setVFlag, isTextEv]
  | csi pfx ps clean fin =>
    unfold Term.apply
    exact NoDraw_ite (csi_nodraw _ _ _ _) (NoDraw_nil t)
  | osc num p wf =>
    unfold Term.apply
    repeat' apply NoDraw_ite
    all_goals simp [NoDraw, Term.setVStr, isTextEv]
  | dcs => exact NoDraw_nil t

/-- a well-formed sequence never makes the screen report drawn text (`CRText`), whatever it is -/
theorem no_text_event (s : Bytes) (h : WellFormed s) (rest : Bytes) :
    ∃ tok, next (s ++ rest) = .tok tok s.length ∧
      ∀ cw t, ∀ e ∈ (Term.apply cw t tok).2, isTextEv e = false := by
  obtain ⟨tok, hn, hc⟩ := framing s h rest
  exact ⟨tok, hn, fun cw t => control_no_text_event cw t tok hc⟩

/-- The token of a well-formed sequence is never a text token (nor a C0 control): none of its
    bytes reaches `Scr.put`. If the sequence is not in the `recognised` table, both grids — and
    in fact the whole terminal state — are exactly as before, and nothing is emitted. -/
theorem no_draw (s : Bytes) (h : WellFormed s) (rest : Bytes) :
    ∃ tok, next (s ++ rest) = .tok tok s.length ∧
      (∀ st cp, tok ≠ .text st cp) ∧ (∀ b, tok ≠ .ctl b) ∧
      (recognised tok = false → ∀ cw t,
        (Term.apply cw t tok).1.main.grid = t.main.grid ∧ (Term.apply cw t tok).1.alt.grid = t.alt.grid ∧
        (Term.apply cw t tok).1.main = t.main ∧ (Term.apply cw t tok).1.alt = t.alt ∧
        (Term.apply cw t tok).2 = []) := by
  obtain ⟨tok, hn, hc⟩ := framing s h rest
  refine ⟨tok, hn, ?_, ?_, ?_⟩
  · intro st cp e; rw [e] at hc; simp [isControlTok] at hc
  · intro b e; rw [e] at hc; simp [isControlTok] at hc
  · intro hr cw t
    rw [unknown_noop cw t tok hr]
    simp

/-! ## B4. OSC 0 / 2 / 6 / 7 deliver exactly their payload -/

/-- which view string an OSC number sets: 0 and 2 the title, 6 the file, 7 the directory slot
    (view strings 0, 1, 2 of the model) -/
def oscTarget : Nat → Option Nat
  | 0 => some 0
  | 2 => some 0
  | 6 => some 1
  | 7 => some 2
  | _ => none

theorem oscTarget_lt (num i : Nat) (hi : oscTarget num = some i) : num < 8 ∧ i < 3 := by
  unfold oscTarget at hi
  split at hi <;> simp at hi <;> omega

theorem osc_apply (num i : Nat) (hi : oscTarget num = some i) (p : Bytes) (cw : Nat → Nat) (t : Term) :
    Term.apply cw t (.osc num p true) = ({ t with vstrs := t.vstrs.set i p }, [Ev.vstr i p]) := by
  unfold oscTarget at hi
  split at hi <;> simp at hi <;> subst hi <;> simp [Term.apply, Term.setVStr]

/-- `ESC ] ds ; p (BEL | ESC \\ | 0x9c)` for every digit string `ds` whose decimal value is
    `num ∈ {0,2,6,7}` (leading zeros allowed) and every payload `p` of the language: the token
    carries exactly `p`, spans exactly the sequence, and its effect is to set view string `i`
    to exactly `p` and to emit exactly `vstr i p`. -/
theorem osc_payload (ds : Bytes) (hd : ∀ d ∈ ds, isDigitB d = true) (num i : Nat) (hnum : decVal ds = num)
    (hi : oscTarget num = some i) (p term : Bytes) (hp : Payload true p)
    (ht : StrTerm true term) (rest : Bytes) (cw : Nat → Nat) (t : Term) :
    next (oscBytes (ds ++ 0x3b :: p) term ++ rest) =
        .tok (.osc num p true) (oscBytes (ds ++ 0x3b :: p) term).length ∧
      Term.apply cw t (.osc num p true) = ({ t with vstrs := t.vstrs.set i p }, [Ev.vstr i p]) := by
  have hlt := (oscTarget_lt num i hi).1
  have hn : oscNumber ds = num := by
    have : decVal ds < 10 ^ 18 := by rw [hnum]; omega
    rw [oscNumber, if_pos this, hnum]
  exact ⟨hn ▸ osc_num_framing ds p term hd hp ht rest, osc_apply num i hi p cw t⟩

/-- the same with the number written by `strconv.Itoa` (`0`, `2`, `6`, `7`) -/
theorem osc_payload_itoa (num i : Nat) (hi : oscTarget num = some i) (p term : Bytes) (hp : Payload true p)
    (ht : StrTerm true term) (rest : Bytes) (cw : Nat → Nat) (t : Term) :
    next (oscBytes (itoa num ++ 0x3b :: p) term ++ rest) =
        .tok (.osc num p true) (oscBytes (itoa num ++ 0x3b :: p) term).length ∧
      Term.apply cw t (.osc num p true) = ({ t with vstrs := t.vstrs.set i p }, [Ev.vstr i p]) := by
  have key : (∀ d ∈ itoa num, isDigitB d = true) ∧ decVal (itoa num) = num := by
    unfold oscTarget at hi
    split at hi <;> first | decide | simp at hi
  exact osc_payload (itoa num) key.1 num i key.2 hi p term hp ht rest cw t

/-- pointwise reading of `osc_payload`: afterwards view string `i` is `p`, the others are untouched,
    and nothing else of the terminal changes -/
theorem osc_payload_pointwise (num i : Nat) (hi : oscTarget num = some i) (p : Bytes) (cw : Nat → Nat) (t : Term)
    (hlen : t.vstrs.length = 3) :
    let t' := (Term.apply cw t (.osc num p true)).1
    t'.vstrs[i]? = some p ∧ (∀ j, j ≠ i → t'.vstrs[j]? = t.vstrs[j]?) ∧
      t'.main = t.main ∧ t'.alt = t.alt ∧ t'.onAlt = t.onAlt ∧ t'.vflags = t.vflags ∧ t'.vints = t.vints ∧
      t'.kmain = t.kmain ∧ t'.kalt = t.kalt := by
  have hi3 : i < 3 := (oscTarget_lt num i hi).2
  have happ := osc_apply num i hi p cw t
  simp only [happ]
  refine ⟨by simp [hlen, hi3], ?_, trivial, trivial, trivial, trivial, trivial, trivial, trivial⟩
  intro j hj
  simp [Ne.symm hj]

/-! ## B5. No residue in the read loop -/

/-- a sequence whose token is not in the `recognised` table vanishes from the stream -/
theorem run_skip (cw : Nat → Nat) (t : Term) (s post : Bytes) (tok : Tok)
    (h : next (s ++ post) = .tok tok s.length) (hr : recognised tok = false) :
    run cw t (s ++ post) = run cw t post := by
  rw [run_step cw t _ tok _ h, unknown_noop cw t tok hr]
  simp

/-- **The property's own form.** A well-formed sequence in front of any `post` is one control token;
    if it is not a recognised one, reading `seq ++ post` is the same as reading `post`: same terminal
    state, same events, same unconsumed bytes. (Holds from every state `t`, i.e. after any text.) -/
theorem run_unrecognised (s : Bytes) (h : WellFormed s) (cw : Nat → Nat) (t : Term) (post : Bytes) :
    ∃ tok, next (s ++ post) = .tok tok s.length ∧ isControlTok tok = true ∧
      (recognised tok = false → run cw t (s ++ post) = run cw t post) := by
  obtain ⟨tok, hn, hc⟩ := framing s h post
  exact ⟨tok, hn, hc, run_skip cw t s post tok hn⟩

/-- CSI with intermediates, with `:` sub-parameters / late private bytes, or with a
    (prefix, final) pair outside the table: no residue. -/
theorem run_csi_unrecognised (ps is : Bytes) (f : UInt8) (h : CsiWF ps is f)
    (hu : csiPlainForm ps is = false ∨ recognisedCsi (csiPrefix ps) f = false)
    (cw : Nat → Nat) (t : Term) (post : Bytes) :
    run cw t (csiBytes ps is f ++ post) = run cw t post := by
  obtain ⟨params, hn⟩ := csi_framing ps is f h post
  apply run_skip cw t _ post _ hn
  rcases hu with hu | hu <;> simp [recognised, hu]

/-- ESC with intermediates (`ESC # 8`, `ESC ( B`, …) or with a final other than `D M = >`: no residue. -/
theorem run_esc_unrecognised (is : Bytes) (f : UInt8) (h : EscWF is f)
    (hu : is ≠ [] ∨ f ∉ [0x44, 0x4d, 0x3d, 0x3e])
    (cw : Nat → Nat) (t : Term) (post : Bytes) :
    run cw t (escBytes is f ++ post) = run cw t post := by
  apply run_skip cw t _ post _ (esc_framing is f h post)
  rcases hu with hu | hu
  · simp [recognised, hu]
  · simp only [recognised, Bool.and_eq_false_iff]
    right
    simpa using hu

/-- every DCS string: no residue. -/
theorem run_dcs (body term : Bytes) (hp : Payload false body) (ht : StrTerm false term)
    (cw : Nat → Nat) (t : Term) (post : Bytes) :
    run cw t (dcsBytes body term ++ post) = run cw t post :=
  run_skip cw t _ post _ (dcs_framing body term hp ht post) rfl

/-- OSC `digits ; payload` with a number other than 0, 2, 6, 7: no residue. -/
theorem run_osc_unknown_number (ds p term : Bytes) (hd : ∀ d ∈ ds, isDigitB d = true) (hp : Payload true p)
    (ht : StrTerm true term) (hu : decVal ds ∉ [0, 2, 6, 7])
    (cw : Nat → Nat) (t : Term) (post : Bytes) :
    run cw t (oscBytes (ds ++ 0x3b :: p) term ++ post) = run cw t post := by
  apply run_skip cw t _ post _ (osc_num_framing ds p term hd hp ht post)
  simp only [recognised, Bool.true_and]
  unfold oscNumber
  split
  · simpa using hu
  · decide

/-- OSC whose number is not followed by `;` or a terminator: no residue. -/
theorem run_osc_malformed (ds : Bytes) (b : UInt8) (m term : Bytes) (hd : ∀ d ∈ ds, isDigitB d = true)
    (hb : isDigitB b = false) (hsep : b ≠ 0x3b) (hp : Payload true (b :: m)) (ht : StrTerm true term)
    (cw : Nat → Nat) (t : Term) (post : Bytes) :
    run cw t (oscBytes (ds ++ b :: m) term ++ post) = run cw t post :=
  run_skip cw t _ post _ (osc_malformed_framing ds b m term hd hb hsep hp ht post) rfl

/-- OSC 0/2/6/7 in the read loop: exactly one `vstr i p` event in front of what `post` produces
    from the state with view string `i` set to `p`; nothing of the sequence is left. -/
theorem run_osc_payload (ds : Bytes) (hd : ∀ d ∈ ds, isDigitB d = true) (num i : Nat) (hnum : decVal ds = num)
    (hi : oscTarget num = some i) (p term : Bytes) (hp : Payload true p)
    (ht : StrTerm true term) (cw : Nat → Nat) (t : Term) (post : Bytes) :
    run cw t (oscBytes (ds ++ 0x3b :: p) term ++ post) =
      ((run cw { t with vstrs := t.vstrs.set i p } post).1,
       Ev.vstr i p :: (run cw { t with vstrs := t.vstrs.set i p } post).2.1,
       (run cw { t with vstrs := t.vstrs.set i p } post).2.2) := by
  obtain ⟨hn, ha⟩ := osc_payload ds hd num i hnum hi p term hp ht post cw t
  rw [run_step cw t _ _ _ hn, ha]
  simp

/-- printable ASCII text byte -/
def isAsciiPrintable (b : UInt8) : Bool := 0x20 ≤ b && b ≤ 0x7e

set_option maxRecDepth 100000 in
theorem ascii_facts : ∀ b : UInt8, isAsciiPrintable b = true →
    isPrintableByte b = true ∧ leadLen b = 1 ∧ b.toNat ≠ 0xFFFD := by
  apply forall_u8; decide

theorem next_ascii (b : UInt8) (hb : isAsciiPrintable b = true) (r : Bytes) :
    next (b :: r) = .tok (.text [b] b.toNat) 1 := by
  obtain ⟨h1, h2, h3⟩ := ascii_facts b hb
  have hf : fullRune (b :: r) = true := by simp [fullRune, h2]
  have hd : decodeRune (b :: r) = (b.toNat, 1) := by
    simp only [decodeRune, h2]
  unfold next
  simp only [h1, hf, if_true, hd]
  simp [h3]

/-- a sequence whose token is unrecognised, embedded between ASCII text `pre` and anything `post`:
    reading `pre ++ s ++ post` is the same as reading `pre ++ post` -/
theorem run_embedded (cw : Nat → Nat) (pre : Bytes) (hpre : ∀ b ∈ pre, isAsciiPrintable b = true) :
    ∀ (t : Term) (s post : Bytes) (tok : Tok),
    next (s ++ post) = .tok tok s.length → recognised tok = false →
    run cw t (pre ++ s ++ post) = run cw t (pre ++ post) := by
  induction pre with
  | nil => intro t s post tok h hr; simpa using run_skip cw t s post tok h hr
  | cons b pre ih =>
    intro t s post tok h hr
    have hb := hpre b (by simp)
    rw [List.cons_append, List.cons_append, List.cons_append,
      run_step cw t _ _ _ (next_ascii b hb _), run_step cw t _ _ _ (next_ascii b hb _)]
    simp only [List.drop_succ_cons, List.drop_zero]
    rw [ih (fun x hx => hpre x (by simp [hx])) _ s post tok h hr]

/-- **The property's own form, with text on both sides.** A well-formed control sequence embedded
    between printable text `pre` and an arbitrary continuation `post` is one control token; unless it
    is a recognised one the result (terminal state, events, unconsumed bytes) is exactly that of
    `pre ++ post`. -/
theorem embedded_no_residue (pre s post : Bytes) (hpre : ∀ b ∈ pre, isAsciiPrintable b = true)
    (h : WellFormed s) (cw : Nat → Nat) (t : Term) :
    ∃ tok, next (s ++ post) = .tok tok s.length ∧ isControlTok tok = true ∧
      (recognised tok = false → run cw t (pre ++ s ++ post) = run cw t (pre ++ post)) := by
  obtain ⟨tok, hn, hc⟩ := framing s h post
  exact ⟨tok, hn, hc, run_embedded cw pre hpre t s post tok hn⟩

/-! ## Non-vacuity: concrete members of the grammar, and the theorems applied to them -/

section Examples

/-- `ESC [ 1 SP q` (DECSCUSR: a CSI with an intermediate) -/
example : CsiWF [0x31] [0x20] 0x71 := ⟨by decide, by decide, by decide⟩
example : csiBytes [0x31] [0x20] 0x71 = [0x1b, 0x5b, 0x31, 0x20, 0x71] := rfl
example : csiPlainForm [0x31] [0x20] = false := by decide
example (cw : Nat → Nat) (t : Term) (post : Bytes) :
    run cw t ([0x1b, 0x5b, 0x31, 0x20, 0x71] ++ post) = run cw t post :=
  run_csi_unrecognised [0x31] [0x20] 0x71 ⟨by decide, by decide, by decide⟩ (Or.inl (by decide)) cw t post
example : next ([0x1b, 0x5b, 0x31, 0x20, 0x71] ++ [0x41, 0x42]) = .tok (.csi 0 [1] false 0x71) 5 := by decide

/-- `ESC [ 4 : 3 m` (colon sub-parameters) -/
example : CsiWF [0x34, 0x3a, 0x33] [] 0x6d := ⟨by decide, by decide, by decide⟩
example : csiPlainForm [0x34, 0x3a, 0x33] [] = false := by decide
example (cw : Nat → Nat) (t : Term) (post : Bytes) :
    run cw t ([0x1b, 0x5b, 0x34, 0x3a, 0x33, 0x6d] ++ post) = run cw t post :=
  run_csi_unrecognised [0x34, 0x3a, 0x33] [] 0x6d ⟨by decide, by decide, by decide⟩ (Or.inl (by decide)) cw t post

/-- `ESC [ ? 1 ; 2 $ y` private prefix, two parameters, intermediate; `ESC [ > 0 q` unknown pair -/
example : CsiWF [0x3f, 0x31, 0x3b, 0x32] [0x24] 0x79 := ⟨by decide, by decide, by decide⟩
example : csiPrefix [0x3e, 0x30] = 0x3e ∧ csiPlainForm [0x3e, 0x30] [] = true ∧ recognisedCsi 0x3e 0x71 = false := by decide
example (cw : Nat → Nat) (t : Term) (post : Bytes) :
    run cw t ([0x1b, 0x5b, 0x3e, 0x30, 0x71] ++ post) = run cw t post :=
  run_csi_unrecognised [0x3e, 0x30] [] 0x71 ⟨by decide, by decide, by decide⟩ (Or.inr (by decide)) cw t post

/-- a recognised one for contrast: `ESC [ 2 J` is plain and in the table -/
example : csiPlainForm [0x32] [] = true ∧ recognisedCsi (csiPrefix [0x32]) 0x4a = true := by decide

/-- `ESC # 8` (DECALN) and `ESC ( B` -/
example : EscWF [0x23] 0x38 := ⟨by decide, by decide, by simp⟩
example : EscWF [0x28] 0x42 := ⟨by decide, by decide, by simp⟩
example : EscWF [] 0x63 := ⟨by decide, by decide, by decide⟩
example (cw : Nat → Nat) (t : Term) (post : Bytes) :
    run cw t ([0x1b, 0x23, 0x38] ++ post) = run cw t post :=
  run_esc_unrecognised [0x23] 0x38 ⟨by decide, by decide, by simp⟩ (Or.inl (by simp)) cw t post
example : next ([0x1b, 0x23, 0x38] ++ [0x41]) = .tok (.esc [0x23] 0x38) 3 := by decide

/-- "title" -/
theorem payload_title : Payload true [0x74, 0x69, 0x74, 0x6c, 0x65] := by
  repeat (first | exact Payload.nil | apply Payload.plain _ _ (by decide) (by decide) (by decide) (by decide))

/-- `ESC ] 0 ; title BEL` -/
example (cw : Nat → Nat) (t : Term) (rest : Bytes) :
    next ([0x1b, 0x5d, 0x30, 0x3b, 0x74, 0x69, 0x74, 0x6c, 0x65, 0x07] ++ rest) =
      .tok (.osc 0 [0x74, 0x69, 0x74, 0x6c, 0x65] true) 10 ∧
    (Term.apply cw t (.osc 0 [0x74, 0x69, 0x74, 0x6c, 0x65] true)).2 = [Ev.vstr 0 [0x74, 0x69, 0x74, 0x6c, 0x65]] := by
  have := osc_payload_itoa 0 0 rfl _ [7] payload_title (.bel rfl) rest cw t
  exact ⟨this.1, by rw [this.2]⟩

/-- a payload containing `E2 9C 9C` (U+271C): both 0x9c bytes are continuation bytes -/
theorem payload_9c : Payload true [0x61, 0xE2, 0x9C, 0x9C, 0x62] :=
  .plain 0x61 _ (by decide) (by decide) (by decide) (by decide)
    (.multi 0xE2 [0x9C, 0x9C] [0x62] (by decide) (by decide) (by decide)
      (.plain 0x62 _ (by decide) (by decide) (by decide) (by decide) .nil))

/-- `ESC ] 2 ; a ✜ b ESC \`: delivered whole -/
example (rest : Bytes) :
    next ([0x1b, 0x5d, 0x32, 0x3b, 0x61, 0xE2, 0x9C, 0x9C, 0x62, 0x1b, 0x5c] ++ rest) =
      .tok (.osc 2 [0x61, 0xE2, 0x9C, 0x9C, 0x62] true) 11 :=
  (osc_payload_itoa 2 0 rfl _ [0x1b, 0x5c] payload_9c .st rest id (Term.init .keep 1 1)).1

/-- a truncated character inside a payload: `a E2 9C b` (the 0x9c is still a continuation byte) -/
theorem payload_trunc : Payload true [0x61, 0xE2, 0x9C, 0x62] :=
  .plain 0x61 _ (by decide) (by decide) (by decide) (by decide)
    (.trunc 0xE2 [0x9C] 0x62 [] (by decide) (by decide) (by decide) (by decide)
      (.plain 0x62 _ (by decide) (by decide) (by decide) (by decide) .nil))
example (rest : Bytes) :
    next ([0x1b, 0x5d, 0x37, 0x3b, 0x61, 0xE2, 0x9C, 0x62, 0x07] ++ rest) =
      .tok (.osc 7 [0x61, 0xE2, 0x9C, 0x62] true) 9 :=
  (osc_payload_itoa 7 2 rfl _ [7] payload_trunc (.bel rfl) rest id (Term.init .keep 1 1)).1

/-- but a payload *ending* in a truncated character swallows an 8-bit ST: the language rightly
    excludes it -/
example : next [0x1b, 0x5d, 0x30, 0x3b, 0xE2, 0x9c] = .need := by decide

/-- the restrictions of the payload language are necessary: a stand-alone 0x9c ends the string
    early (the rest is then drawn as text), and so does BEL -/
example : next [0x1b, 0x5d, 0x30, 0x3b, 0x61, 0x9c, 0x62, 0x07] = .tok (.osc 0 [0x61] true) 6 := by decide
example : next [0x1b, 0x50, 0x61, 0x9c, 0x62, 0x1b, 0x5c] = .tok .dcs 4 := by decide

/-- a DCS payload may contain BEL -/
example : Payload false [0x31, 0x07, 0x71] := by
  repeat (first | exact Payload.nil | apply Payload.plain _ _ (by decide) (by decide) (by decide) (by decide))
example : next ([0x1b, 0x50, 0x31, 0x07, 0x71, 0x1b, 0x5c] ++ [0x41]) = .tok .dcs 7 := by decide

/-- the sequences above are `WellFormed` -/
example : WellFormed [0x1b, 0x5b, 0x31, 0x20, 0x71] :=
  .inr (.inl ⟨[0x31], [0x20], 0x71, ⟨by decide, by decide, by decide⟩, rfl⟩)
example : WellFormed [0x1b, 0x23, 0x38] :=
  .inl ⟨[0x23], 0x38, ⟨by decide, by decide, by simp⟩, rfl⟩
example : WellFormed [0x1b, 0x5d, 0x74, 0x69, 0x74, 0x6c, 0x65, 0x9c] :=
  .inr (.inr (.inl ⟨_, [0x9c], payload_title, .st8, rfl⟩))

/-- text, `ESC [ 1 SP q`, text: same as the text alone -/
example (cw : Nat → Nat) (t : Term) :
    run cw t ([0x61, 0x62] ++ [0x1b, 0x5b, 0x31, 0x20, 0x71] ++ [0x63, 0x64]) = run cw t ([0x61, 0x62] ++ [0x63, 0x64]) :=
  run_embedded cw [0x61, 0x62] (by decide) t _ _ (.csi 0 [1] false 0x71) (by decide) rfl

/-- leading zeros: `ESC ] 0 0 2 ; title BEL` sets the title; `ESC ] 1 3 3 ; title BEL` is skipped -/
example (rest : Bytes) :
    next (oscBytes ([0x30, 0x30, 0x32] ++ 0x3b :: [0x74, 0x69, 0x74, 0x6c, 0x65]) [7] ++ rest) =
      .tok (.osc 2 [0x74, 0x69, 0x74, 0x6c, 0x65] true) 12 :=
  (osc_payload [0x30, 0x30, 0x32] (by decide) 2 0 (by decide) rfl _ [7] payload_title (.bel rfl) rest id
    (Term.init .keep 1 1)).1
example (cw : Nat → Nat) (t : Term) (post : Bytes) :
    run cw t (oscBytes ([0x31, 0x33, 0x33] ++ 0x3b :: [0x74, 0x69, 0x74, 0x6c, 0x65]) [7] ++ post) = run cw t post :=
  run_osc_unknown_number [0x31, 0x33, 0x33] _ [7] (by decide) payload_title (.bel rfl) (by decide) cw t post

/-- `ESC ] t i t l e ST`: no number, no `;` — skipped whole -/
example (cw : Nat → Nat) (t : Term) (post : Bytes) :
    run cw t ([0x1b, 0x5d, 0x74, 0x69, 0x74, 0x6c, 0x65, 0x1b, 0x5c] ++ post) = run cw t post :=
  run_osc_malformed [] 0x74 [0x69, 0x74, 0x6c, 0x65] [0x1b, 0x5c] (by decide) (by decide) (by decide)
    payload_title .st cw t post

/-- twenty parameters: `ESC [ 1;1;1;1;1;1;1;1;1;1;1;1;1;1;1;1;1;1;1;1 z` -/
example : CsiWF ((List.replicate 19 [0x31, 0x3b]).flatten ++ [0x31]) [] 0x7a := ⟨by decide, by decide, by decide⟩

end Examples

#print axioms TM.C09.csi_framing
#print axioms TM.C09.esc_framing
#print axioms TM.C09.osc_num_framing
#print axioms TM.C09.osc_malformed_framing
#print axioms TM.C09.osc_framing
#print axioms TM.C09.dcs_framing
#print axioms TM.C09.framing
#print axioms TM.C09.no_draw
#print axioms TM.C09.unknown_noop
#print axioms TM.C09.recognisedCsi_tight
#print axioms TM.C09.recognised_other_tight
#print axioms TM.C09.control_no_text_event
#print axioms TM.C09.no_text_event
#print axioms TM.C09.osc_payload
#print axioms TM.C09.osc_payload_itoa
#print axioms TM.C09.osc_payload_pointwise
#print axioms TM.C09.run_skip
#print axioms TM.C09.run_unrecognised
#print axioms TM.C09.run_csi_unrecognised
#print axioms TM.C09.run_esc_unrecognised
#print axioms TM.C09.run_dcs
#print axioms TM.C09.run_osc_unknown_number
#print axioms TM.C09.run_osc_malformed
#print axioms TM.C09.run_osc_payload
#print axioms TM.C09.run_embedded
#print axioms TM.C09.embedded_no_residue

end TM.C09
