import TM.LockFacts
/-!
# C15 — the terminal lock protocol, for every interleaving

Property (fixed text): "Every Frontend callback is invoked with the terminal lock held, so read
accessors are safe inside callbacks and a reader holding the lock never observes a half-applied
update. While the background read loop is consuming input, concurrent use of the documented API
from other goroutines (read accessors under WithLock, Write, SendKey, mouse reports, Resize,
SetTee) is free of data races and deadlocks, and the loop releases the lock whenever it waits
for more input."

The schedule space of the real program lives in the Go runtime. What is proved here is the lock
PROTOCOL of the model `TM/Lock.lean`, for every interleaving:

1. `check_sound`, `wellLocked_traces` — the abstract interpretation `check` is sound for every
   finite unfolding `traces n p` of a program (all `n`, all traces).
2. `discipline_at_split`, `ends_unlocked`, `access_between_lock_unlock` — what a disciplined
   single-thread trace looks like: accesses / callbacks / unlocks happen with the lock held,
   `lock` / `blockRead` happen without it, every access or callback sits strictly between a
   `lock` and its matching `unlock`, and the trace ends unlocked.
3. `Inv_init`, `Inv_step`, `Inv_runSched` (`Inv_reachable`, `reachable_iff_runSched`) and the
   consequences `callback_under_lock`, `access_under_lock`, `mutual_exclusion`,
   `reader_isolated`, `no_blocking_read_under_lock`, `no_reacquire`, `deadlock_free`,
   `stuck_only_when_done`, `can_finish` — an inductive invariant of the concurrent system
   preserved by EVERY enabled step of EVERY thread (hence by every schedule).
4. `repo_welllocked`, `lockedAccessor_ok`, `entry_points_safe` — the hand-written programs of
   the Go entry points pass the check, hence any number of goroutines running any finite
   unfoldings of them satisfy all the consequences at every reachable state.
5. sensitivity examples: the checker rejects the historical defects, and an undisciplined
   program really reaches a state violating `callback_under_lock`.

## What is NOT proved here

* That the `Prog`s in `TM/LockFacts.lean` faithfully abstract the Go functions. They are written
  by hand; they are tied to the code only by the dynamic checks of C15 (lock probes inside every
  callback and while the loop waits, and the race detector), not by any proof.
* Anything about the Go memory model or the Go scheduler (the model is sequentially consistent,
  one atomic action per step; `sync.Mutex` is assumed to be a correct mutex).
* The `TTYFrontend`'s second mutex: only ONE lock is modelled, so lock-order acyclicity between
  the terminal lock and the frontend lock is not covered. The `TeeBackend` mutex is likewise
  abstracted into `local`.
* Infinite executions / fairness: traces are finite unfoldings (of every depth), `blockRead` is
  treated as always enabled (arrival of input is up to the environment).
-/
namespace TM.Lock
open Act Prog

/-! ## helper lemmas on `runTrace` -/
namespace Lemmas

theorem runTrace_append (h : Bool) (t u : List Act) :
    runTrace h (t ++ u) = (runTrace h t).bind fun h' => runTrace h' u := by
  induction t generalizing h with
  | nil => simp [runTrace]
  | cons a t ih =>
    simp only [List.cons_append, runTrace]
    cases actStep h a with
    | none => simp
    | some h1 => simpa using ih h1

theorem runTrace_append_some {h h1 h2 : Bool} {t u : List Act}
    (ht : runTrace h t = some h1) (hu : runTrace h1 u = some h2) :
    runTrace h (t ++ u) = some h2 := by
  simp [runTrace_append, ht, hu]

/-- a prefix of a successful run is a successful run -/
theorem runTrace_prefix {h h2 : Bool} {t u : List Act} (H : runTrace h (t ++ u) = some h2) :
    ∃ h1, runTrace h t = some h1 ∧ runTrace h1 u = some h2 := by
  rw [runTrace_append] at H
  cases ht : runTrace h t with
  | none => simp [ht] at H
  | some h1 => exact ⟨h1, rfl, by simpa [ht] using H⟩

theorem runTrace_cons {h h2 : Bool} {a : Act} {t : List Act}
    (H : runTrace h (a :: t) = some h2) :
    ∃ h1, actStep h a = some h1 ∧ runTrace h1 t = some h2 := by
  simp only [runTrace] at H
  cases ha : actStep h a with
  | none => simp [ha] at H
  | some h1 => exact ⟨h1, rfl, by simpa [ha] using H⟩

/-- the loop lemma: if every body trace maps `held ↦ held`, so does every concatenation of at
    most `k` body traces -/
theorem starTraces_sound (body : List (List Act)) (held : Bool)
    (hb : ∀ t ∈ body, runTrace held t = some held) :
    ∀ k, ∀ tr ∈ starTraces body k, runTrace held tr = some held := by
  intro k
  induction k with
  | zero => intro tr htr; simp [starTraces] at htr; subst htr; rfl
  | succ k ih =>
    intro tr htr
    simp only [starTraces, List.mem_cons, List.mem_flatMap, List.mem_map] at htr
    rcases htr with rfl | ⟨t, ht, u, hu, rfl⟩
    · rfl
    · exact runTrace_append_some (hb t ht) (ih u hu)

end Lemmas
open Lemmas

/-! ## 1. soundness of the abstract interpretation -/

mutual
/-- **Soundness of `check`.** If the abstract interpretation says that `p`, started with the
    flag `held`, respects the discipline and ends with the flag `h`, then EVERY trace of EVERY
    finite unfolding of `p` does so. -/
theorem check_sound : ∀ (p : Prog) (held h : Bool), check p held = some h →
    ∀ n, ∀ tr ∈ traces n p, runTrace held tr = some h
  | .atom a, held, h, hc, n, tr, htr => by
    simp only [traces, List.mem_singleton] at htr
    subst htr
    simp only [check] at hc
    simp [runTrace, hc]
  | .seq ps, held, h, hc, n, tr, htr => by
    simp only [traces] at htr
    simp only [check] at hc
    exact checkSeq_sound ps held h hc n tr htr
  | .alt ps, held, h, hc, n, tr, htr => by
    simp only [traces] at htr
    simp only [check] at hc
    exact checkAlt_sound ps held h hc n tr htr
  | .star p, held, h, hc, n, tr, htr => by
    simp only [traces] at htr
    simp only [check] at hc
    cases hp : check p held with
    | none => simp [hp] at hc
    | some h1 =>
      simp only [hp] at hc
      by_cases e : h1 = held
      · simp only [e, if_true, Option.some.injEq] at hc
        subst hc
        subst e
        exact starTraces_sound (traces n p) h1
          (fun t ht => check_sound p h1 h1 hp n t ht) n tr htr
      · simp [e] at hc
/-- soundness of `checkSeq` w.r.t. `tracesSeq` -/
theorem checkSeq_sound : ∀ (ps : List Prog) (held h : Bool), checkSeq ps held = some h →
    ∀ n, ∀ tr ∈ tracesSeq n ps, runTrace held tr = some h
  | [], held, h, hc, n, tr, htr => by
    simp only [tracesSeq, List.mem_singleton] at htr
    subst htr
    simpa [checkSeq, runTrace] using hc
  | p :: ps, held, h, hc, n, tr, htr => by
    simp only [tracesSeq, List.mem_flatMap, List.mem_map] at htr
    rcases htr with ⟨t, ht, u, hu, rfl⟩
    simp only [checkSeq] at hc
    cases hp : check p held with
    | none => simp [hp] at hc
    | some h1 =>
      simp only [hp] at hc
      exact runTrace_append_some (check_sound p held h1 hp n t ht)
        (checkSeq_sound ps h1 h hc n u hu)
/-- soundness of `checkAlt` w.r.t. `tracesAlt` -/
theorem checkAlt_sound : ∀ (ps : List Prog) (held h : Bool), checkAlt ps held = some h →
    ∀ n, ∀ tr ∈ tracesAlt n ps, runTrace held tr = some h
  | [], held, h, hc, n, tr, htr => by
    simp [tracesAlt] at htr
  | [p], held, h, hc, n, tr, htr => by
    simp only [tracesAlt, List.append_nil] at htr
    simp only [checkAlt] at hc
    exact check_sound p held h hc n tr htr
  | p :: q :: ps, held, h, hc, n, tr, htr => by
    rw [tracesAlt, List.mem_append] at htr
    rw [checkAlt] at hc
    · cases hp : check p held with
      | none => simp [hp] at hc
      | some h1 =>
        cases hq : checkAlt (q :: ps) held with
        | none => simp [hp, hq] at hc
        | some h2 =>
          simp only [hp, hq] at hc
          by_cases e : h1 = h2
          · simp only [e, if_true, Option.some.injEq] at hc
            subst hc
            subst e
            rcases htr with htr | htr
            · exact check_sound p held h1 hp n tr htr
            · exact checkAlt_sound (q :: ps) held h1 hq n tr htr
          · simp [e] at hc
    · simp
end

/-- an entry point that passes the check only has disciplined traces, at every unfolding depth -/
theorem wellLocked_traces {p : Prog} (hp : wellLocked p = true) :
    ∀ n, ∀ tr ∈ traces n p, runTrace false tr = some false := by
  have : check p false = some false := by simpa [wellLocked] using hp
  exact check_sound p false false this

/-- same for bodies documented "caller must hold the lock" (accessors, callback bodies) -/
theorem wellLockedHeld_traces {p : Prog} (hp : wellLockedHeld p = true) :
    ∀ n, ∀ tr ∈ traces n p, runTrace true tr = some true := by
  have : check p true = some true := by simpa [wellLockedHeld] using hp
  exact check_sound p true true this


/-! ## 2. what a disciplined single-thread trace looks like -/

/-- actions that require the lock to be held -/
def needsLock : Act → Bool
  | .access | .callback | .unlock => true
  | _ => false

/-- actions that require the lock NOT to be held -/
def needsUnlocked : Act → Bool
  | .lock | .blockRead => true
  | _ => false

theorem actStep_needsLock {h h' : Bool} {a : Act} (H : actStep h a = some h')
    (ha : needsLock a = true) : h = true := by
  cases a <;> cases h <;> simp_all [actStep, needsLock]

theorem actStep_needsUnlocked {h h' : Bool} {a : Act} (H : actStep h a = some h')
    (ha : needsUnlocked a = true) : h = false := by
  cases a <;> cases h <;> simp_all [actStep, needsUnlocked]

/-- **Discipline at every position.** In a disciplined trace (from any flag `h0` to any flag
    `h1`), at every split `tr = pre ++ a :: post` the prefix is itself disciplined and the flag
    `h` it computes is `true` when `a` is an access, a callback or an unlock, and `false` when
    `a` is a lock or a blocking read; the rest runs on from there. -/
theorem discipline_at_split {h0 h1 : Bool} {tr pre post : List Act} {a : Act}
    (H : runTrace h0 tr = some h1) (hs : tr = pre ++ a :: post) :
    ∃ h h', runTrace h0 pre = some h ∧ actStep h a = some h' ∧ runTrace h' post = some h1 ∧
      (needsLock a = true → h = true) ∧ (needsUnlocked a = true → h = false) := by
  subst hs
  obtain ⟨h, hpre, hrest⟩ := runTrace_prefix H
  obtain ⟨h', ha, hpost⟩ := runTrace_cons hrest
  exact ⟨h, h', hpre, ha, hpost, actStep_needsLock ha, actStep_needsUnlocked ha⟩

/-- the entry-point form of `discipline_at_split` (starts and ends unlocked) -/
theorem discipline_entry {tr pre post : List Act} {a : Act}
    (H : runTrace false tr = some false) (hs : tr = pre ++ a :: post) :
    ∃ h, runTrace false pre = some h ∧
      ((a = .access ∨ a = .callback ∨ a = .unlock) → h = true) ∧
      ((a = .lock ∨ a = .blockRead) → h = false) := by
  obtain ⟨h, _, hpre, _, _, h1, h2⟩ := discipline_at_split H hs
  refine ⟨h, hpre, ?_, ?_⟩
  · rintro (rfl | rfl | rfl) <;> exact h1 rfl
  · rintro (rfl | rfl) <;> exact h2 rfl

/-- the flag after a disciplined prefix is `true` exactly because of a `lock` that has not
    been followed by an `unlock` (or because it was `true` from the start and never released) -/
theorem held_has_open_lock {h0 : Bool} {pre : List Act} (H : runTrace h0 pre = some true) :
    (h0 = true ∧ Act.lock ∉ pre ∧ Act.unlock ∉ pre) ∨
    ∃ p1 p2, pre = p1 ++ Act.lock :: p2 ∧ Act.lock ∉ p2 ∧ Act.unlock ∉ p2 := by
  induction pre generalizing h0 with
  | nil => left; simpa [runTrace] using H
  | cons a rest ih =>
    obtain ⟨h1, ha, hrest⟩ := runTrace_cons H
    rcases ih hrest with ⟨e, hl, hu⟩ | ⟨p1, p2, e, hl, hu⟩
    · subst e
      cases a with
      | lock => right; exact ⟨[], rest, rfl, hl, hu⟩
      | unlock => cases h0 <;> simp [actStep] at ha
      | access => cases h0 <;> simp_all [actStep]
      | callback => cases h0 <;> simp_all [actStep]
      | blockRead => cases h0 <;> simp [actStep] at ha
      | «local» => cases h0 <;> simp_all [actStep]
    · right; exact ⟨a :: p1, p2, by simp [e], hl, hu⟩

/-- a disciplined run that starts with the lock held and ends without it contains an `unlock`,
    and up to the first one there is neither a `lock` nor a `blockRead` -/
theorem held_has_closing_unlock {post : List Act} (H : runTrace true post = some false) :
    ∃ q1 q2, post = q1 ++ Act.unlock :: q2 ∧
      Act.lock ∉ q1 ∧ Act.unlock ∉ q1 ∧ Act.blockRead ∉ q1 := by
  induction post with
  | nil => simp [runTrace] at H
  | cons a rest ih =>
    obtain ⟨h1, ha, hrest⟩ := runTrace_cons H
    cases a with
    | unlock => exact ⟨[], rest, rfl, by simp, by simp, by simp⟩
    | lock => simp [actStep] at ha
    | blockRead => simp [actStep] at ha
    | access =>
      simp [actStep] at ha; subst ha
      obtain ⟨q1, q2, e, h1, h2, h3⟩ := ih hrest
      exact ⟨.access :: q1, q2, by simp [e], by simp [h1], by simp [h2], by simp [h3]⟩
    | callback =>
      simp [actStep] at ha; subst ha
      obtain ⟨q1, q2, e, h1, h2, h3⟩ := ih hrest
      exact ⟨.callback :: q1, q2, by simp [e], by simp [h1], by simp [h2], by simp [h3]⟩
    | «local» =>
      simp [actStep] at ha; subst ha
      obtain ⟨q1, q2, e, h1, h2, h3⟩ := ih hrest
      exact ⟨.local :: q1, q2, by simp [e], by simp [h1], by simp [h2], by simp [h3]⟩

/-- **Every access / callback lies strictly between a `lock` and its matching `unlock`.**
    In a disciplined entry-point trace, an `access` or `callback` at any position is preceded by
    a `lock` and followed by an `unlock` with no other `lock`/`unlock` (and no blocking read
    after it) in between: `tr = p1 ++ lock :: p2 ++ a :: q1 ++ unlock :: q2`. -/
theorem access_between_lock_unlock {tr pre post : List Act} {a : Act}
    (H : runTrace false tr = some false) (hs : tr = pre ++ a :: post)
    (ha : a = .access ∨ a = .callback) :
    ∃ p1 p2 q1 q2, pre = p1 ++ Act.lock :: p2 ∧ post = q1 ++ Act.unlock :: q2 ∧
      Act.lock ∉ p2 ∧ Act.unlock ∉ p2 ∧
      Act.lock ∉ q1 ∧ Act.unlock ∉ q1 ∧ Act.blockRead ∉ q1 := by
  obtain ⟨h, h', hpre, hact, hpost, h1, _⟩ := discipline_at_split H hs
  have hh : h = true := by rcases ha with rfl | rfl <;> exact h1 rfl
  subst hh
  have hh' : h' = true := by rcases ha with rfl | rfl <;> simpa [actStep] using hact.symm
  subst hh'
  rcases held_has_open_lock hpre with ⟨e, _, _⟩ | ⟨p1, p2, e, hl, hu⟩
  · cases e
  · obtain ⟨q1, q2, e', g1, g2, g3⟩ := held_has_closing_unlock hpost
    exact ⟨p1, p2, q1, q2, e, e', hl, hu, g1, g2, g3⟩

/-- a blocking read in a disciplined entry-point trace happens with the lock released: either
    no `lock` precedes it, or the last `lock`/`unlock` before it is an `unlock` -/
theorem blockRead_after_unlock {tr pre post : List Act}
    (H : runTrace false tr = some false) (hs : tr = pre ++ Act.blockRead :: post) :
    runTrace false pre = some false := by
  obtain ⟨h, hpre, _, h2⟩ := discipline_entry H hs
  rw [h2 (Or.inr rfl)] at hpre
  exact hpre

/-- a disciplined entry-point trace ends unlocked: it is empty of lock operations, or its last
    lock operation is an `unlock` -/
theorem ends_unlocked {tr : List Act} (H : runTrace false tr = some false) :
    (Act.lock ∉ tr ∧ Act.unlock ∉ tr) ∨
    ∃ p1 p2, tr = p1 ++ Act.unlock :: p2 ∧ Act.lock ∉ p2 ∧ Act.unlock ∉ p2 := by
  -- general form: from any flag to `false`
  suffices G : ∀ (tr : List Act) (h0 : Bool), runTrace h0 tr = some false →
      (h0 = false ∧ Act.lock ∉ tr ∧ Act.unlock ∉ tr) ∨
      ∃ p1 p2, tr = p1 ++ Act.unlock :: p2 ∧ Act.lock ∉ p2 ∧ Act.unlock ∉ p2 by
    rcases G tr false H with ⟨_, h⟩ | h
    · exact Or.inl h
    · exact Or.inr h
  intro tr
  induction tr with
  | nil => intro h0 H; left; simpa [runTrace] using H
  | cons a rest ih =>
    intro h0 H
    obtain ⟨h1, ha, hrest⟩ := runTrace_cons H
    rcases ih h1 hrest with ⟨e, hl, hu⟩ | ⟨p1, p2, e, hl, hu⟩
    · subst e
      cases a with
      | unlock => right; exact ⟨[], rest, rfl, hl, hu⟩
      | lock => cases h0 <;> simp [actStep] at ha
      | access => cases h0 <;> simp [actStep] at ha
      | callback => cases h0 <;> simp [actStep] at ha
      | blockRead => cases h0 <;> simp_all [actStep]
      | «local» => cases h0 <;> simp_all [actStep]
    · right; exact ⟨a :: p1, p2, by simp [e], hl, hu⟩


/-! ## 3. the interleaving theorem -/

/-- the next action of thread `i`, if it exists and has one -/
def nextAct (s : Sys) (i : Nat) : Option Act :=
  match s.threads[i]? with
  | some ⟨a :: _⟩ => some a
  | _ => none

/-- **The invariant**: the state is consistent with disciplined threads. Every thread `i` has a
    flag `h` from which its REMAINING trace is disciplined and ends unlocked, the flag is `true`
    exactly for the holder of the lock, and the holder is an existing thread. -/
def Inv (s : Sys) : Prop :=
  (∀ i t, s.threads[i]? = some t →
    ∃ h : Bool, runTrace h t.todo = some false ∧ (h = true ↔ s.holder = some i)) ∧
  (∀ j, s.holder = some j → j < s.threads.length)

/-- run a schedule (a list of thread indices): each scheduled thread performs its next action
    if it is enabled; scheduling a thread that is blocked or finished is a stutter step -/
def runSched (s : Sys) : List Nat → Sys
  | [] => s
  | i :: is => if enabled s i = true then runSched (stepSys s i) is else runSched s is

/-- `Inv` holds initially: nobody holds the lock and every thread is about to run a disciplined
    entry-point trace -/
theorem Inv_init (s : Sys) (hh : s.holder = none)
    (ht : ∀ t ∈ s.threads, runTrace false t.todo = some false) : Inv s := by
  refine ⟨?_, ?_⟩
  · intro i t hit
    exact ⟨false, ht t (List.mem_of_getElem? hit), by simp [hh]⟩
  · intro j hj; simp [hh] at hj

theorem enabled_cons {s : Sys} {i : Nat} (h : enabled s i = true) :
    ∃ a rest, s.threads[i]? = some ⟨a :: rest⟩ ∧ (a = .lock → s.holder = none) := by
  unfold enabled at h
  split at h
  · next rest heq => exact ⟨.lock, rest, heq, fun _ => by simpa using h⟩
  · next a rest hne heq => exact ⟨a, rest, heq, fun e => absurd e hne⟩
  · simp at h

/-- the holder after thread `i` performs action `a` -/
def newHolder (s : Sys) (i : Nat) : Act → Option Nat
  | .lock => some i
  | .unlock => none
  | _ => s.holder

theorem stepSys_eq {s : Sys} {i : Nat} {a : Act} {rest : List Act}
    (hi : s.threads[i]? = some ⟨a :: rest⟩) :
    stepSys s i = { threads := s.threads.set i ⟨rest⟩, holder := newHolder s i a } := by
  unfold stepSys; rw [hi]; cases a <;> rfl

/-- **Preservation**: `Inv` is preserved by EVERY enabled step of EVERY thread -/
theorem Inv_step {s : Sys} {i : Nat} (hI : Inv s) (hen : enabled s i = true) :
    Inv (stepSys s i) := by
  obtain ⟨a, rest, hi, hlock⟩ := enabled_cons hen
  obtain ⟨hT, hH⟩ := hI
  have hilt : i < s.threads.length := by
    rcases List.getElem?_eq_some_iff.mp hi with ⟨h, _⟩; exact h
  obtain ⟨hi0, hrun, hiff⟩ := hT i _ hi
  obtain ⟨hi1, hact, hrest⟩ := runTrace_cons hrun
  -- the flags of the other threads are unaffected; they are not the holder when `i` is
  rw [stepSys_eq hi]
  refine ⟨?_, ?_⟩
  · intro j t hjt
    simp only at hjt
    by_cases hij : i = j
    · -- the thread that moved
      subst hij
      rw [List.getElem?_set_self hilt] at hjt
      cases hjt
      refine ⟨hi1, hrest, ?_⟩
      cases a with
      | lock =>
        cases hi0 <;> simp [actStep] at hact
        subst hact; simp [newHolder]
      | unlock =>
        cases hi0 <;> simp [actStep] at hact
        subst hact; simp [newHolder]
      | access =>
        cases hi0 <;> simp [actStep] at hact
        subst hact; simpa [newHolder] using hiff
      | callback =>
        cases hi0 <;> simp [actStep] at hact
        subst hact; simpa [newHolder] using hiff
      | blockRead =>
        cases hi0 <;> simp [actStep] at hact
        subst hact; simpa [newHolder] using hiff
      | «local» =>
        simp [actStep] at hact
        subst hact; simpa [newHolder] using hiff
    · -- another thread
      rw [List.getElem?_set_ne hij] at hjt
      obtain ⟨hj0, hjrun, hjiff⟩ := hT j t hjt
      refine ⟨hj0, hjrun, ?_⟩
      cases a with
      | lock =>
        have hn := hlock rfl
        have : hj0 = false := by
          cases hj0
          · rfl
          · have := hjiff.mp rfl; simp [hn] at this
        subst this
        simp only [Bool.false_eq_true, false_iff, newHolder]
        intro e; cases e; exact hij rfl
      | unlock =>
        have hhi : hi0 = true := actStep_needsLock hact rfl
        have hhold := hiff.mp hhi
        have : hj0 = false := by
          cases hj0
          · rfl
          · have := hjiff.mp rfl; rw [hhold] at this; cases this; exact absurd rfl hij
        subst this
        simp [newHolder]
      | access => simpa [newHolder] using hjiff
      | callback => simpa [newHolder] using hjiff
      | blockRead => simpa [newHolder] using hjiff
      | «local» => simpa [newHolder] using hjiff
  · intro j hj
    simp only [List.length_set]
    cases a with
    | lock => simp [newHolder] at hj; omega
    | unlock => simp [newHolder] at hj
    | access => exact hH j hj
    | callback => exact hH j hj
    | blockRead => exact hH j hj
    | «local» => exact hH j hj

/-- `Inv` is preserved by every finite schedule, i.e. by every interleaving -/
theorem Inv_runSched {s : Sys} (hI : Inv s) (sched : List Nat) : Inv (runSched s sched) := by
  induction sched generalizing s with
  | nil => exact hI
  | cons i is ih =>
    simp only [runSched]
    split
    · next hen => exact ih (Inv_step hI hen)
    · exact ih hI

/-- the states reachable from `s0` by sequences of enabled steps (the interleavings) -/
inductive Reachable (s0 : Sys) : Sys → Prop
  | init : Reachable s0 s0
  | step {s : Sys} {i : Nat} : Reachable s0 s → enabled s i = true → Reachable s0 (stepSys s i)

theorem runSched_append (s : Sys) (l1 l2 : List Nat) :
    runSched s (l1 ++ l2) = runSched (runSched s l1) l2 := by
  induction l1 generalizing s with
  | nil => rfl
  | cons i is ih => simp only [List.cons_append, runSched]; split <;> exact ih _

theorem Reachable.trans {s0 s1 s2 : Sys} (h1 : Reachable s0 s1) (h2 : Reachable s1 s2) :
    Reachable s0 s2 := by
  induction h2 with
  | init => exact h1
  | step _ hen ih => exact .step ih hen

/-- schedules enumerate exactly the reachable states, so "for every schedule" below means "at
    every state reachable by any interleaving of enabled steps" -/
theorem reachable_iff_runSched {s0 s : Sys} :
    Reachable s0 s ↔ ∃ sched, s = runSched s0 sched := by
  constructor
  · intro h
    induction h with
    | init => exact ⟨[], rfl⟩
    | @step s i _ hen ih =>
      obtain ⟨sched, rfl⟩ := ih
      exact ⟨sched ++ [i], by simp [runSched_append, runSched, hen]⟩
  · rintro ⟨sched, rfl⟩
    induction sched generalizing s0 with
    | nil => exact .init
    | cons i is ih =>
      simp only [runSched]
      split
      · next hen => exact Reachable.trans (.step .init hen) ih
      · exact ih

/-- `Inv` holds at every reachable state -/
theorem Inv_reachable {s0 s : Sys} (hI : Inv s0) (hr : Reachable s0 s) : Inv s := by
  induction hr with
  | init => exact hI
  | step _ hen ih => exact Inv_step ih hen

theorem nextAct_eq_some {s : Sys} {i : Nat} {a : Act} (h : nextAct s i = some a) :
    ∃ rest, s.threads[i]? = some ⟨a :: rest⟩ := by
  unfold nextAct at h
  split at h
  · next b rest heq => cases h; exact ⟨rest, heq⟩
  · cases h

/-- from `Inv`: a thread about to perform an action that needs the lock is the holder -/
theorem needsLock_holder {s : Sys} {i : Nat} {a : Act} (hI : Inv s)
    (hn : nextAct s i = some a) (ha : needsLock a = true) : s.holder = some i := by
  obtain ⟨rest, hi⟩ := nextAct_eq_some hn
  obtain ⟨h, hrun, hiff⟩ := hI.1 i _ hi
  obtain ⟨h1, hact, _⟩ := runTrace_cons hrun
  exact hiff.mp (actStep_needsLock hact ha)

/-- from `Inv`: a thread about to perform an action that needs the lock released is not the
    holder -/
theorem needsUnlocked_not_holder {s : Sys} {i : Nat} {a : Act} (hI : Inv s)
    (hn : nextAct s i = some a) (ha : needsUnlocked a = true) : s.holder ≠ some i := by
  obtain ⟨rest, hi⟩ := nextAct_eq_some hn
  obtain ⟨h, hrun, hiff⟩ := hI.1 i _ hi
  obtain ⟨h1, hact, _⟩ := runTrace_cons hrun
  intro hh
  have := hiff.mpr hh
  rw [actStep_needsUnlocked hact ha] at this
  cases this

/-- **Callbacks run under the lock**: a thread whose next action is a Frontend callback holds
    the terminal lock -/
theorem callback_under_lock {s : Sys} {i : Nat} (hI : Inv s)
    (hn : nextAct s i = some .callback) : s.holder = some i :=
  needsLock_holder hI hn rfl

/-- **Shared state is touched under the lock only** -/
theorem access_under_lock {s : Sys} {i : Nat} (hI : Inv s)
    (hn : nextAct s i = some .access) : s.holder = some i :=
  needsLock_holder hI hn rfl

/-- **Mutual exclusion / data-race freedom of the protocol**: two different threads are never
    both about to perform an `access`, `callback` or `unlock`; in particular two conflicting
    accesses to terminal state are never simultaneously enabled -/
theorem mutual_exclusion {s : Sys} {i j : Nat} {a b : Act} (hI : Inv s)
    (hi : nextAct s i = some a) (hj : nextAct s j = some b)
    (ha : needsLock a = true) (hb : needsLock b = true) : i = j := by
  have h1 := needsLock_holder hI hi ha
  have h2 := needsLock_holder hI hj hb
  rw [h1] at h2
  exact Option.some.inj h2

/-- **A reader holding the lock never observes a half-applied update**: while thread `i` holds
    the lock, no OTHER thread's next action is an access, a callback or an unlock, and this
    remains so after any schedule during which `i` itself does not move -/
theorem reader_isolated {s : Sys} {i : Nat} (hI : Inv s) (hh : s.holder = some i)
    (sched : List Nat) (hs : i ∉ sched) :
    let s' := runSched s sched
    s'.holder = some i ∧
    ∀ j b, j ≠ i → nextAct s' j = some b → needsLock b = false := by
  induction sched generalizing s with
  | nil =>
    refine ⟨hh, ?_⟩
    intro j b hji hn
    cases hb : needsLock b with
    | false => rfl
    | true =>
      have := needsLock_holder hI hn hb
      rw [hh] at this; cases this; exact absurd rfl hji
  | cons k ks ih =>
    have hki : k ≠ i := fun e => hs (by simp [e])
    have hks : i ∉ ks := fun e => hs (by simp [e])
    simp only [runSched]
    split
    · next hen =>
      refine ih (Inv_step hI hen) ?_ hks
      -- `k ≠ i` is enabled while `i` holds the lock: its action is neither lock nor unlock
      obtain ⟨a, rest, hk, hlock⟩ := enabled_cons hen
      have hna : nextAct s k = some a := by simp [nextAct, hk]
      have hnl : a ≠ .lock := fun e => by have := hlock e; rw [hh] at this; cases this
      have hnu : a ≠ .unlock := fun e => by
        subst e
        have := needsLock_holder hI hna rfl
        rw [hh] at this; cases this; exact hki rfl
      cases a <;> simp_all [stepSys]
    · exact ih hI hh hks

/-- **The loop releases the lock whenever it waits for more input**: a thread whose next action
    is a blocking read does not hold the lock -/
theorem no_blocking_read_under_lock {s : Sys} {i : Nat} (hI : Inv s)
    (hn : nextAct s i = some .blockRead) : s.holder ≠ some i :=
  needsUnlocked_not_holder hI hn rfl

/-- no re-acquisition: a thread whose next action is `lock` does not already hold it -/
theorem no_reacquire {s : Sys} {i : Nat} (hI : Inv s)
    (hn : nextAct s i = some .lock) : s.holder ≠ some i :=
  needsUnlocked_not_holder hI hn rfl

/-- from `Inv`: the holder of the lock always has an enabled next action (which is not `lock`) -/
theorem holder_enabled {s : Sys} {j : Nat} (hI : Inv s) (hh : s.holder = some j) :
    enabled s j = true := by
  have hj := hI.2 j hh
  have hget : s.threads[j]? = some s.threads[j] := List.getElem?_eq_getElem hj
  obtain ⟨h, hrun, hiff⟩ := hI.1 j _ hget
  have hh' : h = true := hiff.mpr hh
  subst hh'
  rcases hthr : s.threads[j] with ⟨todo⟩
  rw [hthr] at hrun hget
  cases todo with
  | nil => simp [runTrace] at hrun
  | cons a rest =>
    obtain ⟨h1, hact, _⟩ := runTrace_cons hrun
    cases a <;> simp_all [enabled, actStep]

/-- **Deadlock freedom**: as long as some thread still has actions left, some thread is enabled
    (a blocking read counts as enabled: input arrival is up to the environment, and by
    `no_blocking_read_under_lock` the waiting thread blocks nobody) -/
theorem deadlock_free {s : Sys} (hI : Inv s)
    (hw : ∃ i a, nextAct s i = some a) : ∃ j, enabled s j = true := by
  cases hh : s.holder with
  | some j => exact ⟨j, holder_enabled hI hh⟩
  | none =>
    obtain ⟨i, a, hn⟩ := hw
    obtain ⟨rest, hi⟩ := nextAct_eq_some hn
    refine ⟨i, ?_⟩
    cases a <;> simp [enabled, hi, hh]


/-- a state in which no thread can move is a state in which every thread has finished, and the
    lock is free (contrapositive of `deadlock_free`: the system never gets stuck half-way) -/
theorem stuck_only_when_done {s : Sys} (hI : Inv s) (hs : ∀ j, enabled s j = false) :
    (∀ t ∈ s.threads, t.todo = []) ∧ s.holder = none := by
  refine ⟨?_, ?_⟩
  · intro t ht
    obtain ⟨i, hi, rfl⟩ := List.mem_iff_getElem.mp ht
    rcases htd : s.threads[i] with ⟨todo⟩
    cases todo with
    | nil => rfl
    | cons a rest =>
      have : nextAct s i = some a := by
        simp [nextAct, List.getElem?_eq_getElem hi, htd]
      obtain ⟨j, hj⟩ := deadlock_free hI ⟨i, a, this⟩
      rw [hs j] at hj; cases hj
  · cases hh : s.holder with
    | none => rfl
    | some j => have := holder_enabled hI hh; rw [hs j] at this; cases this

/-- total number of actions still to be performed -/
def remaining (s : Sys) : Nat := (s.threads.map fun t => t.todo.length).sum

theorem remaining_set (l : List Thread) (i : Nat) (a : Act) (rest : List Act)
    (hi : l[i]? = some ⟨a :: rest⟩) :
    ((l.set i ⟨rest⟩).map fun t => t.todo.length).sum + 1
      = (l.map fun t => t.todo.length).sum := by
  induction l generalizing i with
  | nil => simp at hi
  | cons t l ih =>
    cases i with
    | zero =>
      simp only [List.getElem?_cons_zero, Option.some.injEq] at hi
      subst hi
      simp only [List.set_cons_zero, List.map_cons, List.sum_cons, List.length_cons]
      omega
    | succ i =>
      simp only [List.getElem?_cons_succ] at hi
      have := ih i hi
      simp only [List.set_cons_succ, List.map_cons, List.sum_cons]
      omega

theorem remaining_step {s : Sys} {i : Nat} (hen : enabled s i = true) :
    remaining (stepSys s i) + 1 = remaining s := by
  obtain ⟨a, rest, hi, _⟩ := enabled_cons hen
  rw [stepSys_eq hi]
  exact remaining_set s.threads i a rest hi

/-- **Progress to completion**: from every state satisfying `Inv` (hence from every reachable
    state of a disciplined system) there is a schedule, all of whose steps are enabled, after
    which every thread has finished and the lock is free: no reachable state is doomed. -/
theorem can_finish {s : Sys} (hI : Inv s) :
    ∃ sched, (∀ t ∈ (runSched s sched).threads, t.todo = []) ∧
      (runSched s sched).holder = none := by
  generalize hn : remaining s = n
  induction n generalizing s with
  | zero =>
    refine ⟨[], ?_⟩
    apply stuck_only_when_done hI
    intro j
    cases hen : enabled s j with
    | false => rfl
    | true => have := remaining_step hen; omega
  | succ n ih =>
    by_cases hw : ∃ j, enabled s j = true
    · obtain ⟨j, hj⟩ := hw
      have hr := remaining_step hj
      obtain ⟨sched, h⟩ := ih (Inv_step hI hj) (by omega)
      exact ⟨j :: sched, by simpa [runSched, hj] using h⟩
    · refine ⟨[], ?_⟩
      apply stuck_only_when_done hI
      intro j
      cases hen : enabled s j with
      | false => rfl
      | true => exact absurd ⟨j, hen⟩ hw

/-! ## 4. the repository's entry points -/

/-- every hand-written entry-point program passes the lock check -/
theorem repo_welllocked : ∀ p ∈ entryPoints, wellLocked p = true := by decide

/-- accessors documented "caller must hold the lock" / callback bodies: start and end with the
    lock held, never release it, never block -/
theorem lockedAccessor_ok : wellLockedHeld lockedAccessor = true := by decide

/-- the guarantees of C15 at one state of the system -/
structure Safe (s : Sys) : Prop where
  /-- every Frontend callback is invoked with the terminal lock held -/
  callback_under_lock : ∀ i, nextAct s i = some .callback → s.holder = some i
  /-- terminal state is read / written with the terminal lock held -/
  access_under_lock : ∀ i, nextAct s i = some .access → s.holder = some i
  /-- no two threads are simultaneously at an access / callback / unlock -/
  mutual_exclusion : ∀ i j a b, nextAct s i = some a → nextAct s j = some b →
    needsLock a = true → needsLock b = true → i = j
  /-- a thread waiting for input does not hold the lock -/
  no_blocking_read_under_lock : ∀ i, nextAct s i = some .blockRead → s.holder ≠ some i
  /-- the lock is never re-acquired by its holder -/
  no_reacquire : ∀ i, nextAct s i = some .lock → s.holder ≠ some i
  /-- if some thread has work left, some thread can move -/
  deadlock_free : (∃ i a, nextAct s i = some a) → ∃ j, enabled s j = true
  /-- completion stays reachable -/
  can_finish : ∃ sched, (∀ t ∈ (runSched s sched).threads, t.todo = []) ∧
      (runSched s sched).holder = none

theorem Inv.safe {s : Sys} (hI : Inv s) : Safe s where
  callback_under_lock := fun _ h => TM.Lock.callback_under_lock hI h
  access_under_lock := fun _ h => TM.Lock.access_under_lock hI h
  mutual_exclusion := fun _ _ _ _ hi hj ha hb => TM.Lock.mutual_exclusion hI hi hj ha hb
  no_blocking_read_under_lock := fun _ h => TM.Lock.no_blocking_read_under_lock hI h
  no_reacquire := fun _ h => TM.Lock.no_reacquire hI h
  deadlock_free := TM.Lock.deadlock_free hI
  can_finish := TM.Lock.can_finish hI

/-- **Any system of well-locked programs is safe in every interleaving.** Start with the lock
    free and any number of threads, each running any trace of any finite unfolding of a program
    that passes `wellLocked`; then after every schedule all the guarantees hold. -/
theorem wellLocked_system_safe (progs : List Prog) (hp : ∀ p ∈ progs, wellLocked p = true)
    (s0 : Sys) (hh : s0.holder = none)
    (ht : ∀ t ∈ s0.threads, ∃ p ∈ progs, ∃ n, t.todo ∈ traces n p)
    (sched : List Nat) : Safe (runSched s0 sched) := by
  apply Inv.safe
  apply Inv_runSched
  apply Inv_init s0 hh
  intro t htm
  obtain ⟨p, hpm, n, htr⟩ := ht t htm
  exact wellLocked_traces (hp p hpm) n _ htr

/-- **C15 for the terminal's API.** Any number of goroutines, each running (any trace of any
    finite unfolding of) one of the entry points — the background read loop, `Resize`,
    `SetFrontend`, `SendKey`, mouse reports, `Write`, read accessors under `WithLock`, `SetTee`
    — started with the lock free: at EVERY state reachable by ANY schedule, callbacks and
    accesses happen under the lock, no two threads are in conflicting actions, a thread waiting
    for input does not hold the lock, nothing deadlocks and completion stays reachable. -/
theorem entry_points_safe (s0 : Sys) (hh : s0.holder = none)
    (ht : ∀ t ∈ s0.threads, ∃ p ∈ entryPoints, ∃ n, t.todo ∈ traces n p)
    (sched : List Nat) : Safe (runSched s0 sched) :=
  wellLocked_system_safe entryPoints repo_welllocked s0 hh ht sched

/-- a reader inside `WithLock` is isolated: in any reachable state of the entry-point system in
    which thread `i` holds the lock, however the OTHER threads are scheduled from there, none of
    them performs (or is about to perform) an access or a callback while `i` stays inside -/
theorem entry_points_reader_isolated (s0 : Sys) (hh : s0.holder = none)
    (ht : ∀ t ∈ s0.threads, ∃ p ∈ entryPoints, ∃ n, t.todo ∈ traces n p)
    (sched : List Nat) (i : Nat) (hi : (runSched s0 sched).holder = some i)
    (sched' : List Nat) (hs : i ∉ sched') :
    let s' := runSched (runSched s0 sched) sched'
    s'.holder = some i ∧ ∀ j b, j ≠ i → nextAct s' j = some b → needsLock b = false := by
  apply reader_isolated _ hi sched' hs
  apply Inv_runSched
  apply Inv_init s0 hh
  intro t htm
  obtain ⟨p, hpm, n, htr⟩ := ht t htm
  exact wellLocked_traces (repo_welllocked p hpm) n _ htr

/-! ### non-vacuity: a concrete three-thread system of entry points -/

/-- read loop (one iteration: geometry, wait, ESC command with a lock-releasing read, callback),
    `Resize`, and a reader under `WithLock` -/
def demoSys : Sys :=
  { threads :=
      [ ⟨[.lock, .access, .unlock, .blockRead, .blockRead,
          .lock, .unlock, .blockRead, .lock, .callback, .unlock]⟩,
        ⟨[.lock, .callback, .unlock, .local]⟩,
        ⟨[.lock, .access, .unlock]⟩ ],
    holder := none }

example : demoSys.holder = none := rfl
example : ∀ t ∈ demoSys.threads, ∃ p ∈ entryPoints, ∃ n, t.todo ∈ traces n p := by
  intro t ht
  simp only [demoSys, List.mem_cons, List.not_mem_nil, or_false] at ht
  rcases ht with rfl | rfl | rfl
  · exact ⟨ptyReadLoop, by simp [entryPoints], 1, by decide⟩
  · exact ⟨resize, by simp [entryPoints], 1, by decide⟩
  · exact ⟨withLockReader, by simp [entryPoints], 1, by decide⟩
-- the hypotheses of the per-thread theorems are satisfiable on non-trivial traces
example : ∀ t ∈ demoSys.threads, runTrace false t.todo = some false := by decide
-- a schedule that interleaves the three threads; thread 2 is scheduled while blocked (stutter)
example : (runSched demoSys [0, 0, 0, 1, 2, 0, 1, 0]).holder = some 1 := by decide
example : nextAct (runSched demoSys [0, 0, 0, 1, 2, 0, 1, 0]) 1 = some .unlock := by decide
example : nextAct (runSched demoSys [0, 0, 0, 1, 2, 0, 1, 0]) 0 = some .lock := by decide
example : enabled (runSched demoSys [0, 0, 0, 1, 2, 0, 1, 0]) 0 = false := by decide
example : enabled (runSched demoSys [0, 0, 0, 1, 2, 0, 1, 0]) 1 = true := by decide
-- the loop waits for input (blockRead) while another thread holds the lock: nobody is blocked
example : nextAct (runSched demoSys [0, 0, 0, 1]) 0 = some .blockRead ∧
    (runSched demoSys [0, 0, 0, 1]).holder = some 1 := by decide
-- the traces really contain nested structure: unbounded loops, choice
example : (traces 1 ptyReadLoop).length = 20 := by decide
example : [Act.lock, .access, .unlock, .blockRead, .blockRead, .lock, .unlock, .blockRead,
    .lock, .callback, .unlock] ∈ traces 1 ptyReadLoop := by decide

/-! ## 5. sensitivity: the checker rejects the historical defects -/

/-- `Resize` mutating the screen without taking the lock -/
def badResize : Prog := .seq [mutate, a «local»]
/-- the ESC handler doing a blocking read while holding the lock -/
def badEscHandler : Prog := withLock (.seq [a blockRead, mutate])
/-- a callback fired after the lock has been released -/
def badLateCallback : Prog := .seq [withLock (a access), a callback]
/-- re-acquisition of the (non-reentrant) lock -/
def badReacquire : Prog := withLock (withLock (a access))
/-- a path that forgets to unlock -/
def badMissingUnlock : Prog := .seq [a lock, .alt [a unlock, a «local»]]
/-- a loop body that does not restore the flag -/
def badLoop : Prog := .star (a lock)

example : wellLocked badResize = false := by decide
example : wellLocked badEscHandler = false := by decide
example : wellLocked badLateCallback = false := by decide
example : wellLocked badReacquire = false := by decide
example : wellLocked badMissingUnlock = false := by decide
example : wellLocked badLoop = false := by decide
-- an accessor that releases the lock is not a valid callback body
example : wellLockedHeld (.seq [a unlock, a blockRead, a lock, a access]) = true := by decide
example : wellLockedHeld (.seq [a unlock, a access, a lock]) = false := by decide
-- and the rejected programs really have undisciplined traces (the check is not just strict)
example : ∃ tr ∈ traces 1 badResize, runTrace false tr = none :=
  ⟨[.callback, .local], by decide, by decide⟩
example : ∃ tr ∈ traces 1 badEscHandler, runTrace false tr = none :=
  ⟨[.lock, .blockRead, .unlock], by decide, by decide⟩

/-- the unlocked `Resize` next to a reader under `WithLock` -/
def racySys : Sys :=
  { threads := [⟨[.callback, .local]⟩, ⟨[.lock, .access, .unlock]⟩], holder := none }

example : racySys.threads.map (·.todo) ⊆ traces 1 badResize ++ traces 1 withLockReader := by
  decide

/-- an undisciplined program does reach a state violating `callback_under_lock` and
    `mutual_exclusion`: after the reader has taken the lock, the unlocked `Resize` is about to
    fire a callback while the reader is about to access the same state -/
example :
    let s := runSched racySys [1]
    nextAct s 0 = some .callback ∧ s.holder ≠ some 0 ∧
    nextAct s 1 = some .access ∧ enabled s 0 = true ∧ enabled s 1 = true := by decide

example : ¬ Safe (runSched racySys [1]) := fun h => by
  have := h.callback_under_lock 0 (by decide)
  revert this; decide

/-- a blocking read under the lock does produce a state where the waiting thread holds the lock
    and another thread is stuck behind it -/
example :
    let s := runSched { threads := [⟨[.lock, .blockRead, .unlock]⟩, ⟨[.lock, .access, .unlock]⟩],
                        holder := none } [0]
    nextAct s 0 = some .blockRead ∧ s.holder = some 0 ∧ enabled s 1 = false := by decide

/-- re-acquisition does deadlock: a state with work left and nobody enabled -/
example :
    let s := runSched { threads := [⟨[.lock, .lock, .access, .unlock, .unlock]⟩],
                        holder := none } [0]
    nextAct s 0 = some .lock ∧ ∀ j < 1, enabled s j = false := by decide

end TM.Lock

#print axioms TM.Lock.check_sound
#print axioms TM.Lock.wellLocked_traces
#print axioms TM.Lock.wellLockedHeld_traces
#print axioms TM.Lock.discipline_at_split
#print axioms TM.Lock.discipline_entry
#print axioms TM.Lock.access_between_lock_unlock
#print axioms TM.Lock.blockRead_after_unlock
#print axioms TM.Lock.ends_unlocked
#print axioms TM.Lock.Inv_init
#print axioms TM.Lock.Inv_step
#print axioms TM.Lock.Inv_runSched
#print axioms TM.Lock.reachable_iff_runSched
#print axioms TM.Lock.Inv_reachable
#print axioms TM.Lock.callback_under_lock
#print axioms TM.Lock.access_under_lock
#print axioms TM.Lock.mutual_exclusion
#print axioms TM.Lock.reader_isolated
#print axioms TM.Lock.no_blocking_read_under_lock
#print axioms TM.Lock.no_reacquire
#print axioms TM.Lock.deadlock_free
#print axioms TM.Lock.stuck_only_when_done
#print axioms TM.Lock.can_finish
#print axioms TM.Lock.repo_welllocked
#print axioms TM.Lock.lockedAccessor_ok
#print axioms TM.Lock.wellLocked_system_safe
#print axioms TM.Lock.entry_points_safe
#print axioms TM.Lock.entry_points_reader_isolated
