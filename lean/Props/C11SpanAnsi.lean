import Props.C11
import Props.C02Span
import TM.SpanLine
import TM.Ansi
/-!
# C11 for the span buffer: `ANSILine` as the run list really renders it reproduces the row

`Props/C11.lean` proves the round trip for the cell-level rendering `renderRowANSI` (the escape
only where the attributes change). The span buffer renders per RUN (`TM.lineANSI`): in front of
EVERY run of positive width the complete `Style.ansiEscape`, then the run's text (a repeated rune
written `width` times) — also when the next run has the same attributes. This file proves the
round trip for that byte string: `run cw (Term.init pol w h) (cupRow y ++ lineANSI l)` has
`lineCells cw l` in row `y` and every other row untouched.

Route: the induction of `C11.Lemmas.exec_chars` redone over runs, with the exact terminal state
`C11.stT` as invariant. An escape that repeats the attributes in force is harmless because
`C11.exec_ansiEscape` (from `sgr_roundtrip`) holds for every start style.
-/
namespace TM.C11SpanAnsi
open TM TM.C07 TM.C11 TM.C11.Lemmas TM.C02Span

/-! ## hypotheses -/

/-- a stored character `t` of width `w` is the UTF-8 encoding of ONE printable scalar value with
    its own width (the `text` field of `C11.RowOK`, for one character) -/
def CharOK (cw : Nat → Nat) (t : Bytes) (w : Nat) : Prop :=
  ∃ cp, validScalar cp ∧ 32 ≤ cp ∧ cp ≠ 127 ∧ t = encodeRune cp ∧ w = max (cw cp) 1

/-- run-level hypothesis: the style of the run is a valid packed style; a repeated rune is a
    printable scalar value (its width ≤ 1 is part of `spanWF`); every character of a stored text
    is one printable scalar value with its own width -/
def RunOK (cw : Nat → Nat) (sp : Span) : Prop :=
  Style.valid sp.sty ∧
  (if sp.text.isEmpty then validScalar sp.rune ∧ 32 ≤ sp.rune ∧ sp.rune ≠ 127
   else ∀ p ∈ clusters cw sp.text, CharOK cw p.1 p.2)

/-- what the induction over the runs uses: a valid style, characters that are printable scalar
    values. Follows from `RunOK` and from `RowOK` of the cells. -/
def SpanCharsOK (cw : Nat → Nat) (sp : Span) : Prop :=
  Style.valid sp.sty ∧ ∀ p ∈ spanCl cw sp, CharOK cw p.1 p.2

/-- the bytes `lineANSI` writes for the text of a run -/
def spanText (sp : Span) : Bytes :=
  if sp.text.isEmpty then (List.replicate sp.width (encodeRune sp.rune)).flatten else sp.text

/-- `lineANSI` on a list of runs -/
def spansANSI (S : List Span) : Bytes :=
  S.flatMap fun sp => if sp.width = 0 then [] else sp.sty.ansiEscape ++ spanText sp

theorem lineANSI_eq (l : SLine) : lineANSI l = spansANSI l.spans := rfl

namespace Lemmas

theorem spansANSI_cons (sp : Span) (S : List Span) (h : 0 < sp.width) :
    spansANSI (sp :: S) = sp.sty.ansiEscape ++ (spanText sp ++ spansANSI S) := by
  simp [spansANSI, Nat.ne_of_gt h]

theorem flat_replicate1 (n : Nat) (b : Bytes) :
    flat (List.replicate n (b, 1)) = (List.replicate n b).flatten := by
  induction n with
  | zero => rfl
  | succ n ih => simp [List.replicate_succ, ih]

/-- the bytes written for a run are the concatenation of its characters -/
theorem spanText_eq {cw : Nat → Nat} {sp : Span} (h : spanWF cw sp = true) :
    spanText sp = flat (spanCl cw sp) := by
  unfold spanText spanCl
  cases ht : sp.text.isEmpty
  · simp only [Bool.false_eq_true, if_false]; exact (spanWF_text h ht).2.1
  · simp only [if_true, flat_replicate1]

/-- the characters of a run satisfying `RunOK` are printable scalar values -/
theorem runOK_chars {cw : Nat → Nat} {sp : Span} (hwf : spanWF cw sp = true) (h : RunOK cw sp) :
    ∀ p ∈ spanCl cw sp, CharOK cw p.1 p.2 := by
  unfold spanCl
  cases ht : sp.text.isEmpty
  · have := h.2
    simp only [ht, Bool.false_eq_true, if_false] at this ⊢
    exact this
  · have := h.2
    simp only [ht, if_true] at this ⊢
    intro p hp
    rw [(List.mem_replicate.1 hp).2]
    unfold spanWF at hwf
    simp only [ht, if_true, Bool.and_eq_true, decide_eq_true_eq] at hwf
    exact ⟨sp.rune, this.1, this.2.1, this.2.2, rfl, by simp only; omega⟩

/-- the text of a run read by the re-interpreting terminal in the run's style: one text token
    per character, each landing right behind the cells already written -/
theorem exec_text (cw : Nat → Nat) (pol : WidePolicy) (W H y : Nat) (hy : y < H) (st : Style)
    (rest : Bytes) (T' : Term) : ∀ (cs : List Cl) (done : Row),
    (∀ p ∈ cs, CharOK cw p.1 p.2) → done.length + ws cs ≤ W →
    Exec cw (stT pol W H y (done ++ cellsK (cs.map fun c => (c, st))) st) rest T' →
    Exec cw (stT pol W H y done st) (flat cs ++ rest) T' := by
  intro cs
  induction cs with
  | nil =>
    intro done _ _ h
    simpa using h
  | cons p r ih =>
    intro done hok hfit h
    obtain ⟨cp, hcp, h32, h127, ht, hw⟩ := hok p (List.mem_cons_self ..)
    have hw1 : 1 ≤ p.2 := by omega
    simp only [ws_cons] at hfit
    rw [flat_cons, List.append_assoc, ht]
    apply Exec.tok (next_text cp hcp h32 h127 _) (encodeRune_length_pos cp)
    rw [← ht, apply_text_stT cw pol W H y done st p.1 cp p.2 hy hw.symm (by omega)]
    apply ih (done ++ charCells p.1 p.2 st) (fun q hq => hok q (List.mem_cons_of_mem _ hq))
      (by rw [List.length_append, C02Span.length_charCells _ _ hw1]; omega)
    simpa [List.append_assoc] using h

/-- the induction over the runs: invariant = the exact terminal state `stT` -/
theorem exec_spans (cw : Nat → Nat) (pol : WidePolicy) (W H y : Nat) (hy : y < H) :
    ∀ (S : List Span) (done : Row) (sty : Style),
    AllWF cw S → (∀ sp ∈ S, SpanCharsOK cw sp) → done.length + sumWidths S ≤ W →
    ∃ sty', Exec cw (stT pol W H y done sty) (spansANSI S)
      (stT pol W H y (done ++ cellsK (lineK cw S)) sty') := by
  intro S
  induction S with
  | nil =>
    intro done sty _ _ _
    refine ⟨sty, ?_⟩
    simp only [lineK_nil, cellsK_nil, List.append_nil]
    exact Exec.nil cw _
  | cons sp S ih =>
    intro done sty hwf hok hfit
    have hsp := hwf.head
    have hG := spanWF_G hsp
    have hrun := hok sp (List.mem_cons_self ..)
    simp only [sumWidths_cons] at hfit
    have hlen : (cellsK (spanK cw sp)).length = sp.width := by
      rw [length_cellsK hG.posK, hG.wk]
    obtain ⟨sty', hE⟩ := ih (done ++ cellsK (spanK cw sp)) sp.sty hwf.tail
      (fun q hq => hok q (List.mem_cons_of_mem _ hq))
      (by rw [List.length_append, hlen]; omega)
    refine ⟨sty', ?_⟩
    rw [spansANSI_cons sp S (spanWF_pos hsp), lineK_cons, cellsK_append, ← List.append_assoc done]
    apply exec_ansiEscape cw sp.sty hrun.1
    rw [withSty_stT, spanText_eq hsp]
    apply exec_text cw pol W H y hy sp.sty _ _ (spanCl cw sp) done hrun.2
      (by rw [← hG.1]; omega)
    exact hE

/-- the terminal reached by reading `CUP(y+1,1) ++ lineANSI l`, completely described -/
theorem lineANSI_state (cw : Nat → Nat) (pol : WidePolicy) (w h y : Nat) (l : SLine)
    (hy : y < h) (hmax : y < paramMax) (hwf : lineWF cw w l = true)
    (hok : ∀ sp ∈ l.spans, SpanCharsOK cw sp) :
    ∃ sty', (run cw (Term.init pol w h) (cupRow y ++ lineANSI l)).1 =
      stT pol w h y (lineCells cw l) sty' := by
  unfold lineWF at hwf
  simp only [Bool.and_eq_true, List.all_eq_true, decide_eq_true_eq] at hwf
  have hall : AllWF cw l.spans := hwf.1.1
  obtain ⟨sty', hE⟩ := exec_spans cw pol w h y hy l.spans [] Style.default hall hok
    (by simp [hwf.1.2])
  refine ⟨sty', Exec.run ?_⟩
  have hpok : ParamsOK [y + 1, 1] :=
    ⟨by simp, by simp [paramCap], by
      intro n hn
      simp only [List.mem_cons, List.not_mem_nil, or_false] at hn
      unfold paramMax at hmax ⊢; omega⟩
  rw [cupRow_eq]
  apply Exec.tok (next_csiSeq [y + 1, 1] 0x48 (Or.inr rfl) hpok _) (by simp [csiSeq])
  have := apply_cup_init cw pol w h y hy
  unfold cupTok at this
  rw [show ([y + 1, 1] : List Nat).map Int.ofNat = [((y + 1 : Nat) : Int), ((1 : Nat) : Int)] from rfl,
    this, lineANSI_eq, lineCells_eq]
  rw [List.nil_append] at hE
  exact hE

theorem length_lineCells {cw : Nat → Nat} {w : Nat} {l : SLine} (hwf : lineWF cw w l = true) :
    (lineCells cw l).length = w := by
  unfold lineWF at hwf
  simp only [Bool.and_eq_true, List.all_eq_true, decide_eq_true_eq] at hwf
  have hall : AllWF cw l.spans := hwf.1.1
  rw [lineCells_eq, length_cellsK (posK_lineK hall), wk_lineK hall, hwf.1.2]

theorem allWF_of_lineWF {cw : Nat → Nat} {w : Nat} {l : SLine} (hwf : lineWF cw w l = true) :
    AllWF cw l.spans := by
  unfold lineWF at hwf
  simp only [Bool.and_eq_true, List.all_eq_true, decide_eq_true_eq] at hwf
  exact hwf.1.1

/-- run-level hypothesis ⟹ what the induction uses -/
theorem runOK_spanCharsOK {cw : Nat → Nat} {sp : Span} (hwf : spanWF cw sp = true) (h : RunOK cw sp) :
    SpanCharsOK cw sp := ⟨h.1, runOK_chars hwf h⟩

/-- the head cell of every character of a run is a cell of the row -/
theorem head_mem_lineCells {cw : Nat → Nat} {l : SLine} {sp : Span} (hsp : sp ∈ l.spans)
    {p : Cl} (hp : p ∈ spanCl cw sp) : (⟨.ch p.1 p.2, sp.sty⟩ : Cell) ∈ lineCells cw l := by
  unfold lineCells
  rw [List.mem_flatMap]
  refine ⟨sp, hsp, ?_⟩
  rw [spanCells_eq]
  unfold cellsK spanK
  rw [List.mem_flatMap]
  exact ⟨(p, sp.sty), List.mem_map.2 ⟨p, hp, rfl⟩, by simp [charCells]⟩

/-- cell-level hypothesis (`C11.RowOK` of the cells, in fact only its `valid` and `text` fields)
    ⟹ what the induction uses -/
theorem rowOK_spanCharsOK {cw : Nat → Nat} {w : Nat} {l : SLine} (hwf : lineWF cw w l = true)
    (hvalid : ∀ c ∈ lineCells cw l, Style.valid c.sty)
    (htext : ∀ c ∈ lineCells cw l, ∀ t w, c.g = .ch t w → CharOK cw t w) :
    ∀ sp ∈ l.spans, SpanCharsOK cw sp := by
  intro sp hsp
  have hG := spanWF_G (allWF_of_lineWF hwf sp hsp)
  have hpos := spanWF_pos (allWF_of_lineWF hwf sp hsp)
  constructor
  · cases hc : spanCl cw sp with
    | nil => rw [hG.1, hc] at hpos; simp at hpos
    | cons p r =>
      have hm : p ∈ spanCl cw sp := by rw [hc]; exact List.mem_cons_self ..
      exact hvalid ⟨.ch p.1 p.2, sp.sty⟩ (head_mem_lineCells hsp hm)
  · intro p hp
    exact htext ⟨.ch p.1 p.2, sp.sty⟩ (head_mem_lineCells hsp hp) p.1 p.2 rfl

/-! ### the cells of a run list satisfy `C11.RowOK` (so the two hypotheses agree) -/

theorem getElem?_cellsK_mid {A : List K} (k : K) (B : List K) (hA : PosK A) {j : Nat} (hj : j < k.1.2) :
    (cellsK (A ++ k :: B))[wk A + j]? =
      some (if j = 0 then ⟨.ch k.1.1 k.1.2, k.2⟩ else ⟨.cont, k.2⟩) := by
  rw [cellsK_append, ← length_cellsK hA, List.getElem?_append_right (by omega),
    Nat.add_sub_cancel_left, cellsK_cons,
    List.getElem?_append_left (by rw [C02Span.length_charCells _ _ (by omega)]; exact hj),
    getElem?_charCells _ _ _ _ hj]

/-- every column of the row lies in exactly one character -/
theorem locate' {L : List K} (hL : PosK L) {i : Nat} (hi : i < wk L) :
    ∃ A k B j, L = A ++ k :: B ∧ i = wk A + j ∧ j < k.1.2 := by
  rcases locate L hL i (by omega) with ⟨A, B, rfl, hA⟩ | ⟨A, k, B, rfl, h1, h2⟩
  · cases B with
    | nil => simp at hi; omega
    | cons k B =>
      have := hL.right.head
      exact ⟨A, k, B, 0, rfl, by omega, by omega⟩
  · exact ⟨A, k, B, i - wk A, rfl, by omega, by omega⟩

theorem lt_of_getElem?_some {α} {l : List α} {i : Nat} {a : α} (h : l[i]? = some a) : i < l.length := by
  false_or_by_contra
  rw [List.getElem?_eq_none (by omega)] at h; cases h

theorem rowWF_cellsK {L : List K} (hL : PosK L) : rowWF (cellsK L) = true := by
  rw [rowWF_iff]
  refine ⟨contAt_cellsK_zero hL, ?_⟩
  intro i t w st hi
  have hlt := lt_of_getElem?_some hi
  rw [length_cellsK hL] at hlt
  obtain ⟨A, k, B, j, rfl, rfl, hj⟩ := locate' hL hlt
  have hA := hL.left
  rw [getElem?_cellsK_mid k B hA hj] at hi
  by_cases hj0 : j = 0
  · subst hj0
    simp only [if_true, Option.some.injEq, Cell.mk.injEq, Glyph.ch.injEq] at hi
    obtain ⟨⟨rfl, rfl⟩, rfl⟩ := hi
    have hk : 1 ≤ k.1.2 := hL.right.head
    refine ⟨hk, ?_, ?_, ?_⟩
    · rw [length_cellsK hL]; simp
    · intro m h1 h2
      have := getElem?_cellsK_mid k B hA (j := m - wk A) (by omega)
      rw [show wk A + (m - wk A) = m by omega, if_neg (by omega)] at this
      exact contAt_cont this
    · have e : A ++ k :: B = (A ++ [k]) ++ B := by simp
      have hL' : PosK ((A ++ [k]) ++ B) := e ▸ hL
      have := ev_boundary hL'
      rw [← e] at this
      simpa using this
  · rw [if_neg hj0] at hi
    simp at hi

theorem contSty_cellsK {L : List K} (hL : PosK L) (i : Nat) (st : Style)
    (h : (cellsK L)[i + 1]? = some ⟨.cont, st⟩) : ∃ g, (cellsK L)[i]? = some ⟨g, st⟩ := by
  have hlt := lt_of_getElem?_some h
  rw [length_cellsK hL] at hlt
  obtain ⟨A, k, B, j, rfl, hij, hj⟩ := locate' hL hlt
  have hA := hL.left
  rw [hij, getElem?_cellsK_mid k B hA hj] at h
  cases j with
  | zero => simp at h
  | succ j =>
    simp only [Nat.add_eq_zero_iff, Nat.succ_ne_self, and_false, if_false, Option.some.injEq,
      Cell.mk.injEq, true_and] at h
    subst h
    have hi : i = wk A + j := by omega
    rw [hi, getElem?_cellsK_mid k B hA (j := j) (by omega)]
    by_cases hj0 : j = 0
    · rw [if_pos hj0]; exact ⟨_, rfl⟩
    · rw [if_neg hj0]; exact ⟨_, rfl⟩

theorem mem_cellsK {L : List K} {c : Cell} (h : c ∈ cellsK L) :
    ∃ k ∈ L, c.sty = k.2 ∧ ∀ t w, c.g = .ch t w → t = k.1.1 ∧ w = k.1.2 := by
  unfold cellsK at h
  obtain ⟨k, hk, hc⟩ := List.mem_flatMap.1 h
  refine ⟨k, hk, ?_⟩
  unfold charCells at hc
  rcases List.mem_cons.1 hc with rfl | hc
  · exact ⟨rfl, fun t w e => by cases e; exact ⟨rfl, rfl⟩⟩
  · rw [(List.mem_replicate.1 hc).2]
    exact ⟨rfl, fun t w e => by cases e⟩

theorem mem_lineK {cw : Nat → Nat} {S : List Span} {k : K} (h : k ∈ lineK cw S) :
    ∃ sp ∈ S, k.2 = sp.sty ∧ k.1 ∈ spanCl cw sp := by
  unfold lineK at h
  obtain ⟨sp, hsp, hk⟩ := List.mem_flatMap.1 h
  unfold spanK at hk
  obtain ⟨c, hc, rfl⟩ := List.mem_map.1 hk
  exact ⟨sp, hsp, rfl, hc⟩

/-- the cells of a well-formed run list whose runs are `RunOK` satisfy the hypothesis of
    `C11.row_roundtrip` -/
theorem rowOK_lineCells {cw : Nat → Nat} {w : Nat} {l : SLine} (hwf : lineWF cw w l = true)
    (hok : ∀ sp ∈ l.spans, RunOK cw sp) : RowOK cw (lineCells cw l) := by
  have hall := allWF_of_lineWF hwf
  have hL := posK_lineK hall
  rw [lineCells_eq]
  refine ⟨rowWF_cellsK hL, contSty_cellsK hL, ?_, ?_⟩
  · intro c hc
    obtain ⟨k, hk, hs, _⟩ := mem_cellsK hc
    obtain ⟨sp, hsp, hs2, _⟩ := mem_lineK hk
    rw [hs, hs2]; exact (hok sp hsp).1
  · intro c hc t w hg
    obtain ⟨k, hk, _, ht⟩ := mem_cellsK hc
    obtain ⟨sp, hsp, _, hm⟩ := mem_lineK hk
    obtain ⟨rfl, rfl⟩ := ht t w hg
    exact runOK_chars (hall sp hsp) (hok sp hsp) k.1 hm

end Lemmas
open Lemmas

/-! ## the property -/

/-- **C11 for the span buffer.** Feeding `CUP(y+1,1) ++ ANSILine(y)` — the bytes the span buffer
    really produces (`lineANSI`: the full escape in front of EVERY run, then its text, also when
    the next run has the same attributes) — to a fresh terminal of the same size reproduces the
    cells of the row exactly: the same text, the same widths / continuation cells and the same
    packed style in every cell. Hypotheses: the invariant `lineWF` of the run list, and the
    hypothesis of `C11.row_roundtrip` on its cells. For all sizes, rows `y`, both policies, every
    width function. -/
theorem lineANSI_roundtrip (cw : Nat → Nat) (pol : WidePolicy) (w h y : Nat) (l : SLine)
    (hy : y < h) (hmax : y < paramMax) (hwf : lineWF cw w l = true)
    (hr : RowOK cw (lineCells cw l)) :
    (run cw (Term.init pol w h) (cupRow y ++ lineANSI l)).1.main.row y = lineCells cw l := by
  obtain ⟨sty', hs⟩ := lineANSI_state cw pol w h y l hy hmax hwf
    (rowOK_spanCharsOK hwf hr.valid hr.text)
  rw [hs]
  exact stT_row_full pol w h y _ sty' hy (length_lineCells hwf)

/-- … and every other row is as in the fresh terminal (nothing scrolls, nothing wraps) -/
theorem lineANSI_other_rows (cw : Nat → Nat) (pol : WidePolicy) (w h y : Nat) (l : SLine)
    (hy : y < h) (hmax : y < paramMax) (hwf : lineWF cw w l = true)
    (hr : RowOK cw (lineCells cw l)) (y' : Nat) (hne : y' ≠ y) :
    (run cw (Term.init pol w h) (cupRow y ++ lineANSI l)).1.main.row y' =
      (Term.init pol w h).main.row y' := by
  obtain ⟨sty', hs⟩ := lineANSI_state cw pol w h y l hy hmax hwf
    (rowOK_spanCharsOK hwf hr.valid hr.text)
  rw [hs]
  exact stT_row_other pol w h y _ sty' y' hne

/-- **The same from a run-level hypothesis** (`RunOK`: every run has a valid style; a repeated
    rune is a printable scalar value; every character of a stored text is one printable scalar
    value with its own width) — nothing is assumed about the cells. -/
theorem lineANSI_roundtrip_runs (cw : Nat → Nat) (pol : WidePolicy) (w h y : Nat) (l : SLine)
    (hy : y < h) (hmax : y < paramMax) (hwf : lineWF cw w l = true)
    (hok : ∀ sp ∈ l.spans, RunOK cw sp) :
    (run cw (Term.init pol w h) (cupRow y ++ lineANSI l)).1.main.row y = lineCells cw l := by
  obtain ⟨sty', hs⟩ := lineANSI_state cw pol w h y l hy hmax hwf
    (fun sp hsp => runOK_spanCharsOK (allWF_of_lineWF hwf sp hsp) (hok sp hsp))
  rw [hs]
  exact stT_row_full pol w h y _ sty' hy (length_lineCells hwf)

theorem lineANSI_other_rows_runs (cw : Nat → Nat) (pol : WidePolicy) (w h y : Nat) (l : SLine)
    (hy : y < h) (hmax : y < paramMax) (hwf : lineWF cw w l = true)
    (hok : ∀ sp ∈ l.spans, RunOK cw sp) (y' : Nat) (hne : y' ≠ y) :
    (run cw (Term.init pol w h) (cupRow y ++ lineANSI l)).1.main.row y' =
      (Term.init pol w h).main.row y' := by
  obtain ⟨sty', hs⟩ := lineANSI_state cw pol w h y l hy hmax hwf
    (fun sp hsp => runOK_spanCharsOK (allWF_of_lineWF hwf sp hsp) (hok sp hsp))
  rw [hs]
  exact stT_row_other pol w h y _ sty' y' hne

/-- **The two renderings are interchangeable.** The per-run bytes of the span buffer and the
    per-attribute-change bytes of the cell-level model (`renderRowANSI` of the cells, the subject of
    `C11.row_roundtrip`) are different byte strings that a fresh terminal reads to the same row. -/
theorem lineANSI_agrees_renderRowANSI (cw : Nat → Nat) (pol : WidePolicy) (w h y : Nat) (l : SLine)
    (hy : y < h) (hmax : y < paramMax) (hwf : lineWF cw w l = true)
    (hr : RowOK cw (lineCells cw l)) :
    (run cw (Term.init pol w h) (cupRow y ++ lineANSI l)).1.main.row y =
      reinterpretRow cw pol w h y (lineCells cw l) := by
  rw [lineANSI_roundtrip cw pol w h y l hy hmax hwf hr,
    row_roundtrip cw pol w h y _ hy hmax (length_lineCells hwf) hr]

/-- **The two hypotheses agree.** The cells of a well-formed run list whose runs are `RunOK` satisfy
    `C11.RowOK`, the hypothesis of `C11.row_roundtrip` and of `lineANSI_roundtrip`: the row is
    structurally well formed (`rowWF`), continuation cells carry the style of their head, every
    style is valid, every character cell holds one printable scalar value with its own width. -/
theorem lineCells_rowOK (cw : Nat → Nat) (w : Nat) (l : SLine) (hwf : lineWF cw w l = true)
    (hok : ∀ sp ∈ l.spans, RunOK cw sp) : RowOK cw (lineCells cw l) :=
  rowOK_lineCells hwf hok

/-! ## non-vacuity -/

namespace Examples
open TM.C11.Examples (cw boldRedOn200 fancy)

/-- three runs on a row of 6 cells: the text `A世` (three cells, `世` is wide), two blanks as a
    repeated rune in the SAME style, and the text `b` in another style -/
def line : SLine :=
  ⟨[⟨boldRedOn200, [0x41, 0xE4, 0xB8, 0x96], 0, 3⟩, ⟨boldRedOn200, [], 0x20, 2⟩, ⟨fancy, [0x62], 0, 1⟩], 6⟩

example : lineWF cw 6 line = true := by decide

set_option maxRecDepth 100000 in
example : lineCells cw line =
    [⟨.ch [0x41] 1, boldRedOn200⟩, ⟨.ch [0xE4, 0xB8, 0x96] 2, boldRedOn200⟩, ⟨.cont, boldRedOn200⟩,
     ⟨.ch [0x20] 1, boldRedOn200⟩, ⟨.ch [0x20] 1, boldRedOn200⟩, ⟨.ch [0x62] 1, fancy⟩] := by decide

/-- the span buffer writes the escape of the second run although nothing changes; the cell-level
    rendering does not: two different byte strings -/
example : lineANSI line ≠ renderRowANSI (lineCells cw line) := by
  intro h
  exact absurd (congrArg List.length h) (by decide)

example : lineANSI line =
    boldRedOn200.ansiEscape ++ [0x41, 0xE4, 0xB8, 0x96] ++ boldRedOn200.ansiEscape ++ [0x20, 0x20] ++
      fancy.ansiEscape ++ [0x62] := by decide

example : renderRowANSI (lineCells cw line) =
    boldRedOn200.ansiEscape ++ [0x41, 0xE4, 0xB8, 0x96] ++ [0x20, 0x20] ++
      fancy.ansiEscape ++ [0x62] := by decide

theorem runsOK : ∀ sp ∈ line.spans, RunOK cw sp := by
  intro sp hsp
  simp only [line, List.mem_cons, List.not_mem_nil, or_false] at hsp
  rcases hsp with rfl | rfl | rfl
  · refine ⟨by decide, ?_⟩
    have hc : clusters cw [0x41, 0xE4, 0xB8, 0x96] = [([0x41], 1), ([0xE4, 0xB8, 0x96], 2)] := by decide
    simp only [List.isEmpty_cons, Bool.false_eq_true, if_false, hc, List.mem_cons, List.not_mem_nil,
      or_false]
    rintro p (rfl | rfl)
    · exact ⟨0x41, by decide, by decide, by decide, by decide, by decide⟩
    · exact ⟨0x4E16, by decide, by decide, by decide, by decide, by decide⟩
  · refine ⟨by decide, ?_⟩
    simp only [List.isEmpty_nil, if_true]
    decide
  · refine ⟨by decide, ?_⟩
    have hc : clusters cw [0x62] = [([0x62], 1)] := by decide
    simp only [List.isEmpty_cons, Bool.false_eq_true, if_false, hc, List.mem_cons, List.not_mem_nil,
      or_false]
    rintro p rfl
    exact ⟨0x62, by decide, by decide, by decide, by decide, by decide⟩

/-- the span rendering reproduces the row (6 × 3 screen, row 1, both policies) -/
example (pol : WidePolicy) :
    (run cw (Term.init pol 6 3) (cupRow 1 ++ lineANSI line)).1.main.row 1 = lineCells cw line :=
  lineANSI_roundtrip_runs cw pol 6 3 1 line (by decide) (by decide) (by decide) runsOK

theorem rowOK : RowOK cw (lineCells cw line) := lineCells_rowOK cw 6 line (by decide) runsOK

/-- the same from the cell-level hypothesis -/
example (pol : WidePolicy) :
    (run cw (Term.init pol 6 3) (cupRow 1 ++ lineANSI line)).1.main.row 1 = lineCells cw line :=
  lineANSI_roundtrip cw pol 6 3 1 line (by decide) (by decide) (by decide) rowOK

/-- the cell-level rendering (other bytes) reproduces the row as well -/
example (pol : WidePolicy) :
    reinterpretRow cw pol 6 3 1 (lineCells cw line) = lineCells cw line :=
  row_roundtrip cw pol 6 3 1 _ (by decide) (by decide)
    (length_lineCells (cw := cw) (w := 6) (l := line) (by decide)) rowOK

/-- rows 0 and 2 stay blank -/
example (pol : WidePolicy) :
    (run cw (Term.init pol 6 3) (cupRow 1 ++ lineANSI line)).1.main.row 2 =
      (Term.init pol 6 3).main.row 2 :=
  lineANSI_other_rows cw pol 6 3 1 line (by decide) (by decide) (by decide) rowOK 2 (by decide)

end Examples

end TM.C11SpanAnsi

#print axioms TM.C11SpanAnsi.lineANSI_roundtrip
#print axioms TM.C11SpanAnsi.lineANSI_other_rows
#print axioms TM.C11SpanAnsi.lineANSI_roundtrip_runs
#print axioms TM.C11SpanAnsi.lineANSI_other_rows_runs
#print axioms TM.C11SpanAnsi.lineANSI_agrees_renderRowANSI
#print axioms TM.C11SpanAnsi.lineCells_rowOK
