import Props.C03SpanFeed
import Props.C03
/-!
# C03SpanClean — `CleanFeed` follows from a clean start

The hypothesis `CleanFeed` of `C03SpanFeed.feedText_refines` (no run of SEVERAL characters starts
on the second cell of a wide character along the feed) holds automatically when the feed starts
off a continuation cell. The invariant carried along the feed (`CleanS` cell level, `Clean` run
level): the cursor is not on a continuation cell of its row, OR autowrap is off and the cursor is
pinned on the last column — where the next limit `max (w - cx) 1` is 1, so the next run is a
single character.

* 1 `contAt_put_after`, `contAt_putKeep_after`: the column after a character written by `Row.put`
  / inserted by `Row.putKeep` is a character boundary.
* 2 `put_keep_clean`: one `Scr.put .keep` from a cursor off a continuation cell, or with autowrap
  off, ends `CleanS`; `fold_put_clean` for a sequence. Autowrap on, character not fitting: the
  cursor wraps to column 0 of the next row BEFORE the write; column 0 is never a continuation
  cell. `put_keep_wrap_dirty`: autowrap on and the cursor ON a continuation cell can end on a
  continuation cell of the next row (the cursor wraps by the shifted amount).
* 3 `clean_run` (a run cut in a `Clean` state is a single character with autowrap off, or starts
  on a boundary), `writeString_feed_clean` (one run: invariant and `Clean` afterwards),
  `writeString_feed_next`, `cleanFeed_of_clean` (any reader state, any fuel),
  **`cleanFeed_of_clean_start`**, **`feedText_refines_clean_start`**, `feedText_clean_end` (the
  feed ends `Clean`), `cleanFeed_of_first_single_nowrap` ("the first run is a single character"
  is enough with autowrap off).
* 4 examples; `single_first_run_not_enough`: with autowrap ON "the first run is a single
  character" is NOT enough — `CleanFeed` and the equation of `feedText_refines` both fail.
-/
namespace TM.C03SpanClean
open TM TM.C02Span TM.C02SpanScreen TM.C03SpanWrite TM.C16Reader TM.C03SpanFeed

/-! ## 1. cell level: the column after a written character is a character boundary -/

/-- the column after a character written with `Row.put` is not a continuation cell (also when it
    is the first column beyond the row) -/
theorem contAt_put_after (R : Row) (x : Nat) (t : Bytes) (w : Nat) (st : Style)
    (hwf : rowWF R = true) (hw : 1 ≤ w) (hx : x + w ≤ R.length) :
    contAt (Row.put R x t w st) (x + w) = false :=
  (C03.Lemmas.wf_ch (C03.Row.put_wf R x t w st hwf hw hx)
    (C03.Row.put_head R x t w st (by omega))).2.2.2

/-- the same for `Row.putKeep` (cursor on a continuation cell): with `e` the first column after
    the kept character, the column `e + w` after the inserted character is not a continuation
    cell (whether the inserted character still fits in the row or not) -/
theorem contAt_putKeep_after (R : Row) (x : Nat) (t : Bytes) (w : Nat) (st : Style)
    (hwf : rowWF R = true) (hc : contAt R x = true) (hw : 1 ≤ w) :
    contAt (Row.putKeep R x t w st) (headOf R x + widthAt R (headOf R x) + w) = false := by
  by_cases hfit : headOf R x + widthAt R (headOf R x) + w ≤ R.length
  · have h0 := C03.Row.putKeep_text R x t w st hwf hc hw hfit 0 (by omega)
    rw [Nat.add_zero, if_pos rfl] at h0
    exact (C03.Lemmas.wf_ch (C03.Row.putKeep_wf R x t w st hwf hc hw) h0).2.2.2
  · exact C03.Lemmas.contAt_ge (by rw [C03.Row.putKeep_length R x t w st hwf hc hw]; omega)

/-! ## 2. screen level: one `Scr.put` under the span policy -/

/-- the cursor is on a character boundary of its row, or pinned on the last column with autowrap
    off (where the next limit `max (w - cx) 1` is 1) -/
def CleanS (s : Scr) : Prop :=
  contAt (s.row s.cy) s.cx = false ∨ (s.wrap = false ∧ s.cx = s.w - 1)

theorem clean_of_cx0 (S : Scr) (hinv : S.inv = true) (h : S.cx = 0) : CleanS S :=
  Or.inl (by rw [h]; exact C03.Lemmas.row_cont0 S hinv _)

theorem putAt_clean (s : Scr) (text : Bytes) (w : Nat) (hinv : s.inv = true) (hw : 1 ≤ w)
    (hfit : s.cx + w ≤ s.w) (hst : contAt (s.row s.cy) s.cx = false ∨ s.wrap = false)
    (hinv' : (C03.Lemmas.putAt .keep s text w).inv = true) :
    CleanS (C03.Lemmas.putAt .keep s text w) := by
  obtain ⟨a, b, c, d, e, f, g, h', i, j⟩ := (C03.Lemmas.inv_iff s).1 hinv
  obtain ⟨hl, hwf⟩ := d _ (C03.Lemmas.row_mem s s.cy (by omega))
  rw [C03.Lemmas.putAt_eq_finish] at hinv' ⊢
  unfold C03.Lemmas.finish at hinv' ⊢
  split
  · next hX =>
    have hX' : C03.Lemmas.putAtX .keep s w < s.w := hX
    left
    show contAt (Scr.row _ s.cy) (C03.Lemmas.putAtX .keep s w) = false
    rw [C03.Lemmas.row_set s _ s.cy (C03.Lemmas.putAtRow .keep s text w) rfl s.cy (by omega), if_pos rfl]
    cases hc : contAt (s.row s.cy) s.cx with
    | false =>
      have e1 : C03.Lemmas.putAtRow .keep s text w = Row.put (s.row s.cy) s.cx text w s.sty := by
        simp [C03.Lemmas.putAtRow, hc]
      have e2 : C03.Lemmas.putAtX .keep s w = s.cx + w := by
        simp [C03.Lemmas.putAtX, hc]
      rw [e1, e2]
      exact contAt_put_after _ _ _ _ _ hwf hw (by omega)
    | true =>
      obtain ⟨t, wd, s', hch, hwd1, hxe, hlen, hwd⟩ := C03.Lemmas.wf_head hwf (C03.Lemmas.contAt_lt hc)
      have hle := C03.Lemmas.headOf_le (s.row s.cy) s.cx
      have e1 : C03.Lemmas.putAtRow .keep s text w = Row.putKeep (s.row s.cy) s.cx text w s.sty := by
        simp [C03.Lemmas.putAtRow, hc]
      have e2 : C03.Lemmas.putAtX .keep s w =
          headOf (s.row s.cy) s.cx + widthAt (s.row s.cy) (headOf (s.row s.cy) s.cx) + w := by
        simp only [C03.Lemmas.putAtX, hc, Bool.true_and, beq_self_eq_true, if_true, hwd]
        omega
      rw [e1, e2]
      exact contAt_putKeep_after _ _ _ _ _ hwf hc hw
  · next hX =>
    have hX' : ¬ C03.Lemmas.putAtX .keep s w < s.w := hX
    split
    · next hwr =>
      -- autowrap on: the write was not on a continuation cell, the character ended exactly at
      -- the right edge, the cursor is in column 0 of the next row
      have hwr' : s.wrap = true := hwr
      rw [if_neg hX, if_pos hwr] at hinv'
      have hc : contAt (s.row s.cy) s.cx = false := by
        rcases hst with h | h
        · exact h
        · rw [hwr'] at h; cases h
      have e2 : C03.Lemmas.putAtX .keep s w = s.cx + w := by
        simp [C03.Lemmas.putAtX, hc]
      refine clean_of_cx0 _ hinv' ?_
      rw [(C03.Lemmas.lineDown_fields _).2.2.1]
      show C03.Lemmas.putAtX .keep s w - s.w = 0
      omega
    · next hwr =>
      right
      exact ⟨by simpa using hwr, rfl⟩

/-- **one character, cell level.** `Scr.put` under the span policy, from a cursor that is not on
    a continuation cell, or with autowrap off: afterwards the cursor is on a character boundary,
    or pinned on the last column with autowrap off. (With autowrap on and the character not
    fitting, the cursor first wraps to column 0 of the next row, never a continuation cell. With
    autowrap on and the cursor ON a continuation cell the conclusion fails: `put_keep_wrap_dirty`.) -/
theorem put_keep_clean (s : Scr) (text : Bytes) (w0 : Nat) (hinv : s.inv = true)
    (hst : contAt (s.row s.cy) s.cx = false ∨ s.wrap = false) :
    CleanS (Scr.put .keep s text w0) := by
  have hinv' := C03.put_keep_inv s text w0 hinv
  obtain ⟨a, b, c, d, e, f, g, h', i, j⟩ := (C03.Lemmas.inv_iff s).1 hinv
  have hle := C03.Lemmas.effW_le s w0 a
  have hpos := C03.Lemmas.effW_pos s w0
  by_cases hfit : s.cx + C03.effW s w0 ≤ s.w
  · rw [C03.Lemmas.put_eq_putAt_fit _ s text w0 hfit] at hinv' ⊢
    exact putAt_clean s _ _ hinv hpos hfit hst hinv'
  · by_cases hwrap : s.wrap = true
    · rw [C03.Lemmas.put_eq_putAt_wrap _ s text w0 (by omega) hwrap] at hinv' ⊢
      have h0 : ({ s with cx := 0 } : Scr).lineDown.inv = true :=
        C03.Lemmas.lineDown_inv _ ((C03.Lemmas.inv_iff _).2 ⟨a, b, c, d, a, f, g, h', i, j⟩)
      obtain ⟨f1, _, f3, _⟩ := C03.Lemmas.lineDown_fields ({ s with cx := 0 } : Scr)
      refine putAt_clean _ _ _ h0 hpos ?_ (Or.inl ?_) hinv'
      · rw [f1, f3]; show 0 + C03.effW s w0 ≤ s.w; omega
      · rw [f3]; exact C03.Lemmas.row_cont0 _ h0 _
    · have hwrap' : s.wrap = false := by simpa using hwrap
      rw [C03.Lemmas.put_eq_putAt_nowrap _ s text w0 (by omega) hwrap'] at hinv' ⊢
      have hi' : ({ s with cx := s.w - C03.effW s w0 } : Scr).inv = true :=
        (C03.Lemmas.inv_iff _).2 ⟨a, b, c, d, (by show s.w - C03.effW s w0 < s.w; omega), f, g, h', i, j⟩
      refine putAt_clean _ _ _ hi' hpos ?_ (Or.inr hwrap') hinv'
      show s.w - C03.effW s w0 + C03.effW s w0 ≤ s.w; omega

theorem cleanS_pre {s : Scr} (h : CleanS s) : contAt (s.row s.cy) s.cx = false ∨ s.wrap = false :=
  h.elim Or.inl (fun h => Or.inr h.1)

/-- a sequence of characters put one by one: the invariant and the cursor property survive -/
theorem fold_put_clean : ∀ (cs : List Cl) (s : Scr), s.inv = true →
    (cs ≠ [] → contAt (s.row s.cy) s.cx = false ∨ s.wrap = false) → (cs = [] → CleanS s) →
    (cs.foldl (fun sc c => sc.put .keep c.1 c.2) s).inv = true ∧
    CleanS (cs.foldl (fun sc c => sc.put .keep c.1 c.2) s) := by
  intro cs
  induction cs with
  | nil => intro s hi _ h; exact ⟨hi, h rfl⟩
  | cons c cs ih =>
    intro s hi h _
    have h1 := put_keep_clean s c.1 c.2 hi (h (by simp))
    rw [List.foldl_cons]
    exact ih _ (C03.put_keep_inv s c.1 c.2 hi) (fun _ => cleanS_pre h1) (fun _ => h1)

/-! ## 3. run level: one run of the feed, then the whole feed -/

/-- the run-level cursor is on a character boundary of its row, or pinned on the last column with
    autowrap off -/
def Clean (cw : Nat → Nat) (s : SScr) : Prop :=
  contAt (lineCells cw (s.line s.cy)) s.cx = false ∨ (s.wrap = false ∧ s.cx = s.w - 1)

theorem clean_abs {cw : Nat → Nat} {s : SScr} : CleanS (s.abs cw) ↔ Clean cw s := by
  unfold CleanS Clean
  rw [abs_row]
  exact Iff.rfl

/-- in a `Clean` state the run the reader hands over (within the limit `max (w - cx) 1`, or a
    single character) is a single character written with autowrap off, or starts on a character
    boundary: pinned on the last column the limit is 1, and every character is at least 1 wide -/
theorem clean_run {cw : Nat → Nat} {s : SScr} (hw : 1 ≤ s.w) (hcl : Clean cw s) {c1 : List Cl}
    (hpos : ∀ c ∈ c1, 1 ≤ c.2) (hne : c1 ≠ [])
    (hlim : ws c1 ≤ max (s.w - s.cx) 1 ∨ c1.length ≤ 1) :
    (c1.length = 1 ∧ s.wrap = false) ∨ contAt (lineCells cw (s.line s.cy)) s.cx = false := by
  rcases hcl with h | ⟨h1, h2⟩
  · exact Or.inr h
  · left
    have hl0 : 0 < c1.length := List.length_pos_iff.2 hne
    have := ws_ge_length hpos
    refine ⟨?_, h1⟩
    rcases hlim with h | h
    · omega
    · omega

/-- **one run.** A run that `feedText` hands over (valid characters, within the limit in force or
    a single character), written by `writeString` from a state where the cursor is not on a
    continuation cell — or the run is a single character and autowrap is off: afterwards the
    invariant holds and the cursor is not on a continuation cell of its row, or autowrap is off
    and the cursor is pinned on the last column. -/
theorem writeString_feed_clean {cw : Nat → Nat} (hb : cw 0x20 ≤ 1) (hr : cw 0xFFFD ≤ 1) {s : SScr}
    (hs : SScr.inv cw s = true) {c1 : List Cl} (hv : ∀ c ∈ c1, VCl cw c) (hne : c1 ≠ [])
    (hlim : ws c1 ≤ max (s.w - s.cx) 1 ∨ c1.length ≤ 1)
    (hc : (c1.length = 1 ∧ s.wrap = false) ∨ contAt (lineCells cw (s.line s.cy)) s.cx = false)
    (n : Nat) :
    SScr.inv cw (s.writeString cw (n + 1) (flat c1) (ws c1)) = true ∧
    Clean cw (s.writeString cw (n + 1) (flat c1) (ws c1)) := by
  obtain ⟨q1, q2⟩ := writeString_feedRun hb hr hs hv hne hlim
    (fun hl => by rcases hc with h | h; exact absurd h.1 hl; exact h) n
  refine ⟨q2, ?_⟩
  have hpre : contAt ((s.abs cw).row (s.abs cw).cy) (s.abs cw).cx = false ∨ (s.abs cw).wrap = false := by
    rcases hc with h | h
    · exact Or.inr h.2
    · left; rw [abs_row]; exact h
  have := (fold_put_clean c1 (s.abs cw) (abs_inv hs) (fun _ => hpre) (fun h => absurd h hne)).2
  rw [← q1] at this
  exact clean_abs.1 this

/-- after such a run the next run is again a single character with autowrap off, or starts on a
    character boundary (the hypothesis of `writeString_feed_clean` is reproduced) -/
theorem writeString_feed_next {cw : Nat → Nat} (hb : cw 0x20 ≤ 1) (hr : cw 0xFFFD ≤ 1) {s : SScr}
    (hs : SScr.inv cw s = true) {c1 : List Cl} (hv : ∀ c ∈ c1, VCl cw c) (hne : c1 ≠ [])
    (hlim : ws c1 ≤ max (s.w - s.cx) 1 ∨ c1.length ≤ 1)
    (hc : (c1.length = 1 ∧ s.wrap = false) ∨ contAt (lineCells cw (s.line s.cy)) s.cx = false)
    (n : Nat) {c2 : List Cl} (hv2 : ∀ c ∈ c2, VCl cw c) (hne2 : c2 ≠ []) :
    let s' := s.writeString cw (n + 1) (flat c1) (ws c1)
    (ws c2 ≤ max (s'.w - s'.cx) 1 ∨ c2.length ≤ 1) →
    (c2.length = 1 ∧ s'.wrap = false) ∨ contAt (lineCells cw (s'.line s'.cy)) s'.cx = false := by
  intro s' hlim2
  obtain ⟨q2, q3⟩ := writeString_feed_clean hb hr hs hv hne hlim hc n
  exact clean_run (geom_of_inv q2).w1 q3 (fun c hc => ((vcl_toks hv2).pos c hc).2) hne2 hlim2

/-- the general form of `cleanFeed_of_clean_start`: from any reader state in the middle of a feed
    and any `Clean` screen, whatever the fuel -/
theorem cleanFeed_of_clean {cw : Nat → Nat} (hb : cw 0x20 ≤ 1) (hr : cw 0xFFFD ≤ 1) :
    ∀ (fuel : Nat) (s : SScr) (r : Rdr) (rest : List Cl), SScr.inv cw s = true → Feeding cw r rest →
      Clean cw s → cleanFeed cw fuel s r = true := by
  intro fuel
  induction fuel with
  | zero => intro s r rest _ _ _; rfl
  | succ f ih =>
    intro s r rest hs hF hcl
    obtain ⟨c1, rest', hsplit, htext, hwidth, hF', hne, hlim⟩ := readPrintable_feed hF (max (s.w - s.cx) 1)
    rw [cleanFeed]
    simp only [htext, hwidth]
    by_cases hrest : rest = []
    · subst hrest
      have hc1 : c1 = [] := (List.append_eq_nil_iff.1 hsplit.symm).1
      subst hc1
      simp
    · have hne1 := hne hrest
      have hv1 : ∀ c ∈ c1, VCl cw c := fun c hc => hF.valid c (by rw [hsplit]; exact List.mem_append_left _ hc)
      have hemp := flat_isEmpty (vcl_toks hv1) hne1
      rw [hemp]
      simp only [Bool.false_or, Bool.and_eq_true, Bool.or_eq_true, decide_eq_true_eq,
        Bool.not_eq_true', clusters_flat (vcl_toks hv1)]
      have hrun := clean_run (geom_of_inv hs).w1 hcl (fun c hc => ((vcl_toks hv1).pos c hc).2) hne1
        (hlim (by omega))
      obtain ⟨q2, q3⟩ := writeString_feed_clean hb hr hs hv1 hne1 (hlim (by omega)) hrun (flat c1).length
      exact ⟨hrun.elim (fun h => Or.inl h.1) Or.inr, ih _ _ rest' q2 hF' q3⟩

/-- **`CleanFeed` holds automatically when the feed starts off a continuation cell** (or pinned
    on the last column with autowrap off): a stretch of valid printable text, cut by the reader
    and written run by run, never starts a run of several characters on the second cell of a wide
    character. Autowrap on, a wide character that does not fit: the cursor wraps to column 0 of
    the next row before the write, and column 0 is never a continuation cell (`put_keep_clean`). -/
theorem cleanFeed_of_clean_start {cw : Nat → Nat} (hb : cw 0x20 ≤ 1) (hr : cw 0xFFFD ≤ 1) {s : SScr}
    (hs : SScr.inv cw s = true) {cs : List Cl} (hv : ∀ c ∈ cs, VCl cw c)
    (hp : ∀ b ∈ flat cs, isPrintableByte b = true)
    (hc : contAt (lineCells cw (s.line s.cy)) s.cx = false ∨ (s.wrap = false ∧ s.cx = s.w - 1)) :
    CleanFeed cw s (flat cs) :=
  cleanFeed_of_clean hb hr _ s _ cs hs (feeding_init hv hp) hc

/-- **`feedText_refines` with the start hypothesis instead of `CleanFeed`**: valid printable text
    fed from a cursor that is not on a continuation cell shows what the cell-level screen shows
    after the characters have been put one by one, and the invariant holds afterwards -/
theorem feedText_refines_clean_start {cw : Nat → Nat} (hb : cw 0x20 ≤ 1) (hr : cw 0xFFFD ≤ 1) {s : SScr}
    (hs : SScr.inv cw s = true) {cs : List Cl} (hv : ∀ c ∈ cs, VCl cw c)
    (hp : ∀ b ∈ flat cs, isPrintableByte b = true)
    (hc : contAt (lineCells cw (s.line s.cy)) s.cx = false) :
    (s.feedText cw (flat cs)).abs cw = cs.foldl (fun sc c => sc.put .keep c.1 c.2) (s.abs cw) ∧
    SScr.inv cw (s.feedText cw (flat cs)) = true :=
  feedText_refines hb hr hs hv hp (cleanFeed_of_clean_start hb hr hs hv hp (Or.inl hc))

/-- the feed ends as it started: invariant and `Clean` cursor (so the next read of the same
    stretch of text starts clean again); from any reader state in the middle of a feed -/
theorem feedTextAux_clean {cw : Nat → Nat} (hb : cw 0x20 ≤ 1) (hr : cw 0xFFFD ≤ 1) :
    ∀ (fuel : Nat) (s : SScr) (r : Rdr) (rest : List Cl), SScr.inv cw s = true → Feeding cw r rest →
      Clean cw s →
      SScr.inv cw (SScr.feedTextAux cw fuel s r) = true ∧ Clean cw (SScr.feedTextAux cw fuel s r) := by
  intro fuel
  induction fuel with
  | zero => intro s r rest hs _ hcl; exact ⟨hs, hcl⟩
  | succ f ih =>
    intro s r rest hs hF hcl
    obtain ⟨c1, rest', hsplit, htext, hwidth, hF', hne, hlim⟩ := readPrintable_feed hF (max (s.w - s.cx) 1)
    rw [feedTextAux_succ]
    simp only [htext, hwidth]
    by_cases hrest : rest = []
    · subst hrest
      have hc1 : c1 = [] := (List.append_eq_nil_iff.1 hsplit.symm).1
      subst hc1
      simp only [flat_nil, List.isEmpty_nil, if_true]
      exact ⟨hs, hcl⟩
    · have hne1 := hne hrest
      have hv1 : ∀ c ∈ c1, VCl cw c := fun c hc => hF.valid c (by rw [hsplit]; exact List.mem_append_left _ hc)
      rw [flat_isEmpty (vcl_toks hv1) hne1]
      simp only [Bool.false_eq_true, if_false]
      have hrun := clean_run (geom_of_inv hs).w1 hcl (fun c hc => ((vcl_toks hv1).pos c hc).2) hne1
        (hlim (by omega))
      obtain ⟨q2, q3⟩ := writeString_feed_clean hb hr hs hv1 hne1 (hlim (by omega)) hrun (flat c1).length
      exact ih _ _ rest' q2 hF' q3

/-- after the feed the cursor is again on a character boundary, or pinned on the last column
    with autowrap off: consecutive reads of valid printable text chain -/
theorem feedText_clean_end {cw : Nat → Nat} (hb : cw 0x20 ≤ 1) (hr : cw 0xFFFD ≤ 1) {s : SScr}
    (hs : SScr.inv cw s = true) {cs : List Cl} (hv : ∀ c ∈ cs, VCl cw c)
    (hp : ∀ b ∈ flat cs, isPrintableByte b = true)
    (hc : contAt (lineCells cw (s.line s.cy)) s.cx = false ∨ (s.wrap = false ∧ s.cx = s.w - 1)) :
    contAt (lineCells cw ((s.feedText cw (flat cs)).line (s.feedText cw (flat cs)).cy))
        (s.feedText cw (flat cs)).cx = false ∨
      ((s.feedText cw (flat cs)).wrap = false ∧ (s.feedText cw (flat cs)).cx = (s.feedText cw (flat cs)).w - 1) :=
  (feedTextAux_clean hb hr _ s _ cs hs (feeding_init hv hp) hc).2

/-- the other start hypothesis, "the first run is a single character", is enough with autowrap
    OFF (the cursor may then stand on a continuation cell); from any reader state in the middle
    of a feed. With autowrap on it is not: `single_first_run_not_enough`. -/
theorem cleanFeed_of_first_single_nowrap {cw : Nat → Nat} (hb : cw 0x20 ≤ 1) (hr : cw 0xFFFD ≤ 1)
    (fuel : Nat) (s : SScr) (r : Rdr) (rest : List Cl) (hs : SScr.inv cw s = true)
    (hF : Feeding cw r rest) (hwrap : s.wrap = false)
    (h1 : (clusters cw (r.readPrintable cw (max (s.w - s.cx) 1)).2.text).length = 1) :
    cleanFeed cw fuel s r = true := by
  cases fuel with
  | zero => rfl
  | succ f =>
    obtain ⟨c1, rest', hsplit, htext, hwidth, hF', hne, hlim⟩ := readPrintable_feed hF (max (s.w - s.cx) 1)
    have hv1 : ∀ c ∈ c1, VCl cw c := fun c hc => hF.valid c (by rw [hsplit]; exact List.mem_append_left _ hc)
    rw [htext, clusters_flat (vcl_toks hv1)] at h1
    have hne1 : c1 ≠ [] := by intro h; rw [h] at h1; cases h1
    rw [cleanFeed]
    simp only [htext, hwidth]
    rw [flat_isEmpty (vcl_toks hv1) hne1]
    simp only [Bool.false_or, Bool.and_eq_true, Bool.or_eq_true, decide_eq_true_eq,
      Bool.not_eq_true', clusters_flat (vcl_toks hv1)]
    obtain ⟨q2, q3⟩ := writeString_feed_clean hb hr hs hv1 hne1 (hlim (by omega)) (Or.inl ⟨h1, hwrap⟩)
      (flat c1).length
    exact ⟨Or.inl h1, cleanFeed_of_clean hb hr f _ _ rest' q2 hF' q3⟩

/-! ## 4. non-vacuity, and what cannot be had -/

section Examples

private abbrev d : Style := Style.default

-- `contAt_put_after` / `contAt_putKeep_after` on the row `字字␣字字` of `Props/C03.lean`: `X` (3 wide)
-- over columns 1-3 ends exactly where the second wide character has its second cell
example : rowWF C03.exRow = true ∧ 1 + 3 ≤ C03.exRow.length ∧ contAt C03.exRow (1 + 3) = true ∧
    contAt (Row.put C03.exRow 1 [0x58] 3 d) (1 + 3) = false := by decide
example : contAt C03.exRow 1 = true ∧
    headOf C03.exRow 1 + widthAt C03.exRow (headOf C03.exRow 1) + 2 = 4 ∧ contAt C03.exRow 4 = true ∧
    contAt (Row.putKeep C03.exRow 1 [0x58] 2 d) 4 = false := by decide

/-- autowrap off, `中` in columns 3-4, the cursor on column 4 (its second cell): `a` is inserted
    after `中` in column 5 and the cursor is pinned there -/
def exPin : SScr := (((SScr.init 6 2).setCursor 3 0).put cwS zhong 2).setCursor 4 0

set_option maxRecDepth 100000 in
example : SScr.inv cwS exPin = true ∧ exPin.wrap = false ∧
    contAt (lineCells cwS (exPin.line exPin.cy)) exPin.cx = true ∧
    (exPin.writeString cwS 2 [0x61] 1).cx = 5 ∧ (exPin.writeString cwS 2 [0x61] 1).wrap = false := by
  decide

-- hypotheses of `cleanFeed_of_clean_start` / `feedText_refines_clean_start` on `exW` (autowrap on,
-- cursor at column 4 of 6) with `ab中c` (`exCs_valid`: the characters are valid), and the conclusions
set_option maxRecDepth 100000 in
example : SScr.inv cwS exW = true ∧ (∀ b ∈ flat exCs, isPrintableByte b = true) ∧
    contAt (lineCells cwS (exW.line exW.cy)) exW.cx = false := by decide
set_option maxRecDepth 100000 in
example : CleanFeed cwS exW (flat exCs) := by unfold CleanFeed; decide
-- the pinned start: autowrap off, cursor on the last column, on the second cell of `中` in 4-5
set_option maxRecDepth 100000 in
example :
    let s := (((SScr.init 6 2).setCursor 4 0).put cwS zhong 2)
    SScr.inv cwS s = true ∧ contAt (lineCells cwS (s.line s.cy)) s.cx = true ∧
    s.wrap = false ∧ s.cx = s.w - 1 ∧ CleanFeed cwS s (flat exCs) := by
  unfold CleanFeed; decide

/-- autowrap ON, `中` in columns 4-5 of row 0 and in columns 0-1 of row 1 of a 6×2 screen, the
    cursor on column 5 of row 0 (the second cell of the first `中`) -/
def exDirty : SScr :=
  { ((((SScr.init 6 2).setCursor 4 0).put cwS zhong 2).setCursor 0 1).put cwS zhong 2 with
    cx := 5, cy := 0, wrap := true }

/-- `put_keep_clean` needs "not on a continuation cell, or autowrap off": on `exDirty` the
    character `a` is inserted after the kept `中` — beyond the right edge, it is lost — and the
    cursor wraps by the shifted amount to column 1 of row 1: the second cell of the other `中`. -/
theorem put_keep_wrap_dirty :
    (exDirty.abs cwS).inv = true ∧
    ((exDirty.abs cwS).put .keep [0x61] 1).cx = 1 ∧ ((exDirty.abs cwS).put .keep [0x61] 1).cy = 1 ∧
    ((exDirty.abs cwS).put .keep [0x61] 1).wrap = true ∧
    contAt (((exDirty.abs cwS).put .keep [0x61] 1).row 1) 1 = true := by
  set_option maxRecDepth 100000 in decide

/-- **"the first run is a single character" is not enough when autowrap is on.** On `exDirty`
    with the text `abcdef` the reader hands over `a` (limit 1), then `bcdef` (limit 5) — a run of
    five characters starting on the second cell of the `中` of row 1: `CleanFeed` fails, and so does
    the equation of `feedText_refines`: the span is inserted after `中` and cut back (`f` is lost),
    while put one by one `e` fills the last column, the cursor wraps and `f` lands on a fresh row. -/
theorem single_first_run_not_enough :
    let t : List Cl := [([0x61], 1), ([0x62], 1), ([0x63], 1), ([0x64], 1), ([0x65], 1), ([0x66], 1)]
    SScr.inv cwS exDirty = true ∧ exDirty.wrap = true ∧
    contAt (lineCells cwS (exDirty.line exDirty.cy)) exDirty.cx = true ∧
    feedRuns cwS ((flat t).length + 1) exDirty (Rdr.init [(flat t, false)]) =
      [([0x61], 1, 1), ([0x62, 0x63, 0x64, 0x65, 0x66], 5, 5)] ∧
    ¬ CleanFeed cwS exDirty (flat t) ∧
    (exDirty.feedText cwS (flat t)).abs cwS ≠ t.foldl (fun sc c => sc.put .keep c.1 c.2) (exDirty.abs cwS) := by
  unfold CleanFeed
  set_option maxRecDepth 100000 in decide

end Examples

#print axioms TM.C03SpanClean.contAt_put_after
#print axioms TM.C03SpanClean.contAt_putKeep_after
#print axioms TM.C03SpanClean.put_keep_clean
#print axioms TM.C03SpanClean.fold_put_clean
#print axioms TM.C03SpanClean.clean_run
#print axioms TM.C03SpanClean.writeString_feed_clean
#print axioms TM.C03SpanClean.writeString_feed_next
#print axioms TM.C03SpanClean.cleanFeed_of_clean
#print axioms TM.C03SpanClean.cleanFeed_of_clean_start
#print axioms TM.C03SpanClean.feedText_refines_clean_start
#print axioms TM.C03SpanClean.feedText_clean_end
#print axioms TM.C03SpanClean.cleanFeed_of_first_single_nowrap
#print axioms TM.C03SpanClean.put_keep_wrap_dirty
#print axioms TM.C03SpanClean.single_first_run_not_enough

end TM.C03SpanClean
