import TM.SpanScreen
import Props.C02SpanScreen
/-!
# C03SpanWrite — `moveCursor` and the general path of `writeString` of the span buffer

`TM/SpanScreen.lean` (last third) transcribes the Go-shaped `moveCursor(dx,dy,wrap,scroll)` and
`writeString(text,width)` (runs of several characters written as ONE span, `splitRunToFit` pieces).
The theorems tie them to the single-character `SScr.put` / the cell-level `Scr.put` (span policy):

* W1 `moveCursor_cr` (`moveCursor(-cx,1,false,true)` = carriage return + `lineDown`),
  `moveCursor_adv` (`moveCursor(k,0,true,true)` with at most one wrap = the tail of `put`),
  `moveCursor_zero` (`k = 0`: the state is unchanged).
* W2 `writeString_char` (one character token, valid UTF-8: `writeString = put`, any fuel ≥ 1),
  `writeString_char_refines` (hence the refinement to `Scr.put .keep` and the invariant).
  `replaceInvalidUTF8 text = text` is kept as a hypothesis (not derived from the token hypothesis).
* W3 `writeString_run` (full statement: a run of complete characters of any widths that fits and
  starts on a character boundary, written as one span, shows the cell-level screen after the
  characters have been put one by one, cursor included; the invariant holds), with the row lemmas
  `row_snoc` (`Row.put` after the earlier `Row.put`s) and `writeRun_row` (the one-span splice).
* W4 `splitRunToFit_spec` / `fitCount_spec` (the pieces of a run of complete characters: the first
  character and then as many as fit; head and rest concatenate to the run, widths are the sums,
  the head fits or is a single character, and is maximal), `writeString_pieces` (a cut run = the
  head, then the rest), `writeString_whole` (a run that `splitRunToFit` does not cut).
  NOT done: `feedText` (conservation of the runs, limit, the autowrap-off equation).
-/
namespace TM.C03SpanWrite
open TM TM.C02Span TM.C02SpanScreen

/-! ## W1 — `moveCursor` -/

/-- the geometry part of `SScr.inv` (what `moveCursor` depends on) -/
structure Geom (s : SScr) : Prop where
  w1 : 1 ≤ s.w
  cx : s.cx < s.w
  cy : s.cy < s.h
  tb : s.top ≤ s.bot
  bh : s.bot < s.h

theorem geom_of_inv {cw : Nat → Nat} {s : SScr} (hs : SScr.inv cw s = true) : Geom s := by
  obtain ⟨h1, _, _, _, h5, h6, _, _, h9, h10⟩ := inv_iff.1 hs
  exact ⟨h1, h5, h6, h9, h10⟩

theorem geom_setLine {s : SScr} (g : Geom s) (y : Nat) (l : SLine) : Geom (s.setLine y l) :=
  ⟨g.w1, g.cx, g.cy, g.tb, g.bh⟩

theorem scroll_cx (s : SScr) (x : Nat) (y1 y2 : Nat) (d : Int) :
    ({ s with cx := x } : SScr).scroll y1 y2 d = { s.scroll y1 y2 d with cx := x } := by
  unfold SScr.scroll
  split <;> rfl

theorem clampNat_cast {a hi : Nat} (h : a ≤ hi) : clampNat (a : Int) hi = a := by
  unfold clampNat; omega

theorem with_cy (S : SScr) (x c : Nat) (h : c = S.cy) :
    ({ S with cx := x, cy := c } : SScr) = { S with cx := x } := by subst h; rfl

/-- the second half of `moveCursor`: the region scrolls when the target row `y` lies beyond its
    edge (`sc`: scrolling allowed and the cursor inside the region), the cursor is set and clamped -/
def vfin (s : SScr) (sc : Bool) (y : Int) (x : Nat) : SScr :=
  let (s, y) : SScr × Int :=
    if sc then
      let (s, y) := if y < (s.top : Int) then (s.scroll s.top s.bot ((s.top : Int) - y), (s.top : Int)) else (s, y)
      if y > (s.bot : Int) then (s.scroll s.top s.bot ((s.bot : Int) - y), (s.bot : Int)) else (s, y)
    else (s, y)
  { s with cx := x, cy := clampNat y (s.h - 1) }

theorem moveCursor_vfin (s : SScr) (dx dy : Int) (wrap scroll : Bool) :
    s.moveCursor dx dy wrap scroll =
      vfin s (scroll && decide (s.top ≤ s.cy) && decide (s.cy ≤ s.bot))
        ((if wrap && s.wrap then (((s.cx : Int) + dx) % (s.w : Int), (s.cy : Int) + ((s.cx : Int) + dx) / (s.w : Int))
          else (max 0 (min ((s.cx : Int) + dx) ((s.w : Int) - 1)), (s.cy : Int))).2 + dy)
        (if wrap && s.wrap then (((s.cx : Int) + dx) % (s.w : Int), (s.cy : Int) + ((s.cx : Int) + dx) / (s.w : Int))
          else (max 0 (min ((s.cx : Int) + dx) ((s.w : Int) - 1)), (s.cy : Int))).1.toNat := by
  unfold SScr.moveCursor vfin
  split <;> rfl

/-- the target row is the cursor row: only the column changes -/
theorem vfin_same {s : SScr} (g : Geom s) (sc : Bool) (x : Nat)
    (hsc : sc = true → s.top ≤ s.cy ∧ s.cy ≤ s.bot) : vfin s sc (s.cy : Int) x = { s with cx := x } := by
  obtain ⟨h1, h5, h6, h9, h10⟩ := g
  unfold vfin
  cases sc
  · simp only [Bool.false_eq_true, if_false]
    exact with_cy s x _ (clampNat_cast (by omega))
  · have := hsc rfl
    have e2 : ¬ ((s.cy : Int) < (s.top : Int)) := by omega
    have e3 : ¬ ((s.cy : Int) > (s.bot : Int)) := by omega
    simp only [if_true, e2, e3, if_false]
    exact with_cy s x _ (clampNat_cast (by omega))

/-- the target row is the row below: `lineDown` -/
theorem vfin_down {s : SScr} (g : Geom s) (x : Nat) :
    vfin s (decide (s.top ≤ s.cy) && decide (s.cy ≤ s.bot)) ((s.cy : Int) + 1) x =
      ({ s with cx := x } : SScr).lineDown := by
  obtain ⟨h1, h5, h6, h9, h10⟩ := g
  unfold vfin SScr.lineDown
  by_cases hb : s.cy = s.bot
  · have e1 : (decide (s.top ≤ s.cy) && decide (s.cy ≤ s.bot)) = true := by simp; omega
    have e2 : ¬ ((s.cy : Int) + 1 < (s.top : Int)) := by omega
    have e3 : ((s.cy : Int) + 1 > (s.bot : Int)) := by omega
    have e4 : (s.bot : Int) - ((s.cy : Int) + 1) = -1 := by omega
    simp only [e1, e2, e3, e4, if_true, if_false]
    rw [if_pos hb, scroll_cx s x]
    have hg := scroll_geom s s.top s.bot (-1)
    refine with_cy _ x _ ?_
    rw [clampNat_cast (by rw [hg.2.1]; omega), hg.2.2.2.1, hb]
  · simp only [hb, if_false]
    by_cases hsc : (decide (s.top ≤ s.cy) && decide (s.cy ≤ s.bot)) = true
    · have e2 : ¬ ((s.cy : Int) + 1 < (s.top : Int)) := by simp at hsc; omega
      have e3 : ¬ ((s.cy : Int) + 1 > (s.bot : Int)) := by simp at hsc; omega
      have e4 : s.cy + 1 < s.h := by simp at hsc; omega
      simp only [hsc, e2, e3, e4, if_true, if_false]
      rw [show ((s.cy : Int) + 1) = ((s.cy + 1 : Nat) : Int) by omega, clampNat_cast (by omega)]
    · simp only [hsc, Bool.false_eq_true, if_false]
      by_cases e4 : s.cy + 1 < s.h
      · simp only [e4, if_true]
        rw [show ((s.cy : Int) + 1) = ((s.cy + 1 : Nat) : Int) by omega, clampNat_cast (by omega)]
      · simp only [e4, if_false]
        exact with_cy s x _ (by unfold clampNat; omega)

theorem sc_imp (s : SScr) :
    (decide (s.top ≤ s.cy) && decide (s.cy ≤ s.bot)) = true → s.top ≤ s.cy ∧ s.cy ≤ s.bot := by simp

theorem moveCursor_cr_geom {s : SScr} (g : Geom s) :
    s.moveCursor (-(s.cx : Int)) 1 false true = ({ s with cx := 0 } : SScr).lineDown := by
  rw [moveCursor_vfin]
  simp only [Bool.false_and, Bool.false_eq_true, if_false, Bool.true_and]
  have e : (max 0 (min ((s.cx : Int) + -(s.cx : Int)) ((s.w : Int) - 1))).toNat = 0 := by
    have := g.w1; omega
  rw [e]
  exact vfin_down g 0

/-- the tail of `SScr.put`: the cursor goes to column `x` (wrap or pin at the right edge) -/
theorem moveCursor_adv_geom {s : SScr} (g : Geom s) (k : Nat) (hk : s.cx + k < 2 * s.w) :
    s.moveCursor (k : Int) 0 true true = postS s (s.cx + k) := by
  obtain ⟨h1, h5, h6, h9, h10⟩ := g
  rw [moveCursor_vfin]
  simp only [Bool.true_and, Int.add_zero]
  unfold postS
  by_cases hc : s.cx + k < s.w
  · simp only [hc, if_true]
    have e1 : ((s.cx : Int) + (k : Int)) % (s.w : Int) = ((s.cx + k : Nat) : Int) := by
      rw [Int.emod_eq_of_lt (by omega) (by omega)]; omega
    have e2 : ((s.cx : Int) + (k : Int)) / (s.w : Int) = 0 := Int.ediv_eq_zero_of_lt (by omega) (by omega)
    have e3 : max 0 (min ((s.cx : Int) + (k : Int)) ((s.w : Int) - 1)) = ((s.cx + k : Nat) : Int) := by omega
    have : (if s.wrap = true then (((s.cx : Int) + (k : Int)) % (s.w : Int), (s.cy : Int) + ((s.cx : Int) + (k : Int)) / (s.w : Int))
        else (max 0 (min ((s.cx : Int) + (k : Int)) ((s.w : Int) - 1)), (s.cy : Int))) = (((s.cx + k : Nat) : Int), (s.cy : Int)) := by
      rw [e1, e2, e3]; split <;> simp
    rw [this]
    exact vfin_same ⟨h1, h5, h6, h9, h10⟩ _ _ (sc_imp s)
  · rw [if_neg hc]
    by_cases hw : s.wrap = true
    · rw [if_pos hw, if_pos hw]
      have e0 : (s.cx : Int) + (k : Int) = ((s.cx + k - s.w : Nat) : Int) + (s.w : Int) := by omega
      have e1 : ((s.cx : Int) + (k : Int)) % (s.w : Int) = ((s.cx + k - s.w : Nat) : Int) := by
        rw [e0, Int.add_emod_right, Int.emod_eq_of_lt (by omega) (by omega)]
      have e2 : ((s.cx : Int) + (k : Int)) / (s.w : Int) = 1 := by
        have := Int.add_mul_ediv_right ((s.cx + k - s.w : Nat) : Int) 1 (c := (s.w : Int)) (by omega)
        rw [Int.one_mul] at this
        rw [e0, this, Int.ediv_eq_zero_of_lt (by omega) (by omega)]; rfl
      simp only [e1, e2, Int.toNat_natCast]
      exact vfin_down ⟨h1, h5, h6, h9, h10⟩ _
    · rw [if_neg hw, if_neg hw]
      have e3 : (max 0 (min ((s.cx : Int) + (k : Int)) ((s.w : Int) - 1))).toNat = s.w - 1 := by omega
      simp only [e3]
      exact vfin_same ⟨h1, h5, h6, h9, h10⟩ _ _ (sc_imp s)

/-- **W1(a)** `moveCursor(-cx, 1, false, true)` — what `writeString` does at the right edge with
    autowrap on — is a carriage return followed by `lineDown` (the step of `SScr.put`) -/
theorem moveCursor_cr {cw : Nat → Nat} {s : SScr} (hs : SScr.inv cw s = true) :
    s.moveCursor (-(s.cx : Int)) 1 false true = ({ s with cx := 0 } : SScr).lineDown :=
  moveCursor_cr_geom (geom_of_inv hs)

/-- **W1(b)** `moveCursor(k, 0, true, true)` for a move of at most one wrap is the tail of `SScr.put` -/
theorem moveCursor_adv {cw : Nat → Nat} {s : SScr} (hs : SScr.inv cw s = true) (k : Nat)
    (hk : s.cx + k < 2 * s.w) :
    s.moveCursor (k : Int) 0 true true =
      if s.cx + k < s.w then { s with cx := s.cx + k }
      else if s.wrap then ({ s with cx := s.cx + k - s.w } : SScr).lineDown
      else { s with cx := s.w - 1 } :=
  moveCursor_adv_geom (geom_of_inv hs) k hk

/-- **W1(b), `k = 0`**: nothing moves -/
theorem moveCursor_zero {cw : Nat → Nat} {s : SScr} (hs : SScr.inv cw s = true) :
    s.moveCursor 0 0 true true = s := by
  have g := geom_of_inv hs
  have := moveCursor_adv hs 0 (by have := g.cx; omega)
  simp only [Nat.add_zero, g.cx, if_true] at this
  exact this

/-! ## W2 — one character: `writeString` is `put` -/

/-- the branch of `writeString` that writes the run as one span -/
def wsNone (cw : Nat → Nat) (s : SScr) (text : Bytes) (width : Nat) : SScr :=
  let tooWide := decide (width > s.w)
  let text := if tooWide then replacementChar else text
  let width := if tooWide then 1 else width
  let s := if s.cx + width > s.w then
             (if s.wrap then s.moveCursor (-(s.cx : Int)) 1 false true else { s with cx := s.w - width })
           else s
  let res := writeSpanLine cw s.w s.sty (s.line s.cy) s.cx ⟨s.sty, text, 0, width⟩ true
  let s := s.setLine s.cy res.1
  s.moveCursor ((width + res.2.1 : Nat) : Int) 0 true true

theorem writeString_succ (cw : Nat → Nat) (fuel : Nat) (s : SScr) (text0 : Bytes) (width0 : Nat) :
    s.writeString cw (fuel + 1) text0 width0 =
      if text0.isEmpty then s else
      match (if s.cx + max width0 1 > s.w ∧ max width0 1 > 1
             then splitRunToFit cw (replaceInvalidUTF8 text0) (s.w - s.cx) else none) with
      | some (hd, hw, rs, rw) => SScr.writeString cw fuel (SScr.writeString cw fuel s hd hw) rs rw
      | none => wsNone cw s (replaceInvalidUTF8 text0) (max width0 1) := rfl

/-- the step before the write (wrap or pin at the right edge) is the one of `put` -/
theorem pre_eq {s : SScr} (g : Geom s) (w : Nat) :
    (if s.cx + w > s.w then
       (if s.wrap then s.moveCursor (-(s.cx : Int)) 1 false true else { s with cx := s.w - w })
     else s) = preS s w := by
  unfold preS
  rw [moveCursor_cr_geom g]

theorem wsNone_tooWide (cw : Nat → Nat) {s : SScr} (h1 : 1 ≤ s.w) (text : Bytes) {width : Nat}
    (h : width > s.w) : wsNone cw s text width = wsNone cw s replacementChar 1 := by
  have h' : ¬ (1 > s.w) := by omega
  unfold wsNone
  simp only [h, h', decide_true, decide_false, if_true, Bool.false_eq_true, if_false]

/-- a run that is not wider than the screen, written as one span: the shape of `SScr.put`
    (`preS`, `writeSpanLine`, `postS`), provided the column after the write is below `2 * w` -/
theorem wsNone_core {cw : Nat → Nat} {s : SScr} (g : Geom s) (text : Bytes) {w : Nat} (hws : w ≤ s.w)
    (g1 : Geom (preS s w))
    (hx : (preS s w).cx + w + (writeSpanLine cw (preS s w).w (preS s w).sty ((preS s w).line (preS s w).cy)
        (preS s w).cx ⟨(preS s w).sty, text, 0, w⟩ true).2.1 < 2 * (preS s w).w) :
    wsNone cw s text w = coreS cw (preS s w) text w := by
  have h' : ¬ (w > s.w) := by omega
  unfold wsNone coreS
  simp only [h', decide_false, Bool.false_eq_true, if_false, pre_eq g]
  rw [moveCursor_adv_geom (geom_setLine g1 _ _) _ (by
    show (preS s w).cx + _ < 2 * (preS s w).w
    omega)]
  show postS _ ((preS s w).cx + _) = _
  rw [Nat.add_assoc]

/-- the bound of `wsNone_core` for one character (as in `core_refines`) -/
theorem shift_bound {cw : Nat → Nat} (hb : cw 0x20 ≤ 1) {s : SScr} (hs : SScr.inv cw s = true)
    {text : Bytes} {w : Nat} (hcl : clusters cw text = [(text, w)]) (hxw : s.cx + w ≤ s.w) :
    s.cx + w + (writeSpanLine cw s.w s.sty (s.line s.cy) s.cx ⟨s.sty, text, 0, w⟩ true).2.1 < 2 * s.w := by
  obtain ⟨h1, h2, h3, h4, h5, h6, _⟩ := inv_iff.1 hs
  have hl := h4 _ (line_mem (s := s) (y := s.cy) (by omega))
  obtain ⟨hwf, hsum, _⟩ := lineWF_iff.1 hl
  have hsp := spanWF_of_token hcl s.sty
  obtain ⟨k1, k2, k3⟩ := writeChar_refines hl hb s.sty hsp hcl hxw
  rw [k3]
  by_cases hc : contAt (lineCells cw (s.line s.cy)) s.cx = true
  · obtain ⟨e1, e2, e3⟩ := endOf_bounds_line hwf (x := s.cx) (by omega) hc
    rw [if_pos hc]; omega
  · rw [if_neg hc]; omega

theorem wsNone_token {cw : Nat → Nat} (hb : cw 0x20 ≤ 1) {s : SScr} (hs : SScr.inv cw s = true)
    {text : Bytes} {w : Nat} (hcl : clusters cw text = [(text, w)]) (hws : w ≤ s.w) :
    wsNone cw s text w = coreS cw (preS s w) text w := by
  have hw1 : 1 ≤ w := spanWF_pos (spanWF_of_token hcl s.sty)
  obtain ⟨_, q2, q3⟩ := pre_refines hb hs hw1 hws
  exact wsNone_core (geom_of_inv hs) text hws (geom_of_inv q2) (shift_bound hb q2 hcl q3)

/-- a single character is not cut by `splitRunToFit` -/
theorem splitRunToFit_single {cw : Nat → Nat} {text : Bytes} {w : Nat}
    (hcl : clusters cw text = [(text, w)]) (limit : Nat) : splitRunToFit cw text limit = none := by
  have hsp := spanWF_of_token hcl (default : Style)
  have hne : text.isEmpty = false := by
    cases text with
    | nil => simp [clusters, clustersAux] at hcl
    | cons _ _ => rfl
  have hst : stepRune cw text = some (text.length, w) := by
    have := (spanWF_text hsp hne).1
    simp only [hcl] at this
    exact this.head
  have hpos := (stepRune_some hst).1
  obtain ⟨f, hf⟩ : ∃ f, text.length = f + 1 := ⟨text.length - 1, by omega⟩
  unfold splitRunToFit
  rw [hf]
  unfold splitRunAux
  simp only [hst, List.drop_length, decide_true, Bool.true_and, Bool.true_or, if_true, Nat.zero_add]
  cases f with
  | zero => simp [splitRunAux, hf]
  | succ f => simp [splitRunAux, stepRune_nil, hf]

theorem token_nonempty {cw : Nat → Nat} {text : Bytes} {w : Nat}
    (hcl : clusters cw text = [(text, w)]) : text.isEmpty = false := by
  cases text with
  | nil => simp [clusters, clustersAux] at hcl
  | cons _ _ => rfl

/-- **W2** one character token (the hypothesis of `put_refines`), valid UTF-8: the Go-shaped
    `writeString` is the single-character `SScr.put`, whatever the fuel -/
theorem writeString_char {cw : Nat → Nat} (hb : cw 0x20 ≤ 1) (hr : cw 0xFFFD ≤ 1) {s : SScr}
    (hs : SScr.inv cw s = true) {text : Bytes} {w0 : Nat}
    (htok : clusters cw text = [(text, max w0 1)]) (hval : replaceInvalidUTF8 text = text) (n : Nat) :
    s.writeString cw (n + 1) text w0 = s.put cw text w0 := by
  have h1 := (geom_of_inv hs).w1
  rw [writeString_succ, hval]
  simp only [token_nonempty htok, Bool.false_eq_true, if_false]
  have hsplit : (if s.cx + max w0 1 > s.w ∧ max w0 1 > 1 then splitRunToFit cw text (s.w - s.cx) else none)
      = none := by
    split
    · exact splitRunToFit_single htok _
    · rfl
  rw [hsplit]
  show wsNone cw s text (max w0 1) = _
  rw [put_eqS]
  by_cases htw : max w0 1 > s.w
  · rw [wsNone_tooWide cw h1 text htw]
    simp only [htw, if_true]
    exact wsNone_token hb hs (clusters_replacementChar hr) h1
  · simp only [htw, if_false]
    exact wsNone_token hb hs htok (by omega)

/-- **W2** hence `writeString` of one character refines the cell-level `Scr.put` (span policy)
    and keeps the invariant -/
theorem writeString_char_refines {cw : Nat → Nat} (hb : cw 0x20 ≤ 1) (hr : cw 0xFFFD ≤ 1) {s : SScr}
    (hs : SScr.inv cw s = true) {text : Bytes} {w0 : Nat}
    (htok : clusters cw text = [(text, max w0 1)]) (hval : replaceInvalidUTF8 text = text) (n : Nat) :
    (s.writeString cw (n + 1) text w0).abs cw = (s.abs cw).put .keep text w0 ∧
    SScr.inv cw (s.writeString cw (n + 1) text w0) = true := by
  rw [writeString_char hb hr hs htok hval n]
  exact put_refines hb hr hs htok

/-! ## W3 — a run of several characters written as one span -/

/-- a row with the cells `[x, x+n)` replaced by `cells`, the wide characters cut by either end
    blanked (what the splice `replaceRangeWide` shows, and what `Row.put` does for one character) -/
def rowIns (R : Row) (x : Nat) (cells : Row) (n : Nat) (st : Style) : Row :=
  takeB R x st ++ cells ++ dropB R (x + n) st

theorem put_row {L : List K} (hL : PosK L) {x w : Nat} (hw : 1 ≤ w) (hxw : x + w ≤ wk L)
    (b : Bytes) (st : Style) :
    Row.put (cellsK L) x b w st = rowIns (cellsK L) x (charCells b w st) w st := by
  obtain ⟨s1, s2⟩ := straddle hL (Nat.le_add_right x w) hxw st
  unfold Row.put rowIns
  rw [setRange_eq _ _ _ (by
    rw [length_blankStraddlers, length_charCells _ _ hw, length_cellsK hL]; omega),
    length_charCells _ _ hw, s1, s2]

/-- what lies right of a column does not depend on what lies left of the characters before it -/
theorem dropB_prefix {X Y Rest : List K} (hX : PosK (X ++ Rest)) (hY : PosK (Y ++ Rest)) {c : Nat}
    (hc : c ≤ wk Rest) (st : Style) :
    dropB (cellsK (X ++ Rest)) (wk X + c) st = dropB (cellsK (Y ++ Rest)) (wk Y + c) st := by
  rw [← (blk_take_drop hX (a := wk X + c) (by simp; omega) st).2]
  exact (blk_suffix hX hY hc st).1

/-- the cells right of column `b` (cut character blanked) form a row again, and cutting that row
    at `w` is cutting the original row at `b + w` -/
theorem dropB_dropB {L : List K} (hL : PosK L) {b w : Nat} (hbw : b + w ≤ wk L) (st : Style) :
    ∃ D, PosK D ∧ cellsK D = dropB (cellsK L) b st ∧ wk D = wk L - b ∧
      dropB (cellsK D) w st = dropB (cellsK L) (b + w) st := by
  rcases locate L hL b (by omega) with ⟨A, Q, rfl, hA⟩ | ⟨A, k, Q, rfl, hA1, hA2⟩
  · obtain ⟨_, _, _, _, b5⟩ := at_boundary hL st
    rw [hA] at b5
    refine ⟨Q, hL.right, b5.symm, by simp; omega, ?_⟩
    have hw : w ≤ wk Q := by simp at hbw; omega
    have := dropB_prefix (X := []) (Y := A) (Rest := Q) (by simpa using hL.right) hL hw st
    simpa [hA] using this
  · obtain ⟨_, _, _, _, b5, _⟩ := at_inside hL hA1 hA2 st
    have hk : 1 ≤ k.1.2 := hL.right.head
    have hQ : PosK Q := hL.right.tail
    have hD : PosK (blanksK (wk A + k.1.2 - b) st ++ Q) := (posK_blanksK _ _).append hQ
    refine ⟨blanksK (wk A + k.1.2 - b) st ++ Q, hD, ?_, by simp; omega, ?_⟩
    · rw [b5]; simp
    · by_cases hj : wk A + k.1.2 - b ≤ w
      · have hY : PosK ((A ++ [k]) ++ Q) := by simpa using hL
        have hc : w - (wk A + k.1.2 - b) ≤ wk Q := by simp at hbw; omega
        have := dropB_prefix (X := blanksK (wk A + k.1.2 - b) st) (Y := A ++ [k]) (Rest := Q) hD hY hc st
        rw [wk_blanksK, show wk A + k.1.2 - b + (w - (wk A + k.1.2 - b)) = w by omega] at this
        rw [this]
        simp only [wk_append, wk_cons, wk_nil, Nat.add_zero, List.append_assoc, List.cons_append, List.nil_append]
        congr 1; omega
      · obtain ⟨_, _, _, _, c5, _⟩ := at_inside hL (x := b + w) (by omega) (by omega) st
        rw [c5]
        have e : blanksK (wk A + k.1.2 - b) st ++ Q =
            blanksK w st ++ (blanksK (wk A + k.1.2 - b - w) st ++ Q) := by
          rw [blanksK_split (wk A + k.1.2 - b) w st (by omega)]; simp only [List.append_assoc]
        have hp : PosK (blanksK w st ++ (blanksK (wk A + k.1.2 - b - w) st ++ Q)) := by rw [← e]; exact hD
        obtain ⟨_, _, _, _, d5⟩ := at_boundary hp st
        rw [wk_blanksK, ← e] at d5
        rw [d5]; simp only [cellsK_append, cellsK_blanksK]
        congr 2; omega

/-- the row lemma of W3: after the characters `C` have been put one after the other from the
    character boundary `x` on, the cursor column `x + wk C` is a character boundary again and the
    next `Row.put` extends the inserted cells; the wide character that the END of the longer run
    cuts is blanked by this `put` -/
theorem row_snoc {L : List K} (hL : PosK L) {x : Nat} (hc : contAt (cellsK L) x = false)
    {C : List K} (hC : PosK C) {w : Nat} (hw : 1 ≤ w) (hfit : x + wk C + w ≤ wk L) (b : Bytes) (st : Style) :
    contAt (rowIns (cellsK L) x (cellsK C) (wk C) st) (x + wk C) = false ∧
    (rowIns (cellsK L) x (cellsK C) (wk C) st).length = wk L ∧
    Row.put (rowIns (cellsK L) x (cellsK C) (wk C) st) (x + wk C) b w st =
      rowIns (cellsK L) x (cellsK (C ++ [((b, w), st)])) (wk C + w) st := by
  rcases locate L hL x (by omega) with ⟨A, Rest, rfl, hA⟩ | ⟨A, k, Rest, rfl, hA1, hA2⟩
  · obtain ⟨_, _, _, b4, _⟩ := at_boundary hL st
    rw [hA] at b4
    obtain ⟨D, hD, d1, d2, d3⟩ := dropB_dropB hL (b := x + wk C) (w := w) (by omega) st
    have hL' : PosK ((A ++ C) ++ D) := (hL.left.append hC).append hD
    have hwAC : wk (A ++ C) = x + wk C := by simp [hA]
    have e : rowIns (cellsK (A ++ Rest)) x (cellsK C) (wk C) st = cellsK ((A ++ C) ++ D) := by
      unfold rowIns; rw [b4, ← d1]; simp
    obtain ⟨c1, _, _, c4, _⟩ := at_boundary hL' st
    rw [hwAC] at c1 c4
    have hwL' : wk ((A ++ C) ++ D) = wk (A ++ Rest) := by rw [wk_append, hwAC, d2]; omega
    refine ⟨by rw [e]; exact c1, by rw [e, length_cellsK hL', hwL'], ?_⟩
    rw [e, put_row hL' hw (by rw [hwL']; omega)]
    unfold rowIns
    rw [c4, b4]
    have := dropB_prefix (X := A ++ C) (Y := []) (Rest := D) hL' (by simpa using hD) (c := w)
      (by rw [d2]; omega) st
    rw [hwAC] at this
    rw [this]
    simp only [wk_nil, Nat.zero_add, List.nil_append, d3, cellsK_append, cellsK_cons, cellsK_nil,
      List.append_nil, List.append_assoc, Nat.add_assoc]
  · have := (at_inside hL hA1 hA2 st).1
    rw [hc] at this; cases this

/-! ### the cell level: characters put one after the other -/

theorem postC_cx (s : Scr) (c x : Nat) : postC { s with cx := c } x = postC s x := by
  unfold postC; rfl

/-- a character that fits, written on a character boundary: `Row.put`, then the cursor moves -/
theorem put_fit (s : Scr) (text : Bytes) {w : Nat} (hw : 1 ≤ w) (hfit : s.cx + w ≤ s.w)
    (hc : contAt (s.row s.cy) s.cx = false) :
    s.put .keep text w = postC (s.setRow s.cy ((s.row s.cy).put s.cx text w s.sty)) (s.cx + w) := by
  have e1 : max w 1 = w := by omega
  have e2 : ¬ (w > s.w) := by omega
  have e3 : ¬ (s.cx + w > s.w) := by omega
  rw [put_eqC, e1]
  simp only [e2, if_false]
  have e4 : preC s w = s := by simp only [preC, e3, if_false]
  rw [e4]
  unfold coreC
  simp only [hc, Bool.false_eq_true, if_false, Nat.add_zero]

/-- the cell-level screen after the characters `C` have been put from column `x` on -/
def mid (S : Scr) (R : Row) (x : Nat) (C : List K) : Scr :=
  { S.setRow S.cy (rowIns R x (cellsK C) (wk C) S.sty) with cx := x + wk C }

theorem mid_step {S : Scr} {L : List K} (hL : PosK L) (hwk : wk L = S.w) (hcy : S.cy < S.grid.length)
    {x : Nat} (hc : contAt (cellsK L) x = false) {C : List K} (hC : PosK C) (b : Bytes) {w : Nat}
    (hw : 1 ≤ w) (hfit : x + wk C + w ≤ S.w) :
    (mid S (cellsK L) x C).put .keep b w =
      postC (S.setRow S.cy (rowIns (cellsK L) x (cellsK (C ++ [((b, w), S.sty)])) (wk C + w) S.sty))
        (x + wk C + w) := by
  obtain ⟨r1, r2, r3⟩ := row_snoc hL hc hC hw (by omega) b S.sty
  have hrow : (mid S (cellsK L) x C).row (mid S (cellsK L) x C).cy =
      rowIns (cellsK L) x (cellsK C) (wk C) S.sty := by
    simp [mid, Scr.row, Scr.setRow, List.getD_eq_getElem?_getD, hcy]
  rw [put_fit _ b hw (by show x + wk C + w ≤ S.w; exact hfit) (by rw [hrow]; exact r1), hrow]
  show postC (Scr.setRow _ _ (Row.put _ (x + wk C) b w S.sty)) _ = _
  rw [r3]
  simp only [mid, Scr.setRow, List.set_set]
  exact postC_cx { S with grid := S.grid.set S.cy (rowIns (cellsK L) x (cellsK (C ++ [((b, w), S.sty)])) (wk C + w) S.sty) } _ _

theorem mid_snoc (S : Scr) (R : Row) (x : Nat) (C : List K) (k : K) (h : x + wk C + k.1.2 < S.w) :
    postC (S.setRow S.cy (rowIns R x (cellsK (C ++ [k])) (wk C + k.1.2) S.sty)) (x + wk C + k.1.2) =
      mid S R x (C ++ [k]) := by
  have hw : wk (C ++ [k]) = wk C + k.1.2 := by simp
  have h' : x + wk C + k.1.2 < (S.setRow S.cy (rowIns R x (cellsK (C ++ [k])) (wk C + k.1.2) S.sty)).w := h
  unfold postC mid
  rw [if_pos h', hw, Nat.add_assoc]

/-- the characters `cs` put one after the other on a screen where `C` has been put already -/
theorem fold_mid {S : Scr} {L : List K} (hL : PosK L) (hwk : wk L = S.w) (hcy : S.cy < S.grid.length)
    {x : Nat} (hc : contAt (cellsK L) x = false) :
    ∀ (cs : List Cl) (C : List K), PosK C → (∀ p ∈ cs, 1 ≤ p.2) → cs ≠ [] → x + wk C + ws cs ≤ S.w →
    cs.foldl (fun sc c => sc.put .keep c.1 c.2) (mid S (cellsK L) x C) =
      postC (S.setRow S.cy (rowIns (cellsK L) x (cellsK (C ++ cs.map fun c => (c, S.sty)))
        (wk C + ws cs) S.sty)) (x + wk C + ws cs) := by
  intro cs
  induction cs with
  | nil => intro _ _ _ h; exact absurd rfl h
  | cons c rest ih =>
    intro C hC hpos _ hfit
    have hc1 : 1 ≤ c.2 := hpos c (List.mem_cons_self ..)
    have hrest : ∀ p ∈ rest, 1 ≤ p.2 := fun p hp => hpos p (List.mem_cons_of_mem _ hp)
    simp only [ws_cons] at hfit
    simp only [List.foldl_cons]
    rw [mid_step hL hwk hcy hc hC c.1 hc1 (by omega)]
    by_cases hr : rest = []
    · subst hr
      simp only [List.foldl_nil, List.map_cons, List.map_nil, ws_cons, ws_nil, Nat.add_zero, Nat.add_assoc]
    · have hwr := ws_pos hrest hr
      rw [mid_snoc S (cellsK L) x C ((c.1, c.2), S.sty) (by simp only; omega)]
      rw [ih (C ++ [((c.1, c.2), S.sty)]) (hC.append (PosK.cons hc1 PosK.nil)) hrest hr (by simp; omega)]
      simp only [List.map_cons, ws_cons, wk_append, wk_cons, wk_nil, Nat.add_zero, List.append_assoc,
        List.cons_append, List.nil_append, Nat.add_assoc]

/-! ### the run level: the whole run written as one span -/

theorem flat_isEmpty {cw : Nat → Nat} {cs : List Cl} (h : Toks cw cs) (hne : cs ≠ []) :
    (flat cs).isEmpty = false := by
  have := flat_length_pos (fun p hp => (h.pos p hp).1) hne
  cases hf : flat cs with
  | nil => rw [hf] at this; simp at this
  | cons _ _ => rfl

theorem spanWF_run {cw : Nat → Nat} {cs : List Cl} (h : Toks cw cs) (hne : cs ≠ []) (st : Style) :
    spanWF cw ⟨st, flat cs, 0, ws cs⟩ = true := by
  have hw := ws_pos (fun p hp => (h.pos p hp).2) hne
  simp [spanWF, flat_isEmpty h hne, textWF_flat h, hw]

theorem spanCells_run {cw : Nat → Nat} {cs : List Cl} (h : Toks cw cs) (hne : cs ≠ []) (st : Style) :
    spanCells cw ⟨st, flat cs, 0, ws cs⟩ = cellsK (cs.map fun c => (c, st)) := by
  rw [spanCells_eq]
  simp [spanK, spanCl, flat_isEmpty h hne, clusters_flat h]

/-- the row part of `writeSpanAt` for a run of characters that fits and starts on a character
    boundary: the cells `[x, x + width)` are the cells of the characters, wide characters cut by
    either end are blanked, nothing is shifted -/
theorem writeRun_row {cw : Nat → Nat} {W : Nat} {l : SLine} (hl : lineWF cw W l = true)
    (hb : cw 0x20 ≤ 1) (cur : Style) {x : Nat} {cs : List Cl} (htoks : Toks cw cs) (hne : cs ≠ [])
    (hxw : x + ws cs ≤ W) (hc : contAt (lineCells cw l) x = false) :
    lineCells cw (writeSpanLine cw W cur l x ⟨cur, flat cs, 0, ws cs⟩ true).1 =
      rowIns (lineCells cw l) x (cellsK (cs.map fun c => (c, cur))) (ws cs) cur ∧
    lineWF cw W (writeSpanLine cw W cur l x ⟨cur, flat cs, 0, ws cs⟩ true).1 = true ∧
    (writeSpanLine cw W cur l x ⟨cur, flat cs, 0, ws cs⟩ true).2.1 = 0 := by
  obtain ⟨hwf, hsum, hwid⟩ := lineWF_iff.1 hl
  have hlen := length_lineCells hwf
  have hsp := spanWF_run htoks hne cur
  have hw : 0 < ws cs := spanWF_pos hsp
  have hins : InsOK cw ⟨cur, flat cs, 0, ws cs⟩ := Or.inl hsp
  have hxn : x + ws cs ≤ sumWidths l.spans := by omega
  obtain ⟨w1, w2, w3⟩ := replaceRangeWide_wf (x := x) (n := ws cs) true hwf hxn hins (Or.inl hw) hb
  have hlcw : lineCellWidth (replaceRangeWide cw l x (ws cs) ⟨cur, flat cs, 0, ws cs⟩ true).1 =
      sumWidths (replaceRangeWide cw l x (ws cs) ⟨cur, flat cs, 0, ws cs⟩ true).1.spans := lineCellWidth_mk _
  obtain ⟨k1, k2, _, _⟩ := replaceRangeWide_cells (keep := true) hwf hxn hins (Or.inl hw) (Or.inr hc)
  simp only [] at k1 k2
  rw [spanCells_run htoks hne] at k1
  have hposC : PosK (cs.map fun c => (c, cur)) := posK_map cur (fun p hp => (htoks.pos p hp).2)
  have hlenC : (cellsK (cs.map fun c => (c, cur))).length = ws cs := by
    rw [length_cellsK hposC, wk_map]
  have hsw : sumWidths (replaceRangeWide cw l x (ws cs) ⟨cur, flat cs, 0, ws cs⟩ true).1.spans = W := by
    rw [← w3, k1]
    simp only [List.length_append, List.length_take, List.length_drop, hlenC,
      length_blankStraddlers, hlen]
    omega
  have hgt : ¬ lineCellWidth (replaceRangeWide cw l x (ws cs) ⟨cur, flat cs, 0, ws cs⟩ true).1 > W := by
    rw [hlcw, hsw]; omega
  have hres : (writeSpanLine cw W cur l x ⟨cur, flat cs, 0, ws cs⟩ true).1 =
        (replaceRangeWide cw l x (ws cs) ⟨cur, flat cs, 0, ws cs⟩ true).1 ∧
      (writeSpanLine cw W cur l x ⟨cur, flat cs, 0, ws cs⟩ true).2.1 =
        (replaceRangeWide cw l x (ws cs) ⟨cur, flat cs, 0, ws cs⟩ true).2.shift := by
    simp only [writeSpanLine, hgt, if_false, and_self]
  rw [hres.1, hres.2]
  refine ⟨?_, lineWF_iff.2 ⟨w1, hsw, by rw [w2, hsw]⟩, k2⟩
  rw [k1]
  have hst := straddle (posK_lineK hwf) (Nat.le_add_right x (ws cs)) (by rw [wk_lineK hwf]; exact hxn) cur
  rw [← lineCells_eq] at hst
  unfold rowIns
  rw [hst.1, hst.2]

theorem rowIns_nil {L : List K} (hL : PosK L) {x : Nat} (hx : x ≤ wk L)
    (hc : contAt (cellsK L) x = false) (st : Style) : rowIns (cellsK L) x [] 0 st = cellsK L := by
  obtain ⟨t1, t2⟩ := blk_take_drop hL hx st
  have : blk (cellsK L) x st = cellsK L := by simp only [blk, hc, Bool.false_eq_true, if_false]
  rw [this] at t1 t2
  unfold rowIns
  rw [Nat.add_zero, ← t1, ← t2, List.append_nil, List.take_append_drop]

theorem mid_nil {S : Scr} {L : List K} (hL : PosK L) (hrow : S.row S.cy = cellsK L)
    (hcy : S.cy < S.grid.length) (hx : S.cx ≤ wk L) (hc : contAt (cellsK L) S.cx = false) :
    mid S (cellsK L) S.cx [] = S := by
  unfold mid
  simp only [cellsK_nil, wk_nil, Nat.add_zero]
  rw [rowIns_nil hL hx hc, ← hrow]
  simp only [Scr.setRow, Scr.row, List.getD_eq_getElem?_getD, List.getElem?_eq_getElem hcy,
    Option.getD_some, List.set_getElem_self]

/-- **W3** a run of several characters (each a complete character on its own), valid UTF-8,
    that fits in the rest of the row and does not start on the second cell of a wide character:
    `writeString` — ONE span spliced into the row, one `moveCursor` — shows what the cell-level
    screen shows after the characters have been put one by one (`Scr.put`, span policy), cursor
    included, and the invariant holds afterwards. -/
theorem writeString_run {cw : Nat → Nat} (hb : cw 0x20 ≤ 1) {s : SScr} (hs : SScr.inv cw s = true)
    {cs : List Cl} (htoks : Toks cw cs) (hne : cs ≠ []) (hfit : s.cx + ws cs ≤ s.w)
    (hc : contAt (lineCells cw (s.line s.cy)) s.cx = false)
    (hval : replaceInvalidUTF8 (flat cs) = flat cs) (n : Nat) :
    (s.writeString cw (n + 1) (flat cs) (ws cs)).abs cw =
      cs.foldl (fun sc c => sc.put .keep c.1 c.2) (s.abs cw) ∧
    SScr.inv cw (s.writeString cw (n + 1) (flat cs) (ws cs)) = true := by
  obtain ⟨h1, h2, h3, h4, h5, h6, _⟩ := inv_iff.1 hs
  have g := geom_of_inv hs
  have hl := h4 _ (line_mem (s := s) (y := s.cy) (by omega))
  obtain ⟨hwf, hsum, _⟩ := lineWF_iff.1 hl
  have hpos : ∀ p ∈ cs, 1 ≤ p.2 := fun p hp => (htoks.pos p hp).2
  have hw := ws_pos hpos hne
  -- the run level
  have e1 : s.writeString cw (n + 1) (flat cs) (ws cs) = wsNone cw s (flat cs) (ws cs) := by
    rw [writeString_succ, hval]
    have hm : max (ws cs) 1 = ws cs := by omega
    have hno : ¬ (s.cx + ws cs > s.w ∧ ws cs > 1) := by omega
    simp only [flat_isEmpty htoks hne, Bool.false_eq_true, if_false, hm, hno]
  have epre : preS s (ws cs) = s := by
    have : ¬ (s.cx + ws cs > s.w) := by omega
    simp only [preS, this, if_false]
  obtain ⟨r1, r2, r3⟩ := writeRun_row hl hb s.sty htoks hne hfit hc
  have e2 : wsNone cw s (flat cs) (ws cs) = coreS cw s (flat cs) (ws cs) := by
    have := wsNone_core (cw := cw) g (flat cs) (w := ws cs) (by omega) (by rw [epre]; exact g)
      (by rw [epre, r3]; omega)
    rw [epre] at this
    exact this
  have hs1 := inv_setLine hs s.cy r2
  obtain ⟨p1, p2⟩ := post_refines hb hs1 (x := s.cx + ws cs) (by show s.cx + ws cs < 2 * s.w; omega)
  have e3 : coreS cw s (flat cs) (ws cs) =
      postS (s.setLine s.cy (writeSpanLine cw s.w s.sty (s.line s.cy) s.cx ⟨s.sty, flat cs, 0, ws cs⟩ true).1)
        (s.cx + ws cs) := by
    unfold coreS
    simp only [r3, Nat.add_zero]
  rw [e1, e2, e3]
  refine ⟨?_, p2⟩
  rw [p1, abs_setLine, r1]
  -- the cell level
  have hL := posK_lineK hwf
  have hwk : wk (lineK cw (s.line s.cy).spans) = (s.abs cw).w := by rw [wk_lineK hwf, hsum]; rfl
  have hcy : (s.abs cw).cy < (s.abs cw).grid.length := by simp [h3]; omega
  have hrow : (s.abs cw).row (s.abs cw).cy = cellsK (lineK cw (s.line s.cy).spans) := by
    rw [abs_row, lineCells_eq]; rfl
  have hc' : contAt (cellsK (lineK cw (s.line s.cy).spans)) (s.abs cw).cx = false := by
    rw [← lineCells_eq]; exact hc
  have hfold := fold_mid hL hwk hcy hc' cs [] PosK.nil hpos hne (by simp only [wk_nil]; show s.cx + 0 + ws cs ≤ s.w; omega)
  rw [mid_nil hL hrow hcy (by rw [hwk]; show s.cx ≤ s.w; omega) hc'] at hfold
  rw [hfold, lineCells_eq]
  simp only [wk_nil, Nat.add_zero, Nat.zero_add, List.nil_append, abs_cx, abs_cy, abs_sty]

/-! ## W4 — the pieces of a run that does not fit (`splitRunToFit`) -/

/-- how many characters of the run the head takes: the first one always, then as long as the
    width stays within `limit` -/
def fitCount (limit : Nat) : Nat → Bool → List Cl → Nat
  | _, _, [] => 0
  | hw, first, c :: r =>
    if first || decide (hw + c.2 ≤ limit) then 1 + fitCount limit (hw + c.2) false r else 0

theorem splitRunAux_stopped (cw : Nat → Nat) (limit : Nat) : ∀ (B : List Cl) (fuel idx cut hw total : Nat),
    Toks cw B → (flat B).length ≤ fuel → cut < idx →
    splitRunAux cw limit fuel (flat B) idx cut hw total = (cut, hw, total + ws B) := by
  intro B
  induction B with
  | nil =>
    intro fuel idx cut hw total _ _ _
    cases fuel with
    | zero => simp [splitRunAux]
    | succ f => simp [splitRunAux, stepRune_nil]
  | cons c r ih =>
    intro fuel idx cut hw total h hf hlt
    have hc := h.head
    have hpos := (stepRune_some hc).1
    simp only [flat_cons, List.length_append] at hf
    cases fuel with
    | zero => omega
    | succ f =>
      have hne : ¬ (cut = idx) := by omega
      simp only [flat_cons, splitRunAux, stepRune_append (flat r) hc, List.drop_left', hne, decide_false,
        Bool.false_and, Bool.false_eq_true, if_false]
      rw [ih f _ _ _ _ h.tail (by omega) (by omega)]
      simp only [ws_cons, Nat.add_assoc]

theorem splitRunAux_taking (cw : Nat → Nat) (limit : Nat) : ∀ (B : List Cl) (fuel idx hw total : Nat),
    Toks cw B → (flat B).length ≤ fuel →
    splitRunAux cw limit fuel (flat B) idx idx hw total =
      (idx + (flat (B.take (fitCount limit hw (decide (idx = 0)) B))).length,
       hw + ws (B.take (fitCount limit hw (decide (idx = 0)) B)), total + ws B) := by
  intro B
  induction B with
  | nil =>
    intro fuel idx hw total _ _
    cases fuel with
    | zero => simp [splitRunAux, fitCount]
    | succ f => simp [splitRunAux, stepRune_nil, fitCount]
  | cons c r ih =>
    intro fuel idx hw total h hf
    have hc := h.head
    have hpos := (stepRune_some hc).1
    have hw1 := (stepRune_some hc).2.2.1
    simp only [flat_cons, List.length_append] at hf
    cases fuel with
    | zero => omega
    | succ f =>
      have hw0 : ¬ (c.2 = 0) := by omega
      simp only [flat_cons, splitRunAux, stepRune_append (flat r) hc, List.drop_left', decide_true,
        Bool.true_and, hw0, decide_false, Bool.or_false]
      by_cases htake : (decide (idx = 0) || decide (hw + c.2 ≤ limit)) = true
      · simp only [htake, if_true, fitCount]
        have := ih f (idx + c.1.length) (hw + c.2) (total + c.2) h.tail (by omega)
        have hz : decide (idx + c.1.length = 0) = false := decide_eq_false (by omega)
        rw [hz] at this
        rw [this, show 1 + fitCount limit (hw + c.2) false r = fitCount limit (hw + c.2) false r + 1 by omega]
        simp only [List.take_succ_cons, flat_cons, ws_cons, List.length_append, Nat.add_assoc]
      · simp only [htake, Bool.false_eq_true, if_false, fitCount]
        rw [splitRunAux_stopped cw limit r f _ _ _ _ h.tail (by omega) (by omega)]
        simp only [List.take_zero, flat_nil, List.length_nil, ws_nil, Nat.add_zero, ws_cons, Nat.add_assoc]

theorem fitCount_le (limit : Nat) : ∀ (cs : List Cl) (hw : Nat) (first : Bool),
    fitCount limit hw first cs ≤ cs.length := by
  intro cs
  induction cs with
  | nil => intro _ _; simp [fitCount]
  | cons c r ih =>
    intro hw first
    simp only [fitCount, List.length_cons]
    split
    · have := ih (hw + c.2) false; omega
    · omega

theorem fitCount_stop (limit : Nat) (cs : List Cl) {hw : Nat} (h : limit < hw) :
    fitCount limit hw false cs = 0 := by
  cases cs with
  | nil => rfl
  | cons c r =>
    have : ¬ (hw + c.2 ≤ limit) := by omega
    simp [fitCount, this]

theorem fitCount_fits (limit : Nat) : ∀ (cs : List Cl) (hw : Nat), hw ≤ limit →
    hw + ws (cs.take (fitCount limit hw false cs)) ≤ limit := by
  intro cs
  induction cs with
  | nil => intro hw h; simpa [fitCount] using h
  | cons c r ih =>
    intro hw h
    simp only [fitCount, Bool.false_or]
    by_cases hc : hw + c.2 ≤ limit
    · simp only [hc, decide_true, if_true]
      rw [show 1 + fitCount limit (hw + c.2) false r = fitCount limit (hw + c.2) false r + 1 by omega]
      have := ih (hw + c.2) hc
      simp only [List.take_succ_cons, ws_cons]; omega
    · simp only [hc, decide_false, Bool.false_eq_true, if_false, List.take_zero, ws_nil]; omega

theorem fitCount_max (limit : Nat) : ∀ (cs : List Cl) (hw : Nat) (first : Bool),
    fitCount limit hw first cs < cs.length →
    limit < hw + ws (cs.take (fitCount limit hw first cs + 1)) := by
  intro cs
  induction cs with
  | nil => intro _ _ h; simp at h
  | cons c r ih =>
    intro hw first h
    simp only [fitCount] at h ⊢
    by_cases hc : (first || decide (hw + c.2 ≤ limit)) = true
    · simp only [hc, if_true, List.length_cons] at h ⊢
      rw [show 1 + fitCount limit (hw + c.2) false r + 1 = (fitCount limit (hw + c.2) false r + 1) + 1 by omega]
      have := ih (hw + c.2) false (by omega)
      simp only [List.take_succ_cons, ws_cons]; omega
    · simp only [hc, Bool.false_eq_true, if_false]
      simp only [Bool.or_eq_true, decide_eq_true_eq, not_or] at hc
      simp only [Nat.zero_add, List.take_succ_cons, List.take_zero, ws_cons, ws_nil]; omega

/-- **W4** `splitRunToFit` on a run of complete characters: the head is the first character and
    then as many as fit in `limit` cells (`fitCount`), the rest is the rest; the widths are the sums
    of the character widths; a run that is taken whole (one character, or everything fits) is not cut -/
theorem splitRunToFit_spec {cw : Nat → Nat} {cs : List Cl} (h : Toks cw cs) (limit : Nat) :
    splitRunToFit cw (flat cs) limit =
      if fitCount limit 0 true cs ≥ cs.length then none
      else some (flat (cs.take (fitCount limit 0 true cs)), ws (cs.take (fitCount limit 0 true cs)),
                 flat (cs.drop (fitCount limit 0 true cs)), ws (cs.drop (fitCount limit 0 true cs))) := by
  have hsplit : flat cs = flat (cs.take (fitCount limit 0 true cs)) ++ flat (cs.drop (fitCount limit 0 true cs)) := by
    rw [← flat_append, List.take_append_drop]
  have hws : ws cs = ws (cs.take (fitCount limit 0 true cs)) + ws (cs.drop (fitCount limit 0 true cs)) := by
    rw [← ws_append, List.take_append_drop]
  unfold splitRunToFit
  rw [splitRunAux_taking cw limit cs _ 0 0 0 h (Nat.le_refl _)]
  simp only [decide_true, Nat.zero_add]
  by_cases hj : fitCount limit 0 true cs ≥ cs.length
  · rw [if_pos hj, List.take_of_length_le hj, if_pos (Or.inr (Nat.le_refl _))]
  · rw [if_neg hj]
    have hcs : cs ≠ [] := by intro e; subst e; simp at hj
    have hj1 : 1 ≤ fitCount limit 0 true cs := by
      cases cs with
      | nil => exact absurd rfl hcs
      | cons c r => simp only [fitCount, Bool.true_or, if_true]; omega
    have htne : cs.take (fitCount limit 0 true cs) ≠ [] := by
      intro e
      have := congrArg List.length e
      simp only [List.length_take, List.length_nil] at this; omega
    have hdne : cs.drop (fitCount limit 0 true cs) ≠ [] := by
      intro e
      have := congrArg List.length e
      simp only [List.length_drop, List.length_nil] at this; omega
    have ht : Toks cw (cs.take (fitCount limit 0 true cs)) := fun p hp => h p (List.mem_of_mem_take hp)
    have hd : Toks cw (cs.drop (fitCount limit 0 true cs)) := fun p hp => h p (List.mem_of_mem_drop hp)
    have l1 := flat_length_pos (fun p hp => (ht.pos p hp).1) htne
    have l2 := flat_length_pos (fun p hp => (hd.pos p hp).1) hdne
    have w1 := ws_pos (fun p hp => (ht.pos p hp).2) htne
    have w2 := ws_pos (fun p hp => (hd.pos p hp).2) hdne
    have hlen := congrArg List.length hsplit
    rw [List.length_append] at hlen
    have hno : ¬ ((flat (cs.take (fitCount limit 0 true cs))).length = 0 ∨
        (flat (cs.take (fitCount limit 0 true cs))).length ≥ (flat cs).length) := by omega
    rw [if_neg hno]
    have e1 : (flat cs).take (flat (cs.take (fitCount limit 0 true cs))).length =
        flat (cs.take (fitCount limit 0 true cs)) := by
      conv => lhs; rw [hsplit]
      exact List.take_left' rfl
    have e2 : (flat cs).drop (flat (cs.take (fitCount limit 0 true cs))).length =
        flat (cs.drop (fitCount limit 0 true cs)) := by
      conv => lhs; rw [hsplit]
      exact List.drop_left' rfl
    rw [e1, e2]
    congr 3
    · omega
    · congr 1; omega

/-- **W4** the head of a cut run: at least one character, not the whole run, within the limit
    unless it is a single character, and maximal -/
theorem fitCount_spec (limit : Nat) {cs : List Cl} (hcs : cs ≠ []) :
    1 ≤ fitCount limit 0 true cs ∧ fitCount limit 0 true cs ≤ cs.length ∧
    (ws (cs.take (fitCount limit 0 true cs)) ≤ limit ∨ fitCount limit 0 true cs = 1) ∧
    (fitCount limit 0 true cs < cs.length → limit < ws (cs.take (fitCount limit 0 true cs + 1))) := by
  refine ⟨?_, fitCount_le limit cs 0 true, ?_, ?_⟩
  · cases cs with
    | nil => exact absurd rfl hcs
    | cons c r => simp only [fitCount, Bool.true_or, if_true]; omega
  · cases cs with
    | nil => exact absurd rfl hcs
    | cons c r =>
      simp only [fitCount, Bool.true_or, if_true, Nat.zero_add]
      by_cases hc : c.2 ≤ limit
      · left
        rw [show 1 + fitCount limit c.2 false r = fitCount limit c.2 false r + 1 by omega]
        have := fitCount_fits limit r c.2 hc
        simp only [List.take_succ_cons, ws_cons]; omega
      · right; rw [fitCount_stop limit r (by omega)]
  · intro hlt
    have := fitCount_max limit cs 0 true hlt
    omega

/-- **W4** a run of complete characters that does not fit in the rest of the row and can be cut:
    `writeString` writes the head, then the rest (each with the remaining fuel) -/
theorem writeString_pieces {cw : Nat → Nat} {s : SScr} {cs : List Cl} (h : Toks cw cs)
    (hval : replaceInvalidUTF8 (flat cs) = flat cs) (hover : s.cx + ws cs > s.w) (hw : ws cs > 1)
    (hj : fitCount (s.w - s.cx) 0 true cs < cs.length) (n : Nat) :
    s.writeString cw (n + 1) (flat cs) (ws cs) =
      (s.writeString cw n (flat (cs.take (fitCount (s.w - s.cx) 0 true cs)))
          (ws (cs.take (fitCount (s.w - s.cx) 0 true cs)))).writeString cw n
        (flat (cs.drop (fitCount (s.w - s.cx) 0 true cs))) (ws (cs.drop (fitCount (s.w - s.cx) 0 true cs))) := by
  have hcs : cs ≠ [] := by intro e; subst e; simp at hj
  rw [writeString_succ, hval]
  have hm : max (ws cs) 1 = ws cs := by omega
  have hc : s.cx + ws cs > s.w ∧ ws cs > 1 := ⟨hover, hw⟩
  simp only [flat_isEmpty h hcs, Bool.false_eq_true, if_false, hm, hc, and_self, if_true]
  rw [splitRunToFit_spec h, if_neg (by omega)]

/-- **W4** a run that does not fit but is taken whole by `splitRunToFit` (a single wide character)
    is written as one span after the wrap or the pin -/
theorem writeString_whole {cw : Nat → Nat} {s : SScr} {cs : List Cl} (h : Toks cw cs) (hcs : cs ≠ [])
    (hval : replaceInvalidUTF8 (flat cs) = flat cs)
    (hj : fitCount (s.w - s.cx) 0 true cs ≥ cs.length) (n : Nat) :
    s.writeString cw (n + 1) (flat cs) (ws cs) = wsNone cw s (flat cs) (ws cs) := by
  have hw := ws_pos (fun p hp => (h.pos p hp).2) hcs
  rw [writeString_succ, hval]
  have hm : max (ws cs) 1 = ws cs := by omega
  simp only [flat_isEmpty h hcs, Bool.false_eq_true, if_false, hm]
  have hnone : (if s.cx + ws cs > s.w ∧ ws cs > 1 then splitRunToFit cw (flat cs) (s.w - s.cx) else none)
      = none := by
    split
    · rw [splitRunToFit_spec h, if_pos hj]
    · rfl
  rw [hnone]

/-! ## non-vacuity: a concrete 6×2 screen -/

/-- `ab中c`: four characters, five cells under `cwS` -/
def exCs : List Cl := [([0x61], 1), ([0x62], 1), (zhong, 2), ([0x63], 1)]
/-- cursor at column 1 of the first row -/
def exS : SScr := (SScr.init 6 2).setCursor 1 0
/-- autowrap on, cursor at column 4 -/
def exW : SScr := { SScr.init 6 2 with wrap := true, cx := 4 }

example : Toks cwS exCs := by
  intro p hp
  simp only [exCs, List.mem_cons, List.not_mem_nil, or_false] at hp
  rcases hp with rfl | rfl | rfl | rfl <;> decide
example : flat exCs = [0x61, 0x62, 0xe4, 0xb8, 0xad, 0x63] ∧ ws exCs = 5 := by decide
example : replaceInvalidUTF8 (flat exCs) = flat exCs := by decide
set_option maxRecDepth 100000 in
example : SScr.inv cwS exS = true ∧ exS.cx + ws exCs ≤ exS.w ∧
    contAt (lineCells cwS (exS.line exS.cy)) exS.cx = false := by decide
-- the run that fits: one span in the row, the cursor pinned on the last column
set_option maxRecDepth 100000 in
example : (exS.writeString cwS 7 (flat exCs) 5).lines[0]? =
    some ⟨[blankSpan Style.default 1, ⟨Style.default, flat exCs, 0, 5⟩], 6⟩ ∧
    (exS.writeString cwS 7 (flat exCs) 5).cx = 5 := by decide
set_option maxRecDepth 100000 in
example : (exS.writeString cwS 7 (flat exCs) 5).abs cwS =
    exCs.foldl (fun sc c => sc.put .keep c.1 c.2) (exS.abs cwS) := by decide
-- the run across the right edge with autowrap on: `ab` ends the first row, `中c` starts the second
set_option maxRecDepth 100000 in
example : splitRunToFit cwS (flat exCs) 2 = some ([0x61, 0x62], 2, [0xe4, 0xb8, 0xad, 0x63], 3) := by decide
set_option maxRecDepth 100000 in
example : SScr.inv cwS exW = true ∧
    (exW.writeString cwS 7 (flat exCs) 5).abs cwS =
      exCs.foldl (fun sc c => sc.put .keep c.1 c.2) (exW.abs cwS) ∧
    (exW.writeString cwS 7 (flat exCs) 5).cx = 3 ∧ (exW.writeString cwS 7 (flat exCs) 5).cy = 1 := by decide
-- the head of `ab中c` for a limit of 2 / 3 / 0 cells: 2, 2 (the wide character does not fit), 1 characters
example : fitCount 2 0 true exCs = 2 ∧ fitCount 3 0 true exCs = 2 ∧ fitCount 0 0 true exCs = 1 := by decide
/-- the hypothesis "does not start on the second cell of a wide character" of `writeString_run`
    is needed: `中` in columns 3-4 of a 6-column row, cursor on column 4, autowrap off, run `ab`
    (fits: 4 + 2 ≤ 6). As one span the run is inserted after the kept wide character and the row is
    cut back: column 5 shows `a`. Put one by one, `a` lands in column 5, the cursor is pinned there
    and `b` overwrites it: column 5 shows `b`. -/
theorem writeString_run_needs_boundary :
    let s0 := (((SScr.init 6 2).setCursor 3 0).put cwS zhong 2).setCursor 4 0
    let ab : List Cl := [([0x61], 1), ([0x62], 1)]
    SScr.inv cwS s0 = true ∧ s0.cx + ws ab ≤ s0.w ∧ contAt (lineCells cwS (s0.line s0.cy)) s0.cx = true ∧
    (s0.writeString cwS 3 (flat ab) (ws ab)).abs cwS ≠ ab.foldl (fun sc c => sc.put .keep c.1 c.2) (s0.abs cwS) := by
  set_option maxRecDepth 100000 in decide
-- `moveCursor` with a wrap
example : exW.moveCursor 3 0 true true = ({ exW with cx := 1 } : SScr).lineDown := by decide

#print axioms TM.C03SpanWrite.moveCursor_cr
#print axioms TM.C03SpanWrite.moveCursor_adv
#print axioms TM.C03SpanWrite.moveCursor_zero
#print axioms TM.C03SpanWrite.writeString_char
#print axioms TM.C03SpanWrite.writeString_char_refines
#print axioms TM.C03SpanWrite.row_snoc
#print axioms TM.C03SpanWrite.writeRun_row
#print axioms TM.C03SpanWrite.writeString_run
#print axioms TM.C03SpanWrite.writeString_run_needs_boundary
#print axioms TM.C03SpanWrite.splitRunToFit_spec
#print axioms TM.C03SpanWrite.fitCount_spec
#print axioms TM.C03SpanWrite.writeString_pieces
#print axioms TM.C03SpanWrite.writeString_whole

end TM.C03SpanWrite
