import TM.Run
/-!
# C18 — Resize

"Resize(w,h) to any positive size at any moment leaves every cell of the old/new overlap (clipped
to whole characters) with its previous text and attributes on both buffers, fills new cells with
blanks, and reports the new size from Size. Cursor, saved cursor and scroll region are brought
inside the new screen, so any subsequent input behaves as on a terminal that always had that size
and that content."

Model: `TM.Scr.resize`, `TM.fitRow`, `TM.blankCharAt` (`TM/Screen.lean`); `TM.Term.resize`
(`TM/Term.lean`) resizes both buffers.
-/
namespace TM.C18
open TM

/-- the grid of `s` has `s.h` rows of `s.w` cells -/
def GridOK (s : Scr) : Prop := s.grid.length = s.h ∧ ∀ r ∈ s.grid, r.length = s.w

/-- the geometric part of `Scr.inv` -/
def Geo (s : Scr) : Prop :=
  1 ≤ s.w ∧ 1 ≤ s.h ∧ s.grid.length = s.h ∧ (∀ r ∈ s.grid, r.length = s.w) ∧
  s.cx < s.w ∧ s.cy < s.h ∧ s.sx < s.w ∧ s.sy < s.h ∧ s.top ≤ s.bot ∧ s.bot < s.h

theorem Geo.gridOK {s : Scr} (h : Geo s) : GridOK s := ⟨h.2.2.1, h.2.2.2.1⟩

/-! ## Helper lemmas -/
namespace Lemmas

/-! ### `contAt`, `widthAt`, `headOf` -/

theorem contAt_iff {r : Row} {x : Nat} : contAt r x = true ↔ ∃ st, r[x]? = some ⟨.cont, st⟩ := by
  unfold contAt; split <;> simp_all

theorem contAt_cont {r : Row} {x : Nat} {st : Style} (h : r[x]? = some ⟨.cont, st⟩) :
    contAt r x = true := contAt_iff.2 ⟨st, h⟩

theorem contAt_ch {r : Row} {x : Nat} {t : Bytes} {w : Nat} {st : Style}
    (h : r[x]? = some ⟨.ch t w, st⟩) : contAt r x = false := by
  unfold contAt; rw [h]

theorem contAt_none {r : Row} {x : Nat} (h : r[x]? = none) : contAt r x = false := by
  unfold contAt; rw [h]

theorem contAt_ge {r : Row} {x : Nat} (h : r.length ≤ x) : contAt r x = false :=
  contAt_none (List.getElem?_eq_none h)

theorem contAt_lt {r : Row} {x : Nat} (h : contAt r x = true) : x < r.length := by
  false_or_by_contra
  rw [contAt_ge (by omega)] at h; cases h

theorem contAt_congr {r r' : Row} {x : Nat} (h : r'[x]? = r[x]?) : contAt r' x = contAt r x := by
  unfold contAt; rw [h]

theorem contAt_blank {r : Row} {x : Nat} {st : Style} (h : r[x]? = some (blank st)) :
    contAt r x = false := contAt_ch h

theorem widthAt_ch {r : Row} {x : Nat} {t : Bytes} {w : Nat} {st : Style}
    (h : r[x]? = some ⟨.ch t w, st⟩) : widthAt r x = max w 1 := by
  unfold widthAt; rw [h]

theorem widthAt_pos (r : Row) (x : Nat) : 1 ≤ widthAt r x := by
  unfold widthAt; split <;> omega

theorem headOf_le (r : Row) (x : Nat) : headOf r x ≤ x := by
  induction x with
  | zero => simp [headOf]
  | succ x ih => simp only [headOf]; split <;> omega

theorem headOf_cont (r : Row) (x j : Nat) (h1 : headOf r x < j) (h2 : j ≤ x) : contAt r j = true := by
  induction x with
  | zero => simp [headOf] at h1; omega
  | succ x ih =>
    simp only [headOf] at h1
    split at h1
    · next hc =>
      by_cases hj : j = x + 1
      · rw [hj]; exact hc
      · exact ih h1 (by omega)
    · omega

theorem headOf_head (r : Row) (x : Nat) : headOf r x = 0 ∨ contAt r (headOf r x) = false := by
  induction x with
  | zero => simp [headOf]
  | succ x ih =>
    simp only [headOf]
    split
    · exact ih
    · next hc => right; simpa using hc

/-! ### `rowWF` as a predicate -/

theorem rowWF_iff (r : Row) : rowWF r = true ↔
    (contAt r 0 = false ∧ ∀ i t w st, r[i]? = some ⟨.ch t w, st⟩ →
      1 ≤ w ∧ i + w ≤ r.length ∧ (∀ k, i < k → k < i + w → contAt r k = true) ∧
        contAt r (i + w) = false) := by
  unfold rowWF
  rw [List.all_eq_true]
  simp only [List.mem_range]
  constructor
  · intro H
    constructor
    · cases hc : contAt r 0 with
      | false => rfl
      | true =>
        obtain ⟨st, hst⟩ := contAt_iff.1 hc
        have := H 0 (contAt_lt hc)
        rw [hst] at this
        simp at this
    · intro i t w st h
      have hi : i < r.length := by
        false_or_by_contra
        rw [List.getElem?_eq_none (by omega)] at h; cases h
      have := H i hi
      rw [h] at this
      simp only [Bool.and_eq_true, decide_eq_true_eq, List.all_eq_true, List.mem_range,
        Bool.not_eq_true'] at this
      refine ⟨this.1.1.1, this.1.1.2, ?_, this.2⟩
      intro k h1 h2
      have := this.1.2 (k - (i + 1)) (by omega)
      have e : i + 1 + (k - (i + 1)) = k := by omega
      rwa [e] at this
  · intro ⟨h0, H⟩ i hi
    cases hc : r[i]? with
    | none => rw [List.getElem?_eq_none_iff] at hc; omega
    | some c =>
      obtain ⟨g, st⟩ := c
      cases g with
      | cont =>
        simp only [decide_eq_true_eq]
        false_or_by_contra
        have : i = 0 := by omega
        subst this
        rw [contAt_cont hc] at h0; cases h0
      | ch t w =>
        obtain ⟨a, b, c, d⟩ := H i t w st hc
        simp only [Bool.and_eq_true, decide_eq_true_eq, List.all_eq_true, List.mem_range,
          Bool.not_eq_true']
        exact ⟨⟨⟨a, b⟩, fun k hk => c _ (by omega) (by omega)⟩, d⟩

/-- in a well-formed row the cell at `headOf r x` is the first cell of a character that
    covers column `x` -/
theorem wf_head {r : Row} (hwf : rowWF r = true) {x : Nat} (hx : x < r.length) :
    ∃ t cw st, r[headOf r x]? = some ⟨.ch t cw, st⟩ ∧ 1 ≤ cw ∧ x < headOf r x + cw ∧
      headOf r x + cw ≤ r.length := by
  obtain ⟨h0, H⟩ := (rowWF_iff r).1 hwf
  have hle := headOf_le r x
  have hnc : contAt r (headOf r x) = false := by
    rcases headOf_head r x with h | h
    · rw [h]; exact h0
    · exact h
  cases hc : r[headOf r x]? with
  | none => rw [List.getElem?_eq_none_iff] at hc; omega
  | some c =>
    obtain ⟨g, st⟩ := c
    cases g with
    | cont => rw [contAt_cont hc] at hnc; cases hnc
    | ch t cw =>
      obtain ⟨a, b, _, d⟩ := H _ t cw st hc
      refine ⟨t, cw, st, rfl, a, ?_, b⟩
      false_or_by_contra
      have := headOf_cont r x (headOf r x + cw) (by omega) (by omega)
      rw [this] at d; cases d

/-! ### `blankRange`, `blankCharAt`, `fitRow` -/

@[simp] theorem blankRange_length (r : Row) (a n : Nat) (st : Style) :
    (blankRange r a n st).length = r.length := by
  simp [blankRange]

theorem getElem?_blankRange (r : Row) (a n : Nat) (st : Style) (i : Nat) :
    (blankRange r a n st)[i]? =
      if a ≤ i ∧ i < a + n ∧ i < r.length then some (blank st) else r[i]? := by
  unfold blankRange
  rw [List.getElem?_mapIdx]
  by_cases hi : i < r.length
  · rw [List.getElem?_eq_getElem hi]
    by_cases h : a ≤ i ∧ i < a + n
    · simp [h, hi]
    · have : ¬ (a ≤ i ∧ i < a + n ∧ i < r.length) := fun ⟨p, q, _⟩ => h ⟨p, q⟩
      simp [h, this]
  · rw [List.getElem?_eq_none (by omega)]
    have : ¬ (a ≤ i ∧ i < a + n ∧ i < r.length) := fun ⟨_, _, q⟩ => hi q
    simp [this]

@[simp] theorem blankCharAt_length (r : Row) (x : Nat) (st : Style) :
    (blankCharAt r x st).length = r.length := by
  unfold blankCharAt
  simp only
  split <;> simp

theorem blankCharAt_of_cont {r : Row} {x : Nat} (st : Style) (h : contAt r x = true) :
    blankCharAt r x st = blankRange r (headOf r x) (widthAt r (headOf r x)) st := by
  unfold blankCharAt
  simp [h]

@[simp] theorem fitRow_length (r : Row) (w : Nat) (st : Style) : (fitRow r w st).length = w := by
  unfold fitRow
  split
  · simp only [List.length_take]
    split <;> (try simp only [blankCharAt_length]) <;> omega
  · simp; omega

/-- a cell of `fitRow` that was inside the old row -/
theorem getElem?_fitRow_old (r : Row) (w : Nat) (st : Style) (x : Nat) (hx : x < w)
    (hxr : x < r.length) :
    (fitRow r w st)[x]? =
      if contAt r w = true ∧ headOf r w ≤ x ∧ x < headOf r w + widthAt r (headOf r w)
      then some (blank st) else r[x]? := by
  unfold fitRow
  split
  · rw [List.getElem?_take, if_pos hx]
    by_cases hc : contAt r w = true
    · rw [if_pos hc, blankCharAt_of_cont st hc, getElem?_blankRange]
      simp [hc, hxr]
    · simp [hc]
  · next hlen =>
    have hc : contAt r w = false := contAt_ge (by omega)
    rw [List.getElem?_append, if_pos hxr]
    simp [hc]

/-- a cell of `fitRow` to the right of the old row -/
theorem getElem?_fitRow_new (r : Row) (w : Nat) (st : Style) (x : Nat) (hx : x < w)
    (hxr : r.length ≤ x) : (fitRow r w st)[x]? = some (blank st) := by
  unfold fitRow
  rw [if_neg (by omega), List.getElem?_append, if_neg (by omega), List.getElem?_replicate,
    if_pos (by omega)]

theorem fitRow_self {r : Row} {w : Nat} (st : Style) (h : r.length = w) : fitRow r w st = r := by
  subst h
  unfold fitRow
  have hc : contAt r r.length = false := contAt_ge (Nat.le_refl _)
  rw [if_pos (Nat.le_refl _)]
  simp [hc]

theorem contAt_blankRow (w : Nat) (st : Style) (x : Nat) : contAt (blankRow w st) x = false := by
  unfold contAt blankRow
  rw [List.getElem?_replicate]
  split <;> simp_all [blank]

theorem fitRow_blankRow (w0 w : Nat) (st : Style) : fitRow (blankRow w0 st) w st = blankRow w st := by
  unfold fitRow
  rw [contAt_blankRow]
  simp only [blankRow, List.length_replicate]
  split
  · simp [List.take_replicate]; omega
  · simp [List.replicate_append_replicate]; omega


/-! ### prefix of a well-formed row followed by blanks -/

theorem getElem?_takeBlanks (r : Row) (n m : Nat) (st : Style) (hn : n ≤ r.length) (i : Nat) :
    (r.take n ++ List.replicate m (blank st))[i]? =
      if i < n then r[i]? else if i < n + m then some (blank st) else none := by
  rw [List.getElem?_append]
  simp only [List.length_take, Nat.min_eq_left hn]
  by_cases h1 : i < n
  · rw [if_pos h1, if_pos h1, List.getElem?_take, if_pos h1]
  · rw [if_neg h1, if_neg h1, List.getElem?_replicate]
    by_cases h2 : i < n + m
    · rw [if_pos h2, if_pos (by omega)]
    · rw [if_neg h2, if_neg (by omega)]

theorem contAt_takeBlanks (r : Row) (n m : Nat) (st : Style) (hn : n ≤ r.length) (k : Nat) :
    contAt (r.take n ++ List.replicate m (blank st)) k = if k < n then contAt r k else false := by
  by_cases h1 : k < n
  · rw [if_pos h1]; apply contAt_congr; rw [getElem?_takeBlanks r n m st hn, if_pos h1]
  · rw [if_neg h1]
    by_cases h2 : k < n + m
    · apply contAt_blank (st := st); rw [getElem?_takeBlanks r n m st hn, if_neg h1, if_pos h2]
    · apply contAt_none; rw [getElem?_takeBlanks r n m st hn, if_neg h1, if_neg h2]

/-- cutting a well-formed row at a character boundary and padding with blanks gives a
    well-formed row -/
theorem rowWF_takeBlanks (r : Row) (n m : Nat) (st : Style) (hwf : rowWF r = true)
    (hn : n ≤ r.length) (hb : contAt r n = false) :
    rowWF (r.take n ++ List.replicate m (blank st)) = true := by
  obtain ⟨h0, H⟩ := (rowWF_iff r).1 hwf
  rw [rowWF_iff]
  constructor
  · rw [contAt_takeBlanks r n m st hn]; split
    · exact h0
    · rfl
  · intro i t cw st' hi
    rw [getElem?_takeBlanks r n m st hn] at hi
    have hlen : (r.take n ++ List.replicate m (blank st)).length = n + m := by
      simp [Nat.min_eq_left hn]
    rw [hlen]
    by_cases h1 : i < n
    · rw [if_pos h1] at hi
      obtain ⟨a, b, c, d⟩ := H i t cw st' hi
      have hle : i + cw ≤ n := by
        false_or_by_contra
        have := c n (by omega) (by omega)
        rw [this] at hb; cases hb
      refine ⟨a, by omega, ?_, ?_⟩
      · intro k hk1 hk2
        rw [contAt_takeBlanks r n m st hn, if_pos (by omega)]
        exact c k hk1 hk2
      · rw [contAt_takeBlanks r n m st hn]
        split
        · exact d
        · rfl
    · rw [if_neg h1] at hi
      by_cases h2 : i < n + m
      · rw [if_pos h2] at hi
        simp only [blank, Option.some.injEq, Cell.mk.injEq, Glyph.ch.injEq] at hi
        obtain ⟨⟨_, rfl⟩, _⟩ := hi
        refine ⟨Nat.le_refl _, by omega, ?_, ?_⟩
        · intro k hk1 hk2; omega
        · rw [contAt_takeBlanks r n m st hn, if_neg (by omega)]
      · rw [if_neg h2] at hi; cases hi

/-- on a well-formed row, `fitRow` with a cut character is: the cells before the character, then
    blanks -/
theorem fitRow_cut_eq {r : Row} {w : Nat} (st : Style) (hwf : rowWF r = true)
    (hc : contAt r w = true) :
    fitRow r w st = r.take (headOf r w) ++ List.replicate (w - headOf r w) (blank st) := by
  have hw := contAt_lt hc
  have hle := headOf_le r w
  obtain ⟨t, cw, st', hhd, h1, h2, h3⟩ := wf_head hwf hw
  apply List.ext_getElem?
  intro x
  rw [getElem?_takeBlanks r _ _ st (by omega)]
  by_cases hx : x < w
  · rw [getElem?_fitRow_old r w st x hx (by omega), widthAt_ch hhd]
    by_cases hx2 : x < headOf r w
    · have hn : ¬ (contAt r w = true ∧ headOf r w ≤ x ∧ x < headOf r w + max cw 1) :=
        fun h => by omega
      rw [if_neg hn, if_pos hx2]
    · have hp : contAt r w = true ∧ headOf r w ≤ x ∧ x < headOf r w + max cw 1 :=
        ⟨hc, by omega, by omega⟩
      rw [if_pos hp, if_neg hx2, if_pos (by omega)]
  · rw [List.getElem?_eq_none (by simp; omega), if_neg (by omega), if_neg (by omega)]

/-! ### the grid after `Scr.resize` -/

theorem resize_grid_length (s : Scr) (w h : Nat) : (s.resize w h).grid.length = h := by
  simp [Scr.resize]; omega

theorem resize_grid_old (s : Scr) (w h y : Nat) (hy : y < h) (hys : y < s.grid.length) :
    (s.resize w h).grid[y]? = some (fitRow s.grid[y] w s.sty) := by
  simp only [Scr.resize]
  rw [List.getElem?_append, if_pos (by simp; omega), List.getElem?_map, List.getElem?_take,
    if_pos hy, List.getElem?_eq_getElem hys]
  rfl

theorem resize_grid_new (s : Scr) (w h y : Nat) (hy : y < h) (hys : s.grid.length ≤ y) :
    (s.resize w h).grid[y]? = some (blankRow w s.sty) := by
  simp only [Scr.resize]
  rw [List.getElem?_append, if_neg (by simp; omega), List.getElem?_replicate, if_pos]
  simp; omega

theorem row_eq_getElem (s : Scr) (y : Nat) (hy : y < s.grid.length) : s.row y = s.grid[y] := by
  simp [Scr.row, List.getD_eq_getElem?_getD, List.getElem?_eq_getElem hy]

theorem resize_row_old (s : Scr) (w h y : Nat) (hy : y < h) (hys : y < s.grid.length) :
    (s.resize w h).row y = fitRow (s.row y) w s.sty := by
  rw [row_eq_getElem s y hys]
  simp [Scr.row, List.getD_eq_getElem?_getD, resize_grid_old s w h y hy hys]

theorem resize_row_new (s : Scr) (w h y : Nat) (hy : y < h) (hys : s.grid.length ≤ y) :
    (s.resize w h).row y = blankRow w s.sty := by
  simp [Scr.row, List.getD_eq_getElem?_getD, resize_grid_new s w h y hy hys]

theorem row_length {s : Scr} (hg : GridOK s) {y : Nat} (hy : y < s.h) : (s.row y).length = s.w := by
  have hy' : y < s.grid.length := by rw [hg.1]; exact hy
  rw [row_eq_getElem s y hy']
  exact hg.2 _ (List.getElem_mem hy')

end Lemmas
open Lemmas

/-! ## 1. size -/

/-- `Size` after `Resize(w,h)` is `(w,h)`, the grid has exactly `h` rows and every row has exactly
    `w` cells — for every old state whatsoever. -/
theorem resize_size (s : Scr) (w h : Nat) :
    (s.resize w h).w = w ∧ (s.resize w h).h = h ∧ (s.resize w h).grid.length = h ∧
      ∀ r ∈ (s.resize w h).grid, r.length = w := by
  refine ⟨rfl, rfl, resize_grid_length s w h, ?_⟩
  intro r hr
  simp only [Scr.resize, List.mem_append, List.mem_map, List.mem_replicate] at hr
  rcases hr with ⟨r0, _, rfl⟩ | ⟨_, rfl⟩
  · simp
  · simp [blankRow]

/-- the result has a well-shaped grid (so `Scr.row y` for `y < h` is a row of `w` cells) -/
theorem resize_gridOK (s : Scr) (w h : Nat) : GridOK (s.resize w h) :=
  ⟨(resize_size s w h).2.2.1, (resize_size s w h).2.2.2⟩

/-! ## 2. the overlap -/

/-- Cell `(x,y)` of the old/new overlap keeps its text and attributes, except for the cells of a
    wide character cut by the new right edge (column `w` of the old row is a continuation cell):
    the cells of that character, `[hd, hd + width)` with `hd = headOf oldRow w`, are blanked in
    the current style. -/
theorem resize_overlap (s : Scr) (w h x y : Nat) (hg : GridOK s)
    (hy : y < min h s.h) (hx : x < min w s.w) :
    ((s.resize w h).row y)[x]? =
      if contAt (s.row y) w = true ∧ headOf (s.row y) w ≤ x ∧
          x < headOf (s.row y) w + widthAt (s.row y) (headOf (s.row y) w)
      then some (blank s.sty) else (s.row y)[x]? := by
  have hlen := row_length hg (y := y) (by omega)
  rw [resize_row_old s w h y (by omega) (by rw [hg.1]; omega)]
  exact getElem?_fitRow_old _ _ _ _ (by omega) (by omega)

/-- a wide character can only be cut when the screen gets narrower -/
theorem cut_only_when_narrower (s : Scr) (w y : Nat) (hg : GridOK s) (hy : y < s.h)
    (hc : contAt (s.row y) w = true) : w < s.w := by
  have := contAt_lt hc
  rwa [row_length hg hy] at this

/-- no character is cut (in particular whenever `w ≥ s.w`): the overlap is unchanged -/
theorem resize_overlap_uncut (s : Scr) (w h x y : Nat) (hg : GridOK s)
    (hy : y < min h s.h) (hx : x < min w s.w) (hc : contAt (s.row y) w = false) :
    ((s.resize w h).row y)[x]? = (s.row y)[x]? := by
  rw [resize_overlap s w h x y hg hy hx]; simp [hc]

theorem resize_overlap_wider (s : Scr) (w h x y : Nat) (hg : GridOK s)
    (hy : y < min h s.h) (hx : x < s.w) (hw : s.w ≤ w) :
    ((s.resize w h).row y)[x]? = (s.row y)[x]? := by
  apply resize_overlap_uncut s w h x y hg hy (by omega)
  apply contAt_ge
  rw [row_length hg (by omega)]; exact hw

/-- On a well-formed row (`rowWF`, part of `Scr.inv`) the cut character covers exactly
    `[headOf oldRow w, w)` of the new row: those cells become blanks, every other cell of the
    overlap is unchanged. -/
theorem resize_overlap_wf (s : Scr) (w h x y : Nat) (hg : GridOK s)
    (hy : y < min h s.h) (hx : x < min w s.w) (hwf : rowWF (s.row y) = true) :
    ((s.resize w h).row y)[x]? =
      if w < s.w ∧ contAt (s.row y) w = true ∧ headOf (s.row y) w ≤ x
      then some (blank s.sty) else (s.row y)[x]? := by
  rw [resize_overlap s w h x y hg hy hx]
  by_cases hc : contAt (s.row y) w = true
  · have hlt := cut_only_when_narrower s w y hg (by omega) hc
    obtain ⟨t, cw, st, hhd, h1, h2, _⟩ := wf_head hwf (contAt_lt hc)
    rw [widthAt_ch hhd]
    have : x < headOf (s.row y) w + max cw 1 := by omega
    simp [hc, hlt, this]
  · simp [hc]

/-! ## 3. new cells -/

/-- every cell of the new screen outside the old one is a blank in the current style -/
theorem resize_new_cells (s : Scr) (w h x y : Nat) (hg : GridOK s) (hy : y < h) (hx : x < w)
    (hnew : s.w ≤ x ∨ s.h ≤ y) : ((s.resize w h).row y)[x]? = some (blank s.sty) := by
  by_cases hys : y < s.h
  · have hxs : s.w ≤ x := by omega
    rw [resize_row_old s w h y hy (by rw [hg.1]; exact hys)]
    exact getElem?_fitRow_new _ _ _ _ hx (by rw [row_length hg hys]; exact hxs)
  · rw [resize_row_new s w h y hy (by rw [hg.1]; omega)]
    simp [blankRow, hx]

/-! ## 4. cursor, saved cursor, margins -/

/-- cursor, saved cursor and scroll region are inside the new screen — for every old state -/
theorem resize_valid (s : Scr) (w h : Nat) (hw : 1 ≤ w) (hh : 1 ≤ h) :
    let s' := s.resize w h
    s'.cx < w ∧ s'.cy < h ∧ s'.sx < w ∧ s'.sy < h ∧ s'.top ≤ s'.bot ∧ s'.bot < h := by
  simp only [Scr.resize, clampNat]
  refine ⟨?_, ?_, ?_, ?_, ?_, ?_⟩
  · split <;> omega
  · split <;> omega
  · split <;> omega
  · split <;> omega
  · omega
  · omega

/-- a cursor / saved cursor that is inside the new size does not move; one that is outside
    goes to column (row) 0 -/
theorem resize_cursor (s : Scr) (w h : Nat) :
    let s' := s.resize w h
    (s'.cx = if s.cx < w then s.cx else 0) ∧ (s'.cy = if s.cy < h then s.cy else 0) ∧
    (s'.sx = if s.sx < w then s.sx else 0) ∧ (s'.sy = if s.sy < h then s.sy else 0) :=
  ⟨rfl, rfl, rfl, rfl⟩

theorem resize_cursor_kept (s : Scr) (w h : Nat) :
    (s.cx < w → (s.resize w h).cx = s.cx) ∧ (s.cy < h → (s.resize w h).cy = s.cy) ∧
    (s.sx < w → (s.resize w h).sx = s.sx) ∧ (s.sy < h → (s.resize w h).sy = s.sy) := by
  simp only [Scr.resize]
  refine ⟨?_, ?_, ?_, ?_⟩ <;> intro hlt <;> simp [hlt]

/-- the scroll region: the bottom margin keeps its distance from the last row (clamped to the
    screen), the top margin is kept unless it would pass the bottom margin -/
theorem resize_margins (s : Scr) (w h : Nat) (hh : 1 ≤ h) (hb : s.bot < s.h) :
    let s' := s.resize w h
    (h - 1 - s'.bot = min (s.h - 1 - s.bot) (h - 1)) ∧ s'.top = min s.top s'.bot := by
  simp only [Scr.resize, clampNat]
  refine ⟨?_, trivial⟩
  omega

/-- full-screen margins stay full-screen -/
theorem resize_full_margins (s : Scr) (w h : Nat) (hs : 1 ≤ s.h) :
    (s.bot = s.h - 1 → (s.resize w h).bot = h - 1) ∧
    (s.top = 0 → (s.resize w h).top = 0) := by
  simp only [Scr.resize, clampNat]
  omega

/-- the other fields (style, autowrap) are untouched -/
theorem resize_other (s : Scr) (w h : Nat) :
    (s.resize w h).sty = s.sty ∧ (s.resize w h).wrap = s.wrap := ⟨rfl, rfl⟩

/-- the complete geometric invariant holds after every resize to a positive size, whatever the
    state before -/
theorem resize_geo (s : Scr) (w h : Nat) (hw : 1 ≤ w) (hh : 1 ≤ h) : Geo (s.resize w h) := by
  obtain ⟨a, b, c, d⟩ := resize_size s w h
  obtain ⟨e, f, g, i, j, k⟩ := resize_valid s w h hw hh
  refine ⟨?_, ?_, ?_, ?_, ?_, ?_, ?_, ?_, ?_, ?_⟩
  · rw [a]; exact hw
  · rw [b]; exact hh
  · rw [b]; exact c
  · rw [a]; exact d
  · rw [a]; exact e
  · rw [b]; exact f
  · rw [a]; exact g
  · rw [b]; exact i
  · exact j
  · rw [b]; exact k

/-! ## 5. "as on a terminal that always had that size" -/

/-- Resizing a valid screen to the size it already has changes nothing at all. -/
theorem resize_same_size (s : Scr) (hg : Geo s) : s.resize s.w s.h = s := by
  obtain ⟨_, h1, hl, hr, hcx, hcy, hsx, hsy, htb, hb⟩ := hg
  have hgrid : (List.map (fun r => fitRow r s.w s.sty) (s.grid.take s.h)) = s.grid := by
    rw [List.take_of_length_le (by omega)]
    conv => rhs; rw [← List.map_id s.grid]
    apply List.map_congr_left
    intro r hr'
    simpa using fitRow_self s.sty (hr r hr')
  have hbot : clampNat ((s.h : Int) - ((s.h : Int) - (s.bot : Int))) (s.h - 1) = s.bot := by
    unfold clampNat; omega
  cases s
  simp only [Scr.resize] at *
  simp only [hgrid, hbot, hcx, hcy, hsx, hsy, if_true]
  simp [hl, Nat.min_eq_left htb]

/-- growing a row and cutting it back gives the row back -/
theorem fitRow_grow_shrink (r : Row) (w : Nat) (st : Style) (hw : r.length ≤ w) :
    fitRow (fitRow r w st) r.length st = r := by
  by_cases he : r.length = w
  · rw [fitRow_self st he]; exact fitRow_self st rfl
  · have h1 : fitRow r w st = r ++ List.replicate (w - r.length) (blank st) := by
      unfold fitRow; rw [if_neg (by omega)]
    rw [h1]
    have hc : contAt (r ++ List.replicate (w - r.length) (blank st)) r.length = false := by
      apply contAt_blank (st := st)
      rw [List.getElem?_append, if_neg (by omega), List.getElem?_replicate, if_pos (by omega)]
    unfold fitRow
    rw [if_pos (by simp)]
    simp only [hc]
    exact List.take_left' rfl

/-- Growing the screen and shrinking it back to the old size restores the old state exactly:
    nothing is lost or invented by `Resize`. -/
theorem resize_grow_shrink (s : Scr) (hg : Geo s) (w h : Nat) (hw : s.w ≤ w) (hh : s.h ≤ h) :
    (s.resize w h).resize s.w s.h = s := by
  obtain ⟨w1, h1, hl, hr, hcx, hcy, hsx, hsy, htb, hb⟩ := hg
  have e1 : s.grid.take h = s.grid := List.take_of_length_le (by omega)
  have hgrid : (List.map (fun r => fitRow r s.w s.sty)
      (List.take s.h (List.map (fun r => fitRow r w s.sty) s.grid ++
        List.replicate (h - (List.map (fun r => fitRow r w s.sty) s.grid).length)
          (blankRow w s.sty)))) = s.grid := by
    rw [List.take_left' (by simp [hl]), List.map_map]
    conv => rhs; rw [← List.map_id s.grid]
    apply List.map_congr_left
    intro r hr'
    have := fitRow_grow_shrink r w s.sty (by rw [hr r hr']; exact hw)
    rw [hr r hr'] at this
    simpa using this
  have hbot : clampNat ((s.h : Int) - ((h : Int) -
      (clampNat ((h : Int) - ((s.h : Int) - (s.bot : Int))) (h - 1) : Nat))) (s.h - 1) = s.bot := by
    unfold clampNat; omega
  have hcx' : s.cx < w := by omega
  have hcy' : s.cy < h := by omega
  have hsx' : s.sx < w := by omega
  have hsy' : s.sy < h := by omega
  have htop : min (min s.top (clampNat ((h : Int) - ((s.h : Int) - (s.bot : Int))) (h - 1)))
      s.bot = s.top := by
    unfold clampNat; omega
  cases s
  simp only [Scr.resize] at *
  simp only [e1, hgrid, hbot, htop, hcx, hcy, hsx, hsy, hcx', hcy', hsx', hsy', if_true]
  simp [hl]

/-- Resizing twice to the same size is the same as resizing once (for every old state). -/
theorem resize_idem (s : Scr) (w h : Nat) (hw : 1 ≤ w) (hh : 1 ≤ h) :
    (s.resize w h).resize w h = s.resize w h :=
  resize_same_size _ (resize_geo s w h hw hh)

/-- A freshly created screen resized to `(w,h)` IS the freshly created screen of size `(w,h)`. -/
theorem resize_init (w0 h0 w h : Nat) : (Scr.init w0 h0).resize w h = Scr.init w h := by
  have hbot : clampNat ((h : Int) - ((h0 : Int) - ((h0 - 1 : Nat) : Int))) (h - 1) = h - 1 := by
    unfold clampNat; omega
  simp only [Scr.init, Scr.resize, hbot]
  simp only [List.take_replicate, List.map_replicate, fitRow_blankRow, List.length_replicate,
    List.replicate_append_replicate]
  have : min h h0 + (h - min h h0) = h := by omega
  simp only [this, Nat.zero_min]
  congr 1 <;> exact ite_self _

/-! ## 6. both buffers (`Term.resize`) -/

/-- the terminal-level geometric invariant: both buffers valid and of the same size -/
def TGeo (t : Term) : Prop := Geo t.main ∧ Geo t.alt ∧ t.main.w = t.alt.w ∧ t.main.h = t.alt.h

/-- `Resize` acts on both buffers with `Scr.resize`, and touches nothing else (which buffer is
    shown, view flags, mouse modes, titles, both keyboard-flag stacks, the text policy). -/
theorem term_resize_fields (t : Term) (w h : Nat) :
    let t' := (t.resize w h).1
    t'.main = t.main.resize w h ∧ t'.alt = t.alt.resize w h ∧ t'.onAlt = t.onAlt ∧
    t'.pol = t.pol ∧ t'.vflags = t.vflags ∧ t'.vints = t.vints ∧ t'.vstrs = t.vstrs ∧
    t'.kmain = t.kmain ∧ t'.kalt = t.kalt ∧ t'.scr = t.scr.resize w h := by
  refine ⟨rfl, rfl, rfl, rfl, rfl, rfl, rfl, rfl, rfl, ?_⟩
  simp only [Term.resize, Term.scr]
  split <;> rfl

/-- `Size` reports the new size on the active buffer, and the inactive one has it too -/
theorem term_resize_size (t : Term) (w h : Nat) :
    let t' := (t.resize w h).1
    t'.scr.w = w ∧ t'.scr.h = h ∧ t'.main.w = w ∧ t'.main.h = h ∧ t'.alt.w = w ∧ t'.alt.h = h := by
  refine ⟨?_, ?_, rfl, rfl, rfl, rfl⟩ <;> simp only [Term.resize, Term.scr] <;> split <;> rfl

/-- the overlap / new-cell description holds for the main and for the alternate buffer, whichever
    is active -/
theorem term_resize_cells (t : Term) (w h x y : Nat) (hx : x < w) (hy : y < h)
    (b : Term → Scr) (hb : b = Term.main ∨ b = Term.alt) (hg : GridOK (b t)) :
    let old := b t
    let new := b (t.resize w h).1
    (y < old.h → x < old.w →
      (new.row y)[x]? =
        if contAt (old.row y) w = true ∧ headOf (old.row y) w ≤ x ∧
            x < headOf (old.row y) w + widthAt (old.row y) (headOf (old.row y) w)
        then some (blank old.sty) else (old.row y)[x]?) ∧
    (old.w ≤ x ∨ old.h ≤ y → (new.row y)[x]? = some (blank old.sty)) := by
  have hnew : b (t.resize w h).1 = (b t).resize w h := by
    rcases hb with rfl | rfl <;> rfl
  simp only [hnew]
  exact ⟨fun h1 h2 => resize_overlap _ w h x y hg (by omega) (by omega),
    fun h1 => resize_new_cells _ w h x y hg hy hx h1⟩

/-- after `Resize(w,h)` with `w,h ≥ 1` the terminal is a valid `w × h` terminal, whatever it was
    before: this is what makes every later input behave as on a terminal of that size (all
    later processing starts from a state satisfying the invariant of a `w × h` terminal, see
    `C02.apply_geo`). -/
theorem term_resize_geo (t : Term) (w h : Nat) (hw : 1 ≤ w) (hh : 1 ≤ h) :
    TGeo (t.resize w h).1 ∧ (t.resize w h).1.scr.w = w ∧ (t.resize w h).1.scr.h = h :=
  ⟨⟨resize_geo t.main w h hw hh, resize_geo t.alt w h hw hh, rfl, rfl⟩,
    (term_resize_size t w h).1, (term_resize_size t w h).2.1⟩

/-- the events of a resize: both renditions, then cursor and rendition of the active buffer;
    the reported cursor is inside the new screen -/
theorem term_resize_events (t : Term) (w h : Nat) (hw : 1 ≤ w) (hh : 1 ≤ h) :
    let s' := t.scr.resize w h       -- the new active screen, see `term_resize_fields`
    (t.resize w h).2 = [.style t.main.sty, .style t.alt.sty, .cursor s'.cx s'.cy, .style t.scr.sty] ∧
    s'.cx < w ∧ s'.cy < h := by
  obtain ⟨a, b, _⟩ := resize_valid t.scr w h hw hh
  refine ⟨?_, a, b⟩
  obtain ⟨pol, main, alt, onAlt, vf, vi, vs, km, ka⟩ := t
  cases onAlt <;> rfl

/-- A valid terminal resized to the size it already has is unchanged: it behaves afterwards
    exactly as if the `Resize` had not happened. -/
theorem term_resize_same_size (t : Term) (hg : TGeo t) : (t.resize t.main.w t.main.h).1 = t := by
  obtain ⟨hm, ha, hw, hh⟩ := hg
  have h1 : t.main.resize t.main.w t.main.h = t.main := resize_same_size _ hm
  have h2 : t.alt.resize t.main.w t.main.h = t.alt := by rw [hw, hh]; exact resize_same_size _ ha
  simp only [Term.resize, h1, h2]

/-- A freshly created terminal resized to `(w,h)` is the freshly created `w × h` terminal: it
    behaves afterwards exactly as a terminal that always had that size. -/
theorem term_resize_init (pol : WidePolicy) (w0 h0 w h : Nat) :
    ((Term.init pol w0 h0).resize w h).1 = Term.init pol w h := by
  simp only [Term.resize, Term.init, resize_init]

/-- `Resize` twice to the same size = once -/
theorem term_resize_idem (t : Term) (w h : Nat) (hw : 1 ≤ w) (hh : 1 ≤ h) :
    ((t.resize w h).1.resize w h).1 = (t.resize w h).1 := by
  have := term_resize_same_size (t.resize w h).1 (term_resize_geo t w h hw hh).1
  exact this

/-! ## 7. (bonus) well-formedness of rows -/

/-- `fitRow` keeps rows well formed (no orphan continuation cell, no wide character sticking
    out), for every new width -/
theorem fitRow_rowWF (r : Row) (w : Nat) (st : Style) (hwf : rowWF r = true) :
    rowWF (fitRow r w st) = true := by
  by_cases hc : contAt r w = true
  · rw [fitRow_cut_eq st hwf hc]
    have hle := headOf_le r w
    have hw := contAt_lt hc
    obtain ⟨t, cw, st', hhd, _⟩ := wf_head hwf hw
    exact rowWF_takeBlanks r _ _ st hwf (by omega) (contAt_ch hhd)
  · have hc' : contAt r w = false := by simpa using hc
    by_cases hlen : w ≤ r.length
    · have : fitRow r w st = r.take w ++ List.replicate 0 (blank st) := by
        unfold fitRow; simp [hlen, hc']
      rw [this]
      exact rowWF_takeBlanks r w 0 st hwf hlen hc'
    · have : fitRow r w st = r.take r.length ++ List.replicate (w - r.length) (blank st) := by
        unfold fitRow; rw [if_neg (by omega), List.take_length]
      rw [this]
      exact rowWF_takeBlanks r _ _ st hwf (Nat.le_refl _) (contAt_ge (Nat.le_refl _))

/-- the whole screen invariant `Scr.inv` (geometry and well-formed rows) holds after a resize of
    a screen whose rows were well formed -/
theorem resize_inv (s : Scr) (w h : Nat) (hw : 1 ≤ w) (hh : 1 ≤ h)
    (hwf : ∀ r ∈ s.grid, rowWF r = true) : (s.resize w h).inv = true := by
  obtain ⟨g1, g2, g3, g4, g5, g6, g7, g8, g9, g10⟩ := resize_geo s w h hw hh
  simp only [Scr.inv, Bool.and_eq_true, decide_eq_true_eq, List.all_eq_true]
  refine ⟨⟨⟨⟨⟨⟨⟨⟨⟨g1, g2⟩, g3⟩, ?_⟩, g5⟩, g6⟩, g7⟩, g8⟩, g9⟩, g10⟩
  intro r hr
  refine ⟨g4 r hr, ?_⟩
  simp only [Scr.resize, List.mem_append, List.mem_map, List.mem_replicate] at hr
  rcases hr with ⟨r0, hr0, rfl⟩ | ⟨_, rfl⟩
  · exact fitRow_rowWF r0 w s.sty (hwf r0 (List.mem_of_mem_take hr0))
  · have := rowWF_takeBlanks [] 0 w s.sty (by decide) (Nat.le_refl _) (by decide)
    simpa [blankRow] using this

/-! ## Non-vacuity -/
section Examples

/-- 4 × 2 screen, row 0 = `a`, a double-width character, a blank; cursor in the last column of
    the last row; saved cursor (2,1); margins 0..1 -/
def exS : Scr :=
  { w := 4, h := 2,
    grid := [[⟨.ch [0x61] 1, Style.default⟩, ⟨.ch [0xe4, 0xb8, 0xad] 2, Style.default⟩,
              ⟨.cont, Style.default⟩, blank Style.default],
             [⟨.ch [0x62] 1, Style.default⟩, blank Style.default, blank Style.default,
              ⟨.ch [0x63] 1, Style.default⟩]],
    cx := 3, cy := 1, sx := 2, sy := 1, top := 0, bot := 1, wrap := true, sty := Style.default }

example : Geo exS := by simp [Geo, exS, blank]
example : GridOK exS := by simp [GridOK, exS, blank]
example : exS.inv = true := by decide
-- the hypotheses of `resize_overlap_wf` hold, and the cut really happens: shrinking to width 2
-- cuts the wide character at columns 1–2, column 1 becomes a blank, column 0 is kept
example : contAt (exS.row 0) 2 = true ∧ headOf (exS.row 0) 2 = 1 ∧ rowWF (exS.row 0) = true := by
  decide
example : ((exS.resize 2 3).row 0)[1]? = some (blank Style.default) := by decide
example : ((exS.resize 2 3).row 0)[0]? = (exS.row 0)[0]? := by decide
example : ((exS.resize 2 3).row 2)[1]? = some (blank Style.default) := by decide
-- cursor outside the new width goes to column 0, the row is kept; margins stay full-screen
example : (exS.resize 2 3).cx = 0 ∧ (exS.resize 2 3).cy = 1 ∧ (exS.resize 2 3).sx = 0 ∧
    (exS.resize 2 3).top = 0 ∧ (exS.resize 2 3).bot = 2 := by decide
-- growing keeps everything
example : (exS.resize 6 2).row 0 = exS.row 0 ++ [blank Style.default, blank Style.default] := by
  decide
example : TGeo (Term.init .keep 80 24) := by
  simp [TGeo, Geo, Term.init, Scr.init, blankRow]

end Examples

end TM.C18

#print axioms TM.C18.resize_size
#print axioms TM.C18.resize_overlap
#print axioms TM.C18.resize_overlap_uncut
#print axioms TM.C18.resize_overlap_wider
#print axioms TM.C18.resize_overlap_wf
#print axioms TM.C18.cut_only_when_narrower
#print axioms TM.C18.resize_new_cells
#print axioms TM.C18.resize_valid
#print axioms TM.C18.resize_cursor_kept
#print axioms TM.C18.resize_margins
#print axioms TM.C18.resize_full_margins
#print axioms TM.C18.resize_geo
#print axioms TM.C18.resize_same_size
#print axioms TM.C18.resize_idem
#print axioms TM.C18.resize_grow_shrink
#print axioms TM.C18.resize_init
#print axioms TM.C18.term_resize_fields
#print axioms TM.C18.term_resize_size
#print axioms TM.C18.term_resize_cells
#print axioms TM.C18.term_resize_geo
#print axioms TM.C18.term_resize_events
#print axioms TM.C18.term_resize_same_size
#print axioms TM.C18.term_resize_init
#print axioms TM.C18.term_resize_idem
#print axioms TM.C18.fitRow_rowWF
#print axioms TM.C18.resize_inv
