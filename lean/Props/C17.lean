import TM.Run
/-!
# C17 — the two buffers are independent; DEC private modes are level-triggered and reported

"The main and alternate buffers keep independent content, cursor, scroll region, autowrap
setting and keyboard-flag stack; output while one is active never changes what the other shows
when it is re-entered. DEC private modes are level-triggered: setting a mode that is already
set (in particular ?1049h / ?1049l) changes nothing, and each set/reset is reported to the
frontend with the value now in force."

Model: `Term` has `main alt : Scr` (a `Scr` holds grid, cursor, saved cursor, margins, autowrap,
rendition), `kmain kalt : Kbd` (flags + stack), `onAlt`. `Term.apply` is the effect of a token.
-/
namespace TM.C17
open TM

/-! ## vocabulary -/

/-- `CSI ? … h` / `CSI ? … l` (clean) whose parameters contain 1049 — the only tokens that can
    change which buffer is active -/
def isSwitch : Tok → Bool
  | .csi pfx ps clean fin => pfx == 0x3f && clean && (fin == 0x68 || fin == 0x6c) && ps.contains 1049
  | _ => false

/-- the state after a list of tokens -/
def stateAfter (cw : Nat → Nat) (t : Term) (toks : List Tok) : Term :=
  toks.foldl (fun t tk => (Term.apply cw t tk).1) t

/-- `t'` differs from `t` at most in the ACTIVE buffer, the ACTIVE keyboard state and the view
    state (flags / ints / strings, whose lengths stay the same); the same buffer is active -/
structure OnlyActive (t t' : Term) : Prop where
  onAlt : t'.onAlt = t.onAlt
  pol : t'.pol = t.pol
  vlen : t'.vflags.length = t.vflags.length ∧ t'.vints.length = t.vints.length
  whenMain : t.onAlt = false → t'.alt = t.alt ∧ t'.kalt = t.kalt
  whenAlt : t.onAlt = true → t'.main = t.main ∧ t'.kmain = t.kmain

/-- `t'` differs from `t` at most in `onAlt`, the view flags / ints, and the `wrap` field of the
    two buffers: content, cursor, saved cursor, margins, rendition and both keyboard states are
    the same -/
structure WrapOnly (t t' : Term) : Prop where
  pol : t'.pol = t.pol
  vlen : t'.vflags.length = t.vflags.length ∧ t'.vints.length = t.vints.length
  main : t'.main = { t.main with wrap := t'.main.wrap }
  alt : t'.alt = { t.alt with wrap := t'.alt.wrap }
  kmain : t'.kmain = t.kmain
  kalt : t'.kalt = t.kalt
  vstrs : t'.vstrs = t.vstrs

/-- `t` with the INACTIVE buffer and the INACTIVE keyboard state replaced -/
def withInactive (t : Term) (s : Scr) (k : Kbd) : Term :=
  if t.onAlt then { t with main := s, kmain := k } else { t with alt := s, kalt := k }

/-- the frontend notification attached to a DEC private mode -/
inductive Notif
  | flag (i : Nat)             -- view flag `i` := the mode's value
  | int (i : Nat) (on : Int)   -- view int `i` := `on` when set, `0` when reset
deriving DecidableEq, Repr

/-- the modes that have a frontend notification (view-flag / view-int numbering of
    `frontend.go`: flags 0 blink cursor, 1 show cursor, 2 report focus, 3 bracketed paste,
    4 application cursor keys; ints 0 mouse mode, 1 mouse encoding) -/
def modeTable (p : Int) : Option Notif :=
  if p = 1 then some (.flag 4)
  else if p = 9 then some (.int 0 1)
  else if p = 12 then some (.flag 0)
  else if p = 25 then some (.flag 1)
  else if p = 1000 then some (.int 0 2)
  else if p = 1002 then some (.int 0 3)
  else if p = 1003 then some (.int 0 4)
  else if p = 1004 then some (.flag 2)
  else if p = 1005 then some (.int 1 1)
  else if p = 1006 then some (.int 1 2)
  else if p = 1015 then some (.int 1 1)
  else if p = 2004 then some (.flag 3)
  else none

/-! ## helper lemmas -/
namespace Lemmas

theorem oa_refl (t : Term) : OnlyActive t t :=
  ⟨rfl, rfl, ⟨rfl, rfl⟩, fun _ => ⟨rfl, rfl⟩, fun _ => ⟨rfl, rfl⟩⟩

theorem oa_trans {a b c : Term} (h1 : OnlyActive a b) (h2 : OnlyActive b c) : OnlyActive a c where
  onAlt := h2.onAlt.trans h1.onAlt
  pol := h2.pol.trans h1.pol
  vlen := ⟨h2.vlen.1.trans h1.vlen.1, h2.vlen.2.trans h1.vlen.2⟩
  whenMain h := by
    have a1 := h1.whenMain h
    have a2 := h2.whenMain (h1.onAlt.trans h)
    exact ⟨a2.1.trans a1.1, a2.2.trans a1.2⟩
  whenAlt h := by
    have a1 := h1.whenAlt h
    have a2 := h2.whenAlt (h1.onAlt.trans h)
    exact ⟨a2.1.trans a1.1, a2.2.trans a1.2⟩

theorem oa_setScr (t : Term) (s : Scr) : OnlyActive t (t.setScr s) := by
  unfold Term.setScr
  cases h : t.onAlt <;> constructor <;> simp [h]

theorem oa_setKbd (t : Term) (k : Kbd) : OnlyActive t (t.setKbd k) := by
  unfold Term.setKbd
  cases h : t.onAlt <;> constructor <;> simp [h]

theorem oa_withScr (t : Term) (s : Scr) : OnlyActive t (t.withScr s).1 := oa_setScr t s

theorem oa_setVFlag (t : Term) (i : Nat) (v : Bool) : OnlyActive t (t.setVFlag i v).1 := by
  constructor <;> simp [Term.setVFlag]

theorem oa_setVInt (t : Term) (i : Nat) (v : Int) : OnlyActive t (t.setVInt i v).1 := by
  constructor <;> simp [Term.setVInt]

theorem oa_setVStr (t : Term) (i : Nat) (v : Bytes) : OnlyActive t (t.setVStr i v).1 := by
  constructor <;> simp [Term.setVStr]

theorem oa_ite {t : Term} {c : Prop} [Decidable c] {a b : Term × List Ev}
    (ha : OnlyActive t a.1) (hb : OnlyActive t b.1) : OnlyActive t (if c then a else b).1 := by
  split <;> assumption

theorem oa_dite {t : Term} {c : Prop} [Decidable c] {a b : Term × List Ev}
    (ha : c → OnlyActive t a.1) (hb : ¬c → OnlyActive t b.1) : OnlyActive t (if c then a else b).1 := by
  split
  · exact ha ‹_›
  · exact hb ‹_›

/-- close an `OnlyActive t (if … then … else …).1` goal whose leaves are the primitives -/
macro "oa_leaves" : tactic =>
  `(tactic| repeat' (first
      | exact oa_refl _
      | exact oa_setScr _ _
      | exact oa_setKbd _ _
      | exact oa_withScr _ _
      | exact oa_setVFlag _ _ _
      | exact oa_setVInt _ _ _
      | exact oa_setVStr _ _ _
      | apply oa_ite))

theorem oa_csiPlain (t : Term) (ps : List Int) (fin : UInt8) : OnlyActive t (t.csiPlain ps fin).1 := by
  simp only [Term.csiPlain]
  oa_leaves


theorem oa_decMode (t : Term) (p : Int) (v : Bool) (h : p ≠ 1049) : OnlyActive t (t.decMode p v).1 := by
  unfold Term.decMode
  repeat' (first
    | exact oa_refl _ | exact oa_setScr _ _ | exact oa_setVFlag _ _ _ | exact oa_setVInt _ _ _
    | (apply oa_dite <;> intro _))
  contradiction

theorem decMode_1049 (t : Term) (v : Bool) : t.decMode 1049 v = t.switchScreen v := rfl

theorem decMode_7 (t : Term) (v : Bool) :
    t.decMode 7 v = (t.setScr { t.scr with wrap := v }, []) := rfl

theorem decMode_onAlt (t : Term) (p : Int) (v : Bool) :
    (t.decMode p v).1.onAlt = if p = 1049 then v else t.onAlt := by
  by_cases h : p = 1049
  · subst h
    rw [decMode_1049]
    unfold Term.switchScreen
    split <;> simp_all
  · simp only [h, if_false]
    exact (oa_decMode t p v h).onAlt

theorem decModes_cons (t : Term) (v : Bool) (p : Int) (ps : List Int) :
    t.decModes v (p :: ps) =
      (((t.decMode p v).1.decModes v ps).1, (t.decMode p v).2 ++ ((t.decMode p v).1.decModes v ps).2) := rfl

theorem decModes_onAlt (t : Term) (v : Bool) (ps : List Int) :
    (t.decModes v ps).1.onAlt = if 1049 ∈ ps then v else t.onAlt := by
  induction ps generalizing t with
  | nil => simp [Term.decModes]
  | cons p ps ih =>
    rw [decModes_cons]
    simp only [ih, decMode_onAlt, List.mem_cons]
    by_cases h1 : p = 1049 <;> by_cases h2 : 1049 ∈ ps <;> simp [h1, h2, eq_comm]

theorem oa_decModes (t : Term) (v : Bool) (ps : List Int) (h : 1049 ∉ ps) :
    OnlyActive t (t.decModes v ps).1 := by
  induction ps generalizing t with
  | nil => exact oa_refl _
  | cons p ps ih =>
    rw [decModes_cons]
    simp only [List.mem_cons, not_or] at h
    exact oa_trans (oa_decMode t p v (Ne.symm h.1)) (ih _ h.2)

/-- a `decModes` that ends on the buffer it started on only touched that buffer -/
theorem oa_decModes_of_onAlt (t : Term) (v : Bool) (ps : List Int)
    (h : (t.decModes v ps).1.onAlt = t.onAlt) : OnlyActive t (t.decModes v ps).1 := by
  induction ps generalizing t with
  | nil => exact oa_refl _
  | cons p ps ih =>
    rw [decModes_cons] at h ⊢
    by_cases hp : p = 1049
    · subst hp
      by_cases hv : t.onAlt = v
      · have : t.decMode 1049 v = (t, []) := by simp [decMode_1049, Term.switchScreen, hv]
        rw [this] at h ⊢
        exact ih t h
      · exfalso
        simp only [decModes_onAlt, decMode_onAlt, if_true, ite_self] at h
        exact hv h.symm
    · have h1 := oa_decMode t p v hp
      exact oa_trans h1 (ih _ (h.trans h1.onAlt.symm))


theorem oa_csi (t : Term) (pfx : UInt8) (ps : List Int) (fin : UInt8)
    (h : ¬(pfx = 0x3f ∧ (fin = 0x68 ∨ fin = 0x6c) ∧ 1049 ∈ ps)) : OnlyActive t (t.csi pfx ps fin).1 := by
  unfold Term.csi
  repeat' (first
    | exact oa_refl _ | exact oa_csiPlain _ _ _ | exact oa_setKbd _ _
    | (apply oa_dite <;> intro _))
  · exact oa_decModes _ _ _ (fun hm => h ⟨‹pfx = 63›, .inl ‹fin = 104›, hm⟩)
  · exact oa_decModes _ _ _ (fun hm => h ⟨‹pfx = 63›, .inr ‹fin = 108›, hm⟩)
  · split
    · split
      · exact oa_setVInt _ _ _
      · exact oa_refl _
    · exact oa_refl _

theorem isSwitch_false_iff (pfx : UInt8) (ps : List Int) (clean : Bool) (fin : UInt8) :
    isSwitch (.csi pfx ps clean fin) = false ↔
      ¬(pfx = 0x3f ∧ clean = true ∧ (fin = 0x68 ∨ fin = 0x6c) ∧ 1049 ∈ ps) := by
  simp [isSwitch]

/-- a token that is not a buffer switch touches only the active buffer / keyboard state -/
theorem oa_apply (cw : Nat → Nat) (t : Term) (tok : Tok) (h : isSwitch tok = false) :
    OnlyActive t (Term.apply cw t tok).1 := by
  cases tok with
  | text s cp => exact oa_setScr _ _
  | ctl b => simp only [Term.apply]; oa_leaves
  | esc i f => simp only [Term.apply]; oa_leaves
  | csi pfx ps clean fin =>
    simp only [Term.apply]
    cases clean
    · exact oa_refl _
    · rw [isSwitch_false_iff] at h
      simp only [if_true]
      exact oa_csi t pfx ps fin (fun hh => h ⟨hh.1, rfl, hh.2⟩)
  | osc n pl wf => simp only [Term.apply]; oa_leaves
  | dcs => exact oa_refl _

theorem oa_stateAfter (cw : Nat → Nat) (t : Term) (toks : List Tok)
    (h : ∀ tk ∈ toks, isSwitch tk = false) : OnlyActive t (stateAfter cw t toks) := by
  unfold stateAfter
  induction toks generalizing t with
  | nil => exact oa_refl _
  | cons tk tks ih =>
    simp only [List.foldl_cons]
    exact oa_trans (oa_apply cw t tk (h tk (by simp))) (ih _ (fun x hx => h x (by simp [hx])))

/-! ### `WrapOnly` -/

theorem wo_refl (t : Term) : WrapOnly t t := ⟨rfl, ⟨rfl, rfl⟩, rfl, rfl, rfl, rfl, rfl⟩

theorem wo_trans {a b c : Term} (h1 : WrapOnly a b) (h2 : WrapOnly b c) : WrapOnly a c where
  pol := h2.pol.trans h1.pol
  vlen := ⟨h2.vlen.1.trans h1.vlen.1, h2.vlen.2.trans h1.vlen.2⟩
  main := by rw [h2.main, h1.main]
  alt := by rw [h2.alt, h1.alt]
  kmain := h2.kmain.trans h1.kmain
  kalt := h2.kalt.trans h1.kalt
  vstrs := h2.vstrs.trans h1.vstrs

theorem wo_setVFlag (t : Term) (i : Nat) (v : Bool) : WrapOnly t (t.setVFlag i v).1 := by
  constructor <;> simp [Term.setVFlag]

theorem wo_setVInt (t : Term) (i : Nat) (v : Int) : WrapOnly t (t.setVInt i v).1 := by
  constructor <;> simp [Term.setVInt]

theorem wo_setWrap (t : Term) (v : Bool) : WrapOnly t (t.setScr { t.scr with wrap := v }) := by
  unfold Term.setScr Term.scr
  cases h : t.onAlt <;> constructor <;> simp

theorem wo_switchScreen (t : Term) (v : Bool) : WrapOnly t (t.switchScreen v).1 := by
  unfold Term.switchScreen
  split
  · exact wo_refl _
  · constructor <;> simp

theorem wo_dite {t : Term} {c : Prop} [Decidable c] {a b : Term × List Ev}
    (ha : c → WrapOnly t a.1) (hb : ¬c → WrapOnly t b.1) : WrapOnly t (if c then a else b).1 := by
  split
  · exact ha ‹_›
  · exact hb ‹_›

theorem wo_decMode (t : Term) (p : Int) (v : Bool) : WrapOnly t (t.decMode p v).1 := by
  unfold Term.decMode
  repeat' (first
    | exact wo_refl _ | exact wo_setWrap _ _ | exact wo_setVFlag _ _ _ | exact wo_setVInt _ _ _
    | exact wo_switchScreen _ _
    | (apply wo_dite <;> intro _))

theorem wo_decModes (t : Term) (v : Bool) (ps : List Int) : WrapOnly t (t.decModes v ps).1 := by
  induction ps generalizing t with
  | nil => exact wo_refl _
  | cons p ps ih =>
    rw [decModes_cons]
    exact wo_trans (wo_decMode t p v) (ih _)


/-! ### the mode table, case by case -/

theorem mode_cases (p : Int) :
    p = 1 ∨ p = 7 ∨ p = 9 ∨ p = 12 ∨ p = 25 ∨ p = 1000 ∨ p = 1002 ∨ p = 1003 ∨ p = 1004 ∨ p = 1005 ∨
    p = 1006 ∨ p = 1015 ∨ p = 1049 ∨ p = 2004 ∨
    (p ≠ 1 ∧ p ≠ 7 ∧ p ≠ 9 ∧ p ≠ 12 ∧ p ≠ 25 ∧ p ≠ 1000 ∧ p ≠ 1002 ∧ p ≠ 1003 ∧ p ≠ 1004 ∧ p ≠ 1005 ∧
      p ≠ 1006 ∧ p ≠ 1015 ∧ p ≠ 1049 ∧ p ≠ 2004) := by omega

theorem decMode_unknown (t : Term) (p : Int) (v : Bool)
    (h : p ≠ 1 ∧ p ≠ 7 ∧ p ≠ 9 ∧ p ≠ 12 ∧ p ≠ 25 ∧ p ≠ 1000 ∧ p ≠ 1002 ∧ p ≠ 1003 ∧ p ≠ 1004 ∧ p ≠ 1005 ∧
      p ≠ 1006 ∧ p ≠ 1015 ∧ p ≠ 1049 ∧ p ≠ 2004) : t.decMode p v = (t, []) := by
  obtain ⟨h1, h2, h3, h4, h5, h6, h7, h8, h9, h10, h11, h12, h13, h14⟩ := h
  simp only [Term.decMode, h1, h2, h3, h4, h5, h6, h7, h8, h9, h10, h11, h12, h13, h14, if_false]

theorem decMode_flag (t : Term) (p : Int) (v : Bool) (i : Nat) (h : modeTable p = some (.flag i)) :
    t.decMode p v = t.setVFlag i v := by
  rcases mode_cases p with h' | h' | h' | h' | h' | h' | h' | h' | h' | h' | h' | h' | h' | h' | h'
  all_goals first
    | (subst h'; simp [modeTable] at h; subst h; rfl)
    | (subst h'; simp [modeTable] at h)
    | (obtain ⟨h1, h2, h3, h4, h5, h6, h7, h8, h9, h10, h11, h12, h13, h14⟩ := h'
       simp [modeTable, *] at h)

theorem decMode_int (t : Term) (p : Int) (v : Bool) (i : Nat) (on : Int)
    (h : modeTable p = some (.int i on)) :
    t.decMode p v = t.setVInt i (if v then on else 0) := by
  rcases mode_cases p with h' | h' | h' | h' | h' | h' | h' | h' | h' | h' | h' | h' | h' | h' | h'
  all_goals first
    | (subst h'; simp [modeTable] at h; obtain ⟨rfl, rfl⟩ := h; rfl)
    | (subst h'; simp [modeTable] at h)
    | (obtain ⟨h1, h2, h3, h4, h5, h6, h7, h8, h9, h10, h11, h12, h13, h14⟩ := h'
       simp [modeTable, *] at h)

theorem decMode_none (t : Term) (p : Int) (v : Bool) (h : modeTable p = none) (h7 : p ≠ 7)
    (h1049 : p ≠ 1049) : t.decMode p v = (t, []) := by
  rcases mode_cases p with h' | h' | h' | h' | h' | h' | h' | h' | h' | h' | h' | h' | h' | h' | h'
  all_goals first
    | exact decMode_unknown t p v h'
    | contradiction
    | (subst h'; simp [modeTable] at h)

theorem setWrap_idem (t : Term) (v : Bool) :
    (t.setScr { t.scr with wrap := v }).setScr { (t.setScr { t.scr with wrap := v }).scr with wrap := v }
      = t.setScr { t.scr with wrap := v } := by
  unfold Term.setScr Term.scr
  cases h : t.onAlt <;> simp

theorem switchScreen_idem (t : Term) (v : Bool) :
    (t.switchScreen v).1.switchScreen v = ((t.switchScreen v).1, []) := by
  unfold Term.switchScreen
  by_cases h : t.onAlt = v <;> simp [h]


theorem set_same {α : Type} (l : List α) (i : Nat) (a : α) (h : l[i]? = some a) : l.set i a = l := by
  apply List.ext_getElem?
  intro j
  rw [List.getElem?_set]
  split
  · next hij => subst hij; split <;> simp_all
  · rfl


/-- every mode except 7 leaves both buffers alone -/
theorem decMode_bufs (t : Term) (p : Int) (v : Bool) (h7 : p ≠ 7) :
    (t.decMode p v).1.main = t.main ∧ (t.decMode p v).1.alt = t.alt := by
  rcases mode_cases p with h | h | h | h | h | h | h | h | h | h | h | h | h | h | h
  case inr.inr.inr.inr.inr.inr.inr.inr.inr.inr.inr.inr.inr.inr =>
    simp [decMode_unknown _ p v h]
  case inr.inl => exact absurd h h7
  case inr.inr.inr.inr.inr.inr.inr.inr.inr.inr.inr.inr.inl =>
    subst h
    rw [decMode_1049]; unfold Term.switchScreen; split <;> simp
  all_goals
    subst h
    simp [Term.decMode, Term.setVFlag, Term.setVInt]


/-! ### non-interference: the inactive buffer is not read either -/

/-- `Rel s k a b`: `a` is `b` with the inactive buffer / keyboard state replaced by `s`, `k` -/
def Rel (s : Scr) (k : Kbd) (a b : Term × List Ev) : Prop := a = (withInactive b.1 s k, b.2)

theorem wi_scr (t : Term) (s : Scr) (k : Kbd) : (withInactive t s k).scr = t.scr := by
  unfold withInactive Term.scr; cases h : t.onAlt <;> simp

theorem wi_kbd (t : Term) (s : Scr) (k : Kbd) : (withInactive t s k).kbd = t.kbd := by
  unfold withInactive Term.kbd; cases h : t.onAlt <;> simp

theorem wi_pol (t : Term) (s : Scr) (k : Kbd) : (withInactive t s k).pol = t.pol := by
  unfold withInactive; cases h : t.onAlt <;> simp

theorem wi_setScr (t : Term) (s : Scr) (k : Kbd) (x : Scr) :
    (withInactive t s k).setScr x = withInactive (t.setScr x) s k := by
  unfold withInactive Term.setScr; cases h : t.onAlt <;> simp

theorem wi_setKbd (t : Term) (s : Scr) (k : Kbd) (x : Kbd) :
    (withInactive t s k).setKbd x = withInactive (t.setKbd x) s k := by
  unfold withInactive Term.setKbd; cases h : t.onAlt <;> simp

theorem rel_mk (s : Scr) (k : Kbd) (t : Term) (e : List Ev) : Rel s k (withInactive t s k, e) (t, e) := rfl

theorem rel_setVFlag (s : Scr) (k : Kbd) (t : Term) (i : Nat) (v : Bool) :
    Rel s k ((withInactive t s k).setVFlag i v) (t.setVFlag i v) := by
  unfold Rel withInactive Term.setVFlag; cases h : t.onAlt <;> simp

theorem rel_setVInt (s : Scr) (k : Kbd) (t : Term) (i : Nat) (v : Int) :
    Rel s k ((withInactive t s k).setVInt i v) (t.setVInt i v) := by
  unfold Rel withInactive Term.setVInt; cases h : t.onAlt <;> simp

theorem rel_setVStr (s : Scr) (k : Kbd) (t : Term) (i : Nat) (v : Bytes) :
    Rel s k ((withInactive t s k).setVStr i v) (t.setVStr i v) := by
  unfold Rel withInactive Term.setVStr; cases h : t.onAlt <;> simp

theorem rel_dite {s : Scr} {k : Kbd} {c : Prop} [Decidable c] {a1 a2 b1 b2 : Term × List Ev}
    (h1 : c → Rel s k a1 b1) (h2 : ¬c → Rel s k a2 b2) :
    Rel s k (if c then a1 else a2) (if c then b1 else b2) := by
  split
  · exact h1 ‹_›
  · exact h2 ‹_›

macro "rel_leaves" : tactic =>
  `(tactic| repeat' (first
      | exact rel_mk _ _ _ _
      | exact rel_setVFlag _ _ _ _ _
      | exact rel_setVInt _ _ _ _ _
      | exact rel_setVStr _ _ _ _ _
      | (apply rel_dite <;> intro _)))

theorem rel_csiPlain (s : Scr) (k : Kbd) (t : Term) (ps : List Int) (fin : UInt8) :
    Rel s k ((withInactive t s k).csiPlain ps fin) (t.csiPlain ps fin) := by
  simp only [Term.csiPlain, Term.withScr, wi_scr, wi_setScr]
  rel_leaves


theorem rel_decMode (s : Scr) (k : Kbd) (t : Term) (p : Int) (v : Bool) (h : p ≠ 1049) :
    Rel s k ((withInactive t s k).decMode p v) (t.decMode p v) := by
  simp only [Term.decMode, wi_scr, wi_setScr]
  rel_leaves
  contradiction

theorem rel_decModes (s : Scr) (k : Kbd) (t : Term) (v : Bool) (ps : List Int) (h : 1049 ∉ ps) :
    Rel s k ((withInactive t s k).decModes v ps) (t.decModes v ps) := by
  induction ps generalizing t with
  | nil => exact rel_mk _ _ _ _
  | cons p ps ih =>
    simp only [List.mem_cons, not_or] at h
    have h1 := rel_decMode s k t p v (Ne.symm h.1)
    have h2 := ih (t.decMode p v).1 h.2
    unfold Rel at h1 h2 ⊢
    rw [decModes_cons, decModes_cons, h1]
    simp only [h2]

theorem rel_csi (s : Scr) (k : Kbd) (t : Term) (pfx : UInt8) (ps : List Int) (fin : UInt8)
    (h : ¬(pfx = 0x3f ∧ (fin = 0x68 ∨ fin = 0x6c) ∧ 1049 ∈ ps)) :
    Rel s k ((withInactive t s k).csi pfx ps fin) (t.csi pfx ps fin) := by
  simp only [Term.csi, wi_kbd, wi_setKbd]
  repeat' (first
    | exact rel_mk _ _ _ _
    | exact rel_csiPlain _ _ _ _ _
    | (apply rel_dite <;> intro _))
  · exact rel_decModes _ _ _ _ _ (fun hm => h ⟨‹pfx = 63›, .inl ‹fin = 104›, hm⟩)
  · exact rel_decModes _ _ _ _ _ (fun hm => h ⟨‹pfx = 63›, .inr ‹fin = 108›, hm⟩)
  · split
    · split
      · exact rel_setVInt _ _ _ _ _
      · exact rel_mk _ _ _ _
    · exact rel_mk _ _ _ _

theorem rel_apply (cw : Nat → Nat) (s : Scr) (k : Kbd) (t : Term) (tok : Tok) (h : isSwitch tok = false) :
    Rel s k (Term.apply cw (withInactive t s k) tok) (Term.apply cw t tok) := by
  cases tok with
  | text st cp => simp only [Term.apply, wi_scr, wi_setScr, wi_pol]; exact rel_mk _ _ _ _
  | ctl b => simp only [Term.apply, Term.withScr, wi_scr, wi_setScr]; rel_leaves
  | esc i f => simp only [Term.apply, Term.withScr, wi_scr, wi_setScr]; rel_leaves
  | csi pfx ps clean fin =>
    simp only [Term.apply]
    cases clean
    · exact rel_mk _ _ _ _
    · rw [isSwitch_false_iff] at h
      simp only [if_true]
      exact rel_csi s k t pfx ps fin (fun hh => h ⟨hh.1, rfl, hh.2⟩)
  | osc n pl wf => simp only [Term.apply]; rel_leaves
  | dcs => exact rel_mk _ _ _ _

end Lemmas
open Lemmas

/-! ## 1. the inactive buffer is never touched; a switch moves nothing -/

/-- For EVERY token and state: if the same buffer is active afterwards, the other buffer and its
    keyboard state (flags and stack) are exactly as before. -/
theorem inactive_frame (cw : Nat → Nat) (t : Term) (tok : Tok)
    (h : (Term.apply cw t tok).1.onAlt = t.onAlt) :
    (t.onAlt = false → (Term.apply cw t tok).1.alt = t.alt ∧ (Term.apply cw t tok).1.kalt = t.kalt) ∧
    (t.onAlt = true → (Term.apply cw t tok).1.main = t.main ∧ (Term.apply cw t tok).1.kmain = t.kmain) := by
  have key : OnlyActive t (Term.apply cw t tok).1 := by
    cases hs : isSwitch tok
    · exact oa_apply cw t tok hs
    · cases tok with
      | csi pfx ps clean fin =>
        simp only [isSwitch, Bool.and_eq_true, beq_iff_eq, Bool.or_eq_true] at hs
        obtain ⟨⟨⟨rfl, rfl⟩, hf⟩, _⟩ := hs
        rcases hf with rfl | rfl
        · exact oa_decModes_of_onAlt t true ps h
        · exact oa_decModes_of_onAlt t false ps h
      | _ => simp [isSwitch] at hs
  exact ⟨key.whenMain, key.whenAlt⟩

/-- Only a `CSI ? … h/l` containing 1049 can change which buffer is active, and such a token
    changes nothing in either buffer except possibly the autowrap flag (when the same sequence
    also carries mode 7), and nothing in either keyboard state. -/
theorem switch_frame (cw : Nat → Nat) (t : Term) (tok : Tok)
    (h : (Term.apply cw t tok).1.onAlt ≠ t.onAlt) :
    isSwitch tok = true ∧ WrapOnly t (Term.apply cw t tok).1 := by
  cases hs : isSwitch tok
  · exact absurd (oa_apply cw t tok hs).onAlt h
  · refine ⟨rfl, ?_⟩
    cases tok with
    | csi pfx ps clean fin =>
      simp only [isSwitch, Bool.and_eq_true, beq_iff_eq, Bool.or_eq_true] at hs
      obtain ⟨⟨⟨rfl, rfl⟩, hf⟩, _⟩ := hs
      rcases hf with rfl | rfl
      · exact wo_decModes t true ps
      · exact wo_decModes t false ps
    | _ => simp [isSwitch] at hs

/-- `?1049h/l` alone: the whole state is unchanged except `onAlt` -/
theorem decMode_1049_frame (t : Term) (v : Bool) :
    (t.decMode 1049 v).1 = { t with onAlt := v } := by
  rw [decMode_1049]
  unfold Term.switchScreen
  split
  · next h => cases t; simp_all
  · rfl

/-- any other single mode: same active buffer; inactive buffer and keyboard state untouched -/
theorem decMode_other_frame (t : Term) (p : Int) (v : Bool) (hp : p ≠ 1049) :
    (t.decMode p v).1.onAlt = t.onAlt ∧
    (t.onAlt = false → (t.decMode p v).1.alt = t.alt ∧ (t.decMode p v).1.kalt = t.kalt) ∧
    (t.onAlt = true → (t.decMode p v).1.main = t.main ∧ (t.decMode p v).1.kmain = t.kmain) :=
  ⟨(oa_decMode t p v hp).onAlt, (oa_decMode t p v hp).whenMain, (oa_decMode t p v hp).whenAlt⟩

/-- a whole `CSI ? ps h/l`: which buffer ends up active, and that the two buffers can differ
    from before only in their `wrap` field, the keyboard states not at all -/
theorem decModes_frame (t : Term) (v : Bool) (ps : List Int) :
    (t.decModes v ps).1.onAlt = (if 1049 ∈ ps then v else t.onAlt) ∧
    (t.decModes v ps).1.main = { t.main with wrap := (t.decModes v ps).1.main.wrap } ∧
    (t.decModes v ps).1.alt = { t.alt with wrap := (t.decModes v ps).1.alt.wrap } ∧
    (t.decModes v ps).1.kmain = t.kmain ∧ (t.decModes v ps).1.kalt = t.kalt :=
  ⟨decModes_onAlt t v ps, (wo_decModes t v ps).main, (wo_decModes t v ps).alt,
    (wo_decModes t v ps).kmain, (wo_decModes t v ps).kalt⟩

/-- without mode 1049 in the sequence the inactive side is untouched -/
theorem decModes_no_switch (t : Term) (v : Bool) (ps : List Int) (h : 1049 ∉ ps) :
    (t.decModes v ps).1.onAlt = t.onAlt ∧
    (t.onAlt = false → (t.decModes v ps).1.alt = t.alt ∧ (t.decModes v ps).1.kalt = t.kalt) ∧
    (t.onAlt = true → (t.decModes v ps).1.main = t.main ∧ (t.decModes v ps).1.kmain = t.kmain) :=
  ⟨(oa_decModes t v ps h).onAlt, (oa_decModes t v ps h).whenMain, (oa_decModes t v ps h).whenAlt⟩

/-! ## 2. what the other buffer shows when re-entered is what it showed when left -/

/-- Any run of tokens without a buffer switch keeps the same buffer active and leaves the other
    buffer and its keyboard state (flags and stack) exactly as they were. -/
theorem reenter_same (cw : Nat → Nat) (t : Term) (toks : List Tok)
    (h : ∀ tk ∈ toks, isSwitch tk = false) :
    (stateAfter cw t toks).onAlt = t.onAlt ∧
    (t.onAlt = true → (stateAfter cw t toks).main = t.main ∧ (stateAfter cw t toks).kmain = t.kmain) ∧
    (t.onAlt = false → (stateAfter cw t toks).alt = t.alt ∧ (stateAfter cw t toks).kalt = t.kalt) :=
  ⟨(oa_stateAfter cw t toks h).onAlt, (oa_stateAfter cw t toks h).whenAlt, (oa_stateAfter cw t toks h).whenMain⟩

/-- A full-screen session: from the main buffer, `?1049h`, any output that does not itself switch,
    `?1049l`. The main buffer is active again and shows exactly what it showed (content, cursor,
    margins, autowrap, rendition), with the keyboard flags and stack it had. -/
theorem alt_session_preserves_main (cw : Nat → Nat) (t : Term) (toks : List Tok)
    (hm : t.onAlt = false) (h : ∀ tk ∈ toks, isSwitch tk = false) :
    let t1 := (Term.apply cw t (.csi 0x3f [1049] true 0x68)).1
    let t3 := (Term.apply cw (stateAfter cw t1 toks) (.csi 0x3f [1049] true 0x6c)).1
    t3.onAlt = false ∧ t3.scr = t.scr ∧ t3.kbd = t.kbd := by
  intro t1 t3
  have e1 : t1 = { t with onAlt := true } := by
    show (t.decModes true [1049]).1 = _
    rw [decModes_cons, ← decMode_1049_frame]; rfl
  have h2 := oa_stateAfter cw t1 toks h
  have e3 : t3 = { stateAfter cw t1 toks with onAlt := false } := by
    show ((stateAfter cw t1 toks).decModes false [1049]).1 = _
    rw [decModes_cons, ← decMode_1049_frame]; rfl
  have h1a : t1.onAlt = true := by rw [e1]
  have := h2.whenAlt h1a
  have h0 : t1.main = t.main ∧ t1.kmain = t.kmain := by rw [e1]; exact ⟨rfl, rfl⟩
  have hs : t.scr = t.main := by simp [Term.scr, hm]
  have hk : t.kbd = t.kmain := by simp [Term.kbd, hm]
  rw [e3, hs, hk]
  exact ⟨rfl, this.1.trans h0.1, this.2.trans h0.2⟩

/-- the mirror image: leaving the alternate buffer, working on the main one, and coming back -/
theorem main_session_preserves_alt (cw : Nat → Nat) (t : Term) (toks : List Tok)
    (hm : t.onAlt = true) (h : ∀ tk ∈ toks, isSwitch tk = false) :
    let t1 := (Term.apply cw t (.csi 0x3f [1049] true 0x6c)).1
    let t3 := (Term.apply cw (stateAfter cw t1 toks) (.csi 0x3f [1049] true 0x68)).1
    t3.onAlt = true ∧ t3.scr = t.scr ∧ t3.kbd = t.kbd := by
  intro t1 t3
  have e1 : t1 = { t with onAlt := false } := by
    show (t.decModes false [1049]).1 = _
    rw [decModes_cons, ← decMode_1049_frame]; rfl
  have h2 := oa_stateAfter cw t1 toks h
  have e3 : t3 = { stateAfter cw t1 toks with onAlt := true } := by
    show ((stateAfter cw t1 toks).decModes true [1049]).1 = _
    rw [decModes_cons, ← decMode_1049_frame]; rfl
  have h1a : t1.onAlt = false := by rw [e1]
  have := h2.whenMain h1a
  have h0 : t1.alt = t.alt ∧ t1.kalt = t.kalt := by rw [e1]; exact ⟨rfl, rfl⟩
  have hs : t.scr = t.alt := by simp [Term.scr, hm]
  have hk : t.kbd = t.kalt := by simp [Term.kbd, hm]
  rw [e3, hs, hk]
  exact ⟨rfl, this.1.trans h0.1, this.2.trans h0.2⟩


/-! ## 2b. the inactive buffer is not even read -/

/-- the events of a list of tokens, in order -/
def eventsOf (cw : Nat → Nat) (t : Term) : List Tok → List Ev
  | [] => []
  | tk :: tks => (Term.apply cw t tk).2 ++ eventsOf cw (Term.apply cw t tk).1 tks

/-- Non-interference: a token that does not switch buffers neither writes nor READS the inactive
    buffer and keyboard state. Replacing them by anything whatsoever gives the same events and
    the same resulting state (with the replacement still in place). -/
theorem inactive_not_read (cw : Nat → Nat) (t : Term) (tok : Tok) (s : Scr) (k : Kbd)
    (h : isSwitch tok = false) :
    Term.apply cw (withInactive t s k) tok =
      (withInactive (Term.apply cw t tok).1 s k, (Term.apply cw t tok).2) :=
  rel_apply cw s k t tok h

/-- the same for any run of tokens without a switch: what the frontend sees and what the active
    buffer becomes do not depend on what the other buffer holds -/
theorem inactive_not_read_run (cw : Nat → Nat) (t : Term) (toks : List Tok) (s : Scr) (k : Kbd)
    (h : ∀ tk ∈ toks, isSwitch tk = false) :
    stateAfter cw (withInactive t s k) toks = withInactive (stateAfter cw t toks) s k ∧
    eventsOf cw (withInactive t s k) toks = eventsOf cw t toks := by
  induction toks generalizing t with
  | nil => exact ⟨rfl, rfl⟩
  | cons tk tks ih =>
    have h1 := inactive_not_read cw t tk s k (h tk (by simp))
    have h2 := ih (Term.apply cw t tk).1 (fun x hx => h x (by simp [hx]))
    simp only [stateAfter, List.foldl_cons, eventsOf, h1] at h2 ⊢
    exact ⟨h2.1, by rw [h2.2]⟩

/-- what `withInactive` is, field by field -/
theorem withInactive_fields (t : Term) (s : Scr) (k : Kbd) :
    (withInactive t s k).onAlt = t.onAlt ∧ (withInactive t s k).scr = t.scr ∧
    (withInactive t s k).kbd = t.kbd ∧
    (t.onAlt = false → (withInactive t s k).alt = s ∧ (withInactive t s k).kalt = k) ∧
    (t.onAlt = true → (withInactive t s k).main = s ∧ (withInactive t s k).kmain = k) := by
  refine ⟨?_, wi_scr t s k, wi_kbd t s k, ?_, ?_⟩ <;> unfold withInactive <;> cases h : t.onAlt <;> simp

/-! ## 3. level-triggered modes -/

/-- Setting (or resetting) a mode twice is the same as doing it once — for EVERY mode number,
    known or not. -/
theorem mode_idempotent (t : Term) (p : Int) (v : Bool) :
    ((t.decMode p v).1.decMode p v).1 = (t.decMode p v).1 := by
  rcases mode_cases p with h | h | h | h | h | h | h | h | h | h | h | h | h | h | h
  case inr.inr.inr.inr.inr.inr.inr.inr.inr.inr.inr.inr.inr.inr =>
    simp [decMode_unknown _ p v h]
  case inr.inl => subst h; simp only [decMode_7]; exact setWrap_idem t v
  case inr.inr.inr.inr.inr.inr.inr.inr.inr.inr.inr.inr.inl =>
    subst h; simp only [decMode_1049, switchScreen_idem]
  all_goals
    subst h
    simp [Term.decMode, Term.setVFlag, Term.setVInt, List.set_set]

/-- for 1049 the second application is also silent -/
theorem mode_1049_second_silent (t : Term) (v : Bool) :
    (t.decMode 1049 v).1.decMode 1049 v = ((t.decMode 1049 v).1, []) := by
  simp only [decMode_1049, switchScreen_idem]

/-- `?1049h` on the alternate buffer / `?1049l` on the main buffer: no change, no event -/
theorem mode_1049_already (t : Term) (v : Bool) (h : t.onAlt = v) : t.decMode 1049 v = (t, []) := by
  simp [decMode_1049, Term.switchScreen, h]

/-- the same at token level, for a whole `CSI ? 1049 h` / `CSI ? 1049 l` -/
theorem switch_token_already (cw : Nat → Nat) (t : Term) :
    (t.onAlt = true → Term.apply cw t (.csi 0x3f [1049] true 0x68) = (t, [])) ∧
    (t.onAlt = false → Term.apply cw t (.csi 0x3f [1049] true 0x6c) = (t, [])) := by
  constructor <;> intro h
  · show t.decModes true [1049] = _
    rw [decModes_cons, mode_1049_already t true h]; rfl
  · show t.decModes false [1049] = _
    rw [decModes_cons, mode_1049_already t false h]; rfl

/-- a mode whose value is already the requested one: the state does not change
    (flag-valued modes, int-valued modes, autowrap) -/
theorem mode_already_set (t : Term) (p : Int) (v : Bool) :
    (∀ i, modeTable p = some (.flag i) → t.vflags[i]? = some v → (t.decMode p v).1 = t) ∧
    (∀ i on, modeTable p = some (.int i on) → t.vints[i]? = some (if v then on else 0) →
        (t.decMode p v).1 = t) ∧
    (p = 7 → t.scr.wrap = v → (t.decMode p v).1 = t) := by
  refine ⟨fun i hm hv => ?_, fun i on hm hv => ?_, fun h7 hw => ?_⟩
  · rw [decMode_flag t p v i hm]
    simp [Term.setVFlag, set_same _ _ _ hv]
  · rw [decMode_int t p v i on hm]
    simp [Term.setVInt, set_same _ _ _ hv]
  · subst h7
    rw [decMode_7]
    subst hw
    obtain ⟨pol, main, alt, onAlt, vf, vi, vs, km, ka⟩ := t
    cases onAlt <;> rfl

/-- `?1049h` then `?1049l` from the main buffer gives back the original state, exactly -/
theorem switch_roundtrip (t : Term) (h : t.onAlt = false) :
    ((t.decMode 1049 true).1.decMode 1049 false).1 = t := by
  rw [decMode_1049_frame, decMode_1049_frame]
  cases t; simp_all

/-- the same for the two tokens -/
theorem switch_roundtrip_tokens (cw : Nat → Nat) (t : Term) (h : t.onAlt = false) :
    stateAfter cw t [.csi 0x3f [1049] true 0x68, .csi 0x3f [1049] true 0x6c] = t := by
  show (((t.decModes true [1049]).1).decModes false [1049]).1 = t
  simp only [Term.decModes]
  exact switch_roundtrip t h

/-! ## 4. every set / reset is reported with the value now in force -/

/-- the indices used by the table are within the view-state vectors of `Term.init` -/
theorem modeTable_index (p : Int) :
    (∀ i, modeTable p = some (.flag i) → i < 6) ∧ (∀ i on, modeTable p = some (.int i on) → i < 3) := by
  constructor
  · intro i h
    rcases mode_cases p with h' | h' | h' | h' | h' | h' | h' | h' | h' | h' | h' | h' | h' | h' | h'
    all_goals first
      | (subst h'; simp [modeTable] at h; subst h; decide)
      | (subst h'; simp [modeTable] at h)
      | (obtain ⟨h1, h2, h3, h4, h5, h6, h7, h8, h9, h10, h11, h12, h13, h14⟩ := h'
         simp [modeTable, *] at h)
  · intro i on h
    rcases mode_cases p with h' | h' | h' | h' | h' | h' | h' | h' | h' | h' | h' | h' | h' | h' | h'
    all_goals first
      | (subst h'; simp [modeTable] at h; obtain ⟨rfl, rfl⟩ := h; decide)
      | (subst h'; simp [modeTable] at h)
      | (obtain ⟨h1, h2, h3, h4, h5, h6, h7, h8, h9, h10, h11, h12, h13, h14⟩ := h'
         simp [modeTable, *] at h)

/-- every token keeps the lengths of the view-flag / view-int vectors (6 and 3 from `Term.init`),
    so the index hypotheses below hold in every reachable state -/
theorem view_lengths (cw : Nat → Nat) (t : Term) (tok : Tok) :
    (Term.apply cw t tok).1.vflags.length = t.vflags.length ∧
    (Term.apply cw t tok).1.vints.length = t.vints.length := by
  cases hs : isSwitch tok
  · exact (oa_apply cw t tok hs).vlen
  · cases tok with
    | csi pfx ps clean fin =>
      simp only [isSwitch, Bool.and_eq_true, beq_iff_eq, Bool.or_eq_true] at hs
      obtain ⟨⟨⟨rfl, rfl⟩, hf⟩, _⟩ := hs
      rcases hf with rfl | rfl
      · exact (wo_decModes t true ps).vlen
      · exact (wo_decModes t false ps).vlen
    | _ => simp [isSwitch] at hs

/-- A flag-valued mode (1, 12, 25, 1004, 2004): exactly one event, carrying the value that is
    now stored; nothing else changes. Hypothesis: the flag index exists (`i < 6` always, and
    `t.vflags.length = 6` in reachable states). -/
theorem mode_reported_flag (t : Term) (p : Int) (v : Bool) (i : Nat)
    (hm : modeTable p = some (.flag i)) (hi : i < t.vflags.length) :
    (t.decMode p v).2 = [.vflag i v] ∧
    (t.decMode p v).1.vflags[i]? = some v ∧
    (t.decMode p v).1 = { t with vflags := t.vflags.set i v } := by
  rw [decMode_flag t p v i hm]
  simp [Term.setVFlag, hi]

/-- An int-valued mode (9, 1000, 1002, 1003 → mouse mode; 1005, 1006, 1015 → mouse encoding):
    exactly one event, carrying the value that is now stored (`on` when set, `0` when reset). -/
theorem mode_reported_int (t : Term) (p : Int) (v : Bool) (i : Nat) (on : Int)
    (hm : modeTable p = some (.int i on)) (hi : i < t.vints.length) :
    (t.decMode p v).2 = [.vint i (if v then on else 0)] ∧
    (t.decMode p v).1.vints[i]? = some (if v then on else 0) ∧
    (t.decMode p v).1 = { t with vints := t.vints.set i (if v then on else 0) } := by
  rw [decMode_int t p v i on hm]
  simp [Term.setVInt, hi]

/-- the table, spelled out (so that the two theorems above are seen to cover the listed modes) -/
theorem modeTable_rows :
    modeTable 1 = some (.flag 4) ∧ modeTable 12 = some (.flag 0) ∧ modeTable 25 = some (.flag 1) ∧
    modeTable 1004 = some (.flag 2) ∧ modeTable 2004 = some (.flag 3) ∧
    modeTable 9 = some (.int 0 1) ∧ modeTable 1000 = some (.int 0 2) ∧ modeTable 1002 = some (.int 0 3) ∧
    modeTable 1003 = some (.int 0 4) ∧ modeTable 1005 = some (.int 1 1) ∧ modeTable 1006 = some (.int 1 2) ∧
    modeTable 1015 = some (.int 1 1) := by decide

/-- An effective buffer switch announces the newly active buffer: its whole area (reason 3), its
    cursor and its rendition — and that buffer is the one the state now designates. -/
theorem mode_reported_1049 (t : Term) (v : Bool) (h : t.onAlt ≠ v) :
    let s := if v then t.alt else t.main
    (t.decMode 1049 v).2 = [.region 0 0 s.w s.h 3, .cursor s.cx s.cy, .style s.sty] ∧
    (t.decMode 1049 v).1.scr = s ∧ (t.decMode 1049 v).1.onAlt = v := by
  simp only [decMode_1049, Term.switchScreen, h, if_false, Term.scr]
  cases v <;> simp

/-- unknown mode numbers: no state change, no event -/
theorem mode_unknown (t : Term) (p : Int) (v : Bool)
    (h : modeTable p = none) (h7 : p ≠ 7) (h1049 : p ≠ 1049) : t.decMode p v = (t, []) :=
  decMode_none t p v h h7 h1049

/-- the events of a whole `CSI ? p₁;p₂;… h/l` are those of its parameters, in order, each from
    the state left by the previous ones -/
theorem modes_reported_in_order (t : Term) (v : Bool) (p : Int) (ps : List Int) :
    (t.decModes v (p :: ps)).2 = (t.decMode p v).2 ++ ((t.decMode p v).1.decModes v ps).2 ∧
    (t.decModes v (p :: ps)).1 = ((t.decMode p v).1.decModes v ps).1 := ⟨rfl, rfl⟩

/-- token level: a clean `CSI ? ps h` / `CSI ? ps l` is `decModes true` / `decModes false` -/
theorem decset_token (cw : Nat → Nat) (t : Term) (ps : List Int) :
    Term.apply cw t (.csi 0x3f ps true 0x68) = t.decModes true ps ∧
    Term.apply cw t (.csi 0x3f ps true 0x6c) = t.decModes false ps := ⟨rfl, rfl⟩

/-! ## 5. autowrap is per buffer -/

/-- `?7h` / `?7l` changes exactly the `wrap` field of the active buffer, silently -/
theorem autowrap_per_buffer (t : Term) (v : Bool) :
    (t.decMode 7 v).2 = [] ∧
    (t.onAlt = false → (t.decMode 7 v).1 = { t with main := { t.main with wrap := v } }) ∧
    (t.onAlt = true → (t.decMode 7 v).1 = { t with alt := { t.alt with wrap := v } }) := by
  rw [decMode_7]
  refine ⟨rfl, fun h => ?_, fun h => ?_⟩ <;> simp [Term.setScr, Term.scr, h]

/-- in a whole sequence, a buffer's autowrap flag changes only if the sequence carries mode 7,
    and then to the value being set -/
theorem decModes_wrap (t : Term) (v : Bool) (ps : List Int) :
    ((t.decModes v ps).1.main.wrap = t.main.wrap ∨ (7 ∈ ps ∧ (t.decModes v ps).1.main.wrap = v)) ∧
    ((t.decModes v ps).1.alt.wrap = t.alt.wrap ∨ (7 ∈ ps ∧ (t.decModes v ps).1.alt.wrap = v)) := by
  induction ps generalizing t with
  | nil => simp [Term.decModes]
  | cons p ps ih =>
    rw [decModes_cons]
    have h1 : ((t.decMode p v).1.main.wrap = t.main.wrap ∨ (p = 7 ∧ (t.decMode p v).1.main.wrap = v)) ∧
              ((t.decMode p v).1.alt.wrap = t.alt.wrap ∨ (p = 7 ∧ (t.decMode p v).1.alt.wrap = v)) := by
      by_cases h7 : p = 7
      · subst h7
        rw [decMode_7]
        unfold Term.setScr Term.scr
        cases t.onAlt <;> simp
      · have := decMode_bufs t p v h7
        exact ⟨.inl (by rw [this.1]), .inl (by rw [this.2])⟩
    have h2 := ih (t.decMode p v).1
    simp only [List.mem_cons]
    refine ⟨?_, ?_⟩
    · rcases h2.1 with e | ⟨m, e⟩
      · rcases h1.1 with e' | ⟨m', e'⟩
        · exact .inl (e.trans e')
        · exact .inr ⟨.inl m'.symm, e.trans e'⟩
      · exact .inr ⟨.inr m, e⟩
    · rcases h2.2 with e | ⟨m, e⟩
      · rcases h1.2 with e' | ⟨m', e'⟩
        · exact .inl (e.trans e')
        · exact .inr ⟨.inl m'.symm, e.trans e'⟩
      · exact .inr ⟨.inr m, e⟩


/-! ## non-vacuity -/

section Examples

/-- tokens of a small full-screen session: text, cursor move, margins, save cursor, Kitty push, modes, erase, LF -/
def session : List Tok :=
  [.text [0x78] 0x78, .csi 0 [2, 3] true 0x48, .csi 0 [2, 3] true 0x72, .csi 0 [] true 0x73,
   .text [0x79] 0x79, .csi 0x3e [5] true 0x75, .csi 0x3f [7, 25] true 0x68, .csi 0 [2] true 0x4a, .ctl 10]

/-- a main buffer with content, a moved cursor, margins and a pushed keyboard flag -/
def mainState : Term :=
  stateAfter (fun _ => 1) (Term.init .blank 10 4)
    [.text [0x61] 0x61, .text [0x62] 0x62, .csi 0 [1, 3] true 0x72, .csi 0x3e [3] true 0x75, .ctl 10]

example : ∀ tk ∈ session, isSwitch tk = false := by decide
example : isSwitch (.csi 0x3f [7, 1049] true 0x68) = true := by decide
example : mainState.onAlt = false ∧ mainState.main.cx = 0 ∧ mainState.main.cy = 1 ∧ mainState.main.bot = 2
    ∧ mainState.kmain = { flags := 3, stack := [0] } := by decide

/-- the session really changes the alternate buffer and its keyboard state … -/
example :
    let t2 := stateAfter (fun _ => 1) { mainState with onAlt := true } session
    t2.alt ≠ mainState.alt ∧ t2.kalt = { flags := 5, stack := [0] } ∧ t2.alt.wrap = true
      ∧ t2.vflags[1]? = some true := by decide

/-- … and the main buffer comes back as it was (instance of `alt_session_preserves_main`) -/
example :
    let t1 := (Term.apply (fun _ => 1) mainState (.csi 0x3f [1049] true 0x68)).1
    let t3 := (Term.apply (fun _ => 1) (stateAfter (fun _ => 1) t1 session) (.csi 0x3f [1049] true 0x6c)).1
    t3.onAlt = false ∧ t3.scr = mainState.scr ∧ t3.kbd = mainState.kbd :=
  alt_session_preserves_main (fun _ => 1) mainState session (by decide) (by decide)

/-- the `WrapOnly` exception of `switch_frame` is real: `CSI ? 7 ; 1049 h` sets autowrap on the
    buffer being left, `CSI ? 1049 ; 7 h` on the buffer being entered -/
example :
    (Term.apply (fun _ => 1) mainState (.csi 0x3f [7, 1049] true 0x68)).1.main.wrap = true ∧
    (Term.apply (fun _ => 1) mainState (.csi 0x3f [7, 1049] true 0x68)).1.alt.wrap = false ∧
    (Term.apply (fun _ => 1) mainState (.csi 0x3f [1049, 7] true 0x68)).1.main.wrap = false ∧
    (Term.apply (fun _ => 1) mainState (.csi 0x3f [1049, 7] true 0x68)).1.alt.wrap = true := by decide

/-- the index hypotheses of `mode_reported_flag/int` hold in the initial state -/
example : 4 < (Term.init .blank 10 4).vflags.length ∧ 1 < (Term.init .blank 10 4).vints.length := by decide

/-- `?1006h` reports mouse encoding 2, `?1006l` reports 0; `?25l` reports cursor hidden -/
example : (mainState.decMode 1006 true).2 = [.vint 1 2] ∧ (mainState.decMode 1006 false).2 = [.vint 1 0]
    ∧ (mainState.decMode 25 false).2 = [.vflag 1 false] := by decide

/-- an effective switch is announced, a repeated one is silent -/
example : (mainState.decMode 1049 true).2 = [.region 0 0 10 4 3, .cursor 0 0, .style Style.default]
    ∧ ((mainState.decMode 1049 true).1.decMode 1049 true).2 = [] := by decide

/-- `inactive_not_read` is about genuinely different states: replacing the hidden main buffer of
    an alternate-screen state by a blank one changes the state … -/
example : (withInactive { mainState with onAlt := true } (Scr.init 10 4) {}).main ≠ mainState.main
    ∧ (withInactive { mainState with onAlt := true } (Scr.init 10 4) {}).kmain ≠ mainState.kmain := by decide

/-- … but not what the session reports to the frontend (instance of `inactive_not_read_run`) -/
example :
    eventsOf (fun _ => 1) (withInactive { mainState with onAlt := true } (Scr.init 10 4) {}) session
      = eventsOf (fun _ => 1) { mainState with onAlt := true } session :=
  (inactive_not_read_run (fun _ => 1) { mainState with onAlt := true } session (Scr.init 10 4) {}
    (by decide)).2

end Examples

#print axioms TM.C17.inactive_frame
#print axioms TM.C17.switch_frame
#print axioms TM.C17.decMode_1049_frame
#print axioms TM.C17.decMode_other_frame
#print axioms TM.C17.decModes_frame
#print axioms TM.C17.decModes_no_switch
#print axioms TM.C17.reenter_same
#print axioms TM.C17.alt_session_preserves_main
#print axioms TM.C17.main_session_preserves_alt
#print axioms TM.C17.inactive_not_read
#print axioms TM.C17.inactive_not_read_run
#print axioms TM.C17.mode_idempotent
#print axioms TM.C17.mode_1049_second_silent
#print axioms TM.C17.mode_1049_already
#print axioms TM.C17.switch_token_already
#print axioms TM.C17.mode_already_set
#print axioms TM.C17.switch_roundtrip
#print axioms TM.C17.switch_roundtrip_tokens
#print axioms TM.C17.view_lengths
#print axioms TM.C17.mode_reported_flag
#print axioms TM.C17.mode_reported_int
#print axioms TM.C17.mode_reported_1049
#print axioms TM.C17.mode_unknown
#print axioms TM.C17.autowrap_per_buffer
#print axioms TM.C17.decModes_wrap

end TM.C17
