import TM.Run
/-!
# C14 — queries are answered once, in order, from the state at that point; nothing else replies

"Primary and secondary device attributes, device status (CSI 5n), cursor position (CSI 6n) and
the Kitty flags query (CSI ? u) each cause exactly one reply to be written to the application,
in the order the queries appeared in the stream and reflecting the state at that point (1-based
row;column for the cursor, the active screen's flags for the query). No other input ever causes
bytes to be written to the application."

Model: bytes written to the application are the `Ev.reply` events returned by `Term.apply`;
`runFuel` / `run` / `Sys.feed` / `Sys.feedAll` concatenate the events in stream order.

The specification below (`Query`, `queryOf`, `answer`, `replyOf`, `dec`) is written from the
property, not from the model: literal strings, `toString` for decimals, the buffer selected by
`onAlt` for "active".
-/
namespace TM.C14
open TM

/-! ## specification -/

/-- an ASCII string as bytes -/
def ascii (s : String) : Bytes := s.toList.map (fun c => UInt8.ofNat c.toNat)

/-- decimal rendering of a natural number (Lean's own `toString`) -/
def dec (n : Nat) : Bytes := ascii (toString n)

/-- the five query forms -/
inductive Query
  | da1     -- `CSI c` / `CSI 0 c`
  | da2     -- `CSI > … c`
  | dsr     -- `CSI 5 n`
  | cpr     -- `CSI 6 n`
  | kitty   -- `CSI ? … u`
deriving DecidableEq, Repr

/-- the first parameter of a sequence; an absent parameter counts as `0` -/
def firstParam : List Int → Int
  | [] => 0
  | p :: _ => p

/-- which query (if any) a token is. Only clean CSI sequences can be queries; the first
    parameter counts as `0` when absent. -/
def queryOf : Tok → Option Query
  | .csi pfx ps true fin =>
    if pfx = 0 ∧ fin = 0x63 /- c -/ ∧ firstParam ps = 0 then some .da1
    else if pfx = 0x3e /- > -/ ∧ fin = 0x63 /- c -/ then some .da2
    else if pfx = 0 ∧ fin = 0x6e /- n -/ ∧ firstParam ps = 5 then some .dsr
    else if pfx = 0 ∧ fin = 0x6e /- n -/ ∧ firstParam ps = 6 then some .cpr
    else if pfx = 0x3f /- ? -/ ∧ fin = 0x75 /- u -/ then some .kitty
    else none
  | _ => none

/-- the buffer selected by `onAlt` -/
def active (t : Term) : Scr := if t.onAlt then t.alt else t.main
/-- the Kitty flags in force on the buffer selected by `onAlt` -/
def activeFlags (t : Term) : Nat := if t.onAlt then t.kalt.flags else t.kmain.flags

/-- the answer to a query in state `t` -/
def answer (t : Term) : Query → Bytes
  | .da1 => ascii "\x1b[?1;2c"
  | .da2 => ascii "\x1b[>1;4402;0c"
  | .dsr => ascii "\x1b[0n"
  | .cpr => ascii "\x1b[" ++ dec ((active t).cy + 1) ++ ascii ";" ++ dec ((active t).cx + 1) ++ ascii "R"
  | .kitty => ascii "\x1b[?" ++ dec (activeFlags t) ++ ascii "u"

/-- what the application must receive because of token `tok` arriving in state `t` -/
def replyOf (t : Term) (tok : Tok) : Bytes :=
  match queryOf tok with
  | some q => answer t q
  | none => []

def isReply : Ev → Bool
  | .reply _ => true
  | _ => false

/-- the bytes written to the application by a list of events -/
def replyBytes : List Ev → Bytes
  | [] => []
  | .reply b :: es => b ++ replyBytes es
  | _ :: es => replyBytes es

/-! ## helper lemmas -/
namespace Lemmas

/-! ### decimal: the model's `itoa` is `toString` -/

theorem digit_byte (d : Nat) (h : d < 10) :
    UInt8.ofNat (48 + d) = UInt8.ofNat (Nat.digitChar d).toNat := by
  have : d = 0 ∨ d = 1 ∨ d = 2 ∨ d = 3 ∨ d = 4 ∨ d = 5 ∨ d = 6 ∨ d = 7 ∨ d = 8 ∨ d = 9 := by omega
  rcases this with h | h | h | h | h | h | h | h | h | h <;> subst h <;> decide

theorem natDigitsAux_eq (fuel n : Nat) (acc : List Char) :
    natDigitsAux fuel n (acc.map (fun c => UInt8.ofNat c.toNat))
      = (Nat.toDigitsCore 10 fuel n acc).map (fun c => UInt8.ofNat c.toNat) := by
  induction fuel generalizing n acc with
  | zero => simp [natDigitsAux, Nat.toDigitsCore]
  | succ fuel ih =>
    simp only [natDigitsAux, Nat.toDigitsCore]
    have hd := digit_byte (n % 10) (Nat.mod_lt _ (by decide))
    split
    · simp [hd]
    · rw [hd, ← ih]; simp

theorem itoa_eq_dec (n : Nat) : itoa n = dec n := by
  have := natDigitsAux_eq (n + 1) n []
  simpa [itoa, dec, ascii, Nat.repr, Nat.toDigits] using this


theorem p0_eq (ps : List Int) : p0 ps 0 = firstParam ps := by cases ps <;> rfl

theorem ascii_da1 : ascii "\x1b[?1;2c" = [0x1b, 0x5b, 0x3f, 0x31, 0x3b, 0x32, 0x63] := by decide
theorem ascii_da2 : ascii "\x1b[>1;4402;0c" = [0x1b, 0x5b, 0x3e, 0x31, 0x3b, 0x34, 0x34, 0x30, 0x32, 0x3b, 0x30, 0x63] := by decide
theorem ascii_dsr : ascii "\x1b[0n" = [0x1b, 0x5b, 0x30, 0x6e] := by decide
theorem ascii_csi : ascii "\x1b[" = [0x1b, 0x5b] := by decide
theorem ascii_semi : ascii ";" = [0x3b] := by decide
theorem ascii_R : ascii "R" = [0x52] := by decide
theorem ascii_csiq : ascii "\x1b[?" = [0x1b, 0x5b, 0x3f] := by decide
theorem ascii_u : ascii "u" = [0x75] := by decide

theorem cpr_eq (t : Term) : csiReplyCPR t.scr = answer t .cpr := by
  simp [csiReplyCPR, answer, itoa_eq_dec, ascii_csi, ascii_semi, ascii_R, active, Term.scr]

theorem csiPlain_filter (t : Term) (ps : List Int) (fin : UInt8) :
    (t.csiPlain ps fin).2.filter isReply =
      if fin = 0x63 ∧ firstParam ps = 0 then [.reply (ascii "\x1b[?1;2c")]
      else if fin = 0x6e ∧ firstParam ps = 5 then [.reply (ascii "\x1b[0n")]
      else if fin = 0x6e ∧ firstParam ps = 6 then [.reply (answer t .cpr)]
      else [] := by
  rw [← cpr_eq, ascii_da1, ascii_dsr, ← p0_eq]
  by_cases h1 : fin = 0x63
  · subst h1
    by_cases hp : p0 ps 0 = 0 <;> simp [Term.csiPlain, hp, isReply]
  · by_cases h2 : fin = 0x6e
    · subst h2
      by_cases hp : p0 ps 0 = 5
      · simp [Term.csiPlain, hp, isReply]
      · by_cases hp6 : p0 ps 0 = 6 <;> simp [Term.csiPlain, hp, hp6, isReply]
    · simp only [h1, h2, false_and, if_false]
      simp [Term.csiPlain, apply_ite Prod.snd, apply_ite (List.filter isReply), Term.withScr, isReply, h1, h2]


theorem switchScreen_quiet (t : Term) (v : Bool) : (t.switchScreen v).2.filter isReply = [] := by
  unfold Term.switchScreen; split <;> simp [isReply]

theorem decMode_quiet (t : Term) (p : Int) (v : Bool) : (t.decMode p v).2.filter isReply = [] := by
  simp [Term.decMode, apply_ite Prod.snd, apply_ite (List.filter isReply), Term.setVFlag,
    Term.setVInt, isReply, switchScreen_quiet]

theorem decModes_quiet (t : Term) (v : Bool) (ps : List Int) :
    (t.decModes v ps).2.filter isReply = [] := by
  induction ps generalizing t with
  | nil => simp [Term.decModes]
  | cons p ps ih => simp [Term.decModes, decMode_quiet, ih]

theorem kitty_eq (t : Term) :
    [0x1b, 0x5b, 0x3f] ++ itoa t.kbd.flags ++ [0x75] = answer t .kitty := by
  simp [answer, itoa_eq_dec, ascii_csiq, ascii_u, activeFlags, Term.kbd]
  cases t.onAlt <;> simp

/-- the replies of a clean CSI sequence -/
theorem csi_filter (t : Term) (pfx : UInt8) (ps : List Int) (fin : UInt8) :
    (t.csi pfx ps fin).2.filter isReply =
      match queryOf (.csi pfx ps true fin) with
      | some q => [.reply (answer t q)]
      | none => [] := by
  by_cases h0 : pfx = 0
  · subst h0
    rw [show t.csi 0 ps fin = t.csiPlain ps fin by simp [Term.csi], csiPlain_filter]
    simp only [queryOf]
    generalize firstParam ps = a
    by_cases h1 : fin = 0x63 ∧ a = 0
    · simp [h1, answer]
    · by_cases h2 : fin = 0x6e ∧ a = 5
      · simp [h2, answer]
      · by_cases h3 : fin = 0x6e ∧ a = 6
        · simp [h3]
        · simp [h1, h2, h3]
  · by_cases h1 : pfx = 0x3f
    · subst h1
      by_cases hu : fin = 0x75
      · subst hu; simp [Term.csi, queryOf, isReply, ← kitty_eq]
      · by_cases hh : fin = 0x68
        · subst hh; simp [Term.csi, queryOf, decModes_quiet]
        · by_cases hl : fin = 0x6c
          · subst hl; simp [Term.csi, queryOf, decModes_quiet]
          · simp [Term.csi, queryOf, hu, hh, hl]
    · by_cases h2 : pfx = 0x3e
      · subst h2
        by_cases hc : fin = 0x63
        · subst hc; simp [Term.csi, queryOf, isReply, answer, ascii_da2]
        · have hq : queryOf (.csi 0x3e ps true fin) = none := by simp [queryOf, hc]
          rw [hq]
          by_cases hm : fin = 0x6d
          · subst hm
            simp only [Term.csi]
            cases modifyOtherKeysMode ps none with
            | none => simp
            | some m => by_cases hm : m ≥ 0 <;> simp [hm, Term.setVInt, isReply]
          · simp [Term.csi, hc, hm, apply_ite Prod.snd]
      · have hq : queryOf (.csi pfx ps true fin) = none := by simp [queryOf, h0, h1, h2]
        rw [hq]
        simp [Term.csi, h0, h1, h2, apply_ite Prod.snd]


/-- the replies of any token -/
theorem apply_filter (cw : Nat → Nat) (t : Term) (tok : Tok) :
    (Term.apply cw t tok).2.filter isReply =
      match queryOf tok with
      | some q => [.reply (answer t q)]
      | none => [] := by
  cases tok with
  | text s cp => simp [Term.apply, queryOf, isReply]
  | ctl b =>
    simp [Term.apply, queryOf, apply_ite Prod.snd, apply_ite (List.filter isReply), Term.withScr, isReply]
  | esc i f =>
    simp [Term.apply, queryOf, apply_ite Prod.snd, apply_ite (List.filter isReply), Term.withScr,
      Term.setVFlag, isReply]
  | csi pfx ps clean fin =>
    cases clean
    · simp [Term.apply, queryOf]
    · simpa [Term.apply] using csi_filter t pfx ps fin
  | osc n pl wf =>
    simp [Term.apply, queryOf, apply_ite Prod.snd, apply_ite (List.filter isReply), Term.setVStr, isReply]
  | dcs => simp [Term.apply, queryOf]

theorem replyBytes_filter (evs : List Ev) : replyBytes (evs.filter isReply) = replyBytes evs := by
  induction evs with
  | nil => rfl
  | cons e es ih => cases e <;> simp [List.filter, isReply, replyBytes, ih]

/-- the query forms, explicitly -/
theorem queryOf_cases {tok : Tok} {q : Query} (h : queryOf tok = some q) :
    ∃ ps,
      (tok = .csi 0 ps true 0x63 ∧ firstParam ps = 0 ∧ q = .da1) ∨
      (tok = .csi 0x3e ps true 0x63 ∧ q = .da2) ∨
      (tok = .csi 0 ps true 0x6e ∧ firstParam ps = 5 ∧ q = .dsr) ∨
      (tok = .csi 0 ps true 0x6e ∧ firstParam ps = 6 ∧ q = .cpr) ∨
      (tok = .csi 0x3f ps true 0x75 ∧ q = .kitty) := by
  cases tok with
  | csi pfx ps clean fin =>
    cases clean
    · simp [queryOf] at h
    · refine ⟨ps, ?_⟩
      simp only [queryOf] at h
      split at h
      · next hc => obtain ⟨rfl, rfl, hp⟩ := hc; cases h; exact .inl ⟨rfl, hp, rfl⟩
      split at h
      · next hc => obtain ⟨rfl, rfl⟩ := hc; cases h; exact .inr (.inl ⟨rfl, rfl⟩)
      split at h
      · next hc => obtain ⟨rfl, rfl, hp⟩ := hc; cases h; exact .inr (.inr (.inl ⟨rfl, hp, rfl⟩))
      split at h
      · next hc => obtain ⟨rfl, rfl, hp⟩ := hc; cases h; exact .inr (.inr (.inr (.inl ⟨rfl, hp, rfl⟩)))
      split at h
      · next hc => obtain ⟨rfl, rfl⟩ := hc; cases h; exact .inr (.inr (.inr (.inr ⟨rfl, rfl⟩)))
      · cases h
  | _ => simp [queryOf] at h


/-! ### decimal round trip -/

theorem digit_val (d : Nat) (h : d < 10) : (UInt8.ofNat (48 + d)).toNat - 48 = d := by
  have : d = 0 ∨ d = 1 ∨ d = 2 ∨ d = 3 ∨ d = 4 ∨ d = 5 ∨ d = 6 ∨ d = 7 ∨ d = 8 ∨ d = 9 := by omega
  rcases this with h | h | h | h | h | h | h | h | h | h <;> subst h <;> decide

theorem digit_isDigit (d : Nat) (h : d < 10) : isDigit (UInt8.ofNat (48 + d)) = true := by
  have : d = 0 ∨ d = 1 ∨ d = 2 ∨ d = 3 ∨ d = 4 ∨ d = 5 ∨ d = 6 ∨ d = 7 ∨ d = 8 ∨ d = 9 := by omega
  rcases this with h | h | h | h | h | h | h | h | h | h <;> subst h <;> decide

theorem foldl_natDigitsAux (fuel n : Nat) (acc : Bytes) (h : n < fuel) :
    (natDigitsAux fuel n acc).foldl (fun a d => a * 10 + (d.toNat - 48)) 0
      = acc.foldl (fun a d => a * 10 + (d.toNat - 48)) n := by
  induction fuel generalizing n acc with
  | zero => omega
  | succ fuel ih =>
    simp only [natDigitsAux]
    have hd := digit_val (n % 10) (Nat.mod_lt _ (by decide))
    split
    · next h0 =>
      simp only [List.foldl_cons, hd]
      congr 1; omega
    · next h0 =>
      rw [ih _ _ (by omega)]
      simp only [List.foldl_cons, hd]
      congr 1; omega

theorem natDigitsAux_digits (fuel n : Nat) (acc : Bytes) (hacc : ∀ b ∈ acc, isDigit b = true) :
    ∀ b ∈ natDigitsAux fuel n acc, isDigit b = true := by
  induction fuel generalizing n acc with
  | zero => simpa [natDigitsAux] using hacc
  | succ fuel ih =>
    simp only [natDigitsAux]
    have hd := digit_isDigit (n % 10) (Nat.mod_lt _ (by decide))
    have hacc' : ∀ b ∈ UInt8.ofNat (48 + n % 10) :: acc, isDigit b = true := by
      intro b hb
      rcases List.mem_cons.mp hb with rfl | hb
      · exact hd
      · exact hacc b hb
    split
    · exact hacc'
    · exact ih _ _ hacc'


/-! ### every token spans at least one byte (so the fuel of `run` suffices) -/

theorem csiParams_mono : ∀ (bs : Bytes) (p : PState) (n : Nat) {p' : PState} {r : Bytes} {n' : Nat},
    csiParams bs p n = some (p', r, n') → n ≤ n'
  | [], _, _, _, _, _, h => by simp [csiParams] at h
  | b :: rest, p, n, p', r, n', h => by
    unfold csiParams at h
    split at h
    · have := csiParams_mono rest _ _ h; omega
    · simp at h; omega

theorem csiSkipParams_mono : ∀ (bs : Bytes) (c : Bool) (n : Nat) {c' : Bool} {r : Bytes} {n' : Nat},
    csiSkipParams bs c n = some (c', r, n') → n ≤ n'
  | [], _, _, _, _, _, h => by simp [csiSkipParams] at h
  | b :: rest, c, n, c', r, n', h => by
    unfold csiSkipParams at h
    split at h
    · have := csiSkipParams_mono rest _ _ h; omega
    · simp at h; omega

theorem csiInter_lt : ∀ (bs : Bytes) (c : Bool) (n : Nat) {c' : Bool} {f : UInt8} {n' : Nat},
    csiInter bs c n = some (c', f, n') → n < n'
  | [], _, _, _, _, _, h => by simp [csiInter] at h
  | b :: rest, c, n, c', f, n', h => by
    unfold csiInter at h
    split at h
    · have := csiInter_lt rest _ _ h; omega
    · simp at h; omega

theorem parseCSI_lt (bs : Bytes) (n0 : Nat) {tk : Tok} {n : Nat} (h : parseCSI bs n0 = .tok tk n) : n0 < n := by
  unfold parseCSI at h
  cases bs with
  | nil => cases h
  | cons b rest =>
    simp only at h
    generalize hX : (if (b = 0x3f || b = 0x3e || b = 0x3c || b = 0x3d) = true then (b, rest, n0 + 1) else ((0 : UInt8), b :: rest, n0)) = X at h
    obtain ⟨pre, body, n1⟩ := X
    have hn1 : n0 ≤ n1 := by split at hX <;> (cases hX; omega)
    simp only at h
    cases h1 : csiParams body {} n1 with
    | none => simp [h1] at h
    | some r1 =>
      obtain ⟨p, body2, n2⟩ := r1
      simp only [h1] at h
      cases h2 : csiSkipParams body2 true n2 with
      | none => simp [h2] at h
      | some r2 =>
        obtain ⟨cl, body3, n3⟩ := r2
        simp only [h2] at h
        cases h3 : csiInter body3 cl n3 with
        | none => simp [h3] at h
        | some r3 =>
          obtain ⟨cl', fin, n4⟩ := r3
          simp only [h3] at h
          cases h
          have a1 := csiParams_mono _ _ _ h1
          have a2 := csiSkipParams_mono _ _ _ h2
          have a3 := csiInter_lt _ _ _ h3
          omega

theorem strPayload_lt (bel : Bool) : ∀ (bs acc : Bytes) (need n : Nat) {acc' : Bytes} {n' : Nat},
    strPayload bel bs acc need n = some (acc', n') → n < n'
  | [], _, _, _, _, _, h => by simp [strPayload] at h
  | b :: rest, acc, need, n, acc', n', h => by
    unfold strPayload at h
    split at h
    · simp at h; omega
    · split at h
      · simp at h; omega
      · split at h
        · simp at h; omega
        · have := strPayload_lt bel rest _ _ _ h; omega

theorem oscDigits_mono : ∀ (bs acc : Bytes) (n : Nat) {ds r : Bytes} {n' : Nat},
    oscDigits bs acc n = some (ds, r, n') → n ≤ n'
  | [], _, _, _, _, _, h => by simp [oscDigits] at h
  | b :: rest, acc, n, ds, r, n', h => by
    unfold oscDigits at h
    split at h
    · have := oscDigits_mono rest _ _ h; omega
    · simp at h; omega

theorem parseOSC_lt (bs : Bytes) (n0 : Nat) {tk : Tok} {n : Nat} (h : parseOSC bs n0 = .tok tk n) : n0 < n := by
  unfold parseOSC at h
  cases h1 : oscDigits bs [] n0 with
  | none => simp [h1] at h
  | some r1 =>
    obtain ⟨ds, rest, n1⟩ := r1
    have a1 := oscDigits_mono _ _ _ h1
    simp only [h1] at h
    cases rest with
    | nil => cases h
    | cons b rest' =>
      simp only at h
      split at h
      · cases h2 : strPayload true rest' [] 0 (n1 + 1) with
        | none => simp [h2] at h
        | some r2 =>
          obtain ⟨acc, n2⟩ := r2
          simp only [h2] at h
          cases h
          have := strPayload_lt _ _ _ _ _ h2
          omega
      · split at h
        · cases h; omega
        · cases h2 : strPayload true rest' [b] (leadLen b - 1) (n1 + 1) with
          | none => simp [h2] at h
          | some r2 =>
            obtain ⟨acc, n2⟩ := r2
            simp only [h2] at h
            cases h
            have := strPayload_lt _ _ _ _ _ h2
            omega

theorem parseDCS_lt (bs : Bytes) (n0 : Nat) {tk : Tok} {n : Nat} (h : parseDCS bs n0 = .tok tk n) : n0 < n := by
  unfold parseDCS at h
  cases h2 : strPayload false bs [] 0 n0 with
  | none => simp [h2] at h
  | some r2 =>
    obtain ⟨acc, n2⟩ := r2
    simp only [h2] at h
    cases h
    exact strPayload_lt _ _ _ _ _ h2

theorem escInter_lt : ∀ (bs acc : Bytes) (n : Nat) {i : Bytes} {f : UInt8} {n' : Nat},
    escInter bs acc n = some (i, f, n') → n < n'
  | [], _, _, _, _, _, h => by simp [escInter] at h
  | b :: rest, acc, n, i, f, n', h => by
    unfold escInter at h
    split at h
    · have := escInter_lt rest _ _ h; omega
    · simp at h; omega

theorem parseEsc_lt (bs : Bytes) {tk : Tok} {n : Nat} (h : parseEsc bs = .tok tk n) : 0 < n := by
  unfold parseEsc at h
  cases bs with
  | nil => cases h
  | cons b rest =>
    simp only at h
    split at h
    · have := parseCSI_lt _ _ h; omega
    · split at h
      · have := parseOSC_lt _ _ h; omega
      · split at h
        · have := parseDCS_lt _ _ h; omega
        · cases h2 : escInter (b :: rest) [] 1 with
          | none => simp [h2] at h
          | some r2 =>
            obtain ⟨i, f, n2⟩ := r2
            simp only [h2] at h
            cases h
            have := escInter_lt _ _ _ h2
            omega

theorem decodeRune_size_pos (b : UInt8) (rest : Bytes) : 0 < (decodeRune (b :: rest)).2 := by
  unfold decodeRune
  split
  all_goals (try split)
  all_goals first
    | (next h => cases h)
    | (split <;> simp)
    | simp

/-- every token spans at least one byte -/
theorem next_progress (bs : Bytes) {tk : Tok} {n : Nat} (h : next bs = .tok tk n) : 0 < n := by
  unfold next at h
  cases bs with
  | nil => cases h
  | cons b rest =>
    simp only at h
    split at h
    · split at h
      · cases h
        exact decodeRune_size_pos b rest
      · cases h
    · split at h
      · exact parseEsc_lt _ h
      · cases h; omega

end Lemmas
open Lemmas

/-! ## 1. every token, every state: the bytes written are exactly `replyOf` -/

/-- The bytes written to the application by one token are exactly the answer to the query it is
    (nothing if it is not a query), computed from the state the token arrived in. -/
theorem reply_spec (cw : Nat → Nat) (t : Term) (tok : Tok) :
    replyBytes (Term.apply cw t tok).2 = replyOf t tok := by
  rw [← replyBytes_filter, apply_filter, replyOf]
  cases queryOf tok <;> simp [replyBytes]

/-- the reply events themselves: one event carrying the whole answer, or none -/
theorem reply_events (cw : Nat → Nat) (t : Term) (tok : Tok) :
    (Term.apply cw t tok).2.filter isReply =
      match queryOf tok with
      | some q => [.reply (answer t q)]
      | none => [] := apply_filter cw t tok

/-- no token produces more than one reply … -/
theorem at_most_one (cw : Nat → Nat) (t : Term) (tok : Tok) :
    ((Term.apply cw t tok).2.filter isReply).length ≤ 1 := by
  rw [apply_filter]; cases queryOf tok <;> simp

/-- … and exactly one reply is produced exactly by the five query forms -/
theorem exactly_one_iff (cw : Nat → Nat) (t : Term) (tok : Tok) :
    ((Term.apply cw t tok).2.filter isReply).length = 1 ↔
      ∃ ps, tok = .csi 0 ps true 0x63 ∧ firstParam ps = 0      -- CSI c, CSI 0 c
          ∨ tok = .csi 0x3e ps true 0x63                     -- CSI > … c
          ∨ tok = .csi 0 ps true 0x6e ∧ firstParam ps = 5      -- CSI 5 n
          ∨ tok = .csi 0 ps true 0x6e ∧ firstParam ps = 6      -- CSI 6 n
          ∨ tok = .csi 0x3f ps true 0x75 := by               -- CSI ? … u
  rw [apply_filter]
  constructor
  · intro h
    cases hq : queryOf tok with
    | none => simp [hq] at h
    | some q =>
      obtain ⟨ps, hc⟩ := queryOf_cases hq
      refine ⟨ps, ?_⟩
      rcases hc with ⟨h1, h2, _⟩ | ⟨h1, _⟩ | ⟨h1, h2, _⟩ | ⟨h1, h2, _⟩ | ⟨h1, _⟩
      · exact .inl ⟨h1, h2⟩
      · exact .inr (.inl h1)
      · exact .inr (.inr (.inl ⟨h1, h2⟩))
      · exact .inr (.inr (.inr (.inl ⟨h1, h2⟩)))
      · exact .inr (.inr (.inr (.inr h1)))
  · rintro ⟨ps, ⟨rfl, hp⟩ | rfl | ⟨rfl, hp⟩ | ⟨rfl, hp⟩ | rfl⟩ <;> simp [queryOf, *]

/-- the answers, spelled out for each query form (`ps` = the parameters of the sequence) -/
theorem answers (cw : Nat → Nat) (t : Term) (ps : List Int) :
    (firstParam ps = 0 → replyBytes (Term.apply cw t (.csi 0 ps true 0x63)).2 = ascii "\x1b[?1;2c") ∧
    (replyBytes (Term.apply cw t (.csi 0x3e ps true 0x63)).2 = ascii "\x1b[>1;4402;0c") ∧
    (firstParam ps = 5 → replyBytes (Term.apply cw t (.csi 0 ps true 0x6e)).2 = ascii "\x1b[0n") ∧
    (firstParam ps = 6 → replyBytes (Term.apply cw t (.csi 0 ps true 0x6e)).2 =
        ascii "\x1b[" ++ dec ((active t).cy + 1) ++ ascii ";" ++ dec ((active t).cx + 1) ++ ascii "R") ∧
    (replyBytes (Term.apply cw t (.csi 0x3f ps true 0x75)).2 =
        ascii "\x1b[?" ++ dec (activeFlags t) ++ ascii "u") := by
  refine ⟨fun h => ?_, ?_, fun h => ?_, fun h => ?_, ?_⟩ <;>
    simp [reply_spec, replyOf, queryOf, answer, *]

/-! ## 2. nothing else replies -/

/-- a token that is not one of the five query forms produces no reply event at all -/
theorem no_unsolicited (cw : Nat → Nat) (t : Term) (tok : Tok) (h : queryOf tok = none) :
    ∀ b, Ev.reply b ∉ (Term.apply cw t tok).2 := by
  intro b hb
  have : Ev.reply b ∈ (Term.apply cw t tok).2.filter isReply := by
    simp [List.mem_filter, hb, isReply]
  rw [apply_filter, h] at this
  simp at this

/-- what "not a query" covers: text, every C0 control, every ESC sequence, OSC, DCS, every
    unclean CSI, every CSI with a final/prefix combination other than the five, DA1 with a
    non-zero parameter, DSR with a parameter other than 5 and 6 -/
theorem non_queries :
    (∀ s cp, queryOf (.text s cp) = none) ∧
    (∀ b, queryOf (.ctl b) = none) ∧
    (∀ i f, queryOf (.esc i f) = none) ∧
    (∀ n pl wf, queryOf (.osc n pl wf) = none) ∧
    queryOf .dcs = none ∧
    (∀ pfx ps fin, queryOf (.csi pfx ps false fin) = none) ∧
    (∀ pfx ps fin, fin ≠ 0x63 → fin ≠ 0x6e → fin ≠ 0x75 → queryOf (.csi pfx ps true fin) = none) ∧
    (∀ pfx ps fin, pfx ≠ 0 → pfx ≠ 0x3e → pfx ≠ 0x3f → queryOf (.csi pfx ps true fin) = none) ∧
    (∀ ps, firstParam ps ≠ 0 → queryOf (.csi 0 ps true 0x63) = none) ∧
    (∀ ps, firstParam ps ≠ 5 → firstParam ps ≠ 6 → queryOf (.csi 0 ps true 0x6e) = none) ∧
    (∀ ps, queryOf (.csi 0 ps true 0x75) = none) ∧
    (∀ ps fin, fin ≠ 0x75 → queryOf (.csi 0x3f ps true fin) = none) ∧
    (∀ ps fin, fin ≠ 0x63 → queryOf (.csi 0x3e ps true fin) = none) := by
  refine ⟨?_, ?_, ?_, ?_, ?_, ?_, ?_, ?_, ?_, ?_, ?_, ?_, ?_⟩ <;> intros <;> simp_all [queryOf]

/-! ## 3. queries do not change the state -/

theorem queries_do_not_change_state (cw : Nat → Nat) (t : Term) (tok : Tok) (q : Query)
    (h : queryOf tok = some q) : (Term.apply cw t tok).1 = t := by
  obtain ⟨ps, hc⟩ := queryOf_cases h
  rcases hc with ⟨rfl, hp, _⟩ | ⟨rfl, _⟩ | ⟨rfl, hp, _⟩ | ⟨rfl, hp, _⟩ | ⟨rfl, _⟩ <;>
    simp [Term.apply, Term.csi, Term.csiPlain, p0_eq, *]


/-! ## 4. the cursor report is 1-based and within the screen -/

/-- decimal value of a digit string -/
def atoi (ds : Bytes) : Nat := ds.foldl (fun acc d => acc * 10 + (d.toNat - 48)) 0

/-- `dec` (hence the model's `itoa`) really is the decimal rendering: digits only, and reading
    them back gives the number -/
theorem dec_decimal (n : Nat) : atoi (dec n) = n ∧ (∀ b ∈ dec n, isDigit b = true) ∧ dec n ≠ [] := by
  rw [← itoa_eq_dec]
  refine ⟨?_, ?_, ?_⟩
  · simpa [atoi, itoa] using foldl_natDigitsAux (n + 1) n [] (by omega)
  · exact natDigitsAux_digits (n + 1) n [] (by simp)
  · intro h
    have := foldl_natDigitsAux (n + 1) n [] (by omega)
    unfold itoa at h
    rw [h] at this
    simp only [List.foldl_nil] at this
    subst this
    simp [natDigitsAux] at h

/-- the model's `itoa` is Lean's `toString` on naturals -/
theorem itoa_is_toString (n : Nat) : itoa n = ascii (toString n) := itoa_eq_dec n

/-- `active` is the model's `Term.scr`, `activeFlags` the flags of the model's `Term.kbd` -/
theorem active_eq (t : Term) : active t = t.scr ∧ activeFlags t = t.kbd.flags := by
  unfold active activeFlags Term.scr Term.kbd
  cases t.onAlt <;> simp

/-- With the cursor inside the screen, `CSI 6 n` is answered `ESC [ r ; c R` where `r`, `c` are
    the 1-based row and column of the active screen's cursor, `1 ≤ r ≤ h`, `1 ≤ c ≤ w`. -/
theorem cpr_one_based_in_range (cw : Nat → Nat) (t : Term) (ps : List Int)
    (h6 : firstParam ps = 6) (hx : t.scr.cx < t.scr.w) (hy : t.scr.cy < t.scr.h) :
    ∃ r c, replyBytes (Term.apply cw t (.csi 0 ps true 0x6e)).2
              = ascii "\x1b[" ++ dec r ++ ascii ";" ++ dec c ++ ascii "R"
        ∧ r = t.scr.cy + 1 ∧ c = t.scr.cx + 1
        ∧ 1 ≤ r ∧ r ≤ t.scr.h ∧ 1 ≤ c ∧ c ≤ t.scr.w := by
  refine ⟨t.scr.cy + 1, t.scr.cx + 1, ?_, rfl, rfl, by omega, by omega, by omega, by omega⟩
  rw [(answers cw t ps).2.2.2.1 h6, (active_eq t).1]

/-- the hypotheses are part of the screen invariant `Scr.inv` that reachable states satisfy -/
theorem cpr_in_range_of_inv (cw : Nat → Nat) (t : Term) (ps : List Int)
    (h6 : firstParam ps = 6) (hinv : t.scr.inv = true) :
    ∃ r c, replyBytes (Term.apply cw t (.csi 0 ps true 0x6e)).2
              = ascii "\x1b[" ++ dec r ++ ascii ";" ++ dec c ++ ascii "R"
        ∧ r = t.scr.cy + 1 ∧ c = t.scr.cx + 1
        ∧ 1 ≤ r ∧ r ≤ t.scr.h ∧ 1 ≤ c ∧ c ≤ t.scr.w := by
  simp only [Scr.inv, Bool.and_eq_true, decide_eq_true_eq] at hinv
  exact cpr_one_based_in_range cw t ps h6 (by omega) (by omega)

/-! ## 5. replies come in the order of the queries, each from the state at that point -/

/-- the tokens `runFuel` consumes from `bs` (tokenising does not depend on the terminal) -/
def tokens : Nat → Bytes → List Tok
  | 0, _ => []
  | fuel+1, bs =>
    match next bs with
    | .need => []
    | .tok tk n => tk :: tokens fuel (bs.drop n)

/-- the bytes `runFuel` leaves unconsumed -/
def leftover : Nat → Bytes → Bytes
  | 0, bs => bs
  | fuel+1, bs =>
    match next bs with
    | .need => bs
    | .tok _ n => leftover fuel (bs.drop n)

/-- the state after a list of tokens -/
def stateAfter (cw : Nat → Nat) (t : Term) : List Tok → Term
  | [] => t
  | tk :: tks => stateAfter cw (Term.apply cw t tk).1 tks

/-- the events of a list of tokens, in order -/
def eventsOf (cw : Nat → Nat) (t : Term) : List Tok → List Ev
  | [] => []
  | tk :: tks => (Term.apply cw t tk).2 ++ eventsOf cw (Term.apply cw t tk).1 tks

/-- what the application must receive for a token list: the answer to each token, in token order,
    each computed from the state that token was applied to -/
def replayReplies (cw : Nat → Nat) (t : Term) : List Tok → Bytes
  | [] => []
  | tk :: tks => replyOf t tk ++ replayReplies cw (Term.apply cw t tk).1 tks

theorem replyBytes_append (e₁ e₂ : List Ev) : replyBytes (e₁ ++ e₂) = replyBytes e₁ ++ replyBytes e₂ := by
  induction e₁ with
  | nil => rfl
  | cons e es ih => cases e <;> simp [replyBytes, ih]

/-- `runFuel` is: tokenise, then apply the tokens left to right, appending their events -/
theorem runFuel_eq (cw : Nat → Nat) (fuel : Nat) (t : Term) (bs : Bytes) (evs : List Ev) :
    runFuel cw fuel t bs evs =
      (stateAfter cw t (tokens fuel bs), evs ++ eventsOf cw t (tokens fuel bs), leftover fuel bs) := by
  induction fuel generalizing t bs evs with
  | zero => simp [runFuel, tokens, leftover, stateAfter, eventsOf]
  | succ fuel ih =>
    simp only [runFuel, tokens, leftover]
    cases next bs with
    | need => simp [stateAfter, eventsOf]
    | tok tk n => simp [ih, stateAfter, eventsOf]

theorem replyBytes_eventsOf (cw : Nat → Nat) (t : Term) (toks : List Tok) :
    replyBytes (eventsOf cw t toks) = replayReplies cw t toks := by
  induction toks generalizing t with
  | nil => rfl
  | cons tk tks ih => simp [eventsOf, replayReplies, replyBytes_append, reply_spec, ih]

/-- The bytes written to the application during `runFuel` are what was written before, followed by
    the answers to the consumed tokens in stream order, each from the state at that point. -/
theorem replies_in_order_fuel (cw : Nat → Nat) (fuel : Nat) (t : Term) (bs : Bytes) (evs : List Ev) :
    replyBytes (runFuel cw fuel t bs evs).2.1 = replyBytes evs ++ replayReplies cw t (tokens fuel bs) := by
  rw [runFuel_eq, replyBytes_append, replyBytes_eventsOf]

/-- the same for a whole `run` -/
theorem replies_in_order (cw : Nat → Nat) (t : Term) (bs : Bytes) :
    replyBytes (run cw t bs).2.1 = replayReplies cw t (tokens (bs.length + 1) bs) := by
  simp [run, replies_in_order_fuel, replyBytes]

/-- order, spelled out: for a query `q` anywhere in the token list, the output is the output of
    the tokens before it, then the answer to `q` in the state reached after those tokens, then
    the output of the tokens after it. -/
theorem replayReplies_split (cw : Nat → Nat) (t : Term) (pre post : List Tok) (q : Tok) :
    replayReplies cw t (pre ++ q :: post) =
      replayReplies cw t pre ++ replyOf (stateAfter cw t pre) q
        ++ replayReplies cw (Term.apply cw (stateAfter cw t pre) q).1 post := by
  induction pre generalizing t with
  | nil => simp [replayReplies, stateAfter]
  | cons p pre ih => simp [replayReplies, stateAfter, ih]

/-- chunked delivery: the replies of a read script are the replies of the chunks, in order -/
theorem feedAll_replies (cw : Nat → Nat) (s : Sys) (c : Bytes) (cs : List Bytes) :
    replyBytes (Sys.feedAll cw s (c :: cs)).2 =
      replayReplies cw s.t (tokens ((s.pending ++ c).length + 1) (s.pending ++ c))
        ++ replyBytes (Sys.feedAll cw (Sys.feed cw s c).1 cs).2 := by
  simp only [Sys.feedAll, replyBytes_append]
  congr 1
  exact replies_in_order cw s.t (s.pending ++ c)

/-- the fuel of `run` is enough: what is left unconsumed does not start with a complete token,
    so every query in the received bytes whose sequence is complete has been answered -/
theorem leftover_stuck (fuel : Nat) (bs : Bytes) (h : bs.length < fuel) :
    next (leftover fuel bs) = .need := by
  induction fuel generalizing bs with
  | zero => omega
  | succ fuel ih =>
    simp only [leftover]
    cases hn : next bs with
    | need => simpa using hn
    | tok tk n =>
      simp only
      apply ih
      have hp := next_progress bs hn
      cases bs with
      | nil => simp [next] at hn
      | cons b rest => simp only [List.length_drop, List.length_cons] at h ⊢; omega

theorem run_consumes_all (cw : Nat → Nat) (t : Term) (bs : Bytes) : next (run cw t bs).2.2 = .need := by
  simp only [run, runFuel_eq]
  exact leftover_stuck _ _ (by omega)

/-- more fuel than that changes nothing: the token list of a byte string is well defined -/
theorem tokens_fuel (f1 f2 : Nat) (bs : Bytes) (h1 : bs.length < f1) (h2 : bs.length < f2) :
    tokens f1 bs = tokens f2 bs := by
  induction f1 generalizing f2 bs with
  | zero => omega
  | succ f1 ih =>
    cases f2 with
    | zero => omega
    | succ f2 =>
      simp only [tokens]
      cases hn : next bs with
      | need => rfl
      | tok tk n =>
        simp only
        have hp := next_progress bs hn
        cases bs with
        | nil => simp [next] at hn
        | cons b rest =>
          rw [ih f2 _ (by simp only [List.length_drop, List.length_cons] at h1 ⊢; omega)
            (by simp only [List.length_drop, List.length_cons] at h2 ⊢; omega)]

/-! ## non-vacuity -/

section Examples

/-- a terminal that has printed `ab`, moved to row 3 and is on the alternate screen with Kitty
    flags 5 -/
def demo : Term :=
  stateAfter (fun _ => 1) (Term.init .blank 10 4)
    [.text [0x61] 0x61, .text [0x62] 0x62, .csi 0x3f [1049] true 0x68, .csi 0 [3, 7] true 0x48,
     .csi 0x3d [5] true 0x75]

example : demo.onAlt = true ∧ demo.scr.cx = 6 ∧ demo.scr.cy = 2 ∧ demo.kbd.flags = 5
    ∧ demo.main.cx = 2 ∧ demo.kmain.flags = 0 := by decide

/-- the hypotheses of `cpr_one_based_in_range` hold there, and the report is `ESC[3;7R` -/
example : demo.scr.cx < demo.scr.w ∧ demo.scr.cy < demo.scr.h ∧ demo.scr.inv = true := by decide
example : replyOf demo (.csi 0 [6] true 0x6e) = ascii "\x1b[3;7R" := by decide
example : replyOf demo (.csi 0x3f [] true 0x75) = ascii "\x1b[?5u" := by decide
example : replyOf demo (.csi 0 [] true 0x63) = ascii "\x1b[?1;2c" := by decide
example : replyOf demo (.csi 0 [1] true 0x63) = [] := by decide
example : replyOf demo (.csi 0 [6] false 0x6e) = [] := by decide

/-- a stream with four queries, text in between and a trailing incomplete sequence: the replies
    come out in order, the cursor report reflects the text printed before it (and not the text
    after it), and the incomplete tail stays unconsumed -/
example :
    let bs := ascii "\x1b[5nAB\x1b[6nCD\x1b[?u\x1b[>c\x1b[6"
    let r := run (fun _ => 1) (Term.init .blank 10 4) bs
    replyBytes r.2.1 = ascii "\x1b[0n\x1b[1;3R\x1b[?0u\x1b[>1;4402;0c" ∧ r.2.2 = ascii "\x1b[6" := by
  decide

end Examples

#print axioms TM.C14.reply_spec
#print axioms TM.C14.reply_events
#print axioms TM.C14.at_most_one
#print axioms TM.C14.exactly_one_iff
#print axioms TM.C14.answers
#print axioms TM.C14.no_unsolicited
#print axioms TM.C14.non_queries
#print axioms TM.C14.queries_do_not_change_state
#print axioms TM.C14.dec_decimal
#print axioms TM.C14.itoa_is_toString
#print axioms TM.C14.cpr_one_based_in_range
#print axioms TM.C14.cpr_in_range_of_inv
#print axioms TM.C14.runFuel_eq
#print axioms TM.C14.replyBytes_append
#print axioms TM.C14.replies_in_order_fuel
#print axioms TM.C14.replies_in_order
#print axioms TM.C14.replayReplies_split
#print axioms TM.C14.run_consumes_all
#print axioms TM.C14.tokens_fuel
#print axioms TM.C14.feedAll_replies

end TM.C14
