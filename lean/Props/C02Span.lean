import TM.SpanLine
/-!
# C02Span — the run-list operations of the span buffer refine the cell-level operations

Property C02: "After every processed input and every Resize, each row of the active and the
inactive buffer consists of styled runs of positive width that sum to exactly the screen width,
and Line(y), StyledLine(0,W,y) and ANSILine(y) describe the same text."

`TM/SpanLine.lean` transcribes the row-level code of the span buffer (`splitSpan`,
`replaceRangeSpans`, `truncateLine`, `resizeLine`, `writeSpanAt`, `deleteChars`, `eraseRegion`,
`Line`); `TM/Screen.lean` is the cell-level model.  The theorems below say that the run-list
operations keep the row invariant and compute, under the abstraction map `lineCells`, exactly the
cell-level operations of `TM.Screen` — for every row, column, count, run structure and width
function `cw`.

IMPORTANT (finding): the invariant `spanOK`/`lineOK` of `TM/SpanLine.lean` is NOT preserved by the
operations when a stored text contains an invalid UTF-8 sequence whose first byte only tokenises
because of the bytes after it (`[0xE4, 0x41]`: two characters `[0xE4]`, `[0x41]`; the text `[0xE4]`
alone is an incomplete character and tokenises to nothing).  See `lineOK_not_preserved` below.
The theorems therefore use the slightly stronger, still decidable, invariant `spanWF`/`lineWF`:
every character of a stored text also tokenises on its own.  `spanWF → spanOK`, `lineWF → lineOK`.
Blank runs (rune `0x20`) are well formed only when `cw 0x20 ≤ 1`; that is a hypothesis (`hb`) of the
theorems that have to show that a result is well formed.

Method: a run is viewed as a list of characters `(bytes, width)` (`spanCl`, `spanK`), a row as the
concatenation (`lineK`), its cells are `cellsK`; every column of such a row is a character boundary
or strictly inside a character (`locate`), and `contAt` / `headOf` / `widthAt` / `blankCharAt` /
`blankStraddlers` are evaluated on the two shapes (`at_boundary`, `at_inside`, `straddle`).

Main results: M1 `stepRune_append`, `clustersAux_fuel_irrel`, `clusters_flat`, `clusters_ascii`,
`clusters_append_textOK`, `length_lineCells_spanOK`; M2 `splitSpan_spec`, `splitSpan_cells`,
`splitSpan_trivial`, `oneCellPerByte_clusters`; M3 `splice_spec` (hub form, both `keep`),
`replaceRangeWide_cells`, `replaceRangeWide_cells_keep`, `replaceRangeWide_wf`,
`replaceRangeWide_noop`, `replaceRangeWide_clamp`; M4 `blankSpanLine_refines`, `eraseLine_refines`,
`deleteCharsLine_refines`, `truncateLine_refines`, `resizeLine_refines`, `writeChar_refines`,
`writeSpanLine_false_announce`, `lineText_refines`; M5 `styledLineAux_spec`, `styledLine_spec`.
-/
namespace TM.C02Span
open TM

/-! ## M1 — UTF-8 and tokenisation -/

theorem decodeRune_size (b : Bytes) (hb : b ≠ []) :
    1 ≤ (decodeRune b).2 ∧ (decodeRune b).2 ≤ b.length := by
  cases b with
  | nil => exact absurd rfl hb
  | cons b0 rest =>
    simp only [decodeRune]
    split <;> (try split) <;> simp only [List.length_cons] <;> omega

theorem fullRune_append (a s : Bytes) (h : fullRune a = true) : fullRune (a ++ s) = true := by
  cases a with
  | nil => simp [fullRune] at h
  | cons b0 rest =>
    simp only [List.cons_append]
    unfold fullRune at h ⊢
    simp only at h ⊢
    by_cases h1 : leadLen b0 ≤ 1
    · simp [h1]
    · simp only [h1, if_false] at h ⊢
      by_cases h2 : (rest ++ s).length + 1 ≥ leadLen b0
      · rw [if_pos h2]
      · have h3 : ¬ (rest.length + 1 ≥ leadLen b0) := by simp at h2 ⊢; omega
        simp only [h2, h3, if_false] at h ⊢
        rcases rest with _ | ⟨b1, _ | ⟨b2, r3⟩⟩
        · simp at h
        · simp at h ⊢; simp [h]
        · simpa using h

theorem decodeRune_append (a s : Bytes) (h : fullRune a = true) :
    decodeRune (a ++ s) = decodeRune a := by
  cases a with
  | nil => simp [fullRune] at h
  | cons b0 rest =>
    simp only [List.cons_append]
    unfold fullRune at h
    simp only at h
    simp only [decodeRune]
    obtain ⟨n, hn⟩ : ∃ n, leadLen b0 = n := ⟨_, rfl⟩
    rw [hn] at h ⊢
    rcases n with _|_|_|_|_|n <;>
    rcases rest with _ | ⟨b1, _ | ⟨b2, _ | ⟨b3, r4⟩⟩⟩ <;>
    rcases s with _ | ⟨s1, _ | ⟨s2, _ | ⟨s3, s4⟩⟩⟩ <;> simp_all <;>
    (intro h1 h2; simp_all)

theorem stepRune_eq (cw : Nat → Nat) (b : Bytes) :
    stepRune cw b = if fullRune b then
      (if (decodeRune b).2 = 0 then none else some ((decodeRune b).2, max (cw (decodeRune b).1) 1))
      else none := by
  rcases h : decodeRune b with ⟨r, s⟩
  cases hf : fullRune b <;> simp [stepRune, h, hf]

theorem stepRune_nil (cw : Nat → Nat) : stepRune cw [] = none := by
  simp [stepRune_eq, fullRune]

theorem stepRune_some {cw : Nat → Nat} {b : Bytes} {c w : Nat} (h : stepRune cw b = some (c, w)) :
    1 ≤ c ∧ c ≤ b.length ∧ 1 ≤ w ∧ fullRune b = true := by
  rw [stepRune_eq] at h
  cases hf : fullRune b
  · simp [hf] at h
  · have hb : b ≠ [] := by intro hb; subst hb; simp [fullRune] at hf
    have := decodeRune_size b hb
    simp only [hf, if_true] at h
    split at h
    · simp at h
    · simp only [Option.some.injEq, Prod.mk.injEq] at h
      refine ⟨by omega, by omega, by omega, rfl⟩

/-- M1: a complete first character is not affected by what follows it -/
theorem stepRune_append {cw : Nat → Nat} {a : Bytes} {c w : Nat} (s : Bytes)
    (h : stepRune cw a = some (c, w)) : stepRune cw (a ++ s) = some (c, w) := by
  have hf := (stepRune_some h).2.2.2
  rw [stepRune_eq] at h ⊢
  rw [fullRune_append a s hf, decodeRune_append a s hf]
  rw [hf] at h
  exact h

/-- a character with its width -/
abbrev Cl := Bytes × Nat

def ws (cs : List Cl) : Nat := (cs.map (·.2)).sum
def flat (cs : List Cl) : Bytes := (cs.map (·.1)).flatten

@[simp] theorem ws_nil : ws [] = 0 := rfl
@[simp] theorem ws_cons (p : Cl) (cs : List Cl) : ws (p :: cs) = p.2 + ws cs := by simp [ws]
@[simp] theorem ws_append (a b : List Cl) : ws (a ++ b) = ws a + ws b := by simp [ws]
@[simp] theorem flat_nil : flat [] = [] := rfl
@[simp] theorem flat_cons (p : Cl) (cs : List Cl) : flat (p :: cs) = p.1 ++ flat cs := by simp [flat]
@[simp] theorem flat_append (a b : List Cl) : flat (a ++ b) = flat a ++ flat b := by simp [flat]

/-- every character of the list tokenises on its own, to itself -/
def Toks (cw : Nat → Nat) (cs : List Cl) : Prop :=
  ∀ p ∈ cs, stepRune cw p.1 = some (p.1.length, p.2)

theorem Toks.pos {cw : Nat → Nat} {cs : List Cl} (h : Toks cw cs) :
    ∀ p ∈ cs, 1 ≤ p.1.length ∧ 1 ≤ p.2 := by
  intro p hp
  have := stepRune_some (h p hp)
  omega

theorem Toks.append {cw : Nat → Nat} {a b : List Cl} (ha : Toks cw a) (hb : Toks cw b) :
    Toks cw (a ++ b) := by
  intro p hp
  rcases List.mem_append.1 hp with h | h
  · exact ha p h
  · exact hb p h

theorem Toks.left {cw : Nat → Nat} {a b : List Cl} (h : Toks cw (a ++ b)) : Toks cw a :=
  fun p hp => h p (List.mem_append_left _ hp)
theorem Toks.right {cw : Nat → Nat} {a b : List Cl} (h : Toks cw (a ++ b)) : Toks cw b :=
  fun p hp => h p (List.mem_append_right _ hp)
theorem Toks.tail {cw : Nat → Nat} {p : Cl} {b : List Cl} (h : Toks cw (p :: b)) : Toks cw b :=
  fun q hq => h q (List.mem_cons_of_mem _ hq)
theorem Toks.head {cw : Nat → Nat} {p : Cl} {b : List Cl} (h : Toks cw (p :: b)) :
    stepRune cw p.1 = some (p.1.length, p.2) := h p (List.mem_cons_self ..)

theorem ws_pos {cs : List Cl} (h : ∀ p ∈ cs, 1 ≤ p.2) (hne : cs ≠ []) : 0 < ws cs := by
  cases cs with
  | nil => exact absurd rfl hne
  | cons p r => have := h p (List.mem_cons_self ..); simp; omega

theorem flat_length_pos {cs : List Cl} (h : ∀ p ∈ cs, 1 ≤ p.1.length) (hne : cs ≠ []) :
    0 < (flat cs).length := by
  cases cs with
  | nil => exact absurd rfl hne
  | cons p r => have := h p (List.mem_cons_self ..); simp; omega

/-- M1: a text made of self-tokenising characters tokenises into exactly these, whatever the fuel -/
theorem clustersAux_flat (cw : Nat → Nat) : ∀ (cs : List Cl), Toks cw cs →
    ∀ fuel, (flat cs).length ≤ fuel → clustersAux cw fuel (flat cs) = cs := by
  intro cs
  induction cs with
  | nil =>
    intro _ fuel _
    cases fuel with
    | zero => rfl
    | succ f => simp [clustersAux, stepRune_nil]
  | cons p r ih =>
    intro h fuel hf
    have hp := h.head
    have hpos := (stepRune_some hp).1
    simp only [flat_cons, List.length_append] at hf
    cases fuel with
    | zero => omega
    | succ f =>
      simp only [flat_cons, clustersAux, stepRune_append (flat r) hp, List.take_left', List.drop_left']
      rw [ih h.tail f (by omega)]

theorem clusters_flat {cw : Nat → Nat} {cs : List Cl} (h : Toks cw cs) :
    clusters cw (flat cs) = cs := clustersAux_flat cw cs h _ (Nat.le_refl _)

/-- M1: fuel irrelevance for a text of self-tokenising characters -/
theorem clustersAux_fuel {cw : Nat → Nat} {cs : List Cl} (h : Toks cw cs) (n m : Nat)
    (hn : (flat cs).length ≤ n) (hm : (flat cs).length ≤ m) :
    clustersAux cw n (flat cs) = clustersAux cw m (flat cs) := by
  rw [clustersAux_flat cw cs h n hn, clustersAux_flat cw cs h m hm]

theorem clustersAux_prefix (cw : Nat → Nat) : ∀ (n : Nat) (buf : Bytes),
    ∃ rem, buf = flat (clustersAux cw n buf) ++ rem := by
  intro n
  induction n with
  | zero => intro buf; exact ⟨buf, by simp [clustersAux]⟩
  | succ n ih =>
    intro buf
    simp only [clustersAux]
    split
    · exact ⟨buf, by simp⟩
    · rename_i c w _
      obtain ⟨rem, hr⟩ := ih (buf.drop c)
      refine ⟨rem, ?_⟩
      simp only [flat_cons, List.append_assoc]
      rw [← hr, List.take_append_drop]

theorem flat_length (cs : List Cl) : (flat cs).length = (cs.map (·.1.length)).sum := by
  induction cs with
  | nil => rfl
  | cons p r ih => simp [ih]

-- `textWF`, `spanWF`, `lineWF` (the strengthened invariant) are defined in `TM/SpanLine.lean`.

theorem spanWF_spanOK {cw : Nat → Nat} {sp : Span} (h : spanWF cw sp = true) : spanOK cw sp = true := by
  unfold spanWF at h; unfold spanOK
  cases ht : sp.text.isEmpty <;> simp_all [textWF]

theorem lineWF_lineOK {cw : Nat → Nat} {W : Nat} {l : SLine} (h : lineWF cw W l = true) :
    lineOK cw W l = true := by
  unfold lineWF at h; unfold lineOK
  simp only [Bool.and_eq_true, List.all_eq_true, decide_eq_true_eq] at h ⊢
  exact ⟨⟨fun x hx => spanWF_spanOK (h.1.1 x hx), h.1.2⟩, h.2⟩

theorem textWF_iff {cw : Nat → Nat} {t : Bytes} {w : Nat} :
    textWF cw t w = true ↔ Toks cw (clusters cw t) ∧ t = flat (clusters cw t) ∧ ws (clusters cw t) = w := by
  unfold textWF textOK
  simp only [Bool.and_eq_true, decide_eq_true_eq, List.all_eq_true, beq_iff_eq]
  constructor
  · rintro ⟨⟨h1, h2⟩, h3⟩
    refine ⟨h3, ?_, h2⟩
    obtain ⟨rem, hr⟩ := clustersAux_prefix cw t.length t
    have h4 : (flat (clustersAux cw t.length t)).length = t.length := by
      rw [flat_length]; exact h1
    have hl := congrArg List.length hr
    rw [List.length_append, h4] at hl
    have : rem = [] := List.eq_nil_of_length_eq_zero (by omega)
    subst this
    simpa [clusters] using hr
  · rintro ⟨h1, h2, h3⟩
    refine ⟨⟨?_, h3⟩, h1⟩
    rw [← flat_length, ← h2]

/-- the text built from self-tokenising characters is well formed -/
theorem textWF_flat {cw : Nat → Nat} {cs : List Cl} (h : Toks cw cs) : textWF cw (flat cs) (ws cs) = true := by
  rw [textWF_iff, clusters_flat h]; exact ⟨h, rfl, rfl⟩

/-! ## cells of lists of styled characters -/

/-- a styled character -/
abbrev K := Cl × Style

def cellsK (L : List K) : List Cell := L.flatMap fun k => charCells k.1.1 k.1.2 k.2
def wk (L : List K) : Nat := (L.map (·.1.2)).sum
def PosK (L : List K) : Prop := ∀ k ∈ L, 1 ≤ k.1.2
def blanksK (n : Nat) (st : Style) : List K := List.replicate n (([0x20], 1), st)

@[simp] theorem cellsK_nil : cellsK [] = [] := rfl
@[simp] theorem cellsK_cons (k : K) (L : List K) :
    cellsK (k :: L) = charCells k.1.1 k.1.2 k.2 ++ cellsK L := by simp [cellsK]
@[simp] theorem cellsK_append (A B : List K) : cellsK (A ++ B) = cellsK A ++ cellsK B := by
  simp [cellsK]
@[simp] theorem wk_nil : wk [] = 0 := rfl
@[simp] theorem wk_cons (k : K) (L : List K) : wk (k :: L) = k.1.2 + wk L := by simp [wk]
@[simp] theorem wk_append (A B : List K) : wk (A ++ B) = wk A + wk B := by simp [wk]

theorem PosK.append {A B : List K} (ha : PosK A) (hb : PosK B) : PosK (A ++ B) := by
  intro k hk
  rcases List.mem_append.1 hk with h | h
  · exact ha k h
  · exact hb k h
theorem PosK.left {A B : List K} (h : PosK (A ++ B)) : PosK A :=
  fun k hk => h k (List.mem_append_left _ hk)
theorem PosK.right {A B : List K} (h : PosK (A ++ B)) : PosK B :=
  fun k hk => h k (List.mem_append_right _ hk)
theorem PosK.tail {k : K} {B : List K} (h : PosK (k :: B)) : PosK B :=
  fun q hq => h q (List.mem_cons_of_mem _ hq)
theorem PosK.head {k : K} {B : List K} (h : PosK (k :: B)) : 1 ≤ k.1.2 := h k (List.mem_cons_self ..)
theorem PosK.cons {k : K} {B : List K} (hk : 1 ≤ k.1.2) (h : PosK B) : PosK (k :: B) := by
  intro q hq
  rcases List.mem_cons.1 hq with h1 | h1
  · subst h1; exact hk
  · exact h q h1
theorem PosK.nil : PosK [] := fun _ h => nomatch h

theorem length_charCells (b : Bytes) {w : Nat} (st : Style) (h : 1 ≤ w) :
    (charCells b w st).length = w := by simp [charCells]; omega

theorem length_cellsK {L : List K} (h : PosK L) : (cellsK L).length = wk L := by
  induction L with
  | nil => rfl
  | cons k r ih => simp [length_charCells _ _ h.head, ih h.tail]

theorem posK_blanksK (n : Nat) (st : Style) : PosK (blanksK n st) := by
  intro k hk; simp [blanksK, List.mem_replicate] at hk; simp [hk.2]
@[simp] theorem wk_blanksK (n : Nat) (st : Style) : wk (blanksK n st) = n := by
  induction n with
  | zero => rfl
  | succ n ih => simp [blanksK, List.replicate_succ] at ih ⊢; omega
@[simp] theorem cellsK_blanksK (n : Nat) (st : Style) :
    cellsK (blanksK n st) = List.replicate n (blank st) := by
  induction n with
  | zero => rfl
  | succ n ih => simp [blanksK, List.replicate_succ, charCells, blank] at ih ⊢; exact ih
theorem blanksK_add (m n : Nat) (st : Style) : blanksK (m + n) st = blanksK m st ++ blanksK n st := by
  simp [blanksK, List.replicate_append_replicate]

theorem take_cellsK {A B : List K} (h : PosK A) : (cellsK (A ++ B)).take (wk A) = cellsK A := by
  rw [cellsK_append, ← length_cellsK h]; exact List.take_left' rfl
theorem drop_cellsK {A B : List K} (h : PosK A) : (cellsK (A ++ B)).drop (wk A) = cellsK B := by
  rw [cellsK_append, ← length_cellsK h]; exact List.drop_left' rfl

theorem contAt_append_right (P Q : Row) (i : Nat) : contAt (P ++ Q) (P.length + i) = contAt Q i := by
  simp [contAt, List.getElem?_append_right]
theorem contAt_append_left {P : Row} (Q : Row) {i : Nat} (h : i < P.length) :
    contAt (P ++ Q) i = contAt P i := by
  simp [contAt, List.getElem?_append_left h]

theorem contAt_cellsK_zero {B : List K} (h : PosK B) : contAt (cellsK B) 0 = false := by
  cases B with
  | nil => rfl
  | cons k r => simp [contAt, charCells]

theorem contAt_charCells {b : Bytes} {w : Nat} {st : Style} {j : Nat} (h0 : 0 < j) (h1 : j < w) :
    contAt (charCells b w st) j = true := by
  cases j with
  | zero => omega
  | succ j =>
    have : j < w - 1 := by omega
    simp [contAt, charCells, this]

theorem headOf_of_not_cont {R : Row} {x : Nat} (h : contAt R x = false) : headOf R x = x := by
  cases x with
  | zero => rfl
  | succ x => simp [headOf, h]

theorem headOf_run {R : Row} {p : Nat} (hp : contAt R p = false) :
    ∀ x, p ≤ x → (∀ i, p < i → i ≤ x → contAt R i = true) → headOf R x = p := by
  intro x
  induction x with
  | zero => intro h _; have : p = 0 := by omega
            subst this; rfl
  | succ x ih =>
    intro h hc
    by_cases hx : p = x + 1
    · subst hx; exact headOf_of_not_cont hp
    · have h1 := hc (x + 1) (by omega) (Nat.le_refl _)
      simp only [headOf, h1, if_true]
      exact ih (by omega) (fun i hi hi2 => hc i hi (by omega))

theorem ev_boundary {A B : List K} (h : PosK (A ++ B)) :
    contAt (cellsK (A ++ B)) (wk A) = false := by
  have := contAt_append_right (cellsK A) (cellsK B) 0
  rw [cellsK_append]
  rw [length_cellsK h.left, Nat.add_zero] at this
  rw [this, contAt_cellsK_zero h.right]

theorem ev_inside {A B : List K} {k : K} (h : PosK (A ++ k :: B)) {x : Nat}
    (h1 : wk A < x) (h2 : x < wk A + k.1.2) :
    contAt (cellsK (A ++ k :: B)) x = true ∧ headOf (cellsK (A ++ k :: B)) x = wk A ∧
    widthAt (cellsK (A ++ k :: B)) (wk A) = k.1.2 := by
  have hk : 1 ≤ k.1.2 := h.right.head
  have hlen := length_cellsK h.left
  have hc : ∀ i, wk A < i → i < wk A + k.1.2 → contAt (cellsK (A ++ k :: B)) i = true := by
    intro i hi1 hi2
    obtain ⟨j, rfl⟩ : ∃ j, i = (cellsK A).length + j := ⟨i - wk A, by omega⟩
    rw [cellsK_append, contAt_append_right, cellsK_cons,
      contAt_append_left _ (by rw [length_charCells _ _ hk]; omega)]
    exact contAt_charCells (by omega) (by omega)
  refine ⟨hc x h1 h2, ?_, ?_⟩
  · exact headOf_run (ev_boundary h) x (by omega) (fun i hi hi2 => hc i hi (by omega))
  · have : (cellsK (A ++ k :: B))[wk A]? = some ⟨.ch k.1.1 k.1.2, k.2⟩ := by
      rw [cellsK_append, ← hlen, List.getElem?_append_right (Nat.le_refl _)]
      simp [charCells]
    simp only [widthAt, this]
    omega

theorem blankRange_mid (P M Q : Row) (st : Style) :
    blankRange (P ++ (M ++ Q)) P.length M.length st = P ++ (List.replicate M.length (blank st) ++ Q) := by
  apply List.ext_getElem?
  intro i
  simp only [blankRange, List.getElem?_mapIdx]
  by_cases h1 : i < P.length
  · rw [List.getElem?_append_left h1, List.getElem?_append_left h1]
    cases P[i]? <;> simp; omega
  · by_cases h2 : i < P.length + M.length
    · have h3 : i - P.length < M.length := by omega
      rw [List.getElem?_append_right (Nat.le_of_not_lt h1), List.getElem?_append_right (Nat.le_of_not_lt h1),
        List.getElem?_append_left h3, List.getElem?_append_left (by simpa using h3)]
      have h4 : P.length ≤ i ∧ i < P.length + M.length := ⟨by omega, h2⟩
      simp [h3, h4]
    · have h3 : M.length ≤ i - P.length := by omega
      rw [List.getElem?_append_right (Nat.le_of_not_lt h1), List.getElem?_append_right (Nat.le_of_not_lt h1),
        List.getElem?_append_right h3, List.getElem?_append_right (by simpa using h3)]
      simp only [List.length_replicate]
      cases Q[i - P.length - M.length]? <;> simp; omega

theorem blank_inside {A B : List K} {k : K} (h : PosK (A ++ k :: B)) {x : Nat}
    (h1 : wk A < x) (h2 : x < wk A + k.1.2) (st : Style) :
    blankCharAt (cellsK (A ++ k :: B)) x st = cellsK (A ++ (blanksK k.1.2 st ++ B)) := by
  obtain ⟨hc, hh, hw⟩ := ev_inside h h1 h2
  have hk : 1 ≤ k.1.2 := h.right.head
  simp only [blankCharAt, hc, hh, hw, Bool.not_true, Bool.false_eq_true, and_false, if_false]
  have := blankRange_mid (cellsK A) (charCells k.1.1 k.1.2 k.2) (cellsK B) st
  rw [length_cellsK h.left, length_charCells _ _ hk] at this
  simpa using this

/-- every column of a row is a character boundary or inside a (wide) character -/
theorem locate : ∀ (L : List K), PosK L → ∀ x, x ≤ wk L →
    (∃ A B, L = A ++ B ∧ wk A = x) ∨
    (∃ A k B, L = A ++ k :: B ∧ wk A < x ∧ x < wk A + k.1.2) := by
  intro L
  induction L with
  | nil => intro _ x hx; exact Or.inl ⟨[], [], rfl, by simp at hx; simp [hx]⟩
  | cons k r ih =>
    intro h x hx
    by_cases h0 : x = 0
    · exact Or.inl ⟨[], k :: r, rfl, by simp [h0]⟩
    by_cases h1 : x < k.1.2
    · exact Or.inr ⟨[], k, r, rfl, by simp; omega, by simpa using h1⟩
    · simp only [wk_cons] at hx
      rcases ih h.tail (x - k.1.2) (by omega) with ⟨A, B, rfl, hA⟩ | ⟨A, q, B, rfl, hA1, hA2⟩
      · exact Or.inl ⟨k :: A, B, rfl, by simp; omega⟩
      · exact Or.inr ⟨k :: A, q, B, rfl, by simp; omega, by simp; omega⟩

/-! ## M2 — runs as character lists, `splitSpan` -/

/-- the characters of a run: a repeated rune is `width` one-cell characters -/
def spanCl (cw : Nat → Nat) (sp : Span) : List Cl :=
  if sp.text.isEmpty then List.replicate sp.width (encodeRune sp.rune, 1) else clusters cw sp.text

def spanK (cw : Nat → Nat) (sp : Span) : List K := (spanCl cw sp).map fun c => (c, sp.sty)

theorem cellsK_map (cs : List Cl) (st : Style) :
    cellsK (cs.map fun c => (c, st)) = cs.flatMap fun c => charCells c.1 c.2 st := by
  induction cs with
  | nil => rfl
  | cons c r ih => simp [ih]

theorem wk_map (cs : List Cl) (st : Style) : wk (cs.map fun c => (c, st)) = ws cs := by
  induction cs with
  | nil => rfl
  | cons c r ih => simp [ih]

theorem posK_map {cs : List Cl} (st : Style) (h : ∀ p ∈ cs, 1 ≤ p.2) :
    PosK (cs.map fun c => (c, st)) := by
  intro k hk
  obtain ⟨c, hc, rfl⟩ := List.mem_map.1 hk
  exact h c hc

theorem cellsK_replicate1 (n : Nat) (b : Bytes) (st : Style) :
    cellsK (List.replicate n ((b, 1), st)) = List.replicate n ⟨.ch b 1, st⟩ := by
  induction n with
  | zero => rfl
  | succ n ih => simp [List.replicate_succ, charCells, ih]

/-- the cells of a run are the cells of its characters -/
theorem spanCells_eq (cw : Nat → Nat) (sp : Span) : spanCells cw sp = cellsK (spanK cw sp) := by
  unfold spanCells spanK spanCl
  cases h : sp.text.isEmpty
  · simp only [Bool.false_eq_true, if_false, cellsK_map, textCells]
  · simp only [if_true, List.map_replicate, cellsK_replicate1]

theorem ws_replicate1 (n : Nat) (b : Bytes) : ws (List.replicate n (b, 1)) = n := by
  induction n with
  | zero => rfl
  | succ n ih => simp [List.replicate_succ, ih]; omega

/-- what the cell-level statements need of a run (it may have width 0) -/
def SpanG (cw : Nat → Nat) (sp : Span) : Prop :=
  sp.width = ws (spanCl cw sp) ∧ (∀ p ∈ spanCl cw sp, 1 ≤ p.2) ∧ (0 < sp.width → spanWF cw sp = true)

theorem spanWF_text {cw : Nat → Nat} {sp : Span} (h : spanWF cw sp = true) (ht : sp.text.isEmpty = false) :
    Toks cw (clusters cw sp.text) ∧ sp.text = flat (clusters cw sp.text) ∧
    ws (clusters cw sp.text) = sp.width := by
  unfold spanWF at h
  simp only [ht, Bool.false_eq_true, if_false, Bool.and_eq_true] at h
  exact textWF_iff.1 h.2

theorem spanWF_G {cw : Nat → Nat} {sp : Span} (h : spanWF cw sp = true) : SpanG cw sp := by
  refine ⟨?_, ?_, fun _ => h⟩
  · unfold spanCl
    cases ht : sp.text.isEmpty
    · simp only [Bool.false_eq_true, if_false]; exact (spanWF_text h ht).2.2.symm
    · simp only [if_true, ws_replicate1]
  · unfold spanCl
    cases ht : sp.text.isEmpty
    · simp only [Bool.false_eq_true, if_false]; intro p hp; exact ((spanWF_text h ht).1.pos p hp).2
    · simp only [if_true]; intro p hp; rw [(List.mem_replicate.1 hp).2]; exact Nat.le_refl _

theorem spanWF_pos {cw : Nat → Nat} {sp : Span} (h : spanWF cw sp = true) : 0 < sp.width := by
  unfold spanWF at h; simp only [Bool.and_eq_true, decide_eq_true_eq] at h; exact h.1

theorem SpanG.posK {cw : Nat → Nat} {sp : Span} (h : SpanG cw sp) : PosK (spanK cw sp) :=
  posK_map _ h.2.1
theorem SpanG.wk {cw : Nat → Nat} {sp : Span} (h : SpanG cw sp) : wk (spanK cw sp) = sp.width := by
  unfold spanK; rw [wk_map]; exact h.1.symm

theorem ws_zero_nil {cs : List Cl} (h : ∀ p ∈ cs, 1 ≤ p.2) (h0 : ws cs = 0) : cs = [] := by
  cases cs with
  | nil => rfl
  | cons p r => have := h p (List.mem_cons_self ..); simp at h0; omega

theorem SpanG.nil {cw : Nat → Nat} {sp : Span} (h : SpanG cw sp) (h0 : sp.width = 0) :
    spanK cw sp = [] := by
  unfold spanK; rw [ws_zero_nil h.2.1 (by rw [← h.1]; exact h0)]; rfl

theorem spanG_empty (cw : Nat → Nat) : SpanG cw Span.empty := by
  refine ⟨by simp [spanCl, Span.empty], by simp [spanCl, Span.empty], by simp [Span.empty]⟩

/-- the run with the text and width of a list of characters -/
def sub (sp : Span) (cs : List Cl) : Span := { sp with text := flat cs, width := ws cs }

theorem sub_spec {cw : Nat → Nat} (sp : Span) {cs : List Cl} (h : Toks cw cs) :
    spanCl cw (sub sp cs) = cs ∧ SpanG cw (sub sp cs) := by
  by_cases hne : cs = []
  · subst hne
    have : spanCl cw (sub sp []) = [] := by simp [spanCl, sub]
    refine ⟨this, ?_, ?_, ?_⟩
    · rw [this]; rfl
    · rw [this]; intro p hp; cases hp
    · simp [sub]
  · have hl := flat_length_pos (fun p hp => (h.pos p hp).1) hne
    have hte : (flat cs).isEmpty = false := by
      cases hf : flat cs with
      | nil => rw [hf] at hl; simp at hl
      | cons _ _ => rfl
    have hcl : spanCl cw (sub sp cs) = cs := by
      simp only [spanCl, sub, hte, Bool.false_eq_true, if_false]; exact clusters_flat h
    refine ⟨hcl, ?_, ?_, fun _ => ?_⟩
    · rw [hcl]; rfl
    · rw [hcl]; exact fun p hp => (h.pos p hp).2
    have hw := ws_pos (fun p hp => (h.pos p hp).2) hne
    simp only [spanWF, sub, hte, Bool.false_eq_true, if_false, Bool.and_eq_true]
    exact ⟨decide_eq_true hw, textWF_flat h⟩

theorem locateC : ∀ (L : List Cl), (∀ p ∈ L, 1 ≤ p.2) → ∀ x, x ≤ ws L →
    (∃ A B, L = A ++ B ∧ ws A = x) ∨
    (∃ A k B, L = A ++ k :: B ∧ ws A < x ∧ x < ws A + k.2) := by
  intro L
  induction L with
  | nil => intro _ x hx; exact Or.inl ⟨[], [], rfl, by simp at hx; simp [hx]⟩
  | cons k r ih =>
    intro h x hx
    by_cases h0 : x = 0
    · exact Or.inl ⟨[], k :: r, rfl, by simp [h0]⟩
    by_cases h1 : x < k.2
    · exact Or.inr ⟨[], k, r, rfl, by simp; omega, by simpa using h1⟩
    · simp only [ws_cons] at hx
      rcases ih (fun p hp => h p (List.mem_cons_of_mem _ hp)) (x - k.2) (by omega) with
        ⟨A, B, rfl, hA⟩ | ⟨A, q, B, rfl, hA1, hA2⟩
      · exact Or.inl ⟨k :: A, B, rfl, by simp; omega⟩
      · exact Or.inr ⟨k :: A, q, B, rfl, by simp; omega, by simp; omega⟩

theorem byteIndexAux_spec (cw : Nat → Nat) (off : Nat) : ∀ (A B : List Cl), Toks cw (A ++ B) →
    ∀ fuel idx wd, (flat (A ++ B)).length ≤ fuel → wd + ws A = off →
    byteIndexAux cw off fuel (flat (A ++ B)) idx wd = (idx + (flat A).length, off) := by
  intro A
  induction A with
  | nil =>
    intro B _ fuel idx wd _ hw
    simp only [ws_nil, Nat.add_zero] at hw
    subst hw
    cases fuel with
    | zero => simp [byteIndexAux]
    | succ f => simp [byteIndexAux]
  | cons p A ih =>
    intro B h fuel idx wd hf hw
    have hp := h.head
    have hpos := stepRune_some hp
    simp only [List.cons_append, flat_cons, List.length_append] at hf
    simp only [ws_cons] at hw
    cases fuel with
    | zero => omega
    | succ f =>
      have hne : (p.1 ++ flat (A ++ B)).isEmpty = false := by
        cases hq : p.1 with
        | nil => rw [hq] at hpos; simp at hpos
        | cons _ _ => rfl
      have hlt : ¬ (wd ≥ off) := by omega
      simp only [List.cons_append, flat_cons, byteIndexAux, hne, hlt, decide_false, Bool.or_self,
        Bool.false_eq_true, if_false, stepRune_append _ hp, List.drop_left']
      rw [ih B h.tail f _ _ (by omega) (by omega)]
      simp only [List.length_append]; congr 1; omega

theorem splitScan_inside (cw : Nat → Nat) (off : Nat) : ∀ (A : List Cl) (p : Cl) (B : List Cl),
    Toks cw (A ++ p :: B) → ∀ fuel idx cp, (flat (A ++ p :: B)).length ≤ fuel →
    cp + ws A < off → off < cp + ws A + p.2 →
    splitScan cw off fuel (flat (A ++ p :: B)) idx cp =
      some (idx + (flat A).length, p.1.length, cp + ws A, p.2) := by
  intro A
  induction A with
  | nil =>
    intro p B h fuel idx cp hf h1 h2
    have hp := h.head
    have hpos := stepRune_some hp
    simp only [List.nil_append, flat_cons, List.length_append, ws_nil, Nat.add_zero] at hf h1 h2
    cases fuel with
    | zero => omega
    | succ f =>
      have c1 : cp ≤ off ∧ off < cp + p.2 := ⟨by omega, h2⟩
      have c2 : p.2 > 1 ∧ off > cp := ⟨by omega, h1⟩
      simp [splitScan, stepRune_append _ hp, c1, c2]
  | cons q A ih =>
    intro p B h fuel idx cp hf h1 h2
    have hq := h.head
    have hpos := stepRune_some hq
    simp only [List.cons_append, flat_cons, List.length_append] at hf
    simp only [ws_cons] at h1 h2
    cases fuel with
    | zero => omega
    | succ f =>
      have c1 : ¬ (cp ≤ off ∧ off < cp + q.2) := by omega
      simp only [List.cons_append, flat_cons, splitScan, stepRune_append _ hq, c1, if_false,
        List.drop_left']
      rw [ih p B h.tail f _ _ (by omega) (by omega) (by omega)]
      simp only [List.length_append, ws_cons, Nat.add_assoc]

theorem splitScan_boundary (cw : Nat → Nat) (off : Nat) : ∀ (A B : List Cl),
    Toks cw (A ++ B) → ∀ fuel idx cp, cp + ws A = off →
    splitScan cw off fuel (flat (A ++ B)) idx cp = none := by
  intro A
  induction A with
  | nil =>
    intro B h fuel idx cp h1
    simp only [ws_nil, Nat.add_zero] at h1
    subst h1
    cases fuel with
    | zero => rfl
    | succ f =>
      cases B with
      | nil => simp [splitScan, stepRune_nil]
      | cons p B =>
        have hp := h.head
        have hpos := stepRune_some hp
        have c1 : cp < cp + p.2 := by omega
        simp [splitScan, stepRune_append _ hp, c1]
  | cons q A ih =>
    intro B h fuel idx cp h1
    have hq := h.head
    have hpos := stepRune_some hq
    simp only [ws_cons] at h1
    cases fuel with
    | zero => rfl
    | succ f =>
      have c1 : ¬ (cp ≤ off ∧ off < cp + q.2) := by omega
      simp only [List.cons_append, flat_cons, splitScan, stepRune_append _ hq, c1, if_false,
        List.drop_left']
      exact ih B h.tail f _ _ (by omega)

/-! ### one cell per byte -/

theorem stepRune_ascii {cw : Nat → Nat} {b : Bytes} {w : Nat} (h : stepRune cw b = some (b.length, w))
    (hb : ∀ x ∈ b, x < 0x80) : b.length = 1 := by
  cases b with
  | nil => simp [stepRune_nil] at h
  | cons b0 rest =>
    have h0 : b0 < 0x80 := hb b0 (List.mem_cons_self ..)
    have hl : leadLen b0 = 1 := by simp [leadLen, h0]
    rw [stepRune_eq] at h
    simp [fullRune, decodeRune, hl] at h
    simp [h.1]

/-- all characters are one byte and one cell -/
def Unit1 (cs : List Cl) : Prop := ∀ p ∈ cs, p.1.length = 1 ∧ p.2 = 1

theorem ws_ge_length {cs : List Cl} (h : ∀ p ∈ cs, 1 ≤ p.2) : cs.length ≤ ws cs := by
  induction cs with
  | nil => simp
  | cons p r ih =>
    have := h p (List.mem_cons_self ..)
    have := ih (fun q hq => h q (List.mem_cons_of_mem _ hq))
    simp; omega

theorem flat_len1 {cs : List Cl} (h : ∀ p ∈ cs, p.1.length = 1) : (flat cs).length = cs.length := by
  induction cs with
  | nil => rfl
  | cons p r ih =>
    have := h p (List.mem_cons_self ..)
    have := ih (fun q hq => h q (List.mem_cons_of_mem _ hq))
    simp; omega

theorem all_one {cs : List Cl} (h : ∀ p ∈ cs, 1 ≤ p.2) (he : ws cs = cs.length) : ∀ p ∈ cs, p.2 = 1 := by
  induction cs with
  | nil => intro p hp; cases hp
  | cons q r ih =>
    have h1 := h q (List.mem_cons_self ..)
    have h2 := ws_ge_length (fun p hp => h p (List.mem_cons_of_mem _ hp))
    simp only [ws_cons, List.length_cons] at he
    intro p hp
    rcases List.mem_cons.1 hp with rfl | hp
    · omega
    · exact ih (fun p hp => h p (List.mem_cons_of_mem _ hp)) (by omega) p hp

theorem mem_flat {cs : List Cl} {p : Cl} (hp : p ∈ cs) {x : UInt8} (hx : x ∈ p.1) : x ∈ flat cs := by
  unfold flat
  exact List.mem_flatten.2 ⟨p.1, List.mem_map.2 ⟨p, hp, rfl⟩, hx⟩

/-- M2 note: `oneCellPerByte` and the invariant force every character to be one byte, one cell -/
theorem unit1_of_ascii {cw : Nat → Nat} {cs : List Cl} (h : Toks cw cs)
    (hb : ∀ x ∈ flat cs, x < 0x80) (hw : ws cs = (flat cs).length) : Unit1 cs := by
  have h1 : ∀ p ∈ cs, p.1.length = 1 := fun p hp =>
    stepRune_ascii (h p hp) (fun x hx => hb x (mem_flat hp hx))
  have h2 := all_one (fun p hp => (h.pos p hp).2) (by rw [hw, flat_len1 h1])
  exact fun p hp => ⟨h1 p hp, h2 p hp⟩

theorem Unit1.tail {p : Cl} {r : List Cl} (h : Unit1 (p :: r)) : Unit1 r :=
  fun q hq => h q (List.mem_cons_of_mem _ hq)

theorem unit1_take : ∀ (cs : List Cl), Unit1 cs → ∀ k,
    flat (cs.take k) = (flat cs).take k ∧ flat (cs.drop k) = (flat cs).drop k ∧
    ws (cs.take k) = min k cs.length ∧ ws (cs.drop k) = cs.length - k := by
  intro cs
  induction cs with
  | nil => intro _ k; simp
  | cons p r ih =>
    intro h k
    cases k with
    | zero =>
      have := ws_ge_length (cs := p :: r) (fun q hq => by rw [(h q hq).2]; exact Nat.le_refl 1)
      have h2 : ws (p :: r) = (p :: r).length := by
        have := ih h.tail 0
        simp at this ⊢
        rw [(h p (List.mem_cons_self ..)).2, this]; omega
      simp [h2]
    | succ k =>
      obtain ⟨hp1, hp2⟩ := h p (List.mem_cons_self ..)
      obtain ⟨b, hb⟩ := List.length_eq_one_iff.1 hp1
      obtain ⟨i1, i2, i3, i4⟩ := ih h.tail k
      simp [hb, i1, i2, i3, i4, hp2]
      omega

theorem unit1_ws {cs : List Cl} (h : Unit1 cs) : ws cs = cs.length := by
  have := (unit1_take cs h 0).2.2.2
  simpa using this

/-! ### `splitSpan` -/

theorem oneCellPerByte_iff (sp : Span) :
    oneCellPerByte sp = true ↔ sp.width = sp.text.length ∧ ∀ x ∈ sp.text, x < 0x80 := by
  simp [oneCellPerByte]

/-- `splitSpan` on a text run, in terms of its characters -/
theorem splitSpan_text {cw : Nat → Nat} {sp : Span} {off : Nat} (hwf : spanWF cw sp = true)
    (ht : sp.text.isEmpty = false) (h0 : 0 < off) (h1 : off < sp.width) :
    (∃ A B, clusters cw sp.text = A ++ B ∧ ws A = off ∧
      splitSpan cw sp off = (sub sp A, sub sp B, Span.empty)) ∨
    (∃ A p B, clusters cw sp.text = A ++ p :: B ∧ ws A < off ∧ off < ws A + p.2 ∧
      splitSpan cw sp off = (sub sp A, sub sp B, sub sp [p])) := by
  obtain ⟨htok, hflat, hws⟩ := spanWF_text hwf ht
  have e0 : ¬ off = 0 := by omega
  have e1 : ¬ off ≥ sp.width := by omega
  unfold splitSpan
  simp only [e0, e1, if_false, ht, Bool.false_eq_true]
  by_cases hascii : oneCellPerByte sp = true
  · left
    simp only [hascii, if_true]
    obtain ⟨ha1, ha2⟩ := (oneCellPerByte_iff sp).1 hascii
    have hu : Unit1 (clusters cw sp.text) :=
      unit1_of_ascii htok (by rw [← hflat]; exact ha2) (by rw [← hflat, hws]; exact ha1)
    obtain ⟨i1, i2, i3, i4⟩ := unit1_take _ hu off
    have hlen : (clusters cw sp.text).length = sp.width := by rw [← unit1_ws hu]; exact hws
    refine ⟨(clusters cw sp.text).take off, (clusters cw sp.text).drop off,
      (List.take_append_drop _ _).symm, by rw [i3, hlen]; omega, ?_⟩
    simp only [sub, i1, i2, i3, i4, ← hflat, hlen]
    rw [Nat.min_eq_left (by omega)]
  · simp only [hascii, Bool.false_eq_true, if_false]
    have hpos : ∀ p ∈ clusters cw sp.text, 1 ≤ p.2 := fun p hp => (htok.pos p hp).2
    rcases locateC _ hpos off (by omega) with ⟨A, B, hcs, hA⟩ | ⟨A, p, B, hcs, hA1, hA2⟩
    · left
      refine ⟨A, B, hcs, hA, ?_⟩
      have htx : sp.text = flat (A ++ B) := by rw [← hcs]; exact hflat
      rw [hcs] at htok
      have hs : splitScan cw off sp.text.length sp.text 0 0 = none := by
        rw [htx]; exact splitScan_boundary cw off A B htok _ 0 0 (by omega)
      have hb : byteIndexForCell cw sp.text off = ((flat A).length, off) := by
        unfold byteIndexForCell
        rw [htx]
        have := byteIndexAux_spec cw off A B htok _ 0 0 (Nat.le_refl _) (by omega)
        simpa using this
      simp only [hs, hb, sub]
      have hw2 : sp.width - off = ws B := by rw [← hws, hcs, ws_append]; omega
      rw [hw2, hA]
      rw [htx, flat_append, List.take_left' rfl, List.drop_left' rfl]
    · right
      refine ⟨A, p, B, hcs, hA1, hA2, ?_⟩
      have htx : sp.text = flat (A ++ p :: B) := by rw [← hcs]; exact hflat
      rw [hcs] at htok
      have hs : splitScan cw off sp.text.length sp.text 0 0 =
          some ((flat A).length, p.1.length, ws A, p.2) := by
        rw [htx]
        have := splitScan_inside cw off A p B htok _ 0 0 (Nat.le_refl _) (by omega) (by omega)
        simpa using this
      simp only [hs, sub]
      have hw2 : sp.width - (ws A + p.2) = ws B := by rw [← hws, hcs, ws_append, ws_cons]; omega
      rw [hw2]
      rw [htx, flat_append, flat_cons, List.take_left' rfl, List.drop_left' rfl,
        ← List.append_assoc, List.drop_left' (by simp), List.take_left' rfl]
      simp

@[simp] theorem sub_sty (sp : Span) (cs : List Cl) : (sub sp cs).sty = sp.sty := rfl
@[simp] theorem sub_width (sp : Span) (cs : List Cl) : (sub sp cs).width = ws cs := rfl

theorem spanK_sub {cw : Nat → Nat} (sp : Span) {cs : List Cl} (h : Toks cw cs) :
    spanK cw (sub sp cs) = cs.map fun c => (c, sp.sty) := by
  unfold spanK; rw [(sub_spec sp h).1]; rfl

theorem spanK_text {cw : Nat → Nat} {sp : Span} (ht : sp.text.isEmpty = false) :
    spanK cw sp = (clusters cw sp.text).map fun c => (c, sp.sty) := by
  unfold spanK spanCl; simp [ht]

theorem Toks.single {cw : Nat → Nat} {p : Cl} (h : stepRune cw p.1 = some (p.1.length, p.2)) :
    Toks cw [p] := by
  intro q hq; rw [List.mem_singleton.1 hq]; exact h

/-- M2 (run level, as character lists): the three parts of `splitSpan` -/
theorem splitSpan_spec {cw : Nat → Nat} {sp : Span} {off : Nat} (hwf : spanWF cw sp = true)
    (h0 : 0 < off) (h1 : off < sp.width) :
    ∃ l r wd, splitSpan cw sp off = (l, r, wd) ∧ l.sty = sp.sty ∧ r.sty = sp.sty ∧
      SpanG cw l ∧ SpanG cw r ∧ l.width + wd.width + r.width = sp.width ∧
      ((wd = Span.empty ∧ l.width = off ∧ spanK cw sp = spanK cw l ++ spanK cw r) ∨
       (∃ A p B, Toks cw (A ++ p :: B) ∧ l = sub sp A ∧ wd = sub sp [p] ∧ r = sub sp B ∧
          wd.width = p.2 ∧ l.width < off ∧ off < l.width + p.2 ∧
          spanK cw sp = spanK cw l ++ (p, sp.sty) :: spanK cw r)) := by
  cases ht : sp.text.isEmpty
  · obtain ⟨htok, hflat, hws⟩ := spanWF_text hwf ht
    rcases splitSpan_text hwf ht h0 h1 with ⟨A, B, hcs, hA, hs⟩ | ⟨A, p, B, hcs, hA1, hA2, hs⟩
    · rw [hcs] at htok hws
      refine ⟨_, _, _, hs, rfl, rfl, (sub_spec sp htok.left).2, (sub_spec sp htok.right).2, ?_, ?_⟩
      · simp [Span.empty] at hws ⊢; omega
      · left
        refine ⟨rfl, hA, ?_⟩
        rw [spanK_text ht, hcs, spanK_sub sp htok.left, spanK_sub sp htok.right, List.map_append]
    · rw [hcs] at htok hws
      have htB : Toks cw B := htok.right.tail
      refine ⟨_, _, _, hs, rfl, rfl, (sub_spec sp htok.left).2, (sub_spec sp htB).2, ?_, ?_⟩
      · simp at hws ⊢; omega
      · right
        refine ⟨A, p, B, htok, rfl, rfl, rfl, by simp, hA1, hA2, ?_⟩
        rw [spanK_text ht, hcs, spanK_sub sp htok.left, spanK_sub sp htB, List.map_append,
          List.map_cons]
  · have e0 : ¬ off = 0 := by omega
    have e1 : ¬ off ≥ sp.width := by omega
    have hs : splitSpan cw sp off =
        ({ sp with width := off }, { sp with width := sp.width - off }, Span.empty) := by
      unfold splitSpan; simp only [e0, e1, if_false, ht, if_true]
    have hrune : cw sp.rune ≤ 1 := by
      unfold spanWF at hwf; simp [ht] at hwf; exact hwf.2
    have hg : ∀ w, SpanG cw { sp with width := w } := by
      intro w
      have hcl : spanCl cw { sp with width := w } = List.replicate w (encodeRune sp.rune, 1) := by
        simp [spanCl, ht]
      refine ⟨by rw [hcl, ws_replicate1], ?_, fun hw => ?_⟩
      · rw [hcl]; intro p hp; rw [(List.mem_replicate.1 hp).2]; exact Nat.le_refl _
      · simp only [spanWF, ht, if_true, Bool.and_eq_true, decide_eq_true_eq]; exact ⟨hw, hrune⟩
    refine ⟨_, _, _, hs, rfl, rfl, hg _, hg _, by simp [Span.empty]; omega, Or.inl ⟨rfl, rfl, ?_⟩⟩
    simp only [spanK, spanCl, ht, if_true]
    rw [← List.map_append, List.replicate_append_replicate]
    congr 2; omega

/-! ## M3 — rows as character lists, the scans -/

def lineK (cw : Nat → Nat) (S : List Span) : List K := S.flatMap (spanK cw)

def AllWF (cw : Nat → Nat) (S : List Span) : Prop := ∀ sp ∈ S, spanWF cw sp = true

@[simp] theorem lineK_nil (cw : Nat → Nat) : lineK cw [] = [] := rfl
@[simp] theorem lineK_cons (cw : Nat → Nat) (sp : Span) (S : List Span) :
    lineK cw (sp :: S) = spanK cw sp ++ lineK cw S := by simp [lineK]
@[simp] theorem lineK_append (cw : Nat → Nat) (A B : List Span) :
    lineK cw (A ++ B) = lineK cw A ++ lineK cw B := by simp [lineK]
@[simp] theorem sumWidths_nil : sumWidths [] = 0 := rfl
@[simp] theorem sumWidths_cons (sp : Span) (S : List Span) :
    sumWidths (sp :: S) = sp.width + sumWidths S := by simp [sumWidths]
@[simp] theorem sumWidths_append (A B : List Span) :
    sumWidths (A ++ B) = sumWidths A + sumWidths B := by simp [sumWidths]

theorem lineCells_eq (cw : Nat → Nat) (l : SLine) : lineCells cw l = cellsK (lineK cw l.spans) := by
  unfold lineCells
  induction l.spans with
  | nil => rfl
  | cons sp r ih => simp [spanCells_eq, ih]

theorem AllWF.append {cw : Nat → Nat} {A B : List Span} (ha : AllWF cw A) (hb : AllWF cw B) :
    AllWF cw (A ++ B) := by
  intro k hk
  rcases List.mem_append.1 hk with h | h
  · exact ha k h
  · exact hb k h
theorem AllWF.left {cw : Nat → Nat} {A B : List Span} (h : AllWF cw (A ++ B)) : AllWF cw A :=
  fun k hk => h k (List.mem_append_left _ hk)
theorem AllWF.right {cw : Nat → Nat} {A B : List Span} (h : AllWF cw (A ++ B)) : AllWF cw B :=
  fun k hk => h k (List.mem_append_right _ hk)
theorem AllWF.tail {cw : Nat → Nat} {k : Span} {B : List Span} (h : AllWF cw (k :: B)) : AllWF cw B :=
  fun q hq => h q (List.mem_cons_of_mem _ hq)
theorem AllWF.head {cw : Nat → Nat} {k : Span} {B : List Span} (h : AllWF cw (k :: B)) :
    spanWF cw k = true := h k (List.mem_cons_self ..)
theorem AllWF.nil (cw : Nat → Nat) : AllWF cw [] := fun _ h => nomatch h
theorem AllWF.cons {cw : Nat → Nat} {k : Span} {B : List Span} (hk : spanWF cw k = true)
    (h : AllWF cw B) : AllWF cw (k :: B) := by
  intro q hq
  rcases List.mem_cons.1 hq with h1 | h1
  · subst h1; exact hk
  · exact h q h1

theorem posK_lineK {cw : Nat → Nat} {S : List Span} (h : AllWF cw S) : PosK (lineK cw S) := by
  induction S with
  | nil => exact PosK.nil
  | cons sp r ih => rw [lineK_cons]; exact (spanWF_G h.head).posK.append (ih h.tail)

theorem wk_lineK {cw : Nat → Nat} {S : List Span} (h : AllWF cw S) : wk (lineK cw S) = sumWidths S := by
  induction S with
  | nil => rfl
  | cons sp r ih => rw [lineK_cons, wk_append, (spanWF_G h.head).wk, ih h.tail, sumWidths_cons]

theorem sumWidths_zero {cw : Nat → Nat} {S : List Span} (h : AllWF cw S) (h0 : sumWidths S = 0) :
    S = [] := by
  cases S with
  | nil => rfl
  | cons sp r => have := spanWF_pos h.head; simp at h0; omega

theorem scanStart_some (x : Nat) : ∀ (S : List Span) (i0 pos0 : Nat),
    pos0 ≤ x → x < pos0 + sumWidths S →
    ∃ S1 sp S2, S = S1 ++ sp :: S2 ∧
      scanStart x S i0 pos0 = (some (i0 + S1.length, pos0 + sumWidths S1), pos0 + sumWidths S1) ∧
      pos0 + sumWidths S1 ≤ x ∧ x < pos0 + sumWidths S1 + sp.width := by
  intro S
  induction S with
  | nil => intro i0 pos0 h1 h2; simp at h2; omega
  | cons sp r ih =>
    intro i0 pos0 h1 h2
    by_cases hc : x < pos0 + sp.width
    · exact ⟨[], sp, r, rfl, by simp [scanStart, hc], by simpa using h1, by simpa using hc⟩
    · simp only [sumWidths_cons] at h2
      obtain ⟨S1, q, S2, hS, hsc, h3, h4⟩ := ih (i0 + 1) (pos0 + sp.width) (by omega) (by omega)
      refine ⟨sp :: S1, q, S2, by rw [hS]; rfl, ?_, ?_, ?_⟩
      · simp only [scanStart, hc, if_false, hsc, List.length_cons, sumWidths_cons]
        simp only [Nat.add_assoc, Nat.add_comm 1]
      · simp only [sumWidths_cons]; omega
      · simp only [sumWidths_cons]; omega

theorem scanStart_none (x : Nat) : ∀ (S : List Span) (i0 pos0 : Nat),
    pos0 + sumWidths S ≤ x → scanStart x S i0 pos0 = (none, pos0 + sumWidths S) := by
  intro S
  induction S with
  | nil => intro i0 pos0 _; rfl
  | cons sp r ih =>
    intro i0 pos0 h
    simp only [sumWidths_cons] at h
    have hc : ¬ x < pos0 + sp.width := by omega
    simp only [scanStart, hc, if_false, sumWidths_cons]
    rw [ih _ _ (by omega), Nat.add_assoc]

theorem scanEnd_some (xn : Nat) : ∀ (T : List Span) (i0 pos0 : Nat),
    T ≠ [] → xn ≤ pos0 + sumWidths T →
    ∃ T1 esp T2, T = T1 ++ esp :: T2 ∧
      scanEnd xn T i0 pos0 = (some (i0 + T1.length, xn - (pos0 + sumWidths T1)),
        pos0 + sumWidths T1 + esp.width) ∧
      (T1 = [] ∨ pos0 + sumWidths T1 < xn) ∧ xn ≤ pos0 + sumWidths T1 + esp.width := by
  intro T
  induction T with
  | nil => intro i0 pos0 h; exact absurd rfl h
  | cons sp r ih =>
    intro i0 pos0 _ h2
    by_cases hc : xn ≤ pos0 + sp.width
    · exact ⟨[], sp, r, rfl, by simp [scanEnd, hc], Or.inl rfl, by simpa using hc⟩
    · simp only [sumWidths_cons] at h2
      have hr : r ≠ [] := by
        intro hr; subst hr; simp at h2; omega
      obtain ⟨T1, q, T2, hS, hsc, h3, h4⟩ := ih (i0 + 1) (pos0 + sp.width) hr (by omega)
      refine ⟨sp :: T1, q, T2, by rw [hS]; rfl, ?_, Or.inr ?_, ?_⟩
      · simp only [scanEnd, hc, if_false, hsc, List.length_cons, sumWidths_cons]
        simp only [Nat.add_assoc, Nat.add_comm 1]
      · simp only [sumWidths_cons]
        rcases h3 with h3 | h3
        · subst h3; simp; omega
        · omega
      · simp only [sumWidths_cons]; omega

/-! ### the splice, unfolded -/

/-- the left boundary run of the splice: `(left, shift, startFill)` -/
def leftPart (cw : Nat → Nat) (sp : Span) (so : Nat) (keep : Bool) : Span × Nat × Nat :=
  if so > 0 then
    let (l, _, wide) := splitSpan cw sp so
    if wide.width > 0 then
      if keep then
        let l' := if l.width > 0 then { l with text := l.text ++ wide.text, width := l.width + wide.width } else wide
        (l', l'.width - so, 0)
      else (l, 0, so - l.width)
    else (l, 0, 0)
  else (Span.empty, 0, 0)

/-- the right boundary run of the splice: `(right, endFill)` -/
def rightPart (cw : Nat → Nat) (esp : Span) (eo : Nat) : Span × Nat :=
  if eo < esp.width then
    let (_, r, wide) := splitSpan cw esp eo
    (r, if wide.width > 0 then esp.width - eo - r.width else 0)
  else (Span.empty, 0)

def midOf (left : Span) (startFill : Nat) (ins : Span) (endFill : Nat) (right : Span) : List Span :=
  (if decide (left.width > 0) then [left] else []) ++
  (if startFill > 0 then [blankSpan ins.sty startFill] else []) ++
  (if ins.width > 0 then [ins] else []) ++
  (if endFill > 0 then [blankSpan ins.sty endFill] else []) ++
  (if decide (right.width > 0) then [right] else [])

/-- the splice once the boundary runs are located: start run `i` (starting at column `pos`), end
    run `j`, end offset `eo` -/
def rrsBody (cw : Nat → Nat) (S : List Span) (x n : Nat) (ins : Span) (keep : Bool)
    (i pos j eo : Nat) : List Span × SpliceInfo :=
      if x = 0 ∧ j = S.length - 1 ∧ eo = (S.getD j Span.empty).width then
        ((if ins.width > 0 then [ins] else []), {})
      else if i = S.length then
        ((if ins.width > 0 then S ++ [ins] else S), {})
      else
      if i = j ∧ x - pos = 0 ∧ eo = (S.getD i Span.empty).width ∧ ins.width > 0 then
        (S.set i ins, {})
      else if i = j ∧ ins.width = n ∧ (S.getD i Span.empty).sty = ins.sty ∧
          (S.getD i Span.empty).text.isEmpty ∧ ins.text.isEmpty ∧ (S.getD i Span.empty).rune = ins.rune then
        (S, {})
      else if i = j ∧ ins.width = n ∧ (S.getD i Span.empty).sty = ins.sty ∧
          !(S.getD i Span.empty).text.isEmpty ∧ !ins.text.isEmpty ∧
          oneCellPerByte (S.getD i Span.empty) ∧ oneCellPerByte ins then
        (S.set i { (S.getD i Span.empty) with
          text := (S.getD i Span.empty).text.take (x - pos) ++ ins.text ++
            (S.getD i Span.empty).text.drop (x - pos + n) }, {})
      else
        (S.take i ++ midOf (leftPart cw (S.getD i Span.empty) (x - pos) keep).1
            (leftPart cw (S.getD i Span.empty) (x - pos) keep).2.2 ins
            (rightPart cw (S.getD j Span.empty) eo).2 (rightPart cw (S.getD j Span.empty) eo).1 ++
          S.drop (j + 1),
         { shift := (leftPart cw (S.getD i Span.empty) (x - pos) keep).2.1,
           startFill := (leftPart cw (S.getD i Span.empty) (x - pos) keep).2.2,
           endFill := (rightPart cw (S.getD j Span.empty) eo).2 })

theorem rrs_unfold (cw : Nat → Nat) (S : List Span) (x n : Nat) (ins : Span) (keep : Bool)
    (i pos j eo pos2 : Nat)
    (hne : ¬ (n = 0 ∧ ins.width = 0)) (hS : S.isEmpty = false)
    (hs : scanStart x S 0 0 = (some (i, pos), pos))
    (he : scanEnd (x + n) (S.drop i) i pos = (some (j, eo), pos2))
    (hx : x + n ≤ pos2) :
    replaceRangeSpans cw S x n ins keep =
      rrsBody cw S x n ins keep i pos j eo := by
  have c1 : ¬ x > pos2 := by omega
  have c2 : ¬ x + n > pos2 := by omega
  unfold replaceRangeSpans
  simp only [hne, hS, hs, he, c1, c2, if_false, Bool.false_eq_true, decide_false, leftPart,
    rightPart, midOf, rrsBody]

/-! ### the cell-level result of the splice: `takeB`, `dropB` -/

/-- first column after the character covering column `b` (`b` itself on a character boundary) -/
def endOf (R : Row) (b : Nat) : Nat :=
  if contAt R b then headOf R b + widthAt R (headOf R b) else b

/-- the cells left of column `a`; a wide character cut by `a` shows blanks in `st` -/
def takeB (R : Row) (a : Nat) (st : Style) : Row :=
  R.take (headOf R a) ++ List.replicate (a - headOf R a) (blank st)

/-- the cells from column `b` on; a wide character cut by `b` shows blanks in `st` -/
def dropB (R : Row) (b : Nat) (st : Style) : Row :=
  List.replicate (endOf R b - b) (blank st) ++ R.drop (endOf R b)

theorem at_boundary {P Q : List K} (h : PosK (P ++ Q)) (st : Style) :
    contAt (cellsK (P ++ Q)) (wk P) = false ∧ headOf (cellsK (P ++ Q)) (wk P) = wk P ∧
    endOf (cellsK (P ++ Q)) (wk P) = wk P ∧ takeB (cellsK (P ++ Q)) (wk P) st = cellsK P ∧
    dropB (cellsK (P ++ Q)) (wk P) st = cellsK Q := by
  have hc := ev_boundary h
  have hh := headOf_of_not_cont hc
  have he : endOf (cellsK (P ++ Q)) (wk P) = wk P := by
    simp only [endOf, hc, Bool.false_eq_true, if_false]
  refine ⟨hc, hh, he, ?_, ?_⟩
  · simp only [takeB, hh, take_cellsK h.left, Nat.sub_self, List.replicate_zero, List.append_nil]
  · simp only [dropB, he, drop_cellsK h.left, Nat.sub_self, List.replicate_zero, List.nil_append]

theorem at_inside {P Q : List K} {k : K} (h : PosK (P ++ k :: Q)) {x : Nat}
    (h1 : wk P < x) (h2 : x < wk P + k.1.2) (st : Style) :
    contAt (cellsK (P ++ k :: Q)) x = true ∧ headOf (cellsK (P ++ k :: Q)) x = wk P ∧
    endOf (cellsK (P ++ k :: Q)) x = wk P + k.1.2 ∧
    takeB (cellsK (P ++ k :: Q)) x st = cellsK P ++ List.replicate (x - wk P) (blank st) ∧
    dropB (cellsK (P ++ k :: Q)) x st = List.replicate (wk P + k.1.2 - x) (blank st) ++ cellsK Q ∧
    (cellsK (P ++ k :: Q)).take (wk P + k.1.2) = cellsK (P ++ [k]) := by
  obtain ⟨hc, hh, hw⟩ := ev_inside h h1 h2
  have he : endOf (cellsK (P ++ k :: Q)) x = wk P + k.1.2 := by
    simp only [endOf, hc, hh, hw, if_true]
  have hassoc : P ++ k :: Q = (P ++ [k]) ++ Q := by simp
  have hp2 : PosK (P ++ [k]) := by rw [hassoc] at h; exact h.left
  have hw2 : wk (P ++ [k]) = wk P + k.1.2 := by simp
  refine ⟨hc, hh, he, ?_, ?_, ?_⟩
  · simp only [takeB, hh, take_cellsK h.left]
  · simp only [dropB, he]
    rw [hassoc, ← hw2, drop_cellsK hp2]
  · rw [hassoc, ← hw2, take_cellsK hp2]

theorem getD_mid (A : List Span) (a : Span) (B : List Span) (d : Span) :
    (A ++ a :: B).getD A.length d = a := by simp [List.getD_eq_getElem?_getD]
theorem take_mid (A : List Span) (a : Span) (B : List Span) : (A ++ a :: B).take A.length = A :=
  List.take_left' rfl
theorem drop_mid (A : List Span) (a : Span) (B : List Span) : (A ++ a :: B).drop (A.length + 1) = B := by
  have : A ++ a :: B = (A ++ [a]) ++ B := by simp
  rw [this]; exact List.drop_left' (by simp)
theorem drop_mid0 (A : List Span) (B : List Span) : (A ++ B).drop A.length = B :=
  List.drop_left' rfl
theorem set_mid (A : List Span) (a c : Span) (B : List Span) :
    (A ++ a :: B).set A.length c = A ++ c :: B := by simp

theorem splitSpan_zero (cw : Nat → Nat) (sp : Span) : splitSpan cw sp 0 = (Span.empty, sp, Span.empty) := by
  simp [splitSpan]

theorem spanK_empty (cw : Nat → Nat) : spanK cw Span.empty = [] := (spanG_empty cw).nil rfl

theorem spanK_blankSpan (cw : Nat → Nat) (st : Style) (w : Nat) : spanK cw (blankSpan st w) = blanksK w st := by
  simp [spanK, spanCl, blankSpan, blanksK, encodeRune]

theorem spanWF_blankSpan {cw : Nat → Nat} (hb : cw 0x20 ≤ 1) (st : Style) {w : Nat} (hw : 0 < w) :
    spanWF cw (blankSpan st w) = true := by
  simp [spanWF, blankSpan, hw, hb]

/-- the left boundary run -/
theorem leftPart_spec {cw : Nat → Nat} {S1 S2 : List Span} {sp : Span} (hwf : AllWF cw (S1 ++ sp :: S2))
    {x : Nat} (hx1 : sumWidths S1 ≤ x) (hx2 : x < sumWidths S1 + sp.width) (keep : Bool) (st : Style) :
    let R := cellsK (lineK cw (S1 ++ sp :: S2))
    let lp := leftPart cw sp (x - sumWidths S1) keep
    cellsK (lineK cw S1) ++ cellsK (spanK cw lp.1) ++ List.replicate lp.2.2 (blank st) =
      (if keep = true ∧ contAt R x = true then R.take (endOf R x) else takeB R x st) ∧
    SpanG cw lp.1 ∧
    lp.2.1 = (if keep = true ∧ contAt R x = true then endOf R x - x else 0) ∧
    lp.2.2 = (if keep = true ∧ contAt R x = true then 0 else x - headOf R x) := by
  intro R lp
  have hsp := hwf.right.head
  have h1 := hwf.left
  have h2 := hwf.right.tail
  have hw1 := wk_lineK h1
  have hposS := posK_lineK hwf
  by_cases hso : x - sumWidths S1 = 0
  · have hxe : x = wk (lineK cw S1) := by rw [hw1]; omega
    have hlp : lp = (Span.empty, 0, 0) := by simp [lp, leftPart, hso]
    have hL : lineK cw (S1 ++ sp :: S2) = lineK cw S1 ++ lineK cw (sp :: S2) := lineK_append ..
    have hpos : PosK (lineK cw S1 ++ lineK cw (sp :: S2)) := by rw [← hL]; exact hposS
    obtain ⟨b1, b2, b3, b4, b5⟩ := at_boundary hpos st
    simp only [R, hL, hxe, b1, b2, b4, hlp, spanK_empty, Bool.false_eq_true, and_false, if_false]
    exact ⟨by simp, spanG_empty cw, trivial, by simp⟩
  · obtain ⟨l, r, wd, hs, hl1, hr1, hgl, hgr, hwsum, hcase⟩ :=
      splitSpan_spec hsp (off := x - sumWidths S1) (by omega) (by omega)
    rcases hcase with ⟨hwd, hlw, hK⟩ | ⟨A, p, B, htok, hl, hwd, hr, hwdw, hlt1, hlt2, hK⟩
    · have hlp : lp = (l, 0, 0) := by
        simp [lp, leftPart, hs, hwd, Span.empty]; omega
      have hL : lineK cw (S1 ++ sp :: S2) = (lineK cw S1 ++ spanK cw l) ++ (spanK cw r ++ lineK cw S2) := by
        simp [hK]
      have hpos : PosK ((lineK cw S1 ++ spanK cw l) ++ (spanK cw r ++ lineK cw S2)) := by
        rw [← hL]; exact hposS
      have hxe : x = wk (lineK cw S1 ++ spanK cw l) := by rw [wk_append, hw1, hgl.wk]; omega
      obtain ⟨b1, b2, b3, b4, b5⟩ := at_boundary hpos st
      simp only [R, hL, hxe, b1, b2, b4, hlp, Bool.false_eq_true, and_false, if_false]
      exact ⟨by simp, hgl, trivial, by simp⟩
    · have hp2 : 1 < p.2 := by omega
      have hL : lineK cw (S1 ++ sp :: S2) =
          (lineK cw S1 ++ spanK cw l) ++ (p, sp.sty) :: (spanK cw r ++ lineK cw S2) := by
        simp [hK]
      have hpos : PosK ((lineK cw S1 ++ spanK cw l) ++ (p, sp.sty) :: (spanK cw r ++ lineK cw S2)) := by
        rw [← hL]; exact hposS
      have hwP : wk (lineK cw S1 ++ spanK cw l) = sumWidths S1 + l.width := by
        rw [wk_append, hw1, hgl.wk]
      obtain ⟨b1, b2, b3, b4, b5, b6⟩ :=
        at_inside (k := (p, sp.sty)) hpos (x := x) (by rw [hwP]; omega) (by rw [hwP]; simp; omega) st
      simp only [hwP] at b2 b3 b4 b5 b6
      cases keep
      · have hlp : lp = (l, 0, x - sumWidths S1 - l.width) := by
          have e1 : 0 < x - sumWidths S1 := by omega
          have e2 : 0 < p.2 := by omega
          simp [lp, leftPart, hs, hwdw, e1, e2]
        simp only [R, hL, b2, b4, hlp, Bool.false_eq_true, false_and, if_false]
        refine ⟨?_, hgl, trivial, by omega⟩
        simp only [cellsK_append, List.append_assoc]
        congr 3; omega
      · have hAp : Toks cw (A ++ [p]) := htok.left.append (Toks.single htok.right.head)
        have hl' : (if l.width > 0 then
            { l with text := l.text ++ wd.text, width := l.width + wd.width } else wd) = sub sp (A ++ [p]) := by
          subst hl hwd
          by_cases hA : ws A > 0
          · simp [sub, hA]
          · have hA0 : A = [] := ws_zero_nil (fun q hq => (htok.left.pos q hq).2) (by omega)
            subst hA0; simp [sub]
        have hlp : lp = (sub sp (A ++ [p]), ws (A ++ [p]) - (x - sumWidths S1), 0) := by
          have : ¬ p.2 = 0 := by omega
          have e2 : wd.width > 0 := by omega
          simp only [lp, leftPart, hs]
          rw [if_pos (by omega), if_pos e2, if_pos trivial, hl']
          rfl
        have hKl' : spanK cw (sub sp (A ++ [p])) = spanK cw l ++ [(p, sp.sty)] := by
          rw [spanK_sub sp hAp, hl, spanK_sub sp htok.left, List.map_append]; rfl
        simp only [R, hL, b1, b3, b6, hlp, and_self, if_true, hKl']
        refine ⟨by simp, (sub_spec sp hAp).2, ?_, trivial⟩
        rw [hl]; simp; omega

/-- the right boundary run -/
theorem rightPart_spec {cw : Nat → Nat} {U1 T2 : List Span} {esp : Span} (hwf : AllWF cw (U1 ++ esp :: T2))
    {b : Nat} (hb1 : sumWidths U1 ≤ b) (hb2 : b ≤ sumWidths U1 + esp.width) (st : Style) :
    let R := cellsK (lineK cw (U1 ++ esp :: T2))
    let rp := rightPart cw esp (b - sumWidths U1)
    List.replicate rp.2 (blank st) ++ cellsK (spanK cw rp.1) ++ cellsK (lineK cw T2) = dropB R b st ∧
    SpanG cw rp.1 ∧ rp.2 = endOf R b - b := by
  intro R rp
  have hsp := hwf.right.head
  have h1 := hwf.left
  have hw1 := wk_lineK h1
  have hposS := posK_lineK hwf
  have hge := spanWF_G hsp
  by_cases hfull : b - sumWidths U1 < esp.width
  · by_cases hz : b - sumWidths U1 = 0
    · have hrp : rp = (esp, 0) := by simp [rp, rightPart, hz, splitSpan_zero, spanWF_pos hsp, Span.empty]
      have hL : lineK cw (U1 ++ esp :: T2) = lineK cw U1 ++ (spanK cw esp ++ lineK cw T2) := by simp
      have hpos : PosK (lineK cw U1 ++ (spanK cw esp ++ lineK cw T2)) := by rw [← hL]; exact hposS
      have hxe : b = wk (lineK cw U1) := by rw [hw1]; omega
      obtain ⟨b1, b2, b3, b4, b5⟩ := at_boundary hpos st
      simp only [R, hL, hxe, b3, b5, hrp]
      exact ⟨by simp, hge, by simp⟩
    · obtain ⟨l, r, wd, hs, hl1, hr1, hgl, hgr, hwsum, hcase⟩ :=
        splitSpan_spec hsp (off := b - sumWidths U1) (by omega) hfull
      rcases hcase with ⟨hwd, hlw, hK⟩ | ⟨A, p, B, htok, hl, hwd, hr, hwdw, hlt1, hlt2, hK⟩
      · have hrp : rp = (r, 0) := by simp [rp, rightPart, hs, hwd, Span.empty, hfull]
        have hL : lineK cw (U1 ++ esp :: T2) = (lineK cw U1 ++ spanK cw l) ++ (spanK cw r ++ lineK cw T2) := by
          simp [hK]
        have hpos : PosK ((lineK cw U1 ++ spanK cw l) ++ (spanK cw r ++ lineK cw T2)) := by
          rw [← hL]; exact hposS
        have hxe : b = wk (lineK cw U1 ++ spanK cw l) := by rw [wk_append, hw1, hgl.wk]; omega
        obtain ⟨b1, b2, b3, b4, b5⟩ := at_boundary hpos st
        simp only [R, hL, hxe, b3, b5, hrp]
        exact ⟨by simp, hgr, by simp⟩
      · have hp2 : 1 < p.2 := by omega
        have hL : lineK cw (U1 ++ esp :: T2) =
            (lineK cw U1 ++ spanK cw l) ++ (p, esp.sty) :: (spanK cw r ++ lineK cw T2) := by
          simp [hK]
        have hpos : PosK ((lineK cw U1 ++ spanK cw l) ++ (p, esp.sty) :: (spanK cw r ++ lineK cw T2)) := by
          rw [← hL]; exact hposS
        have hwP : wk (lineK cw U1 ++ spanK cw l) = sumWidths U1 + l.width := by
          rw [wk_append, hw1, hgl.wk]
        obtain ⟨b1, b2, b3, b4, b5, b6⟩ :=
          at_inside (k := (p, esp.sty)) hpos (x := b) (by rw [hwP]; omega) (by rw [hwP]; simp; omega) st
        simp only [hwP] at b2 b3 b4 b5 b6
        have e2 : 0 < p.2 := by omega
        have hrp : rp = (r, esp.width - (b - sumWidths U1) - r.width) := by
          simp [rp, rightPart, hs, hwdw, hfull, e2]
        simp only [R, hL, b3, b5, hrp]
        refine ⟨?_, hgr, by omega⟩
        simp only [cellsK_append, List.append_assoc]
        congr 2; omega
  · have hrp : rp = (Span.empty, 0) := by simp [rp, rightPart, hfull]
    have hL : lineK cw (U1 ++ esp :: T2) = (lineK cw U1 ++ spanK cw esp) ++ lineK cw T2 := by simp
    have hpos : PosK ((lineK cw U1 ++ spanK cw esp) ++ lineK cw T2) := by rw [← hL]; exact hposS
    have hxe : b = wk (lineK cw U1 ++ spanK cw esp) := by rw [wk_append, hw1, hge.wk]; omega
    obtain ⟨b1, b2, b3, b4, b5⟩ := at_boundary hpos st
    simp only [R, hL, hxe, b3, b5, hrp, spanK_empty]
    exact ⟨by simp, spanG_empty cw, by simp⟩

theorem lineK_midOf {cw : Nat → Nat} {left right ins : Span} (sf ef : Nat)
    (hl : SpanG cw left) (hr : SpanG cw right) (hi : SpanG cw ins) :
    lineK cw (midOf left sf ins ef right) =
      spanK cw left ++ blanksK sf ins.sty ++ spanK cw ins ++ blanksK ef ins.sty ++ spanK cw right := by
  have e : ∀ sp, SpanG cw sp → lineK cw (if sp.width > 0 then [sp] else []) = spanK cw sp := by
    intro sp hg
    by_cases h : sp.width > 0
    · simp [h]
    · simp [h, hg.nil (by omega)]
  have eb : ∀ k, lineK cw (if k > 0 then [blankSpan ins.sty k] else []) = blanksK k ins.sty := by
    intro k
    by_cases h : k > 0
    · simp [h, spanK_blankSpan]
    · have : k = 0 := by omega
      subst this; simp [blanksK]
  simp only [midOf, lineK_append, decide_eq_true_eq, e left hl, e right hr, e ins hi, eb]

theorem allWF_midOf {cw : Nat → Nat} {left right ins : Span} (sf ef : Nat) (hb : cw 0x20 ≤ 1)
    (hl : SpanG cw left) (hr : SpanG cw right) (hi : SpanG cw ins) :
    AllWF cw (midOf left sf ins ef right) := by
  have e : ∀ sp, SpanG cw sp → AllWF cw (if sp.width > 0 then [sp] else []) := by
    intro sp hg
    by_cases h : sp.width > 0
    · simp only [h, if_true]; exact AllWF.cons (hg.2.2 h) (AllWF.nil cw)
    · simp only [h, if_false]; exact AllWF.nil cw
  have eb : ∀ k, AllWF cw (if k > 0 then [blankSpan ins.sty k] else []) := by
    intro k
    by_cases h : k > 0
    · simp only [h, if_true]; exact AllWF.cons (spanWF_blankSpan hb _ h) (AllWF.nil cw)
    · simp only [h, if_false]; exact AllWF.nil cw
  simp only [midOf, decide_eq_true_eq]
  exact ((((e left hl).append (eb sf)).append (e ins hi)).append (eb ef)).append (e right hr)

/-- the cell-level specification of the splice (hub form) -/
def SpliceSpec (cw : Nat → Nat) (S : List Span) (x n : Nat) (ins : Span) (keep : Bool)
    (out : List Span × SpliceInfo) : Prop :=
  let R := cellsK (lineK cw S)
  cellsK (lineK cw out.1) =
    (if keep = true ∧ contAt R x = true then R.take (endOf R x) else takeB R x ins.sty) ++
      cellsK (spanK cw ins) ++ dropB R (x + n) ins.sty ∧
  out.2.shift = (if keep = true ∧ contAt R x = true then endOf R x - x else 0) ∧
  out.2.startFill = (if keep = true ∧ contAt R x = true then 0 else x - headOf R x) ∧
  out.2.endFill = endOf R (x + n) - (x + n) ∧
  (cw 0x20 ≤ 1 → AllWF cw out.1)

/-- fast paths: both ends of the range are character boundaries -/
theorem spec_bb {cw : Nat → Nat} {S : List Span} {x n : Nat} {ins : Span} {keep : Bool}
    {out : List Span × SpliceInfo} {P M Q : List K} (hL : lineK cw S = P ++ (M ++ Q))
    (hpos : PosK (lineK cw S)) (hx : wk P = x) (hn : wk M = n) (hinfo : out.2 = {})
    (hcells : cellsK (lineK cw out.1) = cellsK P ++ cellsK (spanK cw ins) ++ cellsK Q)
    (hall : cw 0x20 ≤ 1 → AllWF cw out.1) : SpliceSpec cw S x n ins keep out := by
  unfold SpliceSpec
  rw [hL] at hpos
  obtain ⟨b1, b2, b3, b4, b5⟩ := at_boundary hpos ins.sty
  have hpos2 : PosK ((P ++ M) ++ Q) := by rw [List.append_assoc]; exact hpos
  obtain ⟨c1, c2, c3, c4, c5⟩ := at_boundary hpos2 ins.sty
  rw [List.append_assoc] at c1 c2 c3 c4 c5
  have hxn : wk (P ++ M) = x + n := by rw [wk_append, hx, hn]
  rw [hxn] at c1 c2 c3 c4 c5
  rw [hx] at b1 b2 b3 b4 b5
  simp only [hL, b1, b2, b4, c3, c5, hinfo, hcells, Bool.false_eq_true, and_false, if_false]
  exact ⟨trivial, trivial, by simp, by simp, hall⟩

theorem wk_replicate1 (n : Nat) (c : Cl) (st : Style) (h : c.2 = 1) :
    wk (List.replicate n (c, st)) = n := by
  induction n with
  | zero => rfl
  | succ n ih => simp [List.replicate_succ, ih, h]; omega

theorem rrs_unfold_none (cw : Nat → Nat) (S : List Span) (x n : Nat) (ins : Span) (keep : Bool)
    (hne : ¬ (n = 0 ∧ ins.width = 0)) (hS : S.isEmpty = false)
    (hs : scanStart x S 0 0 = (none, sumWidths S)) (hn : n = 0) (hx : x = sumWidths S) (hW : 0 < sumWidths S) :
    replaceRangeSpans cw S x n ins keep = ((if ins.width > 0 then S ++ [ins] else S), {}) := by
  have c1 : ¬ x > sumWidths S := by omega
  have c2 : ¬ x + n > sumWidths S := by omega
  have c3 : ¬ x = 0 := by omega
  unfold replaceRangeSpans
  simp only [hne, hS, hs, c1, c2, c3, if_false, Bool.false_eq_true, decide_false, false_and, if_true]

/-- M3 (hub form): the splice computes `left cells ++ insert ++ right cells` -/
theorem splice_spec {cw : Nat → Nat} {S : List Span} {x n : Nat} {ins : Span} (keep : Bool)
    (hwf : AllWF cw S) (hxn : x + n ≤ sumWidths S) (hins : SpanG cw ins)
    (hne : ¬ (n = 0 ∧ ins.width = 0)) :
    SpliceSpec cw S x n ins keep (replaceRangeSpans cw S x n ins keep) := by
  have hposS := posK_lineK hwf
  have hinsK : lineK cw (if ins.width > 0 then [ins] else []) = spanK cw ins := by
    by_cases h : ins.width > 0
    · simp [h]
    · simp [h, hins.nil (by omega)]
  have hinsWF : AllWF cw (if ins.width > 0 then [ins] else []) := by
    by_cases h : ins.width > 0
    · simp only [h, if_true]; exact AllWF.cons (hins.2.2 h) (AllWF.nil cw)
    · simp only [h, if_false]; exact AllWF.nil cw
  by_cases hS : S = []
  · subst hS
    simp only [sumWidths_nil] at hxn
    have hrr : replaceRangeSpans cw [] x n ins keep = ((if ins.width > 0 then [ins] else []), {}) := by
      unfold replaceRangeSpans; simp [hne]
    rw [hrr]
    exact spec_bb (P := []) (M := []) (Q := []) rfl hposS (by simp; omega) (by simp; omega) rfl
      (by simp [hinsK]) (fun _ => hinsWF)
  have hSe : S.isEmpty = false := by cases S with
    | nil => exact absurd rfl hS
    | cons _ _ => rfl
  have hW : 0 < sumWidths S := by
    rcases Nat.eq_zero_or_pos (sumWidths S) with h | h
    · exact absurd (sumWidths_zero hwf h) hS
    · exact h
  by_cases hxW : x = sumWidths S
  · have hn : n = 0 := by omega
    have hiw : ins.width > 0 := by omega
    rw [rrs_unfold_none cw S x n ins keep hne hSe (by
      have := scanStart_none x S 0 0 (by omega); simpa using this) hn hxW hW]
    refine spec_bb (P := lineK cw S) (M := []) (Q := []) (by simp) hposS (by rw [wk_lineK hwf, hxW])
      (by simp [hn]) rfl ?_ (fun _ => ?_)
    · simp [hiw]
    · simp only [hiw, if_true]; exact hwf.append (AllWF.cons (hins.2.2 hiw) (AllWF.nil cw))
  -- the range starts inside the row
  obtain ⟨S1, sp, S2, hSeq, hscan, hp1, hp2⟩ := scanStart_some x S 0 0 (Nat.zero_le _) (by omega)
  simp only [Nat.zero_add] at hscan hp1 hp2
  have hdrop : S.drop S1.length = sp :: S2 := by rw [hSeq]; exact drop_mid0 S1 (sp :: S2)
  obtain ⟨T1, esp, T2, hTeq, hscanE, hq1, hq2⟩ :=
    scanEnd_some (x + n) (sp :: S2) S1.length (sumWidths S1) (by simp) (by
      rw [hSeq] at hxn; simpa using hxn)
  have hSeq2 : S = (S1 ++ T1) ++ esp :: T2 := by rw [hSeq, hTeq]; simp
  have hsumU : sumWidths (S1 ++ T1) = sumWidths S1 + sumWidths T1 := sumWidths_append ..
  have hjlen : (S1 ++ T1).length = S1.length + T1.length := List.length_append
  have hgi : S.getD S1.length Span.empty = sp := by rw [hSeq]; exact getD_mid ..
  have hgj : S.getD (S1.length + T1.length) Span.empty = esp := by
    rw [hSeq2, ← hjlen]; exact getD_mid ..
  have hlen : S.length = S1.length + T1.length + 1 + T2.length := by
    rw [hSeq2]; simp; omega
  have hwfsp : spanWF cw sp = true := by rw [hSeq] at hwf; exact hwf.right.head
  have hwfesp : spanWF cw esp = true := by rw [hSeq2] at hwf; exact hwf.right.head
  have hwf1 : AllWF cw S1 := by rw [hSeq] at hwf; exact hwf.left
  have hwf2 : AllWF cw S2 := by rw [hSeq] at hwf; exact hwf.right.tail
  have hwfT2 : AllWF cw T2 := by rw [hSeq2] at hwf; exact hwf.right.tail
  rw [rrs_unfold cw S x n ins keep S1.length (sumWidths S1) (S1.length + T1.length)
    (x + n - (sumWidths S1 + sumWidths T1)) (sumWidths S1 + sumWidths T1 + esp.width) hne hSe hscan
    (by rw [hdrop]; exact hscanE) hq2]
  unfold rrsBody
  simp only [hgi, hgj]
  -- facts when the range lies in a single run
  have hsame : S1.length = S1.length + T1.length → T1 = [] ∧ esp = sp ∧ T2 = S2 := by
    intro h
    have : T1 = [] := List.eq_nil_of_length_eq_zero (by omega)
    subst this
    simp at hTeq
    exact ⟨rfl, hTeq.1.symm, hTeq.2.symm⟩
  split
  · -- the whole line
    rename_i hc
    obtain ⟨hx0, hj, heo⟩ := hc
    have hS1 : S1 = [] := sumWidths_zero hwf1 (by omega)
    have hT2 : T2 = [] := List.eq_nil_of_length_eq_zero (by omega)
    refine spec_bb (P := []) (M := lineK cw S) (Q := []) (by simp) hposS (by simp [hx0]) ?_ rfl
      (by simp [hinsK]) (fun _ => hinsWF)
    have h0 : sumWidths S1 = 0 := by omega
    have hsw : sumWidths S = sumWidths S1 + sumWidths T1 + esp.width := by rw [hSeq2, hT2]; simp; omega
    rw [wk_lineK hwf]
    rcases hq1 with h | h
    · subst h; simp at heo hsw; omega
    · omega
  split
  · rename_i hc hc2; omega
  split
  · -- one run replaced exactly
    rename_i _ _ hc
    obtain ⟨hij, hso, heo, hiw⟩ := hc
    obtain ⟨hT1, hesp, hT2⟩ := hsame hij
    subst hT1 hesp hT2
    simp at heo
    refine spec_bb (P := lineK cw S1) (M := spanK cw esp) (Q := lineK cw T2) (by rw [hSeq]; simp) hposS
      (by rw [wk_lineK hwf1]; omega) (by rw [(spanWF_G hwfsp).wk]; omega) rfl ?_ (fun _ => ?_)
    · rw [hSeq, set_mid]; simp
    · rw [hSeq, set_mid]; exact hwf1.append (AllWF.cons (hins.2.2 hiw) hwf2)
  split
  · -- same style, same repeated rune: nothing changes
    rename_i _ _ _ hc
    obtain ⟨hij, hwn, hsty, hte, hie, hrune⟩ := hc
    obtain ⟨hT1, hesp, hT2⟩ := hsame hij
    subst hT1 hesp hT2
    simp at hq2
    have hKsp : spanK cw esp = List.replicate esp.width ((encodeRune esp.rune, 1), esp.sty) := by
      simp [spanK, spanCl, hte]
    have hKins : spanK cw ins = List.replicate n ((encodeRune esp.rune, 1), esp.sty) := by
      simp [spanK, spanCl, hie, hwn, hsty, hrune]
    have hsplit : esp.width = (x - sumWidths S1) + (n + (esp.width - (x - sumWidths S1) - n)) := by omega
    have hL : lineK cw S = (lineK cw S1 ++ List.replicate (x - sumWidths S1) ((encodeRune esp.rune, 1), esp.sty)) ++
        (List.replicate n ((encodeRune esp.rune, 1), esp.sty) ++
          (List.replicate (esp.width - (x - sumWidths S1) - n) ((encodeRune esp.rune, 1), esp.sty) ++ lineK cw T2)) := by
      rw [hSeq, lineK_append, lineK_cons, hKsp]
      conv => lhs; rw [hsplit]
      simp only [← List.replicate_append_replicate, List.append_assoc]
    refine spec_bb hL hposS (by rw [wk_append, wk_lineK hwf1, wk_replicate1 _ _ _ rfl]; omega)
      (wk_replicate1 _ _ _ rfl) rfl ?_ (fun _ => hwf)
    rw [hL, hKins]; simp
  split
  · -- one cell per byte patch
    rename_i _ _ _ _ hc
    obtain ⟨hij, hwn, hsty, hte, hie, ha1, ha2⟩ := hc
    obtain ⟨hT1, hesp, hT2⟩ := hsame hij
    subst hT1 hesp hT2
    simp at hq2
    have hte' : esp.text.isEmpty = false := by simpa using hte
    have hie' : ins.text.isEmpty = false := by simpa using hie
    obtain ⟨htok, hflat, hws⟩ := spanWF_text hwfsp hte'
    have hiw : 0 < ins.width := by
      rcases Nat.eq_zero_or_pos ins.width with h | h
      · exfalso
        have hz := (oneCellPerByte_iff ins).1 ha2
        rw [h] at hz
        have : ins.text = [] := List.eq_nil_of_length_eq_zero hz.1.symm
        rw [this] at hie'; simp at hie'
      · exact h
    obtain ⟨itok, iflat, iws⟩ := spanWF_text (hins.2.2 hiw) hie'
    obtain ⟨ha11, ha12⟩ := (oneCellPerByte_iff esp).1 ha1
    have hu : Unit1 (clusters cw esp.text) :=
      unit1_of_ascii htok (by rw [← hflat]; exact ha12) (by rw [← hflat, hws]; exact ha11)
    have hlen : (clusters cw esp.text).length = esp.width := by rw [← unit1_ws hu]; exact hws
    generalize hcs : clusters cw esp.text = cs at *
    generalize hso : x - sumWidths S1 = so at *
    have hson : so + n ≤ esp.width := by omega
    obtain ⟨k1, _, k3, _⟩ := unit1_take cs hu so
    obtain ⟨_, k2', _, k4'⟩ := unit1_take cs hu (so + n)
    have hud : Unit1 (cs.drop so) := fun q hq => hu q (List.mem_of_mem_drop hq)
    obtain ⟨_, _, m3, _⟩ := unit1_take _ hud n
    have hcsplit : cs = cs.take so ++ ((cs.drop so).take n ++ cs.drop (so + n)) := by
      rw [← List.drop_drop, List.take_append_drop, List.take_append_drop]
    have htokA : Toks cw (cs.take so) := fun q hq => htok q (List.mem_of_mem_take hq)
    have htokB : Toks cw (cs.drop (so + n)) := fun q hq => htok q (List.mem_of_mem_drop hq)
    have htokN : Toks cw (cs.take so ++ clusters cw ins.text ++ cs.drop (so + n)) :=
      (htokA.append itok).append htokB
    have hnew : ({ esp with text := esp.text.take so ++ ins.text ++ esp.text.drop (so + n) } : Span) =
        sub esp (cs.take so ++ clusters cw ins.text ++ cs.drop (so + n)) := by
      simp only [sub, flat_append, ws_append, k1, k2', k3, k4', ← iflat, ← hflat, iws, hlen]
      congr 1
      rw [Nat.min_eq_left (by omega)]; omega
    have hset : ∀ X, S.set S1.length X = S1 ++ X :: T2 := by intro X; rw [hSeq]; exact set_mid ..
    rw [hnew, hset]
    have hL : lineK cw S = (lineK cw S1 ++ (cs.take so).map (fun c => (c, esp.sty))) ++
        (((cs.drop so).take n).map (fun c => (c, esp.sty)) ++
          ((cs.drop (so + n)).map (fun c => (c, esp.sty)) ++ lineK cw T2)) := by
      rw [hSeq, lineK_append, lineK_cons, spanK_text hte', hcs]
      conv => lhs; rw [hcsplit]
      simp only [List.map_append, List.append_assoc]
    refine spec_bb hL hposS ?_ ?_ rfl ?_ (fun _ => ?_)
    · rw [wk_append, wk_lineK hwf1, wk_map, k3, hlen]; rw [Nat.min_eq_left (by omega)]; omega
    · rw [wk_map, m3, List.length_drop, hlen]; rw [Nat.min_eq_left (by omega)]
    · rw [lineK_append, lineK_cons, spanK_sub esp htokN, spanK_text hie']
      simp only [List.map_append, hsty, cellsK_append, List.append_assoc]
    · exact hwf1.append (AllWF.cons ((sub_spec esp htokN).2.2.2 (by
        simp only [sub_width, ws_append, k3, hlen]; rw [iws]; omega)) hwf2)
  · -- the general path
    rename_i hnc1 _ _ _ _
    have hL := leftPart_spec (cw := cw) (S1 := S1) (S2 := S2) (sp := sp) (by rw [← hSeq]; exact hwf)
      hp1 hp2 keep ins.sty
    have hR := rightPart_spec (cw := cw) (U1 := S1 ++ T1) (T2 := T2) (esp := esp)
      (by rw [← hSeq2]; exact hwf) (b := x + n) (by
        rw [hsumU]; rcases hq1 with h | h
        · subst h; simp; omega
        · omega) (by rw [hsumU]; exact hq2) ins.sty
    simp only [← hSeq, ← hSeq2, hsumU] at hL hR
    obtain ⟨hL1, hL2, hL3, hL4⟩ := hL
    obtain ⟨hR1, hR2, hR3⟩ := hR
    have htake : S.take S1.length = S1 := by rw [hSeq]; exact take_mid ..
    have hdropj : S.drop (S1.length + T1.length + 1) = T2 := by
      rw [hSeq2, ← hjlen]; exact drop_mid ..
    unfold SpliceSpec
    simp only [htake, hdropj, lineK_append, lineK_midOf _ _ hL2 hR2 hins, cellsK_append, cellsK_blanksK]
    refine ⟨?_, hL3, hL4, hR3, fun hb => ?_⟩
    · rw [← hL1, ← hR1]; simp only [List.append_assoc]
    · exact (hwf1.append (allWF_midOf _ _ hb hL2 hR2 hins)).append hwfT2

/-! ### `blankStraddlers` in terms of `takeB` / `dropB` -/

/-- one step of `blankStraddlers` -/
def blk (r : Row) (p : Nat) (st : Style) : Row := if contAt r p then blankCharAt r p st else r

theorem blankStraddlers_eq (R : Row) (a b : Nat) (st : Style) :
    blankStraddlers R a b st = blk (blk R a st) b st := rfl

theorem length_blk (r : Row) (p : Nat) (st : Style) : (blk r p st).length = r.length := by
  unfold blk blankCharAt blankRange
  split
  · simp only []; split <;> simp
  · rfl

theorem take_at {P Q L : List K} (hP : PosK P) (e : L = P ++ Q) {n : Nat} (hn : wk P = n) :
    (cellsK L).take n = cellsK P := by subst e hn; exact take_cellsK hP
theorem drop_at {P Q L : List K} (hP : PosK P) (e : L = P ++ Q) {n : Nat} (hn : wk P = n) :
    (cellsK L).drop n = cellsK Q := by subst e hn; exact drop_cellsK hP

theorem blanksK_split (m j : Nat) (st : Style) (h : j ≤ m) :
    blanksK m st = blanksK j st ++ blanksK (m - j) st := by
  rw [← blanksK_add]; congr 1; omega

theorem blk_suffix {X Y Rest : List K} (hX : PosK (X ++ Rest)) (hY : PosK (Y ++ Rest)) {c : Nat}
    (hc : c ≤ wk Rest) (st : Style) :
    (blk (cellsK (X ++ Rest)) (wk X + c) st).drop (wk X + c) = dropB (cellsK (Y ++ Rest)) (wk Y + c) st ∧
    (blk (cellsK (X ++ Rest)) (wk X + c) st).take (wk X) = cellsK X := by
  rcases locate Rest hX.right c hc with ⟨M, Q, rfl, hM⟩ | ⟨M, k, Q, rfl, hM1, hM2⟩
  · have hX' : PosK ((X ++ M) ++ Q) := by rw [List.append_assoc]; exact hX
    have hY' : PosK ((Y ++ M) ++ Q) := by rw [List.append_assoc]; exact hY
    obtain ⟨b1, _, _, _, _⟩ := at_boundary hX' st
    obtain ⟨_, _, _, _, c5⟩ := at_boundary hY' st
    rw [List.append_assoc, wk_append, hM] at b1 c5
    simp only [blk, b1, Bool.false_eq_true, if_false, c5]
    exact ⟨drop_at hX'.left (by simp) (by simp [hM]), take_cellsK hX.left⟩
  · have hX' : PosK ((X ++ M) ++ k :: Q) := by rw [List.append_assoc]; exact hX
    have hY' : PosK ((Y ++ M) ++ k :: Q) := by rw [List.append_assoc]; exact hY
    have hbX := blank_inside hX' (x := wk X + c) (by simp; omega) (by simp; omega) st
    obtain ⟨b1, _, _, _, _, _⟩ := at_inside hX' (x := wk X + c) (by simp; omega) (by simp; omega) st
    obtain ⟨_, _, _, _, c5, _⟩ := at_inside hY' (x := wk Y + c) (by simp; omega) (by simp; omega) st
    rw [List.append_assoc] at b1 c5 hbX
    simp only [blk, b1, if_true, c5, hbX]
    have hp : PosK (X ++ M ++ blanksK (c - wk M) st) := (hX'.left).append (posK_blanksK _ _)
    constructor
    · rw [drop_at hp (Q := blanksK (k.1.2 - (c - wk M)) st ++ Q)
        (by rw [blanksK_split k.1.2 (c - wk M) st (by omega)]; simp only [List.append_assoc])
        (by simp; omega)]
      simp only [cellsK_append, cellsK_blanksK, wk_append]
      congr 2; omega
    · exact take_at hX.left (Q := M ++ (blanksK k.1.2 st ++ Q)) (by simp only [List.append_assoc]) rfl

theorem take_take_le {α : Type} (l : List α) {a b : Nat} (h : a ≤ b) : (l.take b).take a = l.take a := by
  rw [List.take_take, Nat.min_eq_left h]

/-- (T) and (D): the cells left of `a` and from `b` on after `blankStraddlers` -/
theorem straddle {L : List K} (hL : PosK L) {a b : Nat} (hab : a ≤ b) (hb : b ≤ wk L) (st : Style) :
    (blankStraddlers (cellsK L) a b st).take a = takeB (cellsK L) a st ∧
    (blankStraddlers (cellsK L) a b st).drop b = dropB (cellsK L) b st := by
  rw [blankStraddlers_eq]
  rcases locate L hL a (by omega) with ⟨A, Rest, rfl, hA⟩ | ⟨A, k, Rest, rfl, hA1, hA2⟩
  · obtain ⟨b1, _, _, b4, _⟩ := at_boundary hL st
    rw [hA] at b1 b4
    have h1 : blk (cellsK (A ++ Rest)) a st = cellsK (A ++ Rest) := by
      simp only [blk, b1, Bool.false_eq_true, if_false]
    rw [h1, b4]
    have hc : b - a ≤ wk Rest := by simp at hb; omega
    obtain ⟨s1, s2⟩ := blk_suffix hL hL hc st
    rw [hA, show a + (b - a) = b by omega] at s1 s2
    exact ⟨s2, s1⟩
  · obtain ⟨b1, b2, b3, b4, b5, b6⟩ := at_inside hL hA1 hA2 st
    have h1 : blk (cellsK (A ++ k :: Rest)) a st = cellsK (A ++ (blanksK k.1.2 st ++ Rest)) := by
      simp only [blk, b1, if_true]; exact blank_inside hL hA1 hA2 st
    rw [h1, b4]
    have hposB : PosK (A ++ (blanksK k.1.2 st ++ Rest)) :=
      hL.left.append ((posK_blanksK _ _).append hL.right.tail)
    have hpa : PosK (A ++ blanksK (a - wk A) st) := hL.left.append (posK_blanksK _ _)
    have htakea : ∀ Z, (cellsK (A ++ (blanksK k.1.2 st ++ Z))).take a =
        cellsK A ++ List.replicate (a - wk A) (blank st) := by
      intro Z
      rw [take_at hpa (Q := blanksK (k.1.2 - (a - wk A)) st ++ Z)
        (by rw [blanksK_split k.1.2 (a - wk A) st (by omega)]; simp only [List.append_assoc])
        (by simp; omega)]
      simp
    by_cases hbe : b < wk A + k.1.2
    · -- `b` inside the same character
      obtain ⟨c1, _, _, _, c5, _⟩ := at_inside hL (x := b) (by omega) hbe st
      rw [c5]
      have e : A ++ (blanksK k.1.2 st ++ Rest) =
          (A ++ blanksK (b - wk A) st) ++ (blanksK (k.1.2 - (b - wk A)) st ++ Rest) := by
        rw [blanksK_split k.1.2 (b - wk A) st (by omega)]; simp only [List.append_assoc]
      have hp : PosK ((A ++ blanksK (b - wk A) st) ++ (blanksK (k.1.2 - (b - wk A)) st ++ Rest)) := by
        rw [← e]; exact hposB
      have hw : wk (A ++ blanksK (b - wk A) st) = b := by simp; omega
      obtain ⟨d1, _, _, _, _⟩ := at_boundary hp st
      rw [hw, ← e] at d1
      have h2 : blk (cellsK (A ++ (blanksK k.1.2 st ++ Rest))) b st =
          cellsK (A ++ (blanksK k.1.2 st ++ Rest)) := by
        simp only [blk, d1, Bool.false_eq_true, if_false]
      rw [h2]
      refine ⟨htakea Rest, ?_⟩
      rw [drop_at hp.left e hw]
      simp only [cellsK_append, cellsK_blanksK]
      congr 2; omega
    · -- `b` at or after the end of the character cut by `a`
      have hX : PosK ((A ++ blanksK k.1.2 st) ++ Rest) := by rw [List.append_assoc]; exact hposB
      have hY : PosK ((A ++ [k]) ++ Rest) := by simpa using hL
      have hc : b - (wk A + k.1.2) ≤ wk Rest := by simp at hb; omega
      obtain ⟨s1, s2⟩ := blk_suffix hX hY hc st
      have hwX : wk (A ++ blanksK k.1.2 st) = wk A + k.1.2 := by simp
      have hwY : wk (A ++ [k]) = wk A + k.1.2 := by simp
      rw [hwX, show wk A + k.1.2 + (b - (wk A + k.1.2)) = b by omega] at s1 s2
      rw [hwY, show wk A + k.1.2 + (b - (wk A + k.1.2)) = b by omega] at s1
      rw [List.append_assoc] at s1 s2
      rw [show (A ++ [k]) ++ Rest = A ++ k :: Rest by simp] at s1
      refine ⟨?_, s1⟩
      rw [← take_take_le _ (show a ≤ wk A + k.1.2 by omega), s2]
      have := htakea []
      simpa using this

theorem blk_take_drop {L : List K} (hL : PosK L) {a : Nat} (ha : a ≤ wk L) (st : Style) :
    (blk (cellsK L) a st).take a = takeB (cellsK L) a st ∧
    (blk (cellsK L) a st).drop a = dropB (cellsK L) a st := by
  have h := straddle hL (Nat.le_refl a) ha st
  have hsuf := blk_suffix (X := []) (Y := []) (Rest := L) (by simpa using hL) (by simpa using hL) ha st
  simp only [List.nil_append, wk_nil, Nat.zero_add] at hsuf
  refine ⟨?_, hsuf.1⟩
  -- the second blanking at the same column changes nothing left of it
  rcases locate L hL a ha with ⟨A, Rest, rfl, hA⟩ | ⟨A, k, Rest, rfl, hA1, hA2⟩
  · obtain ⟨b1, _, _, b4, _⟩ := at_boundary hL st
    rw [hA] at b1 b4
    simp only [blk, b1, Bool.false_eq_true, if_false, b4]
    exact take_at hL.left rfl hA
  · obtain ⟨b1, _, _, b4, _, _⟩ := at_inside hL hA1 hA2 st
    simp only [blk, b1, if_true, b4, blank_inside hL hA1 hA2 st]
    rw [take_at (hL.left.append (posK_blanksK (a - wk A) st)) (Q := blanksK (k.1.2 - (a - wk A)) st ++ Rest)
      (by rw [blanksK_split k.1.2 (a - wk A) st (by omega)]; simp only [List.append_assoc])
      (by simp; omega)]
    simp

theorem length_takeB {L : List K} (hL : PosK L) {a : Nat} (ha : a ≤ wk L) (st : Style) :
    (takeB (cellsK L) a st).length = a := by
  rw [← (blk_take_drop hL ha st).1, List.length_take, length_blk, length_cellsK hL]; omega

theorem length_dropB {L : List K} (hL : PosK L) {a : Nat} (ha : a ≤ wk L) (st : Style) :
    (dropB (cellsK L) a st).length = wk L - a := by
  rw [← (blk_take_drop hL ha st).2, List.length_drop, length_blk, length_cellsK hL]

theorem length_blk_aux (r : Row) (p : Nat) (st : Style) : (blankCharAt r p st).length = r.length := by
  unfold blankCharAt blankRange
  simp only []; split <;> simp

theorem length_blankStraddlers (R : Row) (a b : Nat) (st : Style) :
    (blankStraddlers R a b st).length = R.length := by
  rw [blankStraddlers_eq, length_blk, length_blk]

/-- an inserted run is a well-formed run, or the empty run of width 0 -/
def InsOK (cw : Nat → Nat) (ins : Span) : Prop :=
  spanWF cw ins = true ∨ (ins.width = 0 ∧ ins.text = [])

theorem InsOK.spanG {cw : Nat → Nat} {ins : Span} (h : InsOK cw ins) : SpanG cw ins := by
  rcases h with h | ⟨h1, h2⟩
  · exact spanWF_G h
  · have : spanCl cw ins = [] := by simp [spanCl, h1, h2]
    refine ⟨?_, ?_, ?_⟩
    · rw [this, h1]; rfl
    · rw [this]; intro p hp; cases hp
    · omega

theorem length_spanCells {cw : Nat → Nat} {sp : Span} (h : SpanG cw sp) : (spanCells cw sp).length = sp.width := by
  rw [spanCells_eq, length_cellsK h.posK, h.wk]

theorem length_lineCells {cw : Nat → Nat} {l : SLine} (h : AllWF cw l.spans) :
    (lineCells cw l).length = sumWidths l.spans := by
  rw [lineCells_eq, length_cellsK (posK_lineK h), wk_lineK h]

/-! ## M3 — the splice, as stated in the brief -/

/-- M3, `keep = false` or the range starts on a character boundary: the new row is the old one
    with the wide characters cut by either end blanked, and the range replaced by the insert. -/
theorem replaceRangeWide_cells {cw : Nat → Nat} {l : SLine} {x n : Nat} {ins : Span} {keep : Bool}
    (hwf : AllWF cw l.spans) (hxn : x + n ≤ sumWidths l.spans) (hins : InsOK cw ins)
    (hne : 0 < n ∨ 0 < ins.width) (hk : keep = false ∨ contAt (lineCells cw l) x = false) :
    let R := lineCells cw l
    let R₁ := blankStraddlers R x (x + n) ins.sty
    let out := replaceRangeWide cw l x n ins keep
    lineCells cw out.1 = R₁.take x ++ spanCells cw ins ++ R₁.drop (x + n) ∧
    out.2.shift = 0 ∧
    out.2.startFill = (if contAt R x then x - headOf R x else 0) ∧
    out.2.endFill = (if contAt R (x + n) then
      headOf R (x + n) + widthAt R (headOf R (x + n)) - (x + n) else 0) := by
  intro R R₁ out
  have hspec := splice_spec keep hwf hxn hins.spanG (by omega)
  unfold SpliceSpec at hspec
  obtain ⟨h1, h2, h3, h4, _⟩ := hspec
  have hpos := posK_lineK hwf
  have hst := straddle hpos (Nat.le_add_right x n) (by rw [wk_lineK hwf]; exact hxn) ins.sty
  have hc : ¬ (keep = true ∧ contAt (cellsK (lineK cw l.spans)) x = true) := by
    rw [← lineCells_eq]; rcases hk with h | h <;> simp [h]
  simp only [hc, if_false] at h1 h2 h3
  have hout : lineCells cw out.1 = cellsK (lineK cw (replaceRangeSpans cw l.spans x n ins keep).1) := by
    rw [lineCells_eq]; rfl
  refine ⟨?_, h2, ?_, ?_⟩
  · rw [hout, h1, spanCells_eq]
    simp only [R₁, R, lineCells_eq, hst.1, hst.2]
  · simp only [R, lineCells_eq]
    show (replaceRangeSpans cw l.spans x n ins keep).2.startFill = _
    rw [h3]
    split
    · rfl
    · rename_i hnc
      rw [headOf_of_not_cont (by simpa using hnc)]; omega
  · simp only [R, lineCells_eq]
    show (replaceRangeSpans cw l.spans x n ins keep).2.endFill = _
    rw [h4]
    unfold endOf
    split <;> simp

/-- M3, `keep = true` and the range starts inside a wide character: that character is kept and
    the insert lands after it. -/
theorem replaceRangeWide_cells_keep {cw : Nat → Nat} {l : SLine} {x n : Nat} {ins : Span}
    (hwf : AllWF cw l.spans) (hxn : x + n ≤ sumWidths l.spans) (hins : InsOK cw ins)
    (hne : 0 < n ∨ 0 < ins.width) (hk : contAt (lineCells cw l) x = true) :
    let R := lineCells cw l
    let e := headOf R x + widthAt R (headOf R x)
    let b := x + n
    let tail := if b < e then List.replicate (e - b) (blank ins.sty) ++ R.drop e
                else (if contAt R b then blankCharAt R b ins.sty else R).drop b
    let out := replaceRangeWide cw l x n ins true
    lineCells cw out.1 = R.take e ++ spanCells cw ins ++ tail ∧ out.2.shift = e - x ∧
    out.2.startFill = 0 ∧
    out.2.endFill = (if contAt R b then headOf R b + widthAt R (headOf R b) - b else 0) := by
  intro R e b tail out
  have hspec := splice_spec true hwf hxn hins.spanG (by omega)
  unfold SpliceSpec at hspec
  obtain ⟨h1, h2, h3, h4, _⟩ := hspec
  have hpos := posK_lineK hwf
  have hR : R = cellsK (lineK cw l.spans) := lineCells_eq cw l
  have hk' : contAt (cellsK (lineK cw l.spans)) x = true := by rw [← hR]; exact hk
  have hc : (true = true ∧ contAt (cellsK (lineK cw l.spans)) x = true) := ⟨rfl, hk'⟩
  simp only [hk', and_self, if_true] at h1 h2 h3
  have he : endOf (cellsK (lineK cw l.spans)) x = e := by
    simp only [endOf, hk', if_true, e, hR]
  have hbW : b ≤ wk (lineK cw l.spans) := by rw [wk_lineK hwf]; exact hxn
  have htail : dropB (cellsK (lineK cw l.spans)) b ins.sty = tail := by
    simp only [tail]
    split
    · rename_i hbe
      -- `b` lies inside the kept character
      rcases locate _ hpos x (by omega) with ⟨A, Rest, hAeq, hA⟩ | ⟨A, k, Rest, hAeq, hA1, hA2⟩
      · exfalso
        have := (at_boundary (by rw [← hAeq]; exact hpos) ins.sty).1
        rw [← hAeq, hA, hk'] at this; cases this
      · have hp' : PosK (A ++ k :: Rest) := by rw [← hAeq]; exact hpos
        obtain ⟨_, _, b3, _, _, _⟩ := at_inside hp' hA1 hA2 ins.sty
        rw [← hAeq, he] at b3
        obtain ⟨_, _, c3, _, _, _⟩ := at_inside hp' (x := b) (by omega) (by omega) ins.sty
        rw [← hAeq] at c3
        simp only [dropB, c3, ← b3, hR]
    · rw [← (blk_take_drop hpos hbW ins.sty).2, hR]; rfl
  have hout : lineCells cw out.1 = cellsK (lineK cw (replaceRangeSpans cw l.spans x n ins true).1) := by
    rw [lineCells_eq]; rfl
  refine ⟨?_, ?_, h3, ?_⟩
  · rw [hout, h1, spanCells_eq, he, htail, hR]
  · show (replaceRangeSpans cw l.spans x n ins true).2.shift = _
    rw [h2, he]
  · show (replaceRangeSpans cw l.spans x n ins true).2.endFill = _
    rw [h4, hR]
    unfold endOf
    split
    · rfl
    · simp

/-- M3: the splice keeps the row invariant (blank runs are well formed when a space is at most one
    cell wide), the cached width is the sum of the run widths and the number of cells -/
theorem replaceRangeWide_wf {cw : Nat → Nat} {l : SLine} {x n : Nat} {ins : Span} (keep : Bool)
    (hwf : AllWF cw l.spans) (hxn : x + n ≤ sumWidths l.spans) (hins : InsOK cw ins)
    (hne : 0 < n ∨ 0 < ins.width) (hb : cw 0x20 ≤ 1) :
    let out := replaceRangeWide cw l x n ins keep
    AllWF cw out.1.spans ∧ out.1.width = sumWidths out.1.spans ∧
    (lineCells cw out.1).length = sumWidths out.1.spans := by
  intro out
  have hspec := splice_spec keep hwf hxn hins.spanG (by omega)
  have hall : AllWF cw out.1.spans := hspec.2.2.2.2 hb
  exact ⟨hall, rfl, length_lineCells hall⟩

/-- M3: with nothing to remove and nothing to insert the row is left alone -/
theorem replaceRangeWide_noop (cw : Nat → Nat) (l : SLine) (x : Nat) (ins : Span) (keep : Bool)
    (h0 : ins.width = 0) :
    replaceRangeWide cw l x 0 ins keep = ({ spans := l.spans, width := sumWidths l.spans }, {}) := by
  simp [replaceRangeWide, replaceRangeSpans, h0]

/-! ## M4 — the callers refine the cell-level operations of `TM.Screen` -/

theorem blankRange_eq (r : Row) (a n : Nat) (st : Style) (h : a + n ≤ r.length) :
    blankRange r a n st = r.take a ++ List.replicate n (blank st) ++ r.drop (a + n) := by
  have e : r = r.take a ++ ((r.drop a).take n ++ r.drop (a + n)) := by
    rw [← List.drop_drop, List.take_append_drop, List.take_append_drop]
  have h1 : (r.take a).length = a := by rw [List.length_take]; omega
  have h2 : ((r.drop a).take n).length = n := by rw [List.length_take, List.length_drop]; omega
  have := blankRange_mid (r.take a) ((r.drop a).take n) (r.drop (a + n)) st
  rw [h1, h2, ← e] at this
  rw [this, List.append_assoc]

theorem setRange_mid (P M Q cells : Row) (h : cells.length = M.length) :
    setRange (P ++ (M ++ Q)) P.length cells = P ++ (cells ++ Q) := by
  apply List.ext_getElem?
  intro i
  simp only [setRange, List.getElem?_mapIdx]
  by_cases h1 : i < P.length
  · rw [List.getElem?_append_left h1, List.getElem?_append_left h1]
    cases P[i]? <;> simp; omega
  · by_cases h2 : i < P.length + M.length
    · have h3 : i - P.length < M.length := by omega
      have h3' : i - P.length < cells.length := by omega
      rw [List.getElem?_append_right (Nat.le_of_not_lt h1), List.getElem?_append_right (Nat.le_of_not_lt h1),
        List.getElem?_append_left h3, List.getElem?_append_left h3']
      have h4 : P.length ≤ i ∧ i < P.length + cells.length := ⟨by omega, by omega⟩
      simp [h3, h4, List.getD_eq_getElem?_getD, List.getElem?_eq_getElem h3']
    · have h3 : M.length ≤ i - P.length := by omega
      have h3' : cells.length ≤ i - P.length := by omega
      rw [List.getElem?_append_right (Nat.le_of_not_lt h1), List.getElem?_append_right (Nat.le_of_not_lt h1),
        List.getElem?_append_right h3, List.getElem?_append_right h3', h]
      cases Q[i - P.length - M.length]? <;> simp; omega

theorem setRange_eq (r : Row) (a : Nat) (cells : Row) (h : a + cells.length ≤ r.length) :
    setRange r a cells = r.take a ++ cells ++ r.drop (a + cells.length) := by
  have e : r = r.take a ++ ((r.drop a).take cells.length ++ r.drop (a + cells.length)) := by
    rw [← List.drop_drop, List.take_append_drop, List.take_append_drop]
  have h1 : (r.take a).length = a := by rw [List.length_take]; omega
  have h2 : ((r.drop a).take cells.length).length = cells.length := by
    rw [List.length_take, List.length_drop]; omega
  have := setRange_mid (r.take a) ((r.drop a).take cells.length) (r.drop (a + cells.length)) cells h2.symm
  rw [h1, ← e] at this
  rw [this, List.append_assoc]

theorem lineCellWidth_mk (sp : List Span) : lineCellWidth ⟨sp, sumWidths sp⟩ = sumWidths sp := by
  unfold lineCellWidth; split <;> rfl

theorem lineWF_iff {cw : Nat → Nat} {W : Nat} {l : SLine} :
    lineWF cw W l = true ↔ AllWF cw l.spans ∧ sumWidths l.spans = W ∧ l.width = W := by
  simp [lineWF, AllWF, and_assoc]

theorem lineCellWidth_of_lineWF {cw : Nat → Nat} {W : Nat} {l : SLine} (h : lineWF cw W l = true) :
    lineCellWidth l = W := by
  obtain ⟨h1, h2, h3⟩ := lineWF_iff.1 h
  unfold lineCellWidth
  split
  · exact h3
  · rename_i hc
    simp only [not_or, Decidable.not_not] at hc
    rw [h2]

theorem spanCells_blankSpan (cw : Nat → Nat) (st : Style) (w : Nat) :
    spanCells cw (blankSpan st w) = List.replicate w (blank st) := by
  rw [spanCells_eq, spanK_blankSpan, cellsK_blanksK]

theorem insOK_blankSpan {cw : Nat → Nat} (hb : cw 0x20 ≤ 1) (st : Style) (w : Nat) :
    InsOK cw (blankSpan st w) := by
  by_cases h : 0 < w
  · exact Or.inl (spanWF_blankSpan hb st h)
  · exact Or.inr ⟨by simp [blankSpan]; omega, rfl⟩

theorem insOK_empty (cw : Nat → Nat) (st : Style) : InsOK cw ⟨st, [], 0, 0⟩ := Or.inr ⟨rfl, rfl⟩

theorem spanCells_emptyIns (cw : Nat → Nat) (st : Style) : spanCells cw ⟨st, [], 0, 0⟩ = [] := by
  simp [spanCells]

/-- M4: `blankSpanLine` is the blank row -/
theorem blankSpanLine_refines {cw : Nat → Nat} (hb : cw 0x20 ≤ 1) {w : Nat} (hw : 0 < w) (st : Style) :
    lineCells cw (blankSpanLine w st) = blankRow w st ∧ lineWF cw w (blankSpanLine w st) = true := by
  constructor
  · simp [lineCells, blankSpanLine, spanCells_blankSpan, blankRow]
  · rw [lineWF_iff]
    exact ⟨AllWF.cons (spanWF_blankSpan hb st hw) (AllWF.nil cw), by simp [blankSpanLine, blankSpan], rfl⟩

/-- the splice with `keep = false`, with everything the callers need -/
theorem rrw_false {cw : Nat → Nat} {l : SLine} {x n : Nat} {ins : Span}
    (hwf : AllWF cw l.spans) (hxn : x + n ≤ sumWidths l.spans) (hins : InsOK cw ins)
    (hne : 0 < n ∨ 0 < ins.width) (hb : cw 0x20 ≤ 1) :
    let R₁ := blankStraddlers (lineCells cw l) x (x + n) ins.sty
    let out := (replaceRangeWide cw l x n ins false).1
    lineCells cw out = R₁.take x ++ spanCells cw ins ++ R₁.drop (x + n) ∧
    AllWF cw out.spans ∧ out.width = sumWidths out.spans ∧
    sumWidths out.spans = sumWidths l.spans - n + ins.width ∧
    lineCellWidth out = sumWidths out.spans := by
  intro R₁ out
  obtain ⟨h1, _, _, _⟩ := replaceRangeWide_cells (keep := false) hwf hxn hins hne (Or.inl rfl)
  obtain ⟨w1, w2, w3⟩ := replaceRangeWide_wf false hwf hxn hins hne hb
  refine ⟨h1, w1, w2, ?_, lineCellWidth_mk _⟩
  rw [← w3, h1]
  simp only [List.length_append, List.length_take, List.length_drop, length_blankStraddlers,
    length_lineCells hwf, length_spanCells hins.spanG]
  omega

/-- M4: `eraseRegion` on one row is `Row.erase` -/
theorem eraseLine_refines {cw : Nat → Nat} {W : Nat} {l : SLine} (hl : lineWF cw W l = true)
    (hb : cw 0x20 ≤ 1) (cur : Style) {a b : Nat} (hab : a < b) (hbW : b ≤ W) :
    lineCells cw (eraseLine cw W cur l a b) = Row.erase (lineCells cw l) a b cur ∧
    lineWF cw W (eraseLine cw W cur l a b) = true := by
  obtain ⟨hwf, hsum, hwid⟩ := lineWF_iff.1 hl
  have hins := insOK_blankSpan hb cur (b - a)
  have hbw : (blankSpan cur (b - a)).width = b - a := rfl
  obtain ⟨h1, h2, h3, h4, h5⟩ := rrw_false (x := a) (n := b - a) hwf (by omega) hins (Or.inl (by omega)) hb
  rw [hbw] at h4
  have hnot : ¬ lineCellWidth (replaceRangeWide cw l a (b - a) (blankSpan cur (b - a)) false).1 > W := by
    rw [h5, h4]; omega
  have he : eraseLine cw W cur l a b = (replaceRangeWide cw l a (b - a) (blankSpan cur (b - a)) false).1 := by
    unfold eraseLine writeSpanLine
    simp only [show ¬ b ≤ a by omega, if_false, hbw, hnot]
  rw [he]
  refine ⟨?_, lineWF_iff.2 ⟨h2, by rw [h4]; omega, by rw [h3, h4]; omega⟩⟩
  have hab2 : a + (b - a) = b := by omega
  rw [hab2] at h1
  rw [h1, spanCells_blankSpan]
  have hlen := length_lineCells hwf
  unfold Row.erase
  simp only [hlen, hsum, Nat.min_eq_left hbW, show ¬ a ≥ b by omega, if_false]
  rw [blankRange_eq _ _ _ _ (by rw [length_blankStraddlers, hlen]; omega), hab2]
  rfl

/-- M4: `deleteChars` on one row is `Row.dch` -/
theorem deleteCharsLine_refines {cw : Nat → Nat} {W : Nat} {l : SLine} (hl : lineWF cw W l = true)
    (hb : cw 0x20 ≤ 1) (cur : Style) {x n : Nat} (hx : x < W) (hn : 0 < n) :
    lineCells cw (deleteCharsLine cw W cur l x n).1 = Row.dch (lineCells cw l) x n cur ∧
    lineWF cw W (deleteCharsLine cw W cur l x n).1 = true := by
  obtain ⟨hwf, hsum, hwid⟩ := lineWF_iff.1 hl
  have hn' : (if x + n > W then W - x else n) = min n (W - x) := by split <;> omega
  have hm1 : 0 < min n (W - x) := by omega
  have hm2 : x + min n (W - x) ≤ W := by omega
  obtain ⟨h1, h2, h3, h4, h5⟩ :=
    rrw_false (x := x) (n := min n (W - x)) hwf (by omega) (insOK_empty cw cur) (Or.inl hm1) hb
  simp only [] at h4
  have hlen := length_lineCells hwf
  have hlt : sumWidths (replaceRangeWide cw l x (min n (W - x)) ⟨cur, [], 0, 0⟩ false).1.spans < W := by
    rw [h4]; omega
  have hd : (deleteCharsLine cw W cur l x n).1 =
      { spans := (replaceRangeWide cw l x (min n (W - x)) ⟨cur, [], 0, 0⟩ false).1.spans ++
          [blankSpan cur (min n (W - x))], width := W } := by
    have hwd : W - sumWidths (replaceRangeWide cw l x (min n (W - x)) ⟨cur, [], 0, 0⟩ false).1.spans =
        min n (W - x) := by rw [h4]; omega
    unfold deleteCharsLine
    simp only [hn', h5, hlt, if_true, hwd]
  rw [hd]
  constructor
  · have : lineCells cw { spans := (replaceRangeWide cw l x (min n (W - x)) ⟨cur, [], 0, 0⟩ false).1.spans ++
          [blankSpan cur (min n (W - x))], width := W } =
        lineCells cw (replaceRangeWide cw l x (min n (W - x)) ⟨cur, [], 0, 0⟩ false).1 ++
          List.replicate (min n (W - x)) (blank cur) := by
      simp [lineCells, spanCells_blankSpan]
    rw [this, h1, spanCells_emptyIns]
    unfold Row.dch
    simp only [hlen, hsum, show ¬ (x ≥ W ∨ n = 0) by omega, if_false, List.append_nil]
  · rw [lineWF_iff]
    refine ⟨h2.append (AllWF.cons (spanWF_blankSpan hb cur hm1) (AllWF.nil cw)), ?_, rfl⟩
    simp only [sumWidths_append, sumWidths_cons, sumWidths_nil, h4, blankSpan]
    omega

theorem contAt_ge {R : Row} {x : Nat} (h : R.length ≤ x) : contAt R x = false := by
  simp [contAt, List.getElem?_eq_none h]

theorem blk_ge {R : Row} {x : Nat} (h : R.length ≤ x) (st : Style) : blk R x st = R := by
  simp [blk, contAt_ge h]

theorem straddle_line {cw : Nat → Nat} {l : SLine} (hwf : AllWF cw l.spans) {a b : Nat} (hab : a ≤ b)
    (hb : b ≤ sumWidths l.spans) (st : Style) :
    (blankStraddlers (lineCells cw l) a b st).take a = takeB (lineCells cw l) a st ∧
    (blankStraddlers (lineCells cw l) a b st).drop b = dropB (lineCells cw l) b st := by
  rw [lineCells_eq]
  exact straddle (posK_lineK hwf) hab (by rw [wk_lineK hwf]; exact hb) st

theorem blk_line {cw : Nat → Nat} {l : SLine} (hwf : AllWF cw l.spans) {a : Nat}
    (ha : a ≤ sumWidths l.spans) (st : Style) :
    (blk (lineCells cw l) a st).take a = takeB (lineCells cw l) a st ∧
    (blk (lineCells cw l) a st).drop a = dropB (lineCells cw l) a st := by
  rw [lineCells_eq]
  exact blk_take_drop (posK_lineK hwf) (by rw [wk_lineK hwf]; exact ha) st

theorem cutRow_eq (R : Row) (w : Nat) (st : Style) : cutRow R w st = (blk R w st).take w := rfl

/-- M4: `truncateLine` is `cutRow` -/
theorem truncateLine_refines {cw : Nat → Nat} {W : Nat} {l : SLine} (hl : lineWF cw W l = true)
    (hb : cw 0x20 ≤ 1) (st : Style) {w : Nat} (hw : 0 < w) (hwW : w ≤ W) :
    lineCells cw (truncateLine cw l w st) = cutRow (lineCells cw l) w st ∧
    lineWF cw w (truncateLine cw l w st) = true := by
  obtain ⟨hwf, hsum, hwid⟩ := lineWF_iff.1 hl
  have hlen := length_lineCells hwf
  have hcw := lineCellWidth_of_lineWF hl
  have ht : truncateLine cw l w st = (replaceRangeWide cw l w (W - w) ⟨st, [], 0, 0⟩ false).1 := by
    unfold truncateLine; simp only [show ¬ w = 0 by omega, if_false, hcw]
  rw [ht, cutRow_eq]
  by_cases he : w = W
  · subst he
    rw [Nat.sub_self, replaceRangeWide_noop cw l w ⟨st, [], 0, 0⟩ false rfl]
    constructor
    · rw [blk_ge (by omega), List.take_of_length_le (by omega)]; rfl
    · exact lineWF_iff.2 ⟨hwf, hsum, hsum⟩
  · obtain ⟨h1, h2, h3, h4, h5⟩ :=
      rrw_false (x := w) (n := W - w) hwf (by omega) (insOK_empty cw st) (Or.inl (by omega)) hb
    simp only [] at h4
    refine ⟨?_, lineWF_iff.2 ⟨h2, by rw [h4]; omega, by rw [h3, h4]; omega⟩⟩
    rw [h1, spanCells_emptyIns, (straddle_line hwf (Nat.le_add_right _ _) (by omega) st).1,
      (blk_line hwf (by omega) st).1, List.drop_of_length_le (by
        rw [length_blankStraddlers, hlen]; omega)]
    simp

/-- M4: `resizeLine` is `fitRow`, for every new width -/
theorem resizeLine_refines {cw : Nat → Nat} {W : Nat} {l : SLine} (hl : lineWF cw W l = true)
    (hb : cw 0x20 ≤ 1) (st : Style) (w : Nat) :
    lineCells cw (resizeLine cw l w st) = fitRow (lineCells cw l) w st ∧
    lineWF cw w (resizeLine cw l w st) = true := by
  obtain ⟨hwf, hsum, hwid⟩ := lineWF_iff.1 hl
  have hlen := length_lineCells hwf
  have hcw := lineCellWidth_of_lineWF hl
  unfold resizeLine
  simp only [hcw]
  by_cases h1 : W > w
  · simp only [h1, if_true]
    have hf : fitRow (lineCells cw l) w st = cutRow (lineCells cw l) w st := by
      unfold fitRow cutRow; simp only [hlen, hsum, show W ≥ w by omega, if_true]
    by_cases h0 : w = 0
    · subst h0
      rw [hf]
      simp [truncateLine, cutRow, lineCells, lineWF, sumWidths]
    · rw [hf]; exact truncateLine_refines hl hb st (by omega) (by omega)
  · simp only [h1, if_false]
    by_cases h2 : W < w
    · simp only [h2, if_true]
      constructor
      · unfold fitRow
        simp only [hlen, hsum, show ¬ W ≥ w by omega, if_false]
        simp [lineCells, spanCells_blankSpan]
      · rw [lineWF_iff]
        refine ⟨hwf.append (AllWF.cons (spanWF_blankSpan hb st (by omega)) (AllWF.nil cw)), ?_, rfl⟩
        simp only [sumWidths_append, sumWidths_cons, sumWidths_nil, blankSpan]; omega
    · simp only [h2, if_false]
      have he : w = W := by omega
      subst he
      constructor
      · unfold fitRow
        simp only [hlen, hsum, show w ≥ w from Nat.le_refl _, if_true]
        have := blk_ge (R := lineCells cw l) (x := w) (by omega) st
        unfold blk at this
        rw [this, List.take_of_length_le (by omega)]; rfl
      · exact lineWF_iff.2 ⟨hwf, hsum, rfl⟩

theorem endOf_bounds {L : List K} (hL : PosK L) {x : Nat} (hx : x ≤ wk L)
    (hc : contAt (cellsK L) x = true) :
    x < endOf (cellsK L) x ∧ endOf (cellsK L) x ≤ wk L ∧ headOf (cellsK L) x < x := by
  rcases locate L hL x hx with ⟨A, Rest, rfl, hA⟩ | ⟨A, k, Rest, rfl, hA1, hA2⟩
  · have := (at_boundary hL default).1
    rw [hA, hc] at this; cases this
  · obtain ⟨_, b2, b3, _, _, _⟩ := at_inside hL hA1 hA2 default
    rw [b2, b3]; simp; omega

theorem endOf_bounds_line {cw : Nat → Nat} {l : SLine} (hwf : AllWF cw l.spans) {x : Nat}
    (hx : x ≤ sumWidths l.spans) (hc : contAt (lineCells cw l) x = true) :
    x < headOf (lineCells cw l) x + widthAt (lineCells cw l) (headOf (lineCells cw l) x) ∧
    headOf (lineCells cw l) x + widthAt (lineCells cw l) (headOf (lineCells cw l) x) ≤ sumWidths l.spans ∧
    headOf (lineCells cw l) x < x := by
  have := endOf_bounds (posK_lineK hwf) (x := x) (by rw [wk_lineK hwf]; exact hx) (by
    rw [← lineCells_eq]; exact hc)
  rw [← lineCells_eq, wk_lineK hwf] at this
  simpa [endOf, hc] using this

theorem writeChar_refines_aux {cw : Nat → Nat} {W : Nat} {l : SLine} (hl : lineWF cw W l = true)
    (hb : cw 0x20 ≤ 1) (cur : Style) {x w : Nat} {bytes : Bytes}
    (hsp : spanWF cw ⟨cur, bytes, 0, w⟩ = true) (hcl : clusters cw bytes = [(bytes, w)])
    (hxw : x + w ≤ W) (R : Row) (hR : R = lineCells cw l) (res : SLine × Nat × Nat × Nat)
    (hres0 : res = writeSpanLine cw W cur l x ⟨cur, bytes, 0, w⟩ true) :
    lineCells cw res.1 = (if contAt R x then Row.putKeep R x bytes w cur else Row.put R x bytes w cur) ∧
    lineWF cw W res.1 = true ∧
    res.2.1 = (if contAt R x then headOf R x + widthAt R (headOf R x) - x else 0) := by
  subst hR
  obtain ⟨hwf, hsum, hwid⟩ := lineWF_iff.1 hl
  have hlen := length_lineCells hwf
  have hw : 0 < w := spanWF_pos hsp
  have hbne : bytes.isEmpty = false := by
    cases bytes with
    | nil => simp [clusters, clustersAux] at hcl
    | cons _ _ => rfl
  have hcc : spanCells cw ⟨cur, bytes, 0, w⟩ = charCells bytes w cur := by
    simp [spanCells, textCells, hcl, hbne]
  have hins : InsOK cw ⟨cur, bytes, 0, w⟩ := Or.inl hsp
  have hxn : x + w ≤ sumWidths l.spans := by omega
  obtain ⟨w1, w2, w3⟩ := replaceRangeWide_wf (x := x) (n := w) true hwf hxn hins (Or.inl hw) hb
  have hlcw : lineCellWidth (replaceRangeWide cw l x w ⟨cur, bytes, 0, w⟩ true).1 =
      sumWidths (replaceRangeWide cw l x w ⟨cur, bytes, 0, w⟩ true).1.spans := lineCellWidth_mk _
  by_cases hc : contAt (lineCells cw l) x = true
  · obtain ⟨k1, k2, _, _⟩ := replaceRangeWide_cells_keep hwf hxn hins (Or.inl hw) hc
    obtain ⟨e1, e2, e3⟩ := endOf_bounds_line hwf (by omega) hc
    simp only [] at k1 k2
    rw [hcc] at k1
    have hsw : sumWidths (replaceRangeWide cw l x w ⟨cur, bytes, 0, w⟩ true).1.spans =
        W + (headOf (lineCells cw l) x + widthAt (lineCells cw l) (headOf (lineCells cw l) x) - x) := by
      rw [← w3, k1]
      simp only [List.length_append, List.length_take, length_charCells _ _ hw, hlen]
      split
      · simp only [List.length_append, List.length_replicate, List.length_drop, hlen]; omega
      · have : ∀ r : Row, r.length = (lineCells cw l).length → (r.drop (x + w)).length = W - (x + w) := by
          intro r hr; rw [List.length_drop, hr, hlen, hsum]
        rw [this _ (by split <;> first | exact length_blk_aux _ _ _ | rfl)]
        omega
    have hgt : lineCellWidth (replaceRangeWide cw l x w ⟨cur, bytes, 0, w⟩ true).1 > W := by
      rw [hlcw, hsw]; omega
    have hres : res = (truncateLine cw (replaceRangeWide cw l x w ⟨cur, bytes, 0, w⟩ true).1 W cur,
        (replaceRangeWide cw l x w ⟨cur, bytes, 0, w⟩ true).2.shift, 0, W) := by
      simp only [hres0, writeSpanLine, hgt, if_true]
    have hl1 : lineWF cw (W + (headOf (lineCells cw l) x + widthAt (lineCells cw l) (headOf (lineCells cw l) x) - x))
        (replaceRangeWide cw l x w ⟨cur, bytes, 0, w⟩ true).1 = true :=
      lineWF_iff.2 ⟨w1, hsw, by rw [w2, hsw]⟩
    obtain ⟨t1, t2⟩ := truncateLine_refines hl1 hb cur (w := W) (by omega) (by omega)
    rw [hres]
    simp only [hc, if_true]
    refine ⟨?_, t2, k2⟩
    rw [t1, k1]
    simp only [Row.putKeep, hlen, hsum]
  · have hc' : contAt (lineCells cw l) x = false := by simpa using hc
    obtain ⟨k1, k2, _, _⟩ := replaceRangeWide_cells (keep := true) hwf hxn hins (Or.inl hw) (Or.inr hc')
    simp only [] at k1 k2
    rw [hcc] at k1
    have hsw : sumWidths (replaceRangeWide cw l x w ⟨cur, bytes, 0, w⟩ true).1.spans = W := by
      rw [← w3, k1]
      simp only [List.length_append, List.length_take, List.length_drop, length_charCells _ _ hw,
        length_blankStraddlers, hlen]
      omega
    have hgt : ¬ lineCellWidth (replaceRangeWide cw l x w ⟨cur, bytes, 0, w⟩ true).1 > W := by
      rw [hlcw, hsw]; omega
    have hres : res.1 = (replaceRangeWide cw l x w ⟨cur, bytes, 0, w⟩ true).1 ∧
        res.2.1 = (replaceRangeWide cw l x w ⟨cur, bytes, 0, w⟩ true).2.shift := by
      simp only [hres0, writeSpanLine, hgt, if_false, and_self]
    rw [hres.1, hres.2]
    simp only [hc', Bool.false_eq_true, if_false]
    refine ⟨?_, lineWF_iff.2 ⟨w1, hsw, by rw [w2, hsw]⟩, k2⟩
    rw [k1]
    unfold Row.put
    rw [setRange_eq _ _ _ (by
      rw [length_blankStraddlers, length_charCells _ _ hw, hlen]; omega), length_charCells _ _ hw]

/-- M4: one character written by `writeSpanAt(…, CRText)` is `Row.put`, or `Row.putKeep` when the
    cursor stands inside a wide character (which is kept; the text lands after it) -/
theorem writeChar_refines {cw : Nat → Nat} {W : Nat} {l : SLine} (hl : lineWF cw W l = true)
    (hb : cw 0x20 ≤ 1) (cur : Style) {x w : Nat} {bytes : Bytes}
    (hsp : spanWF cw ⟨cur, bytes, 0, w⟩ = true) (hcl : clusters cw bytes = [(bytes, w)])
    (hxw : x + w ≤ W) :
    let R := lineCells cw l
    let res := writeSpanLine cw W cur l x ⟨cur, bytes, 0, w⟩ true
    lineCells cw res.1 = (if contAt R x then Row.putKeep R x bytes w cur else Row.put R x bytes w cur) ∧
    lineWF cw W res.1 = true ∧
    res.2.1 = (if contAt R x then headOf R x + widthAt R (headOf R x) - x else 0) :=
  writeChar_refines_aux hl hb cur hsp hcl hxw _ rfl _ rfl

/-! ### `Line(y)` -/

/-- the text a cell contributes to `Line(y)` -/
def cellText (c : Cell) : Bytes :=
  match c.g with
  | .ch t _ => t
  | .cont => []

theorem cellText_charCells (b : Bytes) (w : Nat) (st : Style) :
    (charCells b w st).flatMap cellText = b := by
  have : ∀ n, (List.replicate n (⟨.cont, st⟩ : Cell)).flatMap cellText = [] := by
    intro n; induction n with
    | zero => rfl
    | succ n ih => simp [List.replicate_succ, cellText, ih]
  simp [charCells, cellText, this]

theorem cellText_cellsK (L : List K) : (cellsK L).flatMap cellText = L.flatMap (·.1.1) := by
  induction L with
  | nil => rfl
  | cons k r ih => simp [List.flatMap_append, cellText_charCells, ih]

/-- M4: `Line(y)` is the text of the cells (C02: all accessors describe the same text) -/
theorem lineText_refines {cw : Nat → Nat} {W : Nat} {l : SLine} (hl : lineWF cw W l = true) :
    lineText W l = (lineCells cw l).flatMap cellText := by
  obtain ⟨hwf, hsum, _⟩ := lineWF_iff.1 hl
  unfold lineText
  simp only [hsum, Nat.sub_self, List.replicate_zero, List.append_nil]
  rw [lineCells_eq, cellText_cellsK]
  clear hsum hl
  revert hwf
  generalize l.spans = S
  intro hwf
  induction S with
  | nil => rfl
  | cons sp r ih =>
    simp only [List.flatMap_cons, lineK_cons, List.flatMap_append]
    rw [ih hwf.tail]
    congr 1
    have hsp := hwf.head
    cases ht : sp.text.isEmpty
    · obtain ⟨_, hflat, _⟩ := spanWF_text hsp ht
      simp only [Bool.false_eq_true, if_false, spanK_text ht]
      conv => lhs; rw [hflat]
      generalize clusters cw sp.text = cs
      induction cs with
      | nil => rfl
      | cons c cs ih2 => simp [ih2]
    · simp only [if_true, spanK, spanCl, ht, List.map_replicate]
      generalize sp.width = n
      induction n with
      | zero => rfl
      | succ n ih2 => simp [List.replicate_succ, ih2]

/-! ### M2 as stated in the brief -/

/-- M2: the trivial cases of `splitSpan` -/
theorem splitSpan_trivial (cw : Nat → Nat) (sp : Span) (off : Nat) (h : off = 0 ∨ sp.width ≤ off) :
    splitSpan cw sp off = if off = 0 then (Span.empty, sp, Span.empty) else (sp, Span.empty, Span.empty) := by
  unfold splitSpan
  rcases h with h | h
  · simp [h]
  · by_cases h0 : off = 0
    · simp [h0]
    · simp [h0, h]

/-- M2: `splitSpan` at a column strictly inside a well-formed run, in terms of its cells -/
theorem splitSpan_cells {cw : Nat → Nat} {sp : Span} {off : Nat} (hwf : spanWF cw sp = true)
    (h0 : 0 < off) (h1 : off < sp.width) :
    let C := spanCells cw sp
    let l := (splitSpan cw sp off).1
    let r := (splitSpan cw sp off).2.1
    let wd := (splitSpan cw sp off).2.2
    (wd.width = 0 ↔ contAt C off = false) ∧
    (wd.width = 0 → spanCells cw l ++ spanCells cw r = C ∧ l.width = off ∧ r.width = sp.width - off ∧
      spanWF cw l = true ∧ spanWF cw r = true) ∧
    (wd.width > 0 → C = spanCells cw l ++ spanCells cw wd ++ spanCells cw r ∧
      l.width = headOf C off ∧ wd.width = widthAt C l.width ∧ wd.width > 1 ∧ l.width < off ∧
      off < l.width + wd.width ∧ spanWF cw wd = true ∧
      (spanWF cw l = true ∨ l.width = 0) ∧ (spanWF cw r = true ∨ r.width = 0)) := by
  intro C l r wd
  obtain ⟨l', r', wd', hs, hl1, hr1, hgl, hgr, hwsum, hcase⟩ := splitSpan_spec hwf h0 h1
  have el : l = l' := by simp only [l, hs]
  have er : r = r' := by simp only [r, hs]
  have ewd : wd = wd' := by simp only [wd, hs]
  rw [el, er, ewd]
  have hG := spanWF_G hwf
  have hposK := hG.posK
  have hor : ∀ s : Span, SpanG cw s → (spanWF cw s = true ∨ s.width = 0) := by
    intro s hg
    rcases Nat.eq_zero_or_pos s.width with h | h
    · exact Or.inr h
    · exact Or.inl (hg.2.2 h)
  rcases hcase with ⟨hwd, hlw, hK⟩ | ⟨A, p, B, htok, hl, hwd, hr, hwdw, hlt1, hlt2, hK⟩
  · have hpos : PosK (spanK cw l' ++ spanK cw r') := by rw [← hK]; exact hposK
    obtain ⟨b1, _, _, _, _⟩ := at_boundary hpos default
    rw [hgl.wk, hlw, ← hK, ← spanCells_eq] at b1
    have hw0 : wd'.width = 0 := by rw [hwd]; rfl
    refine ⟨⟨fun _ => b1, fun _ => hw0⟩, fun _ => ?_, fun h => by omega⟩
    refine ⟨?_, hlw, by rw [hw0] at hwsum; omega, hgl.2.2 (by omega), hgr.2.2 (by rw [hw0] at hwsum; omega)⟩
    simp only [C, spanCells_eq, hK, cellsK_append]
  · have hpos : PosK (spanK cw l' ++ (p, sp.sty) :: spanK cw r') := by rw [← hK]; exact hposK
    obtain ⟨b1, b2, b3, _, _, _⟩ := at_inside (k := (p, sp.sty)) hpos (x := off)
      (by rw [hgl.wk]; exact hlt1) (by rw [hgl.wk]; exact hlt2) default
    obtain ⟨_, _, c3⟩ := ev_inside (k := (p, sp.sty)) hpos (x := off)
      (by rw [hgl.wk]; exact hlt1) (by rw [hgl.wk]; exact hlt2)
    rw [← hK, ← spanCells_eq] at b1 b2 c3
    rw [hgl.wk] at b2 c3
    have hp2 : 1 < p.2 := by omega
    have hsingle : Toks cw [p] := Toks.single htok.right.head
    have hKwd : spanK cw wd' = [(p, sp.sty)] := by rw [hwd, spanK_sub sp hsingle]; rfl
    refine ⟨⟨fun h => by omega, fun h => by rw [b1] at h; cases h⟩, fun h => by omega, fun _ => ?_⟩
    refine ⟨?_, b2.symm, by rw [c3, hwdw], by omega, hlt1, by omega, ?_, hor _ hgl, hor _ hgr⟩
    · simp only [C, spanCells_eq, hK, hKwd, cellsK_append, cellsK_cons, cellsK_nil, List.append_nil,
        List.append_assoc]
    · rw [hwd]; exact (sub_spec sp hsingle).2.2.2 (by simp; omega)

/-- M4: the columns `writeSpanAt(…)` (not `CRText`) announces contain every changed cell, the row
    keeps its invariant and nothing is shifted -/
theorem writeSpanLine_false_announce {cw : Nat → Nat} {W : Nat} {l : SLine} (hl : lineWF cw W l = true)
    (hb : cw 0x20 ≤ 1) (cur : Style) {x : Nat} {sp : Span} (hsp : spanWF cw sp = true)
    (hxw : x + sp.width ≤ W) :
    let res := writeSpanLine cw W cur l x sp false
    lineWF cw W res.1 = true ∧ res.2.1 = 0 ∧
    lineCells cw res.1 =
      (blankStraddlers (lineCells cw l) x (x + sp.width) sp.sty).take x ++ spanCells cw sp ++
      (blankStraddlers (lineCells cw l) x (x + sp.width) sp.sty).drop (x + sp.width) ∧
    ∀ i, (i < res.2.2.1 ∨ res.2.2.2 ≤ i) → (lineCells cw res.1)[i]? = (lineCells cw l)[i]? := by
  intro res
  obtain ⟨hwf, hsum, hwid⟩ := lineWF_iff.1 hl
  have hlen := length_lineCells hwf
  have hw := spanWF_pos hsp
  have hins : InsOK cw sp := Or.inl hsp
  have hxn : x + sp.width ≤ sumWidths l.spans := by omega
  obtain ⟨h1, h2, h3, h4, h5⟩ := rrw_false (x := x) (n := sp.width) hwf hxn hins (Or.inl hw) hb
  obtain ⟨_, k2, k3, k4⟩ := replaceRangeWide_cells (keep := false) hwf hxn hins (Or.inl hw) (Or.inl rfl)
  try simp only [] at k2 k3 k4
  have hnot : ¬ lineCellWidth (replaceRangeWide cw l x sp.width sp false).1 > W := by
    rw [h5, h4]; omega
  have hres : res = ((replaceRangeWide cw l x sp.width sp false).1,
      (replaceRangeWide cw l x sp.width sp false).2.shift,
      x - (replaceRangeWide cw l x sp.width sp false).2.startFill,
      x + sp.width + (replaceRangeWide cw l x sp.width sp false).2.endFill) := by
    simp only [res, writeSpanLine, hnot, if_false]
  rw [hres]
  refine ⟨lineWF_iff.2 ⟨h2, by rw [h4]; omega, by rw [h3, h4]; omega⟩, k2, h1, ?_⟩
  intro i hi
  simp only [] at hi
  obtain ⟨s1, s2⟩ := straddle_line hwf (Nat.le_add_right x sp.width) hxn sp.sty
  rw [h1, s1, s2]
  have hlt : (takeB (lineCells cw l) x sp.sty).length = x := by
    rw [lineCells_eq]; exact length_takeB (posK_lineK hwf) (by rw [wk_lineK hwf]; omega) _
  have hli := length_spanCells hins.spanG
  rcases hi with hi | hi
  · -- left of the announced columns
    have hih : i < headOf (lineCells cw l) x := by
      rw [k3] at hi
      split at hi
      · rename_i hc
        have := (endOf_bounds_line hwf (by omega) hc).2.2
        omega
      · rename_i hc
        rw [headOf_of_not_cont (by simpa using hc)]; omega
    have hhx : headOf (lineCells cw l) x ≤ x := by
      by_cases hc : contAt (lineCells cw l) x = true
      · exact Nat.le_of_lt (endOf_bounds_line hwf (by omega) hc).2.2
      · rw [headOf_of_not_cont (by simpa using hc)]; exact Nat.le_refl _
    rw [List.append_assoc, List.getElem?_append_left (by rw [hlt]; omega)]
    unfold takeB
    rw [List.getElem?_append_left (by rw [List.length_take, hlen]; omega), List.getElem?_take]
    simp [hih]
  · -- right of the announced columns
    have hie : endOf (lineCells cw l) (x + sp.width) ≤ i ∧
        x + sp.width ≤ endOf (lineCells cw l) (x + sp.width) := by
      rw [k4] at hi
      unfold endOf
      split at hi
      · rename_i hc
        have := (endOf_bounds_line hwf hxn hc).1
        simp only [hc, if_true]; omega
      · rename_i hc
        simp only [hc, Bool.false_eq_true, if_false]; omega
    rw [List.getElem?_append_right (by rw [List.length_append, hlt, hli]; omega),
      List.length_append, hlt, hli]
    unfold dropB
    rw [List.getElem?_append_right (by rw [List.length_replicate]; omega), List.length_replicate,
      List.getElem?_drop]
    congr 1; omega

/-! ### M3: a range that reaches beyond the row is clamped -/

theorem scanEnd_none (xn : Nat) : ∀ (T : List Span) (i0 pos0 : Nat),
    pos0 + sumWidths T < xn → scanEnd xn T i0 pos0 = (none, pos0 + sumWidths T) := by
  intro T
  induction T with
  | nil => intro i0 pos0 _; rfl
  | cons sp r ih =>
    intro i0 pos0 h
    simp only [sumWidths_cons] at h
    have hc : ¬ xn ≤ pos0 + sp.width := by omega
    simp only [scanEnd, hc, if_false, sumWidths_cons]
    rw [ih _ _ (by omega), Nat.add_assoc]

theorem rrs_beyond {cw : Nat → Nat} {S : List Span} (hwf : AllWF cw S) (hS : S ≠ []) {x : Nat}
    (hx : sumWidths S ≤ x) (n : Nat) (ins : Span) (keep : Bool) :
    replaceRangeSpans cw S x n ins keep = ((if ins.width > 0 then S ++ [ins] else S), {}) := by
  have hSe : S.isEmpty = false := by
    cases S with
    | nil => exact absurd rfl hS
    | cons _ _ => rfl
  have hW : 0 < sumWidths S := by
    rcases Nat.eq_zero_or_pos (sumWidths S) with h | h
    · exact absurd (sumWidths_zero hwf h) hS
    · exact h
  have hs : scanStart x S 0 0 = (none, sumWidths S) := by
    have := scanStart_none x S 0 0 (by omega); simpa using this
  unfold replaceRangeSpans
  by_cases hg : n = 0 ∧ ins.width = 0
  · simp [hg]
  · have c3 : ¬ (if x > sumWidths S then sumWidths S else x) = 0 := by split <;> omega
    simp only [hg, hSe, hs, c3, if_false, Bool.false_eq_true, false_and, if_true]

theorem rrs_unfold_over (cw : Nat → Nat) (S : List Span) (x n : Nat) (ins : Span) (keep : Bool)
    (i pos : Nat) (hS : S.isEmpty = false)
    (hs : scanStart x S 0 0 = (some (i, pos), pos))
    (he : scanEnd (x + n) (S.drop i) i pos = (none, sumWidths S))
    (hx : x < sumWidths S) (hxn : x + n > sumWidths S) :
    replaceRangeSpans cw S x n ins keep =
      rrsBody cw S x (sumWidths S - x) ins keep i pos (S.length - 1)
        (S.getD (S.length - 1) Span.empty).width := by
  have c1 : ¬ x > sumWidths S := by omega
  have hne : ¬ (n = 0 ∧ ins.width = 0) := by omega
  unfold replaceRangeSpans
  simp only [hne, hS, hs, he, c1, hxn, if_false, if_true, Bool.false_eq_true, decide_true, leftPart,
    rightPart, midOf, rrsBody]

/-- M3: a range reaching beyond the end of the row is clamped to the row: the splice with
    `x + n > W` is the splice with `x := min x W`, `n := W - min x W` -/
theorem replaceRangeSpans_clamp {cw : Nat → Nat} {S : List Span} (hwf : AllWF cw S) {x n : Nat}
    (hxn : x + n > sumWidths S) (ins : Span) (keep : Bool) :
    replaceRangeSpans cw S x n ins keep =
      replaceRangeSpans cw S (min x (sumWidths S)) (sumWidths S - min x (sumWidths S)) ins keep := by
  by_cases hS : S = []
  · subst hS
    unfold replaceRangeSpans
    by_cases hi : ins.width = 0 <;> simp [hi]
  by_cases hx : sumWidths S ≤ x
  · rw [Nat.min_eq_right hx, rrs_beyond hwf hS hx, rrs_beyond hwf hS (Nat.le_refl _)]
  · have hx' : x < sumWidths S := by omega
    rw [Nat.min_eq_left (by omega)]
    have hSe : S.isEmpty = false := by
      cases S with
      | nil => exact absurd rfl hS
      | cons _ _ => rfl
    obtain ⟨S1, sp, S2, hSeq, hscan, hp1, hp2⟩ := scanStart_some x S 0 0 (Nat.zero_le _) (by omega)
    simp only [Nat.zero_add] at hscan hp1 hp2
    have hdrop : S.drop S1.length = sp :: S2 := by rw [hSeq]; exact drop_mid0 S1 (sp :: S2)
    have hsumS : sumWidths S = sumWidths S1 + sumWidths (sp :: S2) := by rw [hSeq]; simp
    -- the original call: the second scan runs off the row
    have heL : scanEnd (x + n) (S.drop S1.length) S1.length (sumWidths S1) = (none, sumWidths S) := by
      rw [hdrop, hsumS]; exact scanEnd_none _ _ _ _ (by omega)
    rw [rrs_unfold_over cw S x n ins keep S1.length (sumWidths S1) hSe hscan heL hx' hxn]
    -- the clamped call: the second scan stops in the last run
    obtain ⟨T1, esp, T2, hTeq, hscanE, hq1, hq2⟩ :=
      scanEnd_some (x + (sumWidths S - x)) (sp :: S2) S1.length (sumWidths S1) (by simp) (by omega)
    have hSeq2 : S = (S1 ++ T1) ++ esp :: T2 := by rw [hSeq, hTeq]; simp
    have hT2 : T2 = [] := by
      have hwfT2 : AllWF cw T2 := by rw [hSeq2] at hwf; exact hwf.right.tail
      apply sumWidths_zero hwfT2
      have : sumWidths S = sumWidths S1 + sumWidths T1 + esp.width + sumWidths T2 := by
        rw [hSeq2]; simp; omega
      omega
    subst hT2
    have hlen : S.length - 1 = S1.length + T1.length := by rw [hSeq2]; simp
    have hgj : S.getD (S1.length + T1.length) Span.empty = esp := by
      rw [hSeq2, ← List.length_append]; exact getD_mid ..
    have hsw : sumWidths S = sumWidths S1 + sumWidths T1 + esp.width := by rw [hSeq2]; simp; omega
    have hne : ¬ (sumWidths S - x = 0 ∧ ins.width = 0) := by omega
    rw [rrs_unfold cw S x (sumWidths S - x) ins keep S1.length (sumWidths S1) (S1.length + T1.length)
      (x + (sumWidths S - x) - (sumWidths S1 + sumWidths T1)) (sumWidths S1 + sumWidths T1 + esp.width)
      hne hSe hscan (by rw [hdrop]; exact hscanE) hq2]
    rw [hlen, hgj]
    congr 1
    omega

/-- the same for `replaceRangeWide` -/
theorem replaceRangeWide_clamp {cw : Nat → Nat} {l : SLine} (hwf : AllWF cw l.spans) {x n : Nat}
    (hxn : x + n > sumWidths l.spans) (ins : Span) (keep : Bool) :
    replaceRangeWide cw l x n ins keep =
      replaceRangeWide cw l (min x (sumWidths l.spans))
        (sumWidths l.spans - min x (sumWidths l.spans)) ins keep := by
  unfold replaceRangeWide
  rw [replaceRangeSpans_clamp hwf hxn]

/-! ### M1 as stated in the brief (for the original `textOK` / `spanOK`) -/

/-- M1: fuel irrelevance — any fuel of at least the number of bytes gives the same characters -/
theorem clustersAux_fuel_irrel (cw : Nat → Nat) : ∀ (n m : Nat) (buf : Bytes),
    buf.length ≤ n → buf.length ≤ m → clustersAux cw n buf = clustersAux cw m buf := by
  intro n
  induction n with
  | zero =>
    intro m buf hn _
    have : buf = [] := List.eq_nil_of_length_eq_zero (by omega)
    subst this
    cases m with
    | zero => rfl
    | succ m => simp [clustersAux, stepRune_nil]
  | succ n ih =>
    intro m buf hn hm
    cases m with
    | zero =>
      have : buf = [] := List.eq_nil_of_length_eq_zero (by omega)
      subst this
      simp [clustersAux, stepRune_nil]
    | succ m =>
      simp only [clustersAux]
      cases hst : stepRune cw buf with
      | none => rfl
      | some p =>
        obtain ⟨c, w⟩ := p
        have := stepRune_some hst
        simp only []
        rw [ih m (buf.drop c) (by rw [List.length_drop]; omega) (by rw [List.length_drop]; omega)]

theorem stepRune_ascii_cons (cw : Nat → Nat) (b : UInt8) (r : Bytes) (h : b < 0x80) :
    stepRune cw (b :: r) = some (1, max (cw b.toNat) 1) := by
  have hl : leadLen b = 1 := by simp [leadLen, h]
  rw [stepRune_eq]
  simp [fullRune, decodeRune, hl]

/-- M1: an ASCII text is one character per byte -/
theorem clusters_ascii (cw : Nat → Nat) (t : Bytes) (h : t.all (· < 0x80) = true) :
    clusters cw t = t.map fun b => ([b], max (cw b.toNat) 1) := by
  unfold clusters
  induction t with
  | nil => rfl
  | cons b r ih =>
    simp only [List.all_cons, Bool.and_eq_true, decide_eq_true_eq] at h
    simp only [List.length_cons, clustersAux, stepRune_ascii_cons cw b r h.1, List.map_cons,
      List.take_succ_cons, List.take_zero, List.drop_succ_cons, List.drop_zero]
    rw [ih h.2]

theorem clustersAux_width_pos (cw : Nat → Nat) : ∀ (n : Nat) (buf : Bytes),
    ∀ p ∈ clustersAux cw n buf, 1 ≤ p.2 := by
  intro n
  induction n with
  | zero => intro buf p hp; simp [clustersAux] at hp
  | succ n ih =>
    intro buf p hp
    simp only [clustersAux] at hp
    cases hst : stepRune cw buf with
    | none => rw [hst] at hp; simp at hp
    | some q =>
      obtain ⟨c, w⟩ := q
      rw [hst] at hp
      simp only [List.mem_cons] at hp
      rcases hp with rfl | hp
      · exact (stepRune_some hst).2.2.1
      · exact ih _ p hp

/-- M1: a text has as many cells as the widths of its characters sum to -/
theorem length_textCells (cw : Nat → Nat) (t : Bytes) (st : Style) :
    (textCells cw t st).length = ((clusters cw t).map (·.2)).sum := by
  unfold textCells
  have hpos := clustersAux_width_pos cw t.length t
  unfold clusters
  generalize clustersAux cw t.length t = cs at hpos
  induction cs with
  | nil => rfl
  | cons c r ih =>
    have h1 := hpos c (List.mem_cons_self ..)
    simp only [List.flatMap_cons, List.length_append, List.map_cons, List.sum_cons]
    rw [ih (fun p hp => hpos p (List.mem_cons_of_mem _ hp)), length_charCells _ _ h1]

/-- M1: a run accepted by `spanOK` has as many cells as its width -/
theorem length_spanCells_spanOK {cw : Nat → Nat} {sp : Span} (h : spanOK cw sp = true) :
    (spanCells cw sp).length = sp.width := by
  unfold spanOK at h
  unfold spanCells
  cases ht : sp.text.isEmpty
  · simp only [ht, Bool.false_eq_true, if_false, Bool.and_eq_true, textOK, decide_eq_true_eq] at h ⊢
    rw [length_textCells]; exact h.2.2
  · simp

/-- M1: a row of `spanOK` runs has as many cells as the run widths sum to -/
theorem length_lineCells_spanOK {cw : Nat → Nat} {l : SLine} (h : l.spans.all (spanOK cw) = true) :
    (lineCells cw l).length = sumWidths l.spans := by
  unfold lineCells
  revert h
  generalize l.spans = S
  intro h
  induction S with
  | nil => rfl
  | cons sp r ih =>
    simp only [List.all_cons, Bool.and_eq_true] at h
    simp only [List.flatMap_cons, List.length_append, sumWidths_cons, ih h.2,
      length_spanCells_spanOK h.1]

/-! ## M5 — `StyledLine` -/

/-- what `StyledLine` shows of a list of characters that starts at column `p`, for the window
    `[x, x+w)`: characters inside the window; blanks (in the character's style) for the cells of
    a character cut by either edge -/
def clipK (x w : Nat) : List K → Nat → List K
  | [], _ => []
  | k :: r, p =>
    (if p + k.1.2 ≤ x ∨ x + w ≤ p then []
     else if x ≤ p ∧ p + k.1.2 ≤ x + w then [k]
     else blanksK (min (p + k.1.2) (x + w) - max p x) k.2) ++ clipK x w r (p + k.1.2)

theorem clipK_append (x w : Nat) : ∀ (A B : List K) (p : Nat),
    clipK x w (A ++ B) p = clipK x w A p ++ clipK x w B (p + wk A) := by
  intro A
  induction A with
  | nil => intro B p; simp [clipK]
  | cons k r ih => intro B p; simp [clipK, ih, Nat.add_assoc]

theorem clipK_before (x w : Nat) : ∀ (L : List K) (p : Nat), p + wk L ≤ x → clipK x w L p = [] := by
  intro L
  induction L with
  | nil => intro p _; rfl
  | cons k r ih =>
    intro p h
    simp only [wk_cons] at h
    have : p + k.1.2 ≤ x ∨ x + w ≤ p := Or.inl (by omega)
    simp only [clipK, this, if_true, List.nil_append]
    exact ih _ (by omega)

theorem clipK_after (x w : Nat) : ∀ (L : List K) (p : Nat), x + w ≤ p → clipK x w L p = [] := by
  intro L
  induction L with
  | nil => intro p _; rfl
  | cons k r ih =>
    intro p h
    have : p + k.1.2 ≤ x ∨ x + w ≤ p := Or.inr h
    simp only [clipK, this, if_true, List.nil_append]
    exact ih _ (by omega)

theorem clipK_inside (x w : Nat) : ∀ (L : List K) (p : Nat), PosK L → x ≤ p → p + wk L ≤ x + w →
    clipK x w L p = L := by
  intro L
  induction L with
  | nil => intro p _ _ _; rfl
  | cons k r ih =>
    intro p hL h1 h2
    have hk := hL.head
    simp only [wk_cons] at h2
    have c1 : ¬ (p + k.1.2 ≤ x ∨ x + w ≤ p) := by omega
    have c2 : x ≤ p ∧ p + k.1.2 ≤ x + w := by omega
    simp only [clipK, c1, c2, and_self, if_true, if_false, List.singleton_append]
    rw [ih _ hL.tail (by omega) (by omega)]

theorem clipK_zero (x : Nat) : ∀ (L : List K) (p : Nat), clipK x 0 L p = [] := by
  intro L
  induction L with
  | nil => intro p; rfl
  | cons k r ih =>
    intro p
    simp only [clipK, ih, List.append_nil, Nat.add_zero]
    split
    · rfl
    · split
      · omega
      · have : min (p + k.1.2) x - max p x = 0 := by omega
        rw [this]; rfl

theorem wk_clipK (x w : Nat) : ∀ (L : List K) (p : Nat), PosK L →
    wk (clipK x w L p) = min (p + wk L) (x + w) - max p x := by
  intro L
  induction L with
  | nil => intro p _; simp [clipK]; omega
  | cons k r ih =>
    intro p hL
    have hk := hL.head
    simp only [clipK, wk_append, ih _ hL.tail, wk_cons]
    split
    · simp; omega
    · split
      · simp; omega
      · simp; omega

/-- the part of `StyledLine` that shows a prefix of a run -/
def tailOf (cw : Nat → Nat) (sub : Span) (v : Nat) (sty : Style) : List Span :=
  if sub.width > v then
    (if (splitSpan cw sub v).1.width > 0 then [(splitSpan cw sub v).1] else []) ++
    (if (splitSpan cw sub v).2.2.width > 0 ∧ v > (splitSpan cw sub v).1.width then
      [blankSpan sty (v - (splitSpan cw sub v).1.width)] else [])
  else if sub.width > 0 then [sub] else []

theorem lineK_opt {cw : Nat → Nat} {sp : Span} (hg : SpanG cw sp) :
    lineK cw (if sp.width > 0 then [sp] else []) = spanK cw sp := by
  by_cases h : sp.width > 0
  · simp [h]
  · simp [h, hg.nil (by omega)]

theorem allWF_opt {cw : Nat → Nat} {sp : Span} (hg : SpanG cw sp) :
    AllWF cw (if sp.width > 0 then [sp] else []) := by
  by_cases h : sp.width > 0
  · simp only [h, if_true]; exact AllWF.cons (hg.2.2 h) (AllWF.nil cw)
  · simp only [h, if_false]; exact AllWF.nil cw

theorem tailOf_spec {cw : Nat → Nat} {sub : Span} (hg : SpanG cw sub) (v : Nat) (hb : cw 0x20 ≤ 1)
    {x w q : Nat} (hq : x ≤ q) (h1 : 0 < sub.width → sub.width ≤ v → q + sub.width ≤ x + w)
    (h2 : sub.width > v → (q + v = x + w ∨ (v = 0 ∧ x + w ≤ q))) :
    lineK cw (tailOf cw sub v sub.sty) = clipK x w (spanK cw sub) q ∧
    AllWF cw (tailOf cw sub v sub.sty) := by
  unfold tailOf
  by_cases hv : sub.width > v
  · simp only [hv, if_true]
    have hwf : spanWF cw sub = true := hg.2.2 (by omega)
    by_cases hv0 : v = 0
    · subst hv0
      have hqa : x + w ≤ q := by rcases h2 hv with h | h <;> omega
      simp only [splitSpan_zero, Span.empty, Nat.lt_irrefl, if_false, false_and, List.append_nil]
      exact ⟨(clipK_after x w _ q hqa).symm, AllWF.nil cw⟩
    · have hqv : q + v = x + w := by rcases h2 hv with h | h <;> omega
      obtain ⟨l, r, wd, hs, hl1, hr1, hgl, hgr, hwsum, hcase⟩ :=
        splitSpan_spec hwf (off := v) (by omega) hv
      simp only [hs]
      rcases hcase with ⟨hwd, hlw, hK⟩ | ⟨A, p, B, htok, hl, hwd, hr, hwdw, hlt1, hlt2, hK⟩
      · have hw0 : ¬ (wd.width > 0 ∧ v > l.width) := by rw [hwd]; simp [Span.empty]
        simp only [hw0, if_false, List.append_nil]
        refine ⟨?_, allWF_opt hgl⟩
        rw [lineK_opt hgl, hK, clipK_append, hgl.wk, hlw,
          clipK_inside x w _ q hgl.posK hq (by rw [hgl.wk]; omega),
          clipK_after x w _ _ (by omega), List.append_nil]
      · have hw1 : wd.width > 0 ∧ v > l.width := by omega
        simp only [hw1, and_self, if_true]
        constructor
        · rw [lineK_append, lineK_opt hgl, hK, clipK_append, hgl.wk,
            clipK_inside x w _ q hgl.posK hq (by rw [hgl.wk]; omega)]
          have c1 : ¬ (q + l.width + p.2 ≤ x ∨ x + w ≤ q + l.width) := by omega
          have c2 : ¬ (x ≤ q + l.width ∧ q + l.width + p.2 ≤ x + w) := by omega
          simp only [clipK, c1, c2, if_false, lineK_cons, lineK_nil, List.append_nil, spanK_blankSpan]
          rw [clipK_after x w _ _ (by omega), List.append_nil]
          congr 2
          · omega
        · exact (allWF_opt hgl).append
            (AllWF.cons (spanWF_blankSpan hb _ (by omega)) (AllWF.nil cw))
  · simp only [hv, if_false]
    refine ⟨?_, allWF_opt hg⟩
    rw [lineK_opt hg]
    by_cases h0 : sub.width = 0
    · rw [hg.nil h0]; rfl
    · exact (clipK_inside x w _ q hg.posK hq (by rw [hg.wk]; exact h1 (by omega) (by omega))).symm

/-- the blank cells `StyledLine` shows for a wide character cut by the left edge -/
def padOf (cw : Nat → Nat) (x w : Nat) (sp : Span) (pos : Nat) : Nat :=
  if (splitSpan cw sp (max pos x - pos)).2.2.width > 0 then
    min ((splitSpan cw sp (max pos x - pos)).1.width +
      (splitSpan cw sp (max pos x - pos)).2.2.width - (max pos x - pos))
      (min (pos + sp.width) (x + w) - max pos x) else 0

/-- what `StyledLine` makes of one run that meets the window -/
def styledRun (cw : Nat → Nat) (x w : Nat) (sp : Span) (pos : Nat) : List Span :=
  if min (pos + sp.width) (x + w) - max pos x > 0 then
    if max pos x - pos = 0 ∧ min (pos + sp.width) (x + w) - max pos x = sp.width then [sp] else
      (if (splitSpan cw sp (max pos x - pos)).2.2.width > 0 then
        [blankSpan sp.sty (padOf cw x w sp pos)] else []) ++
      tailOf cw (splitSpan cw sp (max pos x - pos)).2.1
        (min (pos + sp.width) (x + w) - max pos x - padOf cw x w sp pos) sp.sty
  else []

theorem styledLineAux_cons (cw : Nat → Nat) (x w : Nat) (sp : Span) (rest : List Span) (pos : Nat) :
    styledLineAux cw x w (sp :: rest) pos =
      if pos + sp.width ≤ x then styledLineAux cw x w rest (pos + sp.width)
      else if pos ≥ x + w then []
      else styledRun cw x w sp pos ++ styledLineAux cw x w rest (pos + sp.width) := by
  simp only [styledLineAux, styledRun, tailOf, padOf]
  rfl

theorem styledRun_spec {cw : Nat → Nat} {sp : Span} (hwf : spanWF cw sp = true) (hb : cw 0x20 ≤ 1)
    {x w pos : Nat} (h1 : x < pos + sp.width) (h2 : pos < x + w) :
    lineK cw (styledRun cw x w sp pos) = clipK x w (spanK cw sp) pos ∧
    AllWF cw (styledRun cw x w sp pos) := by
  have hG := spanWF_G hwf
  have hpw := spanWF_pos hwf
  unfold styledRun
  by_cases hw0 : min (pos + sp.width) (x + w) - max pos x > 0
  · simp only [hw0, if_true]
    by_cases hall : max pos x - pos = 0 ∧ min (pos + sp.width) (x + w) - max pos x = sp.width
    · simp only [hall, and_self, if_true]
      refine ⟨?_, AllWF.cons hwf (AllWF.nil cw)⟩
      rw [lineK_cons, lineK_nil, List.append_nil]
      exact (clipK_inside x w _ pos hG.posK (by omega) (by rw [hG.wk]; omega)).symm
    · simp only [hall, if_false]
      by_cases hoff : max pos x - pos = 0
      · -- the run starts inside the window and is cut by its right edge
        have hpad : padOf cw x w sp pos = 0 := by simp [padOf, hoff, splitSpan_zero, Span.empty]
        simp only [hoff, splitSpan_zero, hpad, Nat.sub_zero]
        have he : ¬ ((Span.empty).width > 0) := by simp [Span.empty]
        simp only [he, if_false, List.nil_append]
        exact tailOf_spec hG _ hb (x := x) (w := w) (q := pos) (by omega) (by omega) (by omega)
      · -- the run starts left of the window
        have hmx : max pos x = x := by omega
        have hpadE : padOf cw x w sp pos =
            if (splitSpan cw sp (x - pos)).2.2.width > 0 then
              min ((splitSpan cw sp (x - pos)).1.width + (splitSpan cw sp (x - pos)).2.2.width - (x - pos))
                (min (pos + sp.width) (x + w) - x) else 0 := by
          simp only [padOf, hmx]
        simp only [hmx] at hw0 hall hoff ⊢
        obtain ⟨l, r, wd, hs, hl1, hr1, hgl, hgr, hwsum, hcase⟩ :=
          splitSpan_spec hwf (off := x - pos) (by omega) (by omega)
        rcases hcase with ⟨hwd, hlw, hK⟩ | ⟨A, p, B, htok, hl, hwd, hr, hwdw, hlt1, hlt2, hK⟩
        · have hw0' : ¬ (wd.width > 0) := by rw [hwd]; simp [Span.empty]
          have hpad : padOf cw x w sp pos = 0 := by rw [hpadE]; simp only [hs, hw0', if_false]
          simp only [hs, hw0', if_false, hpad, Nat.sub_zero, List.nil_append]
          rw [hK, clipK_append, clipK_before x w _ pos (by rw [hgl.wk]; omega), List.nil_append,
            hgl.wk, ← hr1]
          exact tailOf_spec hgr _ hb (x := x) (w := w) (q := pos + l.width) (by omega) (by omega) (by omega)
        · have hw1 : wd.width > 0 := by omega
          have hpad : padOf cw x w sp pos =
              min (l.width + wd.width - (x - pos)) (min (pos + sp.width) (x + w) - x) := by
            rw [hpadE]; simp only [hs, hw1, if_true]
          simp only [hs, hw1, if_true]
          have c1 : ¬ (pos + l.width + p.2 ≤ x ∨ x + w ≤ pos + l.width) := by omega
          have c2 : ¬ (x ≤ pos + l.width ∧ pos + l.width + p.2 ≤ x + w) := by omega
          have hpv : padOf cw x w sp pos = min (pos + l.width + p.2) (x + w) - x := by
            rw [hpad]; omega
          have hts := tailOf_spec hgr (min (pos + sp.width) (x + w) - x - padOf cw x w sp pos) hb
            (x := x) (w := w) (q := pos + l.width + p.2) (by omega) (by rw [hpv]; omega) (by rw [hpv]; omega)
          rw [hr1] at hts
          constructor
          · rw [lineK_append, hts.1, hK, clipK_append, clipK_before x w _ pos (by rw [hgl.wk]; omega),
              List.nil_append, hgl.wk]
            simp only [clipK, c1, c2, if_false, lineK_cons, lineK_nil, List.append_nil, spanK_blankSpan]
            congr 2
            rw [hpv]; omega
          · exact (AllWF.cons (spanWF_blankSpan hb _ (by rw [hpv]; omega)) (AllWF.nil cw)).append hts.2
  · simp only [hw0, if_false]
    have hwz : w = 0 := by omega
    subst hwz
    exact ⟨(clipK_zero x _ pos).symm, AllWF.nil cw⟩

/-- M5 (runs): the runs of `StyledLine` are well formed and their characters are the row's
    characters clipped to the window -/
theorem styledLineAux_spec {cw : Nat → Nat} (hb : cw 0x20 ≤ 1) (x w : Nat) : ∀ (S : List Span) (pos : Nat),
    AllWF cw S →
    lineK cw (styledLineAux cw x w S pos) = clipK x w (lineK cw S) pos ∧
    AllWF cw (styledLineAux cw x w S pos) := by
  intro S
  induction S with
  | nil => intro pos _; exact ⟨rfl, AllWF.nil cw⟩
  | cons sp r ih =>
    intro pos hwf
    have hG := spanWF_G hwf.head
    rw [styledLineAux_cons, lineK_cons, clipK_append, hG.wk]
    by_cases h1 : pos + sp.width ≤ x
    · simp only [h1, if_true]
      rw [clipK_before x w _ pos (by rw [hG.wk]; exact h1), List.nil_append]
      exact ih _ hwf.tail
    · simp only [h1, if_false]
      by_cases h2 : pos ≥ x + w
      · simp only [h2, if_true]
        rw [clipK_after x w _ pos h2, clipK_after x w _ _ (by omega)]
        exact ⟨rfl, AllWF.nil cw⟩
      · simp only [h2, if_false]
        obtain ⟨r1, r2⟩ := styledRun_spec hwf.head hb (x := x) (w := w) (pos := pos) (by omega) (by omega)
        obtain ⟨i1, i2⟩ := ih (pos + sp.width) hwf.tail
        exact ⟨by rw [lineK_append, r1, i1], r2.append i2⟩

theorem posK_clipK (x w : Nat) : ∀ (L : List K) (p : Nat), PosK L → PosK (clipK x w L p) := by
  intro L
  induction L with
  | nil => intro p _; exact PosK.nil
  | cons k r ih =>
    intro p hL
    simp only [clipK]
    refine PosK.append ?_ (ih _ hL.tail)
    split
    · exact PosK.nil
    · split
      · exact PosK.cons hL.head PosK.nil
      · exact posK_blanksK _ _

/-- the cell `StyledLine(x, w, ·)` shows for column `i` of the row `R`: the cell itself when its
    character lies inside `[x, x+w)`, else a blank in the cell's style -/
def showCell (R : Row) (x w i : Nat) : Option Cell :=
  if x ≤ headOf R i ∧ headOf R i + widthAt R (headOf R i) ≤ x + w then R[i]?
  else (R[i]?).map fun c => blank c.sty

theorem locate_idx {L : List K} (hL : PosK L) {i : Nat} (hi : i < wk L) :
    ∃ A c B, L = A ++ c :: B ∧ wk A ≤ i ∧ i < wk A + c.1.2 := by
  rcases locate L hL i (by omega) with ⟨A, B, rfl, hA⟩ | ⟨A, c, B, rfl, h1, h2⟩
  · cases B with
    | nil => simp at hi; omega
    | cons c B =>
      have := hL.right.head
      exact ⟨A, c, B, rfl, by omega, by omega⟩
  · exact ⟨A, c, B, rfl, by omega, h2⟩

theorem getElem?_charCells_sty (b : Bytes) (w : Nat) (st : Style) {m : Nat} (hm : m < w) :
    ∃ g, (charCells b w st)[m]? = some ⟨g, st⟩ := by
  cases m with
  | zero => exact ⟨_, rfl⟩
  | succ m =>
    refine ⟨.cont, ?_⟩
    have : m < w - 1 := by omega
    simp [charCells, this]

theorem widthAt_head {A B : List K} {k : K} (h : PosK (A ++ k :: B)) :
    widthAt (cellsK (A ++ k :: B)) (wk A) = k.1.2 := by
  have hk : 1 ≤ k.1.2 := h.right.head
  have : (cellsK (A ++ k :: B))[wk A]? = some ⟨.ch k.1.1 k.1.2, k.2⟩ := by
    rw [cellsK_append, ← length_cellsK h.left, List.getElem?_append_right (Nat.le_refl _)]
    simp [charCells]
  simp only [widthAt, this]
  omega

/-- M5 (cells, character-list form): the `k`-th cell of the clipped characters -/
theorem cellsK_clipK_get {L : List K} (hL : PosK L) {x w : Nat} (hxw : x + w ≤ wk L) {k : Nat}
    (hk : k < w) : (cellsK (clipK x w L 0))[k]? = showCell (cellsK L) x w (x + k) := by
  obtain ⟨A, c, B, rfl, h1, h2⟩ := locate_idx hL (i := x + k) (by omega)
  have hc := hL.right.head
  have hlenA := length_cellsK hL.left
  -- the row side
  have hRi : (cellsK (A ++ c :: B))[x + k]? = (charCells c.1.1 c.1.2 c.2)[x + k - wk A]? := by
    rw [cellsK_append, cellsK_cons, List.getElem?_append_right (by rw [hlenA]; exact h1), hlenA,
      List.getElem?_append_left (by rw [length_charCells _ _ hc]; omega)]
  have hhead : headOf (cellsK (A ++ c :: B)) (x + k) = wk A := by
    by_cases he : x + k = wk A
    · rw [he]; exact headOf_of_not_cont (ev_boundary hL)
    · exact (ev_inside hL (x := x + k) (by omega) h2).2.1
  have hwid := widthAt_head hL
  -- the clipped side
  have hclip : clipK x w (A ++ c :: B) 0 = clipK x w A 0 ++
      ((if wk A + c.1.2 ≤ x ∨ x + w ≤ wk A then []
        else if x ≤ wk A ∧ wk A + c.1.2 ≤ x + w then [c]
        else blanksK (min (wk A + c.1.2) (x + w) - max (wk A) x) c.2) ++
       clipK x w B (wk A + c.1.2)) := by
    rw [clipK_append]; simp [clipK]
  have hlenC : (cellsK (clipK x w A 0)).length = wk A - x := by
    rw [length_cellsK (posK_clipK x w A 0 hL.left), wk_clipK x w A 0 hL.left]; omega
  have c1 : ¬ (wk A + c.1.2 ≤ x ∨ x + w ≤ wk A) := by omega
  rw [hclip, cellsK_append, List.getElem?_append_right (by rw [hlenC]; omega), hlenC]
  simp only [c1, if_false]
  unfold showCell
  rw [hhead, hwid, hRi]
  by_cases c2 : x ≤ wk A ∧ wk A + c.1.2 ≤ x + w
  · simp only [c2, and_self, if_true, cellsK_append, cellsK_cons, cellsK_nil, List.append_nil]
    rw [List.getElem?_append_left (by rw [length_charCells _ _ hc]; omega)]
    congr 1; omega
  · simp only [c2, if_false, cellsK_append, cellsK_blanksK]
    rw [List.getElem?_append_left (by rw [List.length_replicate]; omega)]
    obtain ⟨g, hg⟩ := getElem?_charCells_sty c.1.1 c.1.2 c.2 (m := x + k - wk A) (by omega)
    rw [hg, List.getElem?_replicate]
    have : k - (wk A - x) < min (wk A + c.1.2) (x + w) - max (wk A) x := by omega
    simp [this]

/-- M5: `StyledLine(x, w, y)` — its runs are well formed, their widths sum to the (clamped)
    width `w'`, they have `w'` cells, and the `k`-th cell is the row's cell `x + k` when its character
    lies inside the window and a blank in that cell's style otherwise -/
theorem styledLine_spec {cw : Nat → Nat} {W : Nat} {l : SLine} (hl : lineWF cw W l = true)
    (hb : cw 0x20 ≤ 1) {x : Nat} (hx : x ≤ W) (ow : Option Nat) :
    let sp := (styledLine cw W l x ow).1
    let w := (styledLine cw W l x ow).2
    w = (match ow with | some w0 => min w0 (W - x) | none => W - x) ∧
    AllWF cw sp ∧ sumWidths sp = w ∧ (sp.flatMap (spanCells cw)).length = w ∧
    ∀ k, k < w → (sp.flatMap (spanCells cw))[k]? = showCell (lineCells cw l) x w (x + k) := by
  intro sp w
  obtain ⟨hwf, hsum, _⟩ := lineWF_iff.1 hl
  have hwdef : w = (match ow with | some w0 => min w0 (W - x) | none => W - x) := by
    simp only [w, styledLine]
    cases ow with
    | none => rfl
    | some w0 => simp only []; split <;> omega
  have hxw : x + w ≤ W := by
    rw [hwdef]; cases ow with
    | none => simp only []; omega
    | some w0 => simp only []; omega
  have hsp : sp = styledLineAux cw x w l.spans 0 := rfl
  obtain ⟨a1, a2⟩ := styledLineAux_spec hb x w l.spans 0 hwf
  rw [← hsp] at a1 a2
  have hposL := posK_lineK hwf
  have hcells : sp.flatMap (spanCells cw) = cellsK (clipK x w (lineK cw l.spans) 0) := by
    have := lineCells_eq cw ⟨sp, 0⟩
    simp only [lineCells] at this
    rw [this, a1]
  have hwk : wk (clipK x w (lineK cw l.spans) 0) = w := by
    rw [wk_clipK x w _ 0 hposL, wk_lineK hwf, hsum]; omega
  refine ⟨hwdef, a2, ?_, ?_, ?_⟩
  · rw [← wk_lineK a2, a1, hwk]
  · rw [hcells, length_cellsK (posK_clipK x w _ 0 hposL), hwk]
  · intro k hk
    rw [hcells, lineCells_eq]
    exact cellsK_clipK_get hposL (by rw [wk_lineK hwf, hsum]; exact hxw) hk

/-! ### two more statements of the brief (M1 `clusters` of a concatenation, M2 one cell per byte) -/

theorem unit1_eq_map : ∀ (cs : List Cl), Unit1 cs → cs = (flat cs).map fun b => ([b], 1) := by
  intro cs
  induction cs with
  | nil => intro _; rfl
  | cons p r ih =>
    intro h
    obtain ⟨h1, h2⟩ := h p (List.mem_cons_self ..)
    obtain ⟨b, hb⟩ := List.length_eq_one_iff.1 h1
    have hp : p = ([b], 1) := by
      cases p with
      | mk p1 p2 => simp only at hb h2; rw [hb, h2]
    rw [flat_cons, hb, List.singleton_append, List.map_cons, ← ih h.tail, hp]

/-- M2: in a well-formed run with `oneCellPerByte` every byte is a character of width exactly 1
    (whatever `cw` says about ASCII) -/
theorem oneCellPerByte_clusters {cw : Nat → Nat} {sp : Span} (hwf : spanWF cw sp = true)
    (ht : sp.text.isEmpty = false) (h : oneCellPerByte sp = true) :
    clusters cw sp.text = sp.text.map fun b => ([b], 1) := by
  obtain ⟨htok, hflat, hws⟩ := spanWF_text hwf ht
  obtain ⟨ha1, ha2⟩ := (oneCellPerByte_iff sp).1 h
  have hu : Unit1 (clusters cw sp.text) :=
    unit1_of_ascii htok (by rw [← hflat]; exact ha2) (by rw [← hflat, hws]; exact ha1)
  have := unit1_eq_map _ hu
  rw [← hflat] at this
  exact this

/-- M1: the characters of `a ++ b` are those of `a` followed by those of `b` when `a` tokenises
    completely (only `textOK` is needed here) -/
theorem clusters_append (cw : Nat → Nat) : ∀ (n : Nat) (a b : Bytes), a.length ≤ n →
    ((clustersAux cw n a).map (·.1.length)).sum = a.length →
    clusters cw (a ++ b) = clustersAux cw n a ++ clusters cw b := by
  intro n
  induction n with
  | zero =>
    intro a b hn _
    have : a = [] := List.eq_nil_of_length_eq_zero (by omega)
    subst this; simp [clustersAux]
  | succ n ih =>
    intro a b hn hsum
    by_cases ha : a = []
    · subst ha; simp [clustersAux, stepRune_nil]
    · simp only [clustersAux] at hsum ⊢
      cases hst : stepRune cw a with
      | none =>
        rw [hst] at hsum
        simp at hsum
        exact absurd (List.eq_nil_of_length_eq_zero hsum.symm) ha
      | some p =>
        obtain ⟨c, w⟩ := p
        have hb := stepRune_some hst
        rw [hst] at hsum
        simp only [List.map_cons, List.sum_cons, List.length_take] at hsum
        rw [Nat.min_eq_left hb.2.1] at hsum
        have hrec := ih (a.drop c) b (by rw [List.length_drop]; omega) (by rw [List.length_drop]; omega)
        have hlen : (a ++ b).length = ((a ++ b).length - 1) + 1 := by
          rw [List.length_append]; omega
        unfold clusters at hrec ⊢
        rw [hlen]
        simp only [clustersAux, stepRune_append b hst, List.cons_append]
        rw [List.take_append_of_le_length hb.2.1, List.drop_append_of_le_length hb.2.1]
        congr 1
        rw [← hrec]
        exact clustersAux_fuel_irrel cw _ _ _ (by simp; omega) (Nat.le_refl _)

theorem clusters_append_textOK {cw : Nat → Nat} {a : Bytes} {w : Nat} (h : textOK cw a w = true)
    (b : Bytes) : clusters cw (a ++ b) = clusters cw a ++ clusters cw b := by
  unfold textOK at h
  simp only [Bool.and_eq_true, decide_eq_true_eq] at h
  exact clusters_append cw a.length a b (Nat.le_refl _) h.1

/-- M4: an empty erase range leaves the row alone, on both levels -/
theorem eraseLine_empty (cw : Nat → Nat) (W : Nat) (cur : Style) (l : SLine) {a b : Nat} (h : b ≤ a) :
    eraseLine cw W cur l a b = l ∧ Row.erase (lineCells cw l) a b cur = lineCells cw l := by
  constructor
  · simp [eraseLine, h]
  · unfold Row.erase
    have : a ≥ min b (lineCells cw l).length := by omega
    simp only [this, if_true]

-- ENDING
/-! ## the finding about `lineOK`, non-vacuity, axioms -/

/-- `lineOK` of `TM/SpanLine.lean` is NOT preserved by `eraseLine`: the text `[0xE4, 0x41]` (an
    invalid lead byte and an `A`) is accepted as two one-cell characters, but after erasing the
    second cell the run `[0xE4]` (width 1) is left, which tokenises to nothing. -/
theorem lineOK_not_preserved :
    ∃ (cw : Nat → Nat) (W : Nat) (cur : Style) (l : SLine) (a b : Nat),
      lineOK cw W l = true ∧ a < b ∧ b ≤ W ∧ lineOK cw W (eraseLine cw W cur l a b) = false ∧
      (lineCells cw (eraseLine cw W cur l a b)).length ≠ W :=
  ⟨fun _ => 1, 2, ⟨0#32, 0#32, 0#32⟩, ⟨[⟨⟨0#32, 0#32, 0#32⟩, [0xE4, 0x41], 0, 2⟩], 2⟩, 1, 2,
    by decide, by decide, by decide, by decide, by decide⟩

/-- a width function for the examples: CJK and beyond are two cells wide -/
def cwEx : Nat → Nat := fun c => if c ≥ 0x1100 then 2 else 1
def stEx : Style := ⟨0#32, 0#32, 0#32⟩
/-- a row with a wide character and ASCII in one run, a one-cell-per-byte run and a blank run -/
def rowEx : SLine :=
  ⟨[⟨stEx, [0xe4, 0xb8, 0xad, 0x61, 0x62], 0, 4⟩, ⟨stEx, [0x78, 0x79], 0, 2⟩, blankSpan stEx 3], 9⟩

example : lineWF cwEx 9 rowEx = true := by decide
example : cwEx 0x20 ≤ 1 := by decide
example : contAt (lineCells cwEx rowEx) 1 = true := by decide
-- the hypotheses of `writeChar_refines` for a wide character written inside the wide character
example : spanWF cwEx ⟨stEx, [0xe4, 0xb8, 0xad], 0, 2⟩ = true ∧
    clusters cwEx [0xe4, 0xb8, 0xad] = [([0xe4, 0xb8, 0xad], 2)] ∧ 1 + 2 ≤ 9 := by decide
-- erasing from inside the wide character
example : lineCells cwEx (eraseLine cwEx 9 stEx rowEx 1 3) = Row.erase (lineCells cwEx rowEx) 1 3 stEx := by
  decide
example : InsOK cwEx (blankSpan stEx 2) := Or.inl (by decide)
-- `StyledLine(1, 4, ·)`: the window cuts the wide character at its left edge
example : ((styledLine cwEx 9 rowEx 1 (some 4)).1.flatMap (spanCells cwEx))[0]? =
    some (blank stEx) := by decide
example : ((styledLine cwEx 9 rowEx 1 (some 4)).1.flatMap (spanCells cwEx))[1]? =
    (lineCells cwEx rowEx)[2]? := by decide

#print axioms TM.C02Span.stepRune_append
#print axioms TM.C02Span.clustersAux_fuel_irrel
#print axioms TM.C02Span.clusters_flat
#print axioms TM.C02Span.clusters_ascii
#print axioms TM.C02Span.clusters_append_textOK
#print axioms TM.C02Span.length_lineCells_spanOK
#print axioms TM.C02Span.splitSpan_trivial
#print axioms TM.C02Span.splitSpan_cells
#print axioms TM.C02Span.splitSpan_spec
#print axioms TM.C02Span.oneCellPerByte_clusters
#print axioms TM.C02Span.splice_spec
#print axioms TM.C02Span.straddle
#print axioms TM.C02Span.replaceRangeWide_cells
#print axioms TM.C02Span.replaceRangeWide_cells_keep
#print axioms TM.C02Span.replaceRangeWide_wf
#print axioms TM.C02Span.replaceRangeWide_noop
#print axioms TM.C02Span.replaceRangeWide_clamp
#print axioms TM.C02Span.blankSpanLine_refines
#print axioms TM.C02Span.eraseLine_refines
#print axioms TM.C02Span.eraseLine_empty
#print axioms TM.C02Span.deleteCharsLine_refines
#print axioms TM.C02Span.truncateLine_refines
#print axioms TM.C02Span.resizeLine_refines
#print axioms TM.C02Span.writeChar_refines
#print axioms TM.C02Span.writeSpanLine_false_announce
#print axioms TM.C02Span.lineText_refines
#print axioms TM.C02Span.styledLineAux_spec
#print axioms TM.C02Span.styledLine_spec
#print axioms TM.C02Span.lineOK_not_preserved

end TM.C02Span
