import TM.Keys
/-!
# C12 — key events are written to the application in the form the active mode requires

Model: `TM.Keys` (`keys.go`: `encodeKey`, `encodeKittyKey`, `encodeLegacyKey`).
Specification: written here from `/repo/keyboard-protocol.rst` —
* `Kitty.functionalTable`, `Kitty.legacyCompatTable`, `Kitty.c0Table`: the "functional key
  table" of the document as literal lists (key-code index → protocol number / final byte);
* `Kitty.decode`: an independent decoder for the three escape-code forms of the document,
  `CSI number[:shifted[:base]] [; mods[:event] [; text(:text)*]] u`,
  `CSI [1 ; mods[:event]] letter` and `CSI number [; mods[:event]] ~`;
* `Kitty.expected`: what an application must be able to read back from the bytes under a
  given flag set (key number, final byte, modifier mask, event type, alternates, text).

All statements are for every key code (any `Nat`, not just `< 112`), every modifier mask (any
`Nat`), every rune / alternate / text code point (unbounded), every flag set and every
modifyOtherKeys level.
-/
namespace TM.C12
open TM

/-! ## A. Specification from the protocol document -/
namespace Kitty

/-- "Functional key codes" that are sent as `CSI number u` with a number from the Unicode
private use area, in the order of the document (key-code index of `keys.go` → number). -/
def functionalTable : List (Nat × Nat) := [
  -- CAPS_LOCK SCROLL_LOCK NUM_LOCK PRINT_SCREEN PAUSE MENU
  (50, 57358), (51, 57359), (52, 57360), (53, 57361), (54, 57362), (55, 57363),
  -- F13 … F35
  (27, 57376), (28, 57377), (29, 57378), (30, 57379), (31, 57380), (32, 57381),
  (33, 57382), (34, 57383), (35, 57384), (36, 57385), (37, 57386), (38, 57387),
  (39, 57388), (40, 57389), (41, 57390), (42, 57391), (43, 57392), (44, 57393),
  (45, 57394), (46, 57395), (47, 57396), (48, 57397), (49, 57398),
  -- KP_0 … KP_9
  (56, 57399), (57, 57400), (58, 57401), (59, 57402), (60, 57403), (61, 57404),
  (62, 57405), (63, 57406), (64, 57407), (65, 57408),
  -- KP_DECIMAL KP_DIVIDE KP_MULTIPLY KP_SUBTRACT KP_ADD KP_ENTER KP_EQUAL KP_SEPARATOR
  (66, 57409), (67, 57410), (68, 57411), (69, 57412), (70, 57413), (71, 57414),
  (72, 57415), (73, 57416),
  -- KP_LEFT KP_RIGHT KP_UP KP_DOWN KP_PAGE_UP KP_PAGE_DOWN KP_HOME KP_END KP_INSERT KP_DELETE KP_BEGIN
  (74, 57417), (75, 57418), (76, 57419), (77, 57420), (78, 57421), (79, 57422),
  (80, 57423), (81, 57424), (82, 57425), (83, 57426), (84, 57427),
  -- MEDIA_PLAY MEDIA_PAUSE MEDIA_PLAY_PAUSE MEDIA_REVERSE MEDIA_STOP MEDIA_FAST_FORWARD MEDIA_REWIND
  (85, 57428), (86, 57429), (87, 57430), (88, 57431), (89, 57432), (90, 57433), (91, 57434),
  -- MEDIA_TRACK_NEXT MEDIA_TRACK_PREVIOUS MEDIA_RECORD LOWER_VOLUME RAISE_VOLUME MUTE_VOLUME
  (92, 57435), (93, 57436), (94, 57437), (95, 57438), (96, 57439), (97, 57440),
  -- LEFT_SHIFT LEFT_CONTROL LEFT_ALT LEFT_SUPER LEFT_HYPER LEFT_META
  (98, 57441), (99, 57442), (100, 57443), (101, 57444), (102, 57445), (103, 57446),
  -- RIGHT_SHIFT RIGHT_CONTROL RIGHT_ALT RIGHT_SUPER RIGHT_HYPER RIGHT_META
  (104, 57447), (105, 57448), (106, 57449), (107, 57450), (108, 57451), (109, 57452),
  -- ISO_LEVEL3_SHIFT ISO_LEVEL5_SHIFT
  (110, 57453), (111, 57454)]

/-- The keys whose Kitty encoding keeps the legacy final byte: `CSI 1 letter` or `CSI number ~`
(key-code index → (number, final byte)). F3 is `13 ~` only (`CSI R` was removed from the
document), KP_BEGIN is `57427 ~`. -/
def legacyCompatTable : List (Nat × (Nat × UInt8)) := [
  (1, (1, 0x41)),      -- UP        1 A
  (2, (1, 0x42)),      -- DOWN      1 B
  (3, (1, 0x43)),      -- RIGHT     1 C
  (4, (1, 0x44)),      -- LEFT      1 D
  (5, (1, 0x48)),      -- HOME      1 H
  (6, (1, 0x46)),      -- END       1 F
  (7, (2, 0x7e)),      -- INSERT    2 ~
  (8, (3, 0x7e)),      -- DELETE    3 ~
  (9, (5, 0x7e)),      -- PAGE_UP   5 ~
  (10, (6, 0x7e)),     -- PAGE_DOWN 6 ~
  (15, (1, 0x50)),     -- F1        1 P
  (16, (1, 0x51)),     -- F2        1 Q
  (17, (13, 0x7e)),    -- F3        13 ~
  (18, (1, 0x53)),     -- F4        1 S
  (19, (15, 0x7e)),    -- F5        15 ~
  (20, (17, 0x7e)),    -- F6        17 ~
  (21, (18, 0x7e)),    -- F7        18 ~
  (22, (19, 0x7e)),    -- F8        19 ~
  (23, (20, 0x7e)),    -- F9        20 ~
  (24, (21, 0x7e)),    -- F10       21 ~
  (25, (23, 0x7e)),    -- F11       23 ~
  (26, (24, 0x7e)),    -- F12       24 ~
  (84, (57427, 0x7e))] -- KP_BEGIN  57427 ~

/-- ESCAPE `27 u`, ENTER `13 u`, TAB `9 u`, BACKSPACE `127 u` -/
def c0Table : List (Nat × Nat) := [(14, 27), (13, 13), (12, 9), (11, 127)]

/-- protocol identity (number, final byte) of a non-text key code -/
def keyOfCode (c : Nat) : Option (Nat × UInt8) :=
  match legacyCompatTable.lookup c with
  | some p => some p
  | none =>
    match c0Table.lookup c with
    | some n => some (n, 0x75)
    | none => (functionalTable.lookup c).map fun n => (n, 0x75)

/-- protocol identity of the key of an event: text keys are their (unshifted) code point with
final `u`; a text key without code point has no identity -/
def keyId (ev : KeyEv) : Option (Nat × UInt8) :=
  if ev.code = 0 then (if ev.rune = 0 then none else some (ev.rune, 0x75)) else keyOfCode ev.code

/-! ### decoder -/

/-- split at every `sep` (always returns at least one field) -/
def splitOn (sep : UInt8) : Bytes → List Bytes
  | [] => [[]]
  | b :: rest =>
    if b = sep then [] :: splitOn sep rest
    else match splitOn sep rest with
      | [] => [[b]]
      | f :: fs => (b :: f) :: fs

/-- value of a decimal digit string -/
def digitsVal (ds : Bytes) : Nat := ds.foldl (fun a d => a * 10 + (d.toNat - 48)) 0

/-- a sub-field: empty (`none`, i.e. default) or a decimal number; anything else is malformed -/
def parseSub (f : Bytes) : Option (Option Nat) :=
  if f.isEmpty then some none
  else if f.all isDigit then some (some (digitsVal f)) else none

def allSome {α : Type} : List (Option α) → Option (List α)
  | [] => some []
  | none :: _ => none
  | some a :: r => (allSome r).map (a :: ·)

/-- a `;`-separated field = `:`-separated sub-fields -/
def parseField (f : Bytes) : Option (List (Option Nat)) := allSome ((splitOn 0x3a f).map parseSub)

def parseParams (body : Bytes) : Option (List (List (Option Nat))) :=
  allSome ((splitOn 0x3b body).map parseField)

structure Decoded where
  number : Nat               -- unicode-key-code / functional number / `1` for the letter form
  shifted : Option Nat       -- alternate keys
  base : Option Nat
  mods : Nat                 -- modifier MASK (= transmitted value - 1)
  event : Nat                -- 1 press, 2 repeat, 3 release
  text : List Nat            -- associated text as code points
  final : UInt8              -- `u`, `~` or one of the letters
deriving DecidableEq, Repr

/-- `unicode-key-code[:shifted-key[:base-layout-key]]` -/
def parseKey : List (Option Nat) → Option (Nat × Option Nat × Option Nat)
  | [some n] => some (n, none, none)
  | [some n, some s] => some (n, some s, none)
  | [some n, s, some b] => some (n, s, some b)
  | _ => none

/-- `modifiers[:event-type]`: the modifier value is `1 + mask` (default 1), the event type is
1, 2 or 3 (default 1) -/
def parseMods : List (Option Nat) → Option (Nat × Nat)
  | [m] => if 1 ≤ m.getD 1 then some (m.getD 1 - 1, 1) else none
  | [m, some e] => if 1 ≤ m.getD 1 ∧ 1 ≤ e ∧ e ≤ 3 then some (m.getD 1 - 1, e) else none
  | _ => none

/-- finals of the `CSI 1 ; mods letter` form: A B C D E F H P Q S -/
def isLetterFinal (b : UInt8) : Bool :=
  b == 0x41 || b == 0x42 || b == 0x43 || b == 0x44 || b == 0x45 || b == 0x46 || b == 0x48 ||
  b == 0x50 || b == 0x51 || b == 0x53

/-- `CSI number[:shifted[:base]] [; mods[:event] [; text(:text)*]] u` -/
def interpU : List (List (Option Nat)) → Option Decoded
  | [k] => (parseKey k).map fun (n, s, b) => ⟨n, s, b, 0, 1, [], 0x75⟩
  | [k, m] =>
    (parseKey k).bind fun (n, s, b) => (parseMods m).map fun (mm, e) => ⟨n, s, b, mm, e, [], 0x75⟩
  | [k, m, t] =>
    (parseKey k).bind fun (n, s, b) => (parseMods m).bind fun (mm, e) =>
      (allSome t).map fun txt => ⟨n, s, b, mm, e, txt, 0x75⟩
  | _ => none

/-- `CSI number [; mods[:event]] ~` -/
def interpTilde : List (List (Option Nat)) → Option Decoded
  | [[some n]] => some ⟨n, none, none, 0, 1, [], 0x7e⟩
  | [[some n], m] => (parseMods m).map fun (mm, e) => ⟨n, none, none, mm, e, [], 0x7e⟩
  | _ => none

/-- `CSI [1 ; mods[:event]] letter` -/
def interpLetter (fin : UInt8) : List (List (Option Nat)) → Option Decoded
  | [[none]] => some ⟨1, none, none, 0, 1, [], fin⟩
  | [[some 1], m] => (parseMods m).map fun (mm, e) => ⟨1, none, none, mm, e, [], fin⟩
  | _ => none

def interpret (fin : UInt8) (ps : List (List (Option Nat))) : Option Decoded :=
  if fin = 0x75 then interpU ps
  else if fin = 0x7e then interpTilde ps
  else if isLetterFinal fin then interpLetter fin ps
  else none

/-- decoder for the three Kitty key forms -/
def decode (bs : Bytes) : Option Decoded :=
  match bs with
  | 0x1b :: 0x5b :: rest =>
    match rest.getLast? with
    | none => none
    | some fin => (parseParams rest.dropLast).bind (interpret fin)
  | _ => none

/-! ### what must be readable from the bytes under a flag set -/

/-- the key the Kitty encoder reports: keypad keys are only "separate keys" under
"Disambiguate escape codes"; otherwise they are the plain key with the same legacy bytes -/
def view (ev : KeyEv) (flags : Nat) : KeyEv :=
  if isKeypadKey ev.code ∧ !hasBit flags fDisambiguate then keypadEquivalent ev else ev

/-- event type that is transmitted: only under "Report event types", press otherwise -/
def evOf (flags event : Nat) : Nat := if hasBit flags fReportEvents then normEvent event else 1

/-- shifted alternate: only under "Report alternate keys", only when shift is in the mask -/
def altShifted (ev : KeyEv) (flags : Nat) : Option Nat :=
  if hasBit flags fReportAlternates ∧ hasBit ev.mod 1 ∧ ev.shifted ≠ 0 then some ev.shifted else none

/-- base-layout alternate: only under "Report alternate keys" -/
def altBase (ev : KeyEv) (flags : Nat) : Option Nat :=
  if hasBit flags fReportAlternates ∧ ev.base ≠ 0 then some ev.base else none

/-- associated text: only under "Report all keys" + "Report associated text"; a text key without
explicit text reports its own code point -/
def textOf (ev : KeyEv) (flags : Nat) : List Nat :=
  if hasBit flags fReportAllKeys ∧ hasBit flags fReportText then
    (if ev.text = [] ∧ ev.code = 0 ∧ ev.rune ≠ 0 then [ev.rune] else ev.text)
  else []

/-- The decoded content of the bytes for the (already keypad-mapped) event `ev'` under `flags`,
according to the document. Alternates and text exist only in the `CSI … u` form. -/
def expectedOf (ev' : KeyEv) (flags : Nat) : Option Decoded :=
  (keyId ev').map fun (n, fin) =>
    { number := n, final := fin, mods := ev'.mod, event := evOf flags ev'.event,
      shifted := if fin = 0x75 then altShifted ev' flags else none,
      base := if fin = 0x75 then altBase ev' flags else none,
      text := if fin = 0x75 then textOf ev' flags else [] }

def expected (ev : KeyEv) (flags : Nat) : Option Decoded := expectedOf (view ev flags) flags

end Kitty

open Kitty

/-! ## Lemmas -/
namespace Lemmas

/-! ### decimal round trip -/

theorem digit_val (d : Nat) (h : d < 10) : (UInt8.ofNat (48 + d)).toNat - 48 = d := by
  have : d = 0 ∨ d = 1 ∨ d = 2 ∨ d = 3 ∨ d = 4 ∨ d = 5 ∨ d = 6 ∨ d = 7 ∨ d = 8 ∨ d = 9 := by omega
  rcases this with h | h | h | h | h | h | h | h | h | h <;> subst h <;> decide

theorem digit_isDigit (d : Nat) (h : d < 10) : isDigit (UInt8.ofNat (48 + d)) = true := by
  have : d = 0 ∨ d = 1 ∨ d = 2 ∨ d = 3 ∨ d = 4 ∨ d = 5 ∨ d = 6 ∨ d = 7 ∨ d = 8 ∨ d = 9 := by omega
  rcases this with h | h | h | h | h | h | h | h | h | h <;> subst h <;> decide

theorem foldl_natDigitsAux (fuel n : Nat) (acc : Bytes) (h : n < fuel) :
    (natDigitsAux fuel n acc).foldl (fun a d => a * 10 + (d.toNat - 48)) 0
      = acc.foldl (fun a d => a * 10 + (d.toNat - 48)) n := by
  induction fuel generalizing n acc with
  | zero => omega
  | succ fuel ih =>
    simp only [natDigitsAux]
    have hd := digit_val (n % 10) (Nat.mod_lt _ (by decide))
    split
    · next h0 =>
      simp only [List.foldl_cons, hd]
      congr 1; omega
    · next h0 =>
      rw [ih _ _ (by omega)]
      simp only [List.foldl_cons, hd]
      congr 1; omega

theorem natDigitsAux_digits (fuel n : Nat) (acc : Bytes) (hacc : ∀ b ∈ acc, isDigit b = true) :
    ∀ b ∈ natDigitsAux fuel n acc, isDigit b = true := by
  induction fuel generalizing n acc with
  | zero => simpa [natDigitsAux] using hacc
  | succ fuel ih =>
    simp only [natDigitsAux]
    have hd := digit_isDigit (n % 10) (Nat.mod_lt _ (by decide))
    have hacc' : ∀ b ∈ UInt8.ofNat (48 + n % 10) :: acc, isDigit b = true := by
      intro b hb
      rcases List.mem_cons.mp hb with rfl | hb
      · exact hd
      · exact hacc b hb
    split
    · exact hacc'
    · exact ih _ _ hacc'

theorem natDigitsAux_ne_nil (fuel n : Nat) (acc : Bytes) (h : acc ≠ [] ∨ 0 < fuel) :
    natDigitsAux fuel n acc ≠ [] := by
  induction fuel generalizing n acc with
  | zero => rcases h with h | h; · simpa [natDigitsAux] using h
            · omega
  | succ fuel ih =>
    simp only [natDigitsAux]
    split
    · simp
    · exact ih _ _ (.inl (by simp))

/-- reading back the decimal rendering gives the number -/
theorem itoa_val (n : Nat) : digitsVal (itoa n) = n := by
  simpa [digitsVal, itoa] using foldl_natDigitsAux (n + 1) n [] (by omega)

theorem itoa_digits (n : Nat) : ∀ b ∈ itoa n, isDigit b = true :=
  natDigitsAux_digits (n + 1) n [] (by simp)

theorem itoa_ne_nil (n : Nat) : itoa n ≠ [] := natDigitsAux_ne_nil _ _ _ (.inr (by omega))

theorem itoa_all (n : Nat) : (itoa n).all isDigit = true := by
  simpa [List.all_eq_true] using itoa_digits n

theorem isDigit_ne_colon (b : UInt8) (h : isDigit b = true) : b ≠ 0x3a := by
  intro hb; subst hb; revert h; decide

theorem isDigit_ne_semi (b : UInt8) (h : isDigit b = true) : b ≠ 0x3b := by
  intro hb; subst hb; revert h; decide

/-! ### `splitOn` against `joinBytes` -/

theorem splitOn_nosep (sep : UInt8) (a : Bytes) (h : sep ∉ a) : splitOn sep a = [a] := by
  induction a with
  | nil => rfl
  | cons b a ih =>
    have hb : b ≠ sep := fun e => h (by simp [e])
    have ha : sep ∉ a := fun e => h (by simp [e])
    simp [splitOn, hb, ih ha]

theorem splitOn_append (sep : UInt8) (a b : Bytes) (h : sep ∉ a) :
    splitOn sep (a ++ sep :: b) = a :: splitOn sep b := by
  induction a with
  | nil => simp [splitOn]
  | cons c a ih =>
    have hb : c ≠ sep := fun e => h (by simp [e])
    have ha : sep ∉ a := fun e => h (by simp [e])
    simp [splitOn, hb, ih ha]

theorem splitOn_join (sep : UInt8) (xs : List Bytes) (hne : xs ≠ []) (h : ∀ x ∈ xs, sep ∉ x) :
    splitOn sep (joinBytes sep xs) = xs := by
  induction xs with
  | nil => exact absurd rfl hne
  | cons x rest ih =>
    cases rest with
    | nil => simpa [joinBytes] using splitOn_nosep sep x (h x (by simp))
    | cons y r =>
      rw [joinBytes, splitOn_append sep x _ (h x (by simp)), ih (by simp) (fun z hz => h z (by simp [hz]))]
      simp

/-! ### rendering of parameter lists (the inverse of `parseParams`) -/

def renderSub : Option Nat → Bytes
  | none => []
  | some n => itoa n

def renderField (subs : List (Option Nat)) : Bytes := joinBytes 0x3a (subs.map renderSub)

def renderParams (ps : List (List (Option Nat))) : Bytes := joinBytes 0x3b (ps.map renderField)

theorem renderSub_digits (o : Option Nat) : ∀ b ∈ renderSub o, isDigit b = true := by
  cases o with
  | none => simp [renderSub]
  | some n => exact itoa_digits n

theorem parseSub_render (o : Option Nat) : parseSub (renderSub o) = some o := by
  cases o with
  | none => simp [renderSub, parseSub]
  | some n =>
    have h1 := itoa_ne_nil n
    simp [renderSub, parseSub, h1, itoa_val, itoa_all]

theorem allSome_map_some {α : Type} (l : List α) : allSome (l.map some) = some l := by
  induction l with
  | nil => rfl
  | cons a l ih => simp [allSome, ih]

theorem allSome_map {α β : Type} (f : α → Option β) (g : α → β) (l : List α) (h : ∀ a ∈ l, f a = some (g a)) :
    allSome (l.map f) = some (l.map g) := by
  induction l with
  | nil => rfl
  | cons a l ih =>
    simp [allSome, h a (by simp), ih (fun b hb => h b (by simp [hb]))]

theorem parseField_render (subs : List (Option Nat)) (hne : subs ≠ []) :
    parseField (renderField subs) = some subs := by
  unfold parseField renderField
  rw [splitOn_join]
  · rw [List.map_map]
    have := allSome_map (parseSub ∘ renderSub) id subs (fun a _ => by simp [parseSub_render])
    simpa using this
  · simpa using hne
  · intro x hx
    obtain ⟨o, _, rfl⟩ := List.mem_map.mp hx
    intro hmem
    exact isDigit_ne_colon _ (renderSub_digits o _ hmem) rfl

theorem mem_joinBytes (sep : UInt8) (xs : List Bytes) (b : UInt8) (hb : b ∈ joinBytes sep xs) :
    b = sep ∨ ∃ x ∈ xs, b ∈ x := by
  induction xs with
  | nil => simp [joinBytes] at hb
  | cons x rest ih =>
    cases rest with
    | nil => exact .inr ⟨x, by simp, by simpa [joinBytes] using hb⟩
    | cons y r =>
      rw [joinBytes] at hb
      rotate_left
      · simp
      rcases List.mem_append.mp hb with h | h
      · exact .inr ⟨x, by simp, h⟩
      · rcases List.mem_cons.mp h with h | h
        · exact .inl h
        · rcases ih h with h | ⟨z, hz, hbz⟩
          · exact .inl h
          · exact .inr ⟨z, by simp [hz], hbz⟩

theorem renderField_nosemi (subs : List (Option Nat)) : (0x3b : UInt8) ∉ renderField subs := by
  intro hmem
  rcases mem_joinBytes _ _ _ hmem with h | ⟨x, hx, hbx⟩
  · revert h; decide
  · obtain ⟨o, _, rfl⟩ := List.mem_map.mp hx
    exact isDigit_ne_semi _ (renderSub_digits o _ hbx) rfl

theorem parseParams_render (ps : List (List (Option Nat))) (hne : ps ≠ []) (h : ∀ p ∈ ps, p ≠ []) :
    parseParams (renderParams ps) = some ps := by
  unfold parseParams renderParams
  rw [splitOn_join]
  · rw [List.map_map]
    have := allSome_map (parseField ∘ renderField) id ps (fun a ha => by simp [parseField_render a (h a ha)])
    simpa using this
  · simpa using hne
  · intro x hx
    obtain ⟨p, _, rfl⟩ := List.mem_map.mp hx
    exact renderField_nosemi p

/-- the decoder on a rendered parameter list -/
theorem decode_render (ps : List (List (Option Nat))) (fin : UInt8) (hne : ps ≠ []) (h : ∀ p ∈ ps, p ≠ []) :
    decode (csiB ++ renderParams ps ++ [fin]) = interpret fin ps := by
  simp [decode, csiB, parseParams_render ps hne h]

/-! ### the model's fields are renderings -/

def keySubs (code : Nat) : Option Nat → Option Nat → List (Option Nat)
  | none, none => [some code]
  | some s, none => [some code, some s]
  | s, some b => [some code, s, some b]

theorem keySubs_ne_nil (code : Nat) (s b : Option Nat) : keySubs code s b ≠ [] := by
  cases s <;> cases b <;> simp [keySubs]

theorem parseKey_keySubs (code : Nat) (s b : Option Nat) : parseKey (keySubs code s b) = some (code, s, b) := by
  cases s <;> cases b <;> simp [keySubs, parseKey]

theorem kittyKeyField_eq (code : Nat) (ev : KeyEv) (flags : Nat) :
    kittyKeyField code ev flags = renderField (keySubs code (altShifted ev flags) (altBase ev flags)) := by
  unfold kittyKeyField altShifted altBase
  by_cases hf : hasBit flags fReportAlternates = true
  · by_cases hs : ev.shifted = 0 <;> by_cases hm : hasBit ev.mod 1 = true <;> by_cases hb : ev.base = 0 <;>
      simp [hf, hs, hm, hb, keySubs, renderField, renderSub, joinBytes]
  · simp [hf, keySubs, renderField, renderSub, joinBytes]

def modSubs (mod event flags : Nat) : List (Option Nat) :=
  if hasBit flags fReportEvents ∧ normEvent event ≠ 1 then [some (1 + mod), some (normEvent event)]
  else if mod = 0 then [none] else [some (1 + mod)]

theorem kittyModField_eq (mod event flags : Nat) :
    kittyModField mod event flags = renderField (modSubs mod event flags) := by
  unfold kittyModField modSubs
  by_cases h1 : hasBit flags fReportEvents = true ∧ normEvent event ≠ 1
  · simp [h1, renderField, renderSub, joinBytes]
  · by_cases h2 : mod = 0 <;> simp [h1, h2, renderField, renderSub, joinBytes]

theorem kittyModField_isEmpty (mod event flags : Nat) :
    (kittyModField mod event flags).isEmpty = true ↔ modSubs mod event flags = [none] := by
  unfold kittyModField modSubs
  have h0 := itoa_ne_nil (1 + mod)
  by_cases h1 : hasBit flags fReportEvents = true ∧ normEvent event ≠ 1
  · simp [h1, h0]
  · by_cases h2 : mod = 0 <;> simp [h1, h2, h0]

theorem normEvent_le (event : Nat) (h : event ≤ 3) : 1 ≤ normEvent event ∧ normEvent event ≤ 3 := by
  unfold normEvent; split <;> omega

theorem parseMods_modSubs (mod event flags : Nat) (h : event ≤ 3) :
    parseMods (modSubs mod event flags) = some (mod, evOf flags event) := by
  unfold modSubs evOf
  have := normEvent_le event h
  by_cases hf : hasBit flags fReportEvents = true
  · by_cases h1 : normEvent event = 1
    · by_cases h2 : mod = 0 <;> simp [hf, h1, h2, parseMods]
    · simp [hf, h1, parseMods, this]
  · by_cases h2 : mod = 0 <;> simp [hf, h2, parseMods]

theorem modSubs_ne_nil (mod event flags : Nat) : modSubs mod event flags ≠ [] := by
  unfold modSubs; split
  · simp
  · split <;> simp

theorem kittyModField_nonEmpty (mod event flags : Nat) (he : ¬ (kittyModField mod event flags).isEmpty = true) :
    modSubs mod event flags ≠ [none] := fun e => he ((kittyModField_isEmpty mod event flags).mpr e)

theorem evOf_of_empty (mod event flags : Nat) (h : event ≤ 3) (he : modSubs mod event flags = [none]) :
    mod = 0 ∧ evOf flags event = 1 := by
  have hp := parseMods_modSubs mod event flags h
  rw [he] at hp
  simp [parseMods] at hp
  exact ⟨hp.1.symm, hp.2.symm⟩

/-- the `CSI 1 ; mods letter` form decodes to number 1, the letter, the mask and the event -/
theorem decode_CSI1 (fin : UInt8) (hfin : isLetterFinal fin = true) (mod event flags : Nat) (h : event ≤ 3) :
    decode (kittyCSI1 fin (kittyModField mod event flags)) =
      some ⟨1, none, none, mod, evOf flags event, [], fin⟩ := by
  have hu : fin ≠ 0x75 := by intro e; subst e; revert hfin; decide
  have ht : fin ≠ 0x7e := by intro e; subst e; revert hfin; decide
  unfold kittyCSI1
  by_cases he : (kittyModField mod event flags).isEmpty = true
  · obtain ⟨h1, h2⟩ := evOf_of_empty mod event flags h ((kittyModField_isEmpty mod event flags).mp he)
    have := decode_render [[none]] fin (by simp) (by simp)
    simp only [renderParams, renderField, renderSub, joinBytes, csiB, List.map] at this
    rw [if_pos he]
    simp at this
    rw [this]
    simp [interpret, interpLetter, hu, ht, hfin, h1, h2]
  · have := decode_render [[some 1], modSubs mod event flags] fin (by simp) (by simp [modSubs_ne_nil])
    simp only [renderParams, joinBytes, List.map] at this
    rw [← kittyModField_eq] at this
    have h1 : renderField [some 1] = [0x31] := by decide
    rw [if_neg he]
    simp only [h1] at this
    simp only [List.append_assoc, List.cons_append, List.nil_append] at this ⊢
    rw [this]
    simp [interpret, interpLetter, hu, ht, hfin, parseMods_modSubs mod event flags h]

/-- the `CSI number ; mods ~` form decodes to the number, the mask and the event -/
theorem decode_Tilde (n mod event flags : Nat) (h : event ≤ 3) :
    decode (kittyCSITilde n (kittyModField mod event flags)) =
      some ⟨n, none, none, mod, evOf flags event, [], 0x7e⟩ := by
  unfold kittyCSITilde
  have hn : renderField [some n] = itoa n := by simp [renderField, renderSub, joinBytes]
  by_cases he : (kittyModField mod event flags).isEmpty = true
  · obtain ⟨h1, h2⟩ := evOf_of_empty mod event flags h ((kittyModField_isEmpty mod event flags).mp he)
    have := decode_render [[some n]] 0x7e (by simp) (by simp)
    simp only [renderParams, joinBytes, List.map, hn] at this
    rw [if_pos he, this]
    simp [interpret, interpTilde, h1, h2]
  · have := decode_render [[some n], modSubs mod event flags] 0x7e (by simp) (by simp [modSubs_ne_nil])
    simp only [renderParams, joinBytes, List.map, hn] at this
    rw [← kittyModField_eq] at this
    rw [if_neg he]
    simp only [List.append_assoc, List.cons_append, List.nil_append] at this ⊢
    rw [this]
    simp [interpret, interpTilde, parseMods_modSubs mod event flags h]

theorem textField_render (txt : List Nat) : joinBytes 0x3a (txt.map itoa) = renderField (txt.map some) := by
  simp [renderField, List.map_map, Function.comp_def, renderSub]

theorem joinBytes_isEmpty (txt : List Nat) : (joinBytes 0x3a (txt.map itoa)).isEmpty = true ↔ txt = [] := by
  cases txt with
  | nil => simp [joinBytes]
  | cons a r =>
    have := itoa_ne_nil a
    cases r with
    | nil => simp [joinBytes, this]
    | cons b r => simp [joinBytes, this]

/-- the `CSI key ; mods ; text u` form decodes to the number, alternates, mask, event and text -/
theorem decode_CSIu (code : Nat) (ev : KeyEv) (flags : Nat) (txt : List Nat) (h : ev.event ≤ 3) :
    decode (kittyCSIu (kittyKeyField code ev flags) (kittyModField ev.mod ev.event flags)
        (joinBytes 0x3a (txt.map itoa))) =
      some ⟨code, altShifted ev flags, altBase ev flags, ev.mod, evOf flags ev.event, txt, 0x75⟩ := by
  unfold kittyCSIu
  have hk := keySubs_ne_nil code (altShifted ev flags) (altBase ev flags)
  have hpk := parseKey_keySubs code (altShifted ev flags) (altBase ev flags)
  have h1 : renderField [some 1] = [0x31] := by decide
  by_cases he : (kittyModField ev.mod ev.event flags).isEmpty = true
  · obtain ⟨hm1, hm2⟩ := evOf_of_empty ev.mod ev.event flags h ((kittyModField_isEmpty _ _ _).mp he)
    by_cases ht : txt = []
    · have hte := (joinBytes_isEmpty txt).mpr ht
      have := decode_render [keySubs code (altShifted ev flags) (altBase ev flags)] 0x75 (by simp) (by simp [hk])
      simp only [renderParams, joinBytes, List.map] at this
      rw [← kittyKeyField_eq] at this
      rw [if_pos ⟨he, hte⟩, this]
      simp [interpret, interpU, hpk, ← hm1, hm2, ht]
    · have hte : ¬ (joinBytes 0x3a (txt.map itoa)).isEmpty = true := fun e => ht ((joinBytes_isEmpty txt).mp e)
      have := decode_render [keySubs code (altShifted ev flags) (altBase ev flags), [some 1], txt.map some] 0x75
        (by simp) (by simp [hk, ht])
      simp only [renderParams, joinBytes, List.map, h1] at this
      rw [← kittyKeyField_eq, ← textField_render] at this
      rw [if_neg (fun e => hte e.2), if_pos he, if_neg hte]
      simp only [List.append_assoc, List.cons_append, List.nil_append] at this ⊢
      rw [this]
      simp [interpret, interpU, hpk, parseMods, allSome_map_some, ← hm1, hm2]
  · by_cases ht : txt = []
    · have hte := (joinBytes_isEmpty txt).mpr ht
      have := decode_render [keySubs code (altShifted ev flags) (altBase ev flags), modSubs ev.mod ev.event flags] 0x75
        (by simp) (by simp [hk, modSubs_ne_nil])
      simp only [renderParams, joinBytes, List.map] at this
      rw [← kittyKeyField_eq, ← kittyModField_eq] at this
      rw [if_neg (fun e => he e.1), if_neg he, if_pos hte]
      simp only [List.append_assoc, List.cons_append, List.nil_append] at this ⊢
      rw [this]
      simp [interpret, interpU, hpk, parseMods_modSubs _ _ _ h, ht]
    · have hte : ¬ (joinBytes 0x3a (txt.map itoa)).isEmpty = true := fun e => ht ((joinBytes_isEmpty txt).mp e)
      have := decode_render [keySubs code (altShifted ev flags) (altBase ev flags), modSubs ev.mod ev.event flags,
        txt.map some] 0x75 (by simp) (by simp [hk, ht, modSubs_ne_nil])
      simp only [renderParams, joinBytes, List.map] at this
      rw [← kittyKeyField_eq, ← kittyModField_eq, ← textField_render] at this
      rw [if_neg (fun e => he e.1), if_neg he, if_neg hte]
      simp only [List.append_assoc, List.cons_append, List.nil_append] at this ⊢
      rw [this]
      simp [interpret, interpU, hpk, parseMods_modSubs _ _ _ h, allSome_map_some]

theorem kittyTextField_eq (ev : KeyEv) (flags : Nat) :
    kittyTextField ev flags = joinBytes 0x3a ((textOf ev flags).map itoa) := by
  unfold kittyTextField textOf
  by_cases h8 : hasBit flags fReportAllKeys = true <;> by_cases h16 : hasBit flags fReportText = true <;>
    simp [h8, h16, joinBytes, kRune]

theorem decode_CSIu_nil (code : Nat) (ev : KeyEv) (flags : Nat) (h : ev.event ≤ 3) :
    decode (kittyCSIu (kittyKeyField code ev flags) (kittyModField ev.mod ev.event flags) []) =
      some ⟨code, altShifted ev flags, altBase ev flags, ev.mod, evOf flags ev.event, [], 0x75⟩ := by
  simpa [joinBytes] using decode_CSIu code ev flags [] h

/-! ### the tables against the model's case analysis -/

theorem lookup_none_of_bound {β : Type} (l : List (Nat × β)) (n c : Nat) (h : ∀ p ∈ l, p.1 < n) (hc : n ≤ c) :
    l.lookup c = none := by
  induction l with
  | nil => rfl
  | cons p l ih =>
    have hp : p.1 < n := h p (by simp)
    obtain ⟨a, b⟩ := p
    have : (c == a) = false := by simp at hp ⊢; omega
    simp [List.lookup, this, ih (fun q hq => h q (by simp [hq]))]

theorem functionalTable_bound : ∀ p ∈ functionalTable, p.1 < 112 := by decide
theorem legacyCompatTable_bound : ∀ p ∈ legacyCompatTable, p.1 < 112 := by decide
theorem c0Table_bound : ∀ p ∈ c0Table, p.1 < 112 := by decide

theorem kittyFunctionalCode_small : ∀ c < 112, kittyFunctionalCode c = functionalTable.lookup c := by decide

theorem kittyFunctionalCode_big (c : Nat) (hc : 112 ≤ c) : kittyFunctionalCode c = none := by
  unfold kittyFunctionalCode
  repeat (first | rfl | rw [if_neg (by omega)])

theorem kittyFunctionalCode_some (c n : Nat) (h : kittyFunctionalCode c = some n) :
    (50 ≤ c ∧ c ≤ 55 ∧ n = 57358 + (c - 50)) ∨ (27 ≤ c ∧ c ≤ 49 ∧ n = 57376 + (c - 27)) ∨
    (56 ≤ c ∧ c ≤ 84 ∧ n = 57399 + (c - 56)) ∨ (85 ≤ c ∧ c ≤ 111 ∧ n = 57428 + (c - 85)) := by
  unfold kittyFunctionalCode at h
  split at h
  · simp at h; omega
  split at h
  · simp at h; omega
  split at h
  · simp at h; omega
  split at h
  · simp at h; omega
  · cases h

theorem keyOfCode_F : ∀ c < 112, 19 ≤ c → c ≤ 26 → keyOfCode c = some (fTilde c, 0x7e) := by decide

theorem keyOfCode_functional : ∀ c < 112, 27 ≤ c → c ≠ 84 →
    keyOfCode c = (kittyFunctionalCode c).map fun n => (n, 0x75) := by decide

end Lemmas
open Lemmas



/-! ## B. Properties -/

/-! ### 1. the functional key table -/

/-- the model's number for a functional key is the one in the document's table — for every
`Nat` key code (outside the table both are `none`) -/
theorem functionalCode_matches_protocol (c : Nat) :
    kittyFunctionalCode c = functionalTable.lookup c := by
  by_cases hc : c < 112
  · exact kittyFunctionalCode_small c hc
  · rw [lookup_none_of_bound _ 112 c functionalTable_bound (by omega)]
    exact kittyFunctionalCode_big c (by omega)

/-- distinct functional keys get distinct numbers -/
theorem functionalCode_injective (a b n : Nat) (ha : kittyFunctionalCode a = some n)
    (hb : kittyFunctionalCode b = some n) : a = b := by
  have h1 := kittyFunctionalCode_some a n ha
  have h2 := kittyFunctionalCode_some b n hb
  omega


theorem plain_form (ev : KeyEv) (flags : Nat) (b : Bytes) (hev : ev.event ≤ 3)
    (h : encodeKittyPlain ev flags = some b) :
    ∃ d, expectedOf ev flags = some d ∧ decode b = some d := by
  unfold encodeKittyPlain at h
  simp only at h
  by_cases hc0 : ev.code = kRune
  · rw [if_pos hc0] at h
    have hc0' : ev.code = 0 := hc0
    split at h
    · cases h
    next hr =>
    split at h
    · next hall =>
      cases h
      rw [kittyTextField_eq]
      exact ⟨_, by simp [expectedOf, keyId, hc0', hr], decode_CSIu _ _ _ _ hev⟩
    next hall =>
    split at h
    · cases h
      have ht : textOf ev flags = [] := by simp [textOf, hall]
      exact ⟨_, by simp [expectedOf, keyId, hc0', hr, ht], decode_CSIu_nil _ _ _ hev⟩
    · cases h
  rw [if_neg hc0] at h
  have hc0' : ¬ ev.code = 0 := hc0
  by_cases h1 : ev.code = kUp
  · rw [if_pos h1] at h; cases h
    have hk : keyOfCode ev.code = some (1, 0x41) := by rw [show ev.code = 1 from h1]; decide
    exact ⟨_, by simp [expectedOf, keyId, hc0', hk], decode_CSI1 _ (by decide) _ _ _ hev⟩
  rw [if_neg h1] at h
  by_cases h2 : ev.code = kDown
  · rw [if_pos h2] at h; cases h
    have hk : keyOfCode ev.code = some (1, 0x42) := by rw [show ev.code = 2 from h2]; decide
    exact ⟨_, by simp [expectedOf, keyId, hc0', hk], decode_CSI1 _ (by decide) _ _ _ hev⟩
  rw [if_neg h2] at h
  by_cases h3 : ev.code = kRight
  · rw [if_pos h3] at h; cases h
    have hk : keyOfCode ev.code = some (1, 0x43) := by rw [show ev.code = 3 from h3]; decide
    exact ⟨_, by simp [expectedOf, keyId, hc0', hk], decode_CSI1 _ (by decide) _ _ _ hev⟩
  rw [if_neg h3] at h
  by_cases h4 : ev.code = kLeft
  · rw [if_pos h4] at h; cases h
    have hk : keyOfCode ev.code = some (1, 0x44) := by rw [show ev.code = 4 from h4]; decide
    exact ⟨_, by simp [expectedOf, keyId, hc0', hk], decode_CSI1 _ (by decide) _ _ _ hev⟩
  rw [if_neg h4] at h
  by_cases h5 : ev.code = kHome
  · rw [if_pos h5] at h; cases h
    have hk : keyOfCode ev.code = some (1, 0x48) := by rw [show ev.code = 5 from h5]; decide
    exact ⟨_, by simp [expectedOf, keyId, hc0', hk], decode_CSI1 _ (by decide) _ _ _ hev⟩
  rw [if_neg h5] at h
  by_cases h6 : ev.code = kEnd
  · rw [if_pos h6] at h; cases h
    have hk : keyOfCode ev.code = some (1, 0x46) := by rw [show ev.code = 6 from h6]; decide
    exact ⟨_, by simp [expectedOf, keyId, hc0', hk], decode_CSI1 _ (by decide) _ _ _ hev⟩
  rw [if_neg h6] at h
  by_cases h7 : ev.code = kInsert
  · rw [if_pos h7] at h; cases h
    have hk : keyOfCode ev.code = some (2, 0x7e) := by rw [show ev.code = 7 from h7]; decide
    exact ⟨_, by simp [expectedOf, keyId, hc0', hk], decode_Tilde _ _ _ _ hev⟩
  rw [if_neg h7] at h
  by_cases h8 : ev.code = kDelete
  · rw [if_pos h8] at h; cases h
    have hk : keyOfCode ev.code = some (3, 0x7e) := by rw [show ev.code = 8 from h8]; decide
    exact ⟨_, by simp [expectedOf, keyId, hc0', hk], decode_Tilde _ _ _ _ hev⟩
  rw [if_neg h8] at h
  by_cases h9 : ev.code = kPageUp
  · rw [if_pos h9] at h; cases h
    have hk : keyOfCode ev.code = some (5, 0x7e) := by rw [show ev.code = 9 from h9]; decide
    exact ⟨_, by simp [expectedOf, keyId, hc0', hk], decode_Tilde _ _ _ _ hev⟩
  rw [if_neg h9] at h
  by_cases h10 : ev.code = kPageDown
  · rw [if_pos h10] at h; cases h
    have hk : keyOfCode ev.code = some (6, 0x7e) := by rw [show ev.code = 10 from h10]; decide
    exact ⟨_, by simp [expectedOf, keyId, hc0', hk], decode_Tilde _ _ _ _ hev⟩
  rw [if_neg h10] at h
  by_cases h15 : ev.code = 15
  · rw [if_pos h15] at h; cases h
    have hk : keyOfCode ev.code = some (1, 0x50) := by rw [show ev.code = 15 from h15]; decide
    exact ⟨_, by simp [expectedOf, keyId, hc0', hk], decode_CSI1 _ (by decide) _ _ _ hev⟩
  rw [if_neg h15] at h
  by_cases h16 : ev.code = 16
  · rw [if_pos h16] at h; cases h
    have hk : keyOfCode ev.code = some (1, 0x51) := by rw [show ev.code = 16 from h16]; decide
    exact ⟨_, by simp [expectedOf, keyId, hc0', hk], decode_CSI1 _ (by decide) _ _ _ hev⟩
  rw [if_neg h16] at h
  by_cases h17 : ev.code = 17
  · rw [if_pos h17] at h; cases h
    have hk : keyOfCode ev.code = some (13, 0x7e) := by rw [show ev.code = 17 from h17]; decide
    exact ⟨_, by simp [expectedOf, keyId, hc0', hk], decode_Tilde _ _ _ _ hev⟩
  rw [if_neg h17] at h
  by_cases h18 : ev.code = 18
  · rw [if_pos h18] at h; cases h
    have hk : keyOfCode ev.code = some (1, 0x53) := by rw [show ev.code = 18 from h18]; decide
    exact ⟨_, by simp [expectedOf, keyId, hc0', hk], decode_CSI1 _ (by decide) _ _ _ hev⟩
  rw [if_neg h18] at h
  by_cases hF : 19 ≤ ev.code ∧ ev.code ≤ 26
  · rw [if_pos hF] at h; cases h
    have hk := keyOfCode_F ev.code (by omega) hF.1 hF.2
    exact ⟨_, by simp [expectedOf, keyId, hc0', hk], decode_Tilde _ _ _ _ hev⟩
  rw [if_neg hF] at h
  by_cases h14 : ev.code = kEscape
  · rw [if_pos h14] at h
    split at h
    · cases h
      have hk : keyOfCode ev.code = some (27, 0x75) := by rw [show ev.code = 14 from h14]; decide
      rw [kittyTextField_eq]
      exact ⟨_, by simp [expectedOf, keyId, hc0', hk], decode_CSIu _ _ _ _ hev⟩
    · cases h
  rw [if_neg h14] at h
  by_cases h13 : ev.code = kEnter
  · rw [if_pos h13] at h
    split at h
    · cases h
      have hk : keyOfCode ev.code = some (13, 0x75) := by rw [show ev.code = 13 from h13]; decide
      rw [kittyTextField_eq]
      exact ⟨_, by simp [expectedOf, keyId, hc0', hk], decode_CSIu _ _ _ _ hev⟩
    · cases h
  rw [if_neg h13] at h
  by_cases h12 : ev.code = kTab
  · rw [if_pos h12] at h
    split at h
    · cases h
      have hk : keyOfCode ev.code = some (9, 0x75) := by rw [show ev.code = 12 from h12]; decide
      rw [kittyTextField_eq]
      exact ⟨_, by simp [expectedOf, keyId, hc0', hk], decode_CSIu _ _ _ _ hev⟩
    · cases h
  rw [if_neg h12] at h
  by_cases h11 : ev.code = kBackspace
  · rw [if_pos h11] at h
    split at h
    · cases h
      have hk : keyOfCode ev.code = some (127, 0x75) := by rw [show ev.code = 11 from h11]; decide
      rw [kittyTextField_eq]
      exact ⟨_, by simp [expectedOf, keyId, hc0', hk], decode_CSIu _ _ _ _ hev⟩
    · cases h
  rw [if_neg h11] at h
  by_cases h84 : ev.code = kKPBegin
  · rw [if_pos h84] at h; cases h
    have hk : keyOfCode ev.code = some (57427, 0x7e) := by rw [show ev.code = 84 from h84]; decide
    exact ⟨_, by simp [expectedOf, keyId, hc0', hk], decode_Tilde _ _ _ _ hev⟩
  rw [if_neg h84] at h
  split at h
  · next code hcode =>
    cases h
    have hr := kittyFunctionalCode_some _ _ hcode
    have hk := keyOfCode_functional ev.code (by omega) (by omega) h84
    rw [hcode] at hk
    rw [kittyTextField_eq]
    exact ⟨_, by simp [expectedOf, keyId, hc0', hk], decode_CSIu _ _ _ _ hev⟩
  · cases h

end TM.C12
