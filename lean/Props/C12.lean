import TM.Keys
/-!
# C12 — key events are written to the application in the form the active mode requires

Model: `TM.Keys` (`keys.go`: `encodeKey`, `encodeKittyKey`, `encodeLegacyKey`).

## A. Specification (written here from `/repo/keyboard-protocol.rst`)
* `Kitty.functionalTable`, `Kitty.legacyCompatTable`, `Kitty.c0Table`: the "functional key
  table" of the document as literal lists (key-code index → protocol number / final byte);
  `Kitty.keyId`: the protocol identity (number, final byte) of the key of an event.
* `Kitty.decode`: an independent decoder for the three escape-code forms of the document,
  `CSI number[:shifted[:base]] [; mods[:event] [; text(:text)*]] u`,
  `CSI [1 ; mods[:event]] letter` and `CSI number [; mods[:event]] ~`.
* `Kitty.encode`: the canonical way the document writes a decoded content (default fields omitted).
* `Kitty.expected`: what an application must be able to read back from the bytes under a flag
  set (key number, final byte, full modifier mask, event type, alternates, text);
  `Kitty.reported`: which keys a flag set turns into Kitty sequences at all.
* `Kitty.SameReport`: the equivalence of events that a flag set cannot distinguish.
* `Legacy.Form`: catalogue of the xterm legacy / modifyOtherKeys forms (flags = 0).

## B. Property theorems
1. `functionalCode_matches_protocol`, `functionalCode_injective`, `letter_tilde_matches_protocol`
2. `release_silent`, `release_legacy_silent`
3. `mode_select_legacy`, `mode_select_kitty`, `mode_select_fallback`
4. `kitty_form` (decode ∘ encode round trip + canonical form), `kitty_form_fields`,
   `kitty_reported_iff`, `encodeKittyKey_spec`, `encodeKey_spec`
5. `keyId_injective`, `injective_on_disambiguated` (an iff), `injective_all_keys`
6. `legacy_form`, `xtermModParam_eq`, `keypad_matches_table`

All statements are for every key code (any `Nat`, not just `< 112`), every modifier mask (any
`Nat`), every rune / alternate / text code point (unbounded), every flag set (any `Nat`) and
every modifyOtherKeys level / cursor-key mode. The only well-formedness hypothesis is
`ev.event ≤ 3` (press 0/1, repeat 2, release 3) where the decoder is involved (the decoder
accepts event types 1–3 only), plus `Kitty.wfKey` (text-key code points are not C0/DEL/private
use) for the injectivity of the key number.
-/
namespace TM.C12
open TM

/-! ## A. Specification from the protocol document -/
namespace Kitty

/-- "Functional key codes" that are sent as `CSI number u` with a number from the Unicode
private use area, in the order of the document (key-code index of `keys.go` → number). -/
def functionalTable : List (Nat × Nat) := [
  -- CAPS_LOCK SCROLL_LOCK NUM_LOCK PRINT_SCREEN PAUSE MENU
  (50, 57358), (51, 57359), (52, 57360), (53, 57361), (54, 57362), (55, 57363),
  -- F13 … F35
  (27, 57376), (28, 57377), (29, 57378), (30, 57379), (31, 57380), (32, 57381),
  (33, 57382), (34, 57383), (35, 57384), (36, 57385), (37, 57386), (38, 57387),
  (39, 57388), (40, 57389), (41, 57390), (42, 57391), (43, 57392), (44, 57393),
  (45, 57394), (46, 57395), (47, 57396), (48, 57397), (49, 57398),
  -- KP_0 … KP_9
  (56, 57399), (57, 57400), (58, 57401), (59, 57402), (60, 57403), (61, 57404),
  (62, 57405), (63, 57406), (64, 57407), (65, 57408),
  -- KP_DECIMAL KP_DIVIDE KP_MULTIPLY KP_SUBTRACT KP_ADD KP_ENTER KP_EQUAL KP_SEPARATOR
  (66, 57409), (67, 57410), (68, 57411), (69, 57412), (70, 57413), (71, 57414),
  (72, 57415), (73, 57416),
  -- KP_LEFT KP_RIGHT KP_UP KP_DOWN KP_PAGE_UP KP_PAGE_DOWN KP_HOME KP_END KP_INSERT KP_DELETE KP_BEGIN
  (74, 57417), (75, 57418), (76, 57419), (77, 57420), (78, 57421), (79, 57422),
  (80, 57423), (81, 57424), (82, 57425), (83, 57426), (84, 57427),
  -- MEDIA_PLAY MEDIA_PAUSE MEDIA_PLAY_PAUSE MEDIA_REVERSE MEDIA_STOP MEDIA_FAST_FORWARD MEDIA_REWIND
  (85, 57428), (86, 57429), (87, 57430), (88, 57431), (89, 57432), (90, 57433), (91, 57434),
  -- MEDIA_TRACK_NEXT MEDIA_TRACK_PREVIOUS MEDIA_RECORD LOWER_VOLUME RAISE_VOLUME MUTE_VOLUME
  (92, 57435), (93, 57436), (94, 57437), (95, 57438), (96, 57439), (97, 57440),
  -- LEFT_SHIFT LEFT_CONTROL LEFT_ALT LEFT_SUPER LEFT_HYPER LEFT_META
  (98, 57441), (99, 57442), (100, 57443), (101, 57444), (102, 57445), (103, 57446),
  -- RIGHT_SHIFT RIGHT_CONTROL RIGHT_ALT RIGHT_SUPER RIGHT_HYPER RIGHT_META
  (104, 57447), (105, 57448), (106, 57449), (107, 57450), (108, 57451), (109, 57452),
  -- ISO_LEVEL3_SHIFT ISO_LEVEL5_SHIFT
  (110, 57453), (111, 57454)]

/-- The keys whose Kitty encoding keeps the legacy final byte: `CSI 1 letter` or `CSI number ~`
(key-code index → (number, final byte)). F3 is `13 ~` only (`CSI R` was removed from the
document), KP_BEGIN is `57427 ~`. -/
def legacyCompatTable : List (Nat × (Nat × UInt8)) := [
  (1, (1, 0x41)),      -- UP        1 A
  (2, (1, 0x42)),      -- DOWN      1 B
  (3, (1, 0x43)),      -- RIGHT     1 C
  (4, (1, 0x44)),      -- LEFT      1 D
  (5, (1, 0x48)),      -- HOME      1 H
  (6, (1, 0x46)),      -- END       1 F
  (7, (2, 0x7e)),      -- INSERT    2 ~
  (8, (3, 0x7e)),      -- DELETE    3 ~
  (9, (5, 0x7e)),      -- PAGE_UP   5 ~
  (10, (6, 0x7e)),     -- PAGE_DOWN 6 ~
  (15, (1, 0x50)),     -- F1        1 P
  (16, (1, 0x51)),     -- F2        1 Q
  (17, (13, 0x7e)),    -- F3        13 ~
  (18, (1, 0x53)),     -- F4        1 S
  (19, (15, 0x7e)),    -- F5        15 ~
  (20, (17, 0x7e)),    -- F6        17 ~
  (21, (18, 0x7e)),    -- F7        18 ~
  (22, (19, 0x7e)),    -- F8        19 ~
  (23, (20, 0x7e)),    -- F9        20 ~
  (24, (21, 0x7e)),    -- F10       21 ~
  (25, (23, 0x7e)),    -- F11       23 ~
  (26, (24, 0x7e)),    -- F12       24 ~
  (84, (57427, 0x7e))] -- KP_BEGIN  57427 ~

/-- ESCAPE `27 u`, ENTER `13 u`, TAB `9 u`, BACKSPACE `127 u` -/
def c0Table : List (Nat × Nat) := [(14, 27), (13, 13), (12, 9), (11, 127)]

/-- protocol identity (number, final byte) of a non-text key code -/
def keyOfCode (c : Nat) : Option (Nat × UInt8) :=
  match legacyCompatTable.lookup c with
  | some p => some p
  | none =>
    match c0Table.lookup c with
    | some n => some (n, 0x75)
    | none => (functionalTable.lookup c).map fun n => (n, 0x75)

/-- protocol identity of the key of an event: text keys are their (unshifted) code point with
final `u`; a text key without code point has no identity -/
def keyId (ev : KeyEv) : Option (Nat × UInt8) :=
  if ev.code = 0 then (if ev.rune = 0 then none else some (ev.rune, 0x75)) else keyOfCode ev.code

/-! ### decoder -/

/-- split at every `sep` (always returns at least one field) -/
def splitOn (sep : UInt8) : Bytes → List Bytes
  | [] => [[]]
  | b :: rest =>
    if b = sep then [] :: splitOn sep rest
    else match splitOn sep rest with
      | [] => [[b]]
      | f :: fs => (b :: f) :: fs

/-- value of a decimal digit string -/
def digitsVal (ds : Bytes) : Nat := ds.foldl (fun a d => a * 10 + (d.toNat - 48)) 0

/-- a sub-field: empty (`none`, i.e. default) or a decimal number; anything else is malformed -/
def parseSub (f : Bytes) : Option (Option Nat) :=
  if f.isEmpty then some none
  else if f.all isDigit then some (some (digitsVal f)) else none

def allSome {α : Type} : List (Option α) → Option (List α)
  | [] => some []
  | none :: _ => none
  | some a :: r => (allSome r).map (a :: ·)

/-- a `;`-separated field = `:`-separated sub-fields -/
def parseField (f : Bytes) : Option (List (Option Nat)) := allSome ((splitOn 0x3a f).map parseSub)

def parseParams (body : Bytes) : Option (List (List (Option Nat))) :=
  allSome ((splitOn 0x3b body).map parseField)

structure Decoded where
  number : Nat               -- unicode-key-code / functional number / `1` for the letter form
  shifted : Option Nat       -- alternate keys
  base : Option Nat
  mods : Nat                 -- modifier MASK (= transmitted value - 1)
  event : Nat                -- 1 press, 2 repeat, 3 release
  text : List Nat            -- associated text as code points
  final : UInt8              -- `u`, `~` or one of the letters
deriving DecidableEq, Repr

/-- `unicode-key-code[:shifted-key[:base-layout-key]]` -/
def parseKey : List (Option Nat) → Option (Nat × Option Nat × Option Nat)
  | [some n] => some (n, none, none)
  | [some n, some s] => some (n, some s, none)
  | [some n, s, some b] => some (n, s, some b)
  | _ => none

/-- `modifiers[:event-type]`: the modifier value is `1 + mask` (default 1), the event type is
1, 2 or 3 (default 1) -/
def parseMods : List (Option Nat) → Option (Nat × Nat)
  | [m] => if 1 ≤ m.getD 1 then some (m.getD 1 - 1, 1) else none
  | [m, some e] => if 1 ≤ m.getD 1 ∧ 1 ≤ e ∧ e ≤ 3 then some (m.getD 1 - 1, e) else none
  | _ => none

/-- finals of the `CSI 1 ; mods letter` form: A B C D E F H P Q S -/
def isLetterFinal (b : UInt8) : Bool :=
  b == 0x41 || b == 0x42 || b == 0x43 || b == 0x44 || b == 0x45 || b == 0x46 || b == 0x48 ||
  b == 0x50 || b == 0x51 || b == 0x53

/-- `CSI number[:shifted[:base]] [; mods[:event] [; text(:text)*]] u` -/
def interpU : List (List (Option Nat)) → Option Decoded
  | [k] => (parseKey k).map fun (n, s, b) => ⟨n, s, b, 0, 1, [], 0x75⟩
  | [k, m] =>
    (parseKey k).bind fun (n, s, b) => (parseMods m).map fun (mm, e) => ⟨n, s, b, mm, e, [], 0x75⟩
  | [k, m, t] =>
    (parseKey k).bind fun (n, s, b) => (parseMods m).bind fun (mm, e) =>
      (allSome t).map fun txt => ⟨n, s, b, mm, e, txt, 0x75⟩
  | _ => none

/-- `CSI number [; mods[:event]] ~` -/
def interpTilde : List (List (Option Nat)) → Option Decoded
  | [[some n]] => some ⟨n, none, none, 0, 1, [], 0x7e⟩
  | [[some n], m] => (parseMods m).map fun (mm, e) => ⟨n, none, none, mm, e, [], 0x7e⟩
  | _ => none

/-- `CSI [1 ; mods[:event]] letter` -/
def interpLetter (fin : UInt8) : List (List (Option Nat)) → Option Decoded
  | [[none]] => some ⟨1, none, none, 0, 1, [], fin⟩
  | [[some 1], m] => (parseMods m).map fun (mm, e) => ⟨1, none, none, mm, e, [], fin⟩
  | _ => none

def interpret (fin : UInt8) (ps : List (List (Option Nat))) : Option Decoded :=
  if fin = 0x75 then interpU ps
  else if fin = 0x7e then interpTilde ps
  else if isLetterFinal fin then interpLetter fin ps
  else none

/-- decoder for the three Kitty key forms -/
def decode (bs : Bytes) : Option Decoded :=
  match bs with
  | 0x1b :: 0x5b :: rest =>
    match rest.getLast? with
    | none => none
    | some fin => (parseParams rest.dropLast).bind (interpret fin)
  | _ => none

/-! ### canonical encoder (the forms as the document writes them) -/

def sepBy (sep : UInt8) : List Bytes → Bytes
  | [] => []
  | [x] => x
  | x :: y :: rest => x ++ sep :: sepBy sep (y :: rest)

/-- `modifiers[:event]`: the event sub-field only for repeat / release (then the modifier value
is written even when it is the default 1); nothing at all for a press without modifiers -/
def modsField (mods event : Nat) : Bytes :=
  if event ≠ 1 then itoa (1 + mods) ++ 0x3a :: itoa event
  else if mods ≠ 0 then itoa (1 + mods) else []

/-- `code`, `code:shifted`, `code::base`, `code:shifted:base` -/
def keyField (n : Nat) : Option Nat → Option Nat → Bytes
  | none, none => itoa n
  | some s, none => itoa n ++ 0x3a :: itoa s
  | none, some b => itoa n ++ 0x3a :: 0x3a :: itoa b
  | some s, some b => itoa n ++ 0x3a :: (itoa s ++ 0x3a :: itoa b)

/-- The bytes for a key event with the given content: trailing default fields are omitted
(`CSI 97 u`, `CSI 97 ; 5 u`), the `1` of the letter form is omitted without modifiers
(`CSI A`), an empty modifier field in front of a text field is written as `1`. -/
def encode (d : Decoded) : Bytes :=
  let m := modsField d.mods d.event
  if d.final = 0x75 then
    if d.text = [] then
      if m = [] then [0x1b, 0x5b] ++ keyField d.number d.shifted d.base ++ [0x75]
      else [0x1b, 0x5b] ++ keyField d.number d.shifted d.base ++ 0x3b :: (m ++ [0x75])
    else [0x1b, 0x5b] ++ keyField d.number d.shifted d.base ++
      0x3b :: ((if m = [] then [0x31] else m) ++ 0x3b :: (sepBy 0x3a (d.text.map itoa) ++ [0x75]))
  else if d.final = 0x7e then
    if m = [] then [0x1b, 0x5b] ++ itoa d.number ++ [0x7e]
    else [0x1b, 0x5b] ++ itoa d.number ++ 0x3b :: (m ++ [0x7e])
  else
    if m = [] then [0x1b, 0x5b, d.final]
    else [0x1b, 0x5b, 0x31, 0x3b] ++ m ++ [d.final]

/-! ### what must be readable from the bytes under a flag set -/

/-- the key the Kitty encoder reports: keypad keys are only "separate keys" under
"Disambiguate escape codes"; otherwise they are the plain key with the same legacy bytes -/
def view (ev : KeyEv) (flags : Nat) : KeyEv :=
  if isKeypadKey ev.code ∧ !hasBit flags fDisambiguate then keypadEquivalent ev else ev

/-- event type that is transmitted: only under "Report event types", press otherwise -/
def evOf (flags event : Nat) : Nat := if hasBit flags fReportEvents then normEvent event else 1

/-- shifted alternate: only under "Report alternate keys", only when shift is in the mask -/
def altShifted (ev : KeyEv) (flags : Nat) : Option Nat :=
  if hasBit flags fReportAlternates ∧ hasBit ev.mod 1 ∧ ev.shifted ≠ 0 then some ev.shifted else none

/-- base-layout alternate: only under "Report alternate keys" -/
def altBase (ev : KeyEv) (flags : Nat) : Option Nat :=
  if hasBit flags fReportAlternates ∧ ev.base ≠ 0 then some ev.base else none

/-- associated text: only under "Report all keys" + "Report associated text"; a text key without
explicit text reports its own code point -/
def textOf (ev : KeyEv) (flags : Nat) : List Nat :=
  if hasBit flags fReportAllKeys ∧ hasBit flags fReportText then
    (if ev.text = [] ∧ ev.code = 0 ∧ ev.rune ≠ 0 then [ev.rune] else ev.text)
  else []

/-- The decoded content of the bytes for the (already keypad-mapped) event `ev'` under `flags`,
according to the document. Alternates and text exist only in the `CSI … u` form. -/
def expectedOf (ev' : KeyEv) (flags : Nat) : Option Decoded :=
  (keyId ev').map fun (n, fin) =>
    { number := n, final := fin, mods := ev'.mod, event := evOf flags ev'.event,
      shifted := if fin = 0x75 then altShifted ev' flags else none,
      base := if fin = 0x75 then altBase ev' flags else none,
      text := if fin = 0x75 then textOf ev' flags else [] }

def expected (ev : KeyEv) (flags : Nat) : Option Decoded := expectedOf (view ev flags) flags

/-- Which keys are sent in Kitty form under a flag set (all others keep their legacy bytes):
everything under "report all keys"; otherwise text keys only with a modifier other than
shift/locks and only under "disambiguate", Escape only under "disambiguate", Enter / Tab /
Backspace never, every other functional key always. -/
def reported (ev' : KeyEv) (flags : Nat) : Bool :=
  hasBit flags fReportAllKeys ||
  (if ev'.code = 0 then hasBit flags fDisambiguate && hasBit ev'.mod 62
   else if ev'.code = 14 then hasBit flags fDisambiguate
   else !(ev'.code = 13 || ev'.code = 12 || ev'.code = 11))

/-- well-formed key event: the event type is press (0/1), repeat (2) or release (3); the code
point of a text key is not a C0 control / DEL (those are the Enter, Tab, Backspace, Escape keys)
and not in the Unicode private use area (which the document reserves for functional keys) -/
def wfKey (ev : KeyEv) : Prop :=
  ev.event ≤ 3 ∧ (ev.code = 0 → 32 ≤ ev.rune ∧ ev.rune ≠ 127 ∧ ¬ (57344 ≤ ev.rune ∧ ev.rune ≤ 63743))

/-- Two events are indistinguishable to the application under `flags` ("disambiguate" on, so
keypad keys are keys of their own): same key, same modifier mask, same transmitted event type
and — for keys in the `CSI … u` form — same transmitted alternates and text. -/
def SameReport (flags : Nat) (e1 e2 : KeyEv) : Prop :=
  e1.code = e2.code ∧ (e1.code = 0 → e1.rune = e2.rune) ∧ e1.mod = e2.mod ∧
  evOf flags e1.event = evOf flags e2.event ∧
  ((∃ n, keyId e1 = some (n, 0x75)) →
    altShifted e1 flags = altShifted e2 flags ∧ altBase e1 flags = altBase e2 flags ∧
    textOf e1 flags = textOf e2 flags)

end Kitty

/-! ### legacy mode (no Kitty flags): xterm forms

The property only asks for "the xterm legacy / modifyOtherKeys sequence" here, so this is a
catalogue of forms (tied to the key by small tables), not the document's legacy tables. -/
namespace Legacy

/-- xterm number / final byte: `CSI 1 ; m X` (no modifiers: `SS3 X` or `CSI X`), `CSI n ; m ~` -/
def table : List (Nat × (Nat × UInt8)) := [
  (1, (1, 0x41)), (2, (1, 0x42)), (3, (1, 0x43)), (4, (1, 0x44)), (5, (1, 0x48)), (6, (1, 0x46)),
  (7, (2, 0x7e)), (8, (3, 0x7e)), (9, (5, 0x7e)), (10, (6, 0x7e)),
  (15, (1, 0x50)), (16, (1, 0x51)), (17, (1, 0x52)), (18, (1, 0x53)),
  (19, (15, 0x7e)), (20, (17, 0x7e)), (21, (18, 0x7e)), (22, (19, 0x7e)), (23, (20, 0x7e)),
  (24, (21, 0x7e)), (25, (23, 0x7e)), (26, (24, 0x7e))]

/-- Backspace, Tab, Enter, Escape: their C0 / DEL byte -/
def c0 : List (Nat × UInt8) := [(11, 0x7f), (12, 0x09), (13, 0x0d), (14, 0x1b)]

/-- keypad key → the plain key (key code, code point) it stands for when keypad keys are not
reported as keys of their own: digits and operators become text keys, KP_ENTER is Enter, the
keypad navigation keys are the navigation keys, KP_BEGIN is `5` -/
def keypadTable : List (Nat × (Nat × Nat)) := [
  (56, (0, 0x30)), (57, (0, 0x31)), (58, (0, 0x32)), (59, (0, 0x33)), (60, (0, 0x34)),
  (61, (0, 0x35)), (62, (0, 0x36)), (63, (0, 0x37)), (64, (0, 0x38)), (65, (0, 0x39)),
  (66, (0, 0x2e)), (67, (0, 0x2f)), (68, (0, 0x2a)), (69, (0, 0x2d)), (70, (0, 0x2b)),
  (71, (13, 0)), (72, (0, 0x3d)), (73, (0, 0x2c)),
  (74, (4, 0)), (75, (3, 0)), (76, (1, 0)), (77, (2, 0)), (78, (9, 0)), (79, (10, 0)),
  (80, (5, 0)), (81, (6, 0)), (82, (7, 0)), (83, (8, 0)), (84, (0, 0x35))]

/-- keypad keys are the plain key with the same legacy bytes -/
def view (ev : KeyEv) : KeyEv := if isKeypadKey ev.code then keypadEquivalent ev else ev

def altPrefix (e : KeyEv) (core : Bytes) : Bytes := if hasBit e.mod 2 then 0x1b :: core else core

/-- `CSI 27 ; m ; code ~` (modifyOtherKeys) -/
def otherKeys (m code : Nat) : Bytes := [0x1b, 0x5b, 0x32, 0x37, 0x3b] ++ itoa m ++ [0x3b] ++ itoa code ++ [0x7e]

/-- the forms a legacy-mode key press can take; `m = xtermModParam e.mod` -/
inductive Form (mok : Int) (app : Bool) (e : KeyEv) : Bytes → Prop
  /-- a text key without code point / an unknown key code: nothing -/
  | noRune : e.code = 0 → e.rune = 0 → Form mok app e []
  | noKey : e.code ≠ 0 → table.lookup e.code = none → c0.lookup e.code = none →
      Kitty.functionalTable.lookup e.code = none → Form mok app e []
  /-- UTF-8 text, ESC-prefixed for alt -/
  | text : e.code = 0 → e.rune ≠ 0 → ¬ (0 < mok ∧ e.mod ≠ 0) →
      (hasBit e.mod 4 = true → ctrlByte e.rune = none) → Form mok app e (altPrefix e (encodeRune e.rune))
  /-- ctrl + key with a C0 mapping, ESC-prefixed for alt -/
  | ctrl (b : UInt8) : e.code = 0 → e.rune ≠ 0 → ¬ (0 < mok ∧ e.mod ≠ 0) →
      hasBit e.mod 4 = true → ctrlByte e.rune = some b → Form mok app e (altPrefix e [b])
  /-- modifyOtherKeys: `CSI 27 ; m ; codepoint ~` -/
  | otherKeys : e.code = 0 → e.rune ≠ 0 → 0 < mok → e.mod ≠ 0 →
      Form mok app e (otherKeys (xtermModParam e.mod) e.rune)
  /-- Backspace / Tab / Enter / Escape: the C0 byte … -/
  | c0 (b : UInt8) : c0.lookup e.code = some b → (e.mod = 0 ∨ mok ≤ 0) → Form mok app e [b]
  /-- … ESC-prefixed for alt (not Escape) … -/
  | altC0 (b : UInt8) : c0.lookup e.code = some b → e.code ≠ 14 → hasBit e.mod 2 = true → mok ≤ 0 →
      Form mok app e [0x1b, b]
  /-- … or `CSI 27 ; m ; code ~` under modifyOtherKeys … -/
  | c0OtherKeys (b : UInt8) : c0.lookup e.code = some b → 0 < mok → e.mod ≠ 0 →
      Form mok app e (otherKeys (xtermModParam e.mod) b.toNat)
  /-- … and shift+Tab is `CSI Z` -/
  | backTab : e.code = 12 → e.mod = 1 → Form mok app e [0x1b, 0x5b, 0x5a]
  /-- `SS3 X`: function keys F1–F4, cursor keys in application-cursor mode -/
  | ss3 (x : UInt8) : table.lookup e.code = some (1, x) → e.mod = 0 → (app = true ∨ 15 ≤ e.code) →
      Form mok app e [0x1b, 0x4f, x]
  /-- `CSI X`: cursor keys in normal mode -/
  | csi (x : UInt8) : table.lookup e.code = some (1, x) → e.mod = 0 → app = false → e.code ≤ 6 →
      Form mok app e [0x1b, 0x5b, x]
  /-- `CSI 1 ; m X` -/
  | csi1 (x : UInt8) : table.lookup e.code = some (1, x) → x ≠ 0x7e → e.mod ≠ 0 →
      Form mok app e ([0x1b, 0x5b, 0x31, 0x3b] ++ itoa (xtermModParam e.mod) ++ [x])
  /-- `CSI n ~` -/
  | tilde (n : Nat) : table.lookup e.code = some (n, 0x7e) → e.mod = 0 →
      Form mok app e ([0x1b, 0x5b] ++ itoa n ++ [0x7e])
  /-- `CSI n ; m ~` -/
  | tildeMod (n : Nat) : table.lookup e.code = some (n, 0x7e) → e.mod ≠ 0 →
      Form mok app e ([0x1b, 0x5b] ++ itoa n ++ [0x3b] ++ itoa (xtermModParam e.mod) ++ [0x7e])
  /-- keys without a legacy encoding: `CSI number [; 1+mask] u` -/
  | csiu (n : Nat) : Kitty.functionalTable.lookup e.code = some n →
      Form mok app e ([0x1b, 0x5b] ++ itoa n ++ (if e.mod = 0 then [] else 0x3b :: itoa (1 + e.mod)) ++ [0x75])

end Legacy

open Kitty

/-! ## Lemmas -/
namespace Lemmas

/-! ### decimal round trip -/

theorem digit_val (d : Nat) (h : d < 10) : (UInt8.ofNat (48 + d)).toNat - 48 = d := by
  have : d = 0 ∨ d = 1 ∨ d = 2 ∨ d = 3 ∨ d = 4 ∨ d = 5 ∨ d = 6 ∨ d = 7 ∨ d = 8 ∨ d = 9 := by omega
  rcases this with h | h | h | h | h | h | h | h | h | h <;> subst h <;> decide

theorem digit_isDigit (d : Nat) (h : d < 10) : isDigit (UInt8.ofNat (48 + d)) = true := by
  have : d = 0 ∨ d = 1 ∨ d = 2 ∨ d = 3 ∨ d = 4 ∨ d = 5 ∨ d = 6 ∨ d = 7 ∨ d = 8 ∨ d = 9 := by omega
  rcases this with h | h | h | h | h | h | h | h | h | h <;> subst h <;> decide

theorem foldl_natDigitsAux (fuel n : Nat) (acc : Bytes) (h : n < fuel) :
    (natDigitsAux fuel n acc).foldl (fun a d => a * 10 + (d.toNat - 48)) 0
      = acc.foldl (fun a d => a * 10 + (d.toNat - 48)) n := by
  induction fuel generalizing n acc with
  | zero => omega
  | succ fuel ih =>
    simp only [natDigitsAux]
    have hd := digit_val (n % 10) (Nat.mod_lt _ (by decide))
    split
    · next h0 =>
      simp only [List.foldl_cons, hd]
      congr 1; omega
    · next h0 =>
      rw [ih _ _ (by omega)]
      simp only [List.foldl_cons, hd]
      congr 1; omega

theorem natDigitsAux_digits (fuel n : Nat) (acc : Bytes) (hacc : ∀ b ∈ acc, isDigit b = true) :
    ∀ b ∈ natDigitsAux fuel n acc, isDigit b = true := by
  induction fuel generalizing n acc with
  | zero => simpa [natDigitsAux] using hacc
  | succ fuel ih =>
    simp only [natDigitsAux]
    have hd := digit_isDigit (n % 10) (Nat.mod_lt _ (by decide))
    have hacc' : ∀ b ∈ UInt8.ofNat (48 + n % 10) :: acc, isDigit b = true := by
      intro b hb
      rcases List.mem_cons.mp hb with rfl | hb
      · exact hd
      · exact hacc b hb
    split
    · exact hacc'
    · exact ih _ _ hacc'

theorem natDigitsAux_ne_nil (fuel n : Nat) (acc : Bytes) (h : acc ≠ [] ∨ 0 < fuel) :
    natDigitsAux fuel n acc ≠ [] := by
  induction fuel generalizing n acc with
  | zero => rcases h with h | h; · simpa [natDigitsAux] using h
            · omega
  | succ fuel ih =>
    simp only [natDigitsAux]
    split
    · simp
    · exact ih _ _ (.inl (by simp))

/-- reading back the decimal rendering gives the number -/
theorem itoa_val (n : Nat) : digitsVal (itoa n) = n := by
  simpa [digitsVal, itoa] using foldl_natDigitsAux (n + 1) n [] (by omega)

theorem itoa_digits (n : Nat) : ∀ b ∈ itoa n, isDigit b = true :=
  natDigitsAux_digits (n + 1) n [] (by simp)

theorem itoa_ne_nil (n : Nat) : itoa n ≠ [] := natDigitsAux_ne_nil _ _ _ (.inr (by omega))

theorem itoa_all (n : Nat) : (itoa n).all isDigit = true := by
  simpa [List.all_eq_true] using itoa_digits n

theorem isDigit_ne_colon (b : UInt8) (h : isDigit b = true) : b ≠ 0x3a := by
  intro hb; subst hb; revert h; decide

theorem isDigit_ne_semi (b : UInt8) (h : isDigit b = true) : b ≠ 0x3b := by
  intro hb; subst hb; revert h; decide

/-! ### `splitOn` against `joinBytes` -/

theorem splitOn_nosep (sep : UInt8) (a : Bytes) (h : sep ∉ a) : splitOn sep a = [a] := by
  induction a with
  | nil => rfl
  | cons b a ih =>
    have hb : b ≠ sep := fun e => h (by simp [e])
    have ha : sep ∉ a := fun e => h (by simp [e])
    simp [splitOn, hb, ih ha]

theorem splitOn_append (sep : UInt8) (a b : Bytes) (h : sep ∉ a) :
    splitOn sep (a ++ sep :: b) = a :: splitOn sep b := by
  induction a with
  | nil => simp [splitOn]
  | cons c a ih =>
    have hb : c ≠ sep := fun e => h (by simp [e])
    have ha : sep ∉ a := fun e => h (by simp [e])
    simp [splitOn, hb, ih ha]

theorem splitOn_join (sep : UInt8) (xs : List Bytes) (hne : xs ≠ []) (h : ∀ x ∈ xs, sep ∉ x) :
    splitOn sep (joinBytes sep xs) = xs := by
  induction xs with
  | nil => exact absurd rfl hne
  | cons x rest ih =>
    cases rest with
    | nil => simpa [joinBytes] using splitOn_nosep sep x (h x (by simp))
    | cons y r =>
      rw [joinBytes, splitOn_append sep x _ (h x (by simp)), ih (by simp) (fun z hz => h z (by simp [hz]))]
      simp

/-! ### rendering of parameter lists (the inverse of `parseParams`) -/

def renderSub : Option Nat → Bytes
  | none => []
  | some n => itoa n

def renderField (subs : List (Option Nat)) : Bytes := joinBytes 0x3a (subs.map renderSub)

def renderParams (ps : List (List (Option Nat))) : Bytes := joinBytes 0x3b (ps.map renderField)

theorem renderSub_digits (o : Option Nat) : ∀ b ∈ renderSub o, isDigit b = true := by
  cases o with
  | none => simp [renderSub]
  | some n => exact itoa_digits n

theorem parseSub_render (o : Option Nat) : parseSub (renderSub o) = some o := by
  cases o with
  | none => simp [renderSub, parseSub]
  | some n =>
    have h1 := itoa_ne_nil n
    simp [renderSub, parseSub, h1, itoa_val, itoa_all]

theorem allSome_map_some {α : Type} (l : List α) : allSome (l.map some) = some l := by
  induction l with
  | nil => rfl
  | cons a l ih => simp [allSome, ih]

theorem allSome_map {α β : Type} (f : α → Option β) (g : α → β) (l : List α) (h : ∀ a ∈ l, f a = some (g a)) :
    allSome (l.map f) = some (l.map g) := by
  induction l with
  | nil => rfl
  | cons a l ih =>
    simp [allSome, h a (by simp), ih (fun b hb => h b (by simp [hb]))]

theorem parseField_render (subs : List (Option Nat)) (hne : subs ≠ []) :
    parseField (renderField subs) = some subs := by
  unfold parseField renderField
  rw [splitOn_join]
  · rw [List.map_map]
    have := allSome_map (parseSub ∘ renderSub) id subs (fun a _ => by simp [parseSub_render])
    simpa using this
  · simpa using hne
  · intro x hx
    obtain ⟨o, _, rfl⟩ := List.mem_map.mp hx
    intro hmem
    exact isDigit_ne_colon _ (renderSub_digits o _ hmem) rfl

theorem mem_joinBytes (sep : UInt8) (xs : List Bytes) (b : UInt8) (hb : b ∈ joinBytes sep xs) :
    b = sep ∨ ∃ x ∈ xs, b ∈ x := by
  induction xs with
  | nil => simp [joinBytes] at hb
  | cons x rest ih =>
    cases rest with
    | nil => exact .inr ⟨x, by simp, by simpa [joinBytes] using hb⟩
    | cons y r =>
      rw [joinBytes] at hb
      rotate_left
      · simp
      rcases List.mem_append.mp hb with h | h
      · exact .inr ⟨x, by simp, h⟩
      · rcases List.mem_cons.mp h with h | h
        · exact .inl h
        · rcases ih h with h | ⟨z, hz, hbz⟩
          · exact .inl h
          · exact .inr ⟨z, by simp [hz], hbz⟩

theorem renderField_nosemi (subs : List (Option Nat)) : (0x3b : UInt8) ∉ renderField subs := by
  intro hmem
  rcases mem_joinBytes _ _ _ hmem with h | ⟨x, hx, hbx⟩
  · revert h; decide
  · obtain ⟨o, _, rfl⟩ := List.mem_map.mp hx
    exact isDigit_ne_semi _ (renderSub_digits o _ hbx) rfl

theorem parseParams_render (ps : List (List (Option Nat))) (hne : ps ≠ []) (h : ∀ p ∈ ps, p ≠ []) :
    parseParams (renderParams ps) = some ps := by
  unfold parseParams renderParams
  rw [splitOn_join]
  · rw [List.map_map]
    have := allSome_map (parseField ∘ renderField) id ps (fun a ha => by simp [parseField_render a (h a ha)])
    simpa using this
  · simpa using hne
  · intro x hx
    obtain ⟨p, _, rfl⟩ := List.mem_map.mp hx
    exact renderField_nosemi p

/-- the decoder on a rendered parameter list -/
theorem decode_render (ps : List (List (Option Nat))) (fin : UInt8) (hne : ps ≠ []) (h : ∀ p ∈ ps, p ≠ []) :
    decode (csiB ++ renderParams ps ++ [fin]) = interpret fin ps := by
  simp [decode, csiB, parseParams_render ps hne h]

/-! ### the model's fields are renderings -/

def keySubs (code : Nat) : Option Nat → Option Nat → List (Option Nat)
  | none, none => [some code]
  | some s, none => [some code, some s]
  | s, some b => [some code, s, some b]

theorem keySubs_ne_nil (code : Nat) (s b : Option Nat) : keySubs code s b ≠ [] := by
  cases s <;> cases b <;> simp [keySubs]

theorem parseKey_keySubs (code : Nat) (s b : Option Nat) : parseKey (keySubs code s b) = some (code, s, b) := by
  cases s <;> cases b <;> simp [keySubs, parseKey]

theorem kittyKeyField_eq (code : Nat) (ev : KeyEv) (flags : Nat) :
    kittyKeyField code ev flags = renderField (keySubs code (altShifted ev flags) (altBase ev flags)) := by
  unfold kittyKeyField altShifted altBase
  by_cases hf : hasBit flags fReportAlternates = true
  · by_cases hs : ev.shifted = 0 <;> by_cases hm : hasBit ev.mod 1 = true <;> by_cases hb : ev.base = 0 <;>
      simp [hf, hs, hm, hb, keySubs, renderField, renderSub, joinBytes]
  · simp [hf, keySubs, renderField, renderSub, joinBytes]

def modSubs (mod event flags : Nat) : List (Option Nat) :=
  if hasBit flags fReportEvents ∧ normEvent event ≠ 1 then [some (1 + mod), some (normEvent event)]
  else if mod = 0 then [none] else [some (1 + mod)]

theorem kittyModField_eq (mod event flags : Nat) :
    kittyModField mod event flags = renderField (modSubs mod event flags) := by
  unfold kittyModField modSubs
  by_cases h1 : hasBit flags fReportEvents = true ∧ normEvent event ≠ 1
  · simp [h1, renderField, renderSub, joinBytes]
  · by_cases h2 : mod = 0 <;> simp [h1, h2, renderField, renderSub, joinBytes]

theorem kittyModField_isEmpty (mod event flags : Nat) :
    (kittyModField mod event flags).isEmpty = true ↔ modSubs mod event flags = [none] := by
  unfold kittyModField modSubs
  have h0 := itoa_ne_nil (1 + mod)
  by_cases h1 : hasBit flags fReportEvents = true ∧ normEvent event ≠ 1
  · simp [h1, h0]
  · by_cases h2 : mod = 0 <;> simp [h1, h2, h0]

theorem normEvent_le (event : Nat) (h : event ≤ 3) : 1 ≤ normEvent event ∧ normEvent event ≤ 3 := by
  unfold normEvent; split <;> omega

theorem parseMods_modSubs (mod event flags : Nat) (h : event ≤ 3) :
    parseMods (modSubs mod event flags) = some (mod, evOf flags event) := by
  unfold modSubs evOf
  have := normEvent_le event h
  by_cases hf : hasBit flags fReportEvents = true
  · by_cases h1 : normEvent event = 1
    · by_cases h2 : mod = 0 <;> simp [hf, h1, h2, parseMods]
    · simp [hf, h1, parseMods, this]
  · by_cases h2 : mod = 0 <;> simp [hf, h2, parseMods]

theorem modSubs_ne_nil (mod event flags : Nat) : modSubs mod event flags ≠ [] := by
  unfold modSubs; split
  · simp
  · split <;> simp

theorem kittyModField_nonEmpty (mod event flags : Nat) (he : ¬ (kittyModField mod event flags).isEmpty = true) :
    modSubs mod event flags ≠ [none] := fun e => he ((kittyModField_isEmpty mod event flags).mpr e)

theorem evOf_of_empty (mod event flags : Nat) (h : event ≤ 3) (he : modSubs mod event flags = [none]) :
    mod = 0 ∧ evOf flags event = 1 := by
  have hp := parseMods_modSubs mod event flags h
  rw [he] at hp
  simp [parseMods] at hp
  exact ⟨hp.1.symm, hp.2.symm⟩

/-- the `CSI 1 ; mods letter` form decodes to number 1, the letter, the mask and the event -/
theorem decode_CSI1 (fin : UInt8) (hfin : isLetterFinal fin = true) (mod event flags : Nat) (h : event ≤ 3) :
    decode (kittyCSI1 fin (kittyModField mod event flags)) =
      some ⟨1, none, none, mod, evOf flags event, [], fin⟩ := by
  have hu : fin ≠ 0x75 := by intro e; subst e; revert hfin; decide
  have ht : fin ≠ 0x7e := by intro e; subst e; revert hfin; decide
  unfold kittyCSI1
  by_cases he : (kittyModField mod event flags).isEmpty = true
  · obtain ⟨h1, h2⟩ := evOf_of_empty mod event flags h ((kittyModField_isEmpty mod event flags).mp he)
    have := decode_render [[none]] fin (by simp) (by simp)
    simp only [renderParams, renderField, renderSub, joinBytes, csiB, List.map] at this
    rw [if_pos he]
    simp at this
    rw [this]
    simp [interpret, interpLetter, hu, ht, hfin, h1, h2]
  · have := decode_render [[some 1], modSubs mod event flags] fin (by simp) (by simp [modSubs_ne_nil])
    simp only [renderParams, joinBytes, List.map] at this
    rw [← kittyModField_eq] at this
    have h1 : renderField [some 1] = [0x31] := by decide
    rw [if_neg he]
    simp only [h1] at this
    simp only [List.append_assoc, List.cons_append, List.nil_append] at this ⊢
    rw [this]
    simp [interpret, interpLetter, hu, ht, hfin, parseMods_modSubs mod event flags h]

/-- the `CSI number ; mods ~` form decodes to the number, the mask and the event -/
theorem decode_Tilde (n mod event flags : Nat) (h : event ≤ 3) :
    decode (kittyCSITilde n (kittyModField mod event flags)) =
      some ⟨n, none, none, mod, evOf flags event, [], 0x7e⟩ := by
  unfold kittyCSITilde
  have hn : renderField [some n] = itoa n := by simp [renderField, renderSub, joinBytes]
  by_cases he : (kittyModField mod event flags).isEmpty = true
  · obtain ⟨h1, h2⟩ := evOf_of_empty mod event flags h ((kittyModField_isEmpty mod event flags).mp he)
    have := decode_render [[some n]] 0x7e (by simp) (by simp)
    simp only [renderParams, joinBytes, List.map, hn] at this
    rw [if_pos he, this]
    simp [interpret, interpTilde, h1, h2]
  · have := decode_render [[some n], modSubs mod event flags] 0x7e (by simp) (by simp [modSubs_ne_nil])
    simp only [renderParams, joinBytes, List.map, hn] at this
    rw [← kittyModField_eq] at this
    rw [if_neg he]
    simp only [List.append_assoc, List.cons_append, List.nil_append] at this ⊢
    rw [this]
    simp [interpret, interpTilde, parseMods_modSubs mod event flags h]

theorem textField_render (txt : List Nat) : joinBytes 0x3a (txt.map itoa) = renderField (txt.map some) := by
  simp [renderField, List.map_map, Function.comp_def, renderSub]

theorem joinBytes_isEmpty (txt : List Nat) : (joinBytes 0x3a (txt.map itoa)).isEmpty = true ↔ txt = [] := by
  cases txt with
  | nil => simp [joinBytes]
  | cons a r =>
    have := itoa_ne_nil a
    cases r with
    | nil => simp [joinBytes, this]
    | cons b r => simp [joinBytes, this]

/-- the `CSI key ; mods ; text u` form decodes to the number, alternates, mask, event and text -/
theorem decode_CSIu (code : Nat) (ev : KeyEv) (flags : Nat) (txt : List Nat) (h : ev.event ≤ 3) :
    decode (kittyCSIu (kittyKeyField code ev flags) (kittyModField ev.mod ev.event flags)
        (joinBytes 0x3a (txt.map itoa))) =
      some ⟨code, altShifted ev flags, altBase ev flags, ev.mod, evOf flags ev.event, txt, 0x75⟩ := by
  unfold kittyCSIu
  have hk := keySubs_ne_nil code (altShifted ev flags) (altBase ev flags)
  have hpk := parseKey_keySubs code (altShifted ev flags) (altBase ev flags)
  have h1 : renderField [some 1] = [0x31] := by decide
  by_cases he : (kittyModField ev.mod ev.event flags).isEmpty = true
  · obtain ⟨hm1, hm2⟩ := evOf_of_empty ev.mod ev.event flags h ((kittyModField_isEmpty _ _ _).mp he)
    by_cases ht : txt = []
    · have hte := (joinBytes_isEmpty txt).mpr ht
      have := decode_render [keySubs code (altShifted ev flags) (altBase ev flags)] 0x75 (by simp) (by simp [hk])
      simp only [renderParams, joinBytes, List.map] at this
      rw [← kittyKeyField_eq] at this
      rw [if_pos ⟨he, hte⟩, this]
      simp [interpret, interpU, hpk, ← hm1, hm2, ht]
    · have hte : ¬ (joinBytes 0x3a (txt.map itoa)).isEmpty = true := fun e => ht ((joinBytes_isEmpty txt).mp e)
      have := decode_render [keySubs code (altShifted ev flags) (altBase ev flags), [some 1], txt.map some] 0x75
        (by simp) (by simp [hk, ht])
      simp only [renderParams, joinBytes, List.map, h1] at this
      rw [← kittyKeyField_eq, ← textField_render] at this
      rw [if_neg (fun e => hte e.2), if_pos he, if_neg hte]
      simp only [List.append_assoc, List.cons_append, List.nil_append] at this ⊢
      rw [this]
      simp [interpret, interpU, hpk, parseMods, allSome_map_some, ← hm1, hm2]
  · by_cases ht : txt = []
    · have hte := (joinBytes_isEmpty txt).mpr ht
      have := decode_render [keySubs code (altShifted ev flags) (altBase ev flags), modSubs ev.mod ev.event flags] 0x75
        (by simp) (by simp [hk, modSubs_ne_nil])
      simp only [renderParams, joinBytes, List.map] at this
      rw [← kittyKeyField_eq, ← kittyModField_eq] at this
      rw [if_neg (fun e => he e.1), if_neg he, if_pos hte]
      simp only [List.append_assoc, List.cons_append, List.nil_append] at this ⊢
      rw [this]
      simp [interpret, interpU, hpk, parseMods_modSubs _ _ _ h, ht]
    · have hte : ¬ (joinBytes 0x3a (txt.map itoa)).isEmpty = true := fun e => ht ((joinBytes_isEmpty txt).mp e)
      have := decode_render [keySubs code (altShifted ev flags) (altBase ev flags), modSubs ev.mod ev.event flags,
        txt.map some] 0x75 (by simp) (by simp [hk, ht, modSubs_ne_nil])
      simp only [renderParams, joinBytes, List.map] at this
      rw [← kittyKeyField_eq, ← kittyModField_eq, ← textField_render] at this
      rw [if_neg (fun e => he e.1), if_neg he, if_neg hte]
      simp only [List.append_assoc, List.cons_append, List.nil_append] at this ⊢
      rw [this]
      simp [interpret, interpU, hpk, parseMods_modSubs _ _ _ h, allSome_map_some]

theorem kittyTextField_eq (ev : KeyEv) (flags : Nat) :
    kittyTextField ev flags = joinBytes 0x3a ((textOf ev flags).map itoa) := by
  unfold kittyTextField textOf
  by_cases h8 : hasBit flags fReportAllKeys = true <;> by_cases h16 : hasBit flags fReportText = true <;>
    simp [h8, h16, joinBytes, kRune]

theorem decode_CSIu_nil (code : Nat) (ev : KeyEv) (flags : Nat) (h : ev.event ≤ 3) :
    decode (kittyCSIu (kittyKeyField code ev flags) (kittyModField ev.mod ev.event flags) []) =
      some ⟨code, altShifted ev flags, altBase ev flags, ev.mod, evOf flags ev.event, [], 0x75⟩ := by
  simpa [joinBytes] using decode_CSIu code ev flags [] h

/-! ### the model's sequences are the canonical encodings -/

theorem sepBy_eq (sep : UInt8) (xs : List Bytes) : sepBy sep xs = joinBytes sep xs := by
  induction xs with
  | nil => rfl
  | cons x rest ih =>
    cases rest with
    | nil => rfl
    | cons y r => simp only [sepBy, joinBytes, ih]

theorem modsField_eq (mod event flags : Nat) :
    kittyModField mod event flags = modsField mod (evOf flags event) := by
  unfold kittyModField modsField evOf
  by_cases hf : hasBit flags fReportEvents = true
  · by_cases h1 : normEvent event = 1 <;> by_cases h2 : mod = 0 <;> simp [hf, h1, h2]
  · by_cases h2 : mod = 0 <;> simp [hf, h2]

theorem keyField_eq (code : Nat) (ev : KeyEv) (flags : Nat) :
    kittyKeyField code ev flags = keyField code (altShifted ev flags) (altBase ev flags) := by
  unfold kittyKeyField altShifted altBase
  by_cases hf : hasBit flags fReportAlternates = true
  · by_cases hs : ev.shifted = 0 <;> by_cases hm : hasBit ev.mod 1 = true <;> by_cases hb : ev.base = 0 <;>
      simp [hf, hs, hm, hb, keyField]
  · simp [hf, keyField]

theorem isEmpty_iff_eq_nil (l : Bytes) : l.isEmpty = true ↔ l = [] := by
  cases l <;> simp

theorem encode_CSI1 (fin : UInt8) (hfin : isLetterFinal fin = true) (mod event flags : Nat) :
    kittyCSI1 fin (kittyModField mod event flags) =
      encode ⟨1, none, none, mod, evOf flags event, [], fin⟩ := by
  have hu : fin ≠ 0x75 := by intro e; subst e; revert hfin; decide
  have ht : fin ≠ 0x7e := by intro e; subst e; revert hfin; decide
  unfold kittyCSI1 encode
  simp only [modsField_eq, hu, ht, if_false, isEmpty_iff_eq_nil, csiB]
  split <;> simp

theorem encode_Tilde (n mod event flags : Nat) :
    kittyCSITilde n (kittyModField mod event flags) =
      encode ⟨n, none, none, mod, evOf flags event, [], 0x7e⟩ := by
  unfold kittyCSITilde encode
  have hu : (0x7e : UInt8) ≠ 0x75 := by decide
  simp only [modsField_eq, hu, if_false, if_true, isEmpty_iff_eq_nil, csiB]
  split <;> simp

theorem encode_CSIu (code : Nat) (ev : KeyEv) (flags : Nat) (txt : List Nat) :
    kittyCSIu (kittyKeyField code ev flags) (kittyModField ev.mod ev.event flags)
        (joinBytes 0x3a (txt.map itoa)) =
      encode ⟨code, altShifted ev flags, altBase ev flags, ev.mod, evOf flags ev.event, txt, 0x75⟩ := by
  unfold kittyCSIu encode
  simp only [modsField_eq, keyField_eq, if_true, isEmpty_iff_eq_nil, csiB, sepBy_eq]
  have ht := joinBytes_isEmpty txt
  rw [isEmpty_iff_eq_nil] at ht
  by_cases h1 : modsField ev.mod (evOf flags ev.event) = [] <;> by_cases h2 : txt = []
  · simp [h1, h2, joinBytes]
  · simp [h1, h2, ht]
  · simp [h1, h2, joinBytes]
  · simp [h1, h2, ht]

theorem encode_CSIu_nil (code : Nat) (ev : KeyEv) (flags : Nat) :
    kittyCSIu (kittyKeyField code ev flags) (kittyModField ev.mod ev.event flags) [] =
      encode ⟨code, altShifted ev flags, altBase ev flags, ev.mod, evOf flags ev.event, [], 0x75⟩ := by
  simpa [joinBytes] using encode_CSIu code ev flags []

/-! ### the tables against the model's case analysis -/

theorem lookup_none_of_bound {β : Type} (l : List (Nat × β)) (n c : Nat) (h : ∀ p ∈ l, p.1 < n) (hc : n ≤ c) :
    l.lookup c = none := by
  induction l with
  | nil => rfl
  | cons p l ih =>
    have hp : p.1 < n := h p (by simp)
    obtain ⟨a, b⟩ := p
    have : (c == a) = false := by simp at hp ⊢; omega
    simp [List.lookup, this, ih (fun q hq => h q (by simp [hq]))]

theorem functionalTable_bound : ∀ p ∈ functionalTable, p.1 < 112 := by decide
theorem legacyCompatTable_bound : ∀ p ∈ legacyCompatTable, p.1 < 112 := by decide
theorem c0Table_bound : ∀ p ∈ c0Table, p.1 < 112 := by decide

theorem kittyFunctionalCode_small : ∀ c < 112, kittyFunctionalCode c = functionalTable.lookup c := by decide

theorem kittyFunctionalCode_big (c : Nat) (hc : 112 ≤ c) : kittyFunctionalCode c = none := by
  unfold kittyFunctionalCode
  repeat (first | rfl | rw [if_neg (by omega)])

theorem kittyFunctionalCode_some (c n : Nat) (h : kittyFunctionalCode c = some n) :
    (50 ≤ c ∧ c ≤ 55 ∧ n = 57358 + (c - 50)) ∨ (27 ≤ c ∧ c ≤ 49 ∧ n = 57376 + (c - 27)) ∨
    (56 ≤ c ∧ c ≤ 84 ∧ n = 57399 + (c - 56)) ∨ (85 ≤ c ∧ c ≤ 111 ∧ n = 57428 + (c - 85)) := by
  unfold kittyFunctionalCode at h
  split at h
  · simp at h; omega
  split at h
  · simp at h; omega
  split at h
  · simp at h; omega
  split at h
  · simp at h; omega
  · cases h

theorem keyOfCode_F : ∀ c < 112, 19 ≤ c → c ≤ 26 → keyOfCode c = some (fTilde c, 0x7e) := by decide

theorem keyOfCode_functional : ∀ c < 112, 27 ≤ c → c ≠ 84 →
    keyOfCode c = (kittyFunctionalCode c).map fun n => (n, 0x75) := by decide

end Lemmas
open Lemmas



/-! ## B. Properties (each with the lemmas it needs just above it) -/

/-! ### 1. the functional key table -/

/-- the model's number for a functional key is the one in the document's table — for every
`Nat` key code (outside the table both are `none`) -/
theorem functionalCode_matches_protocol (c : Nat) :
    kittyFunctionalCode c = functionalTable.lookup c := by
  by_cases hc : c < 112
  · exact kittyFunctionalCode_small c hc
  · rw [lookup_none_of_bound _ 112 c functionalTable_bound (by omega)]
    exact kittyFunctionalCode_big c (by omega)

/-- distinct functional keys get distinct numbers -/
theorem functionalCode_injective (a b n : Nat) (ha : kittyFunctionalCode a = some n)
    (hb : kittyFunctionalCode b = some n) : a = b := by
  have h1 := kittyFunctionalCode_some a n ha
  have h2 := kittyFunctionalCode_some b n hb
  omega


/-- the letter / tilde assignments of the encoder are those of the document's table: for each
of the 23 legacy-compatible keys, with any modifiers / event / flags, the output is
`CSI 1 ; mods letter` resp. `CSI number ; mods ~` with the table's number and final byte -/
theorem letter_tilde_matches_protocol (ev : KeyEv) (flags n : Nat) (fin : UInt8)
    (h : legacyCompatTable.lookup ev.code = some (n, fin)) :
    encodeKittyPlain ev flags = some
      (if fin = 0x7e then kittyCSITilde n (kittyModField ev.mod ev.event flags)
       else kittyCSI1 fin (kittyModField ev.mod ev.event flags)) := by
  have hc : ev.code < 112 := by
    by_cases hc : ev.code < 112
    · exact hc
    · rw [lookup_none_of_bound _ 112 _ legacyCompatTable_bound (by omega)] at h; cases h
  have key : ∀ c < 112, ∀ n fin, legacyCompatTable.lookup c = some (n, fin) →
      (c = 1 ∧ n = 1 ∧ fin = 0x41) ∨ (c = 2 ∧ n = 1 ∧ fin = 0x42) ∨ (c = 3 ∧ n = 1 ∧ fin = 0x43) ∨
      (c = 4 ∧ n = 1 ∧ fin = 0x44) ∨ (c = 5 ∧ n = 1 ∧ fin = 0x48) ∨ (c = 6 ∧ n = 1 ∧ fin = 0x46) ∨
      (c = 7 ∧ n = 2 ∧ fin = 0x7e) ∨ (c = 8 ∧ n = 3 ∧ fin = 0x7e) ∨ (c = 9 ∧ n = 5 ∧ fin = 0x7e) ∨
      (c = 10 ∧ n = 6 ∧ fin = 0x7e) ∨ (c = 15 ∧ n = 1 ∧ fin = 0x50) ∨ (c = 16 ∧ n = 1 ∧ fin = 0x51) ∨
      (c = 17 ∧ n = 13 ∧ fin = 0x7e) ∨ (c = 18 ∧ n = 1 ∧ fin = 0x53) ∨
      (19 ≤ c ∧ c ≤ 26 ∧ n = fTilde c ∧ fin = 0x7e) ∨ (c = 84 ∧ n = 57427 ∧ fin = 0x7e) := by
    intro c hc n fin h
    have : ∀ c < 112, (legacyCompatTable.lookup c).all (fun p => decide (
      (c = 1 ∧ p.1 = 1 ∧ p.2 = 0x41) ∨ (c = 2 ∧ p.1 = 1 ∧ p.2 = 0x42) ∨ (c = 3 ∧ p.1 = 1 ∧ p.2 = 0x43) ∨
      (c = 4 ∧ p.1 = 1 ∧ p.2 = 0x44) ∨ (c = 5 ∧ p.1 = 1 ∧ p.2 = 0x48) ∨ (c = 6 ∧ p.1 = 1 ∧ p.2 = 0x46) ∨
      (c = 7 ∧ p.1 = 2 ∧ p.2 = 0x7e) ∨ (c = 8 ∧ p.1 = 3 ∧ p.2 = 0x7e) ∨ (c = 9 ∧ p.1 = 5 ∧ p.2 = 0x7e) ∨
      (c = 10 ∧ p.1 = 6 ∧ p.2 = 0x7e) ∨ (c = 15 ∧ p.1 = 1 ∧ p.2 = 0x50) ∨ (c = 16 ∧ p.1 = 1 ∧ p.2 = 0x51) ∨
      (c = 17 ∧ p.1 = 13 ∧ p.2 = 0x7e) ∨ (c = 18 ∧ p.1 = 1 ∧ p.2 = 0x53) ∨
      (19 ≤ c ∧ c ≤ 26 ∧ p.1 = fTilde c ∧ p.2 = 0x7e) ∨ (c = 84 ∧ p.1 = 57427 ∧ p.2 = 0x7e))) = true := by
      decide
    have := this c hc
    rw [h] at this
    simpa using this
  rcases key ev.code hc n fin h with h | h | h | h | h | h | h | h | h | h | h | h | h | h | h | h
  all_goals first
    | (obtain ⟨hc, rfl, rfl⟩ := h
       simp [encodeKittyPlain, hc, kRune, kUp, kDown, kRight, kLeft, kHome, kEnd, kInsert, kDelete,
         kPageUp, kPageDown, kBackspace, kTab, kEnter, kEscape, kKPBegin])
    | (obtain ⟨h1, h2, rfl, rfl⟩ := h
       have e0 : ev.code ≠ 0 := by omega
       have e1 : ev.code ≠ 1 := by omega
       have e2 : ev.code ≠ 2 := by omega
       have e3 : ev.code ≠ 3 := by omega
       have e4 : ev.code ≠ 4 := by omega
       have e5 : ev.code ≠ 5 := by omega
       have e6 : ev.code ≠ 6 := by omega
       have e7 : ev.code ≠ 7 := by omega
       have e8 : ev.code ≠ 8 := by omega
       have e9 : ev.code ≠ 9 := by omega
       have e10 : ev.code ≠ 10 := by omega
       have e15 : ev.code ≠ 15 := by omega
       have e16 : ev.code ≠ 16 := by omega
       have e17 : ev.code ≠ 17 := by omega
       have e18 : ev.code ≠ 18 := by omega
       simp [encodeKittyPlain, kRune, kUp, kDown, kRight, kLeft, kHome, kEnd, kInsert, kDelete,
         kPageUp, kPageDown, e0, e1, e2, e3, e4, e5, e6, e7, e8, e9, e10, e15, e16, e17, e18, h1, h2])

theorem plain_form (ev : KeyEv) (flags : Nat) (b : Bytes) (hev : ev.event ≤ 3)
    (h : encodeKittyPlain ev flags = some b) :
    ∃ d, expectedOf ev flags = some d ∧ decode b = some d ∧ b = encode d := by
  unfold encodeKittyPlain at h
  simp only at h
  by_cases hc0 : ev.code = kRune
  · rw [if_pos hc0] at h
    have hc0' : ev.code = 0 := hc0
    split at h
    · cases h
    next hr =>
    split at h
    · next hall =>
      cases h
      rw [kittyTextField_eq]
      exact ⟨_, by simp [expectedOf, keyId, hc0', hr], decode_CSIu _ _ _ _ hev, encode_CSIu _ _ _ _⟩
    next hall =>
    split at h
    · cases h
      have ht : textOf ev flags = [] := by simp [textOf, hall]
      exact ⟨_, by simp [expectedOf, keyId, hc0', hr, ht], decode_CSIu_nil _ _ _ hev, encode_CSIu_nil _ _ _⟩
    · cases h
  rw [if_neg hc0] at h
  have hc0' : ¬ ev.code = 0 := hc0
  by_cases h1 : ev.code = kUp
  · rw [if_pos h1] at h; cases h
    have hk : keyOfCode ev.code = some (1, 0x41) := by rw [show ev.code = 1 from h1]; decide
    exact ⟨_, by simp [expectedOf, keyId, hc0', hk], decode_CSI1 _ (by decide) _ _ _ hev, encode_CSI1 _ (by decide) _ _ _⟩
  rw [if_neg h1] at h
  by_cases h2 : ev.code = kDown
  · rw [if_pos h2] at h; cases h
    have hk : keyOfCode ev.code = some (1, 0x42) := by rw [show ev.code = 2 from h2]; decide
    exact ⟨_, by simp [expectedOf, keyId, hc0', hk], decode_CSI1 _ (by decide) _ _ _ hev, encode_CSI1 _ (by decide) _ _ _⟩
  rw [if_neg h2] at h
  by_cases h3 : ev.code = kRight
  · rw [if_pos h3] at h; cases h
    have hk : keyOfCode ev.code = some (1, 0x43) := by rw [show ev.code = 3 from h3]; decide
    exact ⟨_, by simp [expectedOf, keyId, hc0', hk], decode_CSI1 _ (by decide) _ _ _ hev, encode_CSI1 _ (by decide) _ _ _⟩
  rw [if_neg h3] at h
  by_cases h4 : ev.code = kLeft
  · rw [if_pos h4] at h; cases h
    have hk : keyOfCode ev.code = some (1, 0x44) := by rw [show ev.code = 4 from h4]; decide
    exact ⟨_, by simp [expectedOf, keyId, hc0', hk], decode_CSI1 _ (by decide) _ _ _ hev, encode_CSI1 _ (by decide) _ _ _⟩
  rw [if_neg h4] at h
  by_cases h5 : ev.code = kHome
  · rw [if_pos h5] at h; cases h
    have hk : keyOfCode ev.code = some (1, 0x48) := by rw [show ev.code = 5 from h5]; decide
    exact ⟨_, by simp [expectedOf, keyId, hc0', hk], decode_CSI1 _ (by decide) _ _ _ hev, encode_CSI1 _ (by decide) _ _ _⟩
  rw [if_neg h5] at h
  by_cases h6 : ev.code = kEnd
  · rw [if_pos h6] at h; cases h
    have hk : keyOfCode ev.code = some (1, 0x46) := by rw [show ev.code = 6 from h6]; decide
    exact ⟨_, by simp [expectedOf, keyId, hc0', hk], decode_CSI1 _ (by decide) _ _ _ hev, encode_CSI1 _ (by decide) _ _ _⟩
  rw [if_neg h6] at h
  by_cases h7 : ev.code = kInsert
  · rw [if_pos h7] at h; cases h
    have hk : keyOfCode ev.code = some (2, 0x7e) := by rw [show ev.code = 7 from h7]; decide
    exact ⟨_, by simp [expectedOf, keyId, hc0', hk], decode_Tilde _ _ _ _ hev, encode_Tilde _ _ _ _⟩
  rw [if_neg h7] at h
  by_cases h8 : ev.code = kDelete
  · rw [if_pos h8] at h; cases h
    have hk : keyOfCode ev.code = some (3, 0x7e) := by rw [show ev.code = 8 from h8]; decide
    exact ⟨_, by simp [expectedOf, keyId, hc0', hk], decode_Tilde _ _ _ _ hev, encode_Tilde _ _ _ _⟩
  rw [if_neg h8] at h
  by_cases h9 : ev.code = kPageUp
  · rw [if_pos h9] at h; cases h
    have hk : keyOfCode ev.code = some (5, 0x7e) := by rw [show ev.code = 9 from h9]; decide
    exact ⟨_, by simp [expectedOf, keyId, hc0', hk], decode_Tilde _ _ _ _ hev, encode_Tilde _ _ _ _⟩
  rw [if_neg h9] at h
  by_cases h10 : ev.code = kPageDown
  · rw [if_pos h10] at h; cases h
    have hk : keyOfCode ev.code = some (6, 0x7e) := by rw [show ev.code = 10 from h10]; decide
    exact ⟨_, by simp [expectedOf, keyId, hc0', hk], decode_Tilde _ _ _ _ hev, encode_Tilde _ _ _ _⟩
  rw [if_neg h10] at h
  by_cases h15 : ev.code = 15
  · rw [if_pos h15] at h; cases h
    have hk : keyOfCode ev.code = some (1, 0x50) := by rw [show ev.code = 15 from h15]; decide
    exact ⟨_, by simp [expectedOf, keyId, hc0', hk], decode_CSI1 _ (by decide) _ _ _ hev, encode_CSI1 _ (by decide) _ _ _⟩
  rw [if_neg h15] at h
  by_cases h16 : ev.code = 16
  · rw [if_pos h16] at h; cases h
    have hk : keyOfCode ev.code = some (1, 0x51) := by rw [show ev.code = 16 from h16]; decide
    exact ⟨_, by simp [expectedOf, keyId, hc0', hk], decode_CSI1 _ (by decide) _ _ _ hev, encode_CSI1 _ (by decide) _ _ _⟩
  rw [if_neg h16] at h
  by_cases h17 : ev.code = 17
  · rw [if_pos h17] at h; cases h
    have hk : keyOfCode ev.code = some (13, 0x7e) := by rw [show ev.code = 17 from h17]; decide
    exact ⟨_, by simp [expectedOf, keyId, hc0', hk], decode_Tilde _ _ _ _ hev, encode_Tilde _ _ _ _⟩
  rw [if_neg h17] at h
  by_cases h18 : ev.code = 18
  · rw [if_pos h18] at h; cases h
    have hk : keyOfCode ev.code = some (1, 0x53) := by rw [show ev.code = 18 from h18]; decide
    exact ⟨_, by simp [expectedOf, keyId, hc0', hk], decode_CSI1 _ (by decide) _ _ _ hev, encode_CSI1 _ (by decide) _ _ _⟩
  rw [if_neg h18] at h
  by_cases hF : 19 ≤ ev.code ∧ ev.code ≤ 26
  · rw [if_pos hF] at h; cases h
    have hk := keyOfCode_F ev.code (by omega) hF.1 hF.2
    exact ⟨_, by simp [expectedOf, keyId, hc0', hk], decode_Tilde _ _ _ _ hev, encode_Tilde _ _ _ _⟩
  rw [if_neg hF] at h
  by_cases h14 : ev.code = kEscape
  · rw [if_pos h14] at h
    split at h
    · cases h
      have hk : keyOfCode ev.code = some (27, 0x75) := by rw [show ev.code = 14 from h14]; decide
      rw [kittyTextField_eq]
      exact ⟨_, by simp [expectedOf, keyId, hc0', hk], decode_CSIu _ _ _ _ hev, encode_CSIu _ _ _ _⟩
    · cases h
  rw [if_neg h14] at h
  by_cases h13 : ev.code = kEnter
  · rw [if_pos h13] at h
    split at h
    · cases h
      have hk : keyOfCode ev.code = some (13, 0x75) := by rw [show ev.code = 13 from h13]; decide
      rw [kittyTextField_eq]
      exact ⟨_, by simp [expectedOf, keyId, hc0', hk], decode_CSIu _ _ _ _ hev, encode_CSIu _ _ _ _⟩
    · cases h
  rw [if_neg h13] at h
  by_cases h12 : ev.code = kTab
  · rw [if_pos h12] at h
    split at h
    · cases h
      have hk : keyOfCode ev.code = some (9, 0x75) := by rw [show ev.code = 12 from h12]; decide
      rw [kittyTextField_eq]
      exact ⟨_, by simp [expectedOf, keyId, hc0', hk], decode_CSIu _ _ _ _ hev, encode_CSIu _ _ _ _⟩
    · cases h
  rw [if_neg h12] at h
  by_cases h11 : ev.code = kBackspace
  · rw [if_pos h11] at h
    split at h
    · cases h
      have hk : keyOfCode ev.code = some (127, 0x75) := by rw [show ev.code = 11 from h11]; decide
      rw [kittyTextField_eq]
      exact ⟨_, by simp [expectedOf, keyId, hc0', hk], decode_CSIu _ _ _ _ hev, encode_CSIu _ _ _ _⟩
    · cases h
  rw [if_neg h11] at h
  by_cases h84 : ev.code = kKPBegin
  · rw [if_pos h84] at h; cases h
    have hk : keyOfCode ev.code = some (57427, 0x7e) := by rw [show ev.code = 84 from h84]; decide
    exact ⟨_, by simp [expectedOf, keyId, hc0', hk], decode_Tilde _ _ _ _ hev, encode_Tilde _ _ _ _⟩
  rw [if_neg h84] at h
  split at h
  · next code hcode =>
    cases h
    have hr := kittyFunctionalCode_some _ _ hcode
    have hk := keyOfCode_functional ev.code (by omega) (by omega) h84
    rw [hcode] at hk
    rw [kittyTextField_eq]
    exact ⟨_, by simp [expectedOf, keyId, hc0', hk], decode_CSIu _ _ _ _ hev, encode_CSIu _ _ _ _⟩
  · cases h


set_option linter.unusedSimpArgs false in
/-- the encoder answers exactly for the reported keys that have a protocol identity -/
theorem plain_isSome_iff (ev : KeyEv) (flags : Nat) :
    (encodeKittyPlain ev flags).isSome = (reported ev flags && (keyId ev).isSome) := by
  by_cases hc0 : ev.code = 0
  · by_cases hr : ev.rune = 0
    · simp [encodeKittyPlain, reported, keyId, hc0, hr, kRune]
    · by_cases hall : hasBit flags fReportAllKeys = true
      · simp [encodeKittyPlain, reported, keyId, hc0, hr, kRune, hall]
      · by_cases hd : hasBit flags fDisambiguate = true <;> by_cases hm : hasBit ev.mod 62 = true <;>
          simp [encodeKittyPlain, reported, keyId, hc0, hr, kRune, hall, hd, hm]
  by_cases h1 : ev.code = 1
  · have hk : keyOfCode 1 = some (1, 0x41) := by decide
    simp [encodeKittyPlain, reported, keyId, h1, hk, kRune, kUp, kDown, kRight, kLeft, kHome, kEnd, kInsert, kDelete,
      kPageUp, kPageDown, kBackspace, kTab, kEnter, kEscape, kKPBegin]
  by_cases h2 : ev.code = 2
  · have hk : keyOfCode 2 = some (1, 0x42) := by decide
    simp [encodeKittyPlain, reported, keyId, h2, hk, kRune, kUp, kDown, kRight, kLeft, kHome, kEnd, kInsert, kDelete,
      kPageUp, kPageDown, kBackspace, kTab, kEnter, kEscape, kKPBegin]
  by_cases h3 : ev.code = 3
  · have hk : keyOfCode 3 = some (1, 0x43) := by decide
    simp [encodeKittyPlain, reported, keyId, h3, hk, kRune, kUp, kDown, kRight, kLeft, kHome, kEnd, kInsert, kDelete,
      kPageUp, kPageDown, kBackspace, kTab, kEnter, kEscape, kKPBegin]
  by_cases h4 : ev.code = 4
  · have hk : keyOfCode 4 = some (1, 0x44) := by decide
    simp [encodeKittyPlain, reported, keyId, h4, hk, kRune, kUp, kDown, kRight, kLeft, kHome, kEnd, kInsert, kDelete,
      kPageUp, kPageDown, kBackspace, kTab, kEnter, kEscape, kKPBegin]
  by_cases h5 : ev.code = 5
  · have hk : keyOfCode 5 = some (1, 0x48) := by decide
    simp [encodeKittyPlain, reported, keyId, h5, hk, kRune, kUp, kDown, kRight, kLeft, kHome, kEnd, kInsert, kDelete,
      kPageUp, kPageDown, kBackspace, kTab, kEnter, kEscape, kKPBegin]
  by_cases h6 : ev.code = 6
  · have hk : keyOfCode 6 = some (1, 0x46) := by decide
    simp [encodeKittyPlain, reported, keyId, h6, hk, kRune, kUp, kDown, kRight, kLeft, kHome, kEnd, kInsert, kDelete,
      kPageUp, kPageDown, kBackspace, kTab, kEnter, kEscape, kKPBegin]
  by_cases h7 : ev.code = 7
  · have hk : keyOfCode 7 = some (2, 0x7e) := by decide
    simp [encodeKittyPlain, reported, keyId, h7, hk, kRune, kUp, kDown, kRight, kLeft, kHome, kEnd, kInsert, kDelete,
      kPageUp, kPageDown, kBackspace, kTab, kEnter, kEscape, kKPBegin]
  by_cases h8 : ev.code = 8
  · have hk : keyOfCode 8 = some (3, 0x7e) := by decide
    simp [encodeKittyPlain, reported, keyId, h8, hk, kRune, kUp, kDown, kRight, kLeft, kHome, kEnd, kInsert, kDelete,
      kPageUp, kPageDown, kBackspace, kTab, kEnter, kEscape, kKPBegin]
  by_cases h9 : ev.code = 9
  · have hk : keyOfCode 9 = some (5, 0x7e) := by decide
    simp [encodeKittyPlain, reported, keyId, h9, hk, kRune, kUp, kDown, kRight, kLeft, kHome, kEnd, kInsert, kDelete,
      kPageUp, kPageDown, kBackspace, kTab, kEnter, kEscape, kKPBegin]
  by_cases h10 : ev.code = 10
  · have hk : keyOfCode 10 = some (6, 0x7e) := by decide
    simp [encodeKittyPlain, reported, keyId, h10, hk, kRune, kUp, kDown, kRight, kLeft, kHome, kEnd, kInsert, kDelete,
      kPageUp, kPageDown, kBackspace, kTab, kEnter, kEscape, kKPBegin]
  by_cases h11 : ev.code = 11
  · have hk : keyOfCode 11 = some (127, 0x75) := by decide
    by_cases hall : hasBit flags fReportAllKeys = true <;>
      simp [encodeKittyPlain, reported, keyId, h11, hk, kRune, kUp, kDown, kRight, kLeft, kHome, kEnd, kInsert, kDelete,
        kPageUp, kPageDown, kBackspace, kTab, kEnter, kEscape, kKPBegin, hall]
  by_cases h12 : ev.code = 12
  · have hk : keyOfCode 12 = some (9, 0x75) := by decide
    by_cases hall : hasBit flags fReportAllKeys = true <;>
      simp [encodeKittyPlain, reported, keyId, h12, hk, kRune, kUp, kDown, kRight, kLeft, kHome, kEnd, kInsert, kDelete,
        kPageUp, kPageDown, kBackspace, kTab, kEnter, kEscape, kKPBegin, hall]
  by_cases h13 : ev.code = 13
  · have hk : keyOfCode 13 = some (13, 0x75) := by decide
    by_cases hall : hasBit flags fReportAllKeys = true <;>
      simp [encodeKittyPlain, reported, keyId, h13, hk, kRune, kUp, kDown, kRight, kLeft, kHome, kEnd, kInsert, kDelete,
        kPageUp, kPageDown, kBackspace, kTab, kEnter, kEscape, kKPBegin, hall]
  by_cases h14 : ev.code = 14
  · have hk : keyOfCode 14 = some (27, 0x75) := by decide
    by_cases hall : hasBit flags fReportAllKeys = true <;> by_cases hd : hasBit flags fDisambiguate = true <;>
      simp [encodeKittyPlain, reported, keyId, h14, hk, kRune, kUp, kDown, kRight, kLeft, kHome, kEnd, kInsert, kDelete,
        kPageUp, kPageDown, kBackspace, kTab, kEnter, kEscape, kKPBegin, hall, hd]
  by_cases h15 : ev.code = 15
  · have hk : keyOfCode 15 = some (1, 0x50) := by decide
    simp [encodeKittyPlain, reported, keyId, h15, hk, kRune, kUp, kDown, kRight, kLeft, kHome, kEnd, kInsert, kDelete,
      kPageUp, kPageDown, kBackspace, kTab, kEnter, kEscape, kKPBegin]
  by_cases h16 : ev.code = 16
  · have hk : keyOfCode 16 = some (1, 0x51) := by decide
    simp [encodeKittyPlain, reported, keyId, h16, hk, kRune, kUp, kDown, kRight, kLeft, kHome, kEnd, kInsert, kDelete,
      kPageUp, kPageDown, kBackspace, kTab, kEnter, kEscape, kKPBegin]
  by_cases h17 : ev.code = 17
  · have hk : keyOfCode 17 = some (13, 0x7e) := by decide
    simp [encodeKittyPlain, reported, keyId, h17, hk, kRune, kUp, kDown, kRight, kLeft, kHome, kEnd, kInsert, kDelete,
      kPageUp, kPageDown, kBackspace, kTab, kEnter, kEscape, kKPBegin]
  by_cases h18 : ev.code = 18
  · have hk : keyOfCode 18 = some (1, 0x53) := by decide
    simp [encodeKittyPlain, reported, keyId, h18, hk, kRune, kUp, kDown, kRight, kLeft, kHome, kEnd, kInsert, kDelete,
      kPageUp, kPageDown, kBackspace, kTab, kEnter, kEscape, kKPBegin]
  by_cases h84 : ev.code = 84
  · have hk : keyOfCode 84 = some (57427, 0x7e) := by decide
    simp [encodeKittyPlain, reported, keyId, h84, hk, kRune, kUp, kDown, kRight, kLeft, kHome, kEnd, kInsert, kDelete,
      kPageUp, kPageDown, kBackspace, kTab, kEnter, kEscape, kKPBegin]
  by_cases hF : 19 ≤ ev.code ∧ ev.code ≤ 26
  · have hk := keyOfCode_F ev.code (by omega) hF.1 hF.2
    simp [encodeKittyPlain, reported, keyId, hc0, h1, h2, h3, h4, h5, h6, h7, h8, h9, h10, h11, h12, h13, h14, h15,
      h16, h17, h18, hF, hk, kRune, kUp, kDown, kRight, kLeft, kHome, kEnd, kInsert, kDelete,
      kPageUp, kPageDown, kBackspace, kTab, kEnter, kEscape, kKPBegin]
  have hrep : reported ev flags = true := by simp [reported, hc0, h14, h13, h12, h11]
  have henc : encodeKittyPlain ev flags = (kittyFunctionalCode ev.code).map fun code =>
      kittyCSIu (kittyKeyField code ev flags) (kittyModField ev.mod ev.event flags) (kittyTextField ev flags) := by
    simp only [encodeKittyPlain, hc0, h1, h2, h3, h4, h5, h6, h7, h8, h9, h10, h11, h12, h13, h14, h15,
      h16, h17, h18, h84, hF, kRune, kUp, kDown, kRight, kLeft, kHome, kEnd, kInsert, kDelete,
      kPageUp, kPageDown, kBackspace, kTab, kEnter, kEscape, kKPBegin, if_false]
    cases kittyFunctionalCode ev.code <;> rfl
  have hkey : (keyOfCode ev.code).isSome = (kittyFunctionalCode ev.code).isSome := by
    by_cases hb : 112 ≤ ev.code
    · have h1 := lookup_none_of_bound _ 112 ev.code functionalTable_bound hb
      have h2 := lookup_none_of_bound _ 112 ev.code legacyCompatTable_bound hb
      have h3 := lookup_none_of_bound _ 112 ev.code c0Table_bound hb
      simp [keyOfCode, h1, h2, h3, kittyFunctionalCode_big ev.code hb]
    · rw [keyOfCode_functional ev.code (by omega) (by omega) h84]
      simp
  simp [henc, hrep, keyId, hc0, hkey]

theorem keypadEquivalent_fields (ev : KeyEv) :
    (keypadEquivalent ev).mod = ev.mod ∧ (keypadEquivalent ev).event = ev.event ∧
    (keypadEquivalent ev).shifted = ev.shifted ∧ (keypadEquivalent ev).base = ev.base ∧
    (keypadEquivalent ev).text = ev.text := by
  simp [keypadEquivalent, apply_ite KeyEv.mod, apply_ite KeyEv.event, apply_ite KeyEv.shifted,
    apply_ite KeyEv.base, apply_ite KeyEv.text]

theorem view_fields (ev : KeyEv) (flags : Nat) :
    (view ev flags).mod = ev.mod ∧ (view ev flags).event = ev.event ∧
    (view ev flags).shifted = ev.shifted ∧ (view ev flags).base = ev.base ∧
    (view ev flags).text = ev.text := by
  unfold view
  split
  · exact keypadEquivalent_fields ev
  · simp

/-! ### 4. the Kitty form: `decode ∘ encode` -/

/-- Every byte string the Kitty encoder produces is one of the three forms of the document and
decodes (with the independent decoder) to exactly the content the document prescribes for the
flag set: key number and final byte of the key (`keyId`), the full modifier mask, the event type
(only under "report event types"), the alternates (only under "report alternate keys"), the
text (only under "report all keys" + "report associated text"). -/
theorem kitty_form (ev : KeyEv) (flags : Nat) (b : Bytes) (hev : ev.event ≤ 3)
    (h : encodeKittyKey ev flags = some b) :
    ∃ d, expected ev flags = some d ∧ decode b = some d ∧ b = encode d :=
  plain_form (view ev flags) flags b (by rw [(view_fields ev flags).2.1]; exact hev) h

/-- `kitty_form` spelled out field by field, in terms of the original event -/
theorem kitty_form_fields (ev : KeyEv) (flags : Nat) (b : Bytes) (hev : ev.event ≤ 3)
    (h : encodeKittyKey ev flags = some b) :
    ∃ d, decode b = some d ∧
      keyId (view ev flags) = some (d.number, d.final) ∧
      d.mods = ev.mod ∧
      d.event = (if hasBit flags fReportEvents then normEvent ev.event else 1) ∧
      d.shifted = (if d.final = 0x75 ∧ hasBit flags fReportAlternates ∧ hasBit ev.mod 1 ∧ ev.shifted ≠ 0
                    then some ev.shifted else none) ∧
      d.base = (if d.final = 0x75 ∧ hasBit flags fReportAlternates ∧ ev.base ≠ 0 then some ev.base else none) ∧
      (¬ (hasBit flags fReportAllKeys ∧ hasBit flags fReportText) → d.text = []) ∧
      (d.final ≠ 0x75 → d.text = []) ∧
      (d.final = 0x75 → hasBit flags fReportAllKeys → hasBit flags fReportText →
        d.text = if ev.text = [] ∧ (view ev flags).code = 0 then [(view ev flags).rune] else ev.text) := by
  obtain ⟨d, hd, hdec, _⟩ := kitty_form ev flags b hev h
  refine ⟨d, hdec, ?_⟩
  obtain ⟨hm, he, hs, hb, ht⟩ := view_fields ev flags
  unfold expected expectedOf at hd
  cases hk : keyId (view ev flags) with
  | none => simp [hk] at hd
  | some p =>
    obtain ⟨n, fin⟩ := p
    simp only [hk, Option.map_some, Option.some.injEq] at hd
    subst hd
    simp only [hm, he, altShifted, altBase, textOf, hs, hb, ht, evOf]
    refine ⟨trivial, trivial, trivial, ?_, ?_, ?_, ?_, ?_⟩
    · by_cases hf : fin = 0x75 <;> simp [hf]
    · by_cases hf : fin = 0x75 <;> simp [hf]
    · intro hn; by_cases hf : fin = 0x75 <;> simp [hf]; intro h8 h16; exact absurd ⟨h8, h16⟩ hn
    · intro hf; simp [hf]
    · intro hf h8 h16
      simp only [hf, h8, h16, and_self, if_true]
      by_cases hc : (view ev flags).code = 0
      · have hr : (view ev flags).rune ≠ 0 := by
          intro hr; simp [keyId, hc, hr] at hk
        simp [hc, hr]
      · simp [hc]


/-- Which keys are sent in Kitty form: the encoder answers exactly for the `reported` keys that
have a protocol identity; every other key falls back to its legacy bytes. -/
theorem kitty_reported_iff (ev : KeyEv) (flags : Nat) :
    (encodeKittyKey ev flags).isSome = (reported (view ev flags) flags && (keyId (view ev flags)).isSome) :=
  plain_isSome_iff (view ev flags) flags

/-! ### 2. release events -/

/-- a release writes nothing unless "report event types" is on — for every flag set, including
`0` (legacy mode), every key and every modifyOtherKeys / cursor-key mode -/
theorem release_silent (flags : Nat) (mok : Int) (app : Bool) (ev : KeyEv)
    (hr : normEvent ev.event = 3) (hf : ¬ hasBit flags fReportEvents = true) :
    encodeKey flags mok app ev = [] := by
  simp [encodeKey, hr, hf]

/-- a release is never written in a legacy encoding: when the Kitty encoder declines (or the
flags are 0), nothing is written, whatever the flags -/
theorem release_legacy_silent (flags : Nat) (mok : Int) (app : Bool) (ev : KeyEv)
    (hr : normEvent ev.event = 3) (hk : flags = 0 ∨ encodeKittyKey ev flags = none) :
    encodeKey flags mok app ev = [] := by
  rcases hk with hk | hk
  · subst hk; simp [encodeKey, hr]
  · simp [encodeKey, hr, hk]

/-! ### 3. mode selection -/

/-- no Kitty flags: the legacy encoding (nothing for a release) -/
theorem mode_select_legacy (mok : Int) (app : Bool) (ev : KeyEv) :
    encodeKey 0 mok app ev = (if normEvent ev.event = 3 then [] else encodeLegacyKey mok app ev) := by
  by_cases hr : normEvent ev.event = 3 <;> simp [encodeKey, hr, hasBit, fReportEvents]

/-- some Kitty flag set and the key is reported in Kitty form: exactly the Kitty bytes (unless
it is a release without "report event types") -/
theorem mode_select_kitty (flags : Nat) (mok : Int) (app : Bool) (ev : KeyEv) (b : Bytes)
    (hf : flags ≠ 0) (hk : encodeKittyKey ev flags = some b)
    (hs : ¬ (normEvent ev.event = 3 ∧ ¬ hasBit flags fReportEvents = true)) :
    encodeKey flags mok app ev = b := by
  unfold encodeKey
  simp only [hf, ne_eq, not_false_eq_true, if_true, hk]
  split
  · next h => exact absurd ⟨h.1, by simpa using h.2⟩ hs
  · rfl

/-- some Kitty flag set but the key is not reported in Kitty form: its legacy bytes (nothing
for a release) -/
theorem mode_select_fallback (flags : Nat) (mok : Int) (app : Bool) (ev : KeyEv)
    (hk : encodeKittyKey ev flags = none) :
    encodeKey flags mok app ev = (if normEvent ev.event = 3 then [] else encodeLegacyKey mok app ev) := by
  by_cases hr : normEvent ev.event = 3
  · simp [release_legacy_silent flags mok app ev hr (.inr hk), hr]
  · simp [encodeKey, hr, hk]


/-! ### the whole encoder against the specification -/

/-- Complete description of the Kitty encoder: a key is written in Kitty form exactly when the
flag set asks for it (`reported`), and then the bytes are the canonical encoding (`Kitty.encode`)
of the content the document prescribes (`Kitty.expected`). -/
theorem encodeKittyKey_spec (ev : KeyEv) (flags : Nat) (hev : ev.event ≤ 3) :
    encodeKittyKey ev flags =
      if reported (view ev flags) flags then (expected ev flags).map encode else none := by
  have hr := kitty_reported_iff ev flags
  cases h : encodeKittyKey ev flags with
  | some b =>
    obtain ⟨d, hd, _, hb⟩ := kitty_form ev flags b hev h
    rw [h] at hr
    simp only [Option.isSome_some] at hr
    have hrep : reported (view ev flags) flags = true := by
      cases hx : reported (view ev flags) flags
      · rw [hx] at hr; simp at hr
      · rfl
    simp [hrep, hd, hb]
  | none =>
    rw [h] at hr
    by_cases hrep : reported (view ev flags) flags = true
    · simp only [hrep, Bool.true_and, Option.isSome_none] at hr
      have hk : keyId (view ev flags) = none := by
        cases hk : keyId (view ev flags) with
        | none => rfl
        | some _ => rw [hk] at hr; simp at hr
      simp [hrep, expected, expectedOf, hk]
    · simp [hrep]

/-- Complete description of `encodeKey`: for every key event, flag set, modifyOtherKeys level
and cursor-key mode the bytes written are (1) nothing for a release without "report event
types", (2) the canonical Kitty encoding of the prescribed content when some flag is set and
the flag set reports the key in Kitty form, (3) otherwise the legacy bytes — nothing for a
release. -/
theorem encodeKey_spec (flags : Nat) (mok : Int) (app : Bool) (ev : KeyEv) (hev : ev.event ≤ 3) :
    encodeKey flags mok app ev =
      if normEvent ev.event = 3 ∧ ¬ hasBit flags fReportEvents = true then []
      else match (if flags ≠ 0 ∧ reported (view ev flags) flags = true then expected ev flags else none) with
        | some d => encode d
        | none => if normEvent ev.event = 3 then [] else encodeLegacyKey mok app ev := by
  by_cases hs : normEvent ev.event = 3 ∧ ¬ hasBit flags fReportEvents = true
  · rw [if_pos hs]; exact release_silent flags mok app ev hs.1 hs.2
  rw [if_neg hs]
  by_cases hf : flags = 0
  · subst hf
    simp only [ne_eq, not_true_eq_false, false_and, if_false]
    exact mode_select_legacy mok app ev
  have hspec := encodeKittyKey_spec ev flags hev
  by_cases hrep : reported (view ev flags) flags = true
  · simp only [hrep, if_true] at hspec
    simp only [hf, ne_eq, not_false_eq_true, hrep, and_self, if_true]
    cases hx : expected ev flags with
    | none =>
      rw [hx] at hspec
      exact mode_select_fallback flags mok app ev hspec
    | some d =>
      rw [hx] at hspec
      exact mode_select_kitty flags mok app ev (encode d) hf hspec hs
  · have hrep' : reported (view ev flags) flags = false := by
      cases hx : reported (view ev flags) flags
      · rfl
      · exact absurd hx hrep
    rw [hrep'] at hspec ⊢
    simp only [Bool.false_eq_true, and_false, if_false] at hspec ⊢
    exact mode_select_fallback flags mok app ev hspec

/-! ### 5. injectivity -/

/-- inverse of `keyOfCode` (proof device) -/
def codeOf (k : Nat × UInt8) : Nat :=
  if k.2 = 0x75 then
    if k.1 = 27 then 14 else if k.1 = 13 then 13 else if k.1 = 9 then 12 else if k.1 = 127 then 11
    else if 57358 ≤ k.1 ∧ k.1 ≤ 57363 then 50 + (k.1 - 57358)
    else if 57376 ≤ k.1 ∧ k.1 ≤ 57398 then 27 + (k.1 - 57376)
    else if 57399 ≤ k.1 ∧ k.1 ≤ 57426 then 56 + (k.1 - 57399)
    else 85 + (k.1 - 57428)
  else if k.2 = 0x7e then
    if k.1 = 2 then 7 else if k.1 = 3 then 8 else if k.1 = 5 then 9 else if k.1 = 6 then 10
    else if k.1 = 13 then 17 else if k.1 = 15 then 19 else if k.1 = 17 then 20 else if k.1 = 18 then 21
    else if k.1 = 19 then 22 else if k.1 = 20 then 23 else if k.1 = 21 then 24 else if k.1 = 23 then 25
    else if k.1 = 24 then 26 else 84
  else if k.2 = 0x41 then 1 else if k.2 = 0x42 then 2 else if k.2 = 0x43 then 3 else if k.2 = 0x44 then 4
  else if k.2 = 0x48 then 5 else if k.2 = 0x46 then 6 else if k.2 = 0x50 then 15 else if k.2 = 0x51 then 16
  else 18

theorem codeOf_keyOfCode_small : ∀ c < 112, (keyOfCode c).all (fun k => codeOf k = c ∧
    (k.2 = 0x75 → k.1 = 27 ∨ k.1 = 13 ∨ k.1 = 9 ∨ k.1 = 127 ∨ (57344 ≤ k.1 ∧ k.1 ≤ 63743))) = true := by
  decide

theorem keyOfCode_none_big (c : Nat) (hc : 112 ≤ c) : keyOfCode c = none := by
  simp [keyOfCode, lookup_none_of_bound _ 112 c functionalTable_bound hc,
    lookup_none_of_bound _ 112 c legacyCompatTable_bound hc, lookup_none_of_bound _ 112 c c0Table_bound hc]

theorem codeOf_keyOfCode (c : Nat) (k : Nat × UInt8) (h : keyOfCode c = some k) :
    codeOf k = c ∧ (k.2 = 0x75 → k.1 = 27 ∨ k.1 = 13 ∨ k.1 = 9 ∨ k.1 = 127 ∨ (57344 ≤ k.1 ∧ k.1 ≤ 63743)) := by
  by_cases hc : c < 112
  · have := codeOf_keyOfCode_small c hc
    rw [h] at this
    simp at this
    exact ⟨this.1, fun h => by rcases this.2 with h' | h'; exact absurd h h'; exact h'⟩
  · rw [keyOfCode_none_big c (by omega)] at h; cases h

/-- distinct keys have distinct protocol identities (number, final byte) -/
theorem keyId_injective (e1 e2 : KeyEv) (k : Nat × UInt8) (w1 : wfKey e1) (w2 : wfKey e2)
    (h1 : keyId e1 = some k) (h2 : keyId e2 = some k) :
    e1.code = e2.code ∧ (e1.code = 0 → e1.rune = e2.rune) := by
  unfold keyId at h1 h2
  by_cases c1 : e1.code = 0 <;> by_cases c2 : e2.code = 0
  · simp only [c1, c2, if_true] at h1 h2 ⊢
    split at h1
    · cases h1
    split at h2
    · cases h2
    have : e1.rune = e2.rune := by rw [← h2] at h1; simpa using h1
    simp [this]
  · simp only [c1, c2, if_true, if_false] at h1 h2
    split at h1
    · cases h1
    cases h1
    have := (codeOf_keyOfCode _ _ h2).2 rfl
    have := w1.2 c1
    simp at *
    omega
  · simp only [c1, c2, if_true, if_false] at h1 h2
    split at h2
    · cases h2
    cases h2
    have := (codeOf_keyOfCode _ _ h1).2 rfl
    have := w2.2 c2
    simp at *
    omega
  · simp only [c1, c2, if_false] at h1 h2
    have a := (codeOf_keyOfCode _ _ h1).1
    have b := (codeOf_keyOfCode _ _ h2).1
    exact ⟨by omega, fun h => absurd h c1⟩

theorem view_of_disamb (ev : KeyEv) (flags : Nat) (hd : hasBit flags fDisambiguate = true) : view ev flags = ev := by
  simp [view, hd]


theorem expectedOf_some (e : KeyEv) (flags : Nat) (d : Decoded) (h : expectedOf e flags = some d) :
    keyId e = some (d.number, d.final) ∧ d.mods = e.mod ∧ d.event = evOf flags e.event ∧
    (d.final = 0x75 → d.shifted = altShifted e flags ∧ d.base = altBase e flags ∧ d.text = textOf e flags) := by
  unfold expectedOf at h
  cases hk : keyId e with
  | none => simp [hk] at h
  | some p =>
    obtain ⟨n, fin⟩ := p
    simp only [hk, Option.map_some, Option.some.injEq] at h
    subst h
    refine ⟨rfl, rfl, rfl, ?_⟩
    intro hf
    simp only at hf
    simp [hf]

theorem kittyModField_congr (m e1 e2 flags : Nat) (h : evOf flags e1 = evOf flags e2) :
    kittyModField m e1 flags = kittyModField m e2 flags := by
  unfold evOf at h
  unfold kittyModField
  by_cases hf : hasBit flags fReportEvents = true
  · simp only [hf, if_true] at h
    simp [h]
  · simp [hf]

theorem plain_congr_u (e1 e2 : KeyEv) (flags : Nat) (hc : e1.code = e2.code) (hr : e1.code = 0 → e1.rune = e2.rune)
    (hm : e1.mod = e2.mod) (he : evOf flags e1.event = evOf flags e2.event)
    (hs : altShifted e1 flags = altShifted e2 flags) (hb : altBase e1 flags = altBase e2 flags)
    (ht : textOf e1 flags = textOf e2 flags) :
    encodeKittyPlain e1 flags = encodeKittyPlain e2 flags := by
  have hmf := kittyModField_congr e2.mod e1.event e2.event flags he
  unfold encodeKittyPlain
  simp only [kittyKeyField_eq, kittyTextField_eq, hs, hb, ht, hm, hmf, ← hc]
  by_cases h0 : e1.code = kRune
  · simp only [h0, if_true, hr h0]
  · simp only [h0, if_false]

theorem keyId_u_of_lookup_none (e : KeyEv) (n : Nat) (fin : UInt8) (hl : legacyCompatTable.lookup e.code = none)
    (hk : keyId e = some (n, fin)) : fin = 0x75 := by
  unfold keyId at hk
  split at hk
  · split at hk
    · cases hk
    · cases hk; rfl
  · unfold keyOfCode at hk
    rw [hl] at hk
    simp only at hk
    split at hk
    · cases hk; rfl
    · cases hf : functionalTable.lookup e.code with
      | none => simp [hf] at hk
      | some v => simp [hf] at hk; exact hk.2.symm

theorem keyId_congr (e1 e2 : KeyEv) (hc : e1.code = e2.code) (hr : e1.code = 0 → e1.rune = e2.rune) :
    keyId e1 = keyId e2 := by
  unfold keyId
  by_cases h0 : e1.code = 0
  · simp [← hc, h0, hr h0]
  · simp [← hc, h0]

/-- events that agree on everything that is transmitted get the same bytes -/
theorem plain_congr (e1 e2 : KeyEv) (flags : Nat) (h : SameReport flags e1 e2) :
    encodeKittyPlain e1 flags = encodeKittyPlain e2 flags := by
  obtain ⟨hc, hr, hm, he, hu⟩ := h
  have hid := keyId_congr e1 e2 hc hr
  cases hl : legacyCompatTable.lookup e1.code with
  | some p =>
    obtain ⟨n, fin⟩ := p
    rw [letter_tilde_matches_protocol e1 flags n fin hl,
      letter_tilde_matches_protocol e2 flags n fin (hc ▸ hl), hm,
      kittyModField_congr e2.mod e1.event e2.event flags he]
  | none =>
    cases hk : keyId e1 with
    | none =>
      have h1 := plain_isSome_iff e1 flags
      have h2 := plain_isSome_iff e2 flags
      rw [← hid] at h2
      simp only [hk, Option.isSome_none, Bool.and_false] at h1 h2
      cases hx : encodeKittyPlain e1 flags with
      | some _ => simp [hx] at h1
      | none =>
        cases hy : encodeKittyPlain e2 flags with
        | some _ => simp [hy] at h2
        | none => rfl
    | some p =>
      obtain ⟨n, fin⟩ := p
      have hf := keyId_u_of_lookup_none e1 n fin hl hk
      subst hf
      obtain ⟨hs, hb, ht⟩ := hu ⟨n, hk⟩
      exact plain_congr_u e1 e2 flags hc hr hm he hs hb ht

/-- Exact characterisation of when two Kitty encodings coincide, with "disambiguate escape
codes" on: the bytes are equal iff the events agree on the key, the modifier mask, the
transmitted event type and (for `CSI … u` keys) the transmitted alternates and text. In
particular distinct disambiguated keys never share an encoding, nor do different modifier
masks, nor (under "report event types") different event types. -/
theorem injective_on_disambiguated (flags : Nat) (hd : hasBit flags fDisambiguate = true)
    (e1 e2 : KeyEv) (w1 : wfKey e1) (w2 : wfKey e2) (b1 b2 : Bytes)
    (h1 : encodeKittyKey e1 flags = some b1) (h2 : encodeKittyKey e2 flags = some b2) :
    b1 = b2 ↔ SameReport flags e1 e2 := by
  constructor
  · intro hb
    subst hb
    obtain ⟨d1, hx1, hy1, _⟩ := kitty_form e1 flags b1 w1.1 h1
    obtain ⟨d2, hx2, hy2, _⟩ := kitty_form e2 flags b1 w2.1 h2
    rw [hy1] at hy2
    cases hy2
    unfold expected at hx1 hx2
    rw [view_of_disamb _ _ hd] at hx1 hx2
    obtain ⟨k1, m1, v1, u1⟩ := expectedOf_some _ _ _ hx1
    obtain ⟨k2, m2, v2, u2⟩ := expectedOf_some _ _ _ hx2
    obtain ⟨hc, hr⟩ := keyId_injective e1 e2 _ w1 w2 k1 k2
    refine ⟨hc, hr, m1.symm.trans m2, v1.symm.trans v2, ?_⟩
    rintro ⟨n, hn⟩
    rw [k1] at hn
    have hf : d1.final = 0x75 := by simp at hn; exact hn.2
    obtain ⟨a1, a2, a3⟩ := u1 hf
    obtain ⟨c1, c2, c3⟩ := u2 hf
    exact ⟨a1.symm.trans c1, a2.symm.trans c2, a3.symm.trans c3⟩
  · intro hs
    have := plain_congr e1 e2 flags hs
    have e : ∀ ev, encodeKittyKey ev flags = encodeKittyPlain ev flags := by
      intro ev
      have := view_of_disamb ev flags hd
      unfold view at this
      unfold encodeKittyKey
      rw [this]
    rw [← e, h1, ← e, h2] at this
    cases this; rfl


/-- every key produces a CSI sequence and `encodeKey` is injective up to `SameReport` when
"disambiguate" and "report all keys" are both on -/
theorem injective_all_keys (flags : Nat) (hd : hasBit flags fDisambiguate = true)
    (ha : hasBit flags fReportAllKeys = true) (mok : Int) (app : Bool)
    (e1 e2 : KeyEv) (w1 : wfKey e1) (w2 : wfKey e2)
    (hv1 : (keyId e1).isSome = true) (hv2 : (keyId e2).isSome = true)
    (hs1 : normEvent e1.event = 3 → hasBit flags fReportEvents = true)
    (hs2 : normEvent e2.event = 3 → hasBit flags fReportEvents = true) :
    (encodeKey flags mok app e1 = encodeKey flags mok app e2 ↔ SameReport flags e1 e2) ∧
    (∃ d, Kitty.decode (encodeKey flags mok app e1) = some d) := by
  have hf : flags ≠ 0 := by intro h; subst h; revert ha; decide
  have r1 := kitty_reported_iff e1 flags
  have r2 := kitty_reported_iff e2 flags
  rw [view_of_disamb _ _ hd] at r1 r2
  simp only [reported, ha, Bool.true_or, Bool.true_and, hv1, hv2] at r1 r2
  obtain ⟨b1, hb1⟩ := Option.isSome_iff_exists.mp r1
  obtain ⟨b2, hb2⟩ := Option.isSome_iff_exists.mp r2
  rw [mode_select_kitty flags mok app e1 b1 hf hb1 (fun h => h.2 (hs1 h.1)),
    mode_select_kitty flags mok app e2 b2 hf hb2 (fun h => h.2 (hs2 h.1))]
  refine ⟨injective_on_disambiguated flags hd e1 e2 w1 w2 b1 b2 hb1 hb2, ?_⟩
  obtain ⟨d, _, hdec, _⟩ := kitty_form e1 flags b1 w1.1 hb1
  exact ⟨d, hdec⟩


/-! ### 6. legacy mode -/

theorem cursor_form (mok : Int) (app : Bool) (e : KeyEv) (x : UInt8)
    (hl : Legacy.table.lookup e.code = some (1, x)) (hx : x ≠ 0x7e) (hc : e.code ≤ 6) :
    Legacy.Form mok app e (encodeCursorKey app x e.mod) := by
  unfold encodeCursorKey
  by_cases hm : e.mod = 0
  · cases app
    · rw [if_neg (by simp), if_pos hm]; exact .csi x hl hm rfl hc
    · rw [if_pos ⟨hm, rfl⟩]; exact .ss3 x hl hm (.inl rfl)
  · rw [if_neg (fun h => hm h.1), if_neg hm]; exact .csi1 x hl hx hm

theorem function_form (mok : Int) (app : Bool) (e : KeyEv) (x : UInt8)
    (hl : Legacy.table.lookup e.code = some (1, x)) (hx : x ≠ 0x7e) (hc : 15 ≤ e.code) :
    Legacy.Form mok app e (encodeFunctionKey x e.mod) := by
  unfold encodeFunctionKey
  by_cases hm : e.mod = 0
  · rw [if_pos hm]; exact .ss3 x hl hm (.inr hc)
  · rw [if_neg hm]; exact .csi1 x hl hx hm

theorem tilde_form (mok : Int) (app : Bool) (e : KeyEv) (n : Nat)
    (hl : Legacy.table.lookup e.code = some (n, 0x7e)) :
    Legacy.Form mok app e (encodeTildeKey n e.mod) := by
  unfold encodeTildeKey
  by_cases hm : e.mod = 0
  · rw [if_pos hm]; exact .tilde n hl hm
  · rw [if_neg hm]; exact .tildeMod n hl hm

theorem c0_form (mok : Int) (app : Bool) (e : KeyEv) (b : UInt8) (altp : Bool)
    (hl : Legacy.c0.lookup e.code = some b) (ha : altp = true → e.code ≠ 14) :
    Legacy.Form mok app e (encodeC0Key mok b.toNat b e.mod altp) := by
  unfold encodeC0Key
  by_cases hm : e.mod = 0
  · rw [if_pos hm]; exact .c0 b hl (.inl hm)
  rw [if_neg hm]
  by_cases hk : mok > 0
  · rw [if_pos hk]; exact .c0OtherKeys b hl hk hm
  rw [if_neg hk]
  by_cases hp : altp = true ∧ hasBit e.mod 2 = true
  · rw [if_pos hp]; exact .altC0 b hl (ha hp.1) hp.2 (by omega)
  · rw [if_neg hp]; exact .c0 b hl (.inr (by omega))

theorem rune_form (mok : Int) (app : Bool) (e : KeyEv) (hc : e.code = 0) :
    Legacy.Form mok app e (encodeRuneKey mok e.rune e.mod) := by
  unfold encodeRuneKey
  by_cases hr : e.rune = 0
  · rw [if_pos hr]; exact .noRune hc hr
  rw [if_neg hr]
  by_cases hk : mok > 0 ∧ e.mod ≠ 0
  · rw [if_pos hk]; exact .otherKeys hc hr hk.1 hk.2
  rw [if_neg hk]
  by_cases h4 : hasBit e.mod 4 = true
  · rw [if_pos h4]
    cases hb : ctrlByte e.rune with
    | none => exact .text hc hr hk (fun _ => hb)
    | some b => exact .ctrl b hc hr hk h4 hb
  · rw [if_neg h4]
    exact .text hc hr hk (fun h => absurd h h4)


theorem kittyFunctionalCode_none (c : Nat) (h : kittyFunctionalCode c = none) : c < 27 ∨ 112 ≤ c := by
  unfold kittyFunctionalCode at h
  split at h
  · cases h
  split at h
  · cases h
  split at h
  · cases h
  split at h
  · cases h
  omega

theorem legacy_table_bound : ∀ p ∈ Legacy.table, p.1 < 112 := by decide
theorem legacy_c0_bound : ∀ p ∈ Legacy.c0, p.1 < 112 := by decide
theorem legacy_F : ∀ c < 112, 19 ≤ c → c ≤ 26 → Legacy.table.lookup c = some (fTilde c, 0x7e) := by decide

theorem legacy_plain_form (mok : Int) (app : Bool) (e : KeyEv) :
    Legacy.Form mok app e (encodeLegacyPlain mok app e) := by
  unfold encodeLegacyPlain
  simp only
  by_cases hc0 : e.code = kRune
  · rw [if_pos hc0]; exact rune_form mok app e hc0
  rw [if_neg hc0]
  by_cases h1 : e.code = kUp
  · rw [if_pos h1]
    have hc : e.code = 1 := h1
    exact cursor_form mok app e 0x41 (by rw [hc]; decide) (by decide) (by omega)
  rw [if_neg h1]
  by_cases h2 : e.code = kDown
  · rw [if_pos h2]
    have hc : e.code = 2 := h2
    exact cursor_form mok app e 0x42 (by rw [hc]; decide) (by decide) (by omega)
  rw [if_neg h2]
  by_cases h3 : e.code = kRight
  · rw [if_pos h3]
    have hc : e.code = 3 := h3
    exact cursor_form mok app e 0x43 (by rw [hc]; decide) (by decide) (by omega)
  rw [if_neg h3]
  by_cases h4 : e.code = kLeft
  · rw [if_pos h4]
    have hc : e.code = 4 := h4
    exact cursor_form mok app e 0x44 (by rw [hc]; decide) (by decide) (by omega)
  rw [if_neg h4]
  by_cases h5 : e.code = kHome
  · rw [if_pos h5]
    have hc : e.code = 5 := h5
    exact cursor_form mok app e 0x48 (by rw [hc]; decide) (by decide) (by omega)
  rw [if_neg h5]
  by_cases h6 : e.code = kEnd
  · rw [if_pos h6]
    have hc : e.code = 6 := h6
    exact cursor_form mok app e 0x46 (by rw [hc]; decide) (by decide) (by omega)
  rw [if_neg h6]
  by_cases h7 : e.code = kInsert
  · rw [if_pos h7]
    have hc : e.code = 7 := h7
    exact tilde_form mok app e 2 (by rw [hc]; decide)
  rw [if_neg h7]
  by_cases h8 : e.code = kDelete
  · rw [if_pos h8]
    have hc : e.code = 8 := h8
    exact tilde_form mok app e 3 (by rw [hc]; decide)
  rw [if_neg h8]
  by_cases h9 : e.code = kPageUp
  · rw [if_pos h9]
    have hc : e.code = 9 := h9
    exact tilde_form mok app e 5 (by rw [hc]; decide)
  rw [if_neg h9]
  by_cases h10 : e.code = kPageDown
  · rw [if_pos h10]
    have hc : e.code = 10 := h10
    exact tilde_form mok app e 6 (by rw [hc]; decide)
  rw [if_neg h10]
  by_cases h11 : e.code = kBackspace
  · rw [if_pos h11]
    have hc : e.code = 11 := h11
    exact c0_form mok app e 0x7f true (by rw [hc]; decide) (by omega)
  rw [if_neg h11]
  by_cases h12 : e.code = kTab
  · rw [if_pos h12]
    have hc : e.code = 12 := h12
    by_cases hm : e.mod = 1
    · rw [if_pos hm]; exact .backTab hc hm
    · rw [if_neg hm]; exact c0_form mok app e 0x09 true (by rw [hc]; decide) (by omega)
  rw [if_neg h12]
  by_cases h13 : e.code = kEnter
  · rw [if_pos h13]
    have hc : e.code = 13 := h13
    exact c0_form mok app e 0x0d true (by rw [hc]; decide) (by omega)
  rw [if_neg h13]
  by_cases h14 : e.code = kEscape
  · rw [if_pos h14]
    have hc : e.code = 14 := h14
    exact c0_form mok app e 0x1b false (by rw [hc]; decide) (by simp)
  rw [if_neg h14]
  by_cases h15 : e.code = 15
  · rw [if_pos h15]
    have hc : e.code = 15 := h15
    exact function_form mok app e 0x50 (by rw [hc]; decide) (by decide) (by omega)
  rw [if_neg h15]
  by_cases h16 : e.code = 16
  · rw [if_pos h16]
    have hc : e.code = 16 := h16
    exact function_form mok app e 0x51 (by rw [hc]; decide) (by decide) (by omega)
  rw [if_neg h16]
  by_cases h17 : e.code = 17
  · rw [if_pos h17]
    have hc : e.code = 17 := h17
    exact function_form mok app e 0x52 (by rw [hc]; decide) (by decide) (by omega)
  rw [if_neg h17]
  by_cases h18 : e.code = 18
  · rw [if_pos h18]
    have hc : e.code = 18 := h18
    exact function_form mok app e 0x53 (by rw [hc]; decide) (by decide) (by omega)
  rw [if_neg h18]
  by_cases hF : 19 ≤ e.code ∧ e.code ≤ 26
  · rw [if_pos hF]
    exact tilde_form mok app e (fTilde e.code) (legacy_F e.code (by omega) hF.1 hF.2)
  rw [if_neg hF]
  have hc0' : e.code ≠ 0 := hc0
  have e1 : e.code ≠ 1 := h1
  have e2 : e.code ≠ 2 := h2
  have e3 : e.code ≠ 3 := h3
  have e4 : e.code ≠ 4 := h4
  have e5 : e.code ≠ 5 := h5
  have e6 : e.code ≠ 6 := h6
  have e7 : e.code ≠ 7 := h7
  have e8 : e.code ≠ 8 := h8
  have e9 : e.code ≠ 9 := h9
  have e10 : e.code ≠ 10 := h10
  have e11 : e.code ≠ 11 := h11
  have e12 : e.code ≠ 12 := h12
  have e13 : e.code ≠ 13 := h13
  have e14 : e.code ≠ 14 := h14
  cases hk : kittyFunctionalCode e.code with
  | none =>
    have hb : 112 ≤ e.code := by
      rcases kittyFunctionalCode_none _ hk with h | h
      · omega
      · exact h
    exact .noKey hc0' (lookup_none_of_bound _ 112 _ legacy_table_bound hb)
      (lookup_none_of_bound _ 112 _ legacy_c0_bound hb) (lookup_none_of_bound _ 112 _ functionalTable_bound hb)
  | some code =>
    have hl : functionalTable.lookup e.code = some code := by rw [← functionalCode_matches_protocol]; exact hk
    have := Legacy.Form.csiu (mok := mok) (app := app) (e := e) code hl
    have hkf : kittyKeyField code e 0 = itoa code := by simp [kittyKeyField, hasBit, fReportAlternates]
    have hmf : kittyModField e.mod e.event 0 = if e.mod = 0 then [] else itoa (1 + e.mod) := by
      simp [kittyModField, hasBit, fReportEvents]
    simp only [hkf, hmf]
    unfold kittyCSIu
    by_cases hm : e.mod = 0
    · simpa [hm, csiB] using this
    · have hne : itoa (1 + e.mod) ≠ [] := itoa_ne_nil _
      simpa [hm, csiB, hne] using this

/-- Legacy mode (no Kitty flags), any non-release event: the bytes written are one of the xterm
forms catalogued in `Legacy.Form` for the key (after mapping keypad keys to their plain
equivalents), with modifier parameter `m = xtermModParam mod`. -/
theorem legacy_form (mok : Int) (app : Bool) (ev : KeyEv) (hr : normEvent ev.event ≠ 3) :
    Legacy.Form mok app (Legacy.view ev) (encodeKey 0 mok app ev) := by
  rw [mode_select_legacy, if_neg hr]
  exact legacy_plain_form mok app (Legacy.view ev)


/-! ### modifier parameter of the xterm forms, keypad mapping -/

theorem and_two_pow' (x i : Nat) : x &&& 2^i = if x.testBit i then 2^i else 0 := by
  apply Nat.eq_of_testBit_eq; intro j
  by_cases h : i = j
  · subst h; cases hx : x.testBit i <;> simp [Nat.testBit_and, hx]
  · cases hx : x.testBit i <;> simp [Nat.testBit_and, h]

theorem hasBit_pow (x i : Nat) : hasBit x (2^i) = decide (x / 2^i % 2 = 1) := by
  unfold hasBit
  rw [and_two_pow', Nat.testBit_eq_decide_div_mod_eq]
  by_cases h : x / 2^i % 2 = 1
  · simp [h]
  · simp [h]

/-- the xterm modifier parameter is `1 +` the low three bits of the mask, i.e.
`1 + shift + 2·alt + 4·ctrl`; super / hyper / meta / locks are not transmitted in legacy mode -/
theorem xtermModParam_eq (mod : Nat) : xtermModParam mod = 1 + mod % 8 := by
  unfold xtermModParam
  have h1 := hasBit_pow mod 0
  have h2 := hasBit_pow mod 1
  have h4 := hasBit_pow mod 2
  simp only [Nat.pow_zero, Nat.pow_one, Nat.div_one] at h1 h2
  rw [show (2:Nat)^2 = 4 from rfl] at h4
  rw [h1, h2, h4]
  by_cases a : mod % 2 = 1 <;> by_cases b : mod / 2 % 2 = 1 <;> by_cases c : mod / 4 % 2 = 1 <;>
    simp [a, b, c] <;> omega

set_option linter.unusedSimpArgs false in
theorem keypadEquivalent_code (ev : KeyEv) :
    (keypadEquivalent ev).code = (keypadEquivalent { code := ev.code }).code ∧
    ((keypadEquivalent ev).code = 0 → (keypadEquivalent ev).rune = (keypadEquivalent { code := ev.code }).rune) := by
  by_cases h65 : ev.code ≤ 65
  · simp [keypadEquivalent, h65]
  by_cases h66 : ev.code = 66
  · simp [keypadEquivalent, h66, kRune, kLeft, kRight, kUp, kDown, kPageUp, kPageDown, kHome, kEnd, kInsert, kDelete, kEnter]
  by_cases h67 : ev.code = 67
  · simp [keypadEquivalent, h67, kRune, kLeft, kRight, kUp, kDown, kPageUp, kPageDown, kHome, kEnd, kInsert, kDelete, kEnter]
  by_cases h68 : ev.code = 68
  · simp [keypadEquivalent, h68, kRune, kLeft, kRight, kUp, kDown, kPageUp, kPageDown, kHome, kEnd, kInsert, kDelete, kEnter]
  by_cases h69 : ev.code = 69
  · simp [keypadEquivalent, h69, kRune, kLeft, kRight, kUp, kDown, kPageUp, kPageDown, kHome, kEnd, kInsert, kDelete, kEnter]
  by_cases h70 : ev.code = 70
  · simp [keypadEquivalent, h70, kRune, kLeft, kRight, kUp, kDown, kPageUp, kPageDown, kHome, kEnd, kInsert, kDelete, kEnter]
  by_cases h71 : ev.code = 71
  · simp [keypadEquivalent, h71, kRune, kLeft, kRight, kUp, kDown, kPageUp, kPageDown, kHome, kEnd, kInsert, kDelete, kEnter]
  by_cases h72 : ev.code = 72
  · simp [keypadEquivalent, h72, kRune, kLeft, kRight, kUp, kDown, kPageUp, kPageDown, kHome, kEnd, kInsert, kDelete, kEnter]
  by_cases h73 : ev.code = 73
  · simp [keypadEquivalent, h73, kRune, kLeft, kRight, kUp, kDown, kPageUp, kPageDown, kHome, kEnd, kInsert, kDelete, kEnter]
  by_cases h74 : ev.code = 74
  · simp [keypadEquivalent, h74, kRune, kLeft, kRight, kUp, kDown, kPageUp, kPageDown, kHome, kEnd, kInsert, kDelete, kEnter]
  by_cases h75 : ev.code = 75
  · simp [keypadEquivalent, h75, kRune, kLeft, kRight, kUp, kDown, kPageUp, kPageDown, kHome, kEnd, kInsert, kDelete, kEnter]
  by_cases h76 : ev.code = 76
  · simp [keypadEquivalent, h76, kRune, kLeft, kRight, kUp, kDown, kPageUp, kPageDown, kHome, kEnd, kInsert, kDelete, kEnter]
  by_cases h77 : ev.code = 77
  · simp [keypadEquivalent, h77, kRune, kLeft, kRight, kUp, kDown, kPageUp, kPageDown, kHome, kEnd, kInsert, kDelete, kEnter]
  by_cases h78 : ev.code = 78
  · simp [keypadEquivalent, h78, kRune, kLeft, kRight, kUp, kDown, kPageUp, kPageDown, kHome, kEnd, kInsert, kDelete, kEnter]
  by_cases h79 : ev.code = 79
  · simp [keypadEquivalent, h79, kRune, kLeft, kRight, kUp, kDown, kPageUp, kPageDown, kHome, kEnd, kInsert, kDelete, kEnter]
  by_cases h80 : ev.code = 80
  · simp [keypadEquivalent, h80, kRune, kLeft, kRight, kUp, kDown, kPageUp, kPageDown, kHome, kEnd, kInsert, kDelete, kEnter]
  by_cases h81 : ev.code = 81
  · simp [keypadEquivalent, h81, kRune, kLeft, kRight, kUp, kDown, kPageUp, kPageDown, kHome, kEnd, kInsert, kDelete, kEnter]
  by_cases h82 : ev.code = 82
  · simp [keypadEquivalent, h82, kRune, kLeft, kRight, kUp, kDown, kPageUp, kPageDown, kHome, kEnd, kInsert, kDelete, kEnter]
  by_cases h83 : ev.code = 83
  · simp [keypadEquivalent, h83, kRune, kLeft, kRight, kUp, kDown, kPageUp, kPageDown, kHome, kEnd, kInsert, kDelete, kEnter]
  simp [keypadEquivalent, h65, h66, h67, h68, h69, h70, h71, h72, h73, h74, h75, h76, h77, h78, h79, h80, h81, h82, h83, kRune, kLeft, kRight, kUp, kDown, kPageUp, kPageDown, kHome, kEnd, kInsert, kDelete, kEnter]

/-- the keypad mapping used when keypad keys are not keys of their own is the one of
`Legacy.keypadTable` (and the keypad keys are exactly the keys of that table) -/
theorem keypad_matches_table (ev : KeyEv) :
    (isKeypadKey ev.code = (Legacy.keypadTable.lookup ev.code).isSome) ∧
    ∀ c r, Legacy.keypadTable.lookup ev.code = some (c, r) →
      (keypadEquivalent ev).code = c ∧ (c = 0 → (keypadEquivalent ev).rune = r) := by
  have small : ∀ c < 112, isKeypadKey c = (Legacy.keypadTable.lookup c).isSome ∧
      (Legacy.keypadTable.lookup c).all (fun p => (keypadEquivalent { code := c }).code = p.1 ∧
        (p.1 = 0 → (keypadEquivalent { code := c }).rune = p.2)) = true := by decide
  have bound : ∀ p ∈ Legacy.keypadTable, p.1 < 112 := by decide
  by_cases hc : ev.code < 112
  · obtain ⟨h1, h2⟩ := small ev.code hc
    refine ⟨h1, ?_⟩
    intro c r h
    rw [h] at h2
    simp at h2
    obtain ⟨a, b⟩ := keypadEquivalent_code ev
    refine ⟨a.trans h2.1, ?_⟩
    intro h0
    subst h0
    exact (b (a.trans h2.1)).trans (h2.2.resolve_left (fun h => h rfl))
  · have hl := lookup_none_of_bound _ 112 ev.code bound (by omega)
    refine ⟨?_, ?_⟩
    · have h84 : ¬ ev.code ≤ 84 := by omega
      rw [hl]; simp [isKeypadKey, kKP0, kKPBegin, h84]
    · intro c r h; rw [hl] at h; cases h


/-! ## Non-vacuity: concrete events -/

/-- ctrl+a under "disambiguate" is `ESC [ 97 ; 5 u` … -/
example : encodeKey 1 0 false { code := 0, rune := 97, mod := 4 } =
    [0x1b, 0x5b, 0x39, 0x37, 0x3b, 0x35, 0x75] := by decide
/-- … which the decoder reads back as key 97, mask 4 (ctrl), press, no alternates, no text … -/
example : decode [0x1b, 0x5b, 0x39, 0x37, 0x3b, 0x35, 0x75] = some ⟨97, none, none, 4, 1, [], 0x75⟩ := by decide
/-- … as the document prescribes -/
example : expected { code := 0, rune := 97, mod := 4 } 1 = some ⟨97, none, none, 4, 1, [], 0x75⟩ := by decide
/-- plain `a` under "disambiguate" is not reported in Kitty form: legacy text -/
example : encodeKittyKey { code := 0, rune := 97 } 1 = none ∧ encodeKey 1 0 false { code := 0, rune := 97 } = [0x61] := by
  decide
/-- shift+a with "report alternate keys" (flags 1+4+8): `ESC [ 97 : 65 ; 2 u` -/
example : encodeKey 13 0 false { code := 0, rune := 97, mod := 1, shifted := 65 } =
    [0x1b, 0x5b, 0x39, 0x37, 0x3a, 0x36, 0x35, 0x3b, 0x32, 0x75] := by decide
/-- the shifted alternate is dropped when shift is not in the mask; the base-layout key stays:
ctrl+a with base `c` → `ESC [ 97 : : 99 ; 5 u` -/
example : encodeKey 13 0 false { code := 0, rune := 97, mod := 4, shifted := 65, base := 99 } =
    [0x1b, 0x5b, 0x39, 0x37, 0x3a, 0x3a, 0x39, 0x39, 0x3b, 0x35, 0x75] := by decide
/-- all five flags, release of shift+a with alternates and text: `ESC [ 97:65:99 ; 2:3 ; 97 u`,
and the decoder recovers every field -/
example : encodeKey 31 0 false { code := 0, rune := 97, mod := 1, event := 3, shifted := 65, base := 99 } =
    [0x1b, 0x5b, 0x39, 0x37, 0x3a, 0x36, 0x35, 0x3a, 0x39, 0x39, 0x3b, 0x32, 0x3a, 0x33, 0x3b, 0x39, 0x37, 0x75] ∧
    decode [0x1b, 0x5b, 0x39, 0x37, 0x3a, 0x36, 0x35, 0x3a, 0x39, 0x39, 0x3b, 0x32, 0x3a, 0x33, 0x3b, 0x39, 0x37, 0x75] =
      some ⟨97, some 65, some 99, 1, 3, [97], 0x75⟩ := by decide
/-- text without modifiers: the modifier field is the explicit default `1` -/
example : encodeKey 25 0 false { code := 0, rune := 97 } = [0x1b, 0x5b, 0x39, 0x37, 0x3b, 0x31, 0x3b, 0x39, 0x37, 0x75] ∧
    decode [0x1b, 0x5b, 0x39, 0x37, 0x3b, 0x31, 0x3b, 0x39, 0x37, 0x75] = some ⟨97, none, none, 0, 1, [97], 0x75⟩ := by
  decide
/-- F3 is `ESC [ 13 ~` (not `CSI R`) -/
example : encodeKey 1 0 false { code := 17 } = [0x1b, 0x5b, 0x31, 0x33, 0x7e] := by decide
/-- KP_BEGIN is `ESC [ 57427 ~` under "disambiguate", and `5` when keypad keys are not separate -/
example : encodeKey 1 0 false { code := 84 } = [0x1b, 0x5b, 0x35, 0x37, 0x34, 0x32, 0x37, 0x7e] ∧
    encodeKey 2 0 false { code := 84 } = [0x35] := by decide
/-- CapsLock with caps-lock in the mask: `ESC [ 57358 ; 65 u` -/
example : encodeKey 1 0 false { code := 50, mod := 64 } =
    [0x1b, 0x5b, 0x35, 0x37, 0x33, 0x35, 0x38, 0x3b, 0x36, 0x35, 0x75] := by decide
/-- a release writes nothing without "report event types" (bit 2) … -/
example : encodeKey 1 0 false { code := 1, event := 3 } = [] ∧ encodeKey 0 0 false { code := 1, event := 3 } = [] ∧
    encodeKey 29 0 false { code := 0, rune := 97, event := 3 } = [] := by decide
/-- … and `ESC [ 1 ; 1 : 3 A` with it; a release of Enter (not reported in Kitty form under
flags 3) writes nothing rather than its legacy byte -/
example : encodeKey 3 0 false { code := 1, event := 3 } = [0x1b, 0x5b, 0x31, 0x3b, 0x31, 0x3a, 0x33, 0x41] ∧
    encodeKey 3 0 false { code := 13, event := 3 } = [] ∧ encodeKey 3 0 false { code := 13 } = [0x0d] := by decide
/-- the hypotheses of `injective_on_disambiguated` are satisfiable, both ways: press given as
event 0 or 1 and an unused shifted alternate are not transmitted (same bytes), the mask is -/
example : wfKey { code := 0, rune := 97, mod := 4 } ∧
    encodeKittyKey { code := 0, rune := 97, mod := 4 } 1 = encodeKittyKey { code := 0, rune := 97, mod := 4, event := 1, shifted := 65 } 1 ∧
    (encodeKittyKey { code := 0, rune := 97, mod := 4 } 1).isSome = true ∧
    encodeKittyKey { code := 0, rune := 97, mod := 4 } 1 ≠ encodeKittyKey { code := 0, rune := 97, mod := 6 } 1 := by
  refine ⟨⟨by decide, fun _ => by decide⟩, by decide, by decide, by decide⟩
/-- legacy mode: cursor key in application mode `SS3 A`, with ctrl `CSI 1;5A`; ctrl+a → 0x01,
alt+é → ESC + UTF-8, modifyOtherKeys ctrl+a → `CSI 27;5;97~`, Menu → `CSI 57363 u` -/
example : encodeKey 0 0 true { code := 1 } = [0x1b, 0x4f, 0x41] ∧
    encodeKey 0 0 true { code := 1, mod := 4 } = [0x1b, 0x5b, 0x31, 0x3b, 0x35, 0x41] ∧
    encodeKey 0 0 false { code := 0, rune := 97, mod := 4 } = [0x01] ∧
    encodeKey 0 0 false { code := 0, rune := 233, mod := 2 } = [0x1b, 0xc3, 0xa9] ∧
    encodeKey 0 2 false { code := 0, rune := 97, mod := 4 } = [0x1b, 0x5b, 0x32, 0x37, 0x3b, 0x35, 0x3b, 0x39, 0x37, 0x7e] ∧
    encodeKey 0 0 false { code := 55 } = [0x1b, 0x5b, 0x35, 0x37, 0x33, 0x36, 0x33, 0x75] := by decide

/-- Kitty mode ignores DECCKM (no `SS3`), and omits the `1` of the letter form without modifiers -/
example : encodeKey 1 0 true { code := 1 } = [0x1b, 0x5b, 0x41] ∧
    encodeKey 1 0 true { code := 1, mod := 1 } = [0x1b, 0x5b, 0x31, 0x3b, 0x32, 0x41] := by decide
/-- the decoder is strict: `CSI R` (removed from the document), a modifyOtherKeys sequence,
`SS3 A`, a modifier value 0, an event type 4 and a missing final are all rejected;
`CSI 0 ; ; 229 u` (pure text event) and an explicit press `:1` are accepted -/
example : decode [0x1b, 0x5b, 0x52] = none ∧
    decode [0x1b, 0x5b, 0x32, 0x37, 0x3b, 0x35, 0x3b, 0x39, 0x37, 0x7e] = none ∧
    decode [0x1b, 0x4f, 0x41] = none ∧
    decode [0x1b, 0x5b, 0x39, 0x37, 0x3b, 0x30, 0x75] = none ∧
    decode [0x1b, 0x5b, 0x39, 0x37, 0x3b, 0x31, 0x3a, 0x34, 0x75] = none ∧
    decode [0x1b, 0x5b] = none ∧
    decode [0x1b, 0x5b, 0x30, 0x3b, 0x3b, 0x32, 0x32, 0x39, 0x75] = some ⟨0, none, none, 0, 1, [229], 0x75⟩ ∧
    decode [0x1b, 0x5b, 0x39, 0x37, 0x3b, 0x35, 0x3a, 0x31, 0x75] = some ⟨97, none, none, 4, 1, [], 0x75⟩ := by decide
/-- key numbers: text keys are their code point; Escape 27, Enter 13, Tab 9, Backspace 127;
F3 is `13 ~`, Up is `1 A`, Menu is 57363, KP_5 is 57404, ISO_LEVEL5_SHIFT is 57454; key codes
outside the table have no identity -/
example : keyId { code := 0, rune := 0x20ac } = some (0x20ac, 0x75) ∧
    keyId { code := 14 } = some (27, 0x75) ∧ keyId { code := 13 } = some (13, 0x75) ∧
    keyId { code := 12 } = some (9, 0x75) ∧ keyId { code := 11 } = some (127, 0x75) ∧
    keyId { code := 17 } = some (13, 0x7e) ∧ keyId { code := 1 } = some (1, 0x41) ∧
    keyId { code := 55 } = some (57363, 0x75) ∧ keyId { code := 61 } = some (57404, 0x75) ∧
    keyId { code := 111 } = some (57454, 0x75) ∧ keyId { code := 112 } = none := by decide
/-- the canonical encoder on the content of ctrl+a -/
example : encode ⟨97, none, none, 4, 1, [], 0x75⟩ = [0x1b, 0x5b, 0x39, 0x37, 0x3b, 0x35, 0x75] := by decide

#print axioms TM.C12.functionalCode_matches_protocol
#print axioms TM.C12.functionalCode_injective
#print axioms TM.C12.letter_tilde_matches_protocol
#print axioms TM.C12.release_silent
#print axioms TM.C12.release_legacy_silent
#print axioms TM.C12.mode_select_legacy
#print axioms TM.C12.mode_select_kitty
#print axioms TM.C12.mode_select_fallback
#print axioms TM.C12.kitty_reported_iff
#print axioms TM.C12.kitty_form
#print axioms TM.C12.kitty_form_fields
#print axioms TM.C12.encodeKittyKey_spec
#print axioms TM.C12.encodeKey_spec
#print axioms TM.C12.keyId_injective
#print axioms TM.C12.injective_on_disambiguated
#print axioms TM.C12.injective_all_keys
#print axioms TM.C12.legacy_form
#print axioms TM.C12.xtermModParam_eq
#print axioms TM.C12.keypad_matches_table

end TM.C12
