import TM.Run
import Props.C02
/-!
# C01 — no panic, termination

"For every byte stream delivered by the backend, cut into reads in any way, at every screen size
of at least 1x1, in either text mode, and interleaved with any sequence of Resize calls,
processing never panics and always consumes a finite input in finite time. Afterwards every read
accessor still returns without panicking."

Model-level reading. The model's functions are total, so "no panic" means that every index the
code uses is in range — which is what the invariant of `Props/C02.lean` gives for every reachable
state — and "finite time" means progress: every token spans at least one byte and at most the
bytes available, so the read loop `run` consumes every complete token with `length + 1` steps and
the fuel is never the reason it stops.
-/
namespace TM.C01
open TM TM.C02

/-! ## Helper lemmas: every parser phase makes progress and stays inside its input -/
namespace Lemmas

theorem decodeRune_size (bs : Bytes) (h : bs ≠ []) :
    1 ≤ (decodeRune bs).2 ∧ (decodeRune bs).2 ≤ bs.length := by
  cases bs with
  | nil => contradiction
  | cons b rest =>
    simp only [decodeRune]
    split <;> (try split) <;> simp <;> omega

theorem csiParams_spec (bs : Bytes) (p : PState) (n : Nat) (p' : PState) (body : Bytes) (n' : Nat)
    (h : csiParams bs p n = some (p', body, n')) : n ≤ n' ∧ n' + body.length = n + bs.length := by
  induction bs generalizing p n with
  | nil => simp [csiParams] at h
  | cons b rest ih =>
    simp only [csiParams] at h
    split at h
    · have := ih _ _ h
      simp only [List.length_cons]; omega
    · simp only [Option.some.injEq, Prod.mk.injEq] at h
      obtain ⟨_, rfl, rfl⟩ := h
      exact ⟨Nat.le_refl _, rfl⟩

theorem csiSkipParams_spec (bs : Bytes) (c : Bool) (n : Nat) (c' : Bool) (body : Bytes) (n' : Nat)
    (h : csiSkipParams bs c n = some (c', body, n')) :
    n ≤ n' ∧ n' + body.length = n + bs.length := by
  induction bs generalizing c n with
  | nil => simp [csiSkipParams] at h
  | cons b rest ih =>
    simp only [csiSkipParams] at h
    split at h
    · have := ih _ _ h
      simp only [List.length_cons]; omega
    · simp only [Option.some.injEq, Prod.mk.injEq] at h
      obtain ⟨_, rfl, rfl⟩ := h
      exact ⟨Nat.le_refl _, rfl⟩

theorem csiInter_spec (bs : Bytes) (c : Bool) (n : Nat) (c' : Bool) (f : UInt8) (n' : Nat)
    (h : csiInter bs c n = some (c', f, n')) : n < n' ∧ n' ≤ n + bs.length := by
  induction bs generalizing c n with
  | nil => simp [csiInter] at h
  | cons b rest ih =>
    simp only [csiInter] at h
    split at h
    · have := ih _ _ h
      simp only [List.length_cons]; omega
    · simp only [Option.some.injEq, Prod.mk.injEq] at h
      obtain ⟨_, _, rfl⟩ := h
      simp only [List.length_cons]; omega

theorem parseCSI_body (body : Bytes) (pre : UInt8) (n1 : Nat) (t : Tok) (n : Nat)
    (h : (match csiParams body {} n1 with
      | none => Step.need
      | some (p, body2, n2) =>
        match csiSkipParams body2 true n2 with
        | none => .need
        | some (clean, body3, n3) =>
          match csiInter body3 clean n3 with
          | none => .need
          | some (clean', fin, n4) => .tok (.csi pre p.finish clean' fin) n4) = .tok t n) :
    n1 < n ∧ n ≤ n1 + body.length := by
  split at h
  · cases h
  · next p body2 n2 h1 =>
    split at h
    · cases h
    · next clean body3 n3 h2 =>
      split at h
      · cases h
      · next clean' fin n4 h3 =>
        simp only [Step.tok.injEq] at h
        obtain ⟨_, rfl⟩ := h
        have a := csiParams_spec _ _ _ _ _ _ h1
        have b := csiSkipParams_spec _ _ _ _ _ _ h2
        have c := csiInter_spec _ _ _ _ _ _ h3
        omega

theorem parseCSI_spec (bs : Bytes) (n0 : Nat) (t : Tok) (n : Nat)
    (h : parseCSI bs n0 = .tok t n) : n0 < n ∧ n ≤ n0 + bs.length := by
  cases bs with
  | nil => simp [parseCSI] at h
  | cons b rest =>
    simp only [parseCSI] at h
    by_cases hp : (b = 0x3f || b = 0x3e || b = 0x3c || b = 0x3d) = true
    · simp only [hp, if_true] at h
      have := parseCSI_body _ _ _ _ _ h
      simp only [List.length_cons]; omega
    · simp only [hp] at h
      have := parseCSI_body _ _ _ _ _ h
      exact this

theorem strPayload_spec (be : Bool) (bs acc : Bytes) (need n : Nat) (acc' : Bytes) (n' : Nat)
    (h : strPayload be bs acc need n = some (acc', n')) : n < n' ∧ n' ≤ n + bs.length := by
  induction bs generalizing acc need n with
  | nil => simp [strPayload] at h
  | cons b rest ih =>
    simp only [strPayload] at h
    split at h
    · simp only [Option.some.injEq, Prod.mk.injEq] at h
      obtain ⟨_, rfl⟩ := h
      simp only [List.length_cons]; omega
    · split at h
      · simp only [Option.some.injEq, Prod.mk.injEq] at h
        obtain ⟨_, rfl⟩ := h
        simp only [List.length_cons]; omega
      · split at h
        · simp only [Option.some.injEq, Prod.mk.injEq] at h
          obtain ⟨_, rfl⟩ := h
          simp only [List.length_cons]; omega
        · have := ih _ _ _ h
          simp only [List.length_cons]; omega

theorem oscDigits_spec (bs acc : Bytes) (n : Nat) (ds rest : Bytes) (n' : Nat)
    (h : oscDigits bs acc n = some (ds, rest, n')) : n ≤ n' ∧ n' + rest.length = n + bs.length := by
  induction bs generalizing acc n with
  | nil => simp [oscDigits] at h
  | cons b tl ih =>
    simp only [oscDigits] at h
    split at h
    · have := ih _ _ h
      simp only [List.length_cons]; omega
    · simp only [Option.some.injEq, Prod.mk.injEq] at h
      obtain ⟨_, rfl, rfl⟩ := h
      exact ⟨Nat.le_refl _, rfl⟩

theorem parseOSC_spec (bs : Bytes) (n0 : Nat) (t : Tok) (n : Nat)
    (h : parseOSC bs n0 = .tok t n) : n0 < n ∧ n ≤ n0 + bs.length := by
  unfold parseOSC at h
  split at h
  · cases h
  · next ds rest n1 h1 =>
    have a := oscDigits_spec _ _ _ _ _ _ h1
    simp only at h
    split at h
    · cases h
    · next b rest' =>
      simp only [List.length_cons] at a
      split at h
      · split at h
        · cases h
        · next acc n2 h2 =>
          have b := strPayload_spec _ _ _ _ _ _ _ h2
          simp only [Step.tok.injEq] at h
          obtain ⟨_, rfl⟩ := h
          omega
      · split at h
        · simp only [Step.tok.injEq] at h
          obtain ⟨_, rfl⟩ := h
          omega
        · split at h
          · cases h
          · next acc n2 h2 =>
            have b := strPayload_spec _ _ _ _ _ _ _ h2
            simp only [Step.tok.injEq] at h
            obtain ⟨_, rfl⟩ := h
            omega

theorem parseDCS_spec (bs : Bytes) (n0 : Nat) (t : Tok) (n : Nat)
    (h : parseDCS bs n0 = .tok t n) : n0 < n ∧ n ≤ n0 + bs.length := by
  unfold parseDCS at h
  split at h
  · cases h
  · next acc n2 h2 =>
    have b := strPayload_spec _ _ _ _ _ _ _ h2
    simp only [Step.tok.injEq] at h
    obtain ⟨_, rfl⟩ := h
    omega

theorem escInter_spec (bs acc : Bytes) (n : Nat) (i : Bytes) (f : UInt8) (n' : Nat)
    (h : escInter bs acc n = some (i, f, n')) : n < n' ∧ n' ≤ n + bs.length := by
  induction bs generalizing acc n with
  | nil => simp [escInter] at h
  | cons b rest ih =>
    simp only [escInter] at h
    split at h
    · have := ih _ _ h
      simp only [List.length_cons]; omega
    · simp only [Option.some.injEq, Prod.mk.injEq] at h
      obtain ⟨_, _, rfl⟩ := h
      simp only [List.length_cons]; omega

theorem parseEsc_spec (bs : Bytes) (t : Tok) (n : Nat) (h : parseEsc bs = .tok t n) :
    1 < n ∧ n ≤ 1 + bs.length := by
  cases bs with
  | nil => simp [parseEsc] at h
  | cons b rest =>
    simp only [parseEsc] at h
    split at h
    · have := parseCSI_spec _ _ _ _ h
      simp only [List.length_cons]; omega
    · split at h
      · have := parseOSC_spec _ _ _ _ h
        simp only [List.length_cons]; omega
      · split at h
        · have := parseDCS_spec _ _ _ _ h
          simp only [List.length_cons]; omega
        · split at h
          · cases h
          · next inter fin n2 h2 =>
            have := escInter_spec _ _ _ _ _ _ h2
            simp only [Step.tok.injEq] at h
            obtain ⟨_, rfl⟩ := h
            exact this

end Lemmas
open Lemmas

/-! ## 1. progress of the tokeniser -/

/-- every token spans at least one byte and at most the bytes that are there -/
theorem next_progress (bs : Bytes) (t : Tok) (n : Nat) (h : next bs = .tok t n) :
    0 < n ∧ n ≤ bs.length := by
  cases bs with
  | nil => simp [next] at h
  | cons b rest =>
    simp only [next] at h
    split at h
    · split at h
      · simp only [Step.tok.injEq] at h
        obtain ⟨_, rfl⟩ := h
        have := decodeRune_size (b :: rest) (by simp)
        omega
      · cases h
    · split at h
      · have := parseEsc_spec _ _ _ h
        simp only [List.length_cons]; omega
      · simp only [Step.tok.injEq] at h
        obtain ⟨_, rfl⟩ := h
        simp

/-- the tokeniser never asks for more input when a whole control byte is available, and never
    produces a token from no input -/
theorem next_nil : next [] = .need := rfl

/-! ## 2. the read loop terminates by consuming its input -/

/-- With more fuel than bytes the loop stops only because no complete token is left: what
    remains is a suffix of the input on which the tokeniser needs more bytes. -/
theorem runFuel_consumes (cw : Nat → Nat) (fuel : Nat) (t : Term) (bs : Bytes) (evs : List Ev)
    (hf : bs.length < fuel) :
    let r := runFuel cw fuel t bs evs
    next r.2.2 = .need ∧ ∃ k, k ≤ bs.length ∧ r.2.2 = bs.drop k := by
  induction fuel generalizing t bs evs with
  | zero => omega
  | succ fuel ih =>
    simp only [runFuel]
    split
    · next hn => exact ⟨hn, 0, Nat.zero_le _, rfl⟩
    · next tk n hn =>
      obtain ⟨h1, h2⟩ := next_progress bs tk n hn
      have hl : (bs.drop n).length < fuel := by rw [List.length_drop]; omega
      obtain ⟨a, k, hk, e⟩ := ih (t.apply cw tk).1 (bs.drop n) (evs ++ (t.apply cw tk).2) hl
      refine ⟨a, n + k, ?_, ?_⟩
      · rw [List.length_drop] at hk; omega
      · rw [e, List.drop_drop]

/-- extra fuel changes nothing: the fuel is never the reason the loop stops -/
theorem runFuel_fuel_irrelevant (cw : Nat → Nat) (fuel k : Nat) (t : Term) (bs : Bytes)
    (evs : List Ev) (hf : bs.length < fuel) :
    runFuel cw (fuel + k) t bs evs = runFuel cw fuel t bs evs := by
  induction fuel generalizing t bs evs with
  | zero => omega
  | succ fuel ih =>
    have e : fuel + 1 + k = (fuel + k) + 1 := by omega
    rw [e]
    simp only [runFuel]
    split
    · rfl
    · next tk n hn =>
      obtain ⟨h1, h2⟩ := next_progress bs tk n hn
      exact ih _ _ _ (by rw [List.length_drop]; omega)

/-- `run` consumes every complete token: the unconsumed rest is a suffix of the input, not longer
    than it, and either empty or an incomplete sequence / character; and the result does not
    depend on the fuel bound `length + 1` built into `run`. -/
theorem run_consumes (cw : Nat → Nat) (t : Term) (bs : Bytes) :
    let r := run cw t bs
    r.2.2.length ≤ bs.length ∧ (r.2.2 = [] ∨ next r.2.2 = .need) ∧
    (∃ k, k ≤ bs.length ∧ r.2.2 = bs.drop k) ∧
    ∀ k, runFuel cw (bs.length + 1 + k) t bs [] = r := by
  obtain ⟨a, k, hk, e⟩ := runFuel_consumes cw (bs.length + 1) t bs [] (by omega)
  refine ⟨?_, Or.inr a, ⟨k, hk, e⟩, fun k' => runFuel_fuel_irrelevant cw _ k' t bs [] (by omega)⟩
  show (runFuel cw (bs.length + 1) t bs []).2.2.length ≤ _
  rw [e, List.length_drop]; omega

/-- the number of tokens processed by `run` is at most the number of bytes: `n` steps of fuel
    suffice whenever `n > length` (finite time) -/
theorem run_steps_bounded (cw : Nat → Nat) (t : Term) (bs : Bytes) (n : Nat) (hn : bs.length < n) :
    runFuel cw n t bs [] = run cw t bs := by
  have : n = bs.length + 1 + (n - (bs.length + 1)) := by omega
  rw [this]
  exact (run_consumes cw t bs).2.2.2 _

/-! ## 3. read accessors index inside the grid -/

/-- In a state satisfying the geometric invariant, row `y < h` of the active screen has exactly
    `w` cells (so `Line(y)`, `StyledLine(x,w,y)`, `ANSILine(y)`, for arguments inside the screen,
    index inside the row), the cursor is a valid cell and the margins are valid rows. -/
theorem accessors_in_range (t : Term) (h : t.geo) :
    t.scr.grid.length = t.scr.h ∧ (∀ y, y < t.scr.h → (t.scr.row y).length = t.scr.w) ∧
    t.scr.cx < t.scr.w ∧ t.scr.cy < t.scr.h ∧ ((t.scr.row t.scr.cy)[t.scr.cx]?).isSome ∧
    t.scr.top ≤ t.scr.bot ∧ t.scr.bot < t.scr.h := by
  have hs : t.scr.geo := by unfold Term.scr; split; exact h.2.1; exact h.1
  obtain ⟨_, _, gl, rl, cx, cy, _, _, tb, bl⟩ := hs
  have hrow : ∀ y, y < t.scr.h → (t.scr.row y).length = t.scr.w := by
    intro y hy
    have hy' : y < t.scr.grid.length := by rw [gl]; exact hy
    simp only [Scr.row, List.getD_eq_getElem?_getD, List.getElem?_eq_getElem hy', Option.getD_some]
    exact rl _ (List.getElem_mem hy')
  refine ⟨gl, hrow, cx, cy, ?_, tb, bl⟩
  rw [List.getElem?_eq_getElem (by rw [hrow _ cy]; exact cx)]
  rfl

/-- the same for the buffer that is not shown -/
theorem accessors_in_range_both (t : Term) (h : t.geo) (b : Term → Scr)
    (hb : b = Term.main ∨ b = Term.alt) (y : Nat) (hy : y < (b t).h) :
    ((b t).row y).length = (b t).w := by
  have hs : (b t).geo := by rcases hb with rfl | rfl; exact h.1; exact h.2.1
  obtain ⟨_, _, gl, rl, _⟩ := hs
  have hy' : y < (b t).grid.length := by rw [gl]; exact hy
  simp only [Scr.row, List.getD_eq_getElem?_getD, List.getElem?_eq_getElem hy', Option.getD_some]
  exact rl _ (List.getElem_mem hy')

/-! ## 4. the whole system: reads cut in any way, interleaved with resizes -/

/-- what can happen to the reader + terminal: a chunk of bytes arrives, or the frontend resizes -/
inductive SysOp
  | read (chunk : Bytes)
  | resize (w h : Nat)

def SysOp.valid : SysOp → Prop
  | .read _ => True
  | .resize w h => 1 ≤ w ∧ 1 ≤ h

def SysOp.step (cw : Nat → Nat) (s : Sys) : SysOp → Sys
  | .read c => (s.feed cw c).1
  | .resize w h => { s with t := (s.t.resize w h).1 }

def runSys (cw : Nat → Nat) (s : Sys) (ops : List SysOp) : Sys := ops.foldl (SysOp.step cw) s

/-- the invariant of the whole system: valid terminal, and the pending bytes are an incomplete
    sequence (everything complete has been consumed) -/
def SysOK (s : Sys) : Prop := s.t.wf ∧ next s.pending = .need

theorem sysStep_ok (cw : Nat → Nat) (s : Sys) (h : SysOK s) (op : SysOp)
    (hv : op.valid) : SysOK (op.step cw s) ∧ (op.step cw s).t.pol = s.t.pol := by
  cases op with
  | read c =>
    refine ⟨⟨run_wf cw s.t h.1 _, ?_⟩, run_pol cw s.t h.1 _⟩
    exact (runFuel_consumes cw _ s.t (s.pending ++ c) [] (Nat.lt_succ_self _)).1
  | resize w h' => exact ⟨⟨resize_wf s.t w h' hv.1 hv.2 h.1, h.2⟩, rfl⟩

/-- For every script of reads (the byte stream cut in any way) and resizes to positive sizes, from
    a fresh terminal of any size ≥ 1×1 under either policy: processing reaches a state that
    satisfies the invariant (so every index used by the accessors is in range, see
    `accessors_in_range`) and has consumed every complete token. -/
theorem system_never_stuck (cw : Nat → Nat) (pol : WidePolicy) (w h : Nat)
    (hw : 1 ≤ w) (hh : 1 ≤ h) (ops : List SysOp) (hv : ∀ op ∈ ops, op.valid) :
    let s := runSys cw { t := Term.init pol w h } ops
    s.t.wf ∧ s.t.geo ∧ next s.pending = .need ∧
      ∀ y, y < s.t.scr.h → (s.t.scr.row y).length = s.t.scr.w := by
  have key : ∀ (ops : List SysOp) (s : Sys), SysOK s →
      (∀ op ∈ ops, op.valid) → SysOK (runSys cw s ops) := by
    intro ops
    induction ops with
    | nil => intro s h _; exact h
    | cons op ops ih =>
      intro s h hv
      obtain ⟨h1, _⟩ := sysStep_ok cw s h op (hv op List.mem_cons_self)
      exact ih (op.step cw s) h1 (fun o ho => hv o (List.mem_cons_of_mem _ ho))
  have := key ops { t := Term.init pol w h } ⟨init_wf pol w h hw hh, rfl⟩ hv
  exact ⟨this.1, wf_geo this.1, this.2, (accessors_in_range _ (wf_geo this.1)).2.1⟩

/-! ## Non-vacuity -/
section Examples

example : next [0x1b, 0x5b, 0x33, 0x31, 0x6d, 0x41] = .tok (.csi 0 [31] true 0x6d) 5 := by decide
example : next [0x1b, 0x5b, 0x33] = .need := by decide
-- an incomplete sequence stays pending, a complete one is consumed
example : (run C02.cw2 (Term.init .blank 4 2) [0x61, 0x1b, 0x5b, 0x33]).2.2 = [0x1b, 0x5b, 0x33] := by
  decide
example : SysOp.valid (.resize 1 1) := ⟨by omega, by omega⟩
example : (Term.init .keep 1 1).geo := init_geo _ _ _ (by omega) (by omega)

end Examples

end TM.C01

#print axioms TM.C01.next_progress
#print axioms TM.C01.runFuel_consumes
#print axioms TM.C01.runFuel_fuel_irrelevant
#print axioms TM.C01.run_consumes
#print axioms TM.C01.run_steps_bounded
#print axioms TM.C01.accessors_in_range
#print axioms TM.C01.accessors_in_range_both
#print axioms TM.C01.system_never_stuck
